"""C17 — bitset equals std::bitset for every size and operation history (DESIGN §4 C17)."""
import random

from lib import Case, fmt_list

PROP = "C17"
DRIVER = "drv-c17"
PROOF_MODULES = ["TetlProofs.C17.Props"]
HARNESS = "harness/c17.cpp"
# 65 instantiations (13 widths x 5 storage kinds): -O0 -g0 keeps the sanitizer build at ~20 s
HARNESS_FLAGS = ["-O0", "-g0"]
SOURCES = ["include/etl/_bitset/bitset.hpp", "include/etl/_bitset/basic_bitset.hpp", "include/etl/_bit/set_bit.hpp",
           "include/etl/_bit/reset_bit.hpp", "include/etl/_bit/test_bit.hpp", "include/etl/_bit/flip_bit.hpp",
           "include/etl/_bit/popcount.hpp"]

WIDTHS = [1, 7, 8, 9, 31, 32, 33, 63, 64, 65, 127, 128, 129]
SMALL = [1, 7, 8, 9]
KINDS = ["bs", "8", "16", "32", "64"]           # etl::bitset<N>, basic_bitset<N, uintK_t>
WORD = {"bs": 64, "8": 8, "16": 16, "32": 32, "64": 64}

RULE = ("histories over four live objects of one type; widths {1,7,8,9,31,32,33,63,64,65,127,128,129} x {etl::bitset, "
        "basic_bitset with uint8/16/32/64 words}.  Exhaustive for N in {1,7,8,9}: every value (from unsigned long long) x "
        "every single operation with every position / bool / second operand from a pattern set "
        "(set, reset, flip whole and single, proxy assign/flip/copy, &= |= ^= & | ^ ~, ==, to_ulong/to_ullong, to_string), and "
        "every string over {zero,one} up to length 4 x every pos x every n (incl. npos) for the string constructors; "
        "beyond that seeded random histories up to length 60 mixing whole-set, single-bit, binary and constructor "
        "operations with positions biased to 0, N-1 and word boundaries +-1.  After EVERY mutating line the target's full "
        "observable state (all bits through test/operator[] const, count, all, any, none) is compared.  A case is "
        "non-trivial when its history reaches at least two different states one of which has both a set and a clear bit "
        "(or N = 1); distinct = distinct case text.")
ASSUMPTIONS = ["std::bitset of libstdc++ 12 is the reference for spec validation (R2)",
               "preconditions excluded from generation: pos < size() for single-bit members; string constructors: pos <= size(), "
               "every used character is zero or one, no NUL inside a C string, n <= length or npos for the pointer overload "
               "(std throws for the first two, the rest is UB in both)",
               "popcount is a compiler builtin on the run-time path: modelled as the number of one bits (property C14 owns it)",
               "unsigned long and unsigned long long are 64 bits (LP64)"]
TRUSTED = ["hand model Tetl/C17/Model.lean tied to the source by the correspondence run (R1) on every run",
           "spec Tetl/C17/Spec.lean (bit positions -> Bool) validated against libstdc++ std::bitset (R2) on every run"]
_P = "Tetl.C17.Props."
_H = [_P + "step_rep", _P + "run_refines", _P + "padding_inv_history", _P + "run_observers"]
THEOREMS = {
    "new": [_P + "init_rep"], "set_all": [_P + "setAll_rep"] + _H, "reset_all": [_P + "resetAll_rep"] + _H,
    "flip_all": [_P + "flipAll_rep"] + _H, "set": [_P + "set_rep", _P + "uncheckedSet_rep"] + _H,
    "reset": [_P + "reset_rep", _P + "uncheckedReset_rep"] + _H, "flip": [_P + "flip_rep", _P + "uncheckedFlip_rep"] + _H,
    "ref_assign": [_P + "refAssign_rep"] + _H, "ref_flip": [_P + "refFlip_rep"] + _H,
    "ref_copy": [_P + "refGet_eq", _P + "refAssign_rep"] + _H,
    "and": [_P + "andAssign_rep"] + _H, "or": [_P + "orAssign_rep"] + _H, "xor": [_P + "xorAssign_rep"] + _H,
    "band": [_P + "andAssign_rep"] + _H, "bor": [_P + "orAssign_rep"] + _H, "bxor": [_P + "xorAssign_rep"] + _H,
    "assign": _H, "not": [_P + "not_rep"] + _H, "from_ull": [_P + "fromUll_rep"] + _H,
    "from_str": [_P + "fromString_rep", _P + "fromCstr_rep"] + _H,
    "probe": [_P + "test_eq", _P + "uncheckedTest_eq", _P + "getConst_eq", _P + "refGet_eq", _P + "refNot_eq"],
    "eq": [_P + "eq_eq"], "to_ullong": [_P + "toUnsigned_partial", _P + "toUnsigned_counterexample"],
    "to_ulong": [_P + "toUnsigned_partial", _P + "toUnsigned_counterexample"], "to_string": [_P + "toStr_eq"],
}
SEARCH_CAP = 20000

F_WIDE = "F-C17-to-ullong-wide-absent"


def hl(v):
    return "hi=%d lo=%d" % (v >> 32, v & 0xFFFFFFFF)


def boundary_positions(n, w):
    ps = {0, n - 1, n // 2}
    for b in range(w, n + w, w):
        for d in (-1, 0, 1):
            if 0 <= b + d < n:
                ps.add(b + d)
    return sorted(ps)


def patterns(n, v, rnd):
    full = (1 << n) - 1
    rot = ((v << 1) | (v >> (n - 1))) & full if n > 1 else v
    return [0, full, v, full ^ v, rot, rnd.getrandbits(n)]


def single_op_case(n, kind, v, rnd):
    """one value x every single operation; object 0 holds the value, 2 is the scratch copy"""
    bs = kind == "bs"
    L = ["new N=%d w=%s" % (n, kind), "from_ull o=0 %s" % hl(v), "from_ull o=1 %s" % hl(rnd.getrandbits(n))]

    def fresh(line):
        L.append("assign o=2 src=0")
        L.append(line)

    for op in ("set_all", "reset_all", "flip_all"):
        fresh("%s o=2" % op)
    for p in range(n):
        for b in (0, 1):
            fresh("set o=2 pos=%d v=%d" % (p, b))
            fresh("ref_assign o=2 pos=%d v=%d" % (p, b))
        fresh("reset o=2 pos=%d" % p)
        fresh("flip o=2 pos=%d" % p)
        fresh("ref_flip o=2 pos=%d" % p)
        for sp in sorted({0, n - 1, p}):
            fresh("ref_copy o=2 pos=%d src=1 spos=%d" % (p, sp))
        L.append("probe o=0 pos=%d" % p)
    for v2 in patterns(n, v, rnd):
        L.append("from_ull o=1 %s" % hl(v2))
        for op in ("and", "or", "xor"):
            fresh("%s o=2 rhs=1" % op)
        for op in ("band", "bor", "bxor"):
            L.append("%s o=3 a=0 b=1" % op)
        L.append("eq o=0 rhs=1")
    L.append("assign o=2 src=0")
    L.append("eq o=0 rhs=2")
    if bs:
        L.append("not o=3 src=0")
        L.append("to_ullong o=0")
        L.append("to_ulong o=0")
        L.append("to_string o=0 cap=%d" % n)
        L.append("to_string o=0 cap=%d zero=%d one=%d" % (n + 5, rnd.choice([48, 42, 79]), rnd.choice([49, 88, 200])))
    return L


def all_strings(maxlen, z, o):
    out = [[]]
    level = [[]]
    for _ in range(maxlen):
        level = [s + [c] for s in level for c in (z, o)]
        out += level
    return out


def str_line(o, s, pos, n, z=None, one=None, ov="sv"):
    ln = "from_str o=%d s=%s pos=%s n=%s" % (o, fmt_list(s), pos, n)
    if z is not None:
        ln += " zero=%d one=%d" % (z, one)
    if ov != "sv":
        ln += " ov=" + ov
    return ln


def string_ctor_cases(n, rnd):
    """every string up to length 4 x every pos x every n, view and pointer overloads"""
    cases = []
    for (z, o) in ((None, None), (65, 66)):
        zz, oo = (48, 49) if z is None else (z, o)
        L = ["new N=%d w=bs" % n]
        for s in all_strings(4, zz, oo):
            for pos in range(len(s) + 1):
                for cnt in list(range(len(s) + 2)) + ["npos"]:
                    L.append(str_line(0, s, pos, cnt, z, o))
            for cnt in list(range(len(s) + 1)) + ["npos"]:
                L.append(str_line(1, s, 0, cnt, z, o, "cstr"))
        cases.append(Case(L, "str-exh/N%d" % n))
    return cases


def rand_value(n, rnd):
    r = rnd.random()
    full = (1 << min(n, 64)) - 1
    if r < 0.15:
        return 0
    if r < 0.3:
        return (1 << 64) - 1
    if r < 0.4:
        return 1 << rnd.randrange(64)
    if r < 0.5:
        return full
    if r < 0.6:
        return full ^ (1 << rnd.randrange(min(n, 64)))
    return rnd.getrandbits(64)


def rand_string(n, rnd):
    z, o = rnd.choice([(48, 49), (48, 49), (65, 66), (120, 200), (49, 48)])
    ln = rnd.choice([0, 1, 2, max(n - 1, 0), n, n, n + 1, n + 3, rnd.randint(0, n + 4)])
    r = rnd.random()
    if r < 0.15:
        s = [o] * ln
    elif r < 0.25:
        s = [z] * ln
    else:
        s = [rnd.choice((z, o)) for _ in range(ln)]
    return s, z, o


def random_history(n, kind, rnd, length):
    bs = kind == "bs"
    w = WORD[kind]
    bp = boundary_positions(n, w)
    L = ["new N=%d w=%s" % (n, kind)]

    def pos():
        return rnd.choice(bp) if rnd.random() < 0.6 else rnd.randrange(n)

    def obj():
        return rnd.randrange(4)

    whole = ["set_all", "reset_all", "flip_all"]
    for _ in range(length):
        r = rnd.random()
        o = obj()
        if r < 0.14:
            L.append("%s o=%d" % (rnd.choice(whole), o))
        elif r < 0.34:
            k = rnd.choice(["set", "reset", "flip", "ref_assign", "ref_flip"])
            if k in ("set", "ref_assign"):
                L.append("%s o=%d pos=%d v=%d" % (k, o, pos(), rnd.randint(0, 1)))
            else:
                L.append("%s o=%d pos=%d" % (k, o, pos()))
        elif r < 0.38:
            L.append("ref_copy o=%d pos=%d src=%d spos=%d" % (o, pos(), obj(), pos()))
        elif r < 0.50:
            L.append("%s o=%d rhs=%d" % (rnd.choice(["and", "or", "xor"]), o, obj()))
        elif r < 0.58:
            L.append("%s o=%d a=%d b=%d" % (rnd.choice(["band", "bor", "bxor"]), o, obj(), obj()))
        elif r < 0.62:
            L.append("assign o=%d src=%d" % (o, obj()))
        elif r < 0.70:
            L.append("from_ull o=%d %s" % (o, hl(rand_value(n, rnd))))
        elif r < 0.78:
            L.append("eq o=%d rhs=%d" % (o, obj()))
        elif r < 0.84:
            L.append("probe o=%d pos=%d" % (o, pos()))
        elif bs:
            if r < 0.88:
                L.append("not o=%d src=%d" % (o, obj()))
            elif r < 0.94:
                s, z, one = rand_string(n, rnd)
                if rnd.random() < 0.3:
                    cnt = rnd.choice(["npos"] + list(range(len(s) + 1)))
                    L.append(str_line(o, s, 0, cnt, None if (z, one) == (48, 49) and rnd.random() < 0.5 else z, one, "cstr"))
                else:
                    p = rnd.choice([0, 0, rnd.randint(0, len(s)), len(s)])
                    cnt = rnd.choice(["npos", "npos", rnd.randint(0, len(s) + 2), n, max(len(s) - p, 0)])
                    L.append(str_line(o, s, p, cnt, None if (z, one) == (48, 49) and rnd.random() < 0.5 else z, one))
            elif r < 0.97:
                L.append("%s o=%d" % (rnd.choice(["to_ullong", "to_ulong"]), o))
            else:
                if rnd.random() < 0.5:
                    L.append("to_string o=%d cap=%d" % (o, rnd.choice([n, n + 5])))
                else:
                    L.append("to_string o=%d cap=%d zero=%d one=%d" % (o, rnd.choice([n, n + 5]), rnd.choice([48, 42, 79]),
                                                                        rnd.choice([49, 88, 200])))
        else:
            L.append("%s o=%d" % (rnd.choice(whole), o))
    return L


def generate(tier, seed):
    rnd = random.Random(seed)
    thorough = tier == "thorough"
    cases = []
    dist = {}

    def add(lines, tag):
        cases.append(Case(lines, tag))
        dist[tag] = dist.get(tag, 0) + 1
        for ln in lines[1:]:
            k = "op:" + ln.split(" ", 1)[0]
            dist[k] = dist.get(k, 0) + 1

    # 1. small widths: every value x every single operation
    for n in SMALL:
        for kind in KINDS:
            vals = range(1 << n)
            if not thorough and kind in ("16", "32") and n == 9:
                vals = sorted(set(rnd.sample(range(1 << n), 128)) | {0, (1 << n) - 1})
            for v in vals:
                add(single_op_case(n, kind, v, rnd), "exh/N%d/%s" % (n, kind))
    # 2. string constructors on the small box
    for n in SMALL:
        for c in string_ctor_cases(n, rnd):
            add(c.lines, c.tag)
    # 3. the known API gap: to_ulong / to_ullong on sets wider than 64 bits
    for n in (65, 127, 128, 129):
        add(["new N=%d w=bs" % n, "from_ull o=0 %s" % hl(rnd.getrandbits(64)), "to_ullong o=0", "to_ulong o=0",
             "set o=0 pos=%d v=1" % (n - 1), "to_ullong o=0"], "wide-to-ullong/N%d" % n)
    # 4. random histories at every width and storage kind
    per = 1200 if thorough else 30
    for n in WIDTHS:
        for kind in KINDS:
            for _ in range(per):
                add(random_history(n, kind, rnd, rnd.choice([8, 20, 40, 60])), "rand/N%d/%s" % (n, kind))
    return cases, False, dist


def width_of(case):
    for tok in case.lines[0].split():
        if tok.startswith("N="):
            return int(tok[2:])
    return 0


def nontrivial(case, rows):
    n = width_of(case)
    states = set()
    mixed = n == 1
    for r in rows:
        s = r.spec
        i = s.find("s=")
        if i < 0:
            continue
        bits = s[i + 2:].split(" ", 1)[0]
        states.add(bits)
        if "0" in bits and "1" in bits:
            mixed = True
    return mixed and len(states) >= 2


def classify(case, k, row):
    """known finding F_WIDE: the member does not exist for Bits > 64 (requires-clause); same predicate as the
    hypothesis `N <= 64` of C17.Props.toUnsigned_partial."""
    op = case.lines[k].split(" ", 1)[0]
    if op in ("to_ullong", "to_ulong") and width_of(case) > 64:
        return F_WIDE
    return None


def group_of(case):
    return case.tag.split("/")[0]


CLAIMED = True
TECHNIQUE = ("Lean 4 proof: padding invariant + refinement of the word-array model to a bit-position function by induction over "
             "histories, for every width and word size; model tied to the code by exhaustive small-width + random-history "
             "correspondence run")
LEVEL_TEXT = ("A word-array model of basic_bitset/bitset (BitVec words, checked reads/writes, the source's masks, loops and "
              "preconditions; width N and word size 2^k are parameters) is proved in Lean 4 to refine the bit-position "
              "specification of std::bitset for EVERY N >= 1, every word size and every valid history of unbounded length: no "
              "operation ever returns an error (no out-of-range word access, no over-wide shift), the padding bits of the last "
              "word stay zero, and the observers return the specified values.  The model is tied to the current source on every "
              "run by executing model and implementation (ASan/UBSan) on the same histories: exhaustive for N in {1,7,8,9} x 5 "
              "storage kinds (every value x every single operation), random histories to length 60 at the 13 widths around the "
              "word boundaries; the spec is validated against libstdc++ std::bitset on the same lines.")
LEVEL_NOTE = ("Trusted: Lean kernel + propext/Classical.choice/Quot.sound; the hand model's fidelity outside the explored "
              "histories; popcount builtin = number of one bits; g++-12/ASan; libstdc++ as oracle for spec validation. Members "
              "listed in coverage.correspondence_only have no theorem yet and are covered by the differential run only.")
# covered by the differential run only (no Lean theorem)
CORRESPONDENCE_ONLY = [
    "to_ulong/to_ullong for Bits > 64: the member does not exist (known finding F-C17-to-ullong-wide-absent)",
    "defaulted arguments (set(pos) with value defaulted, to_string() with default characters, string constructors with pos/n/zero/one "
    "defaulted): same bodies as the proved members, the defaults themselves are exercised by the harness only",
    "popcount builtin (modelled as the number of one bits; the loop fallback belongs to C14)",
    "character types other than char for the string constructors / to_string (not instantiated)",
]
