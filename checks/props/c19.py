"""C19 — multidimensional and contiguous views address exactly the elements they span (DESIGN §4 C19).

`python3 checks/props/c19.py --emit-inst > harness/c19_inst.inc` regenerates the list of template
instantiations the harness is built with (extents patterns are template parameters).
"""
import hashlib
import itertools
import os
import random
import sys

if __name__ == "__main__":
    sys.path.insert(0, os.path.dirname(os.path.dirname(os.path.abspath(__file__))))
from lib import Case, fmt_list, MachineryError, VERIF  # noqa: E402

PROP = "C19"
DRIVER = "drv-c19"
PROOF_MODULES = ["TetlProofs.C19.Props"]
HARNESS = "harness/c19.cpp"
SRC = HARNESS
HARNESS_FLAGS = ["-O0"]          # several hundred extents types x 3 layouts: -O0 keeps the build short
# a dangling `extents()` reference (mdspan over layout_transpose) is only visible with this ASan mode
HARNESS_ENV = {"ASAN_OPTIONS": "detect_leaks=1:abort_on_error=0:halt_on_error=1:allocator_may_return_null=1:"
                               "detect_stack_use_after_return=1"}
SOURCES = ["include/etl/_mdspan", "include/etl/_mdarray/mdarray.hpp", "include/etl/_linalg/layout_transpose.hpp",
           "include/etl/_span/span.hpp", "include/etl/_array/array.hpp"]
SEARCH_CAP = 400000

ITS = {"i8": (8, True), "u8": (8, False), "i16": (16, True), "u16": (16, False),
       "i32": (32, True), "u32": (32, False), "i64": (64, True), "u64": (64, False)}
CTYPE = {"i8": "std::int8_t", "u8": "std::uint8_t", "i16": "std::int16_t", "u16": "std::uint16_t",
         "i32": "std::int32_t", "u32": "std::uint32_t", "i64": "std::int64_t", "u64": "std::uint64_t"}


def it_max(it):
    b, s = ITS[it]
    return 2 ** (b - 1) - 1 if s else 2 ** b - 1


# ---------------------------------------------------------------- instantiated extents types

R4_TUPLES = [(4, 4, 4, 4), (2, 3, 4, 1), (0, 2, 3, 4), (3, 0, 1, 2), (2, 4, 3, 0), (1, 1, 2, 3)]
R3_TUPLES = [(2, 3, 4), (0, 2, 3), (3, 0, 4), (4, 1, 0)]

# The harness is one translation unit; the thorough build (-DC19_THOROUGH) instantiates the full lists,
# the quick build a subset (compile time 45 s instead of 100 s).  The tier of the *build* is fixed here.
THOROUGH_BUILD = ("thorough" in sys.argv) or os.environ.get("VERIF_TIER") == "thorough"
HARNESS_FLAGS = HARNESS_FLAGS + (["-DC19_THOROUGH"] if THOROUGH_BUILD else [])


def masks_over(tuples):
    out = []
    for tup in tuples:
        for mask in itertools.product([0, 1], repeat=len(tup)):
            p = tuple(-1 if m else v for m, v in zip(mask, tup))
            if p not in out:
                out.append(p)
    return out


def dedup(xs):
    seen, out = set(), []
    for x in xs:
        if x not in seen:
            seen.add(x)
            out.append(x)
    return out


def type_list(thorough):
    """extents-only instantiations (light): op `ext`.  Returns (quick list, extra list of the thorough build).
    int: every static/dynamic pattern with static values 0..4 for rank <= 2 (thorough: <= 3), every mask over four
    (thorough: all 125) value tuples of rank 3 and over two (six) tuples of rank 4; other index types: all-dynamic
    rank 0..4 and every mask over a few tuples of rank 1..3."""
    q = []
    for r in range(0, 3):
        q += [("i32", tuple(p)) for p in itertools.product([-1, 0, 1, 2, 3, 4], repeat=r)]
    q += [("i32", p) for p in masks_over(R3_TUPLES)]
    q += [("i32", p) for p in masks_over(R4_TUPLES[:2])]
    po_q = [tuple([-1] * r) for r in range(0, 5)] + masks_over([(3,), (2, 3), (2, 3, 4)])
    for it in ITS:
        if it != "i32":
            q += [(it, p) for p in po_q]
    q = dedup(q)
    x = [("i32", tuple(p)) for p in itertools.product([-1, 0, 1, 2, 3, 4], repeat=3)]
    x += [("i32", p) for p in masks_over(R4_TUPLES)]
    po_x = masks_over([(0,), (0, 3), (4, 2), (3, 0, 2)])
    for it in ITS:
        if it != "i32":
            x += [(it, p) for p in po_x]
    x = [t for t in dedup(x) if t not in set(q)]
    return q + (x if thorough else []), x


def map_type_list(thorough):
    """instantiations of the mappings / mdspan / mdarray (heavy): op `map`.  A mapping sees its extents only
    through rank() and extent(i), which `ext` checks for every pattern; here: all-dynamic rank 0..4, all-static and
    masks over one value tuple per rank (int), all-dynamic rank 2 and 4 plus one mixed pattern (other types)."""
    q = [("i32", tuple([-1] * r)) for r in range(0, 5)]
    q += [("i32", p) for p in masks_over([(2, 3), (2, 3, 4)])]
    q += [("i32", p) for p in [(3,), (0, 3), (4, 4, 4, 4), (2, -1, 4, -1), (-1, 3, -1, 1), (2, 3, 4, 1)]]
    for it in ITS:
        if it != "i32":
            q += [(it, (-1, -1)), (it, (-1, -1, -1, -1)), (it, (2, -1, 4))]
    q = dedup(q)
    x = [("i32", p) for p in masks_over([(3,), (0, 3), (2, 3, 4, 1)]) + [(3, 0, 2), (0,), (4, 0, -1, 2)]]
    for it in ITS:
        if it != "i32":
            x += [(it, tuple([-1] * r)) for r in (0, 1, 3)] + [(it, (-1, 3))]
    x = [t for t in dedup(x) if t not in set(q)]
    return q + (x if thorough else []), x


def conv_list(thorough):
    """(dst it, src it, dst pattern, src pattern): every pair of masks over value vectors of rank 0..3"""
    def build(vecs, pairs):
        out = []
        for vec in vecs:
            r = len(vec)
            for dm in itertools.product([0, 1], repeat=r):
                for sm in itertools.product([0, 1], repeat=r):
                    dp = tuple(-1 if m else v for m, v in zip(dm, vec))
                    sp = tuple(-1 if m else v for m, v in zip(sm, vec))
                    for (a, b) in pairs:
                        out.append((a, b, dp, sp))
        return out
    q = dedup(build([(), (3,), (0,), (2, 3), (2, 3, 4)], [("i32", "u16")]) + build([(2, 3)], [("u8", "i64"), ("i64", "i32")]))
    x = build([(), (3,), (0,), (2, 3), (0, 4), (2, 3, 4), (3, 0, 2)], [("i32", "u16"), ("u8", "i64"), ("i64", "i32")])
    x = [t for t in dedup(x) if t not in set(q)]
    return q + (x if thorough else []), x


def c_kind(v):
    """the static pair slice used over a dimension whose pattern entry is `v`: [1, v) for a static extent v >= 1, the empty
    [0, 0) for v == 0, [1, 3) over a dynamic extent (valid for the run-time extents 3 and 4)"""
    if v < 0:
        return "C1_3"
    return "C0_0" if v == 0 else "C1_%d" % v


def sub_list():
    """(index type, pattern, slice kinds) for submdspan_extents: every mask of full_extent (F) / index (I) slices, and
    vectors with index-pair slices: P etl::pair<T,T>, T etl::tuple<int,long>, A etl::array<T,2> (run-time bounds), M1
    pair<integral_constant<1>, int> (one static bound), C<lo>_<hi> pair of integral constants (static extent)"""
    pats = [("i32", p) for p in [()] + masks_over([(3,), (2, 3), (2, 3, 4)]) + [(0, 3), (4, 4, 4, 4), (2, -1, 4, -1)]]
    pats += [("u8", (2, -1, 4)), ("i64", (-1, 3)), ("u16", (-1, -1, -1))]
    out = [(it, p, tuple("F" if (m >> j) & 1 else "I" for j in range(len(p)))) for it, p in pats for m in range(2 ** len(p))]
    rnd = random.Random(1903)

    def is_pair(k):
        return k[0] in "PTAMC"
    # rank 1: every pair kind
    for p in masks_over([(3,)]) + [(0,)]:
        for k in ["P", "T", "A", "M1", c_kind(p[0]), "C0_0"]:
            out.append(("i32", p, (k,)))
    # rank 2: every vector over F / I / P / C with at least one pair
    for p in masks_over([(2, 3)]) + [(0, 3)]:
        for ks in itertools.product("FIPC", repeat=2):
            ks = tuple(c_kind(v) if k == "C" else k for k, v in zip(ks, p))
            if any(is_pair(k) for k in ks):
                out.append(("i32", p, ks))
    # rank 3 / 4 and the other index types: sampled vectors over all kinds
    def sample(it, p, n):
        got = set()
        while len(got) < n:
            ks = tuple(c_kind(v) if k == "C" else ("M1" if k == "M" else k) for k, v in zip([rnd.choice("FIPPCTAM") for _ in p], p))
            if any(is_pair(k) for k in ks):
                got.add(ks)
        return [(it, p, ks) for ks in sorted(got)]
    for p in masks_over([(2, 3, 4)]):
        out += sample("i32", p, 5)
    out += sample("i32", (2, -1, 4, -1), 4)
    for it, p in [("u8", (2, -1, 4)), ("i64", (-1, 3)), ("u16", (-1, -1, -1)), ("i8", (-1, 4))]:
        out += sample(it, p, 4)
    return dedup(out)


def seq_list():
    """(lhs index type, lhs pattern, rhs index type, rhs pattern) for layout_stride::mapping::operator== across index types and
    extents types (both operand orders are evaluated on every line, so each pair has the narrow type on the left once)"""
    return [("u8", (2, 2), "i32", (2, 2)), ("u8", (-1, -1), "i32", (-1, -1)), ("i8", (-1,), "i64", (-1,)),
            ("u8", (-1, -1, -1), "i32", (-1, -1, -1)), ("i8", (-1, -1, -1), "u16", (-1, 2, -1)), ("i16", (-1, -1), "i32", (2, -1)),
            ("u16", (-1, 3), "u64", (-1, -1)), ("i32", (-1, -1), "i64", (-1, -1)), ("i32", (2, 3), "u8", (2, 3)),
            ("i64", (-1, -1), "i8", (-1, -1)), ("u8", (), "i32", ()), ("i16", (-1, -1, -1, -1), "u32", (-1, -1, -1, -1)),
            ("u8", (2, -1, 4), "i64", (-1, -1, -1)), ("i32", (2, 3), "i32", (2, 3)), ("u8", (-1, -1), "u8", (-1, -1)),
            ("u32", (-1, -1), "i32", (-1, -1))]


def span_ct_list():
    """(static extent or -1, op, Offset, Count or -1) for span of length 0..6"""
    out = []
    for se in [-1] + list(range(0, 7)):
        lim = 6 if se < 0 else se
        for c in range(0, lim + 1):
            out.append((se, "first", 0, c))
            out.append((se, "last", 0, c))
        for o in range(0, lim + 1):
            out.append((se, "subspan", o, -1))
            for c in range(0, lim - o + 1):
                out.append((se, "subspan", o, c))
    return out


def pat_str(p):
    return "[" + ",".join(str(x) for x in p) + "]"


NMAP = 6          # translation units for the mapping instantiations
NEXT = 3          # translation units for the extents-only instantiations


def inst_hash():
    return hashlib.sha256(repr((type_list(True), map_type_list(True), conv_list(True), span_ct_list(), sub_list(), seq_list(), NMAP, NEXT)).encode()).hexdigest()[:16]


def emit_inst(f):
    def targs(p):
        return "".join(", " + ("D" if x < 0 else str(x)) for x in p)

    def section(macro, full_and_extra, line):
        full, extra = full_and_extra
        ex = set(extra)
        f.write("#ifdef %s\n" % macro)
        for t in full:
            if t not in ex:
                f.write(line(t))
        f.write("#ifdef C19_THOROUGH\n")
        for t in extra:
            f.write(line(t))
        f.write("#endif\n#endif\n")
    f.write("// GENERATED by `python3 checks/props/c19.py --emit-inst`; do not edit.  hash=%s\n" % inst_hash())
    ecnt = [0]

    def ext_line(t):
        j = ecnt[0] % NEXT
        ecnt[0] += 1
        return ('#if !defined(C19_EXTSEL) || C19_EXTSEL == %d\nC19_EXT("%s:%s", %s%s)\n#endif\n'
                % (j, t[0], pat_str(t[1]), CTYPE[t[0]], targs(t[1])))
    section("C19_EXT", type_list(True), ext_line)
    # the heavy mapping instantiations are dealt round-robin to NMAP selections (one translation unit each, see run())
    cnt = [0]

    def map_line(t):
        j = cnt[0] % NMAP
        cnt[0] += 1
        return ('#if !defined(C19_MAPSEL) || C19_MAPSEL == %d\nC19_MAP("%s:%s", %s%s)\n#endif\n'
                % (j, t[0], pat_str(t[1]), CTYPE[t[0]], targs(t[1])))
    section("C19_MAP", map_type_list(True), map_line)
    section("C19_CONV", conv_list(True), lambda t: 'C19_CONV("%s<%s:%s<%s", (etl::extents<%s%s>), (etl::extents<%s%s>))\n'
            % (t[0], t[1], pat_str(t[2]), pat_str(t[3]), CTYPE[t[0]], targs(t[2]), CTYPE[t[1]], targs(t[3])))
    f.write("#ifdef C19_SUB\n")
    def kind_type(k):
        if k[0] == "C":
            lo, hi = k[1:].split("_")
            return "SC<%s, %s>" % (lo, hi)
        if k[0] == "M":
            return "SM<%s>" % k[1:]
        return "S" + k
    for it, p, ks in sub_list():
        f.write('C19_SUB("%s:%s:%s", (%s), %s%s)\n' % (it, pat_str(p), ",".join(ks) if ks else "-", ", ".join(kind_type(k) for k in ks),
                                                      CTYPE[it], targs(p)))
    f.write("#endif\n")
    f.write("#ifdef C19_SEQ\n")
    for a, pa, b, pb in seq_list():
        f.write('C19_SEQ("%s:%s==%s:%s", (etl::extents<%s%s>), (etl::extents<%s%s>))\n'
                % (a, pat_str(pa), b, pat_str(pb), CTYPE[a], targs(pa), CTYPE[b], targs(pb)))
    f.write("#endif\n")
    f.write("#ifdef C19_SPAN\n")
    for se, op, o, c in span_ct_list():
        f.write('C19_SPAN("%d:%s:%d:%d", %s, %d, %s, %s)\n'
                % (se, op, o, c, "D" if se < 0 else str(se), {"first": 0, "last": 1, "subspan": 2}[op], o,
                   "D" if c < 0 else str(c)))
    f.write("#endif\n")


def check_inst_current():
    p = os.path.join(VERIF, "harness", "c19_inst.inc")
    head = open(p).readline() if os.path.exists(p) else ""
    if "hash=" + inst_hash() not in head:
        raise MachineryError("harness/c19_inst.inc is stale: run python3 checks/props/c19.py --emit-inst > harness/c19_inst.inc")


# ---------------------------------------------------------------- reference helpers (generator side only)

def prod(xs):
    r = 1
    for x in xs:
        r *= x
    return r


def fits(it, vals):
    """Lean `Fits`: the product of every run of consecutive extents is representable in the index type"""
    n = len(vals)
    m = it_max(it)
    return all(prod(vals[a:a + b]) <= m for a in range(n + 1) for b in range(n + 1))


def req_stride(ext, strs):
    if prod(ext) == 0:
        return 0
    return 1 + sum((e - 1) * s for e, s in zip(ext, strs))


def make_strides(rnd, ext, exhaustive=False):
    """strides that satisfy the standard's uniqueness precondition: a random permutation of the dimensions,
    each stride >= span of the faster dimensions, with random padding; returns (strides, perm by decreasing stride)"""
    r = len(ext)
    order = list(range(r))
    rnd.shuffle(order)                     # order[0] is the fastest dimension
    strs = [0] * r
    bound = 1
    for k in order:
        pad = 0 if exhaustive else rnd.choice([0, 0, 1, 2, 3])
        strs[k] = bound + pad
        bound = strs[k] * ext[k]
    return strs, list(reversed(order))


def stride_ok(ext, strs):
    """the uniqueness precondition of [mdspan.layout.stride.cons]: ordered by stride, every stride is at least the span of the
    faster dimensions (dimensions of extent <= 1 contribute no span constraint beyond their own stride)"""
    order = sorted(range(len(ext)), key=lambda k: (strs[k], ext[k]))
    bound = 1
    for k in order:
        if strs[k] < bound:
            return False
        bound = strs[k] * ext[k] if ext[k] > 0 else bound
    return True


def contig_strides(ext, left):
    return [prod(ext[:k]) if left else prod(ext[k + 1:]) for k in range(len(ext))]


def seq_lines(rnd, thorough):
    """`seq` lines: see RULE"""
    out = []

    def line(a, pa, b, pb, ext, oext, str_, olay, ostr, tag):
        ln = "seq it=%s pat=%s oit=%s opat=%s olay=%s ext=%s oext=%s str=%s" % (a, pat_str(pa), b, pat_str(pb), olay, fmt_list(ext),
                                                                              fmt_list(oext), fmt_list(str_))
        if olay == "stride":
            ln += " ostr=%s" % fmt_list(ostr)
        out.append((ln, "seq/" + tag))

    def rep_ok(it, ext, strs):
        return max(list(ext) + list(strs) + [0]) <= it_max(it) and req_stride(ext, strs) <= it_max(it)

    for a, pa, b, pb in seq_list():
        r = len(pa)
        narrow_left = ITS[a][0] <= ITS[b][0]
        nt, wt = (a, b) if narrow_left else (b, a)
        mod = 2 ** ITS[nt][0]
        fixed = [max(v, w) for v, w in zip(pa, pb)]
        shapes = list(itertools.product(*[[f] if f >= 0 else [0, 1, 2, 3, 4] for f in fixed]))
        if len(shapes) > (60 if thorough else 25):
            shapes = [sh for sh in shapes if all(x in (0, 4) for x, f in zip(sh, fixed) if f < 0)][:6] + rnd.sample(shapes, 60 if thorough else 25)
        for ext in shapes:
            ext = list(ext)
            if not fits(a, ext) or not fits(b, ext):
                continue
            for d in range(3 if thorough else 2):
                sn, _ = make_strides(rnd, ext, exhaustive=(d == 0))
                if not rep_ok(nt, ext, sn):
                    continue
                variants = [("same", list(sn))]
                if r > 0:
                    top = max(range(r), key=lambda k: (sn[k], -k))
                    v = list(sn)
                    v[top] += mod                                # congruent modulo 2^bits of the narrow index type
                    variants.append(("congruent", v))
                    k = rnd.randrange(r)
                    v = list(sn)
                    v[k] += mod * rnd.choice([1, 2, 3])
                    variants.append(("congruent", v))
                    v = list(sn)
                    v[rnd.randrange(r)] += 1
                    variants.append(("plus1", v))
                    v = list(sn)
                    v[top] += mod - 1 if mod - 1 + sn[top] <= it_max(wt) else 2
                    variants.append(("near", v))
                for tag, sw in variants:
                    if not rep_ok(wt, ext, sw) or not stride_ok(ext, sw):
                        continue
                    ls, rs = (sn, sw) if narrow_left else (sw, sn)
                    line(a, pa, b, pb, ext, ext, ls, "stride", rs, tag)
                # another extent at a position that is dynamic on both sides
                dynpos = [k for k in range(r) if pa[k] < 0 and pb[k] < 0]
                if dynpos and d == 0:
                    k = rnd.choice(dynpos)
                    e2 = list(ext)
                    e2[k] = (ext[k] + rnd.choice([1, 2])) % 5
                    if fits(b, e2) and rep_ok(b, e2, sn) and rep_ok(a, ext, sn):
                        line(a, pa, b, pb, ext, e2, sn, "stride", sn, "ext")
                # against layout_left / layout_right of the same extents: random strides, and the strides of that layout
                for olay in ("left", "right"):
                    cs = contig_strides(ext, olay == "left")
                    if rep_ok(a, ext, sn) and d == 0:
                        line(a, pa, b, pb, ext, ext, sn, olay, None, "contig")
                    if rep_ok(a, ext, cs) and d == 0:
                        line(a, pa, b, pb, ext, ext, cs, olay, None, "contig-same")
        # an empty index space makes every stride vector valid (required_span_size 0): extents whose layout_left / layout_right
        # strides exceed the range of the lhs index type, against lhs strides that are those strides modulo 2^bits
        if r >= 2 and all(v < 0 for v in fixed) and ITS[a][0] < ITS[b][0] and ITS[a][0] <= 16:
            amax = it_max(a)
            big = [amax, amax // 2 + 3, 100 if amax >= 100 else amax, 3, 2]
            for zpos in range(r):
                for rep in range(4 if thorough else 2):
                    ext = [0 if k == zpos else rnd.choice(big) for k in range(r)]
                    if not fits(b, ext):
                        continue
                    for olay in ("left", "right"):
                        cs = contig_strides(ext, olay == "left")
                        if max(cs) <= amax or max(cs) > it_max(b):
                            continue
                        ls = [x % (2 ** ITS[a][0]) for x in cs]
                        if max(ls) > amax:
                            continue
                        line(a, pa, b, pb, ext, ext, ls, olay, None, "contig-congruent")
                        line(a, pa, b, pb, ext, ext, ls, "stride", cs, "congruent")
                        line(a, pa, b, pb, ext, ext, ls, "stride", ls, "same")
    return out


RULE = ("One `map` case = one extents object (index type, static/dynamic pattern, extents) under one layout "
        "(left, right, stride, transposed-left, transposed-right, transposed-stride), one constructor arity (rank_dynamic or "
        "rank values) and form (pack, array, span): the line reports every extent, rank/rank_dynamic, required_span_size, every "
        "stride, the offset of EVERY in-range multi-index, mdspan::size, mdspan::extents(), mdarray::size(), empty() of both, "
        "the six observers (is_always_unique/exhaustive/strided, is_unique/exhaustive/strided) of the mapping with the "
        "forwards of mdspan / mdarray, and whether every mdspan / mdarray element reference is the "
        "buffer element at that offset (exact-size heap buffer under ASan). Exhaustive: int index type, every pattern with "
        "static values 0..4 and every dynamic value 0..4 for rank 0-3, rank 4 every mask over six static tuples with all "
        "(thorough) or sampled (quick) dynamic values and all 625 all-dynamic shapes; seven other index types int8..uint64 "
        "over all-dynamic rank 0-4 and mixed rank 1-3 patterns, limited to shapes whose size is representable (standard "
        "precondition). Stride mappings: random padded and permuted strides (and unpadded = exhaustive ones) satisfying the "
        "uniqueness precondition for every such shape (rank 2: also as the nested mapping of layout_transpose<layout_stride>); "
        "a stride line also reports required_span_size, is_exhaustive, mdarray "
        "over the strided mapping, operator== against the layout_left / layout_right mappings of the same extents and "
        "against strided mappings over dextents<int64_t> with equal / different strides (other index types: `seq`), and the strides and extents "
        "produced by the converting constructors; an `ext` line also compares the object with extents of another type "
        "(equal, one value changed, other rank). `mda`: one line per shape and layout (left, right, stride): every mdarray "
        "constructor -- (mapping), (extents), (exts...), (mapping|extents, value), (mapping|extents, container const&), "
        "(mapping|extents, container&&) -- with a static_vector<int,256> and an etl::array<int,260> container; each object is "
        "reported as container_size / sum of the container / weighted sum of the elements read through operator() at every "
        "in-range multi-index. `msz`: size / empty / extents of all-dynamic shapes with a zero extent among extents up to "
        "the maximum of the index type (size representable, partial products not), and of shapes whose size fits size_type "
        "but not index_type. `sub`: submdspan_extents for every mask of full_extent / index slices over 21 patterns and, with "
        "index-pair slices (etl::pair, tuple, array<_,2> with run-time bounds; pair of integral constants; one static "
        "bound), every F/I/P/C vector of rank 1-2 and sampled vectors of rank 3-4, every dynamic value 0..4, all (one pair) or "
        "sampled lo <= hi <= extent. "
        "An `mda` line also builds a SECOND object of the same type over another mapping (other values at every dynamic extent, "
        "other strides for layout_stride -- also over fully static extents) with another container and reports, after swap(x, y), "
        "copy construction, move construction, copy assignment and move assignment (static_vector container) and swap "
        "(etl::array container), the extents and strides each object reports and len/sum/weighted sum of the elements read "
        "through operator(). `seq`: layout_stride::mapping::operator== between mappings of DIFFERENT index types and extents "
        "types (16 type pairs: uint8/int8/int16/uint16/int32/uint32/int64 in both roles, static / mixed / dynamic patterns, rank "
        "0-4), both operand orders and operator!=, against a strided mapping (same strides; one stride larger by a multiple of "
        "2^bits of the narrower index type, i.e. equal after a cast; +1; +2^bits-1; another dynamic extent) and against the "
        "layout_left / layout_right mapping of the same extents (random strides, the strides of that layout, and -- over an empty "
        "index space with extents up to the maximum of the narrow type -- strides congruent to them modulo 2^bits); oracle: "
        "extents equal and strides equal as integers. `dflt`: the default-constructed layout_left / layout_right / "
        "layout_stride mapping of every instantiated extents type (static, mixed, all-dynamic, rank 0-4, eight index types): "
        "extents, strides, required_span_size, every offset, is_exhaustive, operator== of the strided one against the other two, "
        "copy / assignment of the mapping and the mappings held by default-constructed mdspan / mdarray objects. "
        "`conv`: every (target mask, source mask) pair over seven value vectors, three index type pairs. `span`: "
        "every (length 0..6, static or dynamic extent, first/last/subspan, run-time and template arguments, offset, count "
        "incl. dynamic_extent) within the preconditions, against std::span. A case is non-trivial when the index space has "
        "more than one element (map), a dynamic target extent receives a value (conv), a dimension is kept (sub), the container "
        "is non-empty (mda) or the result is non-empty (span); distinct = distinct case text.")
ASSUMPTIONS = ["libstdc++ 12 has no <mdspan>: the C++-side oracle is the enumeration order of a C array (row-major = "
               "lexicographic rank, column-major = colexicographic rank) and long-long pointer arithmetic; std::span is the "
               "oracle for span",
               "preconditions of the standard are respected: every extent and the size of the index space (for strided "
               "mappings the required span size) are representable in index_type; explicit strides satisfy the uniqueness "
               "precondition (a permutation witness is part of the case); span arguments satisfy offset <= size, "
               "count <= size - offset",
               "element type is int; accessor is default_accessor; mdarray containers are static_vector<int,256> (2048 over "
               "strided mappings in `map` lines) and etl::array<int,260>; mdarray constructors are exercised for shapes whose "
               "required_span_size is at most 256 (precondition: the container can hold required_span_size elements)",
               "`seq` lines: both mappings satisfy the preconditions of their constructors (extents, strides and required span "
               "size representable in the mapping's own index type, strides unique); the two index types differ, so a stride "
               "of the wider mapping need not be representable in the narrower type -- operator== has no such precondition",
               "submdspan_extents: pair slices satisfy 0 <= lo <= hi <= extent ([mdspan.sub.extents] precondition); "
               "strided_slice is a static_assert in the library (not provided) and submdspan itself is commented out",
               "three compile probes (PROBES in checks/props/c19.py) switch constructs whose loss would stop the harness from "
               "compiling (pair slices, static pair slices, deduction guide mdspan(mdarray)); a failing probe turns the "
               "affected lines into violations (`nocompile` / `misc=bad`)"]
TRUSTED = ["hand model Tetl/C19/Model.lean tied to the source by the correspondence run (R1) on every run",
           "spec Tetl/C19/Spec.lean (mixed-radix closed forms) validated against the C-array enumeration oracle and "
           "std::span (R2) on every run"]
P = "Tetl.C19.Props."
THEOREMS = {
    "ext": [P + "extents_ctor_eq", P + "fwd_prod_eq", P + "rev_prod_eq", P + "extents_eq_iff"],
    "map": [P + x for x in ("left_in_span", "left_injective", "right_in_span", "right_injective", "zero_extent",
                            "stride_in_span", "stride_injective", "stride_consistent", "required_span_size_eq",
                            "mapIdx_closed_form", "mapIdx_in_span", "mapIdx_injective", "mdspan_access_eq",
                            "mdarray_access_eq", "ctor_mapping_closed_form", "transpose_eq", "transpose_stride_eq",
                            "transpose_extents_eq", "transpose_mapping_extents_eq", "mdspan_access_transpose_eq",
                            "stride_ctor_strides_eq", "stride_mapIdx_closed_form", "stride_required_span_size_eq",
                            "stride_mapIdx_in_span", "stride_mapIdx_injective", "stride_is_exhaustive_eq",
                            "stride_exhaustive_iff_contiguous", "stride_exhaustive_iff_surjective", "stride_exhaustive_std",
                            "mdspan_access_stride_eq", "mdarray_access_stride_eq", "stride_eq_stride",
                            "stride_eq_contiguous", "stride_converting_ctors", "extents_eq_iff", "mdspan_size_empty_eq",
                            "mdspan_subscript_eq", "mdarray_to_mdspan_eq", "mdspan_size_empty_std", "mdspan_extents_eq",
                            "transpose_observers_eq", "transpose_stride_mapping_eq", "transpose_stride_observers_eq",
                            "mdspan_access_transpose_stride_eq")],
    "mda": [P + x for x in ("mdarray_ctor_value_eq", "mdarray_ctor_container_eq", "mdarray_ctor_stride_eq",
                            "mdspan_size_empty_std", "mdspan_extents_eq", "mdarray_to_mdspan_eq",
                            "mdarray_copy_move_assign_swap_eq", "mdarray_swap_stride_eq", "mdarray_swap_contiguous_eq",
                            "mdarray_assign_eq", "mdarray_assign_contiguous_eq")],
    "dflt": [P + x for x in ("default_mapping_extents_eq", "stride_default_ctor_eq", "stride_consistent", "required_span_size_eq",
                             "mapIdx_closed_form", "stride_eq_contiguous", "stride_is_exhaustive_eq")],
    "seq": [P + x for x in ("stride_eq_stride", "stride_eq_contiguous", "extents_eq_iff")],
    "msz": [P + x for x in ("mdspan_size_empty_std", "size_fits_of_fits", "mdspan_extents_eq")],
    "conv": [P + "conv_extent_eq", P + "extents_eq_iff"],
    "sub": [P + "submdspan_extents_eq", P + "submdspan_extents_slices_eq"],
    "span": [P + x for x in ("subspan_eq", "subspanT_eq", "first_eq", "last_eq")],
    "stride_members": [P + "stride_required_span_size_eq", P + "stride_is_exhaustive_eq"],
}


def other_vals(rnd, it, p, vals):
    """extents of a second object of the same extents type: another value (0..4) at every dynamic position, within the
    preconditions (representable, at most 256 elements); `vals` itself when the pattern has no dynamic position"""
    for _ in range(8):
        v2 = [v if q >= 0 else rnd.choice([x for x in range(5) if x != v]) for v, q in zip(vals, p)]
        if fits(it, v2) and prod(v2) <= 256:
            return v2
    return list(vals)


def dyn_choices(rnd, p, full, cap):
    """value vectors for a pattern: static positions fixed, dynamic positions 0..4 (all, or corners + a sample)"""
    slots = [[v] if v >= 0 else [0, 1, 2, 3, 4] for v in p]
    allv = list(itertools.product(*slots))
    if not full and len(allv) > cap:
        keep = [v for v in allv if all(x in (0, 4) for x, q in zip(v, p) if q < 0)][:4]
        allv = dedup(keep + rnd.sample(allv, cap))
    return allv


def generate(tier, seed):
    check_inst_current()
    rnd = random.Random(seed)
    thorough = tier == "thorough"
    cases = []
    dist = {}

    def add(line, tag):
        cases.append(Case(line, tag))
        dist[tag] = dist.get(tag, 0) + 1

    k = 0
    # ---- extents only: every instantiated pattern x every dynamic value vector x both constructor arities
    for it, p in type_list(THOROUGH_BUILD)[0]:
        r = len(p)
        for vals in dyn_choices(rnd, p, thorough or r <= 3, 60):
            if max(vals + (0,)) > it_max(it):
                continue
            for ctor in ("dyn", "all"):
                k += 1
                add("ext it=%s pat=%s ext=%s ctor=%s form=%s" % (it, pat_str(p), fmt_list(vals), ctor, ("pack", "span")[k % 2]),
                    "ext/r%d" % r)
    # ---- mappings, mdspan, mdarray
    forms_all = ["pack", "array", "span", "packint"]
    for it, p in map_type_list(THOROUGH_BUILD)[0]:
        r = len(p)
        nd = sum(1 for x in p if x < 0)
        full = thorough or r <= 3 or (it == "i32" and nd == 4)
        for vals in dyn_choices(rnd, p, full, 80):
            if not fits(it, vals):
                continue                       # standard precondition (Lean `Fits`): sizes representable
            for lay in ("left", "right"):
                ctors = ["dyn", "all"] if (thorough or r <= 2) else [("dyn", "all")[k % 2]]
                for ctor in ctors:
                    k += 1
                    add("map lay=%s it=%s pat=%s ext=%s ctor=%s form=%s" % (lay, it, pat_str(p), fmt_list(vals), ctor, forms_all[k % 4]),
                        "map/%s/r%d" % (lay, r))
            if r == 2:
                for lay in ("tleft", "tright"):
                    k += 1
                    add("map lay=%s it=%s pat=%s ext=%s ctor=%s form=%s"
                        % (lay, it, pat_str(p), fmt_list(vals), ("dyn", "all")[k % 2], forms_all[k % 3]), "map/%s" % lay)
            # mdarray constructors (one line per shape and layout); ext2: the extents of a second object, other values at the
            # dynamic positions (copy / move / assignment / swap between objects with different mappings)
            vals2 = other_vals(rnd, it, p, vals)
            if prod(vals) <= 256:
                for lay in ("left", "right"):
                    k += 1
                    add("mda lay=%s it=%s pat=%s ext=%s val=%d ext2=%s" % (lay, it, pat_str(p), fmt_list(vals), (7, -3, 1)[k % 3], fmt_list(vals2)),
                        "mda/%s" % lay)
            # explicit strides: permuted, padded; several draws per shape
            ndraw = (3 if thorough else 1) if r >= 3 else (4 if thorough else 2)
            if r == 0:
                ndraw = 1
            for d in range(ndraw):
                strs, perm = make_strides(rnd, list(vals), exhaustive=(d == 0 and (r < 3 or k % 2 == 0)))
                if req_stride(vals, strs) > it_max(it) or max(strs + [0]) > it_max(it):
                    continue
                k += 1
                add("map lay=stride it=%s pat=%s ext=%s ctor=%s form=%s str=%s perm=%s"
                    % (it, pat_str(p), fmt_list(vals), ("dyn", "all")[k % 2], ("array", "span")[k % 2], fmt_list(strs),
                       fmt_list(perm)), "map/stride/r%d" % r)
                if r == 2:
                    # the transposed view of a strided mapping (layout_transpose<layout_stride>): same extents and strides
                    add("map lay=tstride it=%s pat=%s ext=%s ctor=%s form=%s str=%s perm=%s"
                        % (it, pat_str(p), fmt_list(vals), ("dyn", "all")[k % 2], ("array", "span")[k % 2], fmt_list(strs),
                           fmt_list(perm)), "map/tstride")
                if d == 0 and req_stride(vals, strs) <= 256:
                    # the second object: other dynamic extents (every second line: the same extents) and other strides
                    v2 = list(vals2 if k % 2 else vals)
                    for _ in range(8):
                        strs2, perm2 = make_strides(rnd, v2, exhaustive=False)
                        if (strs2 != strs or r == 0) and req_stride(v2, strs2) <= 256 and max(strs2 + [0]) <= it_max(it):
                            break
                    else:
                        strs2, perm2 = make_strides(rnd, v2, exhaustive=True)
                    if req_stride(v2, strs2) > min(256, it_max(it)) or max(strs2 + [0]) > it_max(it):
                        v2, strs2, perm2 = list(vals), list(strs), list(perm)
                    add("mda lay=stride it=%s pat=%s ext=%s val=%d str=%s perm=%s ext2=%s str2=%s perm2=%s"
                        % (it, pat_str(p), fmt_list(vals), (7, -3, 1)[k % 3], fmt_list(strs), fmt_list(perm), fmt_list(v2), fmt_list(strs2),
                           fmt_list(perm2)), "mda/stride")
    # ---- default-constructed mappings (layout_left / layout_right / layout_stride; mdspan / mdarray default constructors)
    for it, p in map_type_list(THOROUGH_BUILD)[0]:
        vals = [v if v >= 0 else 0 for v in p]
        if fits(it, vals):
            add("dflt it=%s pat=%s ext=%s" % (it, pat_str(p), fmt_list(vals)), "dflt")
    # ---- layout_stride::mapping::operator== across index types / extents types
    for ln, tag in seq_lines(rnd, thorough):
        add(ln, tag)
    # ---- mdspan::size / empty / extents for shapes inside the precondition of the standard (every extent and the SIZE
    # representable) but outside `Fits`: a zero extent among extents whose product is not representable
    for it, p in map_type_list(THOROUGH_BUILD)[0]:
        r = len(p)
        if r < 2 or any(x >= 0 for x in p):
            continue
        big = min(it_max(it), 2 ** 63 - 1)          # the line protocol of the harness carries long long values
        for zpos in range(r):
            for fill in (big, big // 2 + 1, 2 if ITS[it][0] >= 32 else 16):
                vals = [fill if j != zpos else 0 for j in range(r)]
                for lay in ("left", "right"):
                    add("msz lay=%s it=%s pat=%s ext=%s" % (lay, it, pat_str(p), fmt_list(vals)), "msz")
        # and without a zero: the size fits size_type (unsigned) but not index_type
        if ITS[it][1] and r == 2:
            a = 2 ** (ITS[it][0] // 2)
            for lay in ("left", "right"):
                add("msz lay=%s it=%s pat=%s ext=%s" % (lay, it, pat_str(p), fmt_list([a, a - 1])), "msz")
    # ---- layout_stride::required_span_size / is_exhaustive alone (they were undefined before the fix): a few shapes
    for (p, vals, strs) in [((2, 3), (2, 3), (3, 1)), ((-1, -1), (2, 3), (1, 2)), ((-1, 3, -1), (2, 3, 4), (1, 8, 2))]:
        add("stride_members it=i32 pat=%s ext=%s str=%s" % (pat_str(p), fmt_list(vals), fmt_list(strs)), "stride_members")
    # ---- submdspan_extents: every instantiated slice-kind vector x every dynamic value vector x index-pair bounds
    # (all lo <= hi <= extent for one pair dimension, sampled for more)
    for it, p, ks in sub_list():
        r = len(p)
        lines = []
        for vals in dyn_choices(rnd, p, True, 0):
            if max(vals + (0,)) > it_max(it):
                continue
            slots = []
            okv = True
            for k, v in zip(ks, vals):
                if k in ("F", "I"):
                    slots.append([(0, 0)])
                elif k[0] == "C":
                    lo, hi = (int(x) for x in k[1:].split("_"))
                    okv = okv and hi <= v
                    slots.append([(lo, hi)])
                elif k[0] == "M":
                    lo = int(k[1:])
                    okv = okv and lo <= v
                    slots.append([(lo, hi) for hi in range(lo, v + 1)])
                else:
                    slots.append([(lo, hi) for lo in range(0, v + 1) for hi in range(lo, v + 1)])
            if not okv:
                continue
            combos = list(itertools.product(*slots))
            cap = 12 if thorough else 4
            if len(combos) > cap:
                combos = rnd.sample(combos, cap)
            for c in combos:
                lines.append("sub it=%s pat=%s ext=%s sl=%s lo=%s hi=%s" % (it, pat_str(p), fmt_list(vals), ",".join(ks) if ks else "-",
                                                                          fmt_list([x[0] for x in c]), fmt_list([x[1] for x in c])))
        cap = 400 if thorough else 120
        if any(k[0] in "PTAMC" for k in ks) and len(lines) > cap:
            lines = rnd.sample(lines, cap)
        for ln in lines:
            add(ln, "sub/r%d%s" % (r, "/pair" if any(k[0] in "PTAMC" for k in ks) else ""))
    # ---- converting constructor
    for a, b, dp, sp in conv_list(THOROUGH_BUILD)[0]:
        # a position that is static on either side has that value (requires-clause / precondition)
        fixed = [max(v, w) for v, w in zip(dp, sp)]
        for vals in itertools.product(*[[f] if f >= 0 else [0, 1, 2, 3, 4] for f in fixed]):
            add("conv it=%s sit=%s pat=%s spat=%s ext=%s" % (a, b, pat_str(dp), pat_str(sp), fmt_list(vals)), "conv")
    # ---- span
    for n in range(0, 7):
        for se in (-1, n):
            for c in range(0, n + 1):
                for op in ("first", "last"):
                    for ct in (0, 1):
                        add("span n=%d se=%d op=%s ct=%d off=0 cnt=%d" % (n, se, op, ct, c), "span/" + op)
            for o in range(0, n + 1):
                for c in [-1] + list(range(0, n - o + 1)):
                    for ct in (0, 1):
                        add("span n=%d se=%d op=subspan ct=%d off=%d cnt=%d" % (n, se, ct, o, c), "span/subspan")
    if PROBE_RESULT:
        dist["compile_probes"] = dict(PROBE_RESULT)
    return cases, False, dist


def _probe(code):
    """does this snippet compile against the tree under test? (a construct whose absence would stop the harness from compiling
    is switched by a macro, so that its loss is reported as a violation on a case line, not as a build failure)"""
    import subprocess
    import lib
    p = subprocess.run([lib.CXX, "-std=c++20", "-fsyntax-only", "-I", os.path.join(lib.REPO, "include"), "-x", "c++", "-"],
                       input=code, text=True, stdout=subprocess.PIPE, stderr=subprocess.PIPE)
    return int(p.returncode == 0)


PROBES = {
    # submdspan_extents with a pair of integral constants over a static extent (F-C19-submdspan-static-pair-type)
    "C19_HAS_SUB_STATIC_PAIR": "#include <etl/mdspan.hpp>\n#include <etl/utility.hpp>\n#include <etl/type_traits.hpp>\n"
                               "auto f(etl::extents<int, 5> e) { return etl::submdspan_extents(e, etl::pair<etl::integral_constant<int, 1>, "
                               "etl::integral_constant<int, 3>>{}); }\n",
    # submdspan_extents with run-time pair slices builds the new extents from one value per kept dimension
    # (F-C19-submdspan-pair-extent): before the fix this combination had no matching extents constructor
    "C19_HAS_SUB_PAIR": "#include <etl/mdspan.hpp>\n#include <etl/utility.hpp>\n"
                        "auto f(etl::dextents<int, 3> e) { return etl::submdspan_extents(e, etl::full_extent, etl::pair<int, int>{0, 1}, "
                        "etl::pair<int, int>{0, 1}); }\n",
    # class template argument deduction mdspan(mdarray) (F-C19-mdspan-mdarray-guide)
    "C19_HAS_MDSPAN_CTAD": "#include <etl/mdarray.hpp>\n#include <etl/vector.hpp>\n"
                           "using A = etl::mdarray<int, etl::extents<int, 2>, etl::layout_right, etl::static_vector<int, 4>>;\n"
                           "int f(A& a) { etl::mdspan m(a); return m(1); }\n",
}
PROBE_RESULT = {}


def _probe_flags():
    if not PROBE_RESULT:
        for k, v in PROBES.items():
            PROBE_RESULT[k] = _probe(v)
    return ["-D%s=%d" % (k, v) for k, v in sorted(PROBE_RESULT.items())]


BASE_FLAGS = list(HARNESS_FLAGS)
# NMAP mapping units, NEXT extents-only units, conv + span + sub unit, seq unit, main() + dispatcher
PARTS = list(range(NMAP)) + [100 + j for j in range(NEXT)] + [200, 201, -1]
LINK_STUB = "harness/c19_link.cpp"          # empty translation unit: check.py's own compile step only links the objects


def _build_parts():
    """compile the translation units of the harness (harness/c19.cpp, -DC19_PART=k) in parallel; returns the objects"""
    import concurrent.futures as cf
    import lib
    os.makedirs(lib.BUILD, exist_ok=True)
    flags = list(lib.CXXFLAGS) + BASE_FLAGS + _probe_flags()

    def one(k):
        out = os.path.join(lib.BUILD, "c19_part%s.o" % str(k).replace("-", "m"))
        cmd = [lib.CXX] + flags + ["-DC19_PART=%d" % k, "-I", os.path.join(lib.REPO, "include"),
                                   "-I", os.path.join(lib.VERIF, "harness"), "-c", os.path.join(lib.VERIF, SRC), "-o", out]
        rc, o, e = lib.sh(cmd, timeout=1800)
        return out, rc, o + e

    with cf.ThreadPoolExecutor(max_workers=len(PARTS)) as ex:
        res = list(ex.map(one, PARTS))
    bad = [r for r in res if r[1] != 0]
    if bad:
        raise MachineryError("harness does not compile against %s:\n%s" % (lib.REPO, bad[0][2][-1500:]))
    return [r[0] for r in res]


def run(ctx, replay=None):
    """standard flow of check.py, with the translation units of the harness pre-compiled in parallel"""
    global HARNESS_FLAGS
    check_inst_current()
    global HARNESS
    objs = _build_parts()
    HARNESS = LINK_STUB
    HARNESS_FLAGS = BASE_FLAGS + objs
    import check
    return check.standard(sys.modules[__name__], ctx, replay)


def nontrivial(case, rows):
    ln = case.lines[0]
    r = rows[0]
    if ln.startswith("map"):
        return "off=[" in r.spec and "," in r.spec.split("off=[")[1].split("]")[0]
    if ln.startswith("ext"):
        return "pat=[]" not in ln
    if ln.startswith("sub"):
        return "rk=0/" not in r.spec
    if ln.startswith("mda"):
        return "cm=0/" not in r.spec
    if ln.startswith("msz"):
        return True
    if ln.startswith("dflt"):
        return "pat=[]" not in ln
    if ln.startswith("seq"):
        return "pat=[]" not in ln
    if ln.startswith("conv"):
        return "pat=[]" not in ln and "-1" in ln.split("pat=")[1].split(" ")[0]
    if ln.startswith("span"):
        return "el=[]" not in r.spec
    return True


def classify(case, k, row):
    # no known (unfixed) finding: F-C19-stride-undefined-members is fixed (the members are defined); if a
    # definition disappears again the harness prints `undefined` and the case is a violation
    return None


def group_of(case):
    return case.tag


CLAIMED = True
TECHNIQUE = ("Lean 4 proof: hand model of extents / layout mappings / span arithmetic equals the mixed-radix closed form, is "
             "in-span and injective for every rank and extent; model tied to the code by an exhaustive small-scope "
             "correspondence run over template instantiations")
LEVEL_TEXT = ("extents (constructors, converting constructor, extent, operator==, fwd/rev products), layout_left / layout_right / "
              "layout_stride / layout_transpose mappings (operator(), stride, required_span_size, is_exhaustive and the other "
              "five observers, operator== and the converting constructors of layout_stride; layout_transpose over layout_left, "
              "layout_right and layout_stride), submdspan_extents for full_extent / index / index-pair slices, mdspan / "
              "mdarray element access, extents(), size, empty, operator[](array|span), to_mdspan, container_size, the mdarray "
              "constructors (mapping | extents | exts..., with value, container const&, container&&; size-constructible and "
              "etl::array containers), mdarray copy / move construction, copy / move assignment and swap (an object = mapping + "
              "container), the default constructors of the three mappings and span first/last/subspan are modelled clause by clause "
              "with checked array accesses and explicit index_type casts. Lean 4 proves for every rank, every extents vector "
              "and every static/dynamic pattern (no bound) that the model never leaves an array, that the offset of an "
              "in-range multi-index equals the closed form (mixed radix for left, right, transposed; sum of index*stride for "
              "explicit strides and for the transposed strided mapping), lies below required_span_size (product of the "
              "extents; 1 + sum (e_k-1)*s_k for strides, 0 "
              "for an empty index space) and is distinct for distinct indices (explicit strides under the standard's "
              "uniqueness precondition), that strides are the partial products, that layout_stride::is_exhaustive holds "
              "exactly when the strides are a permutation of a contiguous layout and exactly when every offset below "
              "required_span_size is hit, that the observers of a transposed mapping are those of the nested mapping, that "
              "they are correct for the transposed view (unique, exhaustive, strided for layout_left/right) and that a "
              "transposed strided mapping is exhaustive iff the nested one is, that mdspan/mdarray access over all layouts "
              "reads exactly buffer[offset], that after each mdarray constructor the container holds required_span_size "
              "(etl::array: its static size) value-initialised elements / copies of the value / the given container's contents "
              "and operator() reads the element at the closed-form offset, that after swap(a, b) each mdarray reports the extents "
              "and strides of the other and reads the other's container at the other's offsets (layout_stride: also over fully "
              "static extents; layout_left/right: the dynamic extents), likewise after assignment and copy / move construction, "
              "that layout_stride::operator== is true exactly when extents and strides are equal as integers for any two index "
              "types, that a default-constructed layout_stride mapping has the default extents and the strides of the "
              "default-constructed layout_right mapping and compares equal to it, that size() is the exact product of the extents "
              "and empty() holds iff an extent is 0 under the standard's precondition alone (size representable in size_type), "
              "that submdspan_extents keeps exactly the kept dimensions with their static extents and gives an index pair "
              "the extent hi - lo (static for a pair of integral constants), and that span "
              "first/last/subspan denote (l.drop off).take cnt with the standard's static extent. The model is "
              "tied to the current source on every run by executing model and implementation on the same cases (every "
              "pattern x extents 0..4 for rank 0-3, rank 4 by masks, eight index types, padded/permuted strides, all span "
              "argument pairs) under ASan/UBSan.")
LEVEL_NOTE = ("Trusted: Lean kernel + propext/Classical.choice/Quot.sound; the hand model's fidelity outside the explored "
              "inputs; g++-12/ASan; the C-array enumeration oracle and std::span for spec validation. Theorems about the "
              "wrapped index_type arithmetic of the MAPPINGS (strides, offsets, required_span_size) assume the representability "
              "precondition `Fits`: the product of EVERY run of "
              "consecutive extents is representable in index_type. For shapes without a zero extent this is the standard's "
              "precondition (size of the index space representable); for shapes WITH a zero extent it is stronger (the "
              "standard only needs size 0, while fwd/rev products of the other extents may wrap in the code): such shapes "
              "have no in-range multi-index, so the offset theorems are vacuous there; size() / empty() / extents() ARE "
              "proved for them (`SizeFits`, mdspan_size_empty_std) and exercised (`msz` lines); stride() and "
              "required_span_size() of such shapes are outside theorems and generator. `FitsStride` (layout_stride) "
              "asks for every extent, every stride and required_span_size representable, as [mdspan.layout.stride.cons]. "
              "Span: the model returns a precondition error for Count > size() where the code has no run-time check. "
              "mdarray constructors: proved for the two container kinds the harness uses (constructible from size_t / "
              "(size_t, value), and etl::array), under the precondition that the container can hold required_span_size() "
              "elements; the moved-from state of a container&& argument or of a moved-from mdarray is not described; the mdarray "
              "object theorems are about a model with two fields (mapping, container) whose operations are member-wise by "
              "construction -- what they add is that reads through the resulting object use the mapping that travelled with "
              "the container; that the real swap / assignment touch BOTH members is established by the `mda` lines only. submdspan_extents with a "
              "strided_slice is a static_assert in the library and submdspan / submdspan_mapping are commented out: nothing "
              "to verify there. "
              "Members listed in "
              "coverage.correspondence_only are compared on every run but have no theorem.")
CORRESPONDENCE_ONLY = [
    "mdarray extract_container, mapping(), stride(r), extent(r), operator[](array|span), the conversion operators to mdspan and "
    "the deduction guide mdspan(mdarray): exercised on every `mda` line against the pointer-arithmetic oracle (folded into the "
    "misc= flag), not modelled (copy / move construction, assignment and swap ARE modelled: MdArr, mdarray_swap_stride_eq ...)",
    "the default constructors of mdspan and mdarray (rank_dynamic() > 0) and copy construction / assignment of a "
    "layout_stride mapping: compared with the default-constructed mappings on every `dflt` line (obj= flag), no model function",
    "the forwards of the six observers by mdspan and mdarray (one-line members): compared with the mapping's own answers on "
    "every map line (last bit of obs=); the theorems are about the mapping's observers",
    "mdspan constructors other than (pointer, mapping): (pointer, exts...) / (pointer, span) / (pointer, array) with rank() and "
    "rank_dynamic() values, (pointer, extents), (pointer, mapping, accessor), the converting constructor (const element type, "
    "dextents and back) and the default constructor are exercised on every layout_left / layout_right map line (same "
    "data_handle, mapping and extents as the (pointer, mapping) object; folded into md=); they compose the extents "
    "constructors and the mapping constructor, which have theorems (extents_ctor_eq, conv_extent_eq, "
    "ctor_mapping_closed_form), and have no model function of their own",
]

if __name__ == "__main__":
    if "--emit-inst" in sys.argv:
        emit_inst(sys.stdout)
    else:
        cs, _, d = generate("thorough" if "thorough" in sys.argv else "quick", 1)
        print(len(cs), d)
