"""C10 — integer <-> text conversion is exact, round-trips and respects the buffer (DESIGN §4 C10)."""
import itertools
import os
import random
import sys

import lib
from lib import Case, fmt_list

PROP = "C10"
DRIVER = "drv-c10"
PROOF_MODULES = ["TetlProofs.C10.Props", "TetlProofs.C10.GenProps"]
HARNESS = "harness/c10.cpp"
# harness/c10.cpp is compiled as NPARTS translation units in parallel (-DC10_PART=k: the instantiations for two integer
# types each, k = 8: the function-name operations) by run() below; check.py then compiles step()/main() (-DC10_PART=-1)
# and links them.  As one translation unit it takes 50-80 s, most of the quick tier's budget.
BASE_FLAGS = ["-g0"]
HARNESS_FLAGS = list(BASE_FLAGS)
NPARTS = 9


def _build_parts():
    """compile the translation units of the harness in parallel; returns the object files.  An object file is reused when
    the preprocessed translation unit (every header of the tree under test expanded), the flags and the compiler are
    byte-identical to those it was compiled from: any change of the library or of the harness gives a new key."""
    import concurrent.futures as cf
    import hashlib
    os.makedirs(lib.BUILD, exist_ok=True)
    cache = os.path.join(lib.BUILD, "c10_objcache")
    os.makedirs(cache, exist_ok=True)
    flags = list(lib.CXXFLAGS) + BASE_FLAGS
    cxxv = lib.sh([lib.CXX, "--version"])[1]
    src = os.path.join(lib.VERIF, HARNESS)

    def one(k):
        base = [lib.CXX] + flags + ["-DC10_PART=%d" % k, "-I", os.path.join(lib.REPO, "include"), "-I", os.path.join(lib.VERIF, "harness")]
        rc, o, e = lib.sh(base + ["-E", src], timeout=600)
        if rc != 0:
            return None, rc, o[-200:] + e
        key = hashlib.sha256((cxxv + "\0" + " ".join(flags) + "\0" + o).encode()).hexdigest()[:32]
        out = os.path.join(cache, "part%d_%s.o" % (k, key))
        if os.path.exists(out):
            os.utime(out)
            return out, 0, "cached"
        tmp = out + ".%d.tmp" % os.getpid()
        rc, o, e = lib.sh(base + ["-c", src, "-o", tmp], timeout=1800)
        if rc == 0:
            os.replace(tmp, out)
        return out, rc, o + e

    with cf.ThreadPoolExecutor(max_workers=NPARTS) as ex:
        res = list(ex.map(one, range(NPARTS)))
    bad = [r for r in res if r[1] != 0]
    if bad:
        raise lib.MachineryError("harness does not compile against %s:\n%s" % (lib.REPO, bad[0][2][-1500:]))
    olds = sorted((os.path.join(cache, f) for f in os.listdir(cache)), key=os.path.getmtime)
    for f in olds[:-8 * NPARTS]:
        os.unlink(f)
    return [r[0] for r in res]


def run(ctx, replay=None):
    """standard flow of check.py, with the translation units of the harness pre-compiled in parallel"""
    global HARNESS_FLAGS
    objs = _build_parts()
    HARNESS_FLAGS = BASE_FLAGS + ["-DC10_PART=-1"] + objs
    import check
    return check.standard(sys.modules[__name__], ctx, replay)


SOURCES = ["include/etl/_strings/to_integer.hpp", "include/etl/_strings/from_integer.hpp",
           "include/etl/_strings/strto_integer.hpp", "include/etl/_cctype/isxdigit.hpp", "include/etl/_algorithm/reverse.hpp",
           "include/etl/_numeric/abs.hpp", "include/etl/_math/abs.hpp",
           "include/etl/_charconv/to_chars.hpp", "include/etl/_charconv/from_chars.hpp",
           "include/etl/_string/to_string.hpp", "include/etl/_string/stoi.hpp",
           "include/etl/_cstdlib/atoi.hpp", "include/etl/_cstdlib/atol.hpp", "include/etl/_cstdlib/atoll.hpp",
           "include/etl/_cstdlib/strtol.hpp", "include/etl/_cstdlib/strtoul.hpp", "include/etl/_math/idiv.hpp",
           "include/etl/_cctype/isspace.hpp", "include/etl/_cctype/isdigit.hpp", "include/etl/_cctype/isalpha.hpp",
           "include/etl/_cctype/tolower.hpp"]
RULE = ("to_chars: every value of int8/uint8 x every base 2..36 x every buffer length 0..digits+2 (guard bytes and ASan red "
        "zones on both sides); every value of int16/uint16 (quick: every 7th and the edges) x every base with exact-fit, "
        "one-byte-short and round-trip through from_chars; for the 32/64-bit types base^k and base^k+-1, limits, limits/base+-1, "
        "0, +-1 and seeded random values x every base x lengths {0,1,digits-1..digits+2} (thorough: all 0..digits+2). "
        "from_integer with and without terminator: 8-bit exhaustive as to_chars (quick: bases 2,10,16,36), the 16/32/64-bit "
        "boundary values in bases 2,10,16,36 (thorough: all) x lengths digits-1..digits+2; to_string<Capacity> for every "
        "fitting capacity <= 24. The same templates for char, char8_t, char16_t, char32_t, wchar_t, long long and unsigned "
        "long long (reference: the standard integer type of the same width) on the boundary values in bases 2,8,10,16,36 "
        "(thorough: all bases). "
        "from_chars/to_integer: every string of length <= 4 over {0,1,7,z,-,+,space,G} for the 8-bit types in bases 2,8,10,36, "
        "plus, for every type and base, the texts of max, max+1, max with one more digit, max/base, min, min-1 ... with leading "
        "zeros, upper case, white space, sign and garbage variants, plus seeded random digit strings up to 70 characters. "
        "to_integer with check_overflow = false: the limit texts and seeded random texts in bases 2,8,10,16,36 (thorough: "
        "all) for every type; for int/long/long long/wchar_t only those whose value is representable. "
        "strto*/sto*/ato*: every string of length <= 4 over {0,1,9,f,x,-,+,space} (strtol base 10 and base 0, strtoul "
        "base 16, stoi/atoi base 10, stoul base 0 and stol base 16 up to length 3; thorough: 4), texts that end in or right "
        "behind a 0x prefix for every function in base 16 and 0 (sto*: exact-size heap views), the limit texts of each function's type in "
        "every base 2..36 (ato*: 10) with the decorations above plus '+' and '0x', seeded random digit strings in bases "
        "{2,8,10,16,36,random} with embedded NULs and 0x prefixes in base 16, and for base 0 (auto-detect; only "
        "strto*/sto* take it): hexadecimal (0x/0X), octal (0) and decimal renderings of the limits and limits+-1 with "
        "upper case, white space, sign, doubled prefix and trailing 8/9/g/x garbage, lone 0x, 0xg, 0b/0o texts and seeded "
        "random prefixed digit strings. to_integer (ws 0/1, checked and unchecked) and from_chars are also called DIRECTLY "
        "with base 0 (an extension: [charconv.from.chars] has no base 0) for every type incl. the character types: every "
        "string of length <= 4 over {0,x,X,1,f,g,-} for int8/uint8/int, the base-0 texts above for each type's own limits, "
        "and seeded random prefixed digit strings; views are exact-size heap blocks, so a read behind a view that ends in "
        "'0x'/'0X'/'-0x' is an ASan report; the reference of these lines is glibc's strtoll/strtoull with base 0 restricted "
        "to to_integer's grammar and range-checked against the type. errno: `cstr_erange` lines compare the spec's ERANGE "
        "flag with glibc's errno on the limit and short texts (the implementation is freestanding and has no errno). "
        "A case is non-trivial when "
        "something is converted (>= 2 characters produced/consumed) or an error class other than 'empty input' is reached; "
        "distinct = distinct case text.")
ASSUMPTIONS = ["libstdc++ 12 <charconv>/<string> and glibc strto* are the reference for spec validation (R2)",
               "plain char is signed, int is 32 bit, long and long long are 64 bit (x86-64 Linux, the harness platform)",
               "base is in [2,36] (the standard's precondition of to_chars/from_chars/from_integer; the code does not "
               "check it) or, for to_integer and the strto*/sto* wrappers, 0; to_string<Capacity> needs "
               "Capacity > number of characters (its TETL_PRECONDITION)",
               "errno is not part of the model: a freestanding library has none, so strto* cannot report ERANGE; value and "
               "end pointer are compared, the spec's ERANGE flag is validated against glibc separately",
               "to_integer with check_overflow = false is only claimed for texts whose value is representable (the "
               "contract of the option); outside it the run compares implementation and model (wrap-around) for the types "
               "where the overflow is defined, and runs nothing for int/long (undefined behaviour)"]
TRUSTED = ["hand model Tetl/C10/Model.lean tied to the source by the correspondence run (R1) on every run; its overflow "
           "checkers and parseDigit additionally by translation (gen/translate.py -> Tetl/C10/Gen.lean on every run, "
           "GenProps.lean: generated = hand model for all 15 integral types)",
           "spec Tetl/C10/Spec.lean validated against libstdc++/glibc (R2) on every run; Spec.parseAuto (base 0 of "
           "to_integer/from_chars, which the standard does not have) against glibc strtoll/strtoull(.., 0) on the direct "
           "base-0 lines and, through Spec.strto, on the strto*/sto* lines",
           "gen/translate.py and clang-16's AST for the generated checkers"]
SEARCH_CAP = 900000

TYPES = {"i8": (8, True), "u8": (8, False), "i16": (16, True), "u16": (16, False),
         "i32": (32, True), "u32": (32, False), "i64": (64, True), "u64": (64, False)}
# further integral types of the harness, modelled by the (bits, signed) pair of the listed type
ALIAS = {"c8": "i8", "c8u": "u8", "c16": "u16", "c32": "u32", "wc": "i32", "ill": "i64", "ull": "u64"}
FN_TY = {"strtol": "i64", "strtoll": "i64", "strtoul": "u64", "strtoull": "u64", "atoi": "i32", "atol": "i64",
         "atoll": "i64", "stoi": "i32", "stol": "i64", "stoll": "i64", "stoul": "u64", "stoull": "u64"}
DIG = "0123456789abcdefghijklmnopqrstuvwxyz"


def limits(ty):
    bits, sg = TYPES[ALIAS.get(ty, ty)]
    return (-(1 << (bits - 1)), (1 << (bits - 1)) - 1) if sg else (0, (1 << bits) - 1)


def render(v, b):
    if v == 0:
        return "0"
    n, out = abs(v), ""
    while n:
        out = DIG[n % b] + out
        n //= b
    return ("-" if v < 0 else "") + out


def venc(v):
    """64-bit unsigned values travel as their signed reading (the protocol parser is long long)"""
    return v - (1 << 64) if v >= (1 << 63) else v


def enc(s):
    return fmt_list([ord(c) if isinstance(c, str) else c for c in s])


def interesting(ty, b, rnd, nrand):
    lo, hi = limits(ty)
    vals = {0, 1, hi, hi - 1, hi // b, hi // b + 1, hi // b - 1, lo}
    if lo < 0:
        vals |= {-1, lo + 1, -(hi // b), -(hi // b) - 1, -(hi // b) + 1, -((-lo) // b), -((-lo) // b) - 1}
    p = 1
    while p <= hi + 1:
        for d in (-1, 0, 1):
            vals.add(p + d)
            if lo < 0:
                vals.add(-(p + d))
        p *= b
    for _ in range(nrand):
        bits = rnd.randint(1, TYPES[ALIAS.get(ty, ty)][0])
        x = rnd.getrandbits(bits)
        vals.add(x)
        if lo < 0:
            vals.add(-x)
    return sorted(v for v in vals if lo <= v <= hi)


def lens_for(L, full):
    if full:
        return list(range(0, L + 3))
    return sorted({0, 1, max(L - 2, 0), max(L - 1, 0), L, L + 1, L + 2})


def parse_texts(ty, b, rnd):
    """digit strings around the limits of `ty` in base `b`, with decorations"""
    lo, hi = limits(ty)
    nums = {hi, hi + 1, hi - 1, hi * b, hi * b + b - 1, hi // b, hi // b + 1, hi + b, 0, 1, b - 1, b, lo, lo - 1, lo + 1,
            lo * b, lo - b}
    if lo == 0:
        nums |= {-1, -hi}
    out = []
    for n in sorted(nums):
        t = render(n, b)
        out.append(t)
        k = rnd.randrange(6)
        neg, mag = (t[0] == "-"), t.lstrip("-")
        if k == 0:
            out.append(("-" if neg else "") + "00" + mag)
        elif k == 1:
            out.append(t.upper())
        elif k == 2:
            out.append(t + rnd.choice([" ", "!", "-", "+", "\x00", "\xff", DIG[b] if b < 36 else "{"]))
        elif k == 3:
            out.append(rnd.choice([" ", "\t", "\n ", "  "]) + t)
        elif k == 4:
            out.append(("-" if neg else "") + rnd.choice(["+", "-", " ", "0x"]) + mag)
        else:
            out.append(t + DIG[rnd.randrange(b)])
    return out


def auto_text(n, b):
    """the text of `n` as strtol(.., 0) reads it in base b (16: 0x prefix, 8: leading 0, 10: plain)"""
    t = render(abs(n), b)
    return ("-" if n < 0 else "") + {16: "0x", 8: "0", 10: ""}[b] + t


def auto_texts(ty, rnd):
    """base-0 texts: the numbers of parse_texts with a hexadecimal / octal / no prefix, decorated"""
    lo, hi = limits(ty)
    out = ["0", "00", "0x", "0X", "0x0", "0xg", "0xG", "-0x", "-0", "08", "09", "0779", "0x1fg", "0X1F", " \t0x10", "0 x1",
           "0x 1", "0x-1", "0x+1", "+0x1f", "+017", "+12", "-+1", "0x0x1", "00x1", "1x1", "x1", "0b101", "0o17", "0x\x00" + "1"]
    for b in (16, 8, 10):
        nums = {hi, hi + 1, hi - 1, hi * b, hi // b, hi // b + 1, 0, 1, b - 1, b, lo, lo - 1, lo + 1, lo * b, 7, 8, 9, 15, 16}
        if lo == 0:
            nums |= {-1, -hi, -(hi + 1)}
        for n in sorted(nums):
            t = auto_text(n, b)
            out.append(t)
            k = rnd.randrange(6)
            if k == 0:
                out.append(t.upper())                              # 0X.., upper-case hex digits
            elif k == 1:
                out.append(rnd.choice([" ", "\t", "\n ", "  "]) + t)
            elif k == 2:
                out.append(t + rnd.choice([" ", "!", "8", "9", "a", "f", "g", "x", "\x00", "\xff"]))
            elif k == 3:
                out.append(t.replace("0x", "0x0", 1) if b == 16 else "0" + t.lstrip("-") if b == 8 else t + "0")
            elif k == 4:
                out.append(("+" if n >= 0 else "-+") + t.lstrip("-"))
    return out


def py_parse(ty, text, b, ws):
    """value of `text` under the to_integer grammar (None: no digits) - only used to keep texts whose value is not
    representable away from the unchecked configuration of the types where that is undefined behaviour"""
    bits, sg = TYPES[ALIAS.get(ty, ty)]
    i = 0
    if ws:
        while i < len(text) and _is_space(ord(text[i])):
            i += 1
    neg = sg and i < len(text) and text[i] == "-"
    if neg:
        i += 1
    v, n = 0, 0
    while i < len(text) and text[i].lower() in DIG[:b] and ord(text[i]) < 128:
        v, n, i = v * b + DIG.index(text[i].lower()), n + 1, i + 1
    return None if n == 0 else (-v if neg else v)


def py_parse_auto(ty, text, ws):
    """'range' when `text` read with base 0 under the to_integer grammar denotes a value outside `ty` (only used to keep
    such texts away from the unchecked configuration of int / long, where the accumulation is undefined behaviour)"""
    i = 0
    if ws:
        while i < len(text) and _is_space(ord(text[i])):
            i += 1
    sg = TYPES[ALIAS.get(ty, ty)][1]
    sign = "-" if sg and text[i:i + 1] == "-" else ""
    rest = text[i + len(sign):]
    if len(rest) > 2 and rest[0] == "0" and rest[1] in "xX" and rest[2].lower() in DIG[:16] and ord(rest[2]) < 128:
        b, rest = 16, rest[2:]
    else:
        b = 8 if rest[:1] == "0" else 10
    v = py_parse(ty, sign + rest, b, False)
    lo, hi = limits(ty)
    return "range" if v is not None and not lo <= v <= hi else None


def random_text(b, rnd):
    n = rnd.choice([1, 2, 3, 5, 8, 10, 11, 19, 20, 21, 32, 33, 40, 64, 65, 70])
    body = "".join(DIG[rnd.randrange(b)] for _ in range(rnd.randint(1, n)))
    if rnd.random() < 0.3:
        body = body.upper()
    if rnd.random() < 0.3:
        body = "0" * rnd.randint(1, 3) + body
    pre = rnd.choice(["", "", "", "-", "-", " ", " -", "+", "\t-", "- ", "--"])
    post = rnd.choice(["", "", " ", "z", "Z", "!", "@", "[", "`", "{", "/", ":", "\x80"])
    return pre + body + post


def generate(tier, seed):
    rnd = random.Random(seed)
    thorough = tier == "thorough"
    cases, dist = [], {}

    def add(line, tag):
        cases.append(Case(line, tag))
        dist[tag] = dist.get(tag, 0) + 1

    # ---- formatting, 8 bit: exhaustive values x bases x lengths
    for ty in ("i8", "u8"):
        lo, hi = limits(ty)
        for v in range(lo, hi + 1):
            add("to_chars_all ty=%s v=%d" % (ty, v), "to_chars_all/8")
            for b in range(2, 37):
                L = len(render(v, b))
                for n in range(0, L + 3):
                    add("to_chars ty=%s v=%d base=%d len=%d" % (ty, v, b, n), "to_chars/8")
            for b in (range(2, 37) if thorough else (2, 10, 16, 36)):
                L = len(render(v, b))
                for n in range(0, L + 3):
                    for term in (0, 1):
                        add("from_integer ty=%s v=%d base=%d len=%d term=%d" % (ty, v, b, n, term), "from_integer/8")
    # ---- formatting, 16 bit: every value (quick: stride + edges) in every base
    for ty in ("i16", "u16"):
        lo, hi = limits(ty)
        vs = range(lo, hi + 1) if thorough else sorted(set(range(lo, hi + 1, 7)) | set(interesting(ty, 2, rnd, 0))
                                                        | set(interesting(ty, 10, rnd, 0)) | set(interesting(ty, 36, rnd, 0)))
        for v in vs:
            add("to_chars_all ty=%s v=%d" % (ty, v), "to_chars_all/16")
        for b in range(2, 37):
            for v in interesting(ty, b, rnd, 2):
                L = len(render(v, b))
                for n in lens_for(L, thorough):
                    add("to_chars ty=%s v=%d base=%d len=%d" % (ty, v, b, n), "to_chars/16")
                if b in (2, 10, 16, 36) or thorough:
                    for n in (max(L - 1, 0), L, L + 1, L + 2):
                        for term in (0, 1):
                            add("from_integer ty=%s v=%d base=%d len=%d term=%d" % (ty, v, b, n, term), "from_integer/16")
    # ---- formatting, 32/64 bit
    for ty in ("i32", "u32", "i64", "u64"):
        allv = set()
        for b in range(2, 37):
            vs = interesting(ty, b, rnd, 40 if thorough else 6)
            allv |= set(vs[:: 1 if thorough else 3])
            for v in vs:
                L = len(render(v, b))
                for n in lens_for(L, thorough):
                    add("to_chars ty=%s v=%d base=%d len=%d" % (ty, venc(v), b, n), "to_chars/wide")
                if b in (2, 10, 16, 36) or thorough:
                    for n in (max(L - 1, 0), L, L + 1, L + 2):
                        for term in (0, 1):
                            add("from_integer ty=%s v=%d base=%d len=%d term=%d" % (ty, venc(v), b, n, term),
                                "from_integer/wide")
        for v in sorted(allv):
            add("to_chars_all ty=%s v=%d" % (ty, venc(v)), "to_chars_all/wide")
        for _ in range(50000 if thorough else 1500):
            v = rnd.randint(*limits(ty))
            add("round_trip ty=%s v=%d base=%d" % (ty, venc(v), rnd.randint(2, 36)), "round_trip")
    # ---- the other integral types (char, char8_t, char16_t, char32_t, wchar_t, long long, unsigned long long):
    # same templates, own overload resolution (etl::abs, numeric_limits, promotions)
    for ty in ALIAS:
        allv = set()
        for b in (range(2, 37) if thorough else (2, 8, 10, 16, 36)):
            vs = interesting(ty, b, rnd, 6 if thorough else 2)
            allv |= set(vs[:: 1 if thorough else 4])
            for v in vs:
                L = len(render(v, b))
                for n in (0, max(L - 1, 0), L, L + 1):
                    add("to_chars ty=%s v=%d base=%d len=%d" % (ty, venc(v), b, n), "to_chars/chartypes")
                for term in (0, 1):
                    add("from_integer ty=%s v=%d base=%d len=%d term=%d" % (ty, venc(v), b, L + term, term),
                        "from_integer/chartypes")
            for t in parse_texts(ty, b, rnd):
                add("from_chars ty=%s s=%s base=%d" % (ty, enc(t), b), "from_chars/chartypes")
                if rnd.random() < 0.3:
                    add("to_integer ty=%s s=%s base=%d ws=%d" % (ty, enc(t), b, rnd.randint(0, 1)), "to_integer/chartypes")
        for v in sorted(allv):
            add("to_chars_all ty=%s v=%d" % (ty, venc(v)), "to_chars_all/chartypes")
        for _ in range(3000 if thorough else 150):
            v = rnd.randint(*limits(ty))
            add("round_trip ty=%s v=%d base=%d" % (ty, venc(v), rnd.randint(2, 36)), "round_trip")

    # ---- to_string<Capacity>
    for fn, ty in (("i32", "i32"), ("u32", "u32"), ("i64", "i64"), ("u64", "u64"), ("ill", "i64"), ("ull", "u64")):
        for v in interesting(ty, 10, rnd, 60 if thorough else 15):
            L = len(render(v, 10))
            for cap in range(L + 1, min(24, L + 3) + 1):
                add("to_string fn=%s cap=%d v=%d" % (fn, cap, venc(v)), "to_string")

    # ---- parsing: exhaustive short strings over a sign/space/digit/garbage alphabet, 8-bit types
    alpha = ["0", "1", "7", "z", "-", "+", " ", "G"]
    shorts = [list(t) for n in range(0, 5 if not thorough else 6) for t in itertools.product(alpha, repeat=n)]
    for ty in ("i8", "u8"):
        for b in (2, 8, 10, 36):
            for s in shorts:
                if len(s) == 5 and b != 10:
                    continue
                add("from_chars ty=%s s=%s base=%d" % (ty, enc(s), b), "from_chars/short")
                if b == 10 and len(s) <= 4:
                    for ws in (0, 1):
                        add("to_integer ty=%s s=%s base=%d ws=%d" % (ty, enc(s), b, ws), "to_integer/short")
    # every single byte, and every byte after a digit
    for c in range(256):
        for ty, b in (("i8", 10), ("u16", 36), ("i32", 16)):
            add("from_chars ty=%s s=%s base=%d" % (ty, fmt_list([c]), b), "from_chars/byte")
            add("from_chars ty=%s s=%s base=%d" % (ty, fmt_list([49, c, 49]), b), "from_chars/byte")
            add("to_integer ty=%s s=%s base=%d ws=1" % (ty, fmt_list([c, 49]), b), "to_integer/byte")
    # 8-bit types: the text of every number in [-300, 300] in every base
    for ty in ("i8", "u8"):
        for b in range(2, 37):
            for n in (range(-300, 301) if thorough else itertools.chain(range(-135, -120), range(-3, 4), range(120, 135),
                                                                         range(250, 262))):
                add("from_chars ty=%s s=%s base=%d" % (ty, enc(render(n, b)), b), "from_chars/8-all")
    # limits of every type in every base, decorated
    for ty in TYPES:
        for b in range(2, 37):
            for t in parse_texts(ty, b, rnd):
                add("from_chars ty=%s s=%s base=%d" % (ty, enc(t), b), "from_chars/limits")
                if rnd.random() < 0.5:
                    add("to_integer ty=%s s=%s base=%d ws=%d" % (ty, enc(t), b, rnd.randint(0, 1)), "to_integer/limits")
    for _ in range(400000 if thorough else 15000):
        ty = rnd.choice(list(TYPES))
        b = rnd.randint(2, 36)
        t = random_text(b, rnd)
        if rnd.random() < 0.6:
            add("from_chars ty=%s s=%s base=%d" % (ty, enc(t), b), "from_chars/rand")
        else:
            add("to_integer ty=%s s=%s base=%d ws=%d" % (ty, enc(t), b, rnd.randint(0, 1)), "to_integer/rand")

    # ---- to_integer with check_overflow = false: every text for the types where an unrepresentable value wraps
    # (unsigned, and narrower than int); for int / long (signed overflow = undefined behaviour) only texts whose
    # value is representable
    for ty in list(TYPES) + ["c8", "c16", "wc", "ill"]:
        ub = TYPES[ALIAS.get(ty, ty)] in ((32, True), (64, True))
        lo, hi = limits(ty)
        for b in (range(2, 37) if thorough else (2, 8, 10, 16, 36)):
            texts = parse_texts(ty, b, rnd) + [random_text(b, rnd) for _ in range(20 if thorough else 6)]
            for t in texts:
                ws = rnd.randint(0, 1)
                v = py_parse(ty, t, b, ws)
                if ub and v is not None and not lo <= v <= hi:
                    continue
                add("to_integer_nc ty=%s s=%s base=%d ws=%d" % (ty, enc(t), b, ws), "to_integer_nc")

    # ---- to_integer / from_chars called DIRECTLY with base 0 (auto-detection).  Views are exact-size heap blocks: a
    # read behind a view that ends in "0x" / "0X" / "-0x" is an ASan report.
    zalpha = ["0", "x", "X", "1", "f", "g", "-"]
    zshort = [list(t) for n in range(0, 5) for t in itertools.product(zalpha, repeat=n)]
    for ty in ("i8", "u8", "i32"):
        for z in zshort:
            if len(z) == 4 and ty == "i32" and not thorough:
                continue
            add("to_integer ty=%s s=%s base=0 ws=1" % (ty, enc(z)), "to_integer/base0-short")
            add("from_chars ty=%s s=%s base=0" % (ty, enc(z)), "from_chars/base0-short")
    for ty in list(TYPES) + list(ALIAS):
        ub = TYPES[ALIAS.get(ty, ty)] in ((32, True), (64, True))
        texts = auto_texts(ty, rnd) + ["0x", "0X", "-0x", "-0X", " 0x", "0", "-0", "0x0", "-0x1", "0x7f", "0x80", "0xff", "0x100"]
        for _ in range(400 if thorough else 40):
            bb = rnd.choice([8, 10, 16])
            t = random_text(bb, rnd)
            body = t.lstrip(" \t-+")
            texts.append(t[: len(t) - len(body)] + {16: rnd.choice(["0x", "0X"]), 8: "0", 10: ""}[bb] + body)
        for t in texts:
            ws = rnd.randint(0, 1)
            add("to_integer ty=%s s=%s base=0 ws=%d" % (ty, enc(t), ws), "to_integer/base0")
            add("from_chars ty=%s s=%s base=0" % (ty, enc(t)), "from_chars/base0")
            if not (ub and py_parse_auto(ty, t, ws) == "range"):
                add("to_integer_nc ty=%s s=%s base=0 ws=%d" % (ty, enc(t), ws), "to_integer_nc/base0")

    # ---- the C library / std::string families
    cfns = ["strtol", "strtoll", "strtoul", "strtoull"]
    afns = ["atoi", "atol", "atoll"]
    sfns = ["stoi", "stol", "stoll", "stoul", "stoull"]
    calpha = ["0", "1", "9", "f", "x", "-", "+", " "]
    cshort = [list(t) for n in range(0, 5) for t in itertools.product(calpha, repeat=n)]
    for s in cshort:
        for fn, b in (("strtol", 10), ("strtoul", 16), ("stoi", 10), ("atoi", 10), ("strtol", 0), ("stoul", 0), ("stol", 16)):
            if len(s) == 4 and fn in ("stoi", "atoi", "stoul", "stol") and not thorough:
                continue
            op = "sto" if fn.startswith("sto") else "cstr"
            add("%s fn=%s s=%s base=%d" % (op, fn, enc(s), b), op + ("/short" if b else "/short-base0"))
            if fn.startswith("strto") and len(s) <= 3:
                add("cstr_erange fn=%s s=%s base=%d" % (fn, enc(s), b), "cstr_erange/short")
    # base 16 and 0 on views / strings that END in or right behind a 0x prefix (sto*: exact-size heap views, so the prefix
    # test of strto_integer must not look at str[pos + 2] when only two characters are left)
    for fn in cfns + sfns:
        op = "sto" if fn in sfns else "cstr"
        for t in ("0x", "0X", "-0x", "+0X", " 0x", "\t-0X", "0xg", "0x1", "-0x1f", "+0XfF", "0x0x1", "00x1", "0x-1", "0x+1", "x1", "0"):
            for b in (16, 0):
                add("%s fn=%s s=%s base=%d" % (op, fn, enc(t), b), op + "/prefix-edge")
    for fn in cfns + sfns:
        op = "sto" if fn in sfns else "cstr"
        for t in auto_texts(FN_TY[fn], rnd):
            add("%s fn=%s s=%s base=0" % (op, fn, enc(t)), op + "/base0")
            if fn in cfns:
                add("cstr_erange fn=%s s=%s base=0" % (fn, enc(t)), "cstr_erange/base0")
        for _ in range(3000 if thorough else 300):
            bb = rnd.choice([8, 10, 16])
            t = random_text(bb, rnd)
            body = t.lstrip(" \t-+")
            t = t[: len(t) - len(body)] + {16: rnd.choice(["0x", "0X"]), 8: "0", 10: ""}[bb] + body
            if rnd.random() < 0.15:
                t = t[: rnd.randint(0, len(t))] + "\x00" + t
            add("%s fn=%s s=%s base=0" % (op, fn, enc(t)), op + "/base0-rand")
    for fn in cfns + afns + sfns:
        ty = FN_TY[fn]
        op = "sto" if fn in sfns else "cstr"
        for b in ([10] if fn in afns else range(2, 37)):
            for t in parse_texts(ty, b, rnd):
                add("%s fn=%s s=%s base=%d" % (op, fn, enc(t), b), op + "/limits")
                if fn in cfns and (thorough or b in (2, 8, 10, 16, 36)):
                    add("cstr_erange fn=%s s=%s base=%d" % (fn, enc(t), b), "cstr_erange/limits")
        for _ in range(6000 if thorough else 700):
            b = 10 if fn in afns else rnd.choice([2, 8, 10, 16, 36, rnd.randint(2, 36)])
            t = random_text(b, rnd)
            if rnd.random() < 0.15:
                t = t[: rnd.randint(0, len(t))] + "\x00" + t
            if rnd.random() < 0.1 and b == 16:
                t = t.replace("-", "-0x", 1) if "-" in t else "0x" + t
            add("%s fn=%s s=%s base=%d" % (op, fn, enc(t), b), op + "/rand")
    return cases, False, dist


def _fields(line):
    return dict(kv.split("=", 1) for kv in line.split(" ")[1:])


def _text(f):
    body = f["s"][1:-1]
    return [int(x) for x in body.split(",")] if body else []


def _is_space(c):
    return c == 32 or 9 <= c <= 13


def _hex_digit(c):
    return 48 <= c <= 57 or 97 <= c <= 102 or 65 <= c <= 70


def nontrivial(case, rows):
    r = rows[0].spec
    op = case.lines[0].split(" ")[0]
    if op == "to_chars_all":
        return len(r) > 69 + 35          # some base needs more than one character
    if op in ("to_chars", "from_integer"):
        f = _fields(case.lines[0])
        return int(f["len"]) >= 1 and not r.startswith("ok(1,")
    if op == "to_string":
        return not r.startswith("ok(1,")
    if op == "round_trip":
        return True
    # parsing: "no conversion" counts when the text has at least two characters; a conversion counts when it
    # consumed at least two characters; every range error counts
    if op == "cstr_erange":
        return r == "1" or len(_text(_fields(case.lines[0]))) >= 2
    if r in ("invalid(77,0)", "invalid(0)", "invalid", "0,0"):
        return len(_text(_fields(case.lines[0]))) >= 2
    if r.startswith("range") or r == "overflow" or r == "*":
        return True
    nums = [x for x in r.replace("ok(", "").replace("none(", "").replace(")", "").split(",")]
    if len(nums) >= 2:
        return int(nums[1]) >= 2
    return abs(int(nums[0])) >= 10


def classify(case, k, row):
    """finding id for an impl != spec case; the predicates are recomputed from the case (rows), those of the Lean
    `..._partial` theorems"""
    line = case.lines[k]
    op = line.split(" ")[0]
    f = _fields(line)
    if op == "from_chars":
        # Spec.parse = .range n  (hypothesis excluded by C10.fromChars_eq_partial)
        if row.spec.startswith("range(") and row.impl == "range(77,0)":
            return "F-C10-from-chars-ptr-on-overflow"
        return None
    if op != "sto":
        return None
    # std::sto* throw where no conversion can be performed (std::invalid_argument) and where the value is out of range
    # (std::out_of_range); etl::sto* are freestanding and return what strtol returns: 0 with *pos = 0, resp. the
    # saturated value with *pos behind the digits - which is what the model (proved equal to the C grammar) says
    if row.spec in ("invalid", "range") and row.impl == row.model and row.impl.startswith("ok("):
        return "F-C10-sto-no-exception"
    return None


def group_of(case):
    return case.tag.split("/")[0]


P = "Tetl.C10.Props."
G = "Tetl.C10.GenProps."
_TYS = ["i8", "i16", "i32", "i64", "ill", "c8", "wc", "u8", "u16", "u32", "u64", "ull", "c8u", "c16", "c32"]
_GEN = [G + "gen_%schk_%s_%s" % ("s" if t in _TYS[:7] else "u", t, k) for t in _TYS for k in ("eq", "exact")] + \
       [G + "gen_parseDigit_%s_eq" % t for t in _TYS]
THEOREMS = {
    "to_chars": [P + "toChars_eq", P + "fromInteger_eq", P + "revRange_is_etl_reverse"],
    "to_chars_all": [P + "toChars_eq", P + "round_trip"],
    "from_integer": [P + "fromInteger_eq", P + "revRange_is_etl_reverse"],
    "to_string": [P + "toStr_eq"],
    "from_chars": [P + "toInteger_eq", P + "toInteger_auto_eq", P + "fromChars_eq_partial", P + "fromChars_range",
                   P + "overflow_exact"] + _GEN,
    "to_integer": [P + "toInteger_eq", P + "toInteger_auto_eq", P + "overflow_exact", P + "overflow_exact_auto"] + _GEN,
    "to_integer_nc": [P + "toInteger_unchecked_eq", P + "toInteger_unchecked_auto_eq", P + "toInteger_unchecked_outside"],
    "round_trip": [P + "round_trip"],
    "cstr": [P + "strto_eq", P + "cstrto_eq", P + "ato_eq"],
    "cstr_erange": [],
    "sto": [P + "strto_eq"],
}

CLAIMED = True
TECHNIQUE = ("Lean 4 proof: hand model of from_integer/to_integer/strto_integer and their wrappers = declarative digit-list "
             "spec for all widths, signednesses, bases, values, buffers and input strings; overflow checkers and parseDigit "
             "of the model = their translation from the clang AST (regenerated on every run); model tied to the code by "
             "exhaustive 8/16-bit + boundary + random correspondence run against the implementation, spec validated against "
             "libstdc++/glibc")
LEVEL_TEXT = ("The model of strings::from_integer (hence to_chars, to_string) is proved in Lean 4 to write, through checked "
              "writes only, exactly sign + most-significant-first digits of the value (+ optional NUL) when they fit and to "
              "report overflow otherwise, leaving the rest of the buffer untouched, for every width, signedness, base 2..36, "
              "value and buffer length (its etl::reverse call is C06's proved swap loop); the model of strings::to_integer "
              "(hence from_chars) is proved to return value, consumed count and error class of the from_chars grammar for "
              "every byte string, with overflow detected exactly at the type's limits and no signed overflow or "
              "out-of-string read, also with base 0 (base taken from the text: 0x/0X + hex digit, leading 0, else decimal); "
              "its overflow checkers and digit classifier are additionally translated from the clang AST of the current "
              "header on every run and proved equal to the model's for all 15 integral types; the model of "
              "strings::detail::strto_integer (strtol, strtoll, strtoul, strtoull, ato*, sto*) is proved to return the "
              "value and end of the C grammar (C17 7.22.1.4: white space, +/-, 0x with base 16 or 0, negation in the "
              "unsigned type, saturation at the limits) for EVERY text and base 0, 2..36, reading nothing at or after the "
              "first NUL; parsing the formatted text returns the value. The model is tied to the current source on every "
              "run by running it and the implementation on the same inputs under ASan/UBSan with guard bytes and exact-size "
              "heap views; the spec is validated against libstdc++/glibc.")
LEVEL_NOTE = ("Trusted: Lean kernel + propext/Classical.choice/Quot.sound; fidelity of the hand model outside the explored "
              "inputs (checkers/parseDigit: gen/translate.py + clang-16 instead); g++-12/ASan/UBSan; libstdc++/glibc as oracle "
              "for spec validation. Recorded deviations (known findings): from_chars returns ptr=first on "
              "result_out_of_range (the suite asserts it); sto* do not throw (no conversion: 0 with *pos = 0; out of range: "
              "the saturated value). Not covered by design: errno = ERANGE (a freestanding library has no errno). Repaired "
              "(this check's fix commits): base 0 crashed (SIGFPE); '+' sign refused; strtoul('-1') refused; 0x prefix with "
              "base 16 not skipped; out-of-range texts gave 0 with end = str instead of the saturated value. "
              "Members listed in coverage.correspondence_only have no theorem of their own.")
# every modelled member has a theorem; what is compared but not proved:
CORRESPONDENCE_ONLY = ["sto* on views with an embedded NUL (theorem is about the view as given; the oracle truncates - equal "
                       "because a NUL is neither white space, sign nor digit)",
                       "sto* exceptions / strto* errno: outside the model (recorded finding F-C10-sto-no-exception; errno: "
                       "no errno in a freestanding library - the spec's ERANGE flag is validated against glibc on the "
                       "cstr_erange lines, the implementation column is masked)",
                       "to_integer<check_overflow = false> on texts whose value is not representable: outside the option's "
                       "contract, no theorem beyond toInteger_unchecked_outside; the wrap-around is compared implementation = "
                       "model for unsigned and narrower-than-int types, int/long are not run there (undefined behaviour); "
                       "strto_integer relies on it only for the END of the digits in the unsigned type (proved: "
                       "Tetl.C10.toIntegerNC_end / toIntegerNC_auto_end)",
                       "char8_t/char16_t/char32_t/wchar_t as the INTEGER type: the theorems are per (bits, signed); the "
                       "reference of the run is the standard integer type of the same width and signedness. As the TEXT "
                       "type they do not exist: to_integer takes etl::string_view and from_integer / to_chars write "
                       "through char* only (no template over the character type)"]


# ---- tie T for the overflow checkers / parseDigit of strings::to_integer: regenerated from the clang AST on every run
# (gen/translate.py, job set TOINT_JOBS); TetlProofs/C10/GenProps.lean is re-checked against the regenerated
# Tetl/C10/Gen.lean.
def regenerate(ctx):
    import os
    import sys
    import lib
    sys.path.insert(0, os.path.join(lib.VERIF, "gen"))
    import translate
    out = os.path.join(lib.LEAN, "Tetl", "C10", "Gen.lean")
    info = translate.translate(lib.REPO, out, translate.TOINT_JOBS, translate.TOINT_TU, "Tetl.C10.Gen",
                               "include/etl/_strings/to_integer.hpp")
    res = {"generated_files": [os.path.relpath(out, lib.VERIF)], "hash": [lib.file_hash(out)], "changed": info["changed"],
           "functions": info["functions"], "translator": info["translator"]}
    if info["errors"]:
        res["error"] = "; ".join(info["errors"])
    return res
