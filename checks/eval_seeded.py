#!/usr/bin/env python3
"""eval_seeded.py <seeded-dir> [--tier quick|thorough]

Confirms a seeded change (patch.diff + demo.cpp + meta.json) and runs the property's check against it:
  1. scratch worktree of /repo HEAD outside /repo and /verif, patch applied;
  2. the pinned suite still passes there (261/261);
  3. demo.cpp exits 0 on /repo and non-zero on the scratch tree;
  4. `check.py <prop>` with VERIF_REPO=<scratch>: exit status and VIOLATION lines;
  5. the scratch worktree and its build output are removed.
Writes the outcome into <seeded-dir>/evaluation.json.
"""
import json
import os
import re
import shutil
import subprocess
import sys
import time

HERE = os.path.dirname(os.path.abspath(__file__))
VERIF = os.path.dirname(HERE)


def sh(cmd, **kw):
    p = subprocess.run(cmd, shell=isinstance(cmd, str), stdout=subprocess.PIPE, stderr=subprocess.STDOUT, text=True, errors="replace", **kw)
    return p.returncode, p.stdout


def main():
    d = os.path.abspath(sys.argv[1])
    tier = sys.argv[3] if len(sys.argv) > 3 and sys.argv[2] == "--tier" else "quick"
    meta = json.load(open(os.path.join(d, "meta.json")))
    prop = meta["property"]
    name = os.path.basename(d)
    scratch = "/tmp/evalseed-%s-%d" % (name, os.getpid())
    out = {"property": prop, "name": name, "tier": tier, "at": time.strftime("%Y-%m-%dT%H:%M:%SZ", time.gmtime())}
    # the outcome of the first evaluation (before any strengthening of the check) is kept for the record
    evf = os.path.join(d, "evaluation.json")
    if os.path.exists(evf):
        old = json.load(open(evf))
        out["first_evaluation"] = old.get("first_evaluation") or {k: old.get(k) for k in ("at", "tier", "check_exit", "caught", "no_failing_input_found_only")}
    rc, o = sh(["git", "-C", "/repo", "worktree", "add", "-q", "--detach", scratch, "HEAD"])
    if rc != 0:
        print("worktree failed", o)
        sys.exit(2)
    try:
        rc, o = sh(["git", "-C", scratch, "apply", os.path.join(d, "patch.diff")])
        out["patch_applies"] = rc == 0
        if rc != 0:
            out["error"] = o[-400:]
            return out
        rc, o = sh([os.path.join(HERE, "run_suite.sh"), scratch])
        out["suite_passes_with_change"] = rc == 0
        # demo: compile command from the first comment lines, else default
        demo = os.path.join(d, "demo.cpp")
        flags = "-std=c++20 -O1 -g -fsanitize=address,undefined -fno-sanitize-recover=all"
        head = open(demo).read(3000)
        head = re.sub(r"\\\s*\n\s*//", " ", head)          # a compile command continued over several comment lines
        m = re.search(r"g\+\+\s+([^\n]*?)\s+-I\S+", head)
        if m:
            flags = m.group(1)
        res = {}
        for label, inc in (("pristine", "/repo/include"), ("changed", os.path.join(scratch, "include"))):
            exe = "/tmp/demo-%s-%s-%d" % (name, label, os.getpid())
            rc, o = sh("g++ %s -I%s %s -o %s" % (flags, inc, demo, exe))
            if rc != 0:
                res[label] = "compile-failed: " + o[-300:]
                continue
            try:
                rc, o = sh([exe], timeout=300)
            except subprocess.TimeoutExpired:
                rc = "timeout"
            res[label] = rc
            os.unlink(exe)
        out["demo_exit"] = res
        out["demo_confirms"] = res.get("pristine") == 0 and res.get("changed") not in (0, None) and not str(res.get("changed")).startswith("compile")
        env = dict(os.environ, VERIF_REPO=scratch, VERIF_SEED=os.environ.get("VERIF_SEED", "1"))
        t0 = time.time()
        rc, o = sh([sys.executable, os.path.join(HERE, "check.py"), prop, "--tier", tier], env=env, cwd=VERIF)
        out["check_exit"] = rc
        out["check_wall_s"] = round(time.time() - t0, 1)
        vio = [l for l in o.splitlines() if l.startswith("VIOLATION")]
        out["violation_lines"] = vio[:6]
        out["caught"] = rc == 1 and bool(vio)
        out["no_failing_input_found_only"] = bool(vio) and all("no-failing-input-found" in v for v in vio)
        replays = []
        for v in vio[:3]:
            m = re.search(r"replay=(\S+)", v)
            if m and os.path.exists(m.group(1)):
                r = json.load(open(m.group(1)))
                replays.append({k: r.get(k) for k in ("kind", "cases", "impl", "model", "spec", "std", "lean_error", "failing_input_found")})
                os.unlink(m.group(1))
        out["replays"] = replays
        out["check_tail"] = o.splitlines()[-6:]
        return out
    finally:
        sh(["git", "-C", "/repo", "worktree", "remove", "--force", scratch])
        shutil.rmtree(scratch, ignore_errors=True)
        json.dump(out, open(os.path.join(d, "evaluation.json"), "w"), indent=1)
        print(json.dumps({k: out.get(k) for k in ("name", "patch_applies", "suite_passes_with_change", "demo_confirms", "check_exit", "caught", "violation_lines")}, indent=1))


if __name__ == "__main__":
    main()
