#!/usr/bin/env python3
"""check.py <Cxx> [--tier quick|thorough] [--replay file]

Decides one property of /verif/properties.jsonl on $VERIF_REPO (default /repo).
See checks/lib.py for the flow and DESIGN.md §1.4 for what each outcome means.
"""
import argparse
import importlib
import json
import os
import random
import sys
import time

sys.path.insert(0, os.path.dirname(os.path.abspath(__file__)))
import lib  # noqa: E402
from lib import Case, log  # noqa: E402


def load_corpus(prop):
    d = os.path.join(lib.CORPUS, prop)
    cases = []
    if os.path.isdir(d):
        for fn in sorted(os.listdir(d)):
            if fn.endswith(".case"):
                lines = [ln.rstrip("\n") for ln in open(os.path.join(d, fn)) if ln.strip() and not ln.startswith("#")]
                if lines:
                    cases.append(Case(lines, "corpus:" + fn))
    return cases


def standard(mod, ctx, replay=None):
    prop = ctx.prop
    known = lib.load_known(prop)

    # 0. source scan: no sorry/admit/axiom/native_decide/... anywhere in the Lean tree
    hits = lib.lean_source_scan([os.path.join(lib.LEAN, "Tetl"), os.path.join(lib.LEAN, "TetlProofs")])
    if hits:
        log("MACHINERY-ERROR forbidden construct in Lean sources:\n  " + "\n  ".join(hits[:10]))
        return 2

    # 1. regenerate (tie T), if the property has generated parts
    proof_broken = None
    gen_info = {}
    if hasattr(mod, "regenerate"):
        gen_info = mod.regenerate(ctx) or {}
        if gen_info.get("error"):
            proof_broken = "translator: " + gen_info["error"]

    # 2. build: driver first (must build), then proofs (may break when generated code changed)
    driver = mod.DRIVER
    ok, out = lib.lake_build([mod.DRIVER])
    if not ok:
        if hasattr(mod, "regenerate"):
            proof_broken = proof_broken or ("generated model does not build: " + lib.first_lean_error(out))
            driver = None
            log("generated model does not build (%s); comparing the implementation with std only" % proof_broken)
        else:
            log("MACHINERY-ERROR driver build failed: " + lib.first_lean_error(out))
            return 2
    ok, out = lib.lake_build(mod.PROOF_MODULES)
    if not ok:
        proof_broken = proof_broken or lib.first_lean_error(out)
        log("proof obligation no longer checks: " + proof_broken)

    # 3. audit
    thms, bad = ({}, [])
    if not proof_broken:
        thms, bad = lib.audit(mod.PROOF_MODULES)
        if bad:
            log("MACHINERY-ERROR theorems with axioms outside the allow-list: %s" % bad)
            return 2
        if not thms:
            log("MACHINERY-ERROR no theorems found in %s" % mod.PROOF_MODULES)
            return 2
    checker_ok = None
    if ctx.tier == "thorough" and not proof_broken and not replay:
        for m in mod.PROOF_MODULES:
            okc, msg = lib.leanchecker(m)
            checker_ok = okc if checker_ok in (None, True) else checker_ok
            if not okc:
                log("MACHINERY-ERROR leanchecker rejected %s: %s" % (m, msg))
                return 2

    # 4. harness from the current tree
    exe, err = lib.build_harness(mod.HARNESS, prop.lower() + "_harness", getattr(mod, "HARNESS_FLAGS", []))
    if exe is None:
        raise lib.MachineryError("harness does not compile against %s:\n%s" % (lib.REPO, err[-6000:]))

    # 5. cases
    if replay:
        rp = json.load(open(replay))
        cases = [Case(rp["cases"], "replay")]
        exhaustive, dist = False, {}
    else:
        pre = load_corpus(prop)
        for fid, e in known.items():
            if e.get("witness"):
                pre.append(Case(e["witness"], "finding:" + fid))
        cases, exhaustive, dist = mod.generate(ctx.tier, ctx.seed)
        cases = pre + cases
    results = lib.run_batch(ctx, cases, exe, driver, harness_env=getattr(mod, "HARNESS_ENV", None))
    fails = lib.evaluate(cases, results)

    if replay:
        for c, rows in zip(cases, results):
            for ln, r in zip(c.lines, rows):
                log("%-50s impl=%s model=%s spec=%s std=%s" % (ln, r.impl, r.model, r.spec, r.std))
        bad_kinds = [f.kind for f in fails if f.kind in ("R1", "R3")]
        log("replay: %s" % ("FAILS " + ",".join(bad_kinds) if bad_kinds else "passes"))
        return 1 if bad_kinds else 0

    # 6. escalate the search when an obligation or the correspondence broke without a failing input yet
    def r3(fs):
        return [f for f in fs if f.kind == "R3"]
    escalated = False
    if (proof_broken or [f for f in fails if f.kind == "R1"]) and not r3(fails) and ctx.tier == "quick":
        escalated = True
        log("escalating: searching the thorough input space for a failing input")
        more, _, _ = mod.generate("thorough", ctx.seed)
        more = more[: getattr(mod, "SEARCH_CAP", 400000)]
        res2 = lib.run_batch(ctx, more, exe, driver, harness_env=getattr(mod, "HARNESS_ENV", None))
        fails2 = lib.evaluate(more, res2)
        cases, results, fails = cases + more, results + res2, fails + fails2

    # 7. verdicts
    machinery = False
    reported = {}          # (kind, tag/function) -> count, to bound output
    finding_seen = set()
    for f in sorted(fails, key=lambda f: (len(f.case.text()), f.case.text())):
        if f.kind == "BAD":
            log("MACHINERY-ERROR bad-op on: %s  -> %s" % (f.case.lines[f.line_idx], f.row.as_dict()))
            machinery = True
            continue
        if f.kind == "R2":
            log("MACHINERY-ERROR spec!=std (defect of the Lean spec, not of tetl): %s -> %s"
                % (f.case.lines[: f.line_idx + 1], f.row.as_dict()))
            machinery = True
            continue
        fid = mod.classify(f.case, f.line_idx, f.row) if f.kind == "R3" else None
        if f.case.tag.startswith("finding:") and fid is None:
            fid = f.case.tag[8:] if known.get(f.case.tag[8:], {}).get("status") == "known" else None
        if fid and known.get(fid, {}).get("status") == "known":
            ctx.known(fid, known[fid].get("what", ""))
            finding_seen.add(fid)
            continue
        key = (f.kind, mod.group_of(f.case) if hasattr(mod, "group_of") else f.case.lines[f.line_idx].split(" ")[0])
        reported[key] = reported.get(key, 0) + 1
        if reported[key] > 1:
            continue                      # one replay per (relation, operation): the smallest case
        case = f.case
        if len(case.lines) > 2:
            def still(c):
                rs = lib.run_batch(ctx, [c], exe, driver, jobs=1, harness_env=getattr(mod, "HARNESS_ENV", None))
                return any(x.kind == f.kind for x in lib.evaluate([c], rs))
            case = lib.ddmin_lines(case, still)
            rs = lib.run_batch(ctx, [case], exe, driver, jobs=1)
            ff = [x for x in lib.evaluate([case], rs) if x.kind == f.kind]
            row, li = (ff[0].row, ff[0].line_idx) if ff else (f.row, f.line_idx)
        else:
            row, li = f.row, f.line_idx
        op = case.lines[li].split(" ")[0]
        payload = {
            "kind": "impl_violates_property" if f.kind == "R3" else "correspondence_broken",
            "cases": case.lines, "failing_line": li,
            "impl": row.impl, "model": row.model, "spec": row.spec, "std": row.std,
            "theorems": getattr(mod, "THEOREMS", {}).get(op, []),
            "lean_error": proof_broken,
            "source": lib.source_hashes(mod.SOURCES),
            "failing_input_found": f.kind == "R3",
            "count_same_group": None,
        }
        ctx.violation(payload, found=(f.kind == "R3"))
    if proof_broken and not ctx.violations:
        ctx.violation({"kind": "proof_broken", "cases": [], "lean_error": proof_broken,
                       "theorems": mod.PROOF_MODULES, "source": lib.source_hashes(mod.SOURCES),
                       "failing_input_found": False,
                       "explanation": "a proof obligation over the regenerated model no longer checks; the search "
                                      "over %d cases found no input on which the implementation violates the property"
                                      % len(cases)}, found=False)
    for key, n in reported.items():
        if n > 1:
            log("  (%d further failing cases of kind %s in %s not listed)" % (n - 1, key[0], key[1]))

    # known findings that did not reproduce are noted (not an alarm): the entry may be stale
    stale = [fid for fid, e in known.items() if e.get("status") == "known" and fid not in finding_seen]
    for fid in stale:
        ctx.notes.append("known finding %s did not reproduce on this run" % fid)

    # 8. evidence
    nontriv = set()
    for c, rows in zip(cases, results):
        if mod.nontrivial(c, rows):
            nontriv.add(c.text())
    n_eval = sum(len(c.lines) for c in cases)
    samples = []
    rnd = random.Random(ctx.seed)
    for idx in rnd.sample(range(len(cases)), min(5, len(cases))):
        c, rows = cases[idx], results[idx]
        samples.append({"case": c.lines[:12], "out": [r.as_dict() for r in rows[:12]]})
    vers = lib.toolchain_versions()
    axioms_used = sorted({a for axs in thms.values() for a in axs})
    coverage = {
        "obligations": len(thms) if thms else max(1, len(getattr(mod, "THEOREMS", {}))),
        "discharged": len(thms) - len(bad) if thms else 0,
        "checker_cmd": "cd /verif/lean && lake build %s && lake env lean <audit of %s> (#audit_module: axioms of every theorem)%s"
                       % (" ".join(mod.PROOF_MODULES), ",".join(mod.PROOF_MODULES),
                          " && lake env leanchecker <module>" if ctx.tier == "thorough" else ""),
        "trusted_base": ["Lean 4 kernel (%s)" % vers["lean"], "axioms used by the property theorems: %s" % (axioms_used or ["none"])]
                        + list(mod.TRUSTED) + ["harness compiler: %s with ASan+UBSan" % vers["cxx"]],
        "theorems": sorted(thms.keys()),
        "leanchecker": checker_ok,
        "evaluations": n_eval,
        "distinct_nontrivial": len(nontriv),
        "rule": mod.RULE,
        "samples": samples,
        "exhaustive": bool(exhaustive),
        "traces_validated_against_impl": sum(1 for c, rows in zip(cases, results)
                                             if all(lib.eq(r.impl, r.model) for r in rows)),
        "input_distribution": dist,
        "sanitizer_aborts": ctx.aborts,
        "known_findings_replayed": {k: v for k, v in ctx.known_hits.items()},
        "escalated_search": escalated,
        "generated": gen_info,
        "source_hashes": lib.source_hashes(mod.SOURCES),
        "notes": ctx.notes,
        "unproved_observed": getattr(mod, "UNPROVED_OBSERVED", []),
        "correspondence_only": getattr(mod, "CORRESPONDENCE_ONLY", []),
    }
    ctx.write_evidence(coverage, list(mod.ASSUMPTIONS))
    if machinery:
        return 2
    log("%s %s: %d theorems, %d cases (%d lines), %d distinct non-trivial, %d known-finding hits, %d violations, %.1fs"
        % (prop, ctx.tier, len(thms), len(cases), n_eval, len(nontriv), sum(ctx.known_hits.values()),
           len(ctx.violations), time.time() - ctx.t0))
    return 1 if ctx.violations else 0


def main():
    ap = argparse.ArgumentParser()
    ap.add_argument("prop")
    ap.add_argument("--tier", default=os.environ.get("VERIF_TIER", "quick"), choices=["quick", "thorough"])
    ap.add_argument("--replay")
    a = ap.parse_args()
    seed = int(os.environ.get("VERIF_SEED", "1"))
    prop = a.prop.upper()
    mod = importlib.import_module("props." + prop.lower())
    ctx = lib.Ctx(prop, a.tier, seed)
    try:
        if hasattr(mod, "run"):
            rc = mod.run(ctx, a.replay)
        else:
            rc = standard(mod, ctx, a.replay)
    except lib.MachineryError as e:
        msg = str(e)
        if "does not compile" in msg and not a.replay:
            # the tie to the code is broken by the tree (the harness compiles on the unchanged tree): a violation, not silence
            rc = lib.compile_failure_violation(ctx, getattr(mod, "HARNESS", "the harness"), msg)
        else:
            log("MACHINERY-ERROR " + msg)
            rc = 2
    sys.exit(rc)


if __name__ == "__main__":
    main()
