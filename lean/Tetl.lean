import Tetl.Proto
