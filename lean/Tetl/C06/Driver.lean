/- placeholder: the C06 driver is not built yet -/
def main : IO Unit := IO.println "C06: driver not built yet"
