/-
C06 line-protocol driver: prints `model <TAB> spec` for each case line.

Elements are integers `100*key + tag` (the tag gives every element an identity, so stability and
"which of two equivalent elements" are observable); comparators, binary and unary predicates look
at the key only:  cmp = less|dflt, greater, mod3 (key%3);  eq = eq|dflt, eqmod (key%2);  p = bit mask
over the keys.  `a=[..] f= l=` is the storage and the range in it (context elements have key 7),
`b=[..]` a second range (whole list), iterator results are printed as indices into `a`.
Positions the standard leaves unspecified are printed as `_` by all four sides.

Algorithms that write through an output iterator get a destination storage built by `mkDest`:
`dp` context elements 800.., then the window the caller provides — exactly as many positions as the
standard's result needs plus `slack` — filled with -1,-2,.., then one context element 899.  They print
`r=<returned output iterator as an index into the destination> d=<the whole destination>`; the model is
run with the window `[dp, dp+room)`, so a write outside it is `oob`.  For unique_copy `it=in|fwd` means a
pure output iterator (value-copy branch), `it=ptr|bidi` a pointer destination (read-back branch).
The needle of search / find_end / find_first_of is the range `[g,h)` of `b` (default: all of `b`).

`it=in1` (a genuinely single-pass input iterator in the harness) runs the single-pass models of
Model/SinglePass.lean where one exists (find family, count, for_each(_n), is_partitioned, mismatch, equal,
lexicographical_compare, includes, accumulate/reduce, inner_product): a model that used a stale iterator copy
would print `pre(multipass)`.  `ty=sc|uc|c|sh|b` (arithmetic element types through raw pointers): the elements ARE the
keys (no tags), `cmp=dflt|less` is `<` on the values, `eq` is `==`; with `ce=1` the model column repeats its result as
` ce=…` (the harness appends what the compiler computed for the same call in a constant expression).
-/
import Tetl.Proto
import Tetl.C06.Model
import Tetl.C06.Spec
namespace Tetl.C06.Driver
open Tetl Tetl.Proto

abbrev E := Int
def key (e : E) : Int := e / 100
/-- `raw` (arithmetic element types, `ty=`): the element is its own key -/
def keyOf (raw : Bool) (e : E) : Int := if raw then e else key e
def cmpOf (s : String) (raw : Bool := false) : E → E → Bool :=
  if s == "greater" then fun x y => keyOf raw x > keyOf raw y
  else if s == "mod3" then fun x y => keyOf raw x % 3 < keyOf raw y % 3
  else fun x y => keyOf raw x < keyOf raw y
/-- class of an element under the comparator's equivalence -/
def clsOf (s : String) (e : E) : Int := if s == "mod3" then key e % 3 else key e
def eqOf (s : String) (raw : Bool := false) : E → E → Bool :=
  if s == "eqmod" then fun x y => keyOf raw x % 2 == keyOf raw y % 2 else fun x y => keyOf raw x == keyOf raw y
def predOf (mask : Nat) (e : E) : Bool := (mask >>> (key e).toNat) % 2 == 1

def fmtE {α : Type} (g : α → String) : Except Err α → String
  | .ok x => g x
  | .error e => e.fmt

def fmtOpt (l : List (Option Int)) : String :=
  "[" ++ ",".intercalate (l.map fun | some i => toString i | none => "_") ++ "]"
/-- the storage with positions `[lo,hi)` masked -/
def fmtMask (a : List E) (lo hi : Nat) : String :=
  fmtOpt ((List.range a.length).zip a |>.map fun (i, x) => if lo ≤ i && i < hi then none else some x)
def sorted (l : List Int) : List Int := l.mergeSort (fun x y => x ≤ y)
def fmtIdx (n : Nat) : String := s!"r={n}"
def fmtB (b : Bool) : String := s!"r={fmtBool b}"

structure Args where
  a : List E
  f : Nat
  l : Nat
  b : List E
  m : Nat
  d : Nat
  n : Int
  v : E
  w : E
  p : Nat
  cmp : String
  eq : String
  it : String
  ov : String
  op : String
  init : Int
  dp : Nat
  slack : Nat
  g : Nat
  h : Nat
  ty : String
  ce : Bool

def getArgs (ln : Line) : Args :=
  let a := (ln.list? "a").getD []
  { a := a, f := (ln.nat? "f").getD 0, l := (ln.nat? "l").getD a.length, b := (ln.list? "b").getD [],
    m := (ln.nat? "m").getD 0, d := (ln.nat? "d").getD 0, n := (ln.int? "n").getD 0, v := (ln.int? "v").getD 0,
    w := (ln.int? "w").getD 0, p := (ln.nat? "p").getD 0, cmp := (ln.str? "cmp").getD "dflt",
    eq := (ln.str? "eq").getD "dflt", it := (ln.str? "it").getD "ptr", ov := (match ln.get? "ov" with | some (.int i) => toString i | some (.str s) => s | _ => ""),
    op := (ln.str? "op").getD "dflt", init := (ln.int? "init").getD 0,
    dp := (ln.nat? "dp").getD 0, slack := (ln.nat? "slack").getD 0,
    g := (ln.nat? "g").getD 0, h := (ln.nat? "h").getD ((ln.list? "b").getD []).length,
    ty := (ln.str? "ty").getD "", ce := (ln.nat? "ce").getD 0 != 0 }

/-- canonical form of an unstable sort result: classes in order, the elements as a multiset, the context -/
def canonSort (cmp : String) (a : List E) (f l : Nat) : String :=
  let r := slice a f l
  s!"c={fmtList (r.map (clsOf cmp))} s={fmtList (sorted r)} a={fmtMask a f l}"
def canonNth (cmp : String) (a : List E) (f m l : Nat) : String :=
  let r := slice a f l
  let k := m - f
  let nth := match r[k]? with | some x => toString (clsOf cmp x) | none => "-"
  s!"lo={fmtList (sorted ((r.take k).map (clsOf cmp)))} nth={nth} hi={fmtList (sorted ((r.drop (k + 1)).map (clsOf cmp)))} s={fmtList (sorted r)} a={fmtMask a f l}"
def canonPartial (cmp : String) (a : List E) (f m l : Nat) : String :=
  let r := slice a f l
  let k := m - f
  s!"c={fmtList ((r.take k).map (clsOf cmp))} hi={fmtList (sorted ((r.drop k).map (clsOf cmp)))} s={fmtList (sorted r)} a={fmtMask a f l}"
def canonPartition (a : List E) (f l r : Nat) : String :=
  s!"r={r} lo={fmtList (sorted (slice a f r))} hi={fmtList (sorted (slice a r l))} a={fmtMask a f l}"

def genF (k : Nat) : Int := 100 + 10 * Int.ofNat k

/-- destination storage: `dp` context elements, a window of `room` positions, one context element -/
def mkDest (dp room : Nat) : List E :=
  (List.range dp).map (fun i => 800 + Int.ofNat i) ++ (List.range room).map (fun t => -1 - Int.ofNat t) ++ [899]
def fmtOut (r : List E × Nat) : String := s!"r={r.2} d={fmtList r.1}"

def numOp (s : String) : Int → Int → Int :=
  if s == "minus" then fun x y => x - y else if s == "mul2" then fun x y => 2 * x + y else fun x y => x + y

/-- arithmetic element types (`ty=`): the same models and specs with the element as its own key -/
def stepArith (g : Args) (ln : Line) : Unit × String :=
  let bad := ((), "bad-op\tbad-op")
  let a := g.a; let f := g.f; let l := g.l; let b := g.b; let h := b.length
  let R := slice a f l
  let lt := cmpOf g.cmp true; let eqf := eqOf g.eq true
  -- model column: result (+ ` ce=` the same result once more when ce=1); spec column: result
  let out (m : Except Err String) (ce : Except Err String) (s : String) (sce : String) : Unit × String :=
    let mm := match m, ce with
      | .ok x, .ok c => if g.ce then x ++ " ce=" ++ c else x
      | .error e, _ => e.fmt
      | _, .error e => e.fmt
    ((), mm ++ "\t" ++ (if g.ce then s ++ " ce=" ++ sce else s))
  let idx (m : Except Err Nat) (s : Nat) := out (m.map fmtIdx) (m.map toString) (fmtIdx (f + s)) (toString (f + s))
  let boo (m : Except Err Bool) (s : Bool) := out (m.map fmtB) (m.map fmtBool) (fmtB s) (fmtBool s)
  let srt (m : Except Err (List E)) :=
    out (m.map fun x => "a=" ++ fmtList x) (m.map fun x => fmtList (slice x f l)) ("a=" ++ fmtList (splice a f l (Spec.stableSort lt R)))
      (fmtList (Spec.stableSort lt R))
  match ln.op with
  | "lexicographical_compare" => boo (lexicographicalCompare lt a f l b 0 h) (Spec.lexLt lt R b)
  | "equal" =>
    if g.ov == "4" then boo (equal4RA eqf a f l b 0 h) (Spec.equal eqf R b)
    else boo (equal3 eqf a f l b 0 h) (Spec.equal eqf R (b.take R.length))
  | "mismatch" =>
    let m := mismatch4 eqf a f l b 0 h
    let s := Spec.mismatch eqf R b
    out (m.map fun r => s!"r={r.1},{r.2}") (m.map fun r => toString r.1) s!"r={f + s},{s}" (toString (f + s))
  | "search" => idx (searchB eqf a f l b 0 h) (Spec.search eqf R b)
  | "find_end" => idx (findEndB eqf a f l b 0 h) (Spec.findEnd eqf R b)
  | "includes" => boo (includes lt a f l b 0 h) (Spec.includes lt R b)
  | "is_permutation" => boo (isPermutation4 eqf a f l b 0 h) (Spec.isPermutation eqf R b)
  | "min_element" => idx (minElement lt a f l) (Spec.minElement lt R)
  | "max_element" => idx (maxElement lt a f l) (Spec.maxElement lt R)
  | "minmax_element" =>
    let m := minmaxElement lt a f l
    out (m.map fun r => s!"r={r.1},{r.2}") (m.map fun r => toString r.1) s!"r={f + Spec.minElement lt R},{f + Spec.maxElementLast lt R}" ""
  | "is_sorted_until" => idx (isSortedUntil lt a f l) (Spec.isSortedUntil lt R)
  | "find" => idx (find eqf g.v a f l) (Spec.findIdx (fun x => eqf x g.v) R)
  | "count" =>
    let m := count eqf g.v a f l
    out (m.map fmtIdx) (m.map toString) (fmtIdx (Spec.count (fun x => eqf x g.v) R)) (toString (Spec.count (fun x => eqf x g.v) R))
  | "lower_bound" => idx (lowerBound lt g.v a f l) (Spec.lowerBound lt g.v R)
  | "upper_bound" => idx (upperBound lt g.v a f l) (Spec.upperBound lt g.v R)
  | "sort" | "gnome_sort" => srt (gnomeSort lt a f l)
  | "bubble_sort" => srt (bubbleSort lt a f l)
  | "exchange_sort" => srt (exchangeSort lt a f l)
  | "stable_sort" | "insertion_sort" => srt (insertionSort lt a f l)
  | "merge_sort" => srt (mergeSort lt a f l)
  | _ => bad

/-- `adl_swap n=k`: what [alg.swap] / [alg.reverse] prescribe for an element type with a user-provided `swap` that exchanges
    the payload `v` and leaves the per-cell tag `home` alone (the harness's `adl::S`): `iter_swap(a, b)` is one unqualified
    `swap(*a, *b)`, `reverse` applies `iter_swap` exactly `(last - first) / 2` times, `swap_ranges` swaps `n` pairs - so the
    tags never move and the number of user-swap calls is 1, k / 2, k.  Cells: `x[t] = (10 + t)@t`, `y[t] = (50 + t)@(100 + t)`,
    t ≤ k + 1; the algorithms run on `x[1..k]` (and `y[1..k]`).  Stated in closed form, no loop model. -/
def adlShow (u : Nat) (x y : List (Nat × Nat)) : String :=
  let f (l : List (Nat × Nat)) := String.join (l.map fun (v, h) => s!"{v}@{h},")
  s!" u={u} x={f x} y={f y}"

def adlSwap (k : Nat) : String :=
  let idx := List.range (k + 2)
  let y0 := idx.map fun t => (50 + t, 100 + t)
  let inR (t : Nat) : Bool := decide (1 ≤ t) && decide (t ≤ k)
  let is := adlShow 1 (idx.map fun t => (if t == 0 then 51 else 10 + t, t)) (idx.map fun t => (if t == 1 then 10 else 50 + t, 100 + t))
  let rv := adlShow (k / 2) (idx.map fun t => (if inR t then 10 + (k + 1 - t) else 10 + t, t)) y0
  let sr := adlShow k (idx.map fun t => (if inR t then 50 + t else 10 + t, t)) (idx.map fun t => (if inR t then 10 + t else 50 + t, 100 + t))
  "is" ++ is ++ " rv" ++ rv ++ " sr" ++ sr

def step (_ : Unit) (ln : Line) : Unit × String :=

  let bad := ((), "bad-op\tbad-op")
  let out (m s : String) := ((), m ++ "\t" ++ s)
  let g := getArgs ln
  let a := g.a; let f := g.f; let l := g.l; let b := g.b; let h := b.length
  if !(f ≤ l && l ≤ a.length) then bad else
  if g.ty != "" then stepArith g ln else
  let R := slice a f l
  let lt := cmpOf g.cmp; let eqf := eqOf g.eq; let p := predOf g.p
  let sp := g.it == "in1"   -- genuinely single-pass input iterator: the single-pass models
  let idx (m : Except Err Nat) (s : Nat) := out (fmtE fmtIdx m) (fmtIdx (f + s))
  let boo (m : Except Err Bool) (s : Bool) := out (fmtE fmtB m) (fmtB s)
  let lst (m : Except Err (List E)) (s : List E) := out (fmtE fmtList m) (fmtList s)
  let arr (m : Except Err (List E)) (s : List E) := out (fmtE (fun x => "a=" ++ fmtList x) m) ("a=" ++ fmtList (splice a f l s))
  -- output-iterator algorithms: `run d dlo dhi` is the model, `s` the values the standard prescribes
  let dst (run : List E → Nat → Nat → Except Err (List E × Nat)) (s : List E) :=
    let room := s.length + g.slack
    let D := mkDest g.dp room
    out (fmtE fmtOut (run D g.dp (g.dp + room))) (fmtOut (splice D g.dp (g.dp + s.length) s, g.dp + s.length))
  let outPtr := g.it == "ptr" || g.it == "bidi"
  match ln.op with
  | "find" => idx (if sp then SP.findS eqf g.v a f l else find eqf g.v a f l) (Spec.findIdx (fun x => eqf x g.v) R)
  | "find_if" => idx (if sp then SP.findIfS p a f l else findIf p a f l) (Spec.findIdx p R)
  | "find_if_not" => idx (if sp then SP.findIfNotS p a f l else findIfNot p a f l) (Spec.findIdx (fun x => !p x) R)
  | "all_of" => boo (if sp then SP.allOfS p a f l else allOf p a f l) (R.all p)
  | "any_of" => boo (if sp then SP.anyOfS p a f l else anyOf p a f l) (R.any p)
  | "none_of" => boo (if sp then SP.noneOfS p a f l else noneOf p a f l) (!R.any p)
  | "count" => out (fmtE fmtIdx (if sp then SP.countS eqf g.v a f l else count eqf g.v a f l)) (fmtIdx (Spec.count (fun x => eqf x g.v) R))
  | "count_if" => out (fmtE fmtIdx (if sp then SP.countIfS p a f l else countIf p a f l)) (fmtIdx (Spec.count p R))
  | "for_each" => out (fmtE (fun (x : List E) => s!"{fmtList x} fn={x.length}") (if sp then SP.forEachS a f l else forEach a f l)) s!"{fmtList R} fn={R.length}"
  | "for_each_n" =>
    out (fmtE (fun (r : Nat × List E) => s!"r={r.1} v={fmtList r.2}") (if sp then SP.forEachNS a f l g.n else forEachN a f l g.n))
      s!"r={f + g.n.toNat} v={fmtList (R.take g.n.toNat)}"
  | "adjacent_find" => idx (adjacentFind eqf a f l) (Spec.adjacentFind eqf R)
  | "is_sorted" => boo (isSorted lt a f l) (Spec.isSortedUntil lt R == R.length)
  | "is_sorted_until" => idx (isSortedUntil lt a f l) (Spec.isSortedUntil lt R)
  | "is_partitioned" => boo (if sp then SP.isPartitionedS p a f l else isPartitioned p a f l) (Spec.isPartitioned p R)
  | "partition_point" => idx (partitionPoint p a f l) (Spec.partitionPoint p R)
  | "min_element" => idx (minElement lt a f l) (Spec.minElement lt R)
  | "max_element" => idx (maxElement lt a f l) (Spec.maxElement lt R)
  | "minmax_element" =>
    out (fmtE (fun (r : Nat × Nat) => s!"r={r.1},{r.2}") (minmaxElement lt a f l))
      s!"r={f + Spec.minElement lt R},{f + Spec.maxElementLast lt R}"
  | "min" => out s!"r={min2 lt g.v g.w}" s!"r={Spec.min2 lt g.v g.w}"
  | "max" => out s!"r={max2 lt g.v g.w}" s!"r={Spec.max2 lt g.v g.w}"
  | "minmax" =>
    let r := minmax2 lt g.v g.w
    out s!"r={r.1},{r.2}" s!"r={Spec.min2 lt g.v g.w},{Spec.max2 lt g.w g.v}"
  | "clamp" =>
    match ln.int? "lo", ln.int? "hi" with
    | some lo, some hi => out s!"r={clamp lt g.v lo hi}" s!"r={Spec.clamp lt g.v lo hi}"
    | _, _ => bad
  | "lower_bound" => idx (lowerBound lt g.v a f l) (Spec.lowerBound lt g.v R)
  | "upper_bound" => idx (upperBound lt g.v a f l) (Spec.upperBound lt g.v R)
  | "equal_range" =>
    out (fmtE (fun (r : Nat × Nat) => s!"r={r.1},{r.2}") (equalRange lt g.v a f l))
      s!"r={f + Spec.lowerBound lt g.v R},{f + Spec.upperBound lt g.v R}"
  | "binary_search" => boo (binarySearch lt g.v a f l) (Spec.binarySearch lt g.v R)
  | "search" => if !(g.g ≤ g.h && g.h ≤ h) then bad else idx (searchB eqf a f l b g.g g.h) (Spec.search eqf R (slice b g.g g.h))
  | "find_end" => if !(g.g ≤ g.h && g.h ≤ h) then bad else idx (findEndB eqf a f l b g.g g.h) (Spec.findEnd eqf R (slice b g.g g.h))
  | "search_n" => idx (searchN eqf a f l g.n g.v) (Spec.searchN eqf R g.n g.v)
  | "find_first_of" => if !(g.g ≤ g.h && g.h ≤ h) then bad else idx (findFirstOfB eqf a f l b g.g g.h) (Spec.findFirstOf eqf R (slice b g.g g.h))
  | "mismatch" =>
    let m := if sp then (if g.ov == "4" then SP.mismatch4S eqf a f l b 0 h else SP.mismatch3S eqf a f l b 0 h)
      else if g.ov == "4" then mismatch4 eqf a f l b 0 h else mismatch3 eqf a f l b 0 h
    let s := Spec.mismatch eqf R b
    out (fmtE (fun (r : Nat × Nat) => s!"r={r.1},{r.2}") m) s!"r={f + s},{s}"
  | "equal" =>
    if g.ov == "4" then
      boo (if g.it == "ptr" then equal4RA eqf a f l b 0 h else if sp then SP.equal4S eqf a f l b 0 h else equal4Fwd eqf a f l b 0 h) (Spec.equal eqf R b)
    else boo (if sp then SP.equal3S eqf a f l b 0 h else equal3 eqf a f l b 0 h) (Spec.equal eqf R (b.take R.length))
  | "lexicographical_compare" => boo (if sp then SP.lexicographicalCompareS lt a f l b 0 h else lexicographicalCompare lt a f l b 0 h) (Spec.lexLt lt R b)
  | "is_permutation" =>
    if g.ov == "4" then boo (isPermutation4 eqf a f l b 0 h) (Spec.isPermutation eqf R b)
    else boo (isPermutation3 eqf a f l b 0 h) (Spec.isPermutation eqf R (b.take R.length))
  | "includes" => boo (if sp then SP.includesS lt a f l b 0 h else includes lt a f l b 0 h) (Spec.includes lt R b)
  -- modifying, in place
  | "rotate" =>
    let s := Spec.rotate R (g.m - f)
    out (fmtE (fun (r : List E × Nat) => s!"r={r.2} a={fmtList r.1}") (rotate a f g.m l))
      s!"r={f + s.2} a={fmtList (splice a f l s.1)}"
  | "adl_swap" => let s := adlSwap ((ln.nat? "n").getD 0); out s s
  | "reverse" =>
    if g.it == "rptr" then
      -- the range seen through reverse_iterators: the random-access loop runs on the mirrored sequence (Props.reverseRev_eq)
      arr (RevIt.reverseRev a f l) R.reverse
    else arr (if g.it == "ptr" then reverseRA a f l else reverseBidi a f l) R.reverse
  | "rit_rel" =>
    -- reverse_iterator relations over base positions i, j ([reverse.iter.cmp]): model = the relations of the header on the
    -- bases (RevIt), spec = the order of the designated positions n-i, n-j of the reversed sequence (Props.reverseIterator_relations)
    match ln.nat? "i", ln.nat? "j" with
    | some i, some j =>
      let b := fun (c : Bool) => if c then "1" else "0"
      let n := a.length
      let pi := RevIt.pos n i; let pj := RevIt.pos n j
      let m := b (RevIt.eq i j) ++ b (RevIt.ne i j) ++ b (RevIt.lt i j) ++ b (RevIt.le i j) ++ b (RevIt.gt i j) ++ b (RevIt.ge i j)
        ++ s!" d={RevIt.diff i j}"
      let sp := b (pi == pj) ++ b (pi != pj) ++ b (decide (pi < pj)) ++ b (decide (pi ≤ pj)) ++ b (decide (pi > pj)) ++ b (decide (pi ≥ pj))
        ++ s!" d={(pj : Int) - (pi : Int)}"
      if i ≤ n && j ≤ n then out m sp else bad
    | _, _ => bad
  | "swap_ranges" =>
    let n := l - f
    out (fmtE (fun (r : List E × List E × Nat) => s!"r={r.2.2} a={fmtList r.1} b={fmtList r.2.1}") (swapRanges a f l b 0 h))
      s!"r={n} a={fmtList (splice a f l (b.take n))} b={fmtList (R ++ b.drop n)}"
  | "copy" | "move" =>
    let n := l - f
    let d := g.d
    -- move: source positions that are not overwritten hold unspecified (moved-from) values
    let mk (x : List E) := if ln.op == "move"
      then fmtOpt ((List.range x.length).zip x |>.map fun (i, e) => if f ≤ i && i < l && !(d ≤ i && i < d + n) then none else some e)
      else fmtList x
    out (fmtE (fun (r : List E × Nat) => s!"r={r.2} a={mk r.1}") (copy a f l d))
      s!"r={d + n} a={mk (splice a d (d + n) R)}"
  | "copy_backward" | "move_backward" =>
    let n := l - f
    let d := g.d
    let mk (x : List E) := if ln.op == "move_backward"
      then fmtOpt ((List.range x.length).zip x |>.map fun (i, e) => if f ≤ i && i < l && !(d - n ≤ i && i < d) then none else some e)
      else fmtList x
    out (fmtE (fun (r : List E × Nat) => s!"r={r.2} a={mk r.1}") (copyBackward a f l d))
      s!"r={d - n} a={mk (splice a (d - n) d R)}"
  | "copy_out" | "move_out" => dst (Out.copy a f l) R
  | "copy_if" => dst (Out.copyIf p a f l) (R.filter p)
  | "copy_n" => dst (Out.copyN a f l g.n) (Spec.copyN R g.n)
  | "remove_copy" => dst (Out.removeCopy eqf g.v a f l) (Spec.remove (fun x => eqf x g.v) R)
  | "remove_copy_if" => dst (Out.removeCopyIf p a f l) (Spec.remove p R)
  | "unique_copy" => dst (if outPtr then Out.uniqueCopyFwd eqf a f l else Out.uniqueCopyOut eqf a f l) (Spec.unique eqf R)
  | "reverse_copy" => dst (Out.reverseCopy a f l) R.reverse
  | "rotate_copy" => dst (Out.rotateCopy a f g.m l) (Spec.rotate R (g.m - f)).1
  | "transform" => dst (Out.transform1 (fun x => x + 10) a f l) (R.map (fun x => x + 10))
  | "transform2" => dst (Out.transform2 (fun x y => x + 100 * y) a f l b 0 h) ((R.zip b).map (fun xy => xy.1 + 100 * xy.2))
  | "partition_copy" =>
    let st := R.filter p
    let se := R.filter (fun x => !p x)
    let D1 := mkDest g.dp (st.length + g.slack)
    let D2 := mkDest g.dp (se.length + g.slack)
    let fmt2 (r : (List E × Nat) × (List E × Nat)) := s!"r={r.1.2},{r.2.2} d={fmtList r.1.1} e={fmtList r.2.1}"
    out (fmtE fmt2 (Out.partitionCopy p a f l D1 g.dp (g.dp + st.length + g.slack) D2 g.dp (g.dp + se.length + g.slack)))
      (fmt2 ((splice D1 g.dp (g.dp + st.length) st, g.dp + st.length), (splice D2 g.dp (g.dp + se.length) se, g.dp + se.length)))
  | "fill" => arr (fill a f l g.v) (R.map (fun _ => g.v))
  | "fill_n" =>
    out (fmtE (fun (r : List E × Nat) => s!"r={r.2} a={fmtList r.1}") (fillN a f l g.n g.v))
      s!"r={f + g.n.toNat} a={fmtList (splice a f (f + g.n.toNat) (List.replicate g.n.toNat g.v))}"
  | "generate" => arr (generate a f l genF) ((List.range R.length).map genF)
  | "generate_n" =>
    out (fmtE (fun (r : List E × Nat) => s!"r={r.2} a={fmtList r.1}") (generateN a f l g.n genF))
      s!"r={f + g.n.toNat} a={fmtList (splice a f (f + g.n.toNat) ((List.range g.n.toNat).map genF))}"
  | "replace" => arr (replace eqf g.v g.w a f l) (Spec.replace (fun x => eqf x g.v) g.w R)
  | "replace_if" => arr (replaceIf p g.w a f l) (Spec.replace p g.w R)
  | "iota" => arr (iota a f l g.v) (Spec.iota R.length g.v)
  | "remove" | "remove_if" | "unique" =>
    let m := if ln.op == "remove" then remove eqf g.v a f l else if ln.op == "remove_if" then removeIf p a f l else unique eqf a f l
    let s := if ln.op == "remove" then Spec.remove (fun x => eqf x g.v) R else if ln.op == "remove_if" then Spec.remove p R else Spec.unique eqf R
    out (fmtE (fun (r : List E × Nat) => s!"r={r.2} a={fmtMask r.1 r.2 l}") m)
      s!"r={f + s.length} a={fmtMask (splice a f l (s ++ R.drop s.length)) (f + s.length) l}"
  | "shift_left" =>
    let m := if g.it == "ptr" then shiftLeftRA a f l g.n else shiftLeftFwd a f l g.n
    let s := Spec.shiftLeft R g.n
    let unspec (r : Nat) := if g.n ≤ 0 || g.n.toNat ≥ l - f then (r, r) else (r, l)
    out (fmtE (fun (r : List E × Nat) => s!"r={r.2} a={fmtMask r.1 (unspec r.2).1 (unspec r.2).2}") m)
      s!"r={f + s.2} a={fmtMask (splice a f l (s.1 ++ R.drop s.1.length)) (unspec (f + s.2)).1 (unspec (f + s.2)).2}"
  | "shift_right" =>
    let s := Spec.shiftRight R g.n
    let unspec (r : Nat) := if g.n ≤ 0 || g.n.toNat ≥ l - f then (r, r) else (f, r)
    let sa := if g.n ≤ 0 || g.n.toNat ≥ l - f then a else splice a f l (R.take s.2 ++ s.1)
    out (fmtE (fun (r : List E × Nat) => s!"r={r.2} a={fmtMask r.1 (unspec r.2).1 (unspec r.2).2}") (if g.ov == "nd" then shiftRightNoFill a f l g.n else shiftRight 0 a f l g.n))
      s!"r={f + s.2} a={fmtMask sa (unspec (f + s.2)).1 (unspec (f + s.2)).2}"
  | "partition" =>
    let s := Spec.stablePartition p R
    out (fmtE (fun (r : List E × Nat) => canonPartition r.1 f l r.2) (partition p a f l))
      (canonPartition (splice a f l s.1) f l (f + s.2))
  | "stable_partition" =>
    let s := Spec.stablePartition p R
    out (fmtE (fun (r : List E × Nat) => s!"r={r.2} a={fmtList r.1}") (stablePartition p a f l))
      s!"r={f + s.2} a={fmtList (splice a f l s.1)}"
  | "sort" | "gnome_sort" | "bubble_sort" | "exchange_sort" =>
    let m := if ln.op == "bubble_sort" then bubbleSort lt a f l else if ln.op == "exchange_sort" then exchangeSort lt a f l
      else gnomeSort lt a f l
    out (fmtE (fun x => canonSort g.cmp x f l) m) (canonSort g.cmp (splice a f l (Spec.stableSort lt R)) f l)
  | "nth_element" =>
    out (fmtE (fun x => canonNth g.cmp x f g.m l) (nthElement lt a f g.m l))
      (canonNth g.cmp (splice a f l (Spec.stableSort lt R)) f g.m l)
  | "partial_sort" =>
    out (fmtE (fun x => canonPartial g.cmp x f g.m l) (partialSort lt a f g.m l))
      (canonPartial g.cmp (splice a f l (Spec.stableSort lt R)) f g.m l)
  | "stable_sort" | "insertion_sort" => arr (insertionSort lt a f l) (Spec.stableSort lt R)
  | "merge_sort" => arr (mergeSort lt a f l) (Spec.stableSort lt R)
  | "inplace_merge" => arr (inplaceMerge lt a f g.m l) (Spec.merge lt (R.take (g.m - f)) (R.drop (g.m - f)))
  | "merge" => dst (Out.merge lt a f l b 0 h) (Spec.merge lt R b)
  | "set_difference" => dst (Out.setDifference lt a f l b 0 h) (Spec.setDifference lt R b)
  | "set_intersection" => dst (Out.setIntersection lt a f l b 0 h) (Spec.setIntersection lt R b)
  | "set_symmetric_difference" => dst (Out.setSymmetricDifference lt a f l b 0 h) (Spec.setSymmetricDifference lt R b)
  | "set_union" => dst (Out.setUnion lt a f l b 0 h) (Spec.setUnion lt R b)
  -- numeric
  | "accumulate" | "reduce" =>
    out (fmtE (fun (r : Int) => s!"r={r}") (if sp then SP.accumulateS (numOp g.op) g.init a f l else accumulate (numOp g.op) g.init a f l)) s!"r={Spec.accumulate (numOp g.op) g.init R}"
  | "inner_product" | "transform_reduce" =>
    let op1 := numOp g.op
    let op2 : Int → Int → Int := if g.op == "dflt" then fun x y => x * y else fun x y => x - 2 * y
    out (fmtE (fun (r : Int) => s!"r={r}") (if sp then SP.innerProductS op1 op2 g.init a f l b 0 h else innerProduct op1 op2 g.init a f l b 0 h)) s!"r={Spec.innerProduct op1 op2 g.init R b}"
  | "transform_reduce1" =>
    out (fmtE (fun (r : Int) => s!"r={r}") (transformReduce1 (numOp g.op) (fun x => 3 * x + 1) g.init a f l))
      s!"r={Spec.accumulate (numOp g.op) g.init (R.map (fun x => 3 * x + 1))}"
  | "partial_sum" => dst (Out.partialSum (numOp g.op) a f l) (Spec.partialSum (numOp g.op) R)
  | "adjacent_difference" =>
    let op : Int → Int → Int := if g.op == "dflt" then fun x y => x - y else numOp g.op
    dst (Out.adjacentDifference op a f l) (Spec.adjacentDifference op R)
  | _ => bad

end Tetl.C06.Driver

def main : IO Unit := Tetl.Proto.runDriver () Tetl.C06.Driver.step
