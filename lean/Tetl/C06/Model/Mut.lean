/-
C06 model — modifying sequence operations.  In-place algorithms return the new storage list
(the whole list: context included, so "nothing outside the range changed" is observable) and
the returned iterator as an index.  Algorithms that write through an output iterator return the
sequence of values written, in order (an output iterator is exactly a write stream).
-/
import Tetl.C06.Model.Seq
namespace Tetl.C06
variable {α : Type}

/-! ### rotate: the forward swap cycle of rotate.hpp -/

/-- `while (read != last) { if (write == nextRead) nextRead = read; iter_swap(write++, read++); }` -/
def rotLoop (f l : Nat) : Nat → List α → Nat → Nat → Nat → Except Err (List α × Nat × Nat)
  | 0, a, write, _, nextRead => .ok (a, write, nextRead)
  | n + 1, a, write, read, nextRead => do
    let nr := if write == nextRead then read else nextRead
    let a ← swapR a f l write read
    rotLoop f l n a (write + 1) (read + 1) nr

/-- `rotate(first, nFirst, last)`; the tail call `rotate(write, nextRead, last)` consumes fuel -/
def rotateF : Nat → List α → Nat → Nat → Nat → Except Err (List α × Nat)
  | 0, _, _, _, _ => .error .fuel
  | fuel + 1, a, first, nFirst, last =>
    if first == nFirst then .ok (a, last)
    else if nFirst == last then .ok (a, first)
    else do
      let (a, write, nextRead) ← rotLoop first last (last - nFirst) a first nFirst first
      let (a, _) ← rotateF fuel a write nextRead last
      .ok (a, write)

def rotate (a : List α) (first nFirst last : Nat) : Except Err (List α × Nat) :=
  rotateF (last - first + 1) a first nFirst last

/-! ### reverse -/
/-- random-access branch: `for (--last; first < last; ++first, --last) iter_swap(first, last);` -/
def reverseRALoop (f l : Nat) : Nat → List α → Nat → Nat → Except Err (List α)
  | 0, a, first, last => if first < last then .error .fuel else .ok a
  | fuel + 1, a, first, last =>
    if first < last then do
      let a ← swapR a f l first last
      reverseRALoop f l fuel a (first + 1) (last - 1)
    else .ok a

def reverseRA (a : List α) (f l : Nat) : Except Err (List α) :=
  if f == l then .ok a else reverseRALoop f l (l - f) a f (l - 1)

/-- bidirectional branch: `while (first != last and first != --last) iter_swap(first++, last);` -/
def reverseBidiLoop (f l : Nat) : Nat → List α → Nat → Nat → Except Err (List α)
  | 0, a, first, last => if first != last then .error .fuel else .ok a
  | fuel + 1, a, first, last =>
    if first != last then
      let last := last - 1
      if first != last then do
        let a ← swapR a f l first last
        reverseBidiLoop f l fuel a (first + 1) last
      else .ok a
    else .ok a

def reverseBidi (a : List α) (f l : Nat) : Except Err (List α) := reverseBidiLoop f l (l - f) a f l

/-! ### swap_ranges: `a[f,l)` with `b[g, g+(l-f))` (two separate storages) -/
def swapRangesLoop (f l g h : Nat) : Nat → List α → List α → Nat → Nat → Except Err (List α × List α × Nat)
  | 0, a, b, _, j => .ok (a, b, j)
  | n + 1, a, b, i, j => do
    let x ← rdR a f l i
    let y ← rdR b g h j
    let a ← wrR a f l i y
    let b ← wrR b g h j x
    swapRangesLoop f l g h n a b (i + 1) (j + 1)

def swapRanges (a : List α) (f l : Nat) (b : List α) (g h : Nat) := swapRangesLoop f l g h (l - f) a b f g

/-! ### copy / move (forward) and copy_backward / move_backward inside one storage -/
/-- `for (; first != last; ++first, ++dest) *dest = *first;` with the destination range `[d, d+(l-f))` -/
def copyLoop (f l dlo dhi : Nat) : Nat → List α → Nat → Nat → Except Err (List α × Nat)
  | 0, a, _, d => .ok (a, d)
  | n + 1, a, i, d => do
    let x ← rdR a f l i
    let a ← wrR a dlo dhi d x
    copyLoop f l dlo dhi n a (i + 1) (d + 1)

/-- copy(first,last,dest) and move(first,last,dest) (moving an `int`-like element is a copy) -/
def copy (a : List α) (f l d : Nat) : Except Err (List α × Nat) := copyLoop f l d (d + (l - f)) (l - f) a f d

/-- `while (first != last) *(--dLast) = *(--last);` -/
def copyBackwardLoop (f l dlo dhi : Nat) : Nat → List α → Nat → Nat → Except Err (List α × Nat)
  | 0, a, _, d => .ok (a, d)
  | n + 1, a, last, d => do
    if last == 0 || d == 0 then .error .oob
    else
      let x ← rdR a f l (last - 1)
      let a ← wrR a dlo dhi (d - 1) x
      copyBackwardLoop f l dlo dhi n a (last - 1) (d - 1)

def copyBackward (a : List α) (f l dLast : Nat) : Except Err (List α × Nat) :=
  copyBackwardLoop f l (dLast - (l - f)) dLast (l - f) a l dLast

/-! ### algorithms writing to an output iterator: the values written, in order -/
def copyIfLoop (p : α → Bool) (a : List α) (f l : Nat) : Nat → Nat → Except Err (List α)
  | 0, _ => .ok []
  | n + 1, i => do
    let x ← rdR a f l i
    let r ← copyIfLoop p a f l n (i + 1)
    .ok (if p x then x :: r else r)

def copyIf (p : α → Bool) (a : List α) (f l : Nat) := copyIfLoop p a f l (l - f) f
/-- remove_copy_if (as repaired: the destination advances only on a write) -/
def removeCopyIf (p : α → Bool) (a : List α) (f l : Nat) := copyIfLoop (fun x => !p x) a f l (l - f) f
def removeCopy (eq : α → α → Bool) (v : α) (a : List α) (f l : Nat) := removeCopyIf (fun x => eq x v) a f l

/-- copy_n (as repaired: returns one past the last element written): `count` reads from `first` on -/
def copyN (a : List α) (f l : Nat) (count : Int) : Except Err (List α) :=
  if count > 0 then visitLoop a f l count.toNat f else .ok []

/-- unique_copy: `cur` is `*destination`, the last value written -/
def uniqueCopyLoop (pred : α → α → Bool) (a : List α) (f l : Nat) : Nat → Nat → α → Except Err (List α)
  | 0, _, _ => .ok []
  | n + 1, i, cur => do
    let x ← rdR a f l i
    if !pred cur x then
      let r ← uniqueCopyLoop pred a f l n (i + 1) x
      .ok (x :: r)
    else uniqueCopyLoop pred a f l n (i + 1) cur

def uniqueCopy (pred : α → α → Bool) (a : List α) (f l : Nat) : Except Err (List α) :=
  if f != l then do
    let x ← rdR a f l f
    let r ← uniqueCopyLoop pred a f l (l - f - 1) (f + 1) x
    .ok (x :: r)
  else .ok []

/-- reverse_copy: `for (; first != last; ++dest) *dest = *(--last);` -/
def reverseCopyLoop (a : List α) (f l : Nat) : Nat → Nat → Except Err (List α)
  | 0, _ => .ok []
  | n + 1, last => do
    if last == 0 then .error .oob
    else
      let x ← rdR a f l (last - 1)
      let r ← reverseCopyLoop a f l n (last - 1)
      .ok (x :: r)

def reverseCopy (a : List α) (f l : Nat) := reverseCopyLoop a f l (l - f) l

/-- rotate_copy: `copy(nFirst,last,dest)` then `copy(first,nFirst,dest)` -/
def rotateCopy (a : List α) (f m l : Nat) : Except Err (List α) := do
  let x ← visitLoop a m l (l - m) m
  let y ← visitLoop a f m (m - f) f
  .ok (x ++ y)

def transform1 (op : α → α) (a : List α) (f l : Nat) : Except Err (List α) := do
  .ok ((← visitLoop a f l (l - f) f).map op)

def transform2Loop (op : α → α → α) (a : List α) (f l : Nat) (b : List α) (g h : Nat) : Nat → Nat → Nat → Except Err (List α)
  | 0, _, _ => .ok []
  | n + 1, i, j => do
    let x ← rdR a f l i
    let y ← rdR b g h j
    let r ← transform2Loop op a f l b g h n (i + 1) (j + 1)
    .ok (op x y :: r)

def transform2 (op : α → α → α) (a : List α) (f l : Nat) (b : List α) (g h : Nat) :=
  transform2Loop op a f l b g h (l - f) f g

def partitionCopyLoop (p : α → Bool) (a : List α) (f l : Nat) : Nat → Nat → Except Err (List α × List α)
  | 0, _ => .ok ([], [])
  | n + 1, i => do
    let x ← rdR a f l i
    let (t, e) ← partitionCopyLoop p a f l n (i + 1)
    .ok (if p x then (x :: t, e) else (t, x :: e))

def partitionCopy (p : α → Bool) (a : List α) (f l : Nat) := partitionCopyLoop p a f l (l - f) f

/-! ### fill / fill_n / generate / generate_n / replace / replace_if / iota -/
def fillLoop (f l : Nat) (v : α) : Nat → List α → Nat → Except Err (List α × Nat)
  | 0, a, i => .ok (a, i)
  | n + 1, a, i => do
    let a ← wrR a f l i v
    fillLoop f l v n a (i + 1)

def fill (a : List α) (f l : Nat) (v : α) : Except Err (List α) := do .ok (← fillLoop f l v (l - f) a f).1
def fillN (a : List α) (f l : Nat) (n : Int) (v : α) : Except Err (List α × Nat) := fillLoop f l v n.toNat a f

/-- generate / generate_n / iota: the `k`-th call of the generator yields `g k` -/
def genLoop (f l : Nat) (g : Nat → α) : Nat → List α → Nat → Nat → Except Err (List α × Nat)
  | 0, a, i, _ => .ok (a, i)
  | n + 1, a, i, k => do
    let a ← wrR a f l i (g k)
    genLoop f l g n a (i + 1) (k + 1)

def generate (a : List α) (f l : Nat) (g : Nat → α) : Except Err (List α) := do .ok (← genLoop f l g (l - f) a f 0).1
def generateN (a : List α) (f l : Nat) (n : Int) (g : Nat → α) : Except Err (List α × Nat) := genLoop f l g n.toNat a f 0

def replaceIfLoop (p : α → Bool) (w : α) (f l : Nat) : Nat → List α → Nat → Except Err (List α)
  | 0, a, _ => .ok a
  | n + 1, a, i => do
    let x ← rdR a f l i
    if p x then
      let a ← wrR a f l i w
      replaceIfLoop p w f l n a (i + 1)
    else replaceIfLoop p w f l n a (i + 1)

def replaceIf (p : α → Bool) (w : α) (a : List α) (f l : Nat) := replaceIfLoop p w f l (l - f) a f
def replace (eq : α → α → Bool) (v w : α) (a : List α) (f l : Nat) := replaceIf (fun x => eq x v) w a f l

/-! ### remove_if / remove / unique -/
/-- `for (auto i = first; ++i != last;) if (!pred(*i)) *first++ = move(*i);` -/
def removeLoop (p : α → Bool) (f l : Nat) : Nat → List α → Nat → Nat → Except Err (List α × Nat)
  | 0, a, first, _ => .ok (a, first)
  | n + 1, a, first, i => do
    let i := i + 1
    let x ← rdR a f l i
    if !p x then
      let a ← wrR a f l first x
      removeLoop p f l n a (first + 1) i
    else removeLoop p f l n a first i

def removeIf (p : α → Bool) (a : List α) (f l : Nat) : Except Err (List α × Nat) := do
  let first ← findIf p a f l
  if first != l then removeLoop p f l (l - first - 1) a first first else .ok (a, first)

def remove (eq : α → α → Bool) (v : α) (a : List α) (f l : Nat) := removeIf (fun x => eq x v) a f l

/-- `while (++first != last) if (!pred(*result, *first) and ++result != first) *result = move(*first);` -/
def uniqueLoop (pred : α → α → Bool) (f l : Nat) : Nat → List α → Nat → Nat → Except Err (List α × Nat)
  | 0, a, result, _ => .ok (a, result + 1)
  | n + 1, a, result, first => do
    let first := first + 1
    let r ← rdR a f l result
    let x ← rdR a f l first
    if !pred r x then
      let result := result + 1
      if result != first then
        let a ← wrR a f l result x
        uniqueLoop pred f l n a result first
      else uniqueLoop pred f l n a result first
    else uniqueLoop pred f l n a result first

def unique (pred : α → α → Bool) (a : List α) (f l : Nat) : Except Err (List α × Nat) :=
  if f == l then .ok (a, l) else uniqueLoop pred f l (l - f - 1) a f f

/-! ### shift_left / shift_right -/
/-- random-access branch -/
def shiftLeftRA (a : List α) (f l : Nat) (n : Int) : Except Err (List α × Nat) :=
  if n ≤ 0 then .ok (a, l)
  else if n ≥ ((l - f : Nat) : Int) then .ok (a, f)
  else copyLoop (f + n.toNat) l f (f + (l - (f + n.toNat))) (l - (f + n.toNat)) a (f + n.toNat) f

/-- forward branch: `for (; 0 < n; --n) { if (start == last) return first; ++start; }` -/
def shiftLeftAdvance (l : Nat) : Nat → Nat → Option Nat
  | 0, start => some start
  | n + 1, start => if start == l then none else shiftLeftAdvance l n (start + 1)

def shiftLeftFwd (a : List α) (f l : Nat) (n : Int) : Except Err (List α × Nat) :=
  if n ≤ 0 then .ok (a, l)
  else match shiftLeftAdvance l n.toNat f with
    | none => .ok (a, f)
    | some start => copyLoop start l f (f + (l - start)) (l - start) a start f

/-- shift_right (as repaired by `fix: shift_right ...`): `n <= 0` returns `first`, the whole kept
    part is moved back to front, the vacated slots `[first, first+n)` get `T{}` (= `dflt`) -/
def shiftRight (dflt : α) (a : List α) (f l : Nat) (n : Int) : Except Err (List α × Nat) :=
  if n ≤ 0 then .ok (a, f)
  else if n ≥ ((l - f : Nat) : Int) then .ok (a, l)
  else do
    let (a, dest) ← copyBackwardLoop f (l - n.toNat) (f + n.toNat) l (l - f - n.toNat) a (l - n.toNat) l
    let (a, _) ← fillLoop f dest dflt (dest - f) a f
    .ok (a, dest)

/-- shift_right for a value type that is NOT default constructible (the `if constexpr` else-branch of shift_right.hpp):
    no clean-up loop, the vacated slots `[first, first+n)` keep their moved-from values -/
def shiftRightNoFill (a : List α) (f l : Nat) (n : Int) : Except Err (List α × Nat) :=
  if n ≤ 0 then .ok (a, f)
  else if n ≥ ((l - f : Nat) : Int) then .ok (a, l)
  else do
    let (a, dest) ← copyBackwardLoop f (l - n.toNat) (f + n.toNat) l (l - f - n.toNat) a (l - n.toNat) l
    .ok (a, dest)

end Tetl.C06
