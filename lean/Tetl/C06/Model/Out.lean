/-
C06 model — the algorithms that write through an OUTPUT ITERATOR, with the destination in the model.

The destination is a second storage `d` (a list: the caller's destination object in its context,
`d = D_pre ++ W ++ D_post`), the output iterator is an index `o` into it, and the caller hands over the
window `[dlo, dhi)` (`dlo` = the `result`/`d_first` argument, `dhi - dlo` = the room the standard requires
the caller to provide).  `*o = x` is `wrR d dlo dhi o x`: a write outside the window is `.error .oob`.
Every definition follows its header statement by statement — in particular WHERE the destination is
incremented — and returns `(d', o')`: the new destination storage and the RETURNED output iterator.
So "returns the same iterator, writes the same elements to the same places" is a statement about these
definitions (Props.lean: `…_out` theorems), and a loop that advances the destination on a skipped element
(remove_copy_if before `fix: remove_copy_if …`) or returns one short (copy_n before `fix: copy_n …`)
has a different model (TetlProofs/C06/OutRegress.lean proves that those two falsify the theorems).

The value-stream definitions of Model/Mut.lean, Model/Sort.lean, Model/Num.lean (`copyIf`, `merge`, … :
the list of values written, in order) are kept as the proof device they are: `Out.X` is proved equal to
"write the stream of `X` to consecutive positions from `dlo`" (TetlProofs/C06/Out*.lean).
-/
import Tetl.C06.Model.Num
import Tetl.C06.Model.Sort
namespace Tetl.C06.Out
open Tetl Tetl.C06
variable {α : Type}

/-! ### copy / move into another storage: `for (; first != last; ++first, ++destination) *destination = *first;` -/
def copyLoop (a : List α) (f l dlo dhi : Nat) : Nat → Nat → List α → Nat → Except Err (List α × Nat)
  | 0, _, d, o => .ok (d, o)
  | n + 1, i, d, o => do
    let x ← rdR a f l i
    let d ← wrR d dlo dhi o x
    copyLoop a f l dlo dhi n (i + 1) d (o + 1)

/-- `copy(first, last, destination)` / `move(first, last, destination)` with the destination in another object -/
def copy (a : List α) (f l : Nat) (d : List α) (dlo dhi : Nat) : Except Err (List α × Nat) :=
  copyLoop a f l dlo dhi (l - f) f d dlo

/-! ### copy_if: `while (first != last) { if (pred(*first)) *dFirst++ = *first; ++first; } return dFirst;` -/
def copyIfLoop (p : α → Bool) (a : List α) (f l dlo dhi : Nat) : Nat → Nat → List α → Nat → Except Err (List α × Nat)
  | 0, _, d, o => .ok (d, o)
  | n + 1, i, d, o => do
    let x ← rdR a f l i
    if p x then
      let d ← wrR d dlo dhi o x
      copyIfLoop p a f l dlo dhi n (i + 1) d (o + 1)
    else copyIfLoop p a f l dlo dhi n (i + 1) d o

def copyIf (p : α → Bool) (a : List α) (f l : Nat) (d : List α) (dlo dhi : Nat) :=
  copyIfLoop p a f l dlo dhi (l - f) f d dlo

/-! ### remove_copy_if / remove_copy:
    `for (; first != last; ++first) if (not p(*first)) { *destination = *first; ++destination; } return destination;` -/
def removeCopyIfLoop (p : α → Bool) (a : List α) (f l dlo dhi : Nat) : Nat → Nat → List α → Nat → Except Err (List α × Nat)
  | 0, _, d, o => .ok (d, o)
  | n + 1, i, d, o => do
    let x ← rdR a f l i
    if !p x then
      let d ← wrR d dlo dhi o x
      removeCopyIfLoop p a f l dlo dhi n (i + 1) d (o + 1)
    else removeCopyIfLoop p a f l dlo dhi n (i + 1) d o

def removeCopyIf (p : α → Bool) (a : List α) (f l : Nat) (d : List α) (dlo dhi : Nat) :=
  removeCopyIfLoop p a f l dlo dhi (l - f) f d dlo
/-- remove_copy forwards to remove_copy_if with `item == value` -/
def removeCopy (eq : α → α → Bool) (v : α) (a : List α) (f l : Nat) (d : List α) (dlo dhi : Nat) :=
  removeCopyIf (fun x => eq x v) a f l d dlo dhi

/-! ### copy_n:
    `if (count > 0) { *result = *first; ++result; for (Size i = 1; i < count; ++i) { *result = *(++first); ++result; } } return result;` -/
def copyNLoop (a : List α) (f l dlo dhi : Nat) : Nat → Nat → List α → Nat → Except Err (List α × Nat)
  | 0, _, d, o => .ok (d, o)
  | n + 1, first, d, o => do
    let first := first + 1
    let x ← rdR a f l first
    let d ← wrR d dlo dhi o x
    copyNLoop a f l dlo dhi n first d (o + 1)

def copyN (a : List α) (f l : Nat) (count : Int) (d : List α) (dlo dhi : Nat) : Except Err (List α × Nat) :=
  if count > 0 then do
    let x ← rdR a f l f
    let d ← wrR d dlo dhi dlo x
    copyNLoop a f l dlo dhi (count.toNat - 1) f d (dlo + 1)
  else .ok (d, dlo)

/-! ### unique_copy (two `if constexpr` branches since `fix: unique_copy keeps a copy …`) -/
/-- forward destination: the last element written is read back through the destination.
    `while (++first != last) if (not pred(*destination, *first)) *++destination = *first;  ++destination;` -/
def uniqueCopyFwdLoop (pred : α → α → Bool) (a : List α) (f l dlo dhi : Nat) :
    Nat → Nat → List α → Nat → Except Err (List α × Nat)
  | 0, _, d, o => .ok (d, o + 1)
  | n + 1, first, d, o => do
    let first := first + 1
    let cur ← rdR d dlo dhi o
    let x ← rdR a f l first
    if !pred cur x then
      let d ← wrR d dlo dhi (o + 1) x
      uniqueCopyFwdLoop pred a f l dlo dhi n first d (o + 1)
    else uniqueCopyFwdLoop pred a f l dlo dhi n first d o

def uniqueCopyFwd (pred : α → α → Bool) (a : List α) (f l : Nat) (d : List α) (dlo dhi : Nat) : Except Err (List α × Nat) :=
  if f != l then do
    let x ← rdR a f l f
    let d ← wrR d dlo dhi dlo x
    uniqueCopyFwdLoop pred a f l dlo dhi (l - f - 1) f d dlo
  else .ok (d, dlo)

/-- pure output iterator: `value` is a local copy of the last element written.
    `while (++first != last) if (not pred(value, *first)) { value = *first; *destination = value; ++destination; }` -/
def uniqueCopyOutLoop (pred : α → α → Bool) (a : List α) (f l dlo dhi : Nat) :
    Nat → Nat → α → List α → Nat → Except Err (List α × Nat)
  | 0, _, _, d, o => .ok (d, o)
  | n + 1, first, value, d, o => do
    let first := first + 1
    let x ← rdR a f l first
    if !pred value x then
      let d ← wrR d dlo dhi o x
      uniqueCopyOutLoop pred a f l dlo dhi n first x d (o + 1)
    else uniqueCopyOutLoop pred a f l dlo dhi n first value d o

def uniqueCopyOut (pred : α → α → Bool) (a : List α) (f l : Nat) (d : List α) (dlo dhi : Nat) : Except Err (List α × Nat) :=
  if f != l then do
    let value ← rdR a f l f
    let d ← wrR d dlo dhi dlo value
    uniqueCopyOutLoop pred a f l dlo dhi (l - f - 1) f value d (dlo + 1)
  else .ok (d, dlo)

/-! ### reverse_copy: `for (; first != last; ++destination) *destination = *(--last); return destination;` -/
def reverseCopyLoop (a : List α) (f l dlo dhi : Nat) : Nat → Nat → List α → Nat → Except Err (List α × Nat)
  | 0, _, d, o => .ok (d, o)
  | n + 1, last, d, o => do
    if last == 0 then .error .oob
    else
      let x ← rdR a f l (last - 1)
      let d ← wrR d dlo dhi o x
      reverseCopyLoop a f l dlo dhi n (last - 1) d (o + 1)

def reverseCopy (a : List α) (f l : Nat) (d : List α) (dlo dhi : Nat) := reverseCopyLoop a f l dlo dhi (l - f) l d dlo

/-! ### rotate_copy: `destination = copy(nFirst, last, destination); return copy(first, nFirst, destination);` -/
def rotateCopy (a : List α) (f m l : Nat) (d : List α) (dlo dhi : Nat) : Except Err (List α × Nat) := do
  let (d, o) ← copyLoop a m l dlo dhi (l - m) m d dlo
  copyLoop a f m dlo dhi (m - f) f d o

/-! ### transform (unary / binary): `for (; first != last; ++first, ++dest) *dest = op(*first);` -/
def transform1Loop (op : α → α) (a : List α) (f l dlo dhi : Nat) : Nat → Nat → List α → Nat → Except Err (List α × Nat)
  | 0, _, d, o => .ok (d, o)
  | n + 1, i, d, o => do
    let x ← rdR a f l i
    let d ← wrR d dlo dhi o (op x)
    transform1Loop op a f l dlo dhi n (i + 1) d (o + 1)

def transform1 (op : α → α) (a : List α) (f l : Nat) (d : List α) (dlo dhi : Nat) :=
  transform1Loop op a f l dlo dhi (l - f) f d dlo

def transform2Loop (op : α → α → α) (a : List α) (f l : Nat) (b : List α) (g h dlo dhi : Nat) :
    Nat → Nat → Nat → List α → Nat → Except Err (List α × Nat)
  | 0, _, _, d, o => .ok (d, o)
  | n + 1, i, j, d, o => do
    let x ← rdR a f l i
    let y ← rdR b g h j
    let d ← wrR d dlo dhi o (op x y)
    transform2Loop op a f l b g h dlo dhi n (i + 1) (j + 1) d (o + 1)

def transform2 (op : α → α → α) (a : List α) (f l : Nat) (b : List α) (g h : Nat) (d : List α) (dlo dhi : Nat) :=
  transform2Loop op a f l b g h dlo dhi (l - f) f g d dlo

/-! ### partition_copy: two destinations `d1` (window `[lo1,hi1)`) and `d2` (window `[lo2,hi2)`);
    returns `((d1', o1), (d2', o2))` -/
def partitionCopyLoop (p : α → Bool) (a : List α) (f l lo1 hi1 lo2 hi2 : Nat) :
    Nat → Nat → List α → Nat → List α → Nat → Except Err ((List α × Nat) × (List α × Nat))
  | 0, _, d1, o1, d2, o2 => .ok ((d1, o1), (d2, o2))
  | n + 1, i, d1, o1, d2, o2 => do
    let x ← rdR a f l i
    if p x then
      let d1 ← wrR d1 lo1 hi1 o1 x
      partitionCopyLoop p a f l lo1 hi1 lo2 hi2 n (i + 1) d1 (o1 + 1) d2 o2
    else
      let d2 ← wrR d2 lo2 hi2 o2 x
      partitionCopyLoop p a f l lo1 hi1 lo2 hi2 n (i + 1) d1 o1 d2 (o2 + 1)

def partitionCopy (p : α → Bool) (a : List α) (f l : Nat) (d1 : List α) (lo1 hi1 : Nat) (d2 : List α) (lo2 hi2 : Nat) :=
  partitionCopyLoop p a f l lo1 hi1 lo2 hi2 (l - f) f d1 lo1 d2 lo2

/-! ### merge: `for (; first1 != last1; ++destination) { if (first2 == last2) return copy(first1, last1, destination);
    if (comp(*first2, *first1)) { *destination = *first2; ++first2; } else { *destination = *first1; ++first1; } }
    return copy(first2, last2, destination);` -/
def mergeLoop (lt : α → α → Bool) (a : List α) (f l : Nat) (b : List α) (g h dlo dhi : Nat) :
    Nat → Nat → Nat → List α → Nat → Except Err (List α × Nat)
  | 0, _, _, _, _ => .error .fuel
  | fuel + 1, i, j, d, o =>
    if i != l then
      if j == h then copyLoop a f l dlo dhi (l - i) i d o
      else do
        let y ← rdR b g h j
        let x ← rdR a f l i
        if lt y x then
          let d ← wrR d dlo dhi o y
          mergeLoop lt a f l b g h dlo dhi fuel i (j + 1) d (o + 1)
        else
          let d ← wrR d dlo dhi o x
          mergeLoop lt a f l b g h dlo dhi fuel (i + 1) j d (o + 1)
    else copyLoop b g h dlo dhi (h - j) j d o

def merge (lt : α → α → Bool) (a : List α) (f l : Nat) (b : List α) (g h : Nat) (d : List α) (dlo dhi : Nat) :=
  mergeLoop lt a f l b g h dlo dhi ((l - f) + (h - g) + 1) f g d dlo

/-! ### set_difference: `if (comp(*first1, *first2)) *destination++ = *first1++; else { if (!comp(*first2, *first1)) ++first1; ++first2; }` -/
def setDifferenceLoop (lt : α → α → Bool) (a : List α) (f l : Nat) (b : List α) (g h dlo dhi : Nat) :
    Nat → Nat → Nat → List α → Nat → Except Err (List α × Nat)
  | 0, _, _, _, _ => .error .fuel
  | fuel + 1, i, j, d, o =>
    if i != l then
      if j == h then copyLoop a f l dlo dhi (l - i) i d o
      else do
        let x ← rdR a f l i
        let y ← rdR b g h j
        if lt x y then
          let d ← wrR d dlo dhi o x
          setDifferenceLoop lt a f l b g h dlo dhi fuel (i + 1) j d (o + 1)
        else if !lt y x then setDifferenceLoop lt a f l b g h dlo dhi fuel (i + 1) (j + 1) d o
        else setDifferenceLoop lt a f l b g h dlo dhi fuel i (j + 1) d o
    else .ok (d, o)

def setDifference (lt : α → α → Bool) (a : List α) (f l : Nat) (b : List α) (g h : Nat) (d : List α) (dlo dhi : Nat) :=
  setDifferenceLoop lt a f l b g h dlo dhi ((l - f) + (h - g) + 1) f g d dlo

/-! ### set_intersection: `if (comp(*first1, *first2)) ++first1; else { if (!comp(*first2, *first1)) *dest++ = *first1++; ++first2; }` -/
def setIntersectionLoop (lt : α → α → Bool) (a : List α) (f l : Nat) (b : List α) (g h dlo dhi : Nat) :
    Nat → Nat → Nat → List α → Nat → Except Err (List α × Nat)
  | 0, _, _, _, _ => .error .fuel
  | fuel + 1, i, j, d, o =>
    if i != l && j != h then do
      let x ← rdR a f l i
      let y ← rdR b g h j
      if lt x y then setIntersectionLoop lt a f l b g h dlo dhi fuel (i + 1) j d o
      else if !lt y x then
        let d ← wrR d dlo dhi o x
        setIntersectionLoop lt a f l b g h dlo dhi fuel (i + 1) (j + 1) d (o + 1)
      else setIntersectionLoop lt a f l b g h dlo dhi fuel i (j + 1) d o
    else .ok (d, o)

def setIntersection (lt : α → α → Bool) (a : List α) (f l : Nat) (b : List α) (g h : Nat) (d : List α) (dlo dhi : Nat) :=
  setIntersectionLoop lt a f l b g h dlo dhi ((l - f) + (h - g) + 1) f g d dlo

/-! ### set_symmetric_difference -/
def setSymDiffLoop (lt : α → α → Bool) (a : List α) (f l : Nat) (b : List α) (g h dlo dhi : Nat) :
    Nat → Nat → Nat → List α → Nat → Except Err (List α × Nat)
  | 0, _, _, _, _ => .error .fuel
  | fuel + 1, i, j, d, o =>
    if i != l then
      if j == h then copyLoop a f l dlo dhi (l - i) i d o
      else do
        let x ← rdR a f l i
        let y ← rdR b g h j
        if lt x y then
          let d ← wrR d dlo dhi o x
          setSymDiffLoop lt a f l b g h dlo dhi fuel (i + 1) j d (o + 1)
        else if lt y x then
          let d ← wrR d dlo dhi o y
          setSymDiffLoop lt a f l b g h dlo dhi fuel i (j + 1) d (o + 1)
        else setSymDiffLoop lt a f l b g h dlo dhi fuel (i + 1) (j + 1) d o
    else copyLoop b g h dlo dhi (h - j) j d o

def setSymmetricDifference (lt : α → α → Bool) (a : List α) (f l : Nat) (b : List α) (g h : Nat) (d : List α) (dlo dhi : Nat) :=
  setSymDiffLoop lt a f l b g h dlo dhi ((l - f) + (h - g) + 1) f g d dlo

/-! ### set_union: `for (; first1 != last1; ++destination) { if (first2 == last2) return copy(first1, last1, destination);
    if (comp(*first2, *first1)) { *destination = *first2++; continue; }
    *destination = *first1; if (!comp(*first1, *first2)) ++first2; ++first1; } return copy(first2, last2, destination);` -/
def setUnionLoop (lt : α → α → Bool) (a : List α) (f l : Nat) (b : List α) (g h dlo dhi : Nat) :
    Nat → Nat → Nat → List α → Nat → Except Err (List α × Nat)
  | 0, _, _, _, _ => .error .fuel
  | fuel + 1, i, j, d, o =>
    if i != l then
      if j == h then copyLoop a f l dlo dhi (l - i) i d o
      else do
        let y ← rdR b g h j
        let x ← rdR a f l i
        if lt y x then
          let d ← wrR d dlo dhi o y
          setUnionLoop lt a f l b g h dlo dhi fuel i (j + 1) d (o + 1)
        else
          let d ← wrR d dlo dhi o x
          let j' := if !lt x y then j + 1 else j
          setUnionLoop lt a f l b g h dlo dhi fuel (i + 1) j' d (o + 1)
    else copyLoop b g h dlo dhi (h - j) j d o

def setUnion (lt : α → α → Bool) (a : List α) (f l : Nat) (b : List α) (g h : Nat) (d : List α) (dlo dhi : Nat) :=
  setUnionLoop lt a f l b g h dlo dhi ((l - f) + (h - g) + 1) f g d dlo

/-! ### partial_sum: `sum = *first; *destination = sum; while (++first != last) { sum = op(sum, *first); *++destination = sum; }
    return ++destination;` (`o` = the position written last) -/
def partialSumLoop (op : α → α → α) (a : List α) (f l dlo dhi : Nat) : Nat → Nat → α → List α → Nat → Except Err (List α × Nat)
  | 0, _, _, d, o => .ok (d, o + 1)
  | n + 1, first, sum, d, o => do
    let first := first + 1
    let x ← rdR a f l first
    let sum := op sum x
    let d ← wrR d dlo dhi (o + 1) sum
    partialSumLoop op a f l dlo dhi n first sum d (o + 1)

def partialSum (op : α → α → α) (a : List α) (f l : Nat) (d : List α) (dlo dhi : Nat) : Except Err (List α × Nat) :=
  if f == l then .ok (d, dlo)
  else do
    let sum ← rdR a f l f
    let d ← wrR d dlo dhi dlo sum
    partialSumLoop op a f l dlo dhi (l - f - 1) f sum d dlo

/-! ### adjacent_difference: `acc = *first; *destination = acc; while (++first != last) { val = *first;
    *++destination = op(val, acc); acc = val; } return ++destination;` -/
def adjDiffLoop (op : α → α → α) (a : List α) (f l dlo dhi : Nat) : Nat → Nat → α → List α → Nat → Except Err (List α × Nat)
  | 0, _, _, d, o => .ok (d, o + 1)
  | n + 1, first, acc, d, o => do
    let first := first + 1
    let val ← rdR a f l first
    let d ← wrR d dlo dhi (o + 1) (op val acc)
    adjDiffLoop op a f l dlo dhi n first val d (o + 1)

def adjacentDifference (op : α → α → α) (a : List α) (f l : Nat) (d : List α) (dlo dhi : Nat) : Except Err (List α × Nat) :=
  if f == l then .ok (d, dlo)
  else do
    let acc ← rdR a f l f
    let d ← wrR d dlo dhi dlo acc
    adjDiffLoop op a f l dlo dhi (l - f - 1) f acc d dlo

end Tetl.C06.Out
