/-
C06 model — search / find_end / find_first_of with the SECOND range (the needle) as a range `[g,h)` of a
storage `b` read through checked `rdR`, like the second range of mismatch / equal / merge / set_*.
("applies no predicate to anything outside the given ranges" then also covers the needle.)
Model/Seq.lean has the same loops over a needle given as a plain list; TetlProofs/C06/Needle.lean proves
that the two agree when the needle is `T` inside `Q ++ T ++ U`.
-/
import Tetl.C06.Model.Seq
namespace Tetl.C06
variable {α : Type}

/-- inner `for (auto sIt = sFirst;; ++it, ++sIt) { if (sIt == sLast) return first; if (it == last) return last;
    if (not pred(*it, *sIt)) break; }` ; the first argument counts `sLast - sIt` -/
def searchInnerB (pred : α → α → Bool) (a : List α) (f l : Nat) (b : List α) (g h : Nat) : Nat → Nat → Nat → Except Err Inner
  | 0, _, _ => .ok .matched
  | n + 1, sIt, it =>
    if it == l then .ok .hitEnd
    else do
      let x ← rdR a f l it
      let c ← rdR b g h sIt
      if !pred x c then .ok .mismatch else searchInnerB pred a f l b g h n (sIt + 1) (it + 1)

def searchLoopB (pred : α → α → Bool) (a : List α) (f l : Nat) (b : List α) (g h : Nat) : Nat → Nat → Except Err Nat
  | 0, _ => .error .fuel
  | fuel + 1, first => do
    match ← searchInnerB pred a f l b g h (h - g) g first with
    | .matched => .ok first
    | .hitEnd => .ok l
    | .mismatch => searchLoopB pred a f l b g h fuel (first + 1)

def searchFromB (pred : α → α → Bool) (a : List α) (f l : Nat) (b : List α) (g h : Nat) (first : Nat) : Except Err Nat :=
  searchLoopB pred a f l b g h (l - first + 1) first

def searchB (pred : α → α → Bool) (a : List α) (f l : Nat) (b : List α) (g h : Nat) : Except Err Nat :=
  searchFromB pred a f l b g h f

def findEndLoopB (pred : α → α → Bool) (a : List α) (f l : Nat) (b : List α) (g h : Nat) : Nat → Nat → Nat → Except Err Nat
  | 0, _, _ => .error .fuel
  | fuel + 1, first, result => do
    let nr ← searchFromB pred a f l b g h first
    if nr == l then .ok result
    else findEndLoopB pred a f l b g h fuel (nr + 1) nr

def findEndB (pred : α → α → Bool) (a : List α) (f l : Nat) (b : List α) (g h : Nat) : Except Err Nat :=
  if g == h then .ok l else findEndLoopB pred a f l b g h (l - f + 1) f l

/-- inner `for (auto it = sFirst; it != sLast; ++it) if (pred(*first, *it)) return first;` : true = found -/
def anyOfNeedle (pred : α → α → Bool) (x : α) (b : List α) (g h : Nat) : Nat → Nat → Except Err Bool
  | 0, _ => .ok false
  | n + 1, it => do
    let y ← rdR b g h it
    if pred x y then .ok true else anyOfNeedle pred x b g h n (it + 1)

def findFirstOfLoopB (pred : α → α → Bool) (a : List α) (f l : Nat) (b : List α) (g h : Nat) : Nat → Nat → Except Err Nat
  | 0, i => .ok i
  | n + 1, i => do
    let x ← rdR a f l i
    if ← anyOfNeedle pred x b g h (h - g) g then .ok i else findFirstOfLoopB pred a f l b g h n (i + 1)

def findFirstOfB (pred : α → α → Bool) (a : List α) (f l : Nat) (b : List α) (g h : Nat) : Except Err Nat :=
  findFirstOfLoopB pred a f l b g h (l - f) f

end Tetl.C06
