/-
C06 model — non-modifying sequence operations of include/etl/_algorithm (one definition per
header, following its loop).  `a f l` = storage, first, last;  a second range is `b g h`.
-/
import Tetl.C06.Basic
namespace Tetl.C06
variable {α : Type}

/-! ### find / find_if / find_if_not (the same `for (; first != last; ++first) if (q(*first)) return first;`) -/

def findLoop (q : α → Bool) (a : List α) (f l : Nat) : Nat → Nat → Except Err Nat
  | 0, i => .ok i
  | n + 1, i => do
    let x ← rdR a f l i
    if q x then .ok i else findLoop q a f l n (i + 1)

def findIf (p : α → Bool) (a : List α) (f l : Nat) : Except Err Nat := findLoop p a f l (l - f) f
def findIfNot (p : α → Bool) (a : List α) (f l : Nat) : Except Err Nat := findLoop (fun x => !p x) a f l (l - f) f
/-- `find(first,last,value)`: `*first == value` -/
def find (eq : α → α → Bool) (v : α) (a : List α) (f l : Nat) : Except Err Nat :=
  findLoop (fun x => eq x v) a f l (l - f) f

/-- all_of: `find_if_not(first,last,p) == last` -/
def allOf (p : α → Bool) (a : List α) (f l : Nat) : Except Err Bool := do .ok ((← findIfNot p a f l) == l)
def anyOf (p : α → Bool) (a : List α) (f l : Nat) : Except Err Bool := do .ok ((← findIf p a f l) != l)
def noneOf (p : α → Bool) (a : List α) (f l : Nat) : Except Err Bool := do .ok ((← findIf p a f l) == l)

/-! ### count / count_if -/
def countLoop (q : α → Bool) (a : List α) (f l : Nat) : Nat → Nat → Nat → Except Err Nat
  | 0, _, r => .ok r
  | n + 1, i, r => do
    let x ← rdR a f l i
    countLoop q a f l n (i + 1) (if q x then r + 1 else r)

def countIf (p : α → Bool) (a : List α) (f l : Nat) : Except Err Nat := countLoop p a f l (l - f) f 0
def count (eq : α → α → Bool) (v : α) (a : List α) (f l : Nat) : Except Err Nat :=
  countLoop (fun x => eq x v) a f l (l - f) f 0

/-! ### for_each / for_each_n : the sequence of elements `f` is applied to -/
def visitLoop (a : List α) (f l : Nat) : Nat → Nat → Except Err (List α)
  | 0, _ => .ok []
  | n + 1, i => do
    let x ← rdR a f l i
    let r ← visitLoop a f l n (i + 1)
    .ok (x :: r)

def forEach (a : List α) (f l : Nat) : Except Err (List α) := visitLoop a f l (l - f) f
/-- `for (Size i = 0; i < n; ++first, ++i) f(*first)`; returns (first, visited) -/
def forEachN (a : List α) (f l : Nat) (n : Int) : Except Err (Nat × List α) := do
  let v ← visitLoop a f l n.toNat f
  .ok (f + n.toNat, v)

/-! ### adjacent_find -/
def adjFindLoop (pred : α → α → Bool) (a : List α) (f l : Nat) : Nat → Nat → Except Err Nat
  | 0, _ => .ok l
  | n + 1, first => do
    let x ← rdR a f l first
    let y ← rdR a f l (first + 1)
    if pred x y then .ok first else adjFindLoop pred a f l n (first + 1)

def adjacentFind (pred : α → α → Bool) (a : List α) (f l : Nat) : Except Err Nat :=
  if f == l then .ok l else adjFindLoop pred a f l (l - f - 1) f

/-! ### is_sorted_until / is_sorted -/
def sortedUntilLoop (lt : α → α → Bool) (a : List α) (f l : Nat) : Nat → Nat → Except Err Nat
  | 0, _ => .ok l
  | n + 1, first => do
    let nx ← rdR a f l (first + 1)
    let x ← rdR a f l first
    if lt nx x then .ok (first + 1) else sortedUntilLoop lt a f l n (first + 1)

def isSortedUntil (lt : α → α → Bool) (a : List α) (f l : Nat) : Except Err Nat :=
  if f != l then sortedUntilLoop lt a f l (l - f - 1) f else .ok l

def isSorted (lt : α → α → Bool) (a : List α) (f l : Nat) : Except Err Bool := do
  .ok ((← isSortedUntil lt a f l) == l)

/-! ### is_partitioned / partition_point (a linear scan in this library) -/
def isPartitioned (p : α → Bool) (a : List α) (f l : Nat) : Except Err Bool := do
  let first ← findLoop (fun x => !p x) a f l (l - f) f
  let second ← findLoop p a f l (l - first) first
  .ok (second == l)

def partitionPoint (p : α → Bool) (a : List α) (f l : Nat) : Except Err Nat :=
  findLoop (fun x => !p x) a f l (l - f) f

/-! ### min_element / max_element / minmax_element -/
def minElemLoop (lt : α → α → Bool) (a : List α) (f l : Nat) : Nat → Nat → Nat → Except Err Nat
  | 0, _, s => .ok s
  | n + 1, first, s => do
    let x ← rdR a f l first
    let y ← rdR a f l s
    minElemLoop lt a f l n (first + 1) (if lt x y then first else s)

def minElement (lt : α → α → Bool) (a : List α) (f l : Nat) : Except Err Nat :=
  if f == l then .ok l else minElemLoop lt a f l (l - f - 1) (f + 1) f

def maxElemLoop (lt : α → α → Bool) (a : List α) (f l : Nat) : Nat → Nat → Nat → Except Err Nat
  | 0, _, s => .ok s
  | n + 1, first, s => do
    let y ← rdR a f l s
    let x ← rdR a f l first
    maxElemLoop lt a f l n (first + 1) (if lt y x then first else s)

def maxElement (lt : α → α → Bool) (a : List α) (f l : Nat) : Except Err Nat :=
  if f == l then .ok l else maxElemLoop lt a f l (l - f - 1) (f + 1) f

/-- the `while (++first != last)` loop of minmax_element (two elements per iteration) -/
def minmaxLoop (lt : α → α → Bool) (a : List α) (f l : Nat) : Nat → Nat → Nat → Nat → Except Err (Nat × Nat)
  | 0, _, _, _ => .error .fuel
  | fuel + 1, first, mn, mx =>
    let first := first + 1
    if first == l then .ok (mn, mx)
    else
      let i := first
      let first := first + 1
      if first == l then do
        let xi ← rdR a f l i
        let xmn ← rdR a f l mn
        if lt xi xmn then .ok (i, mx)
        else
          let xmx ← rdR a f l mx
          if !lt xi xmx then .ok (mn, i) else .ok (mn, mx)
      else do
        let xf ← rdR a f l first
        let xi ← rdR a f l i
        if lt xf xi then
          let xmn ← rdR a f l mn
          let mn := if lt xf xmn then first else mn
          let xmx ← rdR a f l mx
          let mx := if !lt xi xmx then i else mx
          minmaxLoop lt a f l fuel first mn mx
        else
          let xmn ← rdR a f l mn
          let mn := if lt xi xmn then i else mn
          let xmx ← rdR a f l mx
          let mx := if !lt xf xmx then first else mx
          minmaxLoop lt a f l fuel first mn mx

def minmaxElement (lt : α → α → Bool) (a : List α) (f l : Nat) : Except Err (Nat × Nat) :=
  if f == l || f + 1 == l then .ok (f, f)
  else do
    let first := f + 1
    let x ← rdR a f l first
    let y ← rdR a f l f
    let (mn, mx) := if lt x y then (first, f) else (f, first)
    minmaxLoop lt a f l (l - f) first mn mx

/-! ### min / max / minmax / clamp -/
def min2 (lt : α → α → Bool) (x y : α) : α := if lt y x then y else x
def max2 (lt : α → α → Bool) (x y : α) : α := if lt x y then y else x
def minmax2 (lt : α → α → Bool) (x y : α) : α × α := if lt y x then (y, x) else (x, y)
def clamp (lt : α → α → Bool) (v lo hi : α) : α := if lt v lo then lo else if lt hi v then hi else v

/-! ### lower_bound / upper_bound / equal_range / binary_search -/
/-- `while (count > 0) { it = first + count/2; if (q(*it)) { first = ++it; count -= step+1 } else count = step }`.
    lower_bound: `q x = comp(x, value)`; upper_bound: `q x = !comp(value, x)`. -/
def boundLoop (q : α → Bool) (a : List α) (f l : Nat) : Nat → Nat → Nat → Except Err Nat
  | 0, first, count => if count > 0 then .error .fuel else .ok first
  | fuel + 1, first, count =>
    if count > 0 then do
      let step := count / 2
      let it := first + step
      let x ← rdR a f l it
      if q x then boundLoop q a f l fuel (it + 1) (count - (step + 1))
      else boundLoop q a f l fuel first step
    else .ok first

def lowerBound (lt : α → α → Bool) (v : α) (a : List α) (f l : Nat) : Except Err Nat :=
  boundLoop (fun x => lt x v) a f l (l - f) f (l - f)
def upperBound (lt : α → α → Bool) (v : α) (a : List α) (f l : Nat) : Except Err Nat :=
  boundLoop (fun x => !lt v x) a f l (l - f) f (l - f)
def equalRange (lt : α → α → Bool) (v : α) (a : List α) (f l : Nat) : Except Err (Nat × Nat) := do
  .ok (← lowerBound lt v a f l, ← upperBound lt v a f l)
def binarySearch (lt : α → α → Bool) (v : α) (a : List α) (f l : Nat) : Except Err Bool := do
  let first ← lowerBound lt v a f l
  if first != l then
    let x ← rdR a f l first
    .ok (!lt v x)
  else .ok false

/-! ### search / find_end / search_n / find_first_of -/
inductive Inner where | matched | hitEnd | mismatch
  deriving DecidableEq, Repr

/-- inner `for (auto sIt = sFirst;; ++it, ++sIt)` of `search`; the needle is the list `s` -/
def searchInner (pred : α → α → Bool) (a : List α) (f l : Nat) : List α → Nat → Except Err Inner
  | [], _ => .ok .matched
  | c :: cs, it =>
    if it == l then .ok .hitEnd
    else do
      let x ← rdR a f l it
      if !pred x c then .ok .mismatch else searchInner pred a f l cs (it + 1)

/-- outer `for (;; ++first)` -/
def searchLoop (pred : α → α → Bool) (a : List α) (f l : Nat) (s : List α) : Nat → Nat → Except Err Nat
  | 0, _ => .error .fuel
  | fuel + 1, first => do
    match ← searchInner pred a f l s first with
    | .matched => .ok first
    | .hitEnd => .ok l
    | .mismatch => searchLoop pred a f l s fuel (first + 1)

/-- `search(first,last,sFirst,sLast,pred)` started at `first` (≥ f) -/
def searchFrom (pred : α → α → Bool) (a : List α) (f l : Nat) (s : List α) (first : Nat) : Except Err Nat :=
  searchLoop pred a f l s (l - first + 1) first

def search (pred : α → α → Bool) (a : List α) (f l : Nat) (s : List α) : Except Err Nat :=
  searchFrom pred a f l s f

def findEndLoop (pred : α → α → Bool) (a : List α) (f l : Nat) (s : List α) : Nat → Nat → Nat → Except Err Nat
  | 0, _, _ => .error .fuel
  | fuel + 1, first, result => do
    let nr ← searchFrom pred a f l s first
    if nr == l then .ok result
    else findEndLoop pred a f l s fuel (nr + 1) nr

def findEnd (pred : α → α → Bool) (a : List α) (f l : Nat) (s : List α) : Except Err Nat :=
  if s.isEmpty then .ok l else findEndLoop pred a f l s (l - f + 1) f l

/-- search_n (as repaired by `fix: search_n ...`): `found` is set when a run starts -/
def searchNLoop (pred : α → α → Bool) (v : α) (count : Nat) (a : List α) (f l : Nat) :
    Nat → Nat → Nat → Nat → Except Err Nat
  | 0, _, _, _ => .ok l
  | n + 1, first, found, ctr => do
    let x ← rdR a f l first
    if pred x v then
      let found := if ctr == 0 then first else found
      let ctr := ctr + 1
      if ctr == count then .ok found else searchNLoop pred v count a f l n (first + 1) found ctr
    else searchNLoop pred v count a f l n (first + 1) found 0

def searchN (pred : α → α → Bool) (a : List α) (f l : Nat) (count : Int) (v : α) : Except Err Nat :=
  if count ≤ 0 then .ok f else searchNLoop pred v count.toNat a f l (l - f) f f 0

/-- inner `for (auto it = sFirst; it != sLast; ++it) if (pred(*first, *it)) return first;` -/
def findFirstOf (pred : α → α → Bool) (a : List α) (f l : Nat) (s : List α) : Except Err Nat :=
  findLoop (fun x => s.any (fun y => pred x y)) a f l (l - f) f

/-! ### mismatch / equal / lexicographical_compare; second range `b` with `[g,h)` -/
/-- 3-iterator mismatch: `for (; first1 != last1; ++first1, ++first2) if (!pred(*first1,*first2)) break;` -/
def mismatch3Loop (pred : α → α → Bool) (a : List α) (f l : Nat) (b : List α) (g h : Nat) :
    Nat → Nat → Nat → Except Err (Nat × Nat)
  | 0, i, j => .ok (i, j)
  | n + 1, i, j => do
    let x ← rdR a f l i
    let y ← rdR b g h j
    if !pred x y then .ok (i, j) else mismatch3Loop pred a f l b g h n (i + 1) (j + 1)

def mismatch3 (pred : α → α → Bool) (a : List α) (f l : Nat) (b : List α) (g h : Nat) :=
  mismatch3Loop pred a f l b g h (l - f) f g

/-- 4-iterator mismatch: both ends tested -/
def mismatch4 (pred : α → α → Bool) (a : List α) (f l : Nat) (b : List α) (g h : Nat) :=
  mismatch3Loop pred a f l b g h (min (l - f) (h - g)) f g

def equal3Loop (pred : α → α → Bool) (a : List α) (f l : Nat) (b : List α) (g h : Nat) :
    Nat → Nat → Nat → Except Err Bool
  | 0, _, _ => .ok true
  | n + 1, i, j => do
    let x ← rdR a f l i
    let y ← rdR b g h j
    if !pred x y then .ok false else equal3Loop pred a f l b g h n (i + 1) (j + 1)

def equal3 (pred : α → α → Bool) (a : List α) (f l : Nat) (b : List α) (g h : Nat) :=
  equal3Loop pred a f l b g h (l - f) f g

/-- 4-iterator `equal`, random-access branch: sizes are compared first -/
def equal4RA (pred : α → α → Bool) (a : List α) (f l : Nat) (b : List α) (g h : Nat) : Except Err Bool :=
  if l - f != h - g then .ok false else equal3 pred a f l b g h

/-- 4-iterator `equal`, non-random-access branch (as repaired by `fix: equal ...`): both ends are
    tested in the loop and the result requires both ranges to be exhausted -/
def equal4Fwd (pred : α → α → Bool) (a : List α) (f l : Nat) (b : List α) (g h : Nat) : Except Err Bool := do
  let r ← equal3Loop pred a f l b g h (min (l - f) (h - g)) f g
  .ok (r && (l - f == h - g))

def lexLoop (lt : α → α → Bool) (a : List α) (f l : Nat) (b : List α) (g h : Nat) :
    Nat → Nat → Nat → Except Err Bool
  | 0, i, j => .ok (i == l && j != h)
  | n + 1, i, j => do
    let x ← rdR a f l i
    let y ← rdR b g h j
    if lt x y then .ok true
    else if lt y x then .ok false
    else lexLoop lt a f l b g h n (i + 1) (j + 1)

def lexicographicalCompare (lt : α → α → Bool) (a : List α) (f l : Nat) (b : List α) (g h : Nat) :=
  lexLoop lt a f l b g h (min (l - f) (h - g)) f g

/-! ### is_permutation -/
/-- 3-iterator is_permutation: `mismatch`, then per distinct element `count` in both tails -/
def isPermLoop (eq : α → α → Bool) (a : List α) (f l : Nat) (b : List α) (g h : Nat) (d1 d2 l2 : Nat) :
    Nat → Nat → Except Err Bool
  | 0, _ => .ok true
  | n + 1, i => do
    let x ← rdR a f l i
    let fi ← findLoop (fun y => eq y x) a f l (i - d1) d1
    if i != fi then isPermLoop eq a f l b g h d1 d2 l2 n (i + 1)
    else
      let m ← countLoop (fun y => eq y x) b g h (l2 - d2) d2 0
      let c ← countLoop (fun y => eq y x) a f l (l - i) i 0
      if m == 0 || c != m then .ok false else isPermLoop eq a f l b g h d1 d2 l2 n (i + 1)

def isPermutation3 (eq : α → α → Bool) (a : List α) (f l : Nat) (b : List α) (g h : Nat) : Except Err Bool := do
  let (d1, d2) ← mismatch3 eq a f l b g h
  if d1 != l then isPermLoop eq a f l b g h d1 d2 (d2 + (l - d1)) (l - d1) d1 else .ok true

/-- 4-iterator is_permutation (as repaired: the lengths are compared for every iterator category) -/
def isPermutation4 (eq : α → α → Bool) (a : List α) (f l : Nat) (b : List α) (g h : Nat) : Except Err Bool :=
  if l - f != h - g then .ok false else isPermutation3 eq a f l b g h

/-! ### includes -/
def includesLoop (lt : α → α → Bool) (a : List α) (f l : Nat) (b : List α) (g h : Nat) :
    Nat → Nat → Nat → Except Err Bool
  | 0, _, j => if j != h then .error .fuel else .ok true
  | fuel + 1, i, j =>
    if j != h then do
      if i == l then .ok false
      else
        let y ← rdR b g h j
        let x ← rdR a f l i
        if lt y x then .ok false
        else if !lt x y then includesLoop lt a f l b g h fuel (i + 1) (j + 1)
        else includesLoop lt a f l b g h fuel (i + 1) j
    else .ok true

def includes (lt : α → α → Bool) (a : List α) (f l : Nat) (b : List α) (g h : Nat) :=
  includesLoop lt a f l b g h (l - f + 1) f g

end Tetl.C06
