/-
C06 model — partitioning, sorting, merging and the set operations.
-/
import Tetl.C06.Model.Mut
namespace Tetl.C06
variable {α : Type}

/-! ### partition / stable_partition -/
/-- `for (i = next(first); i != last; ++i) if (p(*i)) { iter_swap(i, first); ++first; }` -/
def partitionLoop (p : α → Bool) (f l : Nat) : Nat → List α → Nat → Nat → Except Err (List α × Nat)
  | 0, a, first, _ => .ok (a, first)
  | n + 1, a, first, i => do
    let x ← rdR a f l i
    if p x then
      let a ← swapR a f l i first
      partitionLoop p f l n a (first + 1) (i + 1)
    else partitionLoop p f l n a first (i + 1)

def partition (p : α → Bool) (a : List α) (f l : Nat) : Except Err (List α × Nat) := do
  let first ← findIfNot p a f l
  if first == l then .ok (a, first) else partitionLoop p f l (l - first - 1) a first (first + 1)

/-- recursive halves + rotate; fuel bounds the recursion depth -/
def stablePartitionF (p : α → Bool) : Nat → List α → Nat → Nat → Except Err (List α × Nat)
  | 0, _, _, _ => .error .fuel
  | fuel + 1, a, f, l =>
    let n := l - f
    if n == 0 then .ok (a, f)
    else if n == 1 then do
      let x ← rdR a f l f
      .ok (a, if p x then f + 1 else f)
    else do
      let m := f + n / 2
      let (a, r1) ← stablePartitionF p fuel a f m
      let (a, r2) ← stablePartitionF p fuel a m l
      rotate a r1 m r2

def stablePartition (p : α → Bool) (a : List α) (f l : Nat) := stablePartitionF p (l - f + 1) a f l

/-! ### gnome_sort (= sort, nth_element, partial_sort) -/
/-- `while (i != last) { if (i == first or !comp(*i, *prev(i))) ++i; else { iter_swap(i, prev(i)); --i; } }` -/
def gnomeLoop (lt : α → α → Bool) (f l : Nat) : Nat → List α → Nat → Except Err (List α)
  | 0, a, i => if i != l then .error .fuel else .ok a
  | fuel + 1, a, i =>
    if i != l then
      if i == f then gnomeLoop lt f l fuel a (i + 1)
      else do
        let x ← rdR a f l i
        let y ← rdR a f l (i - 1)
        if !lt x y then gnomeLoop lt f l fuel a (i + 1)
        else
          let a ← swapR a f l i (i - 1)
          gnomeLoop lt f l fuel a (i - 1)
    else .ok a

/-- every swap removes one inversion and is followed by at most one extra forward step:
    `n + 2·n(n-1)/2 + 1 ≤ n² + n + 1` iterations suffice -/
def gnomeSort (lt : α → α → Bool) (a : List α) (f l : Nat) : Except Err (List α) :=
  gnomeLoop lt f l ((l - f) * (l - f) + (l - f) + 1) a f

def sort := @gnomeSort
/-- nth_element / partial_sort ignore `nth` / `middle` and sort the whole range -/
def nthElement (lt : α → α → Bool) (a : List α) (f _nth l : Nat) := gnomeSort lt a f l
def partialSort (lt : α → α → Bool) (a : List α) (f _mid l : Nat) := gnomeSort lt a f l

/-! ### insertion_sort (= stable_sort) -/
/-- `while (j != first and comp(key, *(j-1))) { *j = *(j-1); --j; }` ; returns (a, j) -/
def insertInner (lt : α → α → Bool) (key : α) (f l : Nat) : Nat → List α → Nat → Except Err (List α × Nat)
  | 0, a, j => .ok (a, j)
  | n + 1, a, j =>
    if j != f then do
      let y ← rdR a f l (j - 1)
      if lt key y then
        let a ← wrR a f l j y
        insertInner lt key f l n a (j - 1)
      else .ok (a, j)
    else .ok (a, j)

def insertionLoop (lt : α → α → Bool) (f l : Nat) : Nat → List α → Nat → Except Err (List α)
  | 0, a, _ => .ok a
  | n + 1, a, i => do
    let key ← rdR a f l i
    let (a, j) ← insertInner lt key f l (i - f) a i
    let a ← wrR a f l j key
    insertionLoop lt f l n a (i + 1)

def insertionSort (lt : α → α → Bool) (a : List α) (f l : Nat) := insertionLoop lt f l (l - f) a f
def stableSort := @insertionSort

/-! ### bubble_sort / exchange_sort (tetl extensions, same contract as sort) -/
def bubbleInner (lt : α → α → Bool) (f l i : Nat) : Nat → List α → Nat → Except Err (List α)
  | 0, a, _ => .ok a
  | n + 1, a, j => do
    let x ← rdR a f l i
    let y ← rdR a f l j
    if lt x y then
      let a ← swapR a f l i j
      bubbleInner lt f l i n a (j + 1)
    else bubbleInner lt f l i n a (j + 1)

def bubbleOuter (lt : α → α → Bool) (f l : Nat) : Nat → List α → Nat → Except Err (List α)
  | 0, a, _ => .ok a
  | n + 1, a, i => do
    let a ← bubbleInner lt f l i (i - f) a f
    bubbleOuter lt f l n a (i + 1)

def bubbleSort (lt : α → α → Bool) (a : List α) (f l : Nat) := bubbleOuter lt f l (l - f) a f

def exchangeInner (lt : α → α → Bool) (f l i : Nat) : Nat → List α → Nat → Except Err (List α)
  | 0, a, _ => .ok a
  | n + 1, a, j => do
    let y ← rdR a f l j
    let x ← rdR a f l i
    if lt y x then
      let a ← swapR a f l i j
      exchangeInner lt f l i n a (j + 1)
    else exchangeInner lt f l i n a (j + 1)

/-- `etl::prev(it)` on an iterator of the range the algorithm was given: the result must again be an iterator of
    `[first, last]`.  Decrementing `first` is not (for a pointer to the start of an object forming `first - 1` is
    undefined behaviour), so it is `.error .oob` — a truncated `Nat` subtraction would hide it. -/
def prevR (f l i : Nat) : Except Err Nat := if f < i ∧ i ≤ l then .ok (i - 1) else .error .oob

/-- `for (i = first; i < prev(last); ++i) for (j = next(i); j < last; ++j) ...` : `prev(last) - first` iterations -/
def exchangeOuter (lt : α → α → Bool) (f l : Nat) : Nat → List α → Nat → Except Err (List α)
  | 0, a, _ => .ok a
  | n + 1, a, i => do
    let a ← exchangeInner lt f l i (l - (i + 1)) a (i + 1)
    exchangeOuter lt f l n a (i + 1)

/-- exchange_sort (as repaired by `fix: exchange_sort returns early on an empty range …`):
    `if (first == last) return;` then the loops, whose bound `etl::prev(last)` is formed once per test
    (checked: `prevR`).  Without the early return the model is `exchangeSortUnguarded`
    (TetlProofs/C06/Regress.lean), which is `.error .oob` on every empty range. -/
def exchangeSort (lt : α → α → Bool) (a : List α) (f l : Nat) : Except Err (List α) :=
  if f == l then .ok a
  else do
    let pl ← prevR f l l
    exchangeOuter lt f l (pl - f) a f

/-! ### merge / inplace_merge / merge_sort -/
/-- merge: output stream; fuel = total number of elements + 1 -/
def mergeLoop (lt : α → α → Bool) (a : List α) (f l : Nat) (b : List α) (g h : Nat) :
    Nat → Nat → Nat → Except Err (List α)
  | 0, _, _ => .error .fuel
  | fuel + 1, i, j =>
    if i != l then
      if j == h then visitLoop a f l (l - i) i
      else do
        let y ← rdR b g h j
        let x ← rdR a f l i
        if lt y x then
          let r ← mergeLoop lt a f l b g h fuel i (j + 1)
          .ok (y :: r)
        else
          let r ← mergeLoop lt a f l b g h fuel (i + 1) j
          .ok (x :: r)
    else visitLoop b g h (h - j) j

def merge (lt : α → α → Bool) (a : List α) (f l : Nat) (b : List α) (g h : Nat) :=
  mergeLoop lt a f l b g h ((l - f) + (h - g) + 1) f g

/-- inplace_merge: `begin = f`, `end = l`; state (left, mid) with right = mid throughout -/
def inplaceMergeLoop (lt : α → α → Bool) (f l : Nat) : Nat → List α → Nat → Nat → Except Err (List α)
  | 0, a, left, mid => if left != mid && mid != l then .error .fuel else .ok a
  | fuel + 1, a, left, mid =>
    if left != mid && mid != l then do
      let r ← rdR a f l mid
      let x ← rdR a f l left
      if lt r x then
        let (a, _) ← copyBackwardLoop f l f l (mid - left) a mid (mid + 1)
        let a ← wrR a f l left r
        inplaceMergeLoop lt f l fuel a left (mid + 1)
      else inplaceMergeLoop lt f l fuel a (left + 1) mid
    else .ok a

def inplaceMerge (lt : α → α → Bool) (a : List α) (f m l : Nat) : Except Err (List α) :=
  inplaceMergeLoop lt f l (2 * (l - f) + 1) a f m

def mergeSortF (lt : α → α → Bool) : Nat → List α → Nat → Nat → Except Err (List α)
  | 0, _, _, _ => .error .fuel
  | fuel + 1, a, f, l =>
    if l - f > 1 then do
      let mid := f + (l - f) / 2
      let a ← mergeSortF lt fuel a f mid
      let a ← mergeSortF lt fuel a mid l
      inplaceMerge lt a f mid l
    else .ok a

def mergeSort (lt : α → α → Bool) (a : List α) (f l : Nat) := mergeSortF lt (l - f + 1) a f l

/-! ### set operations on sorted ranges (output stream) -/
def setDifferenceLoop (lt : α → α → Bool) (a : List α) (f l : Nat) (b : List α) (g h : Nat) :
    Nat → Nat → Nat → Except Err (List α)
  | 0, _, _ => .error .fuel
  | fuel + 1, i, j =>
    if i != l then
      if j == h then visitLoop a f l (l - i) i
      else do
        let x ← rdR a f l i
        let y ← rdR b g h j
        if lt x y then
          let r ← setDifferenceLoop lt a f l b g h fuel (i + 1) j
          .ok (x :: r)
        else if !lt y x then setDifferenceLoop lt a f l b g h fuel (i + 1) (j + 1)
        else setDifferenceLoop lt a f l b g h fuel i (j + 1)
    else .ok []

def setDifference (lt : α → α → Bool) (a : List α) (f l : Nat) (b : List α) (g h : Nat) :=
  setDifferenceLoop lt a f l b g h ((l - f) + (h - g) + 1) f g

def setIntersectionLoop (lt : α → α → Bool) (a : List α) (f l : Nat) (b : List α) (g h : Nat) :
    Nat → Nat → Nat → Except Err (List α)
  | 0, _, _ => .error .fuel
  | fuel + 1, i, j =>
    if i != l && j != h then do
      let x ← rdR a f l i
      let y ← rdR b g h j
      if lt x y then setIntersectionLoop lt a f l b g h fuel (i + 1) j
      else if !lt y x then
        let r ← setIntersectionLoop lt a f l b g h fuel (i + 1) (j + 1)
        .ok (x :: r)
      else setIntersectionLoop lt a f l b g h fuel i (j + 1)
    else .ok []

def setIntersection (lt : α → α → Bool) (a : List α) (f l : Nat) (b : List α) (g h : Nat) :=
  setIntersectionLoop lt a f l b g h ((l - f) + (h - g) + 1) f g

def setSymDiffLoop (lt : α → α → Bool) (a : List α) (f l : Nat) (b : List α) (g h : Nat) :
    Nat → Nat → Nat → Except Err (List α)
  | 0, _, _ => .error .fuel
  | fuel + 1, i, j =>
    if i != l then
      if j == h then visitLoop a f l (l - i) i
      else do
        let x ← rdR a f l i
        let y ← rdR b g h j
        if lt x y then
          let r ← setSymDiffLoop lt a f l b g h fuel (i + 1) j
          .ok (x :: r)
        else if lt y x then
          let r ← setSymDiffLoop lt a f l b g h fuel i (j + 1)
          .ok (y :: r)
        else setSymDiffLoop lt a f l b g h fuel (i + 1) (j + 1)
    else visitLoop b g h (h - j) j

def setSymmetricDifference (lt : α → α → Bool) (a : List α) (f l : Nat) (b : List α) (g h : Nat) :=
  setSymDiffLoop lt a f l b g h ((l - f) + (h - g) + 1) f g

def setUnionLoop (lt : α → α → Bool) (a : List α) (f l : Nat) (b : List α) (g h : Nat) :
    Nat → Nat → Nat → Except Err (List α)
  | 0, _, _ => .error .fuel
  | fuel + 1, i, j =>
    if i != l then
      if j == h then visitLoop a f l (l - i) i
      else do
        let y ← rdR b g h j
        let x ← rdR a f l i
        if lt y x then
          let r ← setUnionLoop lt a f l b g h fuel i (j + 1)
          .ok (y :: r)
        else
          let j' := if !lt x y then j + 1 else j
          let r ← setUnionLoop lt a f l b g h fuel (i + 1) j'
          .ok (x :: r)
    else visitLoop b g h (h - j) j

def setUnion (lt : α → α → Bool) (a : List α) (f l : Nat) (b : List α) (g h : Nat) :=
  setUnionLoop lt a f l b g h ((l - f) + (h - g) + 1) f g

end Tetl.C06
