/-
C06 model — the input-iterator algorithms under the SINGLE-PASS discipline of Cpp17InputIterator
([input.iterators]: after `++r` copies of the previous value of `r` need not be dereferenceable), and
`etl::reverse_iterator` as an index.

An input range is a stream with ONE cursor `c` shared by every copy of the iterator (an
`istream_iterator`): a copy that stands at position `i` may be dereferenced (`rdS`) or incremented
(`incS`) only while `i = c`; using a stale copy — reading a position twice after it was passed,
traversing the range a second time, `distance(first,last)` before the loop — is `.error (.pre "multipass")`.
Each `…S` loop below is the loop of the header again (same order of reads as the definitions in
Model/Seq.lean and Model/Num.lean) with the cursor(s) threaded through; the harness runs the same
algorithms on an iterator whose copies share their position (`it=in1`, reports `!multipass`).
`TetlProofs/C06/SinglePass.lean` proves `XS = X` (the cursor check never fires: every position of an
input range is visited in one forward pass) and that the seeded "compare `distance` first" version of
the 4-iterator `equal` is `.error (.pre "multipass")` on every non-empty pair of equally long ranges.
-/
import Tetl.C06.Model.Num
namespace Tetl.C06.SP
open Tetl Tetl.C06
variable {α β : Type}

/-- `*it` for a copy standing at `i` of a single-pass stream whose cursor is `c` -/
def rdS (a : List α) (f l c i : Nat) : Except Err α :=
  if i = c then rdR a f l i else .error (.pre "multipass")

/-- `++it` for a copy standing at `i`: only the copy at the cursor can advance the stream; returns the new position
    (which is also the new cursor) -/
def incS (c i : Nat) : Except Err Nat :=
  if i = c then .ok (i + 1) else .error (.pre "multipass")

/-- find / find_if / find_if_not: returns (iterator, cursor) -/
def findLoopS (q : α → Bool) (a : List α) (f l : Nat) : Nat → Nat → Nat → Except Err (Nat × Nat)
  | 0, c, i => .ok (i, c)
  | n + 1, c, i => do
    let x ← rdS a f l c i
    if q x then .ok (i, c)
    else
      let i' ← incS c i
      findLoopS q a f l n i' i'

def findIfS (p : α → Bool) (a : List α) (f l : Nat) : Except Err Nat := do
  .ok (← findLoopS p a f l (l - f) f f).1
def findIfNotS (p : α → Bool) (a : List α) (f l : Nat) : Except Err Nat := do
  .ok (← findLoopS (fun x => !p x) a f l (l - f) f f).1
def findS (eq : α → α → Bool) (v : α) (a : List α) (f l : Nat) : Except Err Nat := do
  .ok (← findLoopS (fun x => eq x v) a f l (l - f) f f).1
def allOfS (p : α → Bool) (a : List α) (f l : Nat) : Except Err Bool := do .ok ((← findIfNotS p a f l) == l)
def anyOfS (p : α → Bool) (a : List α) (f l : Nat) : Except Err Bool := do .ok ((← findIfS p a f l) != l)
def noneOfS (p : α → Bool) (a : List α) (f l : Nat) : Except Err Bool := do .ok ((← findIfS p a f l) == l)

/-- is_partitioned: `find_if_not`, then `find_if` from the iterator it returned (one pass in total) -/
def isPartitionedS (p : α → Bool) (a : List α) (f l : Nat) : Except Err Bool := do
  let (first, c) ← findLoopS (fun x => !p x) a f l (l - f) f f
  let (r, _) ← findLoopS p a f l (l - first) c first
  .ok (r == l)

def countLoopS (q : α → Bool) (a : List α) (f l : Nat) : Nat → Nat → Nat → Nat → Except Err Nat
  | 0, _, _, r => .ok r
  | n + 1, c, i, r => do
    let x ← rdS a f l c i
    let i' ← incS c i
    countLoopS q a f l n i' i' (if q x then r + 1 else r)

def countIfS (p : α → Bool) (a : List α) (f l : Nat) : Except Err Nat := countLoopS p a f l (l - f) f f 0
def countS (eq : α → α → Bool) (v : α) (a : List α) (f l : Nat) : Except Err Nat :=
  countLoopS (fun x => eq x v) a f l (l - f) f f 0

def visitLoopS (a : List α) (f l : Nat) : Nat → Nat → Nat → Except Err (List α)
  | 0, _, _ => .ok []
  | n + 1, c, i => do
    let x ← rdS a f l c i
    let i' ← incS c i
    let r ← visitLoopS a f l n i' i'
    .ok (x :: r)

def forEachS (a : List α) (f l : Nat) : Except Err (List α) := visitLoopS a f l (l - f) f f
def forEachNS (a : List α) (f l : Nat) (n : Int) : Except Err (Nat × List α) := do
  let v ← visitLoopS a f l n.toNat f f
  .ok (f + n.toNat, v)

def accLoopS (op : β → α → β) (a : List α) (f l : Nat) : Nat → Nat → Nat → β → Except Err β
  | 0, _, _, acc => .ok acc
  | n + 1, c, i, acc => do
    let x ← rdS a f l c i
    let i' ← incS c i
    accLoopS op a f l n i' i' (op acc x)

def accumulateS (op : β → α → β) (init : β) (a : List α) (f l : Nat) := accLoopS op a f l (l - f) f f init

/-! two input ranges: cursors `c` (first range) and `e` (second range) -/
def mismatch3LoopS (pred : α → α → Bool) (a : List α) (f l : Nat) (b : List α) (g h : Nat) :
    Nat → Nat → Nat → Nat → Nat → Except Err (Nat × Nat)
  | 0, _, i, _, j => .ok (i, j)
  | n + 1, c, i, e, j => do
    let x ← rdS a f l c i
    let y ← rdS b g h e j
    if !pred x y then .ok (i, j)
    else
      let i' ← incS c i
      let j' ← incS e j
      mismatch3LoopS pred a f l b g h n i' i' j' j'

def mismatch3S (pred : α → α → Bool) (a : List α) (f l : Nat) (b : List α) (g h : Nat) :=
  mismatch3LoopS pred a f l b g h (l - f) f f g g
def mismatch4S (pred : α → α → Bool) (a : List α) (f l : Nat) (b : List α) (g h : Nat) :=
  mismatch3LoopS pred a f l b g h (min (l - f) (h - g)) f f g g

/-- the loop of the 3-iterator `equal`, started with copies at `i`, `j` while the streams stand at `c`, `e` -/
def equal3LoopS (pred : α → α → Bool) (a : List α) (f l : Nat) (b : List α) (g h : Nat) :
    Nat → Nat → Nat → Nat → Nat → Except Err Bool
  | 0, _, _, _, _ => .ok true
  | n + 1, c, i, e, j => do
    let x ← rdS a f l c i
    let y ← rdS b g h e j
    if !pred x y then .ok false
    else
      let i' ← incS c i
      let j' ← incS e j
      equal3LoopS pred a f l b g h n i' i' j' j'

def equal3S (pred : α → α → Bool) (a : List α) (f l : Nat) (b : List α) (g h : Nat) :=
  equal3LoopS pred a f l b g h (l - f) f f g g

/-- 4-iterator `equal` for iterators that are not random access: one loop testing both ends -/
def equal4S (pred : α → α → Bool) (a : List α) (f l : Nat) (b : List α) (g h : Nat) : Except Err Bool := do
  let r ← equal3LoopS pred a f l b g h (min (l - f) (h - g)) f f g g
  .ok (r && (l - f == h - g))

/-- `etl::distance(first, last)` of an input range: a COPY of `first` is incremented up to `last`;
    returns (distance, cursor afterwards) -/
def distanceS : Nat → Nat → Nat → Except Err (Nat × Nat)
  | 0, c, _ => .ok (0, c)
  | n + 1, c, i => do
    let i' ← incS c i
    let (d, c') ← distanceS n i' i'
    .ok (d + 1, c')

/-- the SEEDED 4-iterator `equal` (seeded/C06-r3-equal-length-every-category): `distance` of both ranges first for
    every iterator category, then the 3-iterator loop through the caller's (now stale) copies `first1`, `first2` -/
def equal4DistFirstS (pred : α → α → Bool) (a : List α) (f l : Nat) (b : List α) (g h : Nat) : Except Err Bool := do
  let (d1, c) ← distanceS (l - f) f f
  let (d2, e) ← distanceS (h - g) g g
  if d1 != d2 then .ok false else equal3LoopS pred a f l b g h (l - f) c f e g

def lexLoopS (lt : α → α → Bool) (a : List α) (f l : Nat) (b : List α) (g h : Nat) :
    Nat → Nat → Nat → Nat → Nat → Except Err Bool
  | 0, _, i, _, j => .ok (i == l && j != h)
  | n + 1, c, i, e, j => do
    let x ← rdS a f l c i
    let y ← rdS b g h e j
    if lt x y then .ok true
    else if lt y x then .ok false
    else
      let i' ← incS c i
      let j' ← incS e j
      lexLoopS lt a f l b g h n i' i' j' j'

def lexicographicalCompareS (lt : α → α → Bool) (a : List α) (f l : Nat) (b : List α) (g h : Nat) :=
  lexLoopS lt a f l b g h (min (l - f) (h - g)) f f g g

def includesLoopS (lt : α → α → Bool) (a : List α) (f l : Nat) (b : List α) (g h : Nat) :
    Nat → Nat → Nat → Nat → Nat → Except Err Bool
  | 0, _, _, _, j => if j != h then .error .fuel else .ok true
  | fuel + 1, c, i, e, j =>
    if j != h then do
      if i == l then .ok false
      else
        let y ← rdS b g h e j
        let x ← rdS a f l c i
        if lt y x then .ok false
        else if !lt x y then
          let i' ← incS c i
          let j' ← incS e j
          includesLoopS lt a f l b g h fuel i' i' j' j'
        else
          let i' ← incS c i
          includesLoopS lt a f l b g h fuel i' i' e j
    else .ok true

def includesS (lt : α → α → Bool) (a : List α) (f l : Nat) (b : List α) (g h : Nat) :=
  includesLoopS lt a f l b g h (l - f + 1) f f g g

def innerLoopS (op1 : β → β → β) (op2 : α → α → β) (a : List α) (f l : Nat) (b : List α) (g h : Nat) :
    Nat → Nat → Nat → Nat → Nat → β → Except Err β
  | 0, _, _, _, _, acc => .ok acc
  | n + 1, c, i, e, j, acc => do
    let x ← rdS a f l c i
    let y ← rdS b g h e j
    let i' ← incS c i
    let j' ← incS e j
    innerLoopS op1 op2 a f l b g h n i' i' j' j' (op1 acc (op2 x y))

def innerProductS (op1 : β → β → β) (op2 : α → α → β) (init : β) (a : List α) (f l : Nat) (b : List α) (g h : Nat) :=
  innerLoopS op1 op2 a f l b g h (l - f) f f g g init

end Tetl.C06.SP

namespace Tetl.C06.RevIt
/-!
### `etl::reverse_iterator<It>` over a random-access `It` (include/etl/_iterator/reverse_iterator.hpp)
A reverse iterator is its base position `i` (an index into the storage, `0 ≤ i ≤ n`); it designates the element
`i - 1` (`operator*`: `auto tmp = current; return *--tmp;`).  The relations compare the BASES the other way round
([reverse.iter.cmp], as repaired by `fix: reverse_iterator's <, <=, >, >= compare the base iterators the other way
round`), `y - x` is `x.base() - y.base()`.
-/
def eq (i j : Nat) : Bool := i == j
def ne (i j : Nat) : Bool := i != j
def lt (i j : Nat) : Bool := decide (i > j)
def le (i j : Nat) : Bool := decide (i ≥ j)
def gt (i j : Nat) : Bool := decide (i < j)
def ge (i j : Nat) : Bool := decide (i ≤ j)
/-- `y - x` for reverse iterators `x` (base `i`) and `y` (base `j`) -/
def diff (i j : Nat) : Int := (i : Int) - (j : Int)
/-- position in the reversed sequence `a.reverse` (of length `n`) that the reverse iterator with base `i` designates -/
def pos (n i : Nat) : Nat := n - i

/-- `etl::reverse(make_reverse_iterator(a+l), make_reverse_iterator(a+f))`: the random-access loop of reverse.hpp
    (`first < last` is the relation above) on reverse iterators — in positions of the mirrored storage it is
    `reverseRA` on `[n-l, n-f)` -/
def reverseRev {α : Type} (a : List α) (f l : Nat) : Except Err (List α) :=
  (reverseRA a.reverse (a.length - l) (a.length - f)).map List.reverse

end Tetl.C06.RevIt
