/-
C06 model — numeric.hpp folds (include/etl/_numeric).  Elements and accumulators are `Int`
(the harness keeps all values far from overflow); `op`s are passed as functions.
-/
import Tetl.C06.Model.Mut
namespace Tetl.C06
variable {α β : Type}

/-- accumulate / reduce: `for (; first != last; ++first) init = op(move(init), *first);` -/
def accLoop (op : β → α → β) (a : List α) (f l : Nat) : Nat → Nat → β → Except Err β
  | 0, _, acc => .ok acc
  | n + 1, i, acc => do
    let x ← rdR a f l i
    accLoop op a f l n (i + 1) (op acc x)

def accumulate (op : β → α → β) (init : β) (a : List α) (f l : Nat) := accLoop op a f l (l - f) f init
/-- reduce(first,last,init,op) forwards to accumulate -/
def reduce (op : β → α → β) (init : β) (a : List α) (f l : Nat) := accumulate op init a f l

/-- inner_product / transform_reduce (binary): `init = op1(init, op2(*first1, *first2))` -/
def innerLoop (op1 : β → β → β) (op2 : α → α → β) (a : List α) (f l : Nat) (b : List α) (g h : Nat) :
    Nat → Nat → Nat → β → Except Err β
  | 0, _, _, acc => .ok acc
  | n + 1, i, j, acc => do
    let x ← rdR a f l i
    let y ← rdR b g h j
    innerLoop op1 op2 a f l b g h n (i + 1) (j + 1) (op1 acc (op2 x y))

def innerProduct (op1 : β → β → β) (op2 : α → α → β) (init : β) (a : List α) (f l : Nat) (b : List α) (g h : Nat) :=
  innerLoop op1 op2 a f l b g h (l - f) f g init
def transformReduce2 := @innerProduct
/-- transform_reduce (unary): `init = reduce(init, transform(*first))` -/
def transformReduce1 (red : β → β → β) (tr : α → β) (init : β) (a : List α) (f l : Nat) :=
  accLoop (fun acc x => red acc (tr x)) a f l (l - f) f init

/-- partial_sum: `sum = *first; *dest = sum; while (++first != last) { sum = op(sum, *first); *++dest = sum; }` -/
def partialSumLoop (op : α → α → α) (a : List α) (f l : Nat) : Nat → Nat → α → Except Err (List α)
  | 0, _, _ => .ok []
  | n + 1, i, sum => do
    let x ← rdR a f l i
    let sum := op sum x
    let r ← partialSumLoop op a f l n (i + 1) sum
    .ok (sum :: r)

def partialSum (op : α → α → α) (a : List α) (f l : Nat) : Except Err (List α) :=
  if f == l then .ok []
  else do
    let sum ← rdR a f l f
    let r ← partialSumLoop op a f l (l - f - 1) (f + 1) sum
    .ok (sum :: r)

/-- adjacent_difference: `acc = *first; *dest = acc; while (++first != last) { val = *first; *++dest = op(val, acc); acc = val; }` -/
def adjDiffLoop (op : α → α → α) (a : List α) (f l : Nat) : Nat → Nat → α → Except Err (List α)
  | 0, _, _ => .ok []
  | n + 1, i, acc => do
    let val ← rdR a f l i
    let r ← adjDiffLoop op a f l n (i + 1) val
    .ok (op val acc :: r)

def adjacentDifference (op : α → α → α) (a : List α) (f l : Nat) : Except Err (List α) :=
  if f == l then .ok []
  else do
    let acc ← rdR a f l f
    let r ← adjDiffLoop op a f l (l - f - 1) (f + 1) acc
    .ok (acc :: r)

/-- iota: `while (first != last) { *first++ = value; ++value; }` -/
def iota (a : List Int) (f l : Nat) (v : Int) : Except Err (List Int) := do
  .ok (← genLoop f l (fun k => v + (k : Int)) (l - f) a f 0).1

end Tetl.C06
