/- C06 — model of include/etl/_algorithm/*.hpp and the folds of include/etl/_numeric (one file per group). -/
import Tetl.C06.Model.Seq
import Tetl.C06.Model.Mut
import Tetl.C06.Model.Sort
import Tetl.C06.Model.Num
import Tetl.C06.Model.Out
import Tetl.C06.Model.Needle
import Tetl.C06.Model.SinglePass
