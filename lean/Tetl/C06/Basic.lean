/-
C06 — primitives shared by the algorithm models.

An iterator is an index into the list `a` that holds the caller's storage (the range in its
context: `a = P ++ range ++ S`).  Every dereference goes through `rdR` / `wrR`, which check that
the index lies inside the half-open range `[f,l)` *the algorithm was given*; touching a context
element (or anything outside the list) is `.error .oob`.  "The model never returns `.error`" is
therefore the statement "applies no predicate to, reads from or writes to nothing outside the
given ranges".  Loops that the source writes as `for (; first != last; ++first)` are structural
recursions on the number of iterations left; loops without an a-priori trip count carry a
`fuel` argument and return `.error .fuel` when it runs out (the theorems show it never does).
-/
import Tetl.Common
namespace Tetl.C06
variable {α : Type}

/-- `*it` for an iterator `it = i` that must lie in `[f,l)` -/
def rdR (a : List α) (f l i : Nat) : Except Err α :=
  if f ≤ i ∧ i < l then rd a i else .error .oob

/-- `*it = x` for an iterator `it = i` that must lie in `[f,l)` -/
def wrR (a : List α) (f l i : Nat) (x : α) : Except Err (List α) :=
  if f ≤ i ∧ i < l ∧ i < a.length then .ok (a.set i x) else .error .oob

/-- `etl::iter_swap(i, j)` (`swap(*i, *j)`: three moves) -/
def swapR (a : List α) (f l i j : Nat) : Except Err (List α) := do
  let x ← rdR a f l i
  let y ← rdR a f l j
  let a ← wrR a f l i y
  wrR a f l j x

/-- the elements of the range `[f,l)` of `a` -/
def slice (a : List α) (f l : Nat) : List α := (a.drop f).take (l - f)

/-- `a` with the range `[f,l)` replaced by `r` (used by the specs: context untouched by construction) -/
def splice (a : List α) (f l : Nat) (r : List α) : List α := a.take f ++ r ++ a.drop l

end Tetl.C06
