/-
C06 — reference semantics: what [algorithms] / [numeric.ops] of the C++ standard prescribe, stated
over the *range* as a `List` (no storage, no indices into it).  Iterator results are offsets from
`first`.  The driver puts a result range back into its context with `splice`.
-/
namespace Tetl.C06.Spec
variable {α β : Type}

/-! ### non-modifying -/
/-- [alg.find]: the first iterator `i` with `q(*i)`, `last` if none -/
def findIdx (q : α → Bool) (r : List α) : Nat := r.findIdx q
def count (q : α → Bool) (r : List α) : Nat := r.countP q

/-- [alg.adjacent.find]: the first `i` with `pred(*i, *(i+1))`, `last` if none -/
def adjacentFind (pred : α → α → Bool) (r : List α) : Nat :=
  match (List.range (r.length - 1)).find? (fun i => match r[i]?, r[i+1]? with | some x, some y => pred x y | _, _ => false) with
  | some i => i
  | none => r.length

/-- [alg.sort] is_sorted_until: the last `i` such that `[first,i)` is sorted -/
def isSortedUntil (lt : α → α → Bool) (r : List α) : Nat :=
  match (List.range (r.length - 1)).find? (fun i => match r[i]?, r[i+1]? with | some x, some y => lt y x | _, _ => false) with
  | some i => i + 1
  | none => r.length

/-- [alg.partitions]: every element satisfying `p` precedes every element that does not -/
def isPartitioned (p : α → Bool) (r : List α) : Bool := (r.dropWhile p).all (fun x => !p x)
def partitionPoint (p : α → Bool) (r : List α) : Nat := (r.takeWhile p).length

/-- [alg.min.max] min_element: the first `i` such that no `j` has `*j < *i` -/
def minElement (lt : α → α → Bool) (r : List α) : Nat := r.findIdx (fun x => r.all (fun y => !lt y x))
/-- max_element: the first `i` such that no `j` has `*i < *j` -/
def maxElement (lt : α → α → Bool) (r : List α) : Nat := r.findIdx (fun x => r.all (fun y => !lt x y))
/-- minmax_element: first smallest, *last* largest -/
def maxElementLast (lt : α → α → Bool) (r : List α) : Nat :=
  if r.isEmpty then 0 else r.length - 1 - r.reverse.findIdx (fun x => r.all (fun y => !lt x y))

def min2 (lt : α → α → Bool) (x y : α) : α := if lt y x then y else x      -- "the smaller value; the first if equivalent"
def max2 (lt : α → α → Bool) (x y : α) : α := if lt x y then y else x      -- "the larger value; the first if equivalent"
def clamp (lt : α → α → Bool) (v lo hi : α) : α := if lt v lo then lo else if lt hi v then hi else v

/-- [lower.bound]: the partition point of `comp(e, value)`; [upper.bound]: of `!comp(value, e)` -/
def lowerBound (lt : α → α → Bool) (v : α) (r : List α) : Nat := (r.takeWhile (fun x => lt x v)).length
def upperBound (lt : α → α → Bool) (v : α) (r : List α) : Nat := (r.takeWhile (fun x => !lt v x)).length
def binarySearch (lt : α → α → Bool) (v : α) (r : List α) : Bool := r.any (fun x => !lt x v && !lt v x)

/-- `s` matches at the front of `h`, element-wise under `pred(h_k, s_k)` -/
def prefixBy (pred : α → α → Bool) : List α → List α → Bool
  | _, [] => true
  | [], _ :: _ => false
  | x :: h, c :: s => pred x c && prefixBy pred h s

/-- [alg.search]: the first `i` such that `s` matches at `i`; `last` if none -/
def search (pred : α → α → Bool) (r s : List α) : Nat :=
  ((List.range (r.length + 1)).find? (fun i => prefixBy pred (r.drop i) s)).getD r.length
/-- [alg.find.end]: the last such `i`; `last` if none or `s` is empty -/
def findEnd (pred : α → α → Bool) (r s : List α) : Nat :=
  if s.isEmpty then r.length
  else ((List.range (r.length + 1)).reverse.find? (fun i => prefixBy pred (r.drop i) s)).getD r.length
/-- search_n: the first `i` with `count` consecutive elements satisfying `pred(e, v)`; `first` if `count ≤ 0` -/
def searchN (pred : α → α → Bool) (r : List α) (count : Int) (v : α) : Nat :=
  if count ≤ 0 then 0
  else ((List.range (r.length + 1)).find? (fun i => i + count.toNat ≤ r.length &&
          ((r.drop i).take count.toNat).all (fun x => pred x v))).getD r.length
def findFirstOf (pred : α → α → Bool) (r s : List α) : Nat := r.findIdx (fun x => s.any (fun y => pred x y))

/-- [mismatch]: length of the longest common (under `pred`) prefix -/
def mismatch (pred : α → α → Bool) (r s : List α) : Nat := ((r.zip s).takeWhile (fun xy => pred xy.1 xy.2)).length
def equal (pred : α → α → Bool) (r s : List α) : Bool := r.length == s.length && (r.zip s).all (fun xy => pred xy.1 xy.2)
/-- [alg.lex.comparison] -/
def lexLt (lt : α → α → Bool) : List α → List α → Bool
  | [], [] => false
  | [], _ :: _ => true
  | _ :: _, [] => false
  | x :: xs, y :: ys => if lt x y then true else if lt y x then false else lexLt lt xs ys

/-- [alg.is.permutation]: same length and every element occurs equally often in both -/
def isPermutation (eq : α → α → Bool) (r s : List α) : Bool :=
  r.length == s.length && r.all (fun x => r.countP (fun y => eq y x) == s.countP (fun y => eq y x))

/-! ### order-related helpers for the set operations: equivalence classes and ranks -/
def equiv (lt : α → α → Bool) (x y : α) : Bool := !lt x y && !lt y x
/-- elements of `r` whose rank inside their equivalence class satisfies `keep rank (number of equivalents in s)` -/
def selectByRank (lt : α → α → Bool) (keep : Nat → Nat → Bool) (r s : List α) : List α :=
  (List.range r.length).filterMap fun i =>
    match r[i]? with
    | some x => if keep ((r.take i).countP (equiv lt x)) (s.countP (equiv lt x)) then some x else none
    | none => none

/-- [set.difference]: of `m` equivalents in `r` and `n` in `s`, the last `max(m-n,0)` of `r` -/
def setDifference (lt : α → α → Bool) (r s : List α) : List α := selectByRank lt (fun rank n => rank ≥ n) r s
/-- [set.intersection]: the first `min(m,n)` of `r` -/
def setIntersection (lt : α → α → Bool) (r s : List α) : List α := selectByRank lt (fun rank n => rank < n) r s
/-- stable merge: on ties the element of the first range comes first ([alg.merge]) -/
def merge (lt : α → α → Bool) (r s : List α) : List α := List.merge r s (fun x y => !lt y x)
/-- [set.union]: all of `r`, then the last `max(n-m,0)` of `s`, in order -/
def setUnion (lt : α → α → Bool) (r s : List α) : List α := merge lt r (setDifference lt s r)
def setSymmetricDifference (lt : α → α → Bool) (r s : List α) : List α :=
  merge lt (setDifference lt r s) (setDifference lt s r)
/-- [includes]: every element of `s`, counted with multiplicity, is in `r` -/
def includes (lt : α → α → Bool) (r s : List α) : Bool := (setDifference lt s r).isEmpty

/-! ### modifying (results are the new contents of the range) -/
/-- [alg.rotate]: element `first+(i+(last-middle))%(last-first)` receives `first+i`; returns `first+(last-middle)` -/
def rotate (r : List α) (k : Nat) : List α × Nat := (r.drop k ++ r.take k, r.length - k)
def copyN (r : List α) (n : Int) : List α := r.take n.toNat
/-- [alg.unique]: the first element of every group of consecutive equivalent elements -/
def uniqueAux (pred : α → α → Bool) (prev : α) : List α → List α
  | [] => []
  | y :: ys => if pred prev y then uniqueAux pred prev ys else y :: uniqueAux pred y ys
def unique (pred : α → α → Bool) : List α → List α
  | [] => []
  | x :: xs => x :: uniqueAux pred x xs
def remove (p : α → Bool) (r : List α) : List α := r.filter (fun x => !p x)
def replace (p : α → Bool) (w : α) (r : List α) : List α := r.map (fun x => if p x then w else x)
/-- [alg.shift] shift_left: (number of leading positions that are specified, their contents, returned offset) -/
def shiftLeft (r : List α) (n : Int) : List α × Nat :=
  if n ≤ 0 then (r, r.length)
  else if n.toNat ≥ r.length then (r, 0)
  else (r.drop n.toNat, r.length - n.toNat)
/-- shift_right: (contents of `[ret, last)`, returned offset `ret`) -/
def shiftRight (r : List α) (n : Int) : List α × Nat :=
  if n ≤ 0 then (r, 0)
  else if n.toNat ≥ r.length then ([], r.length)
  else (r.take (r.length - n.toNat), n.toNat)
def stablePartition (p : α → Bool) (r : List α) : List α × Nat := (r.filter p ++ r.filter (fun x => !p x), r.countP p)
/-- [alg.sort] stable_sort: the sorted permutation that keeps equivalent elements in their original order -/
def stableSort (lt : α → α → Bool) (r : List α) : List α := r.mergeSort (fun x y => !lt y x)

/-! ### numeric -/
def accumulate (op : β → α → β) (init : β) (r : List α) : β := r.foldl op init
def innerProduct (op1 : β → β → β) (op2 : α → α → β) (init : β) (r s : List α) : β :=
  ((r.zip s).map (fun xy => op2 xy.1 xy.2)).foldl op1 init
/-- [partial.sum]: the `i`-th result is `((r0 op r1) op …) op ri` -/
def partialSum (op : α → α → α) (r : List α) : List α :=
  (List.range r.length).filterMap fun i => match r.take (i + 1) with | x :: xs => some (xs.foldl op x) | [] => none
/-- [adjacent.difference]: `r0`, then `op(ri, r(i-1))` -/
def adjacentDifference (op : α → α → α) (r : List α) : List α :=
  match r with
  | [] => []
  | x :: xs => x :: (xs.zip r).map (fun cp => op cp.1 cp.2)
def iota (n : Nat) (v : Int) : List Int := (List.range n).map (fun (k : Nat) => v + Int.ofNat k)

end Tetl.C06.Spec
