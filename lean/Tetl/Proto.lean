/-
Line protocol shared by every driver (DESIGN §1.6).

A case line is `<op> key=value ...`; a value is a decimal integer, `npos`,
or a bracketed comma-separated integer list `[1,2,3]` (no blanks).
Core Lean only: this file is linked into the compiled drivers.
-/
namespace Tetl.Proto

inductive Val where
  | int (i : Int)
  | npos
  | list (l : List Int)
  | str (s : String)
  deriving Repr, Inhabited, BEq

structure Line where
  op : String
  args : List (String × Val)
  deriving Repr, Inhabited

def parseVal (s : String) : Val :=
  if s == "npos" then .npos
  else if s.startsWith "[" && s.endsWith "]" then
    let inner := ((s.drop 1).dropEnd 1).toString
    if inner.isEmpty then .list []
    else match (inner.splitOn ",").mapM String.toInt? with
      | some l => .list l
      | none => .str s
  else match s.toInt? with
    | some i => .int i
    | none => .str s

def parseLine (raw : String) : Option Line :=
  let s := raw.trimAscii.toString
  if s.isEmpty || s.startsWith "#" then none
  else
    match (s.splitOn " ").filter (· ≠ "") with
    | [] => none
    | op :: rest =>
      let args := rest.filterMap fun kv =>
        match kv.splitOn "=" with
        | [k, v] => some (k, parseVal v)
        | _ => none
      some { op := op, args := args }

def Line.get? (l : Line) (k : String) : Option Val := (l.args.find? (·.1 == k)).map (·.2)

def Line.int? (l : Line) (k : String) : Option Int :=
  match l.get? k with | some (.int i) => some i | _ => none

def Line.nat? (l : Line) (k : String) : Option Nat :=
  match l.get? k with | some (.int i) => if i ≥ 0 then some i.toNat else none | _ => none

/-- `npos` or a natural number; `npos` is returned as `none`, a number as `some`. -/
def Line.pos? (l : Line) (k : String) : Option (Option Nat) :=
  match l.get? k with
  | some .npos => some none
  | some (.int i) => if i ≥ 0 then some (some i.toNat) else none
  | _ => none

def Line.list? (l : Line) (k : String) : Option (List Int) :=
  match l.get? k with | some (.list v) => some v | _ => none

def Line.natList? (l : Line) (k : String) : Option (List Nat) :=
  match l.get? k with
  | some (.list v) => if v.all (· ≥ 0) then some (v.map Int.toNat) else none
  | _ => none

def Line.str? (l : Line) (k : String) : Option String :=
  match l.get? k with | some (.str s) => some s | _ => none

def fmtList (l : List Int) : String := "[" ++ ",".intercalate (l.map toString) ++ "]"
def fmtNatList (l : List Nat) : String := "[" ++ ",".intercalate (l.map toString) ++ "]"
def fmtPos : Option Nat → String
  | none => "npos"
  | some n => toString n
def fmtBool (b : Bool) : String := if b then "1" else "0"
def fmtSign (i : Int) : String := if i < 0 then "-1" else if i > 0 then "1" else "0"

/-- Generic driver loop: `step` maps a state and a parsed line to a new state and the
    two output columns (model, spec).  Unparseable lines yield `bad-op`. -/
partial def loop {σ : Type} (h : IO.FS.Stream) (out : IO.FS.Stream) (step : σ → Line → σ × String) (s : σ) : IO Unit := do
  let line ← h.getLine
  if line.isEmpty then return ()
  match parseLine line with
  | none => out.putStrLn "skip"; loop h out step s
  | some l =>
    let (s', o) := step s l
    out.putStrLn o
    loop h out step s'

def runDriver {σ : Type} (init : σ) (step : σ → Line → σ × String) : IO Unit := do
  let stdin ← IO.getStdin
  let stdout ← IO.getStdout
  loop stdin stdout step init
  stdout.flush

end Tetl.Proto
