/- C02 part `text`: cc.* (C10 integer <-> text), cs.* (C18 C-string functions, cctype), num.* (C14 bit and
   integer utilities), chr.* (C11 generated calendar kernels with their `_ub` predicates).
   Every model column is a call of the owning property's model (`err:<e>` when it returns `.error`, which is
   the memory-safety failure), every spec column the owning property's spec.  Formats: harness/c02_text.inc. -/
import Tetl.Proto
import Tetl.C02.Model
import Tetl.C10.Model
import Tetl.C10.Spec
import Tetl.C18.Model
import Tetl.C18.Spec
import Tetl.C18.Gen
import Tetl.C14.Model
import Tetl.C14.Spec
import Tetl.C11.Gen
import Tetl.C11.Spec

/-! ### cc.* — C10 -/
namespace Tetl.C02.TextCc
open Tetl Tetl.Proto Tetl.C10

def bad : Option String := some "bad-op\tbad-op"
def out (m s : String) : Option String := some (m ++ "\t" ++ s)

def FILL : Nat := 170

def tyOf (s : String) : Option IntTy :=
  match s with
  | "i8" => some ⟨8, true⟩ | "u8" => some ⟨8, false⟩
  | "i16" => some ⟨16, true⟩ | "u16" => some ⟨16, false⟩
  | "i32" => some ⟨32, true⟩ | "u32" => some ⟨32, false⟩
  | "i64" | "ill" => some ⟨64, true⟩ | "u64" | "ull" => some ⟨64, false⟩
  | _ => none

def fnTy (s : String) : Option IntTy :=
  match s with
  | "strtol" | "strtoll" | "atol" | "atoll" | "stol" | "stoll" => some ⟨64, true⟩
  | "strtoul" | "strtoull" | "stoul" | "stoull" => some ⟨64, false⟩
  | "atoi" | "stoi" => some ⟨32, true⟩
  | _ => none

/-- `v` of an unsigned type may be given as its two's complement signed reading -/
def valueOf (t : IntTy) (v : Int) : Int := if !t.signed && v < 0 then v + 2 ^ t.bits else v

def fmtTC : TCRes → String
  | .ok b p => s!"ok({p},{fmtNatList b})"
  | .tooLarge p => s!"too_large({p})"

def fmtFI : FIRes → String
  | .done b p => s!"ok({p},{fmtNatList b})"
  | .overflow => "overflow"

def fmtFC : FCRes → String
  | .ok v p => s!"ok({v},{p})"
  | .invalid p => s!"invalid(77,{p})"
  | .range p => s!"range(77,{p})"

def fmtP : Spec.PRes → String
  | .ok v p => s!"ok({v},{p})"
  | .invalid => "invalid(77,0)"
  | .range p => s!"range(77,{p})"

def fmtTI (r : TIRes) : String :=
  match r.err with
  | .none => s!"none({r.value},{r.endPos})"
  | .invalid => s!"invalid({r.endPos})"
  | .overflow => "overflow"

def fmtPTI : Spec.PRes → String
  | .ok v p => s!"none({v},{p})"
  | .invalid => "invalid(0)"
  | .range _ => "overflow"

def toCharsL (l : Line) : Option String :=
  match (l.str? "ty").bind tyOf, l.int? "v", l.int? "base", l.nat? "len" with
  | some t, some v, some b, some len =>
    let v := valueOf t v
    let buf := List.replicate len FILL
    out (fmtE fmtTC (toChars t v buf b)) (fmtTC (Spec.toChars v b.toNat buf))
  | _, _, _, _ => bad

def fromIntegerL (l : Line) : Option String :=
  match (l.str? "ty").bind tyOf, l.int? "v", l.int? "base", l.nat? "len", l.nat? "term" with
  | some t, some v, some b, some len, some term =>
    let v := valueOf t v
    let buf := List.replicate len FILL
    out (fmtE fmtFI (fromInteger t (term != 0) v buf b)) (fmtFI (Spec.fromInteger (term != 0) v b.toNat buf))
  | _, _, _, _, _ => bad

def toStringL (l : Line) : Option String :=
  match (l.str? "fn").bind tyOf, l.int? "v", l.nat? "cap" with
  | some t, some v, some cap =>
    let v := valueOf t v
    let f := fun (s : List Nat) => s!"ok({s.length},{fmtNatList s},1)"
    out (fmtE f (toStr t cap v)) (f (Spec.render v 10))
  | _, _, _ => bad

def fromCharsL (l : Line) : Option String :=
  match (l.str? "ty").bind tyOf, l.natList? "s", l.int? "base" with
  | some t, some s, some b => out (fmtE fmtFC (fromChars t s b)) (fmtP (Spec.parse t false s b.toNat))
  | _, _, _ => bad

def toIntegerL (l : Line) : Option String :=
  match (l.str? "ty").bind tyOf, l.natList? "s", l.int? "base", l.nat? "ws" with
  | some t, some s, some b, some ws =>
    out (fmtE fmtTI (toInteger t (ws != 0) s b)) (fmtPTI (Spec.parse t (ws != 0) s b.toNat))
  | _, _, _, _ => bad

def cstrL (l : Line) : Option String :=
  let fn := (l.str? "fn").getD ""
  match fnTy fn, l.natList? "s", l.int? "base" with
  | some t, some s, some b =>
    let sp := Spec.strto t (cstrOf s) b.toNat
    if fn.startsWith "ato" then
      out (fmtE toString (ato t s)) (if sp.erange then "*" else toString sp.value)
    else
      let f := fun (r : Int × Nat) => s!"{r.1},{r.2},0"
      out (fmtE f (strto t (cstrOf s) b)) s!"{sp.value},{sp.endPos},{fmtBool sp.erange}"
  | _, _, _ => bad

def stoL (l : Line) : Option String :=
  let fn := (l.str? "fn").getD ""
  match fnTy fn, l.natList? "s", l.int? "base" with
  | some t, some s, some b =>
    let sp := Spec.strto t (cstrOf s) b.toNat
    let f := fun (r : Int × Nat) => s!"ok({r.1},{r.2})"
    let spOut := if sp.erange then "range" else if sp.endPos == 0 then "invalid" else s!"ok({sp.value},{sp.endPos})"
    out (fmtE f (strto t s b)) spOut
  | _, _, _ => bad

def step (l : Line) : Option String :=
  match l.op with
  | "cc.to_chars" => toCharsL l
  | "cc.from_integer" => fromIntegerL l
  | "cc.to_string" => toStringL l
  | "cc.from_chars" => fromCharsL l
  | "cc.to_integer" => toIntegerL l
  | "cc.cstr" => cstrL l
  | "cc.sto" => stoL l
  | _ => none

end Tetl.C02.TextCc

/-! ### cs.* — C18 -/
namespace Tetl.C02.TextCs
open Tetl Tetl.Proto Tetl.C18

def bad : Option String := some "bad-op\tbad-op"
def out (m s : String) : Option String := some (m ++ "\t" ++ s)

/-- pointer result relative to the pointer argument `p` -/
def fmtPtr (p : Nat) : Option Nat → String
  | none => "null"
  | some a => toString ((a : Int) - (p : Int))

def fmtRel : Option Nat → String
  | none => "null"
  | some a => toString a

/-- writer result: returned pointer relative to `dest`, then the whole destination allocation -/
def fmtW (d : Nat) (r : Nat × Buf) : String := s!"{(r.1 : Int) - (d : Int)}:{fmtNatList r.2}"
def fmtWS (b : List Nat) : String := s!"0:{fmtNatList b}"

def ctypeM (f : String) (c : Int) : Option String :=
  match f with
  | "isalnum" => some (fmtBool (isalnum c)) | "isalpha" => some (fmtBool (isalpha c))
  | "isblank" => some (fmtBool (isblank c)) | "iscntrl" => some (fmtBool (iscntrl c))
  | "isdigit" => some (fmtBool (isdigit c)) | "isgraph" => some (fmtBool (isgraph c))
  | "islower" => some (fmtBool (islower c)) | "isprint" => some (fmtBool (isprint c))
  | "ispunct" => some (fmtBool (ispunct c)) | "isspace" => some (fmtBool (isspace c))
  | "isupper" => some (fmtBool (isupper c)) | "isxdigit" => some (fmtBool (isxdigit c))
  | "tolower" => some (toString (tolower c)) | "toupper" => some (toString (toupper c))
  | _ => none

/-- the model GENERATED from the current headers (C18 tie T); it must agree with the hand model -/
def ctypeG (f : String) (c : Int) : Option String :=
  let b (x : Int) : String := fmtBool (x != 0)
  match f with
  | "isalnum" => some (b (Gen.isalnum c)) | "isalpha" => some (b (Gen.isalpha c))
  | "isblank" => some (b (Gen.isblank c)) | "iscntrl" => some (b (Gen.iscntrl c))
  | "isdigit" => some (b (Gen.isdigit c)) | "isgraph" => some (b (Gen.isgraph c))
  | "islower" => some (b (Gen.islower c)) | "isprint" => some (b (Gen.isprint c))
  | "ispunct" => some (b (Gen.ispunct c)) | "isspace" => some (b (Gen.isspace c))
  | "isupper" => some (b (Gen.isupper c)) | "isxdigit" => some (b (Gen.isxdigit c))
  | "tolower" => some (toString (Gen.tolower c)) | "toupper" => some (toString (Gen.toupper c))
  | _ => none

def ctypeS (f : String) (c : Int) : Option String :=
  match f with
  | "isalnum" => some (fmtBool (Spec.isalnum c)) | "isalpha" => some (fmtBool (Spec.isalpha c))
  | "isblank" => some (fmtBool (Spec.isblank c)) | "iscntrl" => some (fmtBool (Spec.iscntrl c))
  | "isdigit" => some (fmtBool (Spec.isdigit c)) | "isgraph" => some (fmtBool (Spec.isgraph c))
  | "islower" => some (fmtBool (Spec.islower c)) | "isprint" => some (fmtBool (Spec.isprint c))
  | "ispunct" => some (fmtBool (Spec.ispunct c)) | "isspace" => some (fmtBool (Spec.isspace c))
  | "isupper" => some (fmtBool (Spec.isupper c)) | "isxdigit" => some (fmtBool (Spec.isxdigit c))
  | "tolower" => some (toString (Spec.tolower c)) | "toupper" => some (toString (Spec.toupper c))
  | _ => none

def ctypeL (l : Line) : Option String :=
  match l.str? "f", l.int? "c" with
  | some f, some c =>
    match ctypeM f c, ctypeS f c, ctypeG f c with
    | some m, some s, some g => if g == m then out m s else out s!"{m}!gen={g}" s
    | _, _, _ => bad
  | _, _ => bad

def ctOf (l : Line) : CT := if (l.str? "ct").getD "char" == "wchar" then CT.wchar else CT.char

def cmpL (l : Line) : Option String :=
  let ct := ctOf l
  let k : Nat → Int := Spec.key ct.bits ct.signedCmp
  match l.natList? "a", l.nat? "aoff", l.natList? "b", l.nat? "boff" with
  | some a, some i, some b, some j =>
    match l.op, l.nat? "n" with
    | "cs.strcmp", _ => out (fmtE toString (strcmp ct a i b j)) (toString (Spec.strcmp k a i b j))
    | "cs.strncmp", some n => out (fmtE toString (strncmp ct a i b j n)) (toString (Spec.strncmp k a i b j n))
    | "cs.memcmp", some n => out (fmtE toString (memcmp ct a i b j n)) (toString (Spec.memcmp k a i b j n))
    | _, _ => bad
  | _, _, _, _ => bad

def chrL (l : Line) : Option String :=
  let ct := ctOf l
  match l.natList? "s", l.nat? "off", l.int? "ch" with
  | some s, some p, some ch =>
    match l.op, l.nat? "n" with
    | "cs.strchr", _ => out (fmtE (fmtPtr p) (strchr ct s p ch)) (fmtRel (Spec.strchr s p (Spec.toUnit ct.bits ch)))
    | "cs.strrchr", _ => out (fmtE (fmtPtr p) (strrchr ct s p ch)) (fmtRel (Spec.strrchr s p (Spec.toUnit ct.bits ch)))
    | "cs.memchr", some n => out (fmtE (fmtPtr p) (memchr ct s p ch n)) (fmtRel (Spec.memchr s p (Spec.toUnit ct.bits ch) n))
    | _, _ => bad
  | _, _, _ => bad

def spanL (l : Line) : Option String :=
  match l.natList? "s", l.nat? "off", l.natList? "t", l.nat? "toff" with
  | some s, some p, some t, some q =>
    match l.op with
    | "cs.strspn" => out (fmtE toString (strspn true s p t q)) (toString (Spec.strspn s p t q))
    | "cs.strcspn" => out (fmtE toString (strspn false s p t q)) (toString (Spec.strcspn s p t q))
    | "cs.strpbrk" => out (fmtE (fmtPtr p) (strpbrk s p t q)) (fmtRel (Spec.strpbrk s p t q))
    | "cs.strstr" => out (fmtE (fmtPtr p) (strstr s p t q)) (fmtRel (Spec.strstr s p t q))
    | _ => bad
  | _, _, _, _ => bad

def copyL (l : Line) : Option String :=
  match l.natList? "dst", l.nat? "doff", l.natList? "src", l.nat? "soff" with
  | some dst, some d, some src, some s =>
    match l.op, l.nat? "n" with
    | "cs.strcpy", _ => out (fmtE (fmtW d) (strcpy dst d src s)) (fmtWS (Spec.strcpy dst d src s))
    | "cs.strcat", _ => out (fmtE (fmtW d) (strcat dst d src s)) (fmtWS (Spec.strcat dst d src s))
    | "cs.strncpy", some n => out (fmtE (fmtW d) (strncpy dst d src s n)) (fmtWS (Spec.strncpy dst d src s n))
    | "cs.strncat", some n => out (fmtE (fmtW d) (strncat dst d src s n)) (fmtWS (Spec.strncat dst d src s n))
    | "cs.memcpy", some n => out (fmtE (fmtW d) (memcpy dst d src s n)) (fmtWS (Spec.memcpy dst d src s n))
    | _, _ => bad
  | _, _, _, _ => bad

def memsetL (l : Line) : Option String :=
  let ct := ctOf l
  match l.natList? "dst", l.nat? "doff", l.int? "ch", l.nat? "n" with
  | some dst, some d, some ch, some n =>
    out (fmtE (fmtW d) (memset ct dst d ch n)) (fmtWS (Spec.memset dst d (Spec.toUnit ct.bits ch) n))
  | _, _, _, _ => bad

def memmoveL (l : Line) : Option String :=
  match l.natList? "buf", l.nat? "doff", l.nat? "soff", l.nat? "n" with
  | some b, some d, some s, some n => out (fmtE (fmtW d) (memmove b d s n)) (fmtWS (Spec.memmove b d s n))
  | _, _, _, _ => bad

def strlenL (l : Line) : Option String :=
  match l.natList? "s", l.nat? "off" with
  | some s, some p => out (fmtE toString (strlen s p)) (toString (Spec.strlen s p))
  | _, _ => bad

def step (l : Line) : Option String :=
  match l.op with
  | "cs.ctype" => ctypeL l
  | "cs.strlen" => strlenL l
  | "cs.strcmp" | "cs.strncmp" | "cs.memcmp" => cmpL l
  | "cs.strchr" | "cs.strrchr" | "cs.memchr" => chrL l
  | "cs.strspn" | "cs.strcspn" | "cs.strpbrk" | "cs.strstr" => spanL l
  | "cs.strcpy" | "cs.strncpy" | "cs.strcat" | "cs.strncat" | "cs.memcpy" => copyL l
  | "cs.memset" => memsetL l
  | "cs.memmove" => memmoveL l
  | _ => none

end Tetl.C02.TextCs

/-! ### num.* — C14 -/
namespace Tetl.C02.TextNum
open Tetl Tetl.Proto Tetl.C14

def tyOf : String → Option ITy
  | "u8" => some ⟨8, false⟩ | "u16" => some ⟨16, false⟩ | "u32" => some ⟨32, false⟩ | "u64" => some ⟨64, false⟩
  | "i8" => some ⟨8, true⟩ | "i16" => some ⟨16, true⟩ | "i32" => some ⟨32, true⟩ | "i64" => some ⟨64, true⟩
  | _ => none

def sN (n : Nat) : String := toString n
def sI (i : Int) : String := toString i
def sB (b : Bool) : String := fmtBool b
def sP (p : Int × Int) : String := s!"{p.1}/{p.2}"

/-- unsigned-only ops: the argument must be a value of the type -/
def natArg (t : ITy) (a : Int) : Option Nat :=
  if !t.sg && t.inR a then some a.toNat else none

def six (eq lt gt : Bool) : String :=
  String.join [sB eq, sB (!eq), sB lt, sB gt, sB (!gt), sB (!lt)]

/-- <bit>, one unsigned argument -/
def bitUnary (op : String) (w x : Nat) : Option (String × String) :=
  match op with
  | "num.popcount" => some (fmtE sN (popcount w x), sN (Spec.popcount w x))
  | "num.countl_zero" => some (fmtE sN (countlZero w x), sN (Spec.countlZero w x))
  | "num.countl_one" => some (fmtE sN (countlOne w x), sN (Spec.countlOne w x))
  | "num.countr_zero" => some (fmtE sN (countrZero w x), sN (Spec.countrZero w x))
  | "num.countr_one" => some (fmtE sN (countrOne w x), sN (Spec.countrOne w x))
  | "num.bit_width" => some (fmtE sN (bitWidth w x), sN (Spec.bitWidth x))
  | "num.bit_ceil" => some (fmtE sN (bitCeil w x), sN (Spec.bitCeil x))
  | "num.bit_floor" => some (fmtE sN (bitFloor w x), sN (Spec.bitFloor x))
  | "num.has_single_bit" => some (fmtE sB (hasSingleBit w x), sB (Spec.hasSingleBit x))
  | _ => none

/-- <bit>, unsigned word and a count / position -/
def bitBinary (op : String) (w x : Nat) (s : Int) : Option (String × String) :=
  match op with
  | "num.rotl" => some (fmtE sN (rotl w x s), sN (Spec.rotl w x s))
  | "num.rotr" => some (fmtE sN (rotr w x s), sN (Spec.rotr w x s))
  | "num.test_bit" => if s < 0 then none else some (fmtE sB (testBit w x s.toNat), sB (Spec.testBit x s.toNat))
  | "num.set_bit" => if s < 0 then none else some (fmtE sN (setBit w x s.toNat), sN (Spec.setBit x s.toNat))
  | "num.reset_bit" => if s < 0 then none else some (fmtE sN (resetBit w x s.toNat), sN (Spec.resetBit x s.toNat))
  | "num.flip_bit" => if s < 0 then none else some (fmtE sN (flipBit w x s.toNat), sN (Spec.flipBit x s.toNat))
  | _ => none

/-- one argument of type `t` -/
def intUnary (op : String) (t : ITy) (a : Int) : Option (String × String) :=
  match op with
  | "num.byteswap" => some (fmtE sI (byteswap t a), sI (t.conv (Spec.bswap (t.w / 8) (t.uns.conv a).toNat)))
  | "num.abs" => some (fmtE sI (absT t a), sI (Spec.abs a))
  | "num.ilog2" => some (fmtE sI (ilog2 t a), sI (Spec.ilog2 a.toNat))
  | _ => none

/-- two arguments of type `t` -/
def intBinary (op : String) (t : ITy) (a y : Int) : Option (String × String) :=
  match op with
  | "num.add_sat" => some (fmtE sI (addSat t a y), sI (Spec.clampTo t.min t.max (a + y)))
  | "num.div_sat" => some (fmtE sI (divSat t a y), sI (Spec.clampTo t.min t.max (Int.tdiv a y)))
  | "num.midpoint" => some (fmtE sI (midpoint t a y), sI (Spec.midpoint a y))
  | "num.idiv" => some (fmtE sP (idiv t a y), sP (Spec.idiv a y))
  | "num.ipow" => some (fmtE sI (ipow t a y), sI (Spec.ipow a y.toNat))
  | _ => none

/-- `a : t`, `y : n` -/
def mixed (op : String) (t n : ITy) (a y : Int) : Option (String × String) :=
  match op with
  | "num.gcd" => some (fmtE sI (gcd t n a y), sI (Spec.gcd a y))
  | "num.lcm" => some (fmtE sI (lcm t n a y), sI (Spec.lcm a y))
  | "num.cmp" =>
    let m := String.join [sB (cmpEqual t n a y), sB (cmpNotEqual t n a y), sB (cmpLess t n a y),
                          sB (cmpGreater t n a y), sB (cmpLessEqual t n a y), sB (cmpGreaterEqual t n a y)]
    some (m, six (decide (a = y)) (decide (a < y)) (decide (a > y)))
  | _ => none

/-- t = To, u = From; `a` is a value of From -/
def conv (op : String) (t f : ITy) (a : Int) : Option (String × String) :=
  match op with
  | "num.saturate_cast" => some (fmtE sI (saturateCast t f a), sI (Spec.clampTo t.min t.max a))
  | "num.in_range" => some (sB (inRange t f a), sB (decide (t.min ≤ a) && decide (a ≤ t.max)))
  | _ => none

def eval (op : String) (t : ITy) (u : Option ITy) (a : Int) (b : Option Int) : Option (String × String) :=
  match u, b with
  | some f, none => if f.inR a then conv op t f a else none
  | some n, some y => if t.inR a && n.inR y then mixed op t n a y else none
  | none, none =>
    match natArg t a with
    | some x => (bitUnary op t.w x).orElse fun _ => intUnary op t a
    | none => if t.inR a then intUnary op t a else none
  | none, some y =>
    match natArg t a, bitBinary op t.w 0 0 with
    | some x, some _ => bitBinary op t.w x y
    | _, _ => if t.inR a && t.inR y then intBinary op t a y else none

def ops : List String :=
  ["num.popcount", "num.countl_zero", "num.countl_one", "num.countr_zero", "num.countr_one", "num.bit_width",
   "num.bit_ceil", "num.bit_floor", "num.has_single_bit", "num.rotl", "num.rotr", "num.test_bit", "num.set_bit",
   "num.reset_bit", "num.flip_bit", "num.byteswap", "num.abs", "num.ilog2", "num.add_sat", "num.div_sat",
   "num.midpoint", "num.idiv", "num.ipow", "num.gcd", "num.lcm", "num.cmp", "num.saturate_cast", "num.in_range"]

def step (l : Line) : Option String :=
  if !ops.contains l.op then none else
  let bad : Option String := some "bad-op\tbad-op"
  match (l.str? "t").bind tyOf, l.int? "a" with
  | some t, some a =>
    let u := (l.str? "u").bind tyOf
    if (l.get? "u").isSome && u.isNone then bad
    else if (l.get? "b").isSome && (l.int? "b").isNone then bad
    else
      match eval l.op t u a (l.int? "b") with
      | some r => some (r.1 ++ "\t" ++ r.2)
      | none => bad
  | _, _ => bad

end Tetl.C02.TextNum

/-! ### chr.* — C11 generated kernels -/
namespace Tetl.C02.TextChr
open Tetl Tetl.Proto Tetl.C11

def bad : Option String := some "bad-op\tbad-op"
/-- model column: value and the `_ub` verdict (`ub=1`: no UB in this body); spec column: the calendar value, and
    `ub=1` because the input is valid -/
def out (ok : Bool) (m s : String) : Option String :=
  some (m ++ (if ok then " ub=1" else " ub=0") ++ "\t" ++ s ++ " ub=1")
def t3 (t : Int × Int × Int) : String := s!"{t.1},{t.2.1},{t.2.2}"
def t2 (t : Int × Int) : String := s!"{t.1},{t.2}"
def b2s (b : Bool) : String := if b then "1" else "0"

def step (l : Line) : Option String :=
  match l.op with
  | "chr.civil" =>
    match l.int? "z" with
    | some z =>
      let s := Spec.civil z
      out (Gen.civil_from_days_ub z) (t3 (Gen.civil_from_days z)) s!"{s.y},{s.m},{s.d}"
    | none => bad
  | "chr.days" =>
    match l.int? "y", l.int? "m", l.int? "d" with
    | some y, some m, some d =>
      out (Gen.days_from_civil_ub y m d) (toString (Gen.days_from_civil y m d)) (toString (Spec.daysOf ⟨y, m.toNat, d.toNat⟩))
    | _, _, _ => bad
  | "chr.weekday" =>
    match l.int? "tp" with
    | some z => out (Gen.weekday_from_days_ub z) (toString (Gen.weekday_from_days z)) (toString (Spec.weekday z))
    | none => bad
  | "chr.is_leap" =>
    match l.int? "y" with
    | some y => out (Gen.year_is_leap_ub y) (b2s (Gen.year_is_leap y)) (b2s (Spec.isLeap y))
    | none => bad
  | "chr.last_day" =>
    match l.int? "y", l.int? "m" with
    | some y, some m =>
      out (Gen.last_day_of_month_ub y m) (toString (Gen.last_day_of_month y m)) (toString (Spec.monthLength y m.toNat))
    | _, _ => bad
  | "chr.month_plus" =>
    match l.int? "m", l.int? "k" with
    | some m, some k => out (Gen.month_plus_ub m k) (toString (Gen.month_plus m k)) (toString (Spec.monthPlus m k))
    | _, _ => bad
  | "chr.weekday_plus" =>
    match l.int? "w", l.int? "k" with
    | some w, some k => out (Gen.weekday_plus_ub w k) (toString (Gen.weekday_plus w k)) (toString (Spec.weekdayPlus w k))
    | _, _ => bad
  | "chr.weekday_minus" =>
    match l.int? "w", l.int? "k" with
    | some w, some k => out (Gen.weekday_minus_ub w k) (toString (Gen.weekday_minus w k)) (toString (Spec.weekdayPlus w (-k)))
    | _, _ => bad
  | "chr.year_month_plus" =>
    match l.int? "y", l.int? "m", l.int? "k" with
    | some y, some m, some k =>
      out (Gen.year_month_plus_ub y m k) (t2 (Gen.year_month_plus y m k)) (t2 (Spec.yearMonthPlus y m k))
    | _, _, _ => bad
  | _ => none

end Tetl.C02.TextChr

namespace Tetl.C02
open Tetl Tetl.Proto

def stepText (l : Line) : Option String :=
  if l.op.startsWith "cc." then TextCc.step l
  else if l.op.startsWith "cs." then TextCs.step l
  else if l.op.startsWith "num." then TextNum.step l
  else if l.op.startsWith "chr." then TextChr.step l
  else none

end Tetl.C02
