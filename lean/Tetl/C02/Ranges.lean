import Tetl.Proto
import Tetl.C02.Model
namespace Tetl.C02
open Tetl Tetl.Proto
def stepRanges (_l : Line) : Option String := none
end Tetl.C02
