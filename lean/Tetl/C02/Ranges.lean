/- C02 part `ranges`: `alg.*` (the C06 algorithm models) and `span.*` (the C19 span / mdspan models) replayed on the
   boundary stream of checks/props/c02_ranges.py.  Nothing is modelled here: every arm calls the owning property's
   model (first column, `err:<e>` when it returns `.error`) and its spec (second column).  The formatting helpers are
   copies of those in Tetl/C06/Driver.lean and Tetl/C19/Driver.lean (which cannot be imported: each defines `main`). -/
import Tetl.Proto
import Tetl.C02.Model
import Tetl.C06.Model
import Tetl.C06.Spec
import Tetl.C19.Model
import Tetl.C19.Spec
namespace Tetl.C02.RangesAlg
open Tetl Tetl.Proto Tetl.C06
open Tetl.C02 (fmtE)

abbrev E := Int
def key (e : E) : Int := e / 100
def cmpOf (s : String) : E → E → Bool :=
  if s == "greater" then fun x y => key x > key y
  else if s == "mod3" then fun x y => key x % 3 < key y % 3
  else fun x y => key x < key y
/-- class of an element under the comparator's equivalence -/
def clsOf (s : String) (e : E) : Int := if s == "mod3" then key e % 3 else key e
def eqOf (s : String) : E → E → Bool :=
  if s == "eqmod" then fun x y => key x % 2 == key y % 2 else fun x y => key x == key y
def predOf (mask : Nat) (e : E) : Bool := (mask >>> (key e).toNat) % 2 == 1

def fmtOpt (l : List (Option Int)) : String :=
  "[" ++ ",".intercalate (l.map fun | some i => toString i | none => "_") ++ "]"
/-- the storage with positions `[lo,hi)` masked -/
def fmtMask (a : List E) (lo hi : Nat) : String :=
  fmtOpt ((List.range a.length).zip a |>.map fun (i, x) => if lo ≤ i && i < hi then none else some x)
def sorted (l : List Int) : List Int := l.mergeSort (fun x y => x ≤ y)
def fmtIdx (n : Nat) : String := s!"r={n}"
def fmtB (b : Bool) : String := s!"r={fmtBool b}"

structure Args where
  a : List E
  f : Nat
  l : Nat
  b : List E
  m : Nat
  d : Nat
  n : Int
  v : E
  w : E
  p : Nat
  cmp : String
  eq : String
  it : String
  ov : String
  op : String
  init : Int

def getArgs (ln : Line) : Args :=
  let a := (ln.list? "a").getD []
  { a := a, f := (ln.nat? "f").getD 0, l := (ln.nat? "l").getD a.length, b := (ln.list? "b").getD [],
    m := (ln.nat? "m").getD 0, d := (ln.nat? "d").getD 0, n := (ln.int? "n").getD 0, v := (ln.int? "v").getD 0,
    w := (ln.int? "w").getD 0, p := (ln.nat? "p").getD 0, cmp := (ln.str? "cmp").getD "dflt",
    eq := (ln.str? "eq").getD "dflt", it := (ln.str? "it").getD "ptr", ov := (match ln.get? "ov" with | some (.int i) => toString i | some (.str s) => s | _ => ""),
    op := (ln.str? "op").getD "dflt", init := (ln.int? "init").getD 0 }

/-- canonical form of an unstable sort result: classes in order, the elements as a multiset, the context -/
def canonSort (cmp : String) (a : List E) (f l : Nat) : String :=
  let r := slice a f l
  s!"c={fmtList (r.map (clsOf cmp))} s={fmtList (sorted r)} a={fmtMask a f l}"
def canonNth (cmp : String) (a : List E) (f m l : Nat) : String :=
  let r := slice a f l
  let k := m - f
  let nth := match r[k]? with | some x => toString (clsOf cmp x) | none => "-"
  s!"lo={fmtList (sorted ((r.take k).map (clsOf cmp)))} nth={nth} hi={fmtList (sorted ((r.drop (k + 1)).map (clsOf cmp)))} s={fmtList (sorted r)} a={fmtMask a f l}"
def canonPartial (cmp : String) (a : List E) (f m l : Nat) : String :=
  let r := slice a f l
  let k := m - f
  s!"c={fmtList ((r.take k).map (clsOf cmp))} hi={fmtList (sorted ((r.drop k).map (clsOf cmp)))} s={fmtList (sorted r)} a={fmtMask a f l}"
def canonPartition (a : List E) (f l r : Nat) : String :=
  s!"r={r} lo={fmtList (sorted (slice a f r))} hi={fmtList (sorted (slice a r l))} a={fmtMask a f l}"

def genF (k : Nat) : Int := 100 + 10 * Int.ofNat k

def numOp (s : String) : Int → Int → Int :=
  if s == "minus" then fun x y => x - y else if s == "mul2" then fun x y => 2 * x + y else fun x y => x + y

def algStep (op : String) (ln : Line) : String :=
  let bad := "bad-op\tbad-op"
  let out (m s : String) := m ++ "\t" ++ s
  let g := getArgs ln
  let a := g.a; let f := g.f; let l := g.l; let b := g.b; let h := b.length
  if !(f ≤ l && l ≤ a.length) then bad else
  let R := slice a f l
  let lt := cmpOf g.cmp; let eqf := eqOf g.eq; let p := predOf g.p
  let idx (m : Except Err Nat) (s : Nat) := out (fmtE fmtIdx m) (fmtIdx (f + s))
  let boo (m : Except Err Bool) (s : Bool) := out (fmtE fmtB m) (fmtB s)
  let lst (m : Except Err (List E)) (s : List E) := out (fmtE fmtList m) (fmtList s)
  let arr (m : Except Err (List E)) (s : List E) := out (fmtE (fun x => "a=" ++ fmtList x) m) ("a=" ++ fmtList (splice a f l s))
  match op with
  | "find" => idx (find eqf g.v a f l) (C06.Spec.findIdx (fun x => eqf x g.v) R)
  | "find_if" => idx (findIf p a f l) (C06.Spec.findIdx p R)
  | "find_if_not" => idx (findIfNot p a f l) (C06.Spec.findIdx (fun x => !p x) R)
  | "all_of" => boo (allOf p a f l) (R.all p)
  | "any_of" => boo (anyOf p a f l) (R.any p)
  | "none_of" => boo (noneOf p a f l) (!R.any p)
  | "count" => out (fmtE fmtIdx (count eqf g.v a f l)) (fmtIdx (C06.Spec.count (fun x => eqf x g.v) R))
  | "count_if" => out (fmtE fmtIdx (countIf p a f l)) (fmtIdx (C06.Spec.count p R))
  | "for_each" => lst (forEach a f l) R
  | "for_each_n" =>
    out (fmtE (fun (r : Nat × List E) => s!"r={r.1} v={fmtList r.2}") (forEachN a f l g.n))
      s!"r={f + g.n.toNat} v={fmtList (R.take g.n.toNat)}"
  | "adjacent_find" => idx (adjacentFind eqf a f l) (C06.Spec.adjacentFind eqf R)
  | "is_sorted" => boo (isSorted lt a f l) (C06.Spec.isSortedUntil lt R == R.length)
  | "is_sorted_until" => idx (isSortedUntil lt a f l) (C06.Spec.isSortedUntil lt R)
  | "is_partitioned" => boo (isPartitioned p a f l) (C06.Spec.isPartitioned p R)
  | "partition_point" => idx (partitionPoint p a f l) (C06.Spec.partitionPoint p R)
  | "min_element" => idx (minElement lt a f l) (C06.Spec.minElement lt R)
  | "max_element" => idx (maxElement lt a f l) (C06.Spec.maxElement lt R)
  | "minmax_element" =>
    out (fmtE (fun (r : Nat × Nat) => s!"r={r.1},{r.2}") (minmaxElement lt a f l))
      s!"r={f + C06.Spec.minElement lt R},{f + C06.Spec.maxElementLast lt R}"
  | "min" => out s!"r={min2 lt g.v g.w}" s!"r={C06.Spec.min2 lt g.v g.w}"
  | "max" => out s!"r={max2 lt g.v g.w}" s!"r={C06.Spec.max2 lt g.v g.w}"
  | "minmax" =>
    let r := minmax2 lt g.v g.w
    out s!"r={r.1},{r.2}" s!"r={C06.Spec.min2 lt g.v g.w},{C06.Spec.max2 lt g.w g.v}"
  | "clamp" =>
    match ln.int? "lo", ln.int? "hi" with
    | some lo, some hi => out s!"r={clamp lt g.v lo hi}" s!"r={C06.Spec.clamp lt g.v lo hi}"
    | _, _ => bad
  | "lower_bound" => idx (lowerBound lt g.v a f l) (C06.Spec.lowerBound lt g.v R)
  | "upper_bound" => idx (upperBound lt g.v a f l) (C06.Spec.upperBound lt g.v R)
  | "equal_range" =>
    out (fmtE (fun (r : Nat × Nat) => s!"r={r.1},{r.2}") (equalRange lt g.v a f l))
      s!"r={f + C06.Spec.lowerBound lt g.v R},{f + C06.Spec.upperBound lt g.v R}"
  | "binary_search" => boo (binarySearch lt g.v a f l) (C06.Spec.binarySearch lt g.v R)
  | "search" => idx (search eqf a f l b) (C06.Spec.search eqf R b)
  | "find_end" => idx (findEnd eqf a f l b) (C06.Spec.findEnd eqf R b)
  | "search_n" => idx (searchN eqf a f l g.n g.v) (C06.Spec.searchN eqf R g.n g.v)
  | "find_first_of" => idx (findFirstOf eqf a f l b) (C06.Spec.findFirstOf eqf R b)
  | "mismatch" =>
    let m := if g.ov == "4" then mismatch4 eqf a f l b 0 h else mismatch3 eqf a f l b 0 h
    let s := C06.Spec.mismatch eqf R b
    out (fmtE (fun (r : Nat × Nat) => s!"r={r.1},{r.2}") m) s!"r={f + s},{s}"
  | "equal" =>
    if g.ov == "4" then
      boo (if g.it == "ptr" then equal4RA eqf a f l b 0 h else equal4Fwd eqf a f l b 0 h) (C06.Spec.equal eqf R b)
    else boo (equal3 eqf a f l b 0 h) (C06.Spec.equal eqf R (b.take R.length))
  | "lexicographical_compare" => boo (lexicographicalCompare lt a f l b 0 h) (C06.Spec.lexLt lt R b)
  | "is_permutation" =>
    if g.ov == "4" then boo (isPermutation4 eqf a f l b 0 h) (C06.Spec.isPermutation eqf R b)
    else boo (isPermutation3 eqf a f l b 0 h) (C06.Spec.isPermutation eqf R (b.take R.length))
  | "includes" => boo (includes lt a f l b 0 h) (C06.Spec.includes lt R b)
  -- modifying, in place
  | "rotate" =>
    let s := C06.Spec.rotate R (g.m - f)
    out (fmtE (fun (r : List E × Nat) => s!"r={r.2} a={fmtList r.1}") (rotate a f g.m l))
      s!"r={f + s.2} a={fmtList (splice a f l s.1)}"
  | "reverse" => arr (if g.it == "ptr" then reverseRA a f l else reverseBidi a f l) R.reverse
  | "swap_ranges" =>
    let n := l - f
    out (fmtE (fun (r : List E × List E × Nat) => s!"r={r.2.2} a={fmtList r.1} b={fmtList r.2.1}") (swapRanges a f l b 0 h))
      s!"r={n} a={fmtList (splice a f l (b.take n))} b={fmtList (R ++ b.drop n)}"
  | "copyx" =>
    -- the whole chunk `a` copied into a separate exact-fit chunk `b`: C06 `copy` on the storage `a ++ b`, destination = |a|
    let n := a.length
    if h != n then bad else
    out (fmtE (fun (r : List E × Nat) => s!"r={r.2 - n} b={fmtList (r.1.drop n)}") (copy (a ++ b) 0 n n))
      s!"r={n} b={fmtList a}"
  | "copy" | "move" =>
    let n := l - f
    let d := g.d
    -- move: source positions that are not overwritten hold unspecified (moved-from) values
    let mk (x : List E) := if op == "move"
      then fmtOpt ((List.range x.length).zip x |>.map fun (i, e) => if f ≤ i && i < l && !(d ≤ i && i < d + n) then none else some e)
      else fmtList x
    out (fmtE (fun (r : List E × Nat) => s!"r={r.2} a={mk r.1}") (copy a f l d))
      s!"r={d + n} a={mk (splice a d (d + n) R)}"
  | "copy_backward" | "move_backward" =>
    let n := l - f
    let d := g.d
    let mk (x : List E) := if op == "move_backward"
      then fmtOpt ((List.range x.length).zip x |>.map fun (i, e) => if f ≤ i && i < l && !(d - n ≤ i && i < d) then none else some e)
      else fmtList x
    out (fmtE (fun (r : List E × Nat) => s!"r={r.2} a={mk r.1}") (copyBackward a f l d))
      s!"r={d - n} a={mk (splice a (d - n) d R)}"
  | "copy_if" => lst (copyIf p a f l) (R.filter p)
  | "copy_n" => lst (copyN a f l g.n) (C06.Spec.copyN R g.n)
  | "remove_copy" => lst (removeCopy eqf g.v a f l) (C06.Spec.remove (fun x => eqf x g.v) R)
  | "remove_copy_if" => lst (removeCopyIf p a f l) (C06.Spec.remove p R)
  | "unique_copy" => lst (uniqueCopy eqf a f l) (C06.Spec.unique eqf R)
  | "reverse_copy" => lst (reverseCopy a f l) R.reverse
  | "rotate_copy" => lst (rotateCopy a f g.m l) (C06.Spec.rotate R (g.m - f)).1
  | "transform" => lst (transform1 (fun x => x + 10) a f l) (R.map (fun x => x + 10))
  | "transform2" => lst (transform2 (fun x y => x + 100 * y) a f l b 0 h) ((R.zip b).map (fun xy => xy.1 + 100 * xy.2))
  | "partition_copy" =>
    out (fmtE (fun (r : List E × List E) => s!"{fmtList r.1}|{fmtList r.2}") (partitionCopy p a f l))
      s!"{fmtList (R.filter p)}|{fmtList (R.filter (fun x => !p x))}"
  | "fill" => arr (fill a f l g.v) (R.map (fun _ => g.v))
  | "fill_n" =>
    out (fmtE (fun (r : List E × Nat) => s!"r={r.2} a={fmtList r.1}") (fillN a f l g.n g.v))
      s!"r={f + g.n.toNat} a={fmtList (splice a f (f + g.n.toNat) (List.replicate g.n.toNat g.v))}"
  | "generate" => arr (generate a f l genF) ((List.range R.length).map genF)
  | "generate_n" =>
    out (fmtE (fun (r : List E × Nat) => s!"r={r.2} a={fmtList r.1}") (generateN a f l g.n genF))
      s!"r={f + g.n.toNat} a={fmtList (splice a f (f + g.n.toNat) ((List.range g.n.toNat).map genF))}"
  | "replace" => arr (replace eqf g.v g.w a f l) (C06.Spec.replace (fun x => eqf x g.v) g.w R)
  | "replace_if" => arr (replaceIf p g.w a f l) (C06.Spec.replace p g.w R)
  | "iota" => arr (iota a f l g.v) (C06.Spec.iota R.length g.v)
  | "remove" | "remove_if" | "unique" =>
    let m := if op == "remove" then remove eqf g.v a f l else if op == "remove_if" then removeIf p a f l else unique eqf a f l
    let s := if op == "remove" then C06.Spec.remove (fun x => eqf x g.v) R else if op == "remove_if" then C06.Spec.remove p R else C06.Spec.unique eqf R
    out (fmtE (fun (r : List E × Nat) => s!"r={r.2} a={fmtMask r.1 r.2 l}") m)
      s!"r={f + s.length} a={fmtMask (splice a f l (s ++ R.drop s.length)) (f + s.length) l}"
  | "shift_left" =>
    let m := if g.it == "ptr" then shiftLeftRA a f l g.n else shiftLeftFwd a f l g.n
    let s := C06.Spec.shiftLeft R g.n
    let unspec (r : Nat) := if g.n ≤ 0 || g.n.toNat ≥ l - f then (r, r) else (r, l)
    out (fmtE (fun (r : List E × Nat) => s!"r={r.2} a={fmtMask r.1 (unspec r.2).1 (unspec r.2).2}") m)
      s!"r={f + s.2} a={fmtMask (splice a f l (s.1 ++ R.drop s.1.length)) (unspec (f + s.2)).1 (unspec (f + s.2)).2}"
  | "shift_right" =>
    let s := C06.Spec.shiftRight R g.n
    let unspec (r : Nat) := if g.n ≤ 0 || g.n.toNat ≥ l - f then (r, r) else (f, r)
    let sa := if g.n ≤ 0 || g.n.toNat ≥ l - f then a else splice a f l (R.take s.2 ++ s.1)
    out (fmtE (fun (r : List E × Nat) => s!"r={r.2} a={fmtMask r.1 (unspec r.2).1 (unspec r.2).2}") (shiftRight 0 a f l g.n))
      s!"r={f + s.2} a={fmtMask sa (unspec (f + s.2)).1 (unspec (f + s.2)).2}"
  | "partition" =>
    let s := C06.Spec.stablePartition p R
    out (fmtE (fun (r : List E × Nat) => canonPartition r.1 f l r.2) (partition p a f l))
      (canonPartition (splice a f l s.1) f l (f + s.2))
  | "stable_partition" =>
    let s := C06.Spec.stablePartition p R
    out (fmtE (fun (r : List E × Nat) => s!"r={r.2} a={fmtList r.1}") (stablePartition p a f l))
      s!"r={f + s.2} a={fmtList (splice a f l s.1)}"
  | "sort" | "gnome_sort" | "bubble_sort" | "exchange_sort" =>
    let m := if op == "bubble_sort" then bubbleSort lt a f l else if op == "exchange_sort" then exchangeSort lt a f l
      else gnomeSort lt a f l
    out (fmtE (fun x => canonSort g.cmp x f l) m) (canonSort g.cmp (splice a f l (C06.Spec.stableSort lt R)) f l)
  | "nth_element" =>
    out (fmtE (fun x => canonNth g.cmp x f g.m l) (nthElement lt a f g.m l))
      (canonNth g.cmp (splice a f l (C06.Spec.stableSort lt R)) f g.m l)
  | "partial_sort" =>
    out (fmtE (fun x => canonPartial g.cmp x f g.m l) (partialSort lt a f g.m l))
      (canonPartial g.cmp (splice a f l (C06.Spec.stableSort lt R)) f g.m l)
  | "stable_sort" | "insertion_sort" => arr (insertionSort lt a f l) (C06.Spec.stableSort lt R)
  | "merge_sort" => arr (mergeSort lt a f l) (C06.Spec.stableSort lt R)
  | "inplace_merge" => arr (inplaceMerge lt a f g.m l) (C06.Spec.merge lt (R.take (g.m - f)) (R.drop (g.m - f)))
  | "merge" => lst (merge lt a f l b 0 h) (C06.Spec.merge lt R b)
  | "set_difference" => lst (setDifference lt a f l b 0 h) (C06.Spec.setDifference lt R b)
  | "set_intersection" => lst (setIntersection lt a f l b 0 h) (C06.Spec.setIntersection lt R b)
  | "set_symmetric_difference" => lst (setSymmetricDifference lt a f l b 0 h) (C06.Spec.setSymmetricDifference lt R b)
  | "set_union" => lst (setUnion lt a f l b 0 h) (C06.Spec.setUnion lt R b)
  -- numeric
  | "accumulate" | "reduce" =>
    out (fmtE (fun (r : Int) => s!"r={r}") (accumulate (numOp g.op) g.init a f l)) s!"r={C06.Spec.accumulate (numOp g.op) g.init R}"
  | "inner_product" | "transform_reduce" =>
    let op1 := numOp g.op
    let op2 : Int → Int → Int := if g.op == "dflt" then fun x y => x * y else fun x y => x - 2 * y
    out (fmtE (fun (r : Int) => s!"r={r}") (innerProduct op1 op2 g.init a f l b 0 h)) s!"r={C06.Spec.innerProduct op1 op2 g.init R b}"
  | "transform_reduce1" =>
    out (fmtE (fun (r : Int) => s!"r={r}") (transformReduce1 (numOp g.op) (fun x => 3 * x + 1) g.init a f l))
      s!"r={C06.Spec.accumulate (numOp g.op) g.init (R.map (fun x => 3 * x + 1))}"
  | "partial_sum" => lst (partialSum (numOp g.op) a f l) (C06.Spec.partialSum (numOp g.op) R)
  | "adjacent_difference" =>
    let op : Int → Int → Int := if g.op == "dflt" then fun x y => x - y else numOp g.op
    lst (adjacentDifference op a f l) (C06.Spec.adjacentDifference op R)
  | _ => bad

end Tetl.C02.RangesAlg

namespace Tetl.C02.RangesSpan
open Tetl Tetl.Proto Tetl.C19
open Tetl.C02 (fmtE)

def natsOf (l : List Int) : List Nat := l.map Int.toNat
def intsOf (l : List Nat) : List Int := l.map Int.ofNat
def parsePat (l : List Int) : Pat := l.map (fun x => if x < 0 then none else some x.toNat)
/-- the values of the dynamic positions (what the harness hands to the extents constructor) -/
def dynVals (pat : Pat) (vals : List Int) : List Int := ((pat.zip vals).filter (fun pv => isDyn pv.1)).map (·.2)

def fmtSpan (base : List Int) (s : Span) : Except Err String := do
  let el ← s.elems base
  let e : Int := match s.ext with | some n => n | none => -1
  pure s!"off={s.off} size={s.size} ext={e} el={fmtList el}"

structure SArgs where
  n : Nat
  se : Int
  ct : Nat
  off : Nat
  cnt : Int
  i : Nat

def sargs (l : Line) : Option SArgs :=
  match l.nat? "n", l.int? "se" with
  | some n, some se =>
    let cnt := (l.int? "cnt").getD (-1)
    if cnt < -1 then none else
    some { n := n, se := se, ct := (l.nat? "ct").getD 0, off := (l.nat? "off").getD 0, cnt := cnt, i := (l.nat? "i").getD 0 }
  | _, _ => none

def baseOf (n : Nat) : List Int := (List.range n).map (fun k => ((10 + k : Nat) : Int))

/-- `span.first|last|subspan` — C19 `Span.first/last/subspan` (run-time) and `firstT/lastT/subspanT` (template arguments) -/
def spanSub (op : String) (g : SArgs) : String :=
  let base := baseOf g.n
  let ext : Option Nat := if g.se < 0 then none else some g.se.toNat
  let s0 := Span.make 0 g.n ext
  let cntO : Option Nat := if g.cnt < 0 then none else some g.cnt.toNat
  let c := g.cnt.toNat
  let m : Except Err Span :=
    match op, g.ct with
    | "first", 1 => s0.firstT c
    | "first", _ => s0.first c
    | "last", 1 => s0.lastT c
    | "last", _ => s0.last c
    | "subspan", 1 => s0.subspanT g.off cntO
    | _, _ => s0.subspan g.off cntO
  let (o, k) : Nat × Nat :=
    match op with
    | "first" => (0, c)
    | "last" => (g.n - c, c)
    | _ => (g.off, match cntO with | some x => x | none => g.n - g.off)
  let sext : Int :=
    if g.ct == 0 then -1
    else match op with
      | "subspan" => (match cntO with
          | some x => (x : Int)
          | none => if g.se < 0 then -1 else g.se - g.off)
      | _ => c
  fmtE id (m >>= fmtSpan base) ++ "\t" ++ s!"off={o} size={k} ext={sext} el={fmtList (C19.Spec.subspan base o k)}"

/-- `span.idx|front|back|elems` on `span(base, n).subspan(off, cnt)`: C19 `Span.subspan` + `Span.elems`, element by `rd` -/
def spanAcc (op : String) (g : SArgs) : String :=
  let base := baseOf g.n
  let ext : Option Nat := if g.se < 0 then none else some g.se.toNat
  let cntO : Option Nat := if g.cnt < 0 then none else some g.cnt.toNat
  let k := match cntO with | some x => x | none => g.n - g.off
  let sp := C19.Spec.subspan base g.off k
  let m : Except Err (List Int) := do
    let s ← (Span.make 0 g.n ext).subspan g.off cntO
    s.elems base
  let one (j : Nat) : String :=
    fmtE (fun (x : Int) => s!"r={x}") (m >>= fun el => rd el j) ++ "\t" ++
      (match sp[j]? with | some x => s!"r={x}" | none => "r=none")
  match op with
  | "idx" => one g.i
  | "front" => one 0
  | "back" => one (k - 1)
  | _ =>
    let f (el : List Int) : String :=
      s!"k={el.length} empty={fmtBool el.isEmpty} bytes=1 el={fmtList el}"
    fmtE f m ++ "\t" ++ f sp

def fmtOff (o : Option Int) : String := match o with | some x => toString x | none => "-"

/-- `span.md`: C19 `Ext.ofVals`, `reqSpan`, `mdspanAt` / `StrideMap.mk'`, `mdspanAtStride` at the two corner multi-indices -/
def spanMd (l : Line) : String :=
  let bad := "bad-op\tbad-op"
  let t : IdxT := ⟨32, true⟩
  match l.str? "lay", l.list? "pat", l.natList? "ext" with
  | some lay, some p, some vals =>
    let pat := parsePat p
    if pat.length ≠ vals.length then bad else
    let empty := vals.any (· == 0)
    let lo : List Nat := vals.map (fun _ => 0)
    let hi : List Nat := vals.map (fun v => v - 1)
    let corners (req : String) (at_ : List Int → Except Err Nat) : Except Err String :=
      if empty then pure s!"req={req} lo=- hi=-" else do
        let a ← at_ (intsOf lo)
        let b ← at_ (intsOf hi)
        pure s!"req={req} lo={a} hi={b}"
    let specLine (req : String) (off : List Nat → Nat) : String :=
      if empty then s!"req={req} lo=- hi=-" else s!"req={req} lo={off lo} hi={off hi}"
    let contig (ly : Lay) (off : List Nat → List Nat → Nat) : String :=
      let m : Except Err String := do
        let e ← Ext.ofVals t pat (dynVals pat (intsOf vals))
        let req ← reqSpan ly t e
        corners (toString req) (fun ix => mdspanAt ly t e (List.range req.toNat) ix)
      fmtE id m ++ "\t" ++ specLine (toString (C19.Spec.prod vals)) (off vals)
    match lay with
    | "left" => contig .left C19.Spec.offLeft
    | "right" => contig .right C19.Spec.offRight
    | "stride" =>
      match l.natList? "str", l.natList? "perm" with
      | some str, some perm =>
        if !C19.Spec.StrideOK vals str perm then bad else
        let m : Except Err String := do
          let e ← Ext.ofVals t pat (dynVals pat (intsOf vals))
          let sm ← StrideMap.mk' t e (intsOf str)
          corners "-" (fun ix => mdspanAtStride t sm (List.range (C19.Spec.reqSpanStride vals str)) ix)
        fmtE id m ++ "\t" ++ specLine "-" (C19.Spec.offStride str)
      | _, _ => bad
    | _ => bad
  | _, _, _ => bad

def spanStep (op : String) (l : Line) : String :=
  let bad := "bad-op\tbad-op"
  match op with
  | "md" => spanMd l
  | "first" | "last" | "subspan" =>
    match sargs l with
    | some g => if (op != "subspan" && g.cnt < 0) then bad else spanSub op g
    | none => bad
  | "idx" | "front" | "back" | "elems" =>
    match sargs l with
    | some g => spanAcc op g
    | none => bad
  | _ => bad

end Tetl.C02.RangesSpan

namespace Tetl.C02
open Tetl Tetl.Proto
def stepRanges (l : Line) : Option String :=
  if l.op.startsWith "alg." then some (RangesAlg.algStep (l.op.drop 4).toString l)
  else if l.op.startsWith "span." then some (RangesSpan.spanStep (l.op.drop 5).toString l)
  else none
end Tetl.C02
