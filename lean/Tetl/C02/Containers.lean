import Tetl.Proto
import Tetl.C02.Model
namespace Tetl.C02
open Tetl Tetl.Proto
structure CSt where
  dummy : Unit := ()
def stepContainers (_st : CSt) (_l : Line) : Option (CSt × String) := none
end Tetl.C02
