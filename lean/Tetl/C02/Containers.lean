/- C02, part `containers`: vec.* (C01), set.* (C09), bits.* (C17).

   Nothing is modelled here: every line is replayed on the model of the owning property (first
   column, `err:<e>` when the model reports an out-of-range access / violated precondition — never on
   the valid stream) and on its spec (second column).  A history starts with `<x>.new`:

   vec.new ty=sv|ipv cap=N init=value|default          -> `n=<size> d=[..]`
     vec.push x= | vec.pop | vec.insert pos= x= | vec.insert_fill pos= n= x= | vec.insert_range pos= xs=[..]
     vec.erase pos= | vec.erase_range f= l= | vec.resize n= | vec.assign_fill n= x= | vec.assign_range xs=[..]
     vec.clear | vec.try_push x= | vec.unchecked_push x= | vec.dump      -> `<result>;n=<size> d=[..]`
   set.new kind=ss|fs cap=N init=value|default [cmp=less|greater]   -> `ok n=<size> d=[..]`
     set.insert k= | set.erase k= | set.contains k= | set.find k= | set.lower_bound k= | set.upper_bound k=
     set.erase_range first= last= | set.insert_range ks=[..] | set.clear | set.dump   -> `<result> n=<size> d=[..]`
   bits.new N=<n> init=value|default                    -> `s=<bits N-1..0> c=<count> f=<all><any><none>`
     bits.set pos= v= | bits.reset pos= | bits.flip pos= | bits.set_all | bits.reset_all | bits.flip_all
     bits.from_str s=[..] pos= n=<k|npos> [zero= one=]   -> `ok s=.. c=.. f=...`
     bits.test pos= | bits.count | bits.any | bits.all | bits.none | bits.to_string [zero= one=] -> the value

   A line whose documented precondition does not hold in the current state (never generated) is
   answered `invalid\tinvalid` and executes nothing, like in the owning drivers. -/
import Tetl.Proto
import Tetl.C02.Model
import Tetl.C02.Spec
import Tetl.C01.Model
import Tetl.C01.Step
import Tetl.C01.Spec
import Tetl.C09.Model
import Tetl.C09.Spec
import Tetl.C17.Model
import Tetl.C17.Spec
namespace Tetl.C02
open Tetl Tetl.Proto

/-- the byte pattern the harness writes under every object before it is constructed -/
def POISON : Nat := 0xAAAAAAAAAAAAAAAA

/-- `init=value|default`; `true` = default-initialisation (`::new (p) T;`) -/
def parseDflt (l : Line) : Option Bool :=
  match l.str? "init" with
  | some "value" => some false
  | some "default" => some true
  | _ => none

/-! ### vec.* — Tetl.C01 -/

structure VecSt where
  sys : C01.Sys
  spec : C01.Spec.SSys
  poisoned : Bool      -- indeterminate size: nothing may be executed on the object

def fmtVOut : C01.Out → String
  | .unit => "ok"
  | .it n => s!"it={n}"
  | .count n => s!"cnt={n}"
  | .ptr none => "null"
  | .ptr (some x) => s!"ptr={x}"
  | .ref x => s!"ref={x}"
  | .rels bs => "rel=" ++ String.join (bs.map fmtBool)
  -- results of C01's named-rvalue operations (`Op.pushMv` …): no `vec.*` line maps to them (parseVecOp), never produced here
  | .unitArg _ => "ok"
  | .itArg n _ => s!"it={n}"
  | .ptrArg none _ => "null"
  | .ptrArg (some x) _ => s!"ptr={x}"
  | .refArg x _ => s!"ref={x}"

def fmtVec (d : List Nat) : String := s!"n={d.length} d={fmtNatList d}"

def parseVecTy (l : Line) : Option (C01.Ty × ObjTy) :=
  match l.str? "ty" with
  | some "sv" => some (.sv, .sv)
  | some "ipv" => some (.ipv, .ipv)
  | _ => none

def parseVecOp (l : Line) : Option C01.Op :=
  let x := l.nat? "x"
  let pos := l.nat? "pos"
  let n := l.nat? "n"
  let xs := l.natList? "xs"
  match l.op with
  | "vec.push" => x.map (C01.Op.push 0)
  | "vec.pop" => some .pop
  | "vec.insert" => do some (.insert1 0 (← pos) (← x))
  | "vec.insert_fill" => do some (.insertFill (← pos) (← n) (← x))
  | "vec.insert_range" => do some (.insertRange (← pos) (← xs))
  | "vec.erase" => pos.map C01.Op.erase
  | "vec.erase_range" => do some (.eraseRange (← l.nat? "f") (← l.nat? "l"))
  | "vec.resize" => n.map C01.Op.resize
  | "vec.assign_fill" => do some (.assignFill (← n) (← x))
  | "vec.assign_range" => xs.map C01.Op.assignRange
  | "vec.clear" => some .clear
  | "vec.try_push" => x.map (C01.Op.tryPush 0)
  | "vec.unchecked_push" => x.map (C01.Op.unchecked 0)
  | "vec.dump" => some .dump
  | _ => none

def vecNew (l : Line) : Option (VecSt × String) :=
  match parseVecTy l, l.nat? "cap", parseDflt l with
  | some (ty, oty), some cap, some dflt =>
    let s := C01.Sys.init ty cap .triv
    let sp := C01.Spec.SSys.init cap
    -- what `size()` reads: the initializer of the size member, or the storage bytes truncated to its width
    let n0 := if dflt then initSize oty cap (C01.wrap cap POISON) else C01.initSize ty cap .value
    let specStr := s!"n={Spec.initSize oty cap} d=[]"
    if n0 = 0 then
      some ({ sys := s, spec := sp, poisoned := false }, fmtVec [] ++ "\t" ++ specStr)
    else
      some ({ sys := s, spec := sp, poisoned := true }, s!"n={n0} d=?" ++ "\t" ++ specStr)
  | _, _, _ => none

def vecStep (v : VecSt) (l : Line) : VecSt × String :=
  if v.poisoned then (v, "invalid\tinvalid") else
  match parseVecOp l with
  | none => (v, "bad-op\tbad-op")
  | some op =>
    -- validity is judged on the spec state (`C01.Spec.valid`, the hypothesis of `C01.Props.history_refines`);
    -- the model-state precondition follows from it (`C01.Props.valid_of_spec`) and is evaluated as well so
    -- that a disagreement would be visible (as in Tetl.C01.Driver)
    if !C01.Spec.valid v.sys.ty v.spec 0 op then (v, "invalid\tinvalid") else
    if !C01.valid v.sys 0 op then (v, "err:spec-valid but not model-valid\t*") else
    let r := C01.Spec.step v.spec 0 op
    let specStr := match r.2, C01.Spec.getObj r.1 0 with
      | some o, some d => fmtVOut o ++ ";" ++ fmtVec d
      | _, _ => "*"
    let m := C01.step v.sys 0 op
    let ms := fmtE (fun (p : C01.Sys × C01.Out) => fmtVOut p.2 ++ ";" ++ fmtVec (p.1.objs.getD 0 [])) m
    match m with
    | .ok (s', _) => ({ v with sys := s', spec := r.1 }, ms ++ "\t" ++ specStr)
    | .error _ => ({ v with spec := r.1 }, ms ++ "\t" ++ specStr)

/-! ### set.* — Tetl.C09 -/

structure SetSt where
  kind : C09.Kind
  lt : Nat → Nat → Bool
  cap : Nat
  model : Except Err (C09.St Nat)
  spec : C09.St Nat

def setCmp : Option String → Option (Nat → Nat → Bool)
  | none | some "less" => some (fun a b => decide (a < b))
  | some "greater" => some (fun a b => decide (a > b))
  | _ => none

def setKind (l : Line) : Option (C09.Kind × ObjTy) :=
  match l.str? "kind" with
  | some "ss" => some (.ss, .ss)
  | some "fs" => some (.fs, .fs)
  | _ => none

def fmtIns : C09.InsRes → String
  | .inserted p => s!"ins({p},1)"
  | .exists_ p => s!"ins({p},0)"
  | .full => "full"

def fmtSOut : C09.Out Nat → String
  | .ins r => fmtIns r
  | .unit => "ok"
  | .num n => toString n
  | .flag b => fmtBool b
  | .pair a b => s!"{a}:{b}"
  | .elems l => fmtNatList l

def fmtSet (l : List Nat) : String := s!" n={l.length} d={fmtNatList l}"

/-- The C02 stream only uses the `key_type const&` overloads (`C09.Op.lookup`); the heterogeneous-key
    parameter of the C09 model is instantiated like in the C09 driver (key compared through its payload). -/
abbrev SetOp := C09.Op Nat Nat
def setHet (lt : Nat → Nat → Bool) : C09.Het Nat Nat := { ek := fun x k => lt x k, ke := fun k x => lt k x }

def parseSetOp (l : Line) : Option SetOp :=
  let k := l.nat? "k"
  match l.op with
  | "set.insert" => k.map .insert
  | "set.insert_range" => (l.natList? "ks").map .insertRange
  | "set.erase" => k.map .eraseKey
  | "set.erase_range" => do some (.eraseRange (← l.nat? "first") (← l.nat? "last"))
  | "set.clear" => some .clear
  | "set.find" => k.map (.lookup .find)
  | "set.contains" => k.map (.lookup .contains)
  | "set.lower_bound" => k.map (.lookup .lowerBound)
  | "set.upper_bound" => k.map (.lookup .upperBound)
  | _ => none

def setNew (l : Line) : Option (SetSt × String) :=
  match setKind l, setCmp (l.str? "cmp"), l.nat? "cap", parseDflt l with
  | some (kind, oty), some lt, some cap, some dflt =>
    let n0 := if dflt then initSize oty cap (C01.wrap cap POISON) else 0
    let e : C09.St Nat := { cur := [], other := [] }
    let ms := if n0 = 0 then "ok" ++ fmtSet [] else s!"ok n={n0} d=?"
    some ({ kind := kind, lt := lt, cap := cap, model := .ok e, spec := e },
      ms ++ "\t" ++ s!"ok n={Spec.initSize oty cap} d=[]")
  | _, _, _, _ => none

def setStep (sv : SetSt) (l : Line) : SetSt × String :=
  if l.op == "set.dump" then
    (sv, fmtE (fun (x : C09.St Nat) => "ok" ++ fmtSet x.cur) sv.model ++ "\t" ++ "ok" ++ fmtSet sv.spec.cur)
  else
  match parseSetOp l with
  | none => (sv, "bad-op\tbad-op")
  | some op =>
    if !C09.Spec.valid sv.cap sv.lt sv.spec op then (sv, "invalid\tinvalid") else
    let m : Except Err (C09.St Nat × C09.Out Nat) := do
      let x ← sv.model
      C09.step sv.kind sv.lt (setHet sv.lt) sv.cap x op
    let ms := fmtE (fun (p : C09.St Nat × C09.Out Nat) => fmtSOut p.2 ++ fmtSet p.1.cur) m
    let (s', o) := C09.Spec.step (sv.kind == .ss) sv.lt (setHet sv.lt) sv.cap sv.spec op
    ({ sv with model := m.map (·.1), spec := s' }, ms ++ "\t" ++ fmtSOut o ++ fmtSet s'.cur)

/-! ### bits.* — Tetl.C17; `etl::bitset<N>` is `basic_bitset<N, size_t>`: 64-bit words, `k = 6` -/

def BK : Nat := 6

structure BitsSt where
  N : Nat
  m : Except Err (C17.Words BK)   -- `_words` of the one live object
  s : Array Bool                  -- the spec object as the table of its bits [0, N)

def bitsOfTable (a : Array Bool) : C17.Spec.Bits := fun i => if h : i < a.size then a[i] else false
def bitsTable (N : Nat) (b : C17.Spec.Bits) : Array Bool := (Array.range N).map b

def bitsStr (l : List Bool) : String := String.ofList (l.map fun b => if b then '1' else '0')

/-- the observable state through the model's own accessors (as Tetl.C17.Driver.dumpM) -/
def dumpBM (N : Nat) (ws : C17.Words BK) : Except Err String := do
  let bits ← (List.range N).reverse.mapM (fun i => C17.test N ws i)
  let a ← C17.all N ws
  .ok s!"s={bitsStr bits} c={C17.count ws} f={fmtBool a}{fmtBool (C17.any ws)}{fmtBool (C17.none ws)}"

def dumpBS (N : Nat) (b : C17.Spec.Bits) : String :=
  let bits := (List.range N).reverse.map (C17.Spec.test b)
  s!"s={bitsStr bits} c={C17.Spec.count N b} f={fmtBool (C17.Spec.all N b)}{fmtBool (C17.Spec.any N b)}{fmtBool (C17.Spec.none N b)}"

def bitsNew (l : Line) : Option (BitsSt × String) :=
  match l.nat? "N", parseDflt l with
  | some N, some dflt =>
    if N = 0 then none else
    -- `_words{}`: the words have an initializer, whatever the storage held
    let n0 := if dflt then initSize .bits N POISON else 0
    let ws : C17.Words BK := if n0 = 0 then C17.Store.init N BK 0 else List.replicate (C17.numWords N BK) (BitVec.ofNat _ n0)
    some ({ N := N, m := .ok ws, s := bitsTable N (C17.Spec.Store.init 0) },
      fmtE id (dumpBM N ws) ++ "\t" ++ dumpBS N (C17.Spec.Store.init 0))
  | _, _ => none

def parseBitsMut (l : Line) : Option C17.Op :=
  match l.op with
  | "bits.set_all" => some (.setAll 0)
  | "bits.reset_all" => some (.resetAll 0)
  | "bits.flip_all" => some (.flipAll 0)
  | "bits.set" => do pure (.set 0 (← l.nat? "pos") ((← l.nat? "v") != 0))
  | "bits.reset" => (l.nat? "pos").map (.reset 0)
  | "bits.flip" => (l.nat? "pos").map (.flip 0)
  | "bits.from_str" => do
    let n ← match l.pos? "n" with
      | some none => some C17.NPOS
      | some (some n) => some n
      | none => none
    pure (.fromStr 0 (← l.natList? "s") (← l.nat? "pos") n ((l.nat? "zero").getD 48) ((l.nat? "one").getD 49))
  | _ => none

/-- documented precondition of a mutating bitset member -/
def bitsValid (N : Nat) : C17.Op → Bool
  | .set _ pos _ | .reset _ pos | .flip _ pos => pos < N
  | .fromStr _ str pos _ z o => pos ≤ str.length && str.all (fun c => c == z || c == o)
  | _ => true

def bitsMut (b : BitsSt) (op : C17.Op) : BitsSt × String :=
  if !bitsValid b.N op then (b, "invalid\tinvalid") else
  let m' : Except Err (C17.Words BK) := do
    let ws ← b.m
    let r ← C17.step b.N (fun _ => ws) op
    pure (r 0)
  let s' := bitsTable b.N (C17.Spec.step b.N (fun _ => bitsOfTable b.s) op 0)
  let mo := do
    let ws ← m'
    dumpBM b.N ws
  ({ b with m := m', s := s' }, fmtE (fun d => "ok " ++ d) mo ++ "\t" ++ "ok " ++ dumpBS b.N (bitsOfTable s'))

def bitsQuery (b : BitsSt) (l : Line) : Option String :=
  let sb := bitsOfTable b.s
  let out (m : Except Err String) (s : String) : Option String := some (fmtE id m ++ "\t" ++ s)
  match l.op with
  | "bits.test" =>
    match l.nat? "pos" with
    | some pos =>
      if pos ≥ b.N then some "invalid\tinvalid" else
      out (do let ws ← b.m; let r ← C17.test b.N ws pos; pure (fmtBool r)) (fmtBool (C17.Spec.test sb pos))
    | none => some "bad-op\tbad-op"
  | "bits.count" => out (do let ws ← b.m; pure (toString (C17.count ws))) (toString (C17.Spec.count b.N sb))
  | "bits.any" => out (do let ws ← b.m; pure (fmtBool (C17.any ws))) (fmtBool (C17.Spec.any b.N sb))
  | "bits.none" => out (do let ws ← b.m; pure (fmtBool (C17.none ws))) (fmtBool (C17.Spec.none b.N sb))
  | "bits.all" => out (do let ws ← b.m; let r ← C17.all b.N ws; pure (fmtBool r)) (fmtBool (C17.Spec.all b.N sb))
  | "bits.to_string" =>
    let z := (l.nat? "zero").getD 48
    let o := (l.nat? "one").getD 49
    out (do let ws ← b.m; let r ← C17.toStr b.N ws z o b.N; pure (fmtNatList r)) (fmtNatList (C17.Spec.toStr b.N sb z o))
  | _ => none

def bitsStep (b : BitsSt) (l : Line) : BitsSt × String :=
  match bitsQuery b l with
  | some o => (b, o)
  | none =>
    match parseBitsMut l with
    | some op => bitsMut b op
    | none => (b, "bad-op\tbad-op")

/-! ### the part -/

structure CSt where
  vec : Option VecSt := none
  set : Option SetSt := none
  bits : Option BitsSt := none

def stepContainers (st : CSt) (l : Line) : Option (CSt × String) :=
  let bad : Option (CSt × String) := some (st, "bad-op\tbad-op")
  if l.op.startsWith "vec." then
    if l.op == "vec.new" then
      match vecNew l with
      | some (v, o) => some ({ st with vec := some v }, o)
      | none => bad
    else match st.vec with
      | some v => let (v', o) := vecStep v l; some ({ st with vec := some v' }, o)
      | none => bad
  else if l.op.startsWith "set." then
    if l.op == "set.new" then
      match setNew l with
      | some (s, o) => some ({ st with set := some s }, o)
      | none => bad
    else match st.set with
      | some s => let (s', o) := setStep s l; some ({ st with set := some s' }, o)
      | none => bad
  else if l.op.startsWith "bits." then
    if l.op == "bits.new" then
      match bitsNew l with
      | some (b, o) => some ({ st with bits := some b }, o)
      | none => bad
    else match st.bits with
      | some b => let (b', o) := bitsStep b l; some ({ st with bits := some b' }, o)
      | none => bad
  else none

end Tetl.C02
