/- C02 line-protocol driver: prints `model <TAB> spec` for each case line.  The operations are split
   by clause of the property like the harness (harness/c02.cpp):
     Containers.lean   vec.* str.* set.* bits.*   histories, `new` starts one
     Ranges.lean       sv.* alg.* span.*
     Text.lean         cc.* cs.* num.* chr.*
   Every model call is a call of the owning property's model; the spec column is its spec. -/
import Tetl.Proto
import Tetl.C02.Containers
import Tetl.C02.Ranges
import Tetl.C02.Text
namespace Tetl.C02.Driver
open Tetl Tetl.Proto

def step (st : CSt) (l : Line) : CSt × String :=
  match stepContainers st l with
  | some r => r
  | none =>
    match stepRanges l with
    | some o => (st, o)
    | none =>
      match stepText l with
      | some o => (st, o)
      | none => (st, "bad-op\tbad-op")

end Tetl.C02.Driver

def main : IO Unit := Tetl.Proto.runDriver ({} : Tetl.C02.CSt) Tetl.C02.Driver.step
