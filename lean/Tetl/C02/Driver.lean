/- placeholder: the C02 driver is not built yet -/
def main : IO Unit := IO.println "C02: driver not built yet"
