/- C02 line-protocol driver: prints `model <TAB> spec` for each case line.  The operations are split
   by clause of the property like the harness (harness/c02.cpp):
     Containers.lean   vec.* set.* bits.*   histories, `<x>.new` starts one
     Strings.lean      str.* sv.*           inplace_string histories, string_view
     Ranges.lean       alg.* span.*
     Text.lean         cc.* cs.* num.* chr.*
   Every model call is a call of the owning property's model; the spec column is its spec. -/
import Tetl.Proto
import Tetl.C02.Containers
import Tetl.C02.Strings
import Tetl.C02.Ranges
import Tetl.C02.Text
namespace Tetl.C02.Driver
open Tetl Tetl.Proto

structure St where
  c : CSt := {}
  s : SSt := {}

def step (st : St) (l : Line) : St × String :=
  match stepContainers st.c l with
  | some (c, o) => ({ st with c := c }, o)
  | none =>
  match stepStrings st.s l with
  | some (s, o) => ({ st with s := s }, o)
  | none =>
    match stepRanges l with
    | some o => (st, o)
    | none =>
      match stepText l with
      | some o => (st, o)
      | none => (st, "bad-op\tbad-op")

end Tetl.C02.Driver

def main : IO Unit := Tetl.Proto.runDriver ({} : Tetl.C02.Driver.St) Tetl.C02.Driver.step
