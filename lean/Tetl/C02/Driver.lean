/- placeholder while the C02 driver is being updated to the current models of the other properties (see *.lean.pending) -/
def main : IO Unit := IO.println "C02: driver being updated"
