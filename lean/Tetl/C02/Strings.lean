/-
C02 part `strings` — `str.*` (etl::basic_inplace_string histories) and `sv.*` (etl::basic_string_view).

No model of its own: every `str.*` line is replayed on the C04 model (`Tetl.C04.Str`, `Str.step`, `Op`, `Arg`,
`Tetl.C04.Spec.step/valid/fits`) and every `sv.*` line on the C08 model (`Tetl.C08.*`, `Tetl.C08.Spec.*`), with the line
conventions of their drivers (Tetl/C04/Driver.lean, Tetl/C08/Driver.lean; those files define `main` and cannot be imported,
so their dispatch is repeated here).  The only difference: a model error is printed as `err:<e>` — on the valid stream of
C02 it must never occur ("the model never returns .error on valid input" is the memory-safety statement).

  str.new cap=<n> init=value|default [ct=..]   two empty strings obj 0 / obj 1 (the harness places each on an exact-size heap chunk)
  str.<family> obj=<k> ov=<overload> args…      as in C04; output `<ret> <state obj k> <state other>`, state = `size:[units]:nul`
  str.c_str obj=<k>                             `c_str()==data()` and `data()[size()]==0`
  sv.<member> …                                 as in C08
-/
import Tetl.Proto
import Tetl.C02.Model
import Tetl.C04.Model
import Tetl.C04.Spec
import Tetl.C08.Model
import Tetl.C08.Spec

namespace Tetl.C02.StrDrv
open Tetl Tetl.Proto Tetl.C04

structure St where
  cap : Nat
  m0 : Str
  m1 : Str
  s0 : Spec.Str
  s1 : Spec.Str

/-- a model error is never expected on the valid stream of C02: it is printed as `err:<e>` -/
def fmtErr (e : Err) : String := "err:" ++ e.fmt

/-- `size:[data]:nul` of a model object -/
def mState (s : Str) : String :=
  match s.size with
  | .error e => fmtErr e
  | .ok n =>
    match rd s.buf n with
    | .error e => s!"{n}:{fmtErr e}"
    | .ok t => s!"{n}:{fmtNatList (s.buf.take n)}:{fmtBool (t == 0)}"

def sState (l : Spec.Str) : String := s!"{l.length}:{fmtNatList l}:1"

def mInv (s : Str) : Bool :=
  match s.size with
  | .error _ => false
  | .ok n => n ≤ s.cap && (match rd s.buf n with | .ok t => t == 0 | .error _ => false)

def mAbs (s : Str) : Spec.Str :=
  match s.chars with
  | .ok l => l
  | .error _ => []

def posArg (l : Line) (k : String) (dflt : Option Nat := none) : Option Nat :=
  match l.pos? k with
  | some none => some NPOS
  | some (some n) => some n
  | none => if (l.get? k).isNone then dflt else none

def fmtRet : Option Nat → String
  | none => "-"
  | some n => toString n

def fmtP (r : Option Nat) : String := fmtPos r

/-- parse the sequence argument of an overload -/
def parseArg (l : Line) (ov : String) : Option Arg :=
  match ov with
  | "ptrn" => do some (.ptrn (← l.natList? "s") (← l.nat? "n"))
  | "cstr" => do some (.cstr (← l.natList? "s"))
  | "range" => do some (.range (← l.natList? "s"))
  | "view" => do some (.view (← l.natList? "s"))
  | "viewsub" => do some (.viewsub (← l.natList? "s") (← posArg l "pos2") (← posArg l "count2" (some NPOS)))
  | "str" => some .str
  | "strsub" => do some (.strsub (← posArg l "pos2") (← posArg l "count2" (some NPOS)))
  | "strsubv" => do some (.strsubv (← posArg l "pos2") (← posArg l "count2" (some NPOS)))
  | "ch" => do some (.ch (← l.nat? "ch"))
  | _ => none

structure Sel where
  k : Nat
  m : Str
  o : Str
  s : Spec.Str
  so : Spec.Str

def St.sel (st : St) (k : Nat) : Sel :=
  if k == 0 then ⟨0, st.m0, st.m1, st.s0, st.s1⟩ else ⟨1, st.m1, st.m0, st.s1, st.s0⟩

def St.put (st : St) (k : Nat) (m : Str) (s : Spec.Str) : St :=
  if k == 0 then { st with m0 := m, s0 := s } else { st with m1 := m, s1 := s }

def bad (st : Option St) : Option St × String := (st, "bad-op\tbad-op")

/-- a mutating step: model op / spec op (they differ only in how the argument array is represented) -/
def mutateR (st : St) (x : Sel) (modelRes : Except Err (Str × Option Nat)) (sop : Option Op) : Option St × String :=
  let specOut : String × Option (Spec.Str × Bool) :=      -- (text, new spec state / clamp flag)
    match sop with
    | none => ("pre", none)
    | some op =>
      if !Spec.valid x.s op then ("pre", none)
      else if !Spec.fits st.cap x.s op then
        (if Spec.isAssign op then ("pre", none) else ("clamp inv=1", some ([], true)))
      else
        let r := Spec.step x.s op
        (s!"{fmtRet r.2} {sState r.1} {sState x.so}", some (r.1, false))
  match modelRes, specOut with
  | .error e, (txt, _) => (some st, fmtErr e ++ "\t" ++ txt)
  | .ok (m', r), (txt, none) =>
    -- spec says pre, model executed: report the model state, keep the old state
    (some st, s!"{fmtRet r} {mState m'} {mState x.o}" ++ "\t" ++ txt)
  | .ok (m', _), (txt, some (_, true)) =>
    (some (st.put x.k m' (mAbs m')), s!"clamp inv={fmtBool (mInv m')}" ++ "\t" ++ txt)
  | .ok (m', r), (txt, some (s', false)) =>
    (some (st.put x.k m' s'), s!"{fmtRet r} {mState m'} {mState x.o}" ++ "\t" ++ txt)

def mutate (st : St) (x : Sel) (mop : Except Err Op) (sop : Option Op) : Option St × String :=
  mutateR st x (do let op ← mop; x.m.step op) sop

/-- a query: the model result and the spec result as text; states are appended -/
def query (st : St) (x : Sel) (m : Except Err String) (s : Option String) : Option St × String :=
  let mt := match m with
    | .ok t => s!"{t} {mState x.m} {mState x.o}"
    | .error e => fmtErr e
  let stx := match s with
    | some t => s!"{t} {sState x.s} {sState x.so}"
    | none => "pre"
  (some st, mt ++ "\t" ++ stx)

def rels6 (c : Int) : String :=
  String.join [fmtBool (c == 0), fmtBool (c != 0), fmtBool (c < 0), fmtBool (c ≤ 0), fmtBool (c > 0), fmtBool (c ≥ 0)]

def srcOp (f : Units → Nat → Nat → Op) (a : Except Err Src) : Except Err Op := do
  let s ← a
  .ok (f s.arr s.off s.len)
def denOp (f : Units → Nat → Nat → Op) (d : Option Spec.Str) : Option Op :=
  d.map fun l => f l 0 l.length

/-- result string of `substr` / `operator+` as text -/
def resultStr (cap : Nat) (m : Except Err Str) (s : Option Spec.Str) (assignLike : Bool) : Except Err String × Option String :=
  match s with
  | none => (m.map mState, none)
  | some l =>
    if l.length > cap then
      if assignLike then (m.map mState, none)
      else (m.map fun r => s!"clamp inv={fmtBool (mInv r)}", some "clamp inv=1")
    else (m.map mState, some (sState l))

def step (st? : Option St) (l : Line) : Option St × String :=
  if l.op == "new" then
    match l.nat? "cap" with
    | some cap => (some ⟨cap, Str.mk0 cap, Str.mk0 cap, [], []⟩, s!"new {mState (Str.mk0 cap)}\tnew 0:[]:1")
    | none => bad st?
  else
  match st? with
  | none => bad st?
  | some st =>
  let k := (l.nat? "obj").getD 0
  let x := st.sel k
  let ov := (l.str? "ov").getD ""
  let arg := parseArg l ov
  let h := x.m.chars
  -- needle of a search/compare overload: (model view, spec view)
  let needle : Option (Except Err Units × Option Spec.Str) :=
    arg.map fun a => ((do let s ← a.src x.o; .ok ((s.arr.drop s.off).take s.len)), a.den x.so)
  match l.op with
  | "state" => query st x (.ok "-") (some "-")
  | "raw" => (some st, s!"{fmtNatList x.m.buf}\t*")
  | "info" =>
    query st x (do let n ← x.m.size; .ok s!"{fmtBool (n == 0)}{fmtBool (n == st.cap)} {n} {st.cap}")
      (some s!"{fmtBool (x.s.length == 0)}{fmtBool (x.s.length == st.cap)} {x.s.length} {st.cap}")
  | "at" =>
    match l.nat? "pos" with
    | some p => query st x (do .ok (toString (← x.m.at p)))
        (if p > x.s.length then none else some (toString ((x.s ++ [0])[p]?.getD 0)))
    | none => bad st?
  | "front" => query st x (do .ok (toString (← x.m.front))) (x.s.head?.map toString)
  | "back" => query st x (do .ok (toString (← x.m.back))) (x.s.getLast?.map toString)
  | "c_str" =>
    -- `c_str() == data()` and `data()[size()] == 0`, read through the object only
    query st x (do let n ← x.m.size; let t ← rd x.m.buf n; .ok (fmtBool (t == 0))) (some "1")
  | "assign" | "opassign" | "ctor" =>
    if ov == "fill" then
      match l.nat? "count", l.nat? "ch" with
      | some c, some ch => mutate st x (.ok (.assignFill c ch)) (some (.assignFill (min c (st.cap + 1)) ch))
      | _, _ => bad st?
    else if ov == "copy" || ov == "str" then
      -- `*this = str` / copy constructor: the defaulted copy of the whole object (both strings have one capacity)
      mutateR st x (.ok (x.o, none)) (denOp .assignPtr (Arg.den x.so .str))
    else if ov == "strpos" then       -- ctor(other, pos) = other.substr(pos, other.size())
      match posArg l "pos2" with
      | some p =>
        let a := Arg.strsub p x.so.length
        let am := (do let n ← x.o.size; Arg.src x.o (.strsub p n))
        mutate st x (srcOp .assignPtr am) (denOp .assignPtr (a.den x.so))
      | none => bad st?
    else match arg with
      | some a => mutate st x (srcOp .assignPtr (a.src x.o)) (denOp .assignPtr (a.den x.so))
      | none => bad st?
  | "clear" => mutate st x (.ok .clear) (some .clear)
  | "push_back" =>
    match l.nat? "ch" with
    | some c => mutate st x (.ok (.pushBack c)) (some (.pushBack c))
    | none => bad st?
  | "pop_back" => mutate st x (.ok .popBack) (some .popBack)
  | "append" | "pluseq" =>
    if ov == "fill" then
      match posArg l "count", l.nat? "ch" with
      | some c, some ch => mutate st x (.ok (.appendFill c ch)) (some (.appendFill (min c (st.cap + 1)) ch))
      | _, _ => bad st?
    else if ov == "ch" then
      match l.nat? "ch" with
      | some ch => mutate st x (.ok (.appendFill 1 ch)) (some (.appendFill 1 ch))
      | none => bad st?
    else match arg with
      | some a =>
        -- append(first,last), append(str), append(str,pos,count) push_back one by one; the others copy
        let viaRange := ov == "range" || ov == "str" || ov == "strsub"
        let f := if viaRange then Op.appendRange else Op.appendPtrN
        mutate st x (srcOp f (a.src x.o)) (denOp f (a.den x.so))
      | none => bad st?
  | "insert" =>
    match l.nat? "idx" with
    | none => bad st?
    | some idx =>
      if ov == "fill" then
        match l.nat? "count", l.nat? "ch" with
        | some c, some ch => mutate st x (.ok (.insertFill idx c ch)) (some (.insertFill idx (min c (st.cap + 1)) ch))
        | _, _ => bad st?
      else match arg with
        | some a => mutate st x (srcOp (.insertImpl idx) (a.src x.o)) (denOp (.insertImpl idx) (a.den x.so))
        | none => bad st?
  | "erase" =>
    match ov with
    | "idx" =>
      match posArg l "idx" (some 0), posArg l "count" (some NPOS) with
      | some i, some c => mutate st x (.ok (.eraseIdx i c)) (some (.eraseIdx i c))
      | _, _ => bad st?
    | "it" =>
      match l.nat? "pos" with
      | some p => mutate st x (.ok (.eraseIt p)) (some (.eraseIt p))
      | none => bad st?
    | "range" =>
      match l.nat? "first", l.nat? "last" with
      | some f, some la => mutate st x (.ok (.eraseRange f la)) (some (.eraseRange f la))
      | _, _ => bad st?
    | _ => bad st?
  | "erase_value" =>
    match l.nat? "ch" with
    | some v => mutate st x (.ok (.eraseValue v)) (some (.eraseValue v))
    | none => bad st?
  | "resize" =>
    match posArg l "count", l.nat? "ch" with
    | some c, ch => mutate st x (.ok (.resize c (ch.getD 0))) (some (.resize (min c (st.cap + 1)) (ch.getD 0)))
    | _, _ => bad st?
  | "swap" =>
    match x.m.swap x.o with
    | .error e => (some st, fmtErr e ++ "\t" ++ s!"- {sState x.so} {sState x.s}")
    | .ok (a, b) =>
      let st' := (st.put x.k a x.so).put (1 - x.k) b x.s
      (some st', s!"- {mState a} {mState b}" ++ "\t" ++ s!"- {sState x.so} {sState x.s}")
  | "substr" =>
    match posArg l "pos" (some 0), posArg l "count" (some NPOS) with
    | some p, some c =>
      let r := resultStr st.cap (x.m.substr p c) (if p > x.s.length then none else some (Spec.substr x.s p c)) true
      query st x r.1 r.2
    | _, _ => bad st?
  | "copy" =>
    match posArg l "count", posArg l "pos" (some 0) with
    | some c, some p =>
      query st x (do let r ← x.m.copyTo c p; .ok s!"{r.1}:{fmtNatList r.2}")
        (if p > x.s.length then none else let r := Spec.substr x.s p c; some s!"{r.length}:{fmtNatList r}")
    | _, _ => bad st?
  | "plus" =>
    match ov with
    | "strstr" =>
      let m := do let s ← Arg.src x.o .str; appendRange s.arr s.len s.off x.m
      let r := resultStr st.cap m (some (x.s ++ x.so)) false
      query st x r.1 r.2
    | "strcstr" =>
      match l.natList? "s" with
      | some s =>
        let m := do let a ← Arg.src x.o (.cstr s); x.m.appendPtrN a
        let r := resultStr st.cap m (some (x.s ++ s.takeWhile (· ≠ 0))) false
        query st x r.1 r.2
      | none => bad st?
    | "strch" =>
      match l.nat? "ch" with
      | some c =>
        let r := resultStr st.cap (x.m.appendFill 1 c) (some (x.s ++ [c])) false
        query st x r.1 r.2
      | none => bad st?
    | "cstrstr" =>
      match l.natList? "s" with
      | some s =>
        let lhs := s.takeWhile (· ≠ 0)
        let m := do
          let a ← Arg.src x.o (.cstr s)
          let t ← ctorPtrLen st.cap a.arr a.off a.len
          let n ← x.m.size
          appendRange x.m.buf n 0 t
        if lhs.length > st.cap then query st x (m.map mState) none
        else
          let r := resultStr st.cap m (some (lhs ++ x.s)) false
          query st x r.1 r.2
      | none => bad st?
    | "chstr" =>
      match l.nat? "ch" with
      | some c =>
        let m := do
          let t ← ctorFill st.cap 1 c
          let n ← x.m.size
          appendRange x.m.buf n 0 t
        if 1 > st.cap then query st x (m.map mState) none
        else
          let r := resultStr st.cap m (some (c :: x.s)) false
          query st x r.1 r.2
      | none => bad st?
    | _ => bad st?
  | "compare" =>
    let p1 := posArg l "pos"
    let c1 := posArg l "count"
    let p2 := posArg l "pos2"
    let c2 := posArg l "count2" (some NPOS)
    let sgn (i : Int) : String := fmtSign i
    match ov with
    | "str" | "cstr" | "view" =>
      match needle with
      | some (nm, ns) => query st x (do .ok (sgn (← C08.compare (← h) (← nm)))) (ns.map fun n => sgn (C08.Spec.cmp x.s n))
      | none => bad st?
    | "str3" | "cstr3" | "ptrn4" | "view3" =>
      let a : Option Arg := match ov with
        | "str3" => some .str
        | "cstr3" => (l.natList? "s").map .cstr
        | "ptrn4" => do some (.ptrn (← l.natList? "s") (← l.nat? "n"))
        | _ => (l.natList? "s").map .view
      match a, p1, c1 with
      | some a, some p1, some c1 =>
        let nm : Except Err Units := do let s ← a.src x.o; .ok ((s.arr.drop s.off).take s.len)
        let m := do
          let hh ← h
          let n ← nm
          if ov == "view3" then C08.compare3 hh p1 c1 n else compare3 hh p1 c1 n
        let s := do
          let n ← a.den x.so
          if p1 > x.s.length then none else some (sgn (C08.Spec.cmp (Spec.substr x.s p1 c1) n))
        query st x (m.map sgn) s
      | _, _, _ => bad st?
    | "str5" | "view5" =>
      let a : Option Arg := if ov == "str5" then some .str else (l.natList? "s").map .view
      match a, p1, c1, p2, c2 with
      | some a, some p1, some c1, some p2, some c2 =>
        let nm : Except Err Units := do let s ← a.src x.o; .ok ((s.arr.drop s.off).take s.len)
        let m := do
          let hh ← h
          let n ← nm
          if ov == "view5" then C08.compare5 hh p1 c1 n p2 c2 else compare5 hh p1 c1 n p2 c2
        let s := do
          let n ← a.den x.so
          if p1 > x.s.length || p2 > n.length then none
          else some (sgn (C08.Spec.cmp (Spec.substr x.s p1 c1) (Spec.substr n p2 c2)))
        query st x (m.map sgn) s
      | _, _, _, _, _ => bad st?
    | _ => bad st?
  | "rel" =>
    match ov with
    | "strstr" =>
      query st x (do .ok (rels6 (← C08.compare (← h) (← x.o.chars)))) (some (rels6 (C08.Spec.cmp x.s x.so)))
    | "strcstr" | "cstrstr" =>
      match l.natList? "s" with
      | some s =>
        let n := s.takeWhile (· ≠ 0)
        let flip := ov == "cstrstr"
        let m := do
          let a ← Arg.src x.o (.cstr s)
          let c ← C08.compare (← h) ((a.arr.drop a.off).take a.len)
          .ok (rels6 (if flip then -c else c))
        let c := C08.Spec.cmp x.s n
        query st x m (some (rels6 (if flip then -c else c)))
      | none => bad st?
    | _ => bad st?
  | "starts_with" | "ends_with" | "contains" =>
    match needle with
    | none => bad st?
    | some (nm, ns) =>
      let isCh := ov == "ch"
      let c := (l.nat? "ch").getD 0
      let m : Except Err Bool := do
        let hh ← h
        let n ← nm
        match l.op with
        | "starts_with" => if isCh then C08.startsWithChar hh c else C08.startsWith hh n
        | "ends_with" => if isCh then C08.endsWithChar hh c else C08.endsWith hh n
        | _ => C08.contains hh n
      let s := ns.map fun n =>
        match l.op with
        | "starts_with" => C08.Spec.startsWith x.s n
        | "ends_with" => C08.Spec.endsWith x.s n
        | _ => C08.Spec.contains x.s n
      query st x (m.map fmtBool) (s.map fmtBool)
  | "find" | "rfind" | "find_first_of" | "find_first_not_of" | "find_last_of" | "find_last_not_of" =>
    match needle with
    | none => bad st?
    | some (nm, ns) =>
      let isCh := ov == "ch"
      let c := (l.nat? "ch").getD 0
      -- defaults as written in the header
      let forward := l.op == "find" || l.op == "find_first_of" || l.op == "find_first_not_of"
      let dfltModel : Nat := if forward then 0 else if l.op == "rfind" then 0 else NPOS
      let dfltSpec : Nat := if forward then 0 else NPOS
      match posArg l "pos" (some dfltModel), posArg l "pos" (some dfltSpec) with
      | some pm, some ps =>
        let m : Except Err (Option Nat) := do
          let hh ← h
          let n ← nm
          match l.op with
          | "find" => stringsFind hh n pm
          | "rfind" => if isCh then C08.rfindChar hh c pm else C08.rfind hh n pm
          | "find_first_of" => findFirstOf hh n pm
          | "find_first_not_of" => if isCh then C08.findFirstNotOfChar hh c pm else C08.findFirstNotOf hh n pm
          | "find_last_of" => C08.findLastOf hh n pm
          | _ => C08.findLastNotOf hh n pm
        let s := ns.map fun n =>
          match l.op with
          | "find" => C08.Spec.find x.s n ps
          | "rfind" => C08.Spec.rfind x.s n ps
          | "find_first_of" => C08.Spec.findFirstOf x.s n ps
          | "find_first_not_of" => C08.Spec.findFirstNotOf x.s n ps
          | "find_last_of" => C08.Spec.findLastOf x.s n ps
          | _ => C08.Spec.findLastNotOf x.s n ps
        query st x (m.map fmtP) (s.map fmtP)
      | _, _ => bad st?
  | "replace" =>
    -- overwrite-only family (known finding): the spec is std::replace, the model is str_replace
    let p1 := posArg l "pos"
    let c1 := posArg l "count"
    let fi := l.nat? "first"
    let la := l.nat? "last"
    let specRepl (p n : Nat) (xs : Option Spec.Str) : Option (Spec.Str) :=
      match xs with
      | none => none
      | some xs => if p > x.s.length then none else some (Spec.replace x.s p n xs)
    let finish (m : Except Err Str) (s : Option Spec.Str) : Option St × String :=
      let stx := match s with
        | none => "pre"
        | some r => if r.length > st.cap then "clamp inv=1" else s!"- {sState r} {sState x.so}"
      match m with
      | .error e => (some st, fmtErr e ++ "\t" ++ stx)
      | .ok m' =>
        match s with
        | none => (some st, s!"- {mState m'} {mState x.o}" ++ "\t" ++ stx)
        | some r =>
          if r.length > st.cap then (some (st.put x.k m' (mAbs m')), s!"clamp inv={fmtBool (mInv m')}" ++ "\t" ++ stx)
          else (some (st.put x.k m' r), s!"- {mState m'} {mState x.o}" ++ "\t" ++ stx)
    match ov with
    | "str" | "ptrn" | "cstr" | "str5" =>
      let a : Option Arg := match ov with
        | "str" | "str5" => some .str
        | "ptrn" => do some (.ptrn (← l.natList? "s") (← l.nat? "n"))
        | _ => (l.natList? "s").map .cstr
      match a, p1, c1 with
      | some a, some p, some c =>
        if ov == "str5" then
          match posArg l "pos2", posArg l "count2" (some NPOS) with
          | some p2, some c2 =>
            let m := do
              let n ← x.o.size
              x.m.replaceB p c x.o.buf (min p2 n) (min ((p2 + c2) % W64) n)
            let den := if p2 > x.so.length then none else some (Spec.substr x.so p2 c2)
            finish m (specRepl p c den)
          | _, _ => bad st?
        else
          let m := do
            let s ← a.src x.o
            if ov == "str" then x.m.replaceA p c s.arr s.off (s.off + s.len)
            else x.m.replaceB p c s.arr s.off (s.off + s.len)
          finish m (specRepl p c (a.den x.so))
      | _, _, _ => bad st?
    | "itstr" | "itptrn" | "itcstr" =>
      let a : Option Arg := match ov with
        | "itstr" => some .str
        | "itptrn" => do some (.ptrn (← l.natList? "s") (← l.nat? "n"))
        | _ => (l.natList? "s").map .cstr
      match a, fi, la with
      | some a, some f, some t =>
        let m := do
          let s ← a.src x.o
          x.m.replaceIt f t s.arr s.off (s.off + s.len)
        let s := if f > t || t > x.s.length then none else specRepl f (t - f) (a.den x.so)
        finish m s
      | _, _, _ => bad st?
    | "itfill" =>
      match fi, la, l.nat? "count2", l.nat? "ch" with
      | some f, some t, some c2, some ch =>
        let s := if f > t || t > x.s.length then none else specRepl f (t - f) (some (List.replicate c2 ch))
        finish (x.m.replaceItFill f t c2 ch) s
      | _, _, _, _ => bad st?
    | _ => bad st?
  | _ => bad st?


end Tetl.C02.StrDrv

namespace Tetl.C02.SvDrv
open Tetl Tetl.Proto Tetl.C08

def fmtE {α : Type} (f : α → String) (r : Except Err α) : String := Tetl.C02.fmtE f r

def posArg (l : Line) (k : String) : Option Nat :=
  match l.pos? k with
  | some none => some NPOS
  | some (some n) => some n
  | none => none

def rels (eqv lt : Bool) : String :=
  let gt := !lt && !eqv
  String.join [fmtBool eqv, fmtBool lt, fmtBool (lt || eqv), fmtBool gt, fmtBool (gt || eqv)]

def step (l : Line) : String :=
  let bad := "bad-op\tbad-op"
  let ov := (l.str? "ov").getD "sv"
  let out (m s : String) := m ++ "\t" ++ s
  match l.op with
  | "find" =>
    match l.natList? "h", l.natList? "n", posArg l "pos" with
    | some h, some n, some p => out (fmtE fmtPos (find h n p)) (fmtPos (Spec.find h n p))
    | _, _, _ => bad
  | "rfind" =>
    match l.natList? "h", l.natList? "n", posArg l "pos" with
    | some h, some n, some p =>
      let m := if ov == "ch" then (match n with | [c] => rfindChar h c p | _ => .error (.pre "ov=ch")) else rfind h n p
      out (fmtE fmtPos m) (fmtPos (Spec.rfind h n p))
    | _, _, _ => bad
  | "find_first_of" =>
    match l.natList? "h", l.natList? "n", posArg l "pos" with
    | some h, some n, some p => out (fmtE fmtPos (findFirstOf h n p)) (fmtPos (Spec.findFirstOf h n p))
    | _, _, _ => bad
  | "find_last_of" =>
    match l.natList? "h", l.natList? "n", posArg l "pos" with
    | some h, some n, some p => out (fmtE fmtPos (findLastOf h n p)) (fmtPos (Spec.findLastOf h n p))
    | _, _, _ => bad
  | "find_first_not_of" =>
    match l.natList? "h", l.natList? "n", posArg l "pos" with
    | some h, some n, some p =>
      let m := if ov == "ch" then (match n with | [c] => findFirstNotOfChar h c p | _ => .error (.pre "ov=ch")) else findFirstNotOf h n p
      out (fmtE fmtPos m) (fmtPos (Spec.findFirstNotOf h n p))
    | _, _, _ => bad
  | "find_last_not_of" =>
    match l.natList? "h", l.natList? "n", posArg l "pos" with
    | some h, some n, some p => out (fmtE fmtPos (findLastNotOf h n p)) (fmtPos (Spec.findLastNotOf h n p))
    | _, _, _ => bad
  | "compare" =>
    match l.natList? "a", l.natList? "b" with
    | some a, some b =>
      match posArg l "pos1", posArg l "count1", posArg l "pos2", posArg l "count2" with
      | some p1, some c1, some p2, some c2 =>
        out (fmtE toString (compare5 a p1 c1 b p2 c2)) (toString (Spec.cmp (Spec.substr a p1 c1) (Spec.substr b p2 c2)))
      | some p1, some c1, _, _ =>
        out (fmtE toString (compare3 a p1 c1 b)) (toString (Spec.cmp (Spec.substr a p1 c1) b))
      | _, _, _, _ => out (fmtE toString (compare a b)) (toString (Spec.cmp a b))
    | _, _ => bad
  | "rel" =>
    match l.natList? "a", l.natList? "b" with
    | some a, some b =>
      let m := do
        let e ← viewEq a b
        let c ← compare a b
        pure (rels e (c < 0))
      let c := Spec.cmp a b
      out (fmtE id m) (rels (c == 0) (c < 0))
    | _, _ => bad
  | "starts_with" =>
    match l.natList? "h", l.natList? "n" with
    | some h, some n =>
      let m := if ov == "ch" then (match n with | [c] => startsWithChar h c | _ => .error (.pre "ov=ch")) else startsWith h n
      out (fmtE fmtBool m) (fmtBool (Spec.startsWith h n))
    | _, _ => bad
  | "ends_with" =>
    match l.natList? "h", l.natList? "n" with
    | some h, some n =>
      let m := if ov == "ch" then (match n with | [c] => endsWithChar h c | _ => .error (.pre "ov=ch")) else endsWith h n
      out (fmtE fmtBool m) (fmtBool (Spec.endsWith h n))
    | _, _ => bad
  | "contains" =>
    match l.natList? "h", l.natList? "n" with
    | some h, some n => out (fmtE fmtBool (contains h n)) (fmtBool (Spec.contains h n))
    | _, _ => bad
  | "substr" =>
    match l.natList? "h", posArg l "pos", posArg l "count" with
    | some h, some p, some c => out (fmtE fmtNatList (substr h p c)) (fmtNatList (Spec.substr h p c))
    | _, _, _ => bad
  | "copy" =>
    match l.natList? "h", posArg l "pos", posArg l "count" with
    | some h, some p, some c =>
      let f := fun (r : Nat × Str) => s!"{r.1}:{fmtNatList r.2}"
      let s := Spec.substr h p c
      out (fmtE f (copy h c p)) s!"{s.length}:{fmtNatList s}"
    | _, _, _ => bad
  | "remove_prefix" =>
    match l.natList? "h", l.nat? "n" with
    | some h, some n => out (fmtE fmtNatList (removePrefix h n)) (fmtNatList (h.drop n))
    | _, _ => bad
  | "remove_suffix" =>
    match l.natList? "h", l.nat? "n" with
    | some h, some n => out (fmtE fmtNatList (removeSuffix h n)) (fmtNatList (h.take (h.length - n)))
    | _, _ => bad
  | _ => bad


end Tetl.C02.SvDrv

namespace Tetl.C02
open Tetl Tetl.Proto

structure SSt where
  str : Option StrDrv.St := none

def stepStrings (st : SSt) (l : Line) : Option (SSt × String) :=
  if l.op.startsWith "str." then
    let r := StrDrv.step st.str { l with op := (l.op.drop 4).toString }
    some ({ st with str := r.1 }, r.2)
  else if l.op.startsWith "sv." then
    some (st, SvDrv.step { l with op := (l.op.drop 3).toString })
  else none

end Tetl.C02
