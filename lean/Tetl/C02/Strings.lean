import Tetl.Proto
import Tetl.C02.Model
namespace Tetl.C02
open Tetl Tetl.Proto
structure SSt where
  dummy : Unit := ()
def stepStrings (_st : SSt) (_l : Line) : Option (SSt × String) := none
end Tetl.C02
