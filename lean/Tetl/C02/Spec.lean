/-
C02 — specification.  For the operations replayed from the owning properties the specification is
theirs (the driver prints their `Spec` value in the second column).  The clause of C02 that has a
statement of its own: a default-initialised object is in the empty state and none of the members its
functions read is indeterminate.
-/
import Tetl.C02.Model
namespace Tetl.C02.Spec

/-- every member read by member functions has a defined initial value -/
def defaultInitDefined (ty : ObjTy) (cap : Nat) : Bool := (initFields ty cap).all (fun f => f.2.isSome)

/-- `T v; v.size()` -/
def initSize (_ty : ObjTy) (_cap : Nat) : Nat := 0

end Tetl.C02.Spec
