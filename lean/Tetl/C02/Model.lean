/-
C02 — "valid use never leaves the caller's memory, never allocates, never hits UB".

C02 has no algorithmic model of its own: it is the *safety face* of the models of the owning
properties.  Every one of those models reads and writes only through checked accessors and runs in
`Except Err`; memory safety of an operation is the statement that its model never returns `.error`
on a valid input (`TetlProofs/C02/Props.lean` states it operation by operation), and the generated
calendar kernels carry their `_ub` predicates.

What *is* modelled here is the one clause that is about object state rather than about an algorithm:
which members of a default-initialised object (`T v;`) have a default member initializer — i.e. what
a member function may read before anything was written.
-/
import Tetl.Common
namespace Tetl.C02

/-- result of a model call as protocol text -/
def fmtE {α : Type} (f : α → String) : Except Err α → String
  | .ok a => f a
  | .error e => "err:" ++ e.fmt

/-- `safe r`: the model call returned a value (no out-of-range access, no violated precondition, no fuel) -/
def safe {α : Type} : Except Err α → Bool
  | .ok _ => true
  | .error _ => false

/-- the fixed-capacity class templates with inline state -/
inductive ObjTy where
  | sv      -- static_vector<T,N>            (_vector/static_vector.hpp)
  | ipv     -- inplace_vector<T,N>           (_inplace_vector/inplace_vector.hpp)
  | str     -- basic_inplace_string<C,N>     (_string/basic_inplace_string.hpp)
  | ss      -- static_set<T,N>               (_set/static_set.hpp)
  | fs      -- flat_set<T, static_vector<T,N>> (_flat_set/flat_set.hpp)
  | bits    -- bitset<N> / basic_bitset      (_bitset)
  deriving DecidableEq, Repr, Inhabited

/-- One state member that member functions read: its name and, if the class gives it a default member
    initializer (or a constructor that writes it), the value it starts with.  `none` = indeterminate after
    `T v;`. -/
abbrev Field := String × Option Nat

/-- The state members of a default-initialised object, from the class definitions:
    * static_vector storages: `size_type _size = 0;` (static_vector.hpp:205,308);
    * inplace_vector<T,N>, N ≠ 0: `internal_size_t _size;` — **no initializer**, defaulted default
      constructor (inplace_vector.hpp:214); inplace_vector<T,0> has no size member;
    * basic_inplace_string: `layout_type _storage{}`; tiny layout (N < 16): the constructor writes
      `_buffer[N] = N` (size 0) over `_buffer{}`; normal layout: `_size{}`, `_buffer{}` (1293-1325);
    * static_set: `storage_type _storage{}` (a static_vector);
    * flat_set: `container_type _container;` — a static_vector, whose own initializers apply;
    * basic_bitset: `array<WordType, num_words> _words{}`. -/
def initFields (ty : ObjTy) (cap : Nat) : List Field :=
  match ty with
  | .sv => [("_size", some 0)]
  | .ipv => if cap = 0 then [] else [("_size", none)]
  | .str => if cap < 16 then [("_buffer[N]", some cap), ("_buffer[0]", some 0)]
            else [("_size", some 0), ("_buffer[0]", some 0)]
  | .ss => [("_storage._size", some 0)]
  | .fs => [("_container._size", some 0)]
  | .bits => [("_words", some 0)]

/-- `size()` as a member function computes it from the fields; `garbage` = what the storage happens to
    hold (truncated to the width of the size field by the caller) -/
def initSize (ty : ObjTy) (cap garbage : Nat) : Nat :=
  match ty, initFields ty cap with
  | .str, (_, some v) :: _ => if cap < 16 then cap - v else v
  | _, (_, some v) :: _ => v
  | _, (_, none) :: _ => garbage
  | _, [] => 0

end Tetl.C02
