/-
C13 — models of tetl's *own* code on the paths that are selected by `is_constant_evaluated()` /
`__has_builtin` (the other path is a compiler builtin, whose model is its specification, `Tetl.C13.FSpec`
and the specs of C14 / C18).

The floating-point callees are modelled operation by operation over bit patterns with the IEEE operations of
`Tetl.C13.Fmt` (`lt`, `feq`, `add`, `sub`, `mul`, `ofInt`, `truncInt`); a conversion to `long long` outside
its range is undefined behaviour, i.e. *not a constant expression*: the model returns
`.error (.pre "float-cast-overflow")`, printed as `cfail`.

Sources: include/etl/_3rd_party/gcem/gcem_incl/{floor,ceil,trunc,round,find_whole,abs,sgn}.hpp,
include/etl/_cmath/{rint,lrint,copysign,signbit,fma}.hpp.  Property C16 imports these models for the
constant-evaluated paths (Tetl/C16/Model.lean): there is one model of this code in the framework.
-/
import Tetl.Common
import Tetl.C13.Float
namespace Tetl.C13.Model
open Tetl Tetl.C13 Tetl.C13.Fmt

/-- `static_cast<long long>(x)`: truncation; UB (no constant expression) unless the value fits -/
def toLL (f : Fmt) (b : Nat) : Except Err Int :=
  if !f.isFinite b then .error (.pre "float-cast-overflow")
  else
    let i := f.truncInt b
    if -(2 ^ 63 : Int) ≤ i ∧ i < (2 ^ 63 : Int) then .ok i else .error (.pre "float-cast-overflow")

/-- `T(1) / numeric_limits<T>::epsilon()` = 2^mbits -/
def big (f : Fmt) : Nat := (f.bias + f.mbits) * 2 ^ f.mbits
/-- `T(0.5)` -/
def half (f : Fmt) : Nat := (f.bias - 1) * 2 ^ f.mbits
def ge (f : Fmt) (a b : Nat) : Bool := f.lt b a || f.feq a b
/-- `gcem::abs`: `x == 0 ? 0 : x < 0 ? -x : x` -/
def gabs (f : Fmt) (b : Nat) : Nat := if f.feq b 0 then 0 else if f.lt b 0 then f.neg b else b
/-- `gcem::sgn` -/
def sgn (f : Fmt) (b : Nat) : Int := if f.lt 0 b then 1 else if f.lt b 0 then -1 else 0

/-- the common prefix of `floor_check`, `ceil_check`, `trunc_check`, `round_check`:
    NaN ↦ quiet NaN; ±inf ↦ x; `x == 0` ↦ x; `abs(x) >= 1/epsilon` ↦ x; otherwise `k x` -/
def check (f : Fmt) (b : Nat) (k : Except Err Nat) : Except Err Nat :=
  if !f.feq b b then .ok f.qnan                      -- is_nan: x != x
  else if f.isInf b then .ok b                       -- !is_finite
  else if f.feq b 0 then .ok b
  else if ge f (gabs f b) (big f) then .ok b
  else k

/-- `floor_int(x, T(static_cast<llint_t>(x)))` = `xWhole - T((x < 0) && (x < xWhole))` -/
def gcemFloor (f : Fmt) (b : Nat) : Except Err Nat :=
  check f b do
    let w ← toLL f b
    let xw := f.ofInt w
    let resid : Int := if f.lt b 0 && f.lt b xw then 1 else 0
    .ok (f.sub xw (f.ofInt resid))

/-- `ceil_int`: `(x < 0 && x > -1) ? -T(0) : xWhole + T((x > 0) && (x > xWhole))` -/
def gcemCeil (f : Fmt) (b : Nat) : Except Err Nat :=
  check f b do
    let w ← toLL f b
    let xw := f.ofInt w
    if f.lt b 0 && f.lt (f.ofInt (-1)) b then .ok (f.neg 0)
    else
      let resid : Int := if f.lt 0 b && f.lt xw b then 1 else 0
      .ok (f.add xw (f.ofInt resid))

/-- `trunc_int`: `x < 0 ? -T(llint(-x)) : T(llint(x))` -/
def gcemTrunc (f : Fmt) (b : Nat) : Except Err Nat :=
  check f b do
    if f.lt b 0 then do
      let w ← toLL f (f.neg b)
      .ok (f.neg (f.ofInt w))
    else do
      let w ← toLL f b
      .ok (f.ofInt w)

/-- `find_whole(a)`: `abs(a - floor(a)) >= 0.5 ? llint(floor(a) + sgn(a)) : llint(floor(a))` -/
def findWhole (f : Fmt) (a : Nat) : Except Err Int := do
  let fl ← gcemFloor f a
  let d := gabs f (f.sub a fl)
  if ge f d (half f) then toLL f (f.add fl (f.ofInt (sgn f a))) else toLL f fl

/-- `round_check`: `sgn(x) * T(find_whole(abs(x)))` -/
def gcemRound (f : Fmt) (b : Nat) : Except Err Nat :=
  check f b do
    let w ← findWhole f (gabs f b)
    .ok (f.mul (f.ofInt (sgn f b)) (f.ofInt w))

/-- `detail::rint_fallback` (round to nearest even through `long long`, sign of the argument kept) -/
def rintFallback (f : Fmt) (b : Nat) : Except Err Nat :=
  if !(f.lt (f.neg (big f)) b && f.lt b (big f)) then .ok b
  else do
    let w ← toLL f b
    let wf := f.ofInt w
    let frac := f.sub b wf
    let result :=
      -- `static_cast<T>(whole) + T(1)` / `- T(1)`: the step is taken in T since 21f1c9f (`whole + 1` overflowed `long long`
      -- for a long double just below 2^63)
      if f.lt (half f) frac || (f.feq frac (half f) && w % 2 != 0) then f.add wf (f.ofInt 1)
      else if f.lt frac (f.neg (half f)) || (f.feq frac (f.neg (half f)) && w % 2 != 0) then f.sub wf (f.ofInt 1)
      else wf
    if f.feq result 0 && f.lt b 0 then .ok (f.neg 0)
    else .ok (if f.feq result 0 && f.feq b 0 then b else result)

/-- `detail::lrint_fallback<T>`: `static_cast<T>(rint_fallback(arg))`, `T` a signed `w`-bit integer -/
def lrintFallback (f : Fmt) (w : Nat) (b : Nat) : Except Err Int := do
  let r ← rintFallback f b
  if !f.isFinite r then .error (.pre "float-cast-overflow")
  else
    let i := f.truncInt r
    if -(2 ^ (w - 1) : Int) ≤ i ∧ i < (2 ^ (w - 1) : Int) then .ok i else .error (.pre "float-cast-overflow")

/-- `detail::copysign_fallback`: `signbit(x) != signbit(y) ? -x : x` -/
def copysignFallback (f : Fmt) (x y : Nat) : Nat :=
  if f.sign x != f.sign y then f.neg x else x

/-- `detail::signbit_fallback` for the 4- and 8-byte formats: `(bit_cast<uintN_t>(arg) >> (N - 1)) != 0`
    (the alternative of `etl::signbit` where `__builtin_signbit` is missing) -/
def signbitFallback (f : Fmt) (b : Nat) : Bool := b / f.signW != 0

/-- the constant-evaluated path of `fma`: `x * y + z` in two roundings -/
def fmaTwoStep (f : Fmt) (x y z : Nat) : Nat := f.add (f.mul x y) z

/-! ### constant evaluation that takes the run-time builtin (GCC folds it): fma, sqrt

`__builtin_fma{f,}` and `__builtin_sqrt{f,,l}` are folded by GCC's constant evaluator through MPFR
(gcc/fold-const-call.cc `do_mpfr_arg1/arg3`, `do_mpfr_ckconv`): every argument finite (sqrt: not negative), the
function evaluated exactly and rounded to nearest even at the precision of the type with MPFR's (practically
unbounded) exponent range, and the call folded only if that value is a finite value of the type ("result is not
changed by the conversion", zero only from an exact zero).  `representable` is that condition; the folded value is
then the correctly rounded one (the builtin is modelled by its specification). -/

/-- `N >> d` rounded to nearest even -/
def rneShift (N d : Nat) : Nat :=
  let q := N / 2 ^ d
  let rem := N % 2 ^ d
  let half := 2 ^ (d - 1)
  if d = 0 then N else if rem > half || (rem == half && q % 2 == 1) then q + 1 else q

/-- is the magnitude `N · 2^E` units, rounded to nearest even at `mbits + 1` significant bits with an unbounded
    exponent range, a finite value of the format?  (normal range: not an overflow; below it: a whole number of
    units, i.e. the precision-`mbits+1` rounding did not keep bits a subnormal cannot hold) -/
def representable (f : Fmt) (N : Nat) (E : Int) : Bool :=
  if N = 0 then true else
  let k : Int := (Nat.log2 N : Int) + E
  if k ≥ (f.mbits : Int) then decide (f.roundUnits N E < f.inf)
  else
    let d : Int := (Nat.log2 N : Int) - (f.mbits : Int)      -- low bits of N beyond the precision
    let q := if d ≤ 0 then N * 2 ^ (-d).toNat else rneShift N d.toNat
    let e : Int := E + d                                     -- rounded value = q · 2^e units
    if e ≥ 0 then true else decide (q % 2 ^ (-e).toNat = 0)

/-- does GCC fold `__builtin_fma(x, y, z)` in a constant expression? -/
def gccFoldsFma (f : Fmt) (x y z : Nat) : Bool :=
  f.isFinite x && f.isFinite y && f.isFinite z &&
  (let s := (f.sign x + f.sign y) % 2
   let p : Int := (f.mag x * f.mag y : Nat)
   let p := if s = 1 then -p else p
   let c : Int := (f.mag z * 2 ^ f.U : Nat)
   let c := if f.sign z = 1 then -c else c
   representable f (p + c).natAbs (-(f.U : Int)))

/-- [expr.const]: an arithmetic operation whose result is not mathematically defined (inf·0, inf−inf) or not in the
    range of representable values (overflow of finite operands) is undefined behaviour, hence *not a constant
    expression* (GCC: "overflow in constant expression", "is not a constant expression"); underflow is accepted -/
def ceOp (f : Fmt) (a b r : Nat) : Except Err Nat :=
  if (!f.isNaN a && !f.isNaN b && f.isNaN r) || (f.isFinite a && f.isFinite b && !f.isFinite r) then
    .error (.pre "not-a-constant-expression")
  else .ok r

/-- `x * y + z` as the constant evaluator computes it: two roundings, each operation checked -/
def fmaTwoStepCE (f : Fmt) (x y z : Nat) : Except Err Nat := do
  let p ← ceOp f x y (f.mul x y)
  ceOp f p z (f.add p z)

/-- the constant-evaluated path of `fma` since 2d96e3e:
    `if (__builtin_constant_p(__builtin_fma(x, y, z))) return __builtin_fma(x, y, z); return x * y + z;` -/
def fmaCt (f : Fmt) (x y z : Nat) : Except Err Nat :=
  if gccFoldsFma f x y z then .ok (f.fma x y z) else fmaTwoStepCE f x y z

/-- the constant-evaluated path of `sqrt` since 55139da: `arg != arg or arg == +inf` ↦ arg; `arg < 0` ↦ quiet NaN;
    otherwise the builtin, which GCC folds for every finite argument that is not negative (−0 included) -/
def sqrtCt (f : Fmt) (b : Nat) : Nat :=
  if !f.feq b b || f.feq b f.inf then b
  else if f.lt b 0 then f.qnan
  else FSpec.sqrt f b

/-- `arg != arg` (the `isnan` alternative when the builtin is missing) -/
def isnanFallback (f : Fmt) (b : Nat) : Bool := !f.feq b b

end Tetl.C13.Model
