/-
C13 — models of tetl's *own* code on the paths that are selected by `is_constant_evaluated()` /
`__has_builtin` (the other path is a compiler builtin, whose model is its specification, `Tetl.C13.FSpec`
and the specs of C14 / C18).

The floating-point callees are modelled operation by operation over bit patterns with the IEEE operations of
`Tetl.C13.Fmt` (`lt`, `feq`, `add`, `sub`, `mul`, `ofInt`, `truncInt`); a conversion to `long long` outside
its range is undefined behaviour, i.e. *not a constant expression*: the model returns
`.error (.pre "float-cast-overflow")`, printed as `cfail`.

Sources: include/etl/_3rd_party/gcem/gcem_incl/{floor,ceil,trunc,round,find_whole,abs,sgn}.hpp,
include/etl/_cmath/{rint,lrint,copysign,signbit,fma}.hpp.  Property C16 imports these models for the
constant-evaluated paths (Tetl/C16/Model.lean): there is one model of this code in the framework.
-/
import Tetl.Common
import Tetl.C13.Float
namespace Tetl.C13.Model
open Tetl Tetl.C13 Tetl.C13.Fmt

/-- `static_cast<long long>(x)`: truncation; UB (no constant expression) unless the value fits -/
def toLL (f : Fmt) (b : Nat) : Except Err Int :=
  if !f.isFinite b then .error (.pre "float-cast-overflow")
  else
    let i := f.truncInt b
    if -(2 ^ 63 : Int) ≤ i ∧ i < (2 ^ 63 : Int) then .ok i else .error (.pre "float-cast-overflow")

/-- `T(1) / numeric_limits<T>::epsilon()` = 2^mbits -/
def big (f : Fmt) : Nat := (f.bias + f.mbits) * 2 ^ f.mbits
/-- `T(0.5)` -/
def half (f : Fmt) : Nat := (f.bias - 1) * 2 ^ f.mbits
def ge (f : Fmt) (a b : Nat) : Bool := f.lt b a || f.feq a b
/-- `gcem::abs`: `x == 0 ? 0 : x < 0 ? -x : x` -/
def gabs (f : Fmt) (b : Nat) : Nat := if f.feq b 0 then 0 else if f.lt b 0 then f.neg b else b
/-- `gcem::sgn` -/
def sgn (f : Fmt) (b : Nat) : Int := if f.lt 0 b then 1 else if f.lt b 0 then -1 else 0

/-- the common prefix of `floor_check`, `ceil_check`, `trunc_check`, `round_check`:
    NaN ↦ quiet NaN; ±inf ↦ x; `x == 0` ↦ x; `abs(x) >= 1/epsilon` ↦ x; otherwise `k x` -/
def check (f : Fmt) (b : Nat) (k : Except Err Nat) : Except Err Nat :=
  if !f.feq b b then .ok f.qnan                      -- is_nan: x != x
  else if f.isInf b then .ok b                       -- !is_finite
  else if f.feq b 0 then .ok b
  else if ge f (gabs f b) (big f) then .ok b
  else k

/-- `floor_int(x, T(static_cast<llint_t>(x)))` = `xWhole - T((x < 0) && (x < xWhole))` -/
def gcemFloor (f : Fmt) (b : Nat) : Except Err Nat :=
  check f b do
    let w ← toLL f b
    let xw := f.ofInt w
    let resid : Int := if f.lt b 0 && f.lt b xw then 1 else 0
    .ok (f.sub xw (f.ofInt resid))

/-- `ceil_int`: `(x < 0 && x > -1) ? -T(0) : xWhole + T((x > 0) && (x > xWhole))` -/
def gcemCeil (f : Fmt) (b : Nat) : Except Err Nat :=
  check f b do
    let w ← toLL f b
    let xw := f.ofInt w
    if f.lt b 0 && f.lt (f.ofInt (-1)) b then .ok (f.neg 0)
    else
      let resid : Int := if f.lt 0 b && f.lt xw b then 1 else 0
      .ok (f.add xw (f.ofInt resid))

/-- `trunc_int`: `x < 0 ? -T(llint(-x)) : T(llint(x))` -/
def gcemTrunc (f : Fmt) (b : Nat) : Except Err Nat :=
  check f b do
    if f.lt b 0 then do
      let w ← toLL f (f.neg b)
      .ok (f.neg (f.ofInt w))
    else do
      let w ← toLL f b
      .ok (f.ofInt w)

/-- `find_whole(a)`: `abs(a - floor(a)) >= 0.5 ? llint(floor(a) + sgn(a)) : llint(floor(a))` -/
def findWhole (f : Fmt) (a : Nat) : Except Err Int := do
  let fl ← gcemFloor f a
  let d := gabs f (f.sub a fl)
  if ge f d (half f) then toLL f (f.add fl (f.ofInt (sgn f a))) else toLL f fl

/-- `round_check`: `sgn(x) * T(find_whole(abs(x)))` -/
def gcemRound (f : Fmt) (b : Nat) : Except Err Nat :=
  check f b do
    let w ← findWhole f (gabs f b)
    .ok (f.mul (f.ofInt (sgn f b)) (f.ofInt w))

/-- `detail::rint_fallback` (round to nearest even through `long long`, sign of the argument kept) -/
def rintFallback (f : Fmt) (b : Nat) : Except Err Nat :=
  if !(f.lt (f.neg (big f)) b && f.lt b (big f)) then .ok b
  else do
    let w ← toLL f b
    let wf := f.ofInt w
    let frac := f.sub b wf
    let result :=
      if f.lt (half f) frac || (f.feq frac (half f) && w % 2 != 0) then f.ofInt (w + 1)
      else if f.lt frac (f.neg (half f)) || (f.feq frac (f.neg (half f)) && w % 2 != 0) then f.ofInt (w - 1)
      else wf
    if f.feq result 0 && f.lt b 0 then .ok (f.neg 0)
    else .ok (if f.feq result 0 && f.feq b 0 then b else result)

/-- `detail::lrint_fallback<T>`: `static_cast<T>(rint_fallback(arg))`, `T` a signed `w`-bit integer -/
def lrintFallback (f : Fmt) (w : Nat) (b : Nat) : Except Err Int := do
  let r ← rintFallback f b
  if !f.isFinite r then .error (.pre "float-cast-overflow")
  else
    let i := f.truncInt r
    if -(2 ^ (w - 1) : Int) ≤ i ∧ i < (2 ^ (w - 1) : Int) then .ok i else .error (.pre "float-cast-overflow")

/-- `detail::copysign_fallback`: `signbit(x) != signbit(y) ? -x : x` -/
def copysignFallback (f : Fmt) (x y : Nat) : Nat :=
  if f.sign x != f.sign y then f.neg x else x

/-- `detail::signbit_fallback` for the 4- and 8-byte formats: `(bit_cast<uintN_t>(arg) >> (N - 1)) != 0`
    (the alternative of `etl::signbit` where `__builtin_signbit` is missing) -/
def signbitFallback (f : Fmt) (b : Nat) : Bool := b / f.signW != 0

/-- the constant-evaluated path of `fma`: `x * y + z` in two roundings -/
def fmaTwoStep (f : Fmt) (x y z : Nat) : Nat := f.add (f.mul x y) z

/-- `arg != arg` (the `isnan` alternative when the builtin is missing) -/
def isnanFallback (f : Fmt) (b : Nat) : Bool := !f.feq b b

end Tetl.C13.Model
