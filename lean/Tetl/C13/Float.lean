/-
Binary interchange formats as bit patterns (`Nat`), integer arithmetic only, so that everything runs in
the compiled driver and reduces in the kernel.  A format is `(ebits, mbits)`; binary32 = (8, 23),
binary64 = (11, 52).

A finite pattern `b` denotes  (-1)^sign · mag b · 2^(-U)  with  U = bias - 1 + mbits  (the exponent of the
smallest subnormal): `mag` is the magnitude counted in units of the smallest subnormal.  With this scaling
the map from magnitudes back to patterns is `bits = shift <<< mbits + q` where `mag = q · 2^shift`
(`roundUnits`), the usual "carry into the exponent" trick.
-/
namespace Tetl.C13

structure Fmt where
  ebits : Nat
  mbits : Nat
  deriving Repr, DecidableEq

def f32 : Fmt := ⟨8, 23⟩
def f64 : Fmt := ⟨11, 52⟩

namespace Fmt

def width (f : Fmt) : Nat := 1 + f.ebits + f.mbits
def bias (f : Fmt) : Nat := 2 ^ (f.ebits - 1) - 1
/-- the all-ones exponent field (infinities and NaNs) -/
def emax (f : Fmt) : Nat := 2 ^ f.ebits - 1
/-- weight of the sign bit -/
def signW (f : Fmt) : Nat := 2 ^ (f.ebits + f.mbits)
/-- exponent of the unit: value = mag / 2^U -/
def U (f : Fmt) : Nat := f.bias - 1 + f.mbits

def sign (f : Fmt) (b : Nat) : Nat := b / f.signW % 2
def absBits (f : Fmt) (b : Nat) : Nat := b % f.signW
def expo (f : Fmt) (b : Nat) : Nat := f.absBits b / 2 ^ f.mbits
def mant (f : Fmt) (b : Nat) : Nat := b % 2 ^ f.mbits

def inf (f : Fmt) : Nat := f.emax * 2 ^ f.mbits
/-- the canonical quiet NaN (every NaN result is printed as `nan`) -/
def qnan (f : Fmt) : Nat := f.inf + 2 ^ (f.mbits - 1)

def isNaN (f : Fmt) (b : Nat) : Bool := decide (f.absBits b > f.inf)
def isInf (f : Fmt) (b : Nat) : Bool := decide (f.absBits b = f.inf)
def isFinite (f : Fmt) (b : Nat) : Bool := decide (f.absBits b < f.inf)
def isZero (f : Fmt) (b : Nat) : Bool := decide (f.absBits b = 0)
def neg (f : Fmt) (b : Nat) : Nat := if f.sign b = 1 then b - f.signW else b + f.signW
def withSign (f : Fmt) (s : Nat) (a : Nat) : Nat := s * f.signW + a

/-- magnitude of a finite pattern in units of the smallest subnormal -/
def mag (f : Fmt) (b : Nat) : Nat :=
  let e := f.expo b
  if e = 0 then f.mant b else (2 ^ f.mbits + f.mant b) * 2 ^ (e - 1)

/-- Round-to-nearest-even of the magnitude `N · 2^E` units to a pattern without sign
    (`inf` on overflow).  `q · 2^shift` is the candidate, `rem` what is cut off. -/
def roundUnits (f : Fmt) (N : Nat) (E : Int) : Nat :=
  if N = 0 then 0 else
  let k : Int := (Nat.log2 N : Int) + E                     -- ⌊log2 value⌋
  let shift : Nat := (k - (f.mbits : Int)).toNat            -- 0 for subnormals
  let d : Int := (shift : Int) - E                          -- cut d low bits of N (d may be ≤ 0)
  let r :=
    if d ≤ 0 then N * 2 ^ (-d).toNat
    else
      let q := N / 2 ^ d.toNat
      let rem := N % 2 ^ d.toNat
      let half := 2 ^ (d.toNat - 1)
      if rem > half || (rem == half && q % 2 == 1) then q + 1 else q
  let bits := shift * 2 ^ f.mbits + r
  if bits ≥ f.inf then f.inf else bits

/-- the pattern of the integer `i` converted to the format (round to nearest even) -/
def ofInt (f : Fmt) (i : Int) : Nat :=
  if i < 0 then f.withSign 1 (f.roundUnits i.natAbs f.U) else f.roundUnits i.natAbs f.U

/-- signed magnitude of a finite pattern, in units -/
def smag (f : Fmt) (b : Nat) : Int := if f.sign b = 1 then -(f.mag b : Int) else (f.mag b : Int)

/-- truncation toward zero of a finite pattern to an integer (`static_cast<long long>` when in range) -/
def truncInt (f : Fmt) (b : Nat) : Int :=
  let i : Int := (f.mag b / 2 ^ f.U : Nat)
  if f.sign b = 1 then -i else i

/-- IEEE comparison `a < b` (false when unordered) -/
def lt (f : Fmt) (a b : Nat) : Bool :=
  if f.isNaN a || f.isNaN b then false
  else if f.isInf a || f.isInf b then
    -- order infinities by sign, then against finite values
    let va : Int := if f.isInf a then (if f.sign a = 1 then -1 else 1) else 0
    let vb : Int := if f.isInf b then (if f.sign b = 1 then -1 else 1) else 0
    decide (va < vb)
  else decide (f.smag a < f.smag b)

/-- IEEE comparison `a == b` -/
def feq (f : Fmt) (a b : Nat) : Bool :=
  if f.isNaN a || f.isNaN b then false
  else if f.isInf a || f.isInf b then a == b
  else f.smag a == f.smag b

/-- round the exact signed value `S · 2^E` units; an exact zero gets the sign `zs` -/
def ofSigned (f : Fmt) (S : Int) (E : Int) (zs : Nat) : Nat :=
  if S = 0 then f.withSign zs 0
  else if S < 0 then f.withSign 1 (f.roundUnits S.natAbs E) else f.roundUnits S.natAbs E

/-- IEEE addition (round to nearest even) -/
def add (f : Fmt) (a b : Nat) : Nat :=
  if f.isNaN a || f.isNaN b then f.qnan
  else if f.isInf a then (if f.isInf b && f.sign a != f.sign b then f.qnan else a)
  else if f.isInf b then b
  else
    -- x + y = ±0: the sign is kept when both zeros agree, otherwise +0 (round to nearest)
    let zs := if f.sign a = 1 && f.sign b = 1 then 1 else 0
    f.ofSigned (f.smag a + f.smag b) 0 zs

def sub (f : Fmt) (a b : Nat) : Nat := f.add a (if f.isNaN b then b else f.neg b)

/-- IEEE multiplication -/
def mul (f : Fmt) (a b : Nat) : Nat :=
  let s := (f.sign a + f.sign b) % 2
  if f.isNaN a || f.isNaN b then f.qnan
  else if f.isInf a || f.isInf b then
    (if f.isZero a || f.isZero b then f.qnan else f.withSign s f.inf)
  else f.withSign s (f.roundUnits (f.mag a * f.mag b) (-(f.U : Int)))

/-- IEEE fused multiply-add: one rounding of the exact `a·b + c` -/
def fma (f : Fmt) (a b c : Nat) : Nat :=
  let s := (f.sign a + f.sign b) % 2
  if f.isNaN a || f.isNaN b || f.isNaN c then f.qnan
  else if f.isInf a || f.isInf b then
    if f.isZero a || f.isZero b then f.qnan
    else if f.isInf c && f.sign c != s then f.qnan
    else f.withSign s f.inf
  else if f.isInf c then c
  else
    -- units of 2^(-2U): the product is mag a · mag b, the addend mag c · 2^U
    let p : Int := (f.mag a * f.mag b : Nat)
    let p := if s = 1 then -p else p
    let z : Int := (f.mag c * 2 ^ f.U : Nat)
    let z := if f.sign c = 1 then -z else z
    let zs := if s = 1 && f.sign c = 1 then 1 else 0
    f.ofSigned (p + z) (-(f.U : Int)) zs

end Fmt

/-! ## Bit-level specification of the rounding and classification functions (C 7.12, IEC 60559) -/
namespace FSpec
open Fmt

/-- how the fraction decides the integer: floor / ceil / trunc / round (half away) / rint (half even) -/
inductive Mode where
  | floor | ceil | trunc | round | rint
  deriving Repr, DecidableEq

/-- integer magnitude of the rounded value: `ip` integer part of |x|, `fr` fraction in units, `one` = 2^U -/
def roundedMag (m : Mode) (neg : Bool) (ip fr one : Nat) : Nat :=
  match m with
  | .trunc => ip
  | .floor => if neg && fr != 0 then ip + 1 else ip
  | .ceil => if !neg && fr != 0 then ip + 1 else ip
  | .round => if 2 * fr ≥ one then ip + 1 else ip
  | .rint => if 2 * fr > one || (2 * fr == one && ip % 2 == 1) then ip + 1 else ip

/-- `floor`/`ceil`/`trunc`/`round`/`rint` on a pattern: NaN ↦ NaN, ±inf and ±0 ↦ themselves, values that are
    already integral ↦ themselves, otherwise the integer selected by `m` **with the sign of the argument**
    (so `ceil(-0.5) = -0`, F.10.6). -/
def roundTo (f : Fmt) (m : Mode) (b : Nat) : Nat :=
  if f.isNaN b then f.qnan
  else if f.expo b ≥ f.bias + f.mbits then b           -- inf, or |x| ≥ 2^mbits: integral already
  else
    let one := 2 ^ f.U
    let ip := f.mag b / one
    let fr := f.mag b % one
    let r := roundedMag m (f.sign b == 1) ip fr one
    f.withSign (f.sign b) (f.roundUnits r f.U)

/-- `lrint`-family: the integer nearest (ties to even), `none` when the result is unspecified
    (NaN, infinity, or not representable in a signed `w`-bit integer) -/
def lrint (f : Fmt) (w : Nat) (b : Nat) : Option Int :=
  if !f.isFinite b then none
  else
    let one := 2 ^ f.U
    let r : Int := roundedMag .rint (f.sign b == 1) (f.mag b / one) (f.mag b % one) one
    let v := if f.sign b = 1 then -r else r
    if -(2 ^ (w - 1) : Int) ≤ v ∧ v < (2 ^ (w - 1) : Int) then some v else none

/-- `sqrt` (IEC 60559 5.4.1: correctly rounded; C17 F.10.4.5): NaN ↦ NaN, ±0 ↦ itself, other negative values ↦ NaN
    (invalid), +inf ↦ +inf, otherwise the exact root rounded to nearest even.  The value in units is
    √(mag · 2^U); the integer root `s` of `mag · 2^U · 4^t` carries `t = mbits + 2` extra bits, the sticky bit says
    whether it is exact (a root is never a tie: an inexact one lies strictly between two half-units). -/
def sqrt (f : Fmt) (b : Nat) : Nat :=
  if f.isNaN b then f.qnan
  else if f.isZero b then b
  else if f.sign b = 1 then f.qnan
  else if f.isInf b then b
  else
    let t := f.mbits + 2
    let M := f.mag b * 2 ^ f.U * 4 ^ t
    let s := Nat.sqrt M
    let sticky := if s * s = M then 0 else 1
    f.roundUnits (2 * s + sticky) (-(t : Int) - 1)

def copysign (f : Fmt) (x y : Nat) : Nat :=
  if f.isNaN x then f.qnan else f.withSign (f.sign y) (f.absBits x)
def signbit (f : Fmt) (b : Nat) : Bool := f.sign b == 1

end FSpec
end Tetl.C13
