/-
C13 — which specification each entry of the regenerated dispatch table (`Tetl.C13.Dispatch`) is bound to.

`SpecId` names one specification: a function of `Tetl.C13.FSpec` (cmath rounding / classification, bit level),
`Tetl.C14.Spec` (popcount, byte reversal, saturating addition) or `Tetl.C18.Spec` (C-string functions).
`builtinSpec` says which specification a compiler builtin is *assumed* to implement (trusted, observed by the
correspondence run); `calleeSpec` says which specification tetl's own code on the other path is tied to and how
(`proved`: a theorem of `Tetl.C13.Props`; `corr`: compared on every run, no theorem yet; `divergent`: known to
differ from the specification on a described input class).
-/
import Tetl.C13.Dispatch
import Tetl.C13.Float
namespace Tetl.C13.Spec
open Tetl.C13

inductive SpecId where
  | popcount | bswap | addSat | bitCast
  | strlen | strcmp | strncmp | strchr | memchr | memcmp | memcpy | memmove
  | floor | ceil | trunc | round | rint | lrint | copysign | signbit | isnan | isinf | fma
  | fmod | remainder   -- exactly specified (C17 7.12.10), specification: Tetl.C16.Fmt.fmod / remainder (property C16)
  | sqrt        -- exactly specified (IEC 60559 5.4.1: correctly rounded), specification: Tetl.C13.FSpec.sqrt
  | approx      -- approximating function: no exactly specified result (outside the statement of C13; C16 tolerant part)
  | infra       -- language plumbing, not a value-returning library operation
  deriving Repr, DecidableEq

inductive Status where
  | proved | corr | divergent
  deriving Repr, DecidableEq

/-- entry name (function that contains the switch) ↦ its specification -/
def fnTable : List (String × SpecId) := [
  ("popcount", .popcount), ("byteswap", .bswap), ("add_sat", .addSat), ("bit_cast", .bitCast),
  ("strlen", .strlen), ("strcmp", .strcmp), ("strncmp", .strncmp), ("strchr", .strchr), ("memchr", .memchr),
  ("memcmp", .memcmp), ("memcpy", .memcpy), ("memmove", .memmove), ("wmemcpy", .memcpy), ("wmemmove", .memmove),
  ("floor", .floor), ("ceil", .ceil), ("trunc", .trunc), ("round", .round), ("rint_impl", .rint), ("lrint_impl", .lrint),
  ("llrint_impl", .lrint), ("copysign", .copysign), ("signbit", .signbit), ("isnan", .isnan), ("isinf", .isinf),
  ("fma", .fma), ("fmod", .fmod), ("remainder", .remainder),
  ("sqrt", .sqrt),        -- correctly rounded: an exact function (the sqrt builtin on both paths under GCC since 55139da)
  ("sinh", .approx), ("cosh", .approx), ("tgamma", .approx), ("lgamma", .approx), ("erf", .approx), ("log1p", .approx),
  ("atanh", .approx), ("atan2", .approx),      -- libm builtin at run time since the C16 review fixes, gcem in constant evaluation
  ("acos", .approx), ("acosh", .approx), ("asin", .approx), ("asinh", .approx), ("atan", .approx), ("cos", .approx),
  ("exp", .approx), ("log", .approx), ("log10", .approx), ("log2", .approx), ("pow", .approx), ("sin", .approx),
  ("tan", .approx), ("tanh", .approx),
  ("assume_aligned", .infra), ("is_constant_evaluated", .infra)]

/-- compiler builtin ↦ the specification it is assumed to implement -/
def builtinTable : List (String × SpecId) := [
  ("__builtin_popcount", .popcount), ("__builtin_popcountl", .popcount), ("__builtin_popcountll", .popcount),
  ("__builtin_bswap16", .bswap), ("__builtin_bswap32", .bswap), ("__builtin_bswap64", .bswap),
  ("__builtin_add_overflow", .addSat), ("__builtin_bit_cast", .bitCast),
  ("__builtin_strlen", .strlen), ("__builtin_strcmp", .strcmp), ("__builtin_strncmp", .strncmp),
  ("__builtin_strchr", .strchr), ("__builtin_memchr", .memchr), ("__builtin_memcmp", .memcmp),
  ("__builtin_memcpy", .memcpy), ("__builtin_memmove", .memmove), ("__builtin_wmemcpy", .memcpy),
  ("__builtin_wmemmove", .memmove),
  ("__builtin_floorf", .floor), ("__builtin_floor", .floor), ("__builtin_ceilf", .ceil), ("__builtin_ceil", .ceil),
  ("__builtin_truncf", .trunc), ("__builtin_trunc", .trunc),
  ("__builtin_roundf", .round), ("__builtin_round", .round),
  ("__builtin_rintf", .rint), ("__builtin_rint", .rint), ("__builtin_rintl", .rint),
  ("__builtin_lrintf", .lrint), ("__builtin_lrint", .lrint), ("__builtin_lrintl", .lrint),
  ("__builtin_llrintf", .lrint), ("__builtin_llrint", .lrint), ("__builtin_llrintl", .lrint),
  ("__builtin_copysignf", .copysign), ("__builtin_copysign", .copysign), ("__builtin_signbit", .signbit),
  ("__builtin_isnanf", .isnan), ("__builtin_isnan", .isnan), ("__builtin_isnanl", .isnan), ("__builtin_isinf", .isinf),
  ("__builtin_fmaf", .fma), ("__builtin_fma", .fma),
  ("__builtin_fmodf", .fmod), ("__builtin_fmod", .fmod), ("__builtin_fmodl", .fmod),
  ("__builtin_remainderf", .remainder), ("__builtin_remainder", .remainder), ("__builtin_remainderl", .remainder),
  ("__builtin_sqrtf", .sqrt), ("__builtin_sqrt", .sqrt), ("__builtin_sqrtl", .sqrt),
  ("__builtin_sinhf", .approx), ("__builtin_sinh", .approx), ("__builtin_sinhl", .approx),
  ("__builtin_coshf", .approx), ("__builtin_cosh", .approx), ("__builtin_coshl", .approx),
  ("__builtin_tgammaf", .approx), ("__builtin_tgamma", .approx), ("__builtin_tgammal", .approx),
  ("__builtin_lgammaf", .approx), ("__builtin_lgamma", .approx), ("__builtin_lgammal", .approx),
  ("__builtin_erff", .approx), ("__builtin_erf", .approx), ("__builtin_erfl", .approx),
  ("__builtin_log1pf", .approx), ("__builtin_log1p", .approx), ("__builtin_log1pl", .approx),
  ("__builtin_atanhf", .approx), ("__builtin_atanh", .approx), ("__builtin_atanhl", .approx),
  ("__builtin_atan2f", .approx), ("__builtin_atan2", .approx), ("__builtin_atan2l", .approx),
  ("__builtin_acosf", .approx), ("__builtin_acos", .approx), ("__builtin_acoshf", .approx), ("__builtin_acosh", .approx),
  ("__builtin_asinf", .approx), ("__builtin_asin", .approx), ("__builtin_asinhf", .approx), ("__builtin_asinh", .approx),
  ("__builtin_atanf", .approx), ("__builtin_atan", .approx), ("__builtin_cosf", .approx), ("__builtin_cos", .approx),
  ("__builtin_expf", .approx), ("__builtin_exp", .approx), ("__builtin_logf", .approx), ("__builtin_log", .approx),
  ("__builtin_log10f", .approx), ("__builtin_log10", .approx), ("__builtin_log2f", .approx), ("__builtin_log2", .approx),
  ("__builtin_powf", .approx), ("__builtin_pow", .approx), ("__builtin_sinf", .approx), ("__builtin_sin", .approx),
  ("__builtin_tanf", .approx), ("__builtin_tan", .approx), ("__builtin_tanhf", .approx), ("__builtin_tanh", .approx)]

/-- tetl's own code on the other path ↦ (specification, how it is tied to it).  The `proved` ones name the theorem
    in `Tetl.C13.Props` (see `proofOf`).  A key `fn|callee` binds a callee of that function only (the `return`
    expressions of the special-value ladders are the same text in several functions). -/
def calleeTable : List (String × SpecId × Status) := [
  ("popcount_fallback", .popcount, .proved), ("byteswap_fallback", .bswap, .proved),
  ("add_sat_fallback", .addSat, .proved),
  -- the three returns of the `__builtin_add_overflow` branch of add_sat
  ("inline:sum", .addSat, .proved), ("inline:max", .addSat, .proved), ("inline:min", .addSat, .proved),
  ("inline:dst", .bitCast, .corr),                       -- memcpy alternative of bit_cast (not compiled by GCC/clang)
  ("strlen", .strlen, .proved), ("strcmp", .strcmp, .proved), ("strncmp", .strncmp, .proved),
  ("strchr", .strchr, .proved), ("memchr", .memchr, .proved), ("memcmp", .memcmp, .proved),
  ("memcpy", .memcpy, .proved), ("memmove", .memmove, .proved),
  ("inline:dest", .memcpy, .corr),                       -- the open-coded loop of wmemcpy (run time only, C18)
  ("gcem::floor", .floor, .proved), ("gcem::ceil", .ceil, .proved), ("gcem::trunc", .trunc, .proved),
  ("gcem::round", .round, .proved),
  ("rint_fallback", .rint, .corr), ("lrint_fallback", .lrint, .corr),
  ("copysign_fallback", .copysign, .proved),
  ("signbit_fallback", .signbit, .proved),               -- reads the sign bit of the representation (since b1ff629)
  ("inline:arg != arg", .isnan, .proved),
  ("inline:arg == etl::numeric_limits<Float>::infinity()", .isinf, .divergent),   -- misses -inf; unreachable where __builtin_isinf exists
  -- two roundings.  Since 2d96e3e constant evaluation takes the builtin wherever GCC folds it (`ct = folded`); x * y + z
  -- serves the remaining arguments: known finding F-c13-fma-constexpr-unfolded (fma_paths_partial / _counterexample)
  ("inline:x * y + z", .fma, .divergent),
  -- gcem::fmod = x - trunc(x / y) * y in floating point: inexact as soon as x/y is rounded.  Since 67c4687 / f0dd916 it is
  -- NOT reached under GCC (`ct = builtin`: special-value ladder, then the builtin on both paths); other compilers only.
  ("gcem::fmod", .fmod, .divergent),
  -- the two returns of the IEEE remainder derived from gcem::fmod (same: other compilers only)
  ("inline:r", .remainder, .divergent), ("inline:r < T(0) ? r + ay : r - ay", .remainder, .divergent),
  -- Newton iteration, 1 ulp off and 0 for tiny arguments: not reached under GCC since 55139da (`ct = builtin`)
  ("gcem::sqrt", .sqrt, .divergent),
  -- special-value ladders in front of the builtins (constant evaluation; the compiler folds the builtin for the rest)
  ("sqrt|inline:arg", .sqrt, .proved), ("sqrt|inline:numeric_limits<T>::quiet_NaN()", .sqrt, .proved),
  ("fmod|inline:numeric_limits<T>::quiet_NaN()", .fmod, .corr), ("fmod|inline:x", .fmod, .corr),           -- proved by C16: fmodCt_eq
  ("remainder|inline:numeric_limits<T>::quiet_NaN()", .remainder, .corr), ("remainder|inline:x", .remainder, .corr),
  ("gcem::sinh", .approx, .corr), ("gcem::cosh", .approx, .corr), ("gcem::tgamma", .approx, .corr),
  ("gcem::lgamma", .approx, .corr), ("gcem::erf", .approx, .corr), ("gcem::log1p", .approx, .corr),
  ("gcem::atanh", .approx, .corr), ("gcem::atan2", .approx, .corr),
  ("gcem::acos", .approx, .corr), ("gcem::acosh", .approx, .corr), ("gcem::asin", .approx, .corr),
  ("gcem::asinh", .approx, .corr), ("gcem::atan", .approx, .corr), ("gcem::cos", .approx, .corr),
  ("gcem::exp", .approx, .corr), ("gcem::log", .approx, .corr), ("gcem::log2", .approx, .corr),
  ("gcem::pow", .approx, .corr), ("gcem::sin", .approx, .corr), ("gcem::tan", .approx, .corr),
  ("gcem::tanh", .approx, .corr),
  ("inline:ptr", .infra, .corr), ("inline:false", .infra, .corr)]

/-- the theorem of `Tetl.C13.Props` behind every `proved` callee -/
def proofOf : List (String × String) := [
  ("popcount_fallback", "popcount_paths"), ("byteswap_fallback", "byteswap_paths"),
  ("add_sat_fallback", "add_sat_paths"), ("inline:sum", "add_sat_paths"), ("inline:max", "add_sat_paths"),
  ("inline:min", "add_sat_paths"),
  ("strlen", "strlen_paths"), ("strcmp", "strcmp_paths"), ("strncmp", "strncmp_paths"), ("strchr", "strchr_paths"),
  ("memchr", "memchr_paths"), ("memcmp", "memcmp_paths"), ("memcpy", "memcpy_paths"), ("memmove", "memmove_paths"),
  ("gcem::floor", "floor_paths"), ("gcem::ceil", "ceil_paths"), ("gcem::trunc", "trunc_paths"),
  ("gcem::round", "round_paths"),
  ("copysign_fallback", "copysign_paths"), ("signbit_fallback", "signbit_paths"), ("inline:arg != arg", "isnan_paths"),
  ("sqrt|inline:arg", "sqrt_paths"), ("sqrt|inline:numeric_limits<T>::quiet_NaN()", "sqrt_paths")]

def lookup {α : Type} (t : List (String × α)) (k : String) : Option α := (t.find? (·.1 == k)).map (·.2)

def fnSpec (fn : String) : Option SpecId := lookup fnTable fn
def builtinSpec (b : String) : Option SpecId := lookup builtinTable b
def calleeSpec (c : String) : Option (SpecId × Status) := lookup calleeTable c
/-- the binding of callee `c` of function `fn`: the function-specific key first -/
def calleeSpecOf (fn c : String) : Option (SpecId × Status) :=
  match lookup calleeTable (fn ++ "|" ++ c) with
  | some r => some r
  | none => calleeSpec c

/-- An entry is consistent when its function has a specification, every builtin it calls is assumed to implement
    that same specification, and every callee is tied to that same specification. -/
def entryOk (e : Entry) : Bool :=
  match fnSpec e.fn with
  | none => false
  | some s =>
    e.builtins.all (fun b => builtinSpec b.2 == some s) &&
    e.callees.all (fun c => match calleeSpecOf e.fn c with | some (s', _) => s' == s | none => false)

/-- entries whose two paths are live in the *same* program (run-time builtin; in constant evaluation a callee, for
    all arguments `ct = callee` or for those the compiler does not fold `ct = folded`), have an exactly specified
    result, and whose callee is known to differ from the specification.  Entries with `ct = builtin` run the same
    builtin on both paths under GCC: their divergent callee is compiled for other compilers only. -/
def divergentIce (t : List Entry) : List String :=
  (t.filter (fun e => e.mech == .ice && e.ct != .builtin && fnSpec e.fn != some .approx && fnSpec e.fn != some .infra &&
      e.callees.any (fun c => match calleeSpecOf e.fn c with | some (_, .divergent) => true | _ => false))).map (·.fn)

/-- entries whose constant evaluation runs the run-time builtin (after a ladder of special values) under GCC -/
def ctBuiltin (t : List Entry) : List String := (t.filter (fun e => e.ct == .builtin)).map (·.fn)

/-- every callee marked `proved` names a theorem -/
def provedHaveProofs : Bool :=
  calleeTable.all (fun r => r.2.2 != .proved || (lookup proofOf r.1).isSome)

/-- functions the anchors of the property name and that must appear in the inventory -/
def expectedFns : List String :=
  ["floor", "ceil", "trunc", "round", "rint_impl", "lrint_impl", "llrint_impl", "copysign", "signbit", "isnan", "isinf", "fma",
   "popcount", "byteswap", "bit_cast", "strlen", "strcmp", "strncmp", "strchr", "memchr", "add_sat"]

end Tetl.C13.Spec
