/- C13 line-protocol driver.

   For every case line it prints
     `<mct>/<mrt> <mct>/<mrt> <mct>/<mrt>` TAB `<s>/<s> <s>/<s> <s>/<s>`
   where `mct` is the model of the path taken in constant evaluation, `mrt` the model of the path taken at run
   time (a compiler builtin is modelled by its specification) and `s` the specification; the three groups are the
   three builds of the harness (-O0, -O2, -O1 with sanitizers), which all have the same model.
   A result the standard leaves unspecified is printed as a single `*`.

   Float arguments and results are bit patterns: arguments in decimal (64-bit ones as the signed reading of the
   pattern), results in hex, every NaN as `nan`. -/
import Tetl.Proto
import Tetl.C13.Model
import Tetl.C13.Spec
import Tetl.C14.Model
import Tetl.C14.Spec
import Tetl.C18.Model
import Tetl.C18.Spec
import Tetl.C11.Spec
namespace Tetl.C13.Driver
open Tetl Tetl.Proto Tetl.C13

def hexDigit (n : Nat) : Char := if n < 10 then Char.ofNat (48 + n) else Char.ofNat (87 + n)
def hexPad (digits n : Nat) : String :=
  String.ofList ((List.range digits).reverse.map (fun i => hexDigit (n / 16 ^ i % 16)))

def fmtF (f : Fmt) (b : Nat) : String := if f.isNaN b then "nan" else hexPad (f.width / 4) b
def fmtEF (f : Fmt) : Except Err Nat → String
  | .ok b => fmtF f b
  | .error _ => "cfail"
def fmtEI : Except Err Int → String
  | .ok i => toString i
  | .error _ => "cfail"
def fmtE {α : Type} (g : α → String) : Except Err α → String
  | .ok a => g a
  | .error e => e.fmt

def bitsArg (f : Fmt) (l : Line) (k : String) : Option Nat :=
  (l.int? k).map (fun i => (i % ((2 ^ f.width : Nat) : Int)).toNat)

def three (s : String) : String := s ++ " " ++ s ++ " " ++ s
def out3 (mct mrt s : String) : Unit × String :=
  ((), three (mct ++ "/" ++ mrt) ++ "\t" ++ three (s ++ "/" ++ s))
def unspecified : Unit × String := ((), "*\t*")

def splitOp (op : String) : String × String :=
  match (op.splitOn "_").reverse with
  | ty :: rest@(_ :: _) => ("_".intercalate rest.reverse, ty)
  | _ => (op, "")

def fmtOf : String → Option Fmt
  | "f32" => some f32 | "f64" => some f64 | _ => none

def ityOf : String → Option C14.ITy
  | "u8" => some ⟨8, false⟩ | "u16" => some ⟨16, false⟩ | "u32" => some ⟨32, false⟩ | "u64" => some ⟨64, false⟩
  | "i8" => some ⟨8, true⟩ | "i16" => some ⟨16, true⟩ | "i32" => some ⟨32, true⟩ | "i64" => some ⟨64, true⟩
  | _ => none

/-- the value of type `t` whose 64-bit signed reading is `i` (unsigned 64-bit arguments are passed that way) -/
def argOf (t : C14.ITy) (i : Int) : Int := if t.sg then i else i % ((2 ^ t.w : Nat) : Int)

def fmtPtr : Option Nat → String
  | none => "null"
  | some a => toString a

def ctypeM (f : String) (c : Int) : Option String :=
  match f with
  | "isalnum" => some (fmtBool (C18.isalnum c)) | "isalpha" => some (fmtBool (C18.isalpha c))
  | "isblank" => some (fmtBool (C18.isblank c)) | "iscntrl" => some (fmtBool (C18.iscntrl c))
  | "isdigit" => some (fmtBool (C18.isdigit c)) | "isgraph" => some (fmtBool (C18.isgraph c))
  | "islower" => some (fmtBool (C18.islower c)) | "isprint" => some (fmtBool (C18.isprint c))
  | "ispunct" => some (fmtBool (C18.ispunct c)) | "isspace" => some (fmtBool (C18.isspace c))
  | "isupper" => some (fmtBool (C18.isupper c)) | "isxdigit" => some (fmtBool (C18.isxdigit c))
  | "tolower" => some (toString (C18.tolower c)) | "toupper" => some (toString (C18.toupper c))
  | _ => none

def ctypeS (f : String) (c : Int) : Option String :=
  match f with
  | "isalnum" => some (fmtBool (C18.Spec.isalnum c)) | "isalpha" => some (fmtBool (C18.Spec.isalpha c))
  | "isblank" => some (fmtBool (C18.Spec.isblank c)) | "iscntrl" => some (fmtBool (C18.Spec.iscntrl c))
  | "isdigit" => some (fmtBool (C18.Spec.isdigit c)) | "isgraph" => some (fmtBool (C18.Spec.isgraph c))
  | "islower" => some (fmtBool (C18.Spec.islower c)) | "isprint" => some (fmtBool (C18.Spec.isprint c))
  | "ispunct" => some (fmtBool (C18.Spec.ispunct c)) | "isspace" => some (fmtBool (C18.Spec.isspace c))
  | "isupper" => some (fmtBool (C18.Spec.isupper c)) | "isxdigit" => some (fmtBool (C18.Spec.isxdigit c))
  | "tolower" => some (toString (C18.Spec.tolower c)) | "toupper" => some (toString (C18.Spec.toupper c))
  | _ => none

def floatUnary (f : Fmt) (name : String) (b : Nat) : Option (Unit × String) :=
  let rnd (m : FSpec.Mode) (ct : Except Err Nat) (rtIsBuiltin : Bool) :=
    let s := fmtF f (FSpec.roundTo f m b)
    some (out3 (fmtEF f ct) (if rtIsBuiltin then s else fmtEF f ct) s)
  match name with
  | "floor" => rnd .floor (Model.gcemFloor f b) true
  | "ceil" => rnd .ceil (Model.gcemCeil f b) true           -- __builtin_ceil{f,} at run time since 14d2458
  | "trunc" => rnd .trunc (Model.gcemTrunc f b) true
  | "round" => rnd .round (Model.gcemRound f b) true
  | "rint" => rnd .rint (Model.rintFallback f b) true
  | "lrint" | "llrint" =>
    match FSpec.lrint f 64 b with
    | none => some unspecified
    | some v => some (out3 (fmtEI (Model.lrintFallback f 64 b)) (toString v) (toString v))
  -- sqrt: the builtin on both paths under GCC (constant evaluation: special-value ladder first, Model.sqrtCt)
  | "sqrt" => let s := fmtF f (FSpec.sqrt f b); some (out3 (fmtF f (Model.sqrtCt f b)) s s)
  | "signbit" => let s := fmtBool (FSpec.signbit f b); some (out3 s s s)
  | "isnan" => let s := fmtBool (f.isNaN b); some (out3 s s s)
  | "isinf" => let s := fmtBool (f.isInf b); some (out3 s s s)
  | "isfinite" => let s := fmtBool (f.isFinite b); some (out3 s s s)
  | "bit_cast" => let s := hexPad (f.width / 4) b; some (out3 s s s)
  | _ => none

/-! ## Operations added by the review (T1..T5): the other spellings and overloads of the cmath functions, the
    `detail` fallbacks GCC never reaches, and one constant-evaluated script per remaining category. -/

/-- a NaN with its sign (`nan+` / `nan-`, payload dropped), anything else as the bit pattern -/
def fmtS (f : Fmt) (b : Nat) : String :=
  if f.isNaN b then (if f.sign b == 1 then "nan-" else "nan+") else hexPad (f.width / 4) b

/-- C 7.12.11.1 / IEC 60559 copySign: the magnitude (a NaN stays a NaN) with the sign of `y` -/
def copysignS (f : Fmt) (x y : Nat) : Nat := f.withSign (f.sign y) (f.absBits x)

/-- The values of the x87 extended format as an interchange-like format: 15 exponent bits, 63 fraction bits (the explicit
    integer bit dropped; pseudo-denormals and unnormals are not values any operation here produces). -/
def x80 : Fmt := ⟨15, 63⟩

/-- conversion of a pattern of `f` to the format `g`, to nearest even (exact when `g` is the wider one) -/
def cvt (f g : Fmt) (b : Nat) : Nat :=
  if f.isNaN b then g.withSign (f.sign b) g.qnan
  else if f.isInf b then g.withSign (f.sign b) g.inf
  else g.withSign (f.sign b) (g.roundUnits (f.mag b) ((g.U : Int) - (f.U : Int)))

/-- `LD(x, d, n)` of harness/c13_ops.hpp: the binary64 value `x`, `d` more units in the 11 low significand bits, negated -/
def ldArg (x d n : Nat) : Nat :=
  let a := cvt f64 x80 x
  let ef := f64.expo x
  let a := if d != 0 && 64 ≤ ef && ef ≤ 2045 then a + d else a
  if n % 2 == 1 then x80.neg a else a

/-- `PART(r, p)` of harness/c13_ops.hpp: `p = 0` the value rounded to binary64, `p = 1` the exact rest -/
def ldPart (p : Nat) (r : Nat) : String :=
  if x80.isNaN r then (if p == 0 then "nan" else hexPad 16 0)
  else
    let hi := cvt x80 f64 r
    if p == 0 then fmtF f64 hi
    else if f64.isInf hi then hexPad 16 0
    else fmtF f64 (cvt x80 f64 (x80.sub r (cvt f64 x80 hi)))

def ldPartE (p : Nat) : Except Err Nat → String
  | .ok r => ldPart p r
  | .error _ => "cfail"

/-- `detail::signbit_fallback<long double>` (the branch for `sizeof(T)` other than 4 and 8) since 203fe93:
    `if (arg != arg or arg == 0) return (bit_cast<uint64_t>(double(arg)) >> 63) != 0; return arg < 0;` -/
def signbitFallbackLd (a : Nat) : Bool :=
  if !x80.feq a a || x80.feq a 0 then Model.signbitFallback f64 (cvt x80 f64 a) else x80.lt a 0

def modeOf : String → Option FSpec.Mode
  | "floor" | "floorl" | "floorf" => some .floor
  | "ceil" | "ceill" | "ceilf" => some .ceil
  | "trunc" | "truncl" | "truncf" => some .trunc
  | "round" | "roundl" | "roundf" => some .round
  | "rint" | "rintl" | "rintf" => some .rint
  | _ => none

/-- lexicographic comparison of two unit strings: -1, 0, 1 -/
def cmpUnits : List Nat → List Nat → Int
  | [], [] => 0
  | [], _ :: _ => -1
  | _ :: _, [] => 1
  | a :: as, b :: bs => if a < b then -1 else if a > b then 1 else cmpUnits as bs

def posOr99 (l : List Nat) (c : Nat) : Nat := ((l.findIdx? (· == c)).getD 99)

/-- the digits of `n` in base `b`, most significant first (`0` is the single digit 0) -/
def digitsOf (b : Nat) : Nat → Nat → List Nat → List Nat
  | 0, _, acc => acc
  | fuel + 1, n, acc => if n / b == 0 then (n % b) :: acc else digitsOf b fuel (n / b) ((n % b) :: acc)

/-- [charconv.to.chars]: minus sign for a negative value, digits `0..9a..z`, no leading zeros -/
def toCharsS (x : Int) (b : Nat) : List Nat :=
  (if x < 0 then [45] else []) ++ (digitsOf b 64 x.natAbs []).map (fun d => if d < 10 then 48 + d else 87 + d)

def ldExtra (l : Line) (name : String) : Option (Unit × String) :=
  match l.int? "x" with
  | none => none
  | some xi =>
  let x := (xi % ((2 ^ 64 : Nat) : Int)).toNat
  let d := (l.nat? "d").getD 0
  let n := (l.nat? "n").getD 0
  let p := (l.nat? "p").getD 0
  match name with
  | "copysign" | "copysignl" =>
    -- long double has no builtin branch: `copysign_fallback` on both paths
    match bitsArg f64 l "y" with
    | some y =>
      let (a, b) := (ldArg x 0 (n % 2), ldArg y 0 (n / 2 % 2))
      let show_ (r : Nat) := if x80.isNaN r then fmtS x80 r else fmtF f64 (cvt x80 f64 r)
      let m := show_ (Model.copysignFallback x80 a b)
      some (out3 m m (show_ (copysignS x80 a b)))
    | none => none
  | _ =>
  let a := ldArg x d n
  let b01 (m s : Bool) := some (out3 (fmtBool m) (fmtBool m) (fmtBool s))
  match name with
  | "signbit" => b01 (FSpec.signbit x80 a) (FSpec.signbit x80 a)
  | "isnan" => b01 (x80.isNaN a) (x80.isNaN a)
  | "isinf" => b01 (x80.isInf a) (x80.isInf a)
  | "isfinite" => b01 (x80.isFinite a) (x80.isFinite a)
  | "signbit_fb" | "signbit_fb_negnan" => b01 (signbitFallbackLd a) (FSpec.signbit x80 a)
  | "lrintl" | "llrintl" | "lrint" | "llrint" =>
    -- the long double instantiation of rint_fallback is compared with the specification, not modelled
    match FSpec.lrint x80 64 a with
    | none => some unspecified
    | some v => some (out3 (toString v) (toString v) (toString v))
  | _ =>
    match modeOf name with
    | some m => let s := ldPart p (FSpec.roundTo x80 m a); some (out3 s s s)
    | none => none

def extra (l : Line) (name ty : String) : Option (Unit × String) :=
  match l.op with
  | "vec" =>
    match l.list? "a", l.int? "k", l.int? "j", l.int? "v" with
    | some a, some k, some j, some v =>
      let a := if 0 ≤ k ∧ k.toNat < a.length then a.eraseIdx k.toNat else a
      let a := if 0 ≤ j ∧ j.toNat ≤ a.length ∧ a.length < 8 then a.take j.toNat ++ v :: a.drop j.toNat else a
      let h : Int := 1000 * a.length + ((List.range a.length).zip a |>.map (fun (i, e) => ((i : Int) + 1) * e)).sum
      some (out3 (toString h) (toString h) (toString h))
    | _, _, _, _ => none
  | "istr" =>
    match l.natList? "a", l.natList? "b", l.nat? "c" with
    | some a, some b, some c =>
      let s := a ++ b
      let h := posOr99 s c + 100 * s.length
      some (out3 (toString h) (toString h) (toString h))
    | _, _, _ => none
  | "sview" =>
    match l.natList? "a", l.nat? "c", l.nat? "i", l.nat? "n" with
    | some a, some c, some i, some n =>
      let sub := (a.drop i).take n
      let h := posOr99 sub c + 100 * sub.length + 10000 * (cmpUnits sub a + 1).toNat
      some (out3 (toString h) (toString h) (toString h))
    | _, _, _, _ => none
  | "sortlb" =>
    match l.list? "a", l.int? "v" with
    | some a, some v =>
      let s := a.mergeSort (fun x y => decide (x ≤ y))
      let idx := (s.filter (fun e => decide (e < v))).length          -- first position whose element is not less than v
      let h : Int := idx + 100 * ((List.range s.length).zip s |>.map (fun (i, e) => ((i : Int) + 1) * e)).sum
      some (out3 (toString h) (toString h) (toString h))
    | _, _ => none
  | "conv" =>
    match l.int? "x", l.nat? "b" with
    | some x, some b =>
      let M : Nat := 2 ^ 64
      let h : Nat := (toCharsS x b).foldl (fun (h c : Nat) => (h * 131 + c) % M) 0
      let h : Nat := (h * 1000003 + (x % (M : Int)).toNat) % M          -- from_chars gives the value back
      let h := (h * 7 + 3) % M                                     -- whole text consumed, no error on either side
      some (out3 (toString h) (toString h) (toString h))
    | _, _ => none
  | "ymd" =>
    match l.int? "n" with
    | some n =>
      let t := C11.Spec.civil n
      let h : Int := t.y * 10000 + (t.m : Int) * 100 + (t.d : Int)
      some (out3 (toString h) (toString h) (toString h))
    | none => none
  | _ =>
  match ty with
  | "ld" => ldExtra l name
  | "f32" | "f64" =>
    match fmtOf ty with
    | none => none
    | some f =>
    match name with
    | "floorf" | "ceilf" | "truncf" | "roundf" | "rintf" | "lrintf" | "llrintf" =>
      (bitsArg f l "x").bind (fun b => floatUnary f ((name.dropEnd 1).toString) b)
    | "signbit_fb" =>
      (bitsArg f l "x").map (fun b =>
        let m := fmtBool (Model.signbitFallback f b)
        out3 m m (fmtBool (FSpec.signbit f b)))
    | "copysign" | "copysignf" =>
      -- the sign of a NaN result is observed (T3): `nan+` / `nan-`
      match bitsArg f l "x", bitsArg f l "y" with
      | some x, some y =>
        let s := fmtS f (copysignS f x y)
        some (out3 (fmtS f (Model.copysignFallback f x y)) s s)
      | _, _ => none
    | _ => none
  | "i32" | "i64" | "i16" | "i8" | "u8" =>
    match ityOf ty, l.int? "x" with
    | some t, some xi =>
      match name with
      | "byteswap" =>
        if t.sg || t.w == 8 then
          let u := (xi % ((2 ^ t.w : Nat) : Int)).toNat
          let r := C14.Spec.bswap (t.w / 8) u
          let v : Int := if t.sg && r ≥ 2 ^ (t.w - 1) then (r : Int) - ((2 ^ t.w : Nat) : Int) else r
          some (out3 (toString v) (toString v) (toString v))
        else none
      | "floor" | "ceil" | "trunc" | "round" | "rint" | "lrint" | "llrint" | "isnan" | "isinf" =>
        -- the integral overloads: the binary64 function of the converted argument (to nearest even beyond 2^53)
        if t.w == 32 || t.w == 64 then floatUnary f64 name (f64.ofInt xi) else none
      | _ => none
    | _, _ => none
  | _ => none

def step (_ : Unit) (l : Line) : Unit × String :=
  let bad := ((), "bad-op\tbad-op")
  let (name, ty) := splitOp l.op
  match l.op with
  | "strlen" =>
    match l.natList? "s" with
    | some s =>
      let b := s ++ [0]
      let m := fmtE toString (C18.strlen b 0)
      out3 m m (toString (C18.Spec.strlen b 0))
    | none => bad
  | "strcmp" =>
    match l.natList? "a", l.natList? "b" with
    | some a, some b =>
      let (a, b) := (a ++ [0], b ++ [0])
      let m := fmtE toString (C18.strcmp C18.CT.char a 0 b 0)
      out3 m m (toString (C18.Spec.strcmp (C18.Spec.key 8 false) a 0 b 0))
    | _, _ => bad
  | "strncmp" =>
    match l.natList? "a", l.natList? "b", l.nat? "n" with
    | some a, some b, some n =>
      let (a, b) := (a ++ [0], b ++ [0])
      let m := fmtE toString (C18.strncmp C18.CT.char a 0 b 0 n)
      out3 m m (toString (C18.Spec.strncmp (C18.Spec.key 8 false) a 0 b 0 n))
    | _, _, _ => bad
  | "strchr" =>
    match l.natList? "s", l.int? "c" with
    | some s, some c =>
      let b := s ++ [0]
      let m := fmtE fmtPtr (C18.strchr C18.CT.char b 0 c)
      out3 m m (fmtPtr (C18.Spec.strchr b 0 (C18.Spec.toUnit 8 c)))
    | _, _ => bad
  | "ctype" =>
    match l.str? "f", l.int? "c" with
    | some f, some c =>
      match ctypeM f c, ctypeS f c with
      | some m, some s => out3 m m s
      | _, _ => bad
    | _, _ => bad
  | _ =>
  match extra l name ty with          -- the operations added by the review (above)
  | some r => r
  | none =>
  match fmtOf ty with
  | some f =>
    match name with
    | "copysign" =>
      match bitsArg f l "x", bitsArg f l "y" with
      | some x, some y =>
        let s := fmtF f (FSpec.copysign f x y)
        out3 (fmtF f (Model.copysignFallback f x y)) s s
      | _, _ => bad
    | "fma" =>
      match bitsArg f l "x", bitsArg f l "y", bitsArg f l "z" with
      | some x, some y, some z =>
        let r := f.fma x y z
        let anyNaN := f.isNaN x || f.isNaN y || f.isNaN z
        -- outside the domain (masked): the fused result is not mathematically defined (inf·0, inf−inf: NaN from non-NaN
        -- arguments) or not representable (overflow of the single rounding of finite arguments).  Everything else is
        -- inside: in particular arguments whose two-step evaluation x*y+z would overflow while the fused result is
        -- finite (FLT_MAX·2 − FLT_MAX), and results in the subnormal range.
        let invalid := !anyNaN && f.isNaN r
        let overflow := f.isFinite x && f.isFinite y && f.isFinite z && !f.isFinite r
        if invalid || overflow then unspecified
        else
          let s := fmtF f r
          out3 (fmtEF f (Model.fmaCt f x y z)) s s
      | _, _, _ => bad
    | _ =>
      match bitsArg f l "x" with
      | some b => (floatUnary f name b).getD bad
      | none => bad
  | none =>
  match ityOf ty, l.int? "x" with
  | some t, some xi =>
    let x := argOf t xi
    match name with
    | "popcount" =>
      if t.sg then bad else
      let s := toString (C14.Spec.popcount t.w x.toNat)
      out3 (fmtE toString (C14.popcountFallback t.w x.toNat)) s s
    | "byteswap" =>
      if t.sg || t.w == 8 then bad else
      let s := toString (C14.Spec.bswap (t.w / 8) x.toNat)
      out3 s s s
    | "byteswap_fb" =>
      if t.sg || t.w == 8 then bad else
      let m := fmtE toString (C14.byteswapFallback t.w x.toNat)
      out3 m m (toString (C14.Spec.bswap (t.w / 8) x.toNat))
    | "add_sat" | "add_sat_fb" =>
      match l.int? "y" with
      | some yi =>
        let y := argOf t yi
        let m := fmtE toString (if name == "add_sat" then C14.addSat t x y else C14.addSatFallback t x y)
        out3 m m (toString (C14.Spec.clampTo t.min t.max (x + y)))
      | none => bad
    | _ => bad
  | _, _ => bad

end Tetl.C13.Driver

def main : IO Unit := Tetl.Proto.runDriver () Tetl.C13.Driver.step
