/- placeholder: the C13 driver is not built yet -/
def main : IO Unit := IO.println "C13: driver not built yet"
