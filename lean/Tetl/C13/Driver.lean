/- C13 line-protocol driver.

   For every case line it prints
     `<mct>/<mrt> <mct>/<mrt> <mct>/<mrt>` TAB `<s>/<s> <s>/<s> <s>/<s>`
   where `mct` is the model of the path taken in constant evaluation, `mrt` the model of the path taken at run
   time (a compiler builtin is modelled by its specification) and `s` the specification; the three groups are the
   three builds of the harness (-O0, -O2, -O1 with sanitizers), which all have the same model.
   A result the standard leaves unspecified is printed as a single `*`.

   Float arguments and results are bit patterns: arguments in decimal (64-bit ones as the signed reading of the
   pattern), results in hex, every NaN as `nan`. -/
import Tetl.Proto
import Tetl.C13.Model
import Tetl.C13.Spec
import Tetl.C14.Model
import Tetl.C14.Spec
import Tetl.C18.Model
import Tetl.C18.Spec
namespace Tetl.C13.Driver
open Tetl Tetl.Proto Tetl.C13

def hexDigit (n : Nat) : Char := if n < 10 then Char.ofNat (48 + n) else Char.ofNat (87 + n)
def hexPad (digits n : Nat) : String :=
  String.ofList ((List.range digits).reverse.map (fun i => hexDigit (n / 16 ^ i % 16)))

def fmtF (f : Fmt) (b : Nat) : String := if f.isNaN b then "nan" else hexPad (f.width / 4) b
def fmtEF (f : Fmt) : Except Err Nat → String
  | .ok b => fmtF f b
  | .error _ => "cfail"
def fmtEI : Except Err Int → String
  | .ok i => toString i
  | .error _ => "cfail"
def fmtE {α : Type} (g : α → String) : Except Err α → String
  | .ok a => g a
  | .error e => e.fmt

def bitsArg (f : Fmt) (l : Line) (k : String) : Option Nat :=
  (l.int? k).map (fun i => (i % ((2 ^ f.width : Nat) : Int)).toNat)

def three (s : String) : String := s ++ " " ++ s ++ " " ++ s
def out3 (mct mrt s : String) : Unit × String :=
  ((), three (mct ++ "/" ++ mrt) ++ "\t" ++ three (s ++ "/" ++ s))
def unspecified : Unit × String := ((), "*\t*")

def splitOp (op : String) : String × String :=
  match (op.splitOn "_").reverse with
  | ty :: rest@(_ :: _) => ("_".intercalate rest.reverse, ty)
  | _ => (op, "")

def fmtOf : String → Option Fmt
  | "f32" => some f32 | "f64" => some f64 | _ => none

def ityOf : String → Option C14.ITy
  | "u8" => some ⟨8, false⟩ | "u16" => some ⟨16, false⟩ | "u32" => some ⟨32, false⟩ | "u64" => some ⟨64, false⟩
  | "i8" => some ⟨8, true⟩ | "i16" => some ⟨16, true⟩ | "i32" => some ⟨32, true⟩ | "i64" => some ⟨64, true⟩
  | _ => none

/-- the value of type `t` whose 64-bit signed reading is `i` (unsigned 64-bit arguments are passed that way) -/
def argOf (t : C14.ITy) (i : Int) : Int := if t.sg then i else i % ((2 ^ t.w : Nat) : Int)

def fmtPtr : Option Nat → String
  | none => "null"
  | some a => toString a

def ctypeM (f : String) (c : Int) : Option String :=
  match f with
  | "isalnum" => some (fmtBool (C18.isalnum c)) | "isalpha" => some (fmtBool (C18.isalpha c))
  | "isblank" => some (fmtBool (C18.isblank c)) | "iscntrl" => some (fmtBool (C18.iscntrl c))
  | "isdigit" => some (fmtBool (C18.isdigit c)) | "isgraph" => some (fmtBool (C18.isgraph c))
  | "islower" => some (fmtBool (C18.islower c)) | "isprint" => some (fmtBool (C18.isprint c))
  | "ispunct" => some (fmtBool (C18.ispunct c)) | "isspace" => some (fmtBool (C18.isspace c))
  | "isupper" => some (fmtBool (C18.isupper c)) | "isxdigit" => some (fmtBool (C18.isxdigit c))
  | "tolower" => some (toString (C18.tolower c)) | "toupper" => some (toString (C18.toupper c))
  | _ => none

def ctypeS (f : String) (c : Int) : Option String :=
  match f with
  | "isalnum" => some (fmtBool (C18.Spec.isalnum c)) | "isalpha" => some (fmtBool (C18.Spec.isalpha c))
  | "isblank" => some (fmtBool (C18.Spec.isblank c)) | "iscntrl" => some (fmtBool (C18.Spec.iscntrl c))
  | "isdigit" => some (fmtBool (C18.Spec.isdigit c)) | "isgraph" => some (fmtBool (C18.Spec.isgraph c))
  | "islower" => some (fmtBool (C18.Spec.islower c)) | "isprint" => some (fmtBool (C18.Spec.isprint c))
  | "ispunct" => some (fmtBool (C18.Spec.ispunct c)) | "isspace" => some (fmtBool (C18.Spec.isspace c))
  | "isupper" => some (fmtBool (C18.Spec.isupper c)) | "isxdigit" => some (fmtBool (C18.Spec.isxdigit c))
  | "tolower" => some (toString (C18.Spec.tolower c)) | "toupper" => some (toString (C18.Spec.toupper c))
  | _ => none

def floatUnary (f : Fmt) (name : String) (b : Nat) : Option (Unit × String) :=
  let rnd (m : FSpec.Mode) (ct : Except Err Nat) (rtIsBuiltin : Bool) :=
    let s := fmtF f (FSpec.roundTo f m b)
    some (out3 (fmtEF f ct) (if rtIsBuiltin then s else fmtEF f ct) s)
  match name with
  | "floor" => rnd .floor (Model.gcemFloor f b) true
  | "ceil" => rnd .ceil (Model.gcemCeil f b) true           -- __builtin_ceil{f,} at run time since 14d2458
  | "trunc" => rnd .trunc (Model.gcemTrunc f b) true
  | "round" => rnd .round (Model.gcemRound f b) true
  | "rint" => rnd .rint (Model.rintFallback f b) true
  | "lrint" | "llrint" =>
    match FSpec.lrint f 64 b with
    | none => some unspecified
    | some v => some (out3 (fmtEI (Model.lrintFallback f 64 b)) (toString v) (toString v))
  -- sqrt: the builtin on both paths under GCC (constant evaluation: special-value ladder first, Model.sqrtCt)
  | "sqrt" => let s := fmtF f (FSpec.sqrt f b); some (out3 (fmtF f (Model.sqrtCt f b)) s s)
  | "signbit" => let s := fmtBool (FSpec.signbit f b); some (out3 s s s)
  | "isnan" => let s := fmtBool (f.isNaN b); some (out3 s s s)
  | "isinf" => let s := fmtBool (f.isInf b); some (out3 s s s)
  | "isfinite" => let s := fmtBool (f.isFinite b); some (out3 s s s)
  | "bit_cast" => let s := hexPad (f.width / 4) b; some (out3 s s s)
  | _ => none

def step (_ : Unit) (l : Line) : Unit × String :=
  let bad := ((), "bad-op\tbad-op")
  let (name, ty) := splitOp l.op
  match l.op with
  | "strlen" =>
    match l.natList? "s" with
    | some s =>
      let b := s ++ [0]
      let m := fmtE toString (C18.strlen b 0)
      out3 m m (toString (C18.Spec.strlen b 0))
    | none => bad
  | "strcmp" =>
    match l.natList? "a", l.natList? "b" with
    | some a, some b =>
      let (a, b) := (a ++ [0], b ++ [0])
      let m := fmtE toString (C18.strcmp C18.CT.char a 0 b 0)
      out3 m m (toString (C18.Spec.strcmp (C18.Spec.key 8 false) a 0 b 0))
    | _, _ => bad
  | "strncmp" =>
    match l.natList? "a", l.natList? "b", l.nat? "n" with
    | some a, some b, some n =>
      let (a, b) := (a ++ [0], b ++ [0])
      let m := fmtE toString (C18.strncmp C18.CT.char a 0 b 0 n)
      out3 m m (toString (C18.Spec.strncmp (C18.Spec.key 8 false) a 0 b 0 n))
    | _, _, _ => bad
  | "strchr" =>
    match l.natList? "s", l.int? "c" with
    | some s, some c =>
      let b := s ++ [0]
      let m := fmtE fmtPtr (C18.strchr C18.CT.char b 0 c)
      out3 m m (fmtPtr (C18.Spec.strchr b 0 (C18.Spec.toUnit 8 c)))
    | _, _ => bad
  | "ctype" =>
    match l.str? "f", l.int? "c" with
    | some f, some c =>
      match ctypeM f c, ctypeS f c with
      | some m, some s => out3 m m s
      | _, _ => bad
    | _, _ => bad
  | _ =>
  match fmtOf ty with
  | some f =>
    match name with
    | "copysign" =>
      match bitsArg f l "x", bitsArg f l "y" with
      | some x, some y =>
        let s := fmtF f (FSpec.copysign f x y)
        out3 (fmtF f (Model.copysignFallback f x y)) s s
      | _, _ => bad
    | "fma" =>
      match bitsArg f l "x", bitsArg f l "y", bitsArg f l "z" with
      | some x, some y, some z =>
        let r := f.fma x y z
        let anyNaN := f.isNaN x || f.isNaN y || f.isNaN z
        -- outside the domain (masked): the fused result is not mathematically defined (inf·0, inf−inf: NaN from non-NaN
        -- arguments) or not representable (overflow of the single rounding of finite arguments).  Everything else is
        -- inside: in particular arguments whose two-step evaluation x*y+z would overflow while the fused result is
        -- finite (FLT_MAX·2 − FLT_MAX), and results in the subnormal range.
        let invalid := !anyNaN && f.isNaN r
        let overflow := f.isFinite x && f.isFinite y && f.isFinite z && !f.isFinite r
        if invalid || overflow then unspecified
        else
          let s := fmtF f r
          out3 (fmtEF f (Model.fmaCt f x y z)) s s
      | _, _, _ => bad
    | _ =>
      match bitsArg f l "x" with
      | some b => (floatUnary f name b).getD bad
      | none => bad
  | none =>
  match ityOf ty, l.int? "x" with
  | some t, some xi =>
    let x := argOf t xi
    match name with
    | "popcount" =>
      if t.sg then bad else
      let s := toString (C14.Spec.popcount t.w x.toNat)
      out3 (fmtE toString (C14.popcountFallback t.w x.toNat)) s s
    | "byteswap" =>
      if t.sg || t.w == 8 then bad else
      let s := toString (C14.Spec.bswap (t.w / 8) x.toNat)
      out3 s s s
    | "byteswap_fb" =>
      if t.sg || t.w == 8 then bad else
      let m := fmtE toString (C14.byteswapFallback t.w x.toNat)
      out3 m m (toString (C14.Spec.bswap (t.w / 8) x.toNat))
    | "add_sat" | "add_sat_fb" =>
      match l.int? "y" with
      | some yi =>
        let y := argOf t yi
        let m := fmtE toString (if name == "add_sat" then C14.addSat t x y else C14.addSatFallback t x y)
        out3 m m (toString (C14.Spec.clampTo t.min t.max (x + y)))
      | none => bad
    | _ => bad
  | _, _ => bad

end Tetl.C13.Driver

def main : IO Unit := Tetl.Proto.runDriver () Tetl.C13.Driver.step
