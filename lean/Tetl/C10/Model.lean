/-
C10 — model of tetl's integer <-> text conversion, one model for every integer type:

* `strings::from_integer` (include/etl/_strings/from_integer.hpp, with `etl::idiv`,
  `etl::abs`, `etl::reverse`) and its wrappers `to_chars` (_charconv/to_chars.hpp) and
  `to_string<Capacity>` (_string/to_string.hpp);
* `strings::to_integer` (include/etl/_strings/to_integer.hpp, with the two overflow checkers
  and the `cctype` predicates it calls; the checkers and `parseDigit` are also TRANSLATED from the clang AST:
  Tetl/C10/Gen.lean, proved equal to the definitions here in TetlProofs/C10/GenProps.lean) and its wrapper
  `from_chars`;
* `strings::detail::strto_integer` (include/etl/_strings/strto_integer.hpp), the C grammar on top of `to_integer`,
  and its wrappers `strto*`, `ato*`, `sto*`.

An integer type is `(bits, signed)`.  Values are `Int`; every arithmetic result that the C++
converts back to `Int` goes through `IntTy.arith`, which wraps where the C++ wraps (unsigned
types, and types narrower than `int` after promotion) and is an error where the C++ has
undefined behaviour (signed overflow of `int`/`long`).  Text is a list of code units `0..255`.
Every read goes through `rd`, every write through `wr`: "never `.error`" is the memory-safety
face of the property.  Loops carry their iteration count (C08 style) or an explicit fuel.
-/
import Tetl.Common
namespace Tetl.C10
open Tetl

/-! ### integer types -/

structure IntTy where
  bits : Nat
  signed : Bool
  deriving DecidableEq, Repr

namespace IntTy

def maxV (t : IntTy) : Int := if t.signed then 2 ^ (t.bits - 1) - 1 else 2 ^ t.bits - 1
def minV (t : IntTy) : Int := if t.signed then -(2 ^ (t.bits - 1)) else 0
def inRange (t : IntTy) (x : Int) : Bool := decide (t.minV ≤ x) && decide (x ≤ t.maxV)

/-- two's complement conversion to the type (`static_cast<Int>` of a wider value) -/
def wrap (t : IntTy) (x : Int) : Int :=
  let m := x % 2 ^ t.bits
  if t.signed && decide (m ≥ 2 ^ (t.bits - 1)) then m - 2 ^ t.bits else m

/-- the value of an arithmetic expression whose operands have type `Int`, converted back to `Int`:
    exact when representable; otherwise UB for signed types that are not promoted (>= 32 bits),
    wrap-around for the others. -/
def arith (t : IntTy) (x : Int) : Except Err Int :=
  if t.inRange x then .ok x
  else if t.signed && decide (t.bits ≥ 32) then .error (.pre "signed integer overflow")
  else .ok (t.wrap x)

end IntTy

/-- checked write -/
def wr (buf : List Nat) (i x : Nat) : Except Err (List Nat) :=
  if i < buf.length then .ok (buf.set i x) else .error .oob

/-! ### from_integer -/

/-- `(digit > 9) ? (digit - 10) + 'a' : digit + '0'` -/
def digitChar (d : Nat) : Nat := if d > 9 then (d - 10) + 97 else d + 48

/-- `etl::reverse(str + s, str + e)` on the sub-range `[s, e)` of the buffer -/
def revRange (buf : List Nat) (s e : Nat) : Except Err (List Nat) :=
  if s ≤ e ∧ e ≤ buf.length then .ok (buf.take s ++ ((buf.drop s).take (e - s)).reverse ++ buf.drop e)
  else .error .oob

/-- the `while (num != 0)` loop: length check, `idiv`, digit write.  `none` = `from_integer_error::overflow`.
    `res` = 1 when a terminator has to fit as well. -/
def fiLoop (t : IntTy) (base : Int) (res len : Nat) :
    Nat → Int → List Nat → Nat → Except Err (Option (List Nat × Nat))
  | 0, _, _, _ => .error .fuel
  | f + 1, num, buf, i =>
    if num == 0 then .ok (some (buf, i))
    else if len < i + 1 + res then .ok none
    else do
      let quot ← t.arith (num.tdiv base)
      let rem ← t.arith (num.tmod base)
      let digit := rem.natAbs
      let buf ← wr buf i (digitChar digit)
      fiLoop t base res len f quot buf (i + 1)

inductive FIRes where
  | done (buf : List Nat) (endPos : Nat)
  | overflow
  deriving Repr, DecidableEq

/-- the part after the optional sign: digit loop, reverse, optional terminator -/
def fiBody (t : IntTy) (term : Bool) (base : Int) (num : Int) (buf : List Nat) (neg : Bool) (i : Nat) :
    Except Err FIRes := do
  match ← fiLoop t base (if term then 1 else 0) buf.length (num.natAbs + 1) num buf i with
  | none => .ok .overflow
  | some (buf, i) => do
    let buf ← revRange buf (if neg then 1 else 0) i
    let buf ← if term then wr buf i 0 else .ok buf
    .ok (.done buf i)

/-- `from_integer<Int, {terminate_with_null = term}>(num, str, length, base)`; `buf` is the memory
    `[str, str+length)` before the call. -/
def fromInteger (t : IntTy) (term : Bool) (num : Int) (buf : List Nat) (base : Int) : Except Err FIRes :=
  let res := if term then 1 else 0
  -- the precondition of [charconv.to.chars] (`base` in `[2, 36]`), not a `TETL_PRECONDITION`: the code has
  -- no check (base 1 never terminates, base 0 divides by zero in `idiv`); the theorems assume it
  if base < 2 || base > 36 then .error (.pre "2 <= base <= 36")
  else if !t.inRange num then .error (.pre "num is a value of Int")
  else if num == 0 then
    if buf.length < 1 + res then .ok .overflow
    else do
      let buf ← wr buf 0 48
      let buf ← if term then wr buf 1 0 else .ok buf
      .ok (.done buf 1)
  else if t.signed && decide (num < 0) then
    if buf.length < 0 + 1 + res then .ok .overflow
    else do
      let buf ← wr buf 0 45
      fiBody t term base num buf true 1
  else fiBody t term base num buf false 0

inductive TCRes where
  | ok (buf : List Nat) (ptr : Nat)
  | tooLarge (ptr : Nat)
  deriving Repr, DecidableEq

/-- `to_chars(first, last, val, base)`: `from_integer` without terminator; error -> `{last, value_too_large}` -/
def toChars (t : IntTy) (v : Int) (buf : List Nat) (base : Int) : Except Err TCRes := do
  match ← fromInteger t false v buf base with
  | .done b e => .ok (.ok b e)
  | .overflow => .ok (.tooLarge buf.length)

/-- `to_string<Capacity>(val)`: zeroed buffer, `from_integer` with terminator in base 10,
    `TETL_PRECONDITION(no error)`, string from `[buffer, end)`. -/
def toStr (t : IntTy) (cap : Nat) (v : Int) : Except Err (List Nat) := do
  match ← fromInteger t true v (List.replicate cap 0) 10 with
  | .done b e => if e ≤ b.length then .ok (b.take e) else .error .oob
  | .overflow => .error (.pre "to_string: Capacity holds the digits and the terminator")

/-! ### to_integer -/

/-- `static_cast<int>(char)` (plain `char` is signed on the platform of the harness) -/
def toInt (c : Nat) : Int := if c < 128 then (c : Int) else (c : Int) - 256

def isspace (ch : Int) : Bool := ch == 32 || ch == 12 || ch == 10 || ch == 13 || ch == 9 || ch == 11
def isdigit (ch : Int) : Bool := decide (ch ≥ 48) && decide (ch ≤ 57)
def isupper (ch : Int) : Bool := decide (ch ≥ 65) && decide (ch ≤ 90)
def isalpha (ch : Int) : Bool := (decide (ch ≥ 97) && decide (ch ≤ 122)) || (decide (ch ≥ 65) && decide (ch ≤ 90))
def tolower (ch : Int) : Int := if isupper ch then ch + 32 else ch

/-- the `parseDigit` lambda; the results 0..35 are representable in every `Int`, the fall-back is
    `numeric_limits<Int>::max()` -/
def parseDigit (t : IntTy) (ch : Int) : Int :=
  if isdigit ch then ch - 48
  else if isalpha ch then tolower ch - 97 + 10
  else t.maxV

/-- `signed_overflow_checker` / `unsigned_overflow_checker`: `operator()(value, digit)`.
    (`min / base`, `min % base`, `max / base`, `max % base` are representable: no cast effect.) -/
def wouldOverflow (t : IntTy) (base value digit : Int) : Bool :=
  if t.signed then
    let minDivBase := t.minV.tdiv base
    let minModBase := (t.minV.tmod base).natAbs
    decide (value < minDivBase) || (value == minDivBase && decide (digit > minModBase))
  else
    let maxDivBase := t.maxV.tdiv base
    let maxModBase := t.maxV.tmod base
    decide (value > maxDivBase) || (value == maxDivBase && decide (digit > maxModBase))

/-- `while (pos != length and isspace(str[pos])) ++pos;` — `n` = `length - pos` -/
def skipWs (s : List Nat) : Nat → Nat → Except Err Nat
  | 0, pos => .ok pos
  | n + 1, pos => do
    let c ← rd s pos
    if isspace (toInt c) then skipWs s n (pos + 1) else .ok pos

/-- `for (; pos != length; ++pos)` over the remaining digits; `none` = overflow reported -/
def tiLoop (t : IntTy) (base : Int) (s : List Nat) : Nat → Nat → Int → Except Err (Option (Int × Nat))
  | 0, pos, value => .ok (some (value, pos))
  | n + 1, pos, value => do
    let c ← rd s pos
    let digit := parseDigit t (toInt c)
    if digit ≥ base then .ok (some (value, pos))
    else if wouldOverflow t base value digit then .ok none
    else do
      let value ← t.arith (if t.signed then value * base - digit else value * base + digit)
      tiLoop t base s n (pos + 1) value

inductive TIErr where | none | invalid | overflow
  deriving Repr, DecidableEq

structure TIRes where
  endPos : Nat
  err : TIErr
  value : Int
  deriving Repr, DecidableEq

/-- `makeError`: `end = str.data()`, `value = Int{}` -/
def TIRes.mkErr (e : TIErr) : TIRes := ⟨0, e, 0⟩

/-- the "first digit" lambda: `static_cast<Int>(-digit)` for signed types, `digit` otherwise -/
def firstValue (t : IntTy) (digit : Int) : Except Err Int :=
  if t.signed then t.arith (-digit) else .ok digit

/-- `to_integer` from the first digit on; `neg` = a minus sign was consumed, `pos1` = current `pos` -/
def toIntegerDigits (t : IntTy) (s : List Nat) (base : Int) (neg : Bool) (pos1 : Nat) : Except Err TIRes := do
  let c1 ← rd s pos1
  let digit := parseDigit t (toInt c1)
  let value ← firstValue t digit
  let pos2 := pos1 + 1
  if (if value < 0 then -value else value) ≥ base then .ok (.mkErr .invalid)
  else do
    match ← tiLoop t base s (s.length - pos2) pos2 value with
    | none => .ok (.mkErr .overflow)
    | some (value, pos) =>
      if t.signed && !neg then
        if value == t.minV then .ok (.mkErr .overflow)
        else do
          let v ← t.arith (value * (-1))
          .ok ⟨pos, .none, v⟩
      else .ok ⟨pos, .none, value⟩

/-- the `if (base == Int(0))` block (`strtol`'s auto-detection, after the optional sign; the caller has
    checked `pos != length`): `0x`/`0X` followed by a hex digit selects base 16 and the prefix is skipped,
    any other leading `0` selects base 8, everything else base 10.  Returns `(base, pos)`.
    `length - pos > 2 and (str[pos+1] == 'x' or str[pos+1] == 'X') and parseDigit(str[pos+2]) < Int(16)`
    short-circuits left to right: the nested `if`s. -/
def detectBase (t : IntTy) (s : List Nat) (pos : Nat) : Except Err (Int × Nat) := do
  let c0 ← rd s pos
  if c0 == 48 then
    if s.length - pos > 2 then do
      let c1 ← rd s (pos + 1)
      if c1 == 120 || c1 == 88 then do
        let c2 ← rd s (pos + 2)
        if parseDigit t (toInt c2) < 16 then .ok (16, pos + 2) else .ok (8, pos)
      else .ok (8, pos)
    else .ok (8, pos)
  else .ok (10, pos)

/-- `to_integer` after the white-space loop, `pos0` = current `pos` -/
def toIntegerAt (t : IntTy) (s : List Nat) (base : Int) (pos0 : Nat) : Except Err TIRes :=
  if pos0 == s.length then .ok (.mkErr .invalid)
  else do
    let c0 ← rd s pos0
    let neg := t.signed && (toInt c0 == 45)
    let pos1 := if neg then pos0 + 1 else pos0
    if neg && pos1 == s.length then .ok (.mkErr .invalid)
    else if base == 0 then do
      let (b, p) ← detectBase t s pos1
      toIntegerDigits t s b neg p
    else toIntegerDigits t s base neg pos1

/-- `to_integer<Int, {skip_whitespace = ws, check_overflow = true}>(str, base)` (the configuration of every
    wrapper; `check_overflow = false` is `toIntegerNC` below); `base` is 0
    (auto-detect, as `strtol`) or in `[2, 36]` — the precondition of [charconv.from.chars] / C17 7.22.1.4,
    not a `TETL_PRECONDITION` (the code has no check). -/
def toInteger (t : IntTy) (ws : Bool) (s : List Nat) (base : Int) : Except Err TIRes :=
  if base != 0 && (base < 2 || base > 36) then .error (.pre "base = 0 or 2 <= base <= 36")
  else do
    let pos0 ← if ws then skipWs s s.length 0 else .ok 0
    toIntegerAt t s base pos0

/-! ### `check_overflow = false` (`nop_overflow_checker`) -/

/-- the digit loop with `nop_overflow_checker` (`wouldOverflow` is constantly `false`): no `overflow` exit;
    an accumulation step that leaves the type wraps (unsigned / promoted types) or is undefined behaviour
    (`int`, `long`: `.error`) -/
def tiLoopNC (t : IntTy) (base : Int) (s : List Nat) : Nat → Nat → Int → Except Err (Int × Nat)
  | 0, pos, value => .ok (value, pos)
  | n + 1, pos, value => do
    let c ← rd s pos
    let digit := parseDigit t (toInt c)
    if digit ≥ base then .ok (value, pos)
    else do
      let value ← t.arith (if t.signed then value * base - digit else value * base + digit)
      tiLoopNC t base s n (pos + 1) value

def toIntegerDigitsNC (t : IntTy) (s : List Nat) (base : Int) (neg : Bool) (pos1 : Nat) : Except Err TIRes := do
  let c1 ← rd s pos1
  let digit := parseDigit t (toInt c1)
  let value ← firstValue t digit
  let pos2 := pos1 + 1
  if (if value < 0 then -value else value) ≥ base then .ok (.mkErr .invalid)
  else do
    let (value, pos) ← tiLoopNC t base s (s.length - pos2) pos2 value
    if t.signed && !neg then
      if value == t.minV then .ok (.mkErr .overflow)
      else do
        let v ← t.arith (value * (-1))
        .ok ⟨pos, .none, v⟩
    else .ok ⟨pos, .none, value⟩

def toIntegerAtNC (t : IntTy) (s : List Nat) (base : Int) (pos0 : Nat) : Except Err TIRes :=
  if pos0 == s.length then .ok (.mkErr .invalid)
  else do
    let c0 ← rd s pos0
    let neg := t.signed && (toInt c0 == 45)
    let pos1 := if neg then pos0 + 1 else pos0
    if neg && pos1 == s.length then .ok (.mkErr .invalid)
    else if base == 0 then do
      let (b, p) ← detectBase t s pos1
      toIntegerDigitsNC t s b neg p
    else toIntegerDigitsNC t s base neg pos1

/-- `to_integer<Int, {skip_whitespace = ws, check_overflow = false}>(str, base)` -/
def toIntegerNC (t : IntTy) (ws : Bool) (s : List Nat) (base : Int) : Except Err TIRes :=
  if base != 0 && (base < 2 || base > 36) then .error (.pre "base = 0 or 2 <= base <= 36")
  else do
    let pos0 ← if ws then skipWs s s.length 0 else .ok 0
    toIntegerAtNC t s base pos0

inductive FCRes where
  | ok (v : Int) (ptr : Nat)
  | invalid (ptr : Nat)
  | range (ptr : Nat)
  deriving Repr, DecidableEq

/-- `from_chars(first, last, value, base)`: no whitespace skipping; both errors return `ptr = first` -/
def fromChars (t : IntTy) (s : List Nat) (base : Int) : Except Err FCRes := do
  let r ← toInteger t false s base
  match r.err with
  | .overflow => .ok (.range 0)
  | .invalid => .ok (.invalid 0)
  | .none => .ok (.ok r.value r.endPos)

/-- `strlen`: the C string functions see the text up to the first NUL -/
def cstrOf (s : List Nat) : List Nat := s.takeWhile (· != 0)

/-! ### the C library conversion `strings::detail::strto_integer` (include/etl/_strings/strto_integer.hpp)

`strtol`, `strtoll`, `strtoul`, `strtoull`, `atoi`, `atol`, `atoll` and `sto*` are this function on the C string /
the view.  It does the pre-processing of C17 7.22.1.4 itself — white space, one sign `+`/`-`, a `0x`/`0X` prefix
in base 16 — and converts the digits with `to_integer` in the UNSIGNED type of the same width (`UInt`); base 0 is
passed on to `to_integer`, which detects the base. -/

/-- `etl::isxdigit` -/
def isxdigit (ch : Int) : Bool :=
  (decide (ch ≥ 48) && decide (ch ≤ 57)) || (decide (ch ≥ 97) && decide (ch ≤ 102)) ||
    (decide (ch ≥ 65) && decide (ch ≤ 70))

/-- `if (pos != length and (str[pos] == '+' or str[pos] == '-')) { negative = str[pos] == '-'; ++pos; }`;
    returns `(negative, pos)` -/
def strtoSign (s : List Nat) (pos : Nat) : Except Err (Bool × Nat) :=
  if pos != s.length then do
    let c ← rd s pos
    if c == 43 || c == 45 then .ok (c == 45, pos + 1) else .ok (false, pos)
  else .ok (false, pos)

/-- `if (base == 16 and length - pos > 2 and str[pos] == '0' and (str[pos + 1] == 'x' or str[pos + 1] == 'X')
    and isxdigit(str[pos + 2]) != 0) pos += 2;` — short-circuit evaluation left to right: the nested `if`s -/
def strtoPrefix (s : List Nat) (base : Int) (pos : Nat) : Except Err Nat :=
  if base == 16 && decide (s.length - pos > 2) then do
    let c0 ← rd s pos
    if c0 == 48 then do
      let c1 ← rd s (pos + 1)
      if c1 == 120 || c1 == 88 then do
        let c2 ← rd s (pos + 2)
        if isxdigit (toInt c2) then .ok (pos + 2) else .ok pos
      else .ok pos
    else .ok pos
  else .ok pos

/-- `strto_integer` from the conversion of the digits on: `digits = str.substr(pos)`, converted as
    `UInt = make_unsigned_t<Int>`; on `overflow` a second pass without the overflow check (`toIntegerNC`;
    unsigned arithmetic wraps) finds the end of the digits and the result is the saturated value; a magnitude
    above `max()` (`max() + 1` after a `-`) saturates as well; `-` negates in `UInt` and the result is converted
    to `Int` (`static_cast`: two's complement).  (`max() + negative` is representable in `UInt`: no cast effect.)
    Returns `(value, end - str.data())`. -/
def strtoDigits (t : IntTy) (negative : Bool) (pos : Nat) (digits : List Nat) (base : Int) :
    Except Err (Int × Nat) := do
  let u : IntTy := ⟨t.bits, false⟩
  let saturated := if t.signed then (if negative then t.minV else t.maxV) else t.maxV
  let r ← toInteger u false digits base
  match r.err with
  | .invalid => .ok (0, 0)
  | .overflow => do
    let all ← toIntegerNC u false digits base
    .ok (saturated, pos + all.endPos)
  | .none =>
    let magnitude := r.value
    let limit := t.maxV + (if negative then 1 else 0)
    if t.signed && decide (magnitude > limit) then .ok (saturated, pos + r.endPos)
    else if negative then .ok (t.wrap (u.wrap (0 - magnitude)), pos + r.endPos)
    else .ok (t.wrap magnitude, pos + r.endPos)

/-- `strto_integer` after the white-space loop, `pos0` = current `pos`: sign, prefix, `substr`
    (`TETL_PRECONDITION(pos <= size())`), digits -/
def strtoAt (t : IntTy) (s : List Nat) (base : Int) (pos0 : Nat) : Except Err (Int × Nat) := do
  let (negative, pos1) ← strtoSign s pos0
  let pos ← strtoPrefix s base pos1
  if pos ≤ s.length then strtoDigits t negative pos (s.drop pos) base
  else .error (.pre "substr: pos <= size()")

/-- `strto_integer<Int>(str, base)`: returns `(value, end - str.data())`.  `base` is 0 or in `[2, 36]` (C17
    7.22.1.4; the code has no check). -/
def strto (t : IntTy) (s : List Nat) (base : Int) : Except Err (Int × Nat) :=
  if base != 0 && (base < 2 || base > 36) then .error (.pre "base = 0 or 2 <= base <= 36")
  else do
    let pos0 ← skipWs s s.length 0
    strtoAt t s base pos0

/-- `strtol/strtoll/strtoul/strtoull(str, &last, base)` on a `char const*`: the `string_view(str)`
    constructor measures the text with `strlen`, i.e. nothing at or after the first NUL is looked at -/
def cstrto (t : IntTy) (s : List Nat) (base : Int) : Except Err (Int × Nat) := strto t (cstrOf s) base

/-- `atoi/atol/atoll(str)` = `strto_integer<R>(str, 10).value` -/
def ato (t : IntTy) (s : List Nat) : Except Err Int := do
  let r ← strto t (cstrOf s) 10
  .ok r.1

/-- `to_chars` into a buffer that is large enough, then `from_chars` on `[buffer, ptr)` -/
def roundTrip (t : IntTy) (v : Int) (base : Int) : Except Err (Option (FCRes × Nat)) := do
  match ← toChars t v (List.replicate 72 0) base with
  | .ok b e => do
    let r ← fromChars t (b.take e) base
    .ok (some (r, e))
  | .tooLarge _ => .ok none

end Tetl.C10
