/-
C10 — reference semantics ([charconv.to.chars], [charconv.from.chars], C17 7.22.1.4 strtol,
[string.conversions]) stated over `Nat`/`Int` and lists of code units.  No buffers, no
accumulators, no overflow checkers: a number *is* its digit list.
-/
import Tetl.C10.Model
namespace Tetl.C10.Spec
open Tetl.C10

/-! ### formatting -/

/-- most significant digit first; `[]` for 0 -/
def digits (b n : Nat) : List Nat :=
  if _h : n = 0 ∨ b < 2 then [] else digits b (n / b) ++ [n % b]
termination_by n
decreasing_by exact Nat.div_lt_self (by omega) (by omega)

/-- `0..9 -> '0'..'9'`, `10..35 -> 'a'..'z'` -/
def digitChar (d : Nat) : Nat := if d < 10 then 48 + d else 87 + d

/-- the text of `v` in base `b`: `-` for negative values, no leading zeros, `0` for zero -/
def render (v : Int) (b : Nat) : List Nat :=
  if v = 0 then [48]
  else (if v < 0 then [45] else []) ++ (digits b v.natAbs).map digitChar

/-- [charconv.to.chars]: the text if it fits into `[first,last)` (nothing else is touched),
    otherwise `value_too_large` with `ptr = last` -/
def toChars (v : Int) (b : Nat) (buf : List Nat) : TCRes :=
  let r := render v b
  if r.length ≤ buf.length then .ok (r ++ buf.drop r.length) r.length else .tooLarge buf.length

/-- `from_integer`: the same with an optional terminating NUL that must fit as well -/
def fromInteger (term : Bool) (v : Int) (b : Nat) (buf : List Nat) : FIRes :=
  let r := render v b
  let out := if term then r ++ [0] else r
  if out.length ≤ buf.length then .done (out ++ buf.drop out.length) r.length else .overflow

/-! ### parsing -/

/-- white space of the "C" locale -/
def isSpace (c : Nat) : Bool := c == 32 || (decide (9 ≤ c) && decide (c ≤ 13))

def digitVal (c : Nat) : Option Nat :=
  if 48 ≤ c ∧ c ≤ 57 then some (c - 48)
  else if 97 ≤ c ∧ c ≤ 122 then some (c - 87)
  else if 65 ≤ c ∧ c ≤ 90 then some (c - 55)
  else none

def isDigitOf (b : Nat) (c : Nat) : Bool :=
  match digitVal c with
  | some d => decide (d < b)
  | none => false

/-- value of a digit string, most significant digit first -/
def valueOf (b : Nat) (ds : List Nat) : Nat :=
  ds.foldl (fun acc c => match digitVal c with | some d => acc * b + d | none => acc) 0

inductive PRes where
  | ok (v : Int) (n : Nat)     -- value, number of characters consumed
  | invalid                    -- no characters match the pattern
  | range (n : Nat)            -- pattern matched `n` characters, value not representable
  deriving Repr, DecidableEq

/-- [charconv.from.chars] pattern: optional `-` (signed types only), then the longest non-empty run
    of digits of base `b`.  With `ws`, leading white space is skipped first (`to_integer`'s default). -/
def parse (t : IntTy) (ws : Bool) (s : List Nat) (b : Nat) : PRes :=
  let s1 := if ws then s.dropWhile isSpace else s
  let neg := t.signed && (s1.head? == some 45)
  let s2 := if neg then s1.drop 1 else s1
  let ds := s2.takeWhile (isDigitOf b)
  if ds.isEmpty then .invalid
  else
    let v : Int := if neg then -(valueOf b ds : Int) else (valueOf b ds : Int)
    let n := s.length - s2.length + ds.length
    if t.inRange v then .ok v n else .range n

/-- `0x` / `0X` followed by a hexadecimal digit (C17 7.22.1.4: the prefix belongs to the subject sequence
    only when a digit follows; otherwise the subject sequence is the `0`) -/
def hexPrefix (s : List Nat) : Bool :=
  match s with
  | 48 :: x :: d :: _ => (x == 120 || x == 88) && isDigitOf 16 d
  | _ => false

/-- `to_integer` with base 0: the pattern of `parse` with the base taken from the text as C17 7.22.1.4
    does for `strtol(.., 0)` — after the optional `-`: `0x`/`0X` + hex digit = hexadecimal (prefix
    consumed), another leading `0` = octal, anything else decimal. -/
def parseAuto (t : IntTy) (ws : Bool) (s : List Nat) : PRes :=
  let s1 := if ws then s.dropWhile isSpace else s
  let neg := t.signed && (s1.head? == some 45)
  let s2 := if neg then s1.drop 1 else s1
  let hex := hexPrefix s2
  let b := if hex then 16 else if s2.head? == some 48 then 8 else 10
  let s3 := if hex then s2.drop 2 else s2
  let ds := s3.takeWhile (isDigitOf b)
  if ds.isEmpty then .invalid
  else
    let v : Int := if neg then -(valueOf b ds : Int) else (valueOf b ds : Int)
    let n := s.length - s3.length + ds.length
    if t.inRange v then .ok v n else .range n

/-! ### strtol family (C17 7.22.1.4, glibc) -/

structure StrtoRes where
  value : Int
  endPos : Nat
  erange : Bool
  deriving Repr, DecidableEq

/-- `strtol`/`strtoul` on a C string: white space, optional sign `+`/`-`, optional `0x` (base 16 or 0),
    base 0 = auto-detect, digits; saturation with `ERANGE`; `strtoul` negates modulo `2^bits`. -/
def strto (t : IntTy) (s0 : List Nat) (base : Nat) : StrtoRes :=
  let s1 := s0.dropWhile isSpace
  let neg := s1.head? == some 45
  let s2 := if s1.head? == some 45 || s1.head? == some 43 then s1.drop 1 else s1
  let hex := (base == 0 || base == 16) && hexPrefix s2
  let b := if hex then 16 else if base == 0 then (if s2.head? == some 48 then 8 else 10) else base
  let s3 := if hex then s2.drop 2 else s2
  let ds := s3.takeWhile (isDigitOf b)
  if ds.isEmpty then ⟨0, 0, false⟩
  else
    let n := s0.length - s3.length + ds.length
    let m : Int := valueOf b ds
    if t.signed then
      let v := if neg then -m else m
      if v > t.maxV then ⟨t.maxV, n, true⟩
      else if v < t.minV then ⟨t.minV, n, true⟩
      else ⟨v, n, false⟩
    else if m > t.maxV then ⟨t.maxV, n, true⟩
    else ⟨if neg then t.wrap (-m) else m, n, false⟩

/-! ### input classes of the recorded deviations of the `strto*`/`sto*`/`ato*` family -/

/-- the text after white space starts with `+` -/
def plusSign (s : List Nat) : Bool := (s.dropWhile isSpace).head? == some 43

/-- after white space and sign the text starts with `0x`/`0X` + hex digit and the base is 16 -/
def basePrefix (s : List Nat) (base : Nat) : Bool :=
  let s1 := s.dropWhile isSpace
  let s2 := if s1.head? == some 45 || s1.head? == some 43 then s1.drop 1 else s1
  base == 16 && hexPrefix s2

/-- `strtoul`-style negation: unsigned result type and a `-` sign -/
def unsignedMinus (t : IntTy) (s : List Nat) : Bool :=
  !t.signed && (s.dropWhile isSpace).head? == some 45

end Tetl.C10.Spec
