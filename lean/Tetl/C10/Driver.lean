/- placeholder: the C10 driver is not built yet -/
def main : IO Unit := IO.println "C10: driver not built yet"
