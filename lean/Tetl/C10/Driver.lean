/- C10 line-protocol driver: prints `model <TAB> spec` for each case line (formats: harness/c10.cpp). -/
import Tetl.Proto
import Tetl.C10.Model
import Tetl.C10.Spec
namespace Tetl.C10.Driver
open Tetl Tetl.Proto Tetl.C10

def FILL : Nat := 170

def tyOf (s : String) : Option IntTy :=
  match s with
  | "i8" => some ⟨8, true⟩ | "u8" => some ⟨8, false⟩
  | "i16" => some ⟨16, true⟩ | "u16" => some ⟨16, false⟩
  | "i32" => some ⟨32, true⟩ | "u32" => some ⟨32, false⟩
  | "i64" | "ill" => some ⟨64, true⟩ | "u64" | "ull" => some ⟨64, false⟩
  -- character types (integral, not bool): plain `char` and `wchar_t` are signed on the harness platform
  | "c8" => some ⟨8, true⟩ | "c8u" => some ⟨8, false⟩ | "c16" => some ⟨16, false⟩
  | "c32" => some ⟨32, false⟩ | "wc" => some ⟨32, true⟩
  | _ => none

def fnTy (s : String) : Option IntTy :=
  match s with
  | "strtol" | "strtoll" | "atol" | "atoll" | "stol" | "stoll" => some ⟨64, true⟩
  | "strtoul" | "strtoull" | "stoul" | "stoull" => some ⟨64, false⟩
  | "atoi" | "stoi" => some ⟨32, true⟩
  | _ => none

/-- `v` of an unsigned type may be given as its two's complement signed reading -/
def valueOf (t : IntTy) (v : Int) : Int := if !t.signed && v < 0 then v + 2 ^ t.bits else v

def fmtE {α : Type} (f : α → String) : Except Err α → String
  | .ok a => f a
  | .error e => e.fmt

def fmtTC : TCRes → String
  | .ok b p => s!"ok({p},{fmtNatList b})"
  | .tooLarge p => s!"too_large({p})"

def fmtFI : FIRes → String
  | .done b p => s!"ok({p},{fmtNatList b})"
  | .overflow => "overflow"

def fmtFC : FCRes → String
  | .ok v p => s!"ok({v},{p})"
  | .invalid p => s!"invalid(77,{p})"
  | .range p => s!"range(77,{p})"

def fmtP : Spec.PRes → String
  | .ok v p => s!"ok({v},{p})"
  | .invalid => "invalid(77,0)"
  | .range p => s!"range(77,{p})"

def fmtTI (r : TIRes) : String :=
  match r.err with
  | .none => s!"none({r.value},{r.endPos})"
  | .invalid => s!"invalid({r.endPos})"
  | .overflow => "overflow"

def fmtPTI : Spec.PRes → String
  | .ok v p => s!"none({v},{p})"
  | .invalid => "invalid(0)"
  | .range _ => "overflow"

def txt (l : List Nat) : String := String.ofList (l.map Char.ofNat)

/-- one base of `to_chars_all` on the model -/
def allOneModel (t : IntTy) (v : Int) (b : Nat) : Except Err String := do
  let len := (Spec.render v b).length
  let r1 ← toChars t v (List.replicate len FILL) b
  let r2 ← toChars t v (List.replicate (len - 1) FILL) b
  let less := match r2 with | .ok _ _ => "<" | .tooLarge _ => ""
  match r1 with
  | .tooLarge _ => .ok ("E" ++ less)
  | .ok buf p => do
    let text := buf.take p
    let back ← fromChars t text b
    let rt := match back with
      | .ok w q => if w == v && q == text.length then "" else "!"
      | _ => "!"
    .ok (txt text ++ less ++ rt)

/-- one base of `to_chars_all` on the spec -/
def allOneSpec (t : IntTy) (v : Int) (b : Nat) : String :=
  let r := Spec.render v b
  let less := match Spec.toChars v b (List.replicate (r.length - 1) FILL) with | .ok _ _ => "<" | .tooLarge _ => ""
  let rt := match Spec.parse t false r b with
    | .ok w q => if w == v && q == r.length then "" else "!"
    | _ => "!"
  txt r ++ less ++ rt

def bases : List Nat := List.range' 2 35

/-- the reference pattern of `to_integer` / `from_chars`: base 0 = the base is taken from the text -/
def specParse (t : IntTy) (ws : Bool) (s : List Nat) (b : Int) : Spec.PRes :=
  if b == 0 then Spec.parseAuto t ws s else Spec.parse t ws s b.toNat

def step (_ : Unit) (l : Line) : Unit × String :=
  let bad := ((), "bad-op\tbad-op")
  let out (m s : String) := ((), m ++ "\t" ++ s)
  let ty := (l.str? "ty").bind tyOf
  let fn := (l.str? "fn").getD ""
  match l.op with
  | "to_chars" =>
    match ty, l.int? "v", l.int? "base", l.nat? "len" with
    | some t, some v, some b, some len =>
      let v := valueOf t v
      let buf := List.replicate len FILL
      out (fmtE fmtTC (toChars t v buf b)) (fmtTC (Spec.toChars v b.toNat buf))
    | _, _, _, _ => bad
  | "from_integer" =>
    match ty, l.int? "v", l.int? "base", l.nat? "len", l.nat? "term" with
    | some t, some v, some b, some len, some term =>
      let v := valueOf t v
      let buf := List.replicate len FILL
      out (fmtE fmtFI (fromInteger t (term != 0) v buf b)) (fmtFI (Spec.fromInteger (term != 0) v b.toNat buf))
    | _, _, _, _, _ => bad
  | "to_string" =>
    match tyOf fn, l.int? "v", l.nat? "cap" with
    | some t, some v, some cap =>
      let v := valueOf t v
      let f := fun (s : List Nat) => s!"ok({s.length},{fmtNatList s},1)"
      out (fmtE f (toStr t cap v)) (f (Spec.render v 10))
    | _, _, _ => bad
  | "from_chars" =>
    match ty, l.natList? "s", l.int? "base" with
    | some t, some s, some b => out (fmtE fmtFC (fromChars t s b)) (fmtP (specParse t false s b))
    | _, _, _ => bad
  | "to_integer" =>
    match ty, l.natList? "s", l.int? "base", l.nat? "ws" with
    | some t, some s, some b, some ws =>
      out (fmtE fmtTI (toInteger t (ws != 0) s b)) (fmtPTI (specParse t (ws != 0) s b))
    | _, _, _, _ => bad
  | "to_integer_nc" =>
    -- check_overflow = false: a value that is not representable is outside the option's contract (`*`);
    -- the model still says what the code does there (wrap-around), which the correspondence run compares
    match ty, l.natList? "s", l.int? "base", l.nat? "ws" with
    | some t, some s, some b, some ws =>
      let sp := specParse t (ws != 0) s b
      out (fmtE fmtTI (toIntegerNC t (ws != 0) s b)) (match sp with | .range _ => "*" | _ => fmtPTI sp)
    | _, _, _, _ => bad
  | "cstr" =>
    match fnTy fn, l.natList? "s", l.int? "base" with
    | some t, some s, some b =>
      let sp := Spec.strto t (cstrOf s) b.toNat
      if fn.startsWith "ato" then
        out (fmtE toString (ato t s)) (if sp.erange then "*" else toString sp.value)
      else
        let f := fun (r : Int × Nat) => s!"{r.1},{r.2}"
        out (fmtE f (cstrto t s b)) s!"{sp.value},{sp.endPos}"
    | _, _, _ => bad
  | "cstr_erange" =>
    -- `errno == ERANGE` of the C library against the `erange` flag of the spec; the implementation has no errno
    match fnTy fn, l.natList? "s", l.int? "base" with
    | some t, some s, some b => out "*" (fmtBool (Spec.strto t (cstrOf s) b.toNat).erange)
    | _, _, _ => bad
  | "sto" =>
    match fnTy fn, l.natList? "s", l.int? "base" with
    | some t, some s, some b =>
      let sp := Spec.strto t (cstrOf s) b.toNat
      let f := fun (r : Int × Nat) => s!"ok({r.1},{r.2})"
      let spOut := if sp.erange then "range" else if sp.endPos == 0 then "invalid" else s!"ok({sp.value},{sp.endPos})"
      out (fmtE f (strto t s b)) spOut
    | _, _, _ => bad
  | "to_chars_all" =>
    match ty, l.int? "v" with
    | some t, some v =>
      let v := valueOf t v
      let m := bases.mapM (allOneModel t v)
      out (fmtE (fun xs => ",".intercalate xs) m) (",".intercalate (bases.map (allOneSpec t v)))
    | _, _ => bad
  | "round_trip" =>
    match ty, l.int? "v", l.int? "base" with
    | some t, some v, some b =>
      let v := valueOf t v
      let f := fun (r : Option (FCRes × Nat)) =>
        match r with
        | none => "to_chars-failed"
        | some (.ok w p, e) => s!"ok({w},{fmtBool (p == e)})"
        | some (.invalid p, e) => s!"err(77,{fmtBool (p == e)})"
        | some (.range p, e) => s!"err(77,{fmtBool (p == e)})"
      out (fmtE f (roundTrip t v b)) s!"ok({v},1)"
    | _, _, _ => bad
  | _ => bad

end Tetl.C10.Driver

def main : IO Unit := Tetl.Proto.runDriver () Tetl.C10.Driver.step
