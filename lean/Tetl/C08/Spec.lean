/-
C08 — reference semantics of `std::basic_string_view` ([string.view.ops], [string.view.find])
stated declaratively over lists of unsigned code units.  No index arithmetic, no loops.
-/
namespace Tetl.C08.Spec

abbrev Str := List Nat

/-- `xpos` candidates in ascending order: all `i` with `pos ≤ i ≤ |h|` -/
def upFrom (h : Str) (pos : Nat) : List Nat := List.range' pos (h.length + 1 - pos)

/-- [string.view.find] find: the lowest `xpos ≥ pos` with `xpos + |n| ≤ |h|` and `h[xpos+I] = n[I]` for all `I`. -/
def find (h n : Str) (pos : Nat) : Option Nat :=
  (upFrom h pos).find? (fun i => n.isPrefixOf (h.drop i))

/-- rfind: the highest `xpos ≤ pos` with `xpos + |n| ≤ |h|` and the same match condition. -/
def rfind (h n : Str) (pos : Nat) : Option Nat :=
  ((List.range (min pos h.length + 1)).reverse).find? (fun i => n.isPrefixOf (h.drop i))

/-- find_first_of: the lowest `xpos ≥ pos` with `h[xpos] ∈ n`. -/
def findFirstOf (h n : Str) (pos : Nat) : Option Nat :=
  (List.range' pos (h.length - pos)).find? (fun i => match h[i]? with | some c => n.contains c | none => false)

def findFirstNotOf (h n : Str) (pos : Nat) : Option Nat :=
  (List.range' pos (h.length - pos)).find? (fun i => match h[i]? with | some c => !n.contains c | none => false)

/-- find_last_of: the highest `xpos ≤ pos` with `xpos < |h|` and `h[xpos] ∈ n`. -/
def findLastOf (h n : Str) (pos : Nat) : Option Nat :=
  ((List.range (min (pos + 1) h.length)).reverse).find? (fun i => match h[i]? with | some c => n.contains c | none => false)

def findLastNotOf (h n : Str) (pos : Nat) : Option Nat :=
  ((List.range (min (pos + 1) h.length)).reverse).find? (fun i => match h[i]? with | some c => !n.contains c | none => false)

/-- three-way lexicographic comparison of unsigned code units ([string.view.ops] compare) as -1/0/1 -/
def cmp : Str → Str → Int
  | [], [] => 0
  | [], _ :: _ => -1
  | _ :: _, [] => 1
  | x :: xs, y :: ys => if x < y then -1 else if x > y then 1 else cmp xs ys

/-- the value of a 32-bit pattern read as a two's-complement number: how `char_traits<wchar_t>::lt` sees a code unit on
    a target whose `wchar_t` is a signed 32-bit type -/
def signed32 (u : Nat) : Int := if u < 2147483648 then (u : Int) else (u : Int) - 4294967296

/-- `cmp` with the code units ordered by their signed 32-bit value ([string.view.ops] compare for `wchar_t` here) -/
def cmpSigned : Str → Str → Int
  | [], [] => 0
  | [], _ :: _ => -1
  | _ :: _, [] => 1
  | x :: xs, y :: ys => if signed32 x < signed32 y then -1 else if signed32 x > signed32 y then 1 else cmpSigned xs ys

/-- order isomorphism from the signed order of 32-bit patterns to the natural order (`cmpSigned_eq_cmp_key`): the
    drivers evaluate the comparison lines of wide strings on the images of both operands under this map -/
def signedKey32 (u : Nat) : Nat := (u + 2147483648) % 4294967296

def substr (h : Str) (pos count : Nat) : Str := (h.drop pos).take count

def startsWith (h n : Str) : Bool := n.isPrefixOf h
def endsWith (h n : Str) : Bool := n.isSuffixOf h
def contains (h n : Str) : Bool := (find h n 0).isSome

end Tetl.C08.Spec
