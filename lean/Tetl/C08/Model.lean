/-
C08 — model of `etl::basic_string_view` (include/etl/_string_view/basic_string_view.hpp),
of `char_traits::compare/find` (include/etl/_string/char_traits.hpp) and of the two algorithms
`rfind` is built on (`_algorithm/search.hpp`, `_algorithm/find_end.hpp`).

A view is the list of its code units, as *unsigned* values.  Every character read goes
through `rd` (checked), so an out-of-view read is `.error .oob`.  Positions are `Nat`;
`npos` is `2^64-1` like `size_type(-1)`; results use `Option Nat` (`none` = npos).
Each definition follows the loop structure of the C++ member of the same name.
-/
import Tetl.Common
namespace Tetl.C08

abbrev Str := List Nat
def NPOS : Nat := 2 ^ 64 - 1

/-! ### char_traits -/

/-- `char_traits::compare(lhs, rhs, count)`: the `for` loop from index `i` with `n` iterations left. -/
def traitsCompare (a b : Str) : Nat → Nat → Except Err Int
  | 0, _ => .ok 0
  | n + 1, i => do
    let x ← rd a i
    let y ← rd b i
    if x < y then .ok (-1) else if x > y then .ok 1 else traitsCompare a b n (i + 1)

/-- `char_traits::find(str, count, token) != nullptr` -/
def traitsFind (s : Str) (tok : Nat) : Nat → Nat → Except Err Bool
  | 0, _ => .ok false
  | n + 1, i => do
    let x ← rd s i
    if x == tok then .ok true else traitsFind s tok n (i + 1)

/-! ### compare / substr / copy / remove_prefix / remove_suffix -/

def compare (a b : Str) : Except Err Int := do
  let rlen := min a.length b.length
  let res ← traitsCompare a b rlen 0
  if res < 0 then .ok (-1)
  else if res > 0 then .ok 1
  else if a.length < b.length then .ok (-1)
  else if a.length > b.length then .ok 1
  else .ok 0

/-- `substr(pos, count)`: precondition `pos <= size()`; the new view is `[_begin+pos, _begin+pos+rcount)`. -/
def substr (h : Str) (pos count : Nat) : Except Err Str :=
  if pos > h.length then .error (.pre "substr: pos <= size()")
  else
    let rcount := min count (h.length - pos)
    .ok ((h.drop pos).take rcount)

/-- `copy(dest, count, pos)`: returns (`rcount`, the characters written to `dest[0..rcount)`) -/
def copyLoop (h : Str) (pos : Nat) : Nat → Nat → Except Err Str
  | 0, _ => .ok []
  | n + 1, i => do
    let x ← rd h (pos + i)
    let rest ← copyLoop h pos n (i + 1)
    .ok (x :: rest)

def copy (h : Str) (count pos : Nat) : Except Err (Nat × Str) :=
  if pos > h.length then .error (.pre "copy: pos <= size()")
  else do
    let rcount := min count (h.length - pos)
    let w ← copyLoop h pos rcount 0
    .ok (rcount, w)

def removePrefix (h : Str) (n : Nat) : Except Err Str :=
  if n > h.length then .error (.pre "remove_prefix: n <= size()") else .ok (h.drop n)

def removeSuffix (h : Str) (n : Nat) : Except Err Str :=
  if n > h.length then .error (.pre "remove_suffix: n <= size()") else .ok (h.take (h.length - n))

def compare3 (a : Str) (pos1 count1 : Nat) (b : Str) : Except Err Int := do
  compare (← substr a pos1 count1) b

def compare5 (a : Str) (pos1 count1 : Nat) (b : Str) (pos2 count2 : Nat) : Except Err Int := do
  compare (← substr a pos1 count1) (← substr b pos2 count2)

/-- `operator==`: size test, then `compare == 0` -/
def viewEq (a b : Str) : Except Err Bool :=
  if a.length != b.length then .ok false else do .ok ((← compare a b) == 0)

def startsWith (h sv : Str) : Except Err Bool := do
  viewEq (← substr h 0 sv.length) sv

def endsWith (h sv : Str) : Except Err Bool :=
  if h.length ≥ sv.length then do .ok ((← compare3 h (h.length - sv.length) NPOS sv) == 0)
  else .ok false

/-- `starts_with(Char)` : `!empty() && eq(front(), c)` -/
def startsWithChar (h : Str) (c : Nat) : Except Err Bool :=
  if h.isEmpty then .ok false else do .ok ((← rd h 0) == c)

def endsWithChar (h : Str) (c : Nat) : Except Err Bool :=
  if h.isEmpty then .ok false else do .ok ((← rd h (h.length - 1)) == c)

/-! ### find -/

/-- the inner lambda of `find`: compares `v[innerIdx]` with `unsafe_at(outerIdx + innerIdx)` -/
def findInner (h : Str) (outer : Nat) : Str → Nat → Except Err Bool
  | [], _ => .ok true
  | c :: cs, inner => do
    let x ← rd h (outer + inner)
    if x != c then .ok false else findInner h outer cs (inner + 1)

/-- the outer `for` loop of `find`; `n` = iterations left -/
def findOuter (h v : Str) (front : Nat) : Nat → Nat → Except Err (Option Nat)
  | 0, _ => .ok none
  | n + 1, outer => do
    let x ← rd h outer
    if x == front then
      let found ← findInner h outer v 0
      if found then return some outer
    findOuter h v front n (outer + 1)

def find (h v : Str) (pos : Nat) : Except Err (Option Nat) :=
  if pos > h.length || v.length > h.length - pos then .ok none
  else match v with
    | [] => .ok (some pos)
    | front :: _ => findOuter h v front (h.length - v.length + 1 - pos) pos

def contains (h v : Str) : Except Err Bool := do .ok ((← find h v 0).isSome)

/-! ### search / find_end (as used by rfind on the prefix `[0,last)` of `h`) -/

inductive Inner where | matched | hitEnd | mismatch
  deriving DecidableEq, Repr

/-- inner `for (auto sIt = sFirst;; ++it, ++sIt)` of `etl::search` -/
def searchInner (h : Str) (last : Nat) : Str → Nat → Except Err Inner
  | [], _ => .ok .matched
  | c :: cs, it =>
    if it == last then .ok .hitEnd
    else do
      let x ← rd h it
      if x != c then .ok .mismatch else searchInner h last cs (it + 1)

/-- outer `for (;; ++first)` of `etl::search`; returns the iterator (index) it returns -/
def search (h : Str) (last : Nat) (s : Str) : Nat → Nat → Except Err Nat
  | 0, _ => .error .fuel
  | f + 1, first => do
    match ← searchInner h last s first with
    | .matched => .ok first
    | .hitEnd => .ok last
    | .mismatch => search h last s f (first + 1)

/-- the `while (true)` loop of `etl::find_end` -/
def findEndLoop (h : Str) (last : Nat) (s : Str) : Nat → Nat → Nat → Except Err Nat
  | 0, _, _ => .error .fuel
  | f + 1, first, result => do
    let nr ← search h last s (last - first + 1) first
    if nr == last then .ok result
    else findEndLoop h last s f (nr + 1) nr

def findEnd (h : Str) (last : Nat) (s : Str) : Except Err Nat :=
  if s.isEmpty then .ok last else findEndLoop h last s (last + 1) 0 last

def rfind (h sv : Str) (pos : Nat) : Except Err (Option Nat) := do
  let pos := min pos h.length
  let pos := if sv.length < h.length - pos then pos + sv.length else h.length
  let r ← findEnd h pos sv
  if sv.length > 0 && r == pos then .ok none else .ok (some r)

/-- `rfind(Char c, pos)` : the pointer loop `for (s = data()+pos; s != data();) if eq(*--s, c)` -/
def rfindCharLoop (h : Str) (c : Nat) : Nat → Except Err (Option Nat)
  | 0 => .ok none
  | s + 1 => do
    let x ← rd h s
    if x == c then .ok (some s) else rfindCharLoop h c s

def rfindChar (h : Str) (c : Nat) (pos : Nat) : Except Err (Option Nat) :=
  if h.length < 1 then .ok none
  else
    let pos := if pos < h.length then pos + 1 else h.length
    rfindCharLoop h c pos

/-! ### find_first_of / find_first_not_of -/

/-- `for (auto const c : v) if (c == current) return idx;` -/
def anyEq (v : Str) (cur : Nat) : Bool := v.any (· == cur)

def findFirstOfLoop (h v : Str) : Nat → Nat → Except Err (Option Nat)
  | 0, _ => .ok none
  | n + 1, idx => do
    let x ← rd h idx
    if anyEq v x then .ok (some idx) else findFirstOfLoop h v n (idx + 1)

def findFirstOf (h v : Str) (pos : Nat) : Except Err (Option Nat) :=
  findFirstOfLoop h v (h.length - pos) pos

def findFirstNotOfLoop (h sv : Str) : Nat → Nat → Except Err (Option Nat)
  | 0, _ => .ok none
  | n + 1, s => do
    let x ← rd h s
    let inSet ← traitsFind sv x sv.length 0
    if !inSet then .ok (some s) else findFirstNotOfLoop h sv n (s + 1)

def findFirstNotOf (h sv : Str) (pos : Nat) : Except Err (Option Nat) :=
  if pos < h.length then findFirstNotOfLoop h sv (h.length - pos) pos else .ok none

def findFirstNotOfCharLoop (h : Str) (c : Nat) : Nat → Nat → Except Err (Option Nat)
  | 0, _ => .ok none
  | n + 1, s => do
    let x ← rd h s
    if x != c then .ok (some s) else findFirstNotOfCharLoop h c n (s + 1)

def findFirstNotOfChar (h : Str) (c : Nat) (pos : Nat) : Except Err (Option Nat) :=
  if pos < h.length then findFirstNotOfCharLoop h c (h.length - pos) pos else .ok none

/-! ### find_last_of / find_last_not_of: `do { ... } while (offset-- != 0)` -/

def findLastOfLoop (h v : Str) : Nat → Except Err (Option Nat)
  | 0 => do
    let x ← rd h 0
    if anyEq v x then .ok (some 0) else .ok none
  | off + 1 => do
    let x ← rd h (off + 1)
    if anyEq v x then .ok (some (off + 1)) else findLastOfLoop h v off

def findLastOf (h v : Str) (pos : Nat) : Except Err (Option Nat) :=
  if h.isEmpty then .ok none
  else findLastOfLoop h v (min pos (h.length - 1))     -- clamp(pos, 0, size()-1)

def findLastNotOfLoop (h v : Str) : Nat → Except Err (Option Nat)
  | 0 => do
    let x ← rd h 0
    if !anyEq v x then .ok (some 0) else .ok none
  | off + 1 => do
    let x ← rd h (off + 1)
    if !anyEq v x then .ok (some (off + 1)) else findLastNotOfLoop h v off

def findLastNotOf (h v : Str) (pos : Nat) : Except Err (Option Nat) :=
  if h.isEmpty then .ok none
  else findLastNotOfLoop h v (min pos (h.length - 1))

end Tetl.C08
