/- C08 line-protocol driver: prints `model <TAB> spec` for each case line. -/
import Tetl.Proto
import Tetl.C08.Model
import Tetl.C08.Spec
namespace Tetl.C08.Driver
open Tetl Tetl.Proto

def fmtE {α : Type} (f : α → String) : Except Err α → String
  | .ok a => f a
  | .error e => e.fmt

def posArg (l : Line) (k : String) : Option Nat :=
  match l.pos? k with
  | some none => some NPOS
  | some (some n) => some n
  | none => none

def rels (eqv lt : Bool) : String :=
  let gt := !lt && !eqv
  String.join [fmtBool eqv, fmtBool lt, fmtBool (lt || eqv), fmtBool gt, fmtBool (gt || eqv)]


/-- `char_traits<wchar_t>::lt` compares `wchar_t` values, and `wchar_t` is a signed 32-bit type on this target: a unit
    given as its 32-bit pattern u orders as the integer u - 2^32 when u ≥ 2^31.  The model and the theorems order
    code units as naturals (what `lt` does for char, char8_t, char16_t, char32_t); for `ct=wchar` the comparison lines
    are therefore run on the images under the order isomorphism u ↦ (u + 2^31) mod 2^32, which preserves equality and
    turns the signed order into the natural one.  Only `compare` / `rel` depend on the order of units. -/
def ordKey (l : Line) (xs : List Nat) : List Nat :=
  if (l.str? "ct").getD "char" == "wchar" then xs.map Spec.signedKey32 else xs

def step (_ : Unit) (l : Line) : Unit × String :=
  let bad := ((), "bad-op\tbad-op")
  let ov := (l.str? "ov").getD "sv"
  let out (m s : String) := ((), m ++ "\t" ++ s)
  match l.op with
  | "find" =>
    match l.natList? "h", l.natList? "n", posArg l "pos" with
    | some h, some n, some p => out (fmtE fmtPos (find h n p)) (fmtPos (Spec.find h n p))
    | _, _, _ => bad
  | "rfind" =>
    match l.natList? "h", l.natList? "n", posArg l "pos" with
    | some h, some n, some p =>
      let m := if ov == "ch" then (match n with | [c] => rfindChar h c p | _ => .error (.pre "ov=ch")) else rfind h n p
      out (fmtE fmtPos m) (fmtPos (Spec.rfind h n p))
    | _, _, _ => bad
  | "find_first_of" =>
    match l.natList? "h", l.natList? "n", posArg l "pos" with
    | some h, some n, some p => out (fmtE fmtPos (findFirstOf h n p)) (fmtPos (Spec.findFirstOf h n p))
    | _, _, _ => bad
  | "find_last_of" =>
    match l.natList? "h", l.natList? "n", posArg l "pos" with
    | some h, some n, some p => out (fmtE fmtPos (findLastOf h n p)) (fmtPos (Spec.findLastOf h n p))
    | _, _, _ => bad
  | "find_first_not_of" =>
    match l.natList? "h", l.natList? "n", posArg l "pos" with
    | some h, some n, some p =>
      let m := if ov == "ch" then (match n with | [c] => findFirstNotOfChar h c p | _ => .error (.pre "ov=ch")) else findFirstNotOf h n p
      out (fmtE fmtPos m) (fmtPos (Spec.findFirstNotOf h n p))
    | _, _, _ => bad
  | "find_last_not_of" =>
    match l.natList? "h", l.natList? "n", posArg l "pos" with
    | some h, some n, some p => out (fmtE fmtPos (findLastNotOf h n p)) (fmtPos (Spec.findLastNotOf h n p))
    | _, _, _ => bad
  | "compare" =>
    -- model: the translated `compare` on the order keys; spec: for `ct=wchar` the signed comparison of the raw units
    -- (`Props.cmpSigned_eq_cmp_key` relates the two)
    let wide := (l.str? "ct").getD "char" == "wchar"
    let scmp (x y : List Nat) : Int := if wide then Spec.cmpSigned x y else Spec.cmp x y
    match l.natList? "a", l.natList? "b" with
    | some a0, some b0 =>
      let a := ordKey l a0
      let b := ordKey l b0
      match posArg l "pos1", posArg l "count1", posArg l "pos2", posArg l "count2" with
      | some p1, some c1, some p2, some c2 =>
        out (fmtE toString (compare5 a p1 c1 b p2 c2)) (toString (scmp (Spec.substr a0 p1 c1) (Spec.substr b0 p2 c2)))
      | some p1, some c1, _, _ =>
        out (fmtE toString (compare3 a p1 c1 b)) (toString (scmp (Spec.substr a0 p1 c1) b0))
      | _, _, _, _ => out (fmtE toString (compare a b)) (toString (scmp a0 b0))
    | _, _ => bad
  | "rel" =>
    let wide := (l.str? "ct").getD "char" == "wchar"
    match l.natList? "a", l.natList? "b" with
    | some a0, some b0 =>
      let a := ordKey l a0
      let b := ordKey l b0
      let m := do
        let e ← viewEq a b
        let c ← compare a b
        pure (rels e (c < 0))
      let c := if wide then Spec.cmpSigned a0 b0 else Spec.cmp a0 b0
      out (fmtE id m) (rels (c == 0) (c < 0))
    | _, _ => bad
  | "starts_with" =>
    match l.natList? "h", l.natList? "n" with
    | some h, some n =>
      let m := if ov == "ch" then (match n with | [c] => startsWithChar h c | _ => .error (.pre "ov=ch")) else startsWith h n
      out (fmtE fmtBool m) (fmtBool (Spec.startsWith h n))
    | _, _ => bad
  | "ends_with" =>
    match l.natList? "h", l.natList? "n" with
    | some h, some n =>
      let m := if ov == "ch" then (match n with | [c] => endsWithChar h c | _ => .error (.pre "ov=ch")) else endsWith h n
      out (fmtE fmtBool m) (fmtBool (Spec.endsWith h n))
    | _, _ => bad
  | "contains" =>
    match l.natList? "h", l.natList? "n" with
    | some h, some n => out (fmtE fmtBool (contains h n)) (fmtBool (Spec.contains h n))
    | _, _ => bad
  | "substr" =>
    match l.natList? "h", posArg l "pos", posArg l "count" with
    | some h, some p, some c => out (fmtE fmtNatList (substr h p c)) (fmtNatList (Spec.substr h p c))
    | _, _, _ => bad
  | "copy" =>
    match l.natList? "h", posArg l "pos", posArg l "count" with
    | some h, some p, some c =>
      let f := fun (r : Nat × Str) => s!"{r.1}:{fmtNatList r.2}"
      let s := Spec.substr h p c
      out (fmtE f (copy h c p)) s!"{s.length}:{fmtNatList s}"
    | _, _, _ => bad
  | "remove_prefix" =>
    match l.natList? "h", l.nat? "n" with
    | some h, some n => out (fmtE fmtNatList (removePrefix h n)) (fmtNatList (h.drop n))
    | _, _ => bad
  | "remove_suffix" =>
    match l.natList? "h", l.nat? "n" with
    | some h, some n => out (fmtE fmtNatList (removeSuffix h n)) (fmtNatList (h.take (h.length - n)))
    | _, _ => bad
  | _ => bad

end Tetl.C08.Driver

def main : IO Unit := Tetl.Proto.runDriver () Tetl.C08.Driver.step
