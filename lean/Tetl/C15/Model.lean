/-
C15 — model of tetl's <ratio>, numeric_limits (integer types) and the structural type traits, written
from the sources clause by clause (include/etl/_ratio/*.hpp, _limits/numeric_limits.hpp,
_type_traits/*.hpp, _concepts/{integral,signed_integral,unsigned_integral,floating_point,same_as}.hpp).

Conventions.
* (a) ratio.  `intmax_t` is the 64-bit signed type of `Tetl.C14`; every arithmetic operator of a constant
  expression is evaluated by `ck` (= `C14.arith` in `intmax_t`): a result outside the type is not a constant
  expression, the instantiation is ill-formed, and the model returns `.error`.  `gcd` is the model of
  `etl::gcd` of C14 (Euclid's loop in the unsigned common type).  A ratio specialisation is modelled by its
  members `num`/`den` *and* by the template arguments it was instantiated with (`tn`, `td`): the arithmetic
  aliases name `ratio<X, Y>::type`.  `detail::ratio_add_impl` and `detail::ratio_less_impl` are `constexpr`
  functions evaluated in a constant expression: the same rule (`ck`) applies to each of their operators.
* (b) numeric_limits.  An integer specialisation is a function of (bits, signedness, kind); the members are
  the expressions of the header (`digits = CHAR_BIT*sizeof(T) - is_signed`, `digits10 = digits*3/10`, …).
* (c) structural traits.  Partial specialisations are pattern matches on `CType` (Types.lean); `T const`
  matches exactly the types whose `cvOf` has `c` (arrays through their elements); an alias that forms
  `T&`, `T&&`, `T*` inside a SFINAE helper succeeds iff the language can form the type (`mkLref`, `mkRref`,
  `mkPtr`), otherwise the fallback overload is chosen; compiler intrinsics (`__is_enum`, `__is_class`,
  `__is_union`, `__underlying_type`) are the corresponding facts about `Base`.  g++ 12 has neither
  `__is_integral`, `__is_scalar` nor `__is_object`, so the portable branches are the ones modelled.
  A trait whose instantiation is ill-formed (a hard error) returns `.error`.
-/
import Tetl.Common
import Tetl.C14.Model
import Tetl.C15.Types
namespace Tetl.C15
open Tetl

/-! ## (a) ratio -/

/-- `intmax_t` -/
def imax : C14.ITy := ⟨64, true⟩

/-- an `intmax_t` operator inside a constant expression -/
def ck (x : Int) : Except Err Int := C14.arith imax x

/-- `detail::sign(val)`: `val < 0 ? T(-1) : T(1)` -/
def sign (v : Int) : Int := if v < 0 then -1 else 1

/-- `etl::abs(long n)`: `n >= 0 ? n : n * T(-1)` -/
def absI (n : Int) : Except Err Int := if n ≥ 0 then .ok n else ck (n * (-1))

/-- signed `/` of two `intmax_t` (truncating; `/0` and `MIN / -1` are not constant expressions) -/
def divI (a b : Int) : Except Err Int :=
  if b = 0 then .error (.pre "ub: division by zero") else ck (Int.tdiv a b)

/-- signed `%` of two `intmax_t` (`%0` and `MIN % -1` are not constant expressions) -/
def modI (a b : Int) : Except Err Int :=
  if b = 0 then .error (.pre "ub: remainder by zero") else do
    let _ ← ck (Int.tdiv a b)
    .ok (Int.tmod a b)

/-- a specialisation `ratio<tn, td>` with its members -/
structure Rat where
  num : Int
  den : Int
  tn : Int      -- first template argument
  td : Int      -- second template argument
  deriving Repr, DecidableEq, Inhabited

/-- `ratio<Num, Denom>::num = sign(Num) * sign(Denom) * abs(Num) / gcd(Num, Denom)` -/
def ratioNum (n d : Int) : Except Err Int := do
  let s ← ck (sign n * sign d)
  let a ← absI n
  let p ← ck (s * a)
  let g ← C14.gcd imax imax n d
  divI p g

/-- `ratio<Num, Denom>::den = abs(Denom) / gcd(Num, Denom)` -/
def ratioDen (n d : Int) : Except Err Int := do
  let a ← absI d
  let g ← C14.gcd imax imax n d
  divI a g

/-- instantiate `ratio<n, d>`: `static_assert(Denom != 0)`, then the two members -/
def mkRatio (n d : Int) : Except Err Rat :=
  if d = 0 then .error (.pre "static_assert: denominator cannot be zero") else do
    let a ← ratioNum n d
    let b ← ratioDen n d
    .ok ⟨a, b, n, d⟩

/-- `typename R::type` = `ratio<R::num, R::den>` -/
def Rat.type (r : Rat) : Except Err Rat := mkRatio r.num r.den

/-- `detail::ratio_multiply_impl<R1, R2>`: `gcd1 = gcd(R1::num, R2::den)`, `gcd2 = gcd(R2::num, R1::den)`,
    `type = ratio<(R1::num / gcd1) * (R2::num / gcd2), (R1::den / gcd2) * (R2::den / gcd1)>::type` -/
def ratioMul (a b : Rat) : Except Err Rat := do
  let g1 ← C14.gcd imax imax a.num b.den
  let g2 ← C14.gcd imax imax b.num a.den
  let x1 ← divI a.num g1
  let x2 ← divI b.num g2
  let n ← ck (x1 * x2)
  let y1 ← divI a.den g2
  let y2 ← divI b.den g1
  let d ← ck (y1 * y2)
  let r ← mkRatio n d
  r.type

/-- `detail::ratio_divide_impl<R1, R2>`: `static_assert(R2::num != 0)`,
    `type = ratio_multiply_impl<R1, ratio<R2::den, R2::num>>::type` -/
def ratioDiv (a b : Rat) : Except Err Rat :=
  if b.num = 0 then .error (.pre "static_assert: division by zero") else do
    let r ← mkRatio b.den b.num
    ratioMul a r

/-- `n % d < 0 ? n / d - 1 : n / d` and `n % d < 0 ? n % d + d : n % d`: `n == i * d + f`, `0 <= f < d` -/
def floorParts (n d : Int) : Except Err (Int × Int) := do
  let r ← modI n d
  let q ← divI n d
  let i ← if r < 0 then ck (q - 1) else .ok q
  let f ← if r < 0 then ck (r + d) else .ok r
  .ok (i, f)

/-- `(f / g2) * k + (f % g2) * k / g2` (= `⌊f * k / g2⌋`) -/
def mulDiv (f k g2 : Int) : Except Err Int := do
  let p ← divI f g2
  let pk ← ck (p * k)
  let r ← modI f g2
  let rk ← ck (r * k)
  let q ← divI rk g2
  ck (pk + q)

/-- `detail::ratio_add_impl(n1, d1, n2, d2)`, statement by statement -/
def ratioAddImpl (n1 d1 n2 d2 : Int) : Except Err (Int × Int) := do
  let g ← C14.gcd imax imax d1 d2
  let a ← divI d1 g
  let b ← divI d2 g
  let (i1, f1) ← floorParts n1 d1
  let (i2, f2) ← floorParts n2 d2
  -- m1 = (f1 % g) * b % g;  m2 = (f2 % g) * a % g
  let t1 ← modI f1 g
  let u1 ← ck (t1 * b)
  let m1 ← modI u1 g
  let t2 ← modI f2 g
  let u2 ← ck (t2 * a)
  let m2 ← modI u2 g
  -- m = m1 >= g - m2 ? m1 - (g - m2) : m1 + m2
  let gm ← ck (g - m2)
  let m ← if m1 ≥ gm then ck (m1 - gm) else ck (m1 + m2)
  let g2 ← C14.gcd imax imax m g
  -- den = (d1 / g2) * b
  let dg ← divI d1 g2
  let den ← ck (dg * b)
  let x ← mulDiv f1 b g2
  let y ← mulDiv f2 a g2
  -- c = (f1 % g2) * b % g2 != 0 ? 1 : 0
  let r1 ← modI f1 g2
  let rb ← ck (r1 * b)
  let rr ← modI rb g2
  let c : Int := if rr ≠ 0 then 1 else 0
  -- carry = x >= den - y
  let dy ← ck (den - y)
  let carry : Bool := decide (x ≥ dy)
  -- f = carry ? x - (den - y) + c : x + y + c
  let f ← if carry then do let t ← ck (x - dy); ck (t + c) else do let t ← ck (x + y); ck (t + c)
  -- i = carry ? i1 + i2 + 1 : i1 + i2
  let i12 ← ck (i1 + i2)
  let i ← if carry then ck (i12 + 1) else .ok i12
  -- num = i >= 0 ? i * den + f : (i + 1) * den - (den - f)
  let num ← if i ≥ 0 then do let t ← ck (i * den); ck (t + f)
            else do let i' ← ck (i + 1); let t ← ck (i' * den); let u ← ck (den - f); ck (t - u)
  .ok (num, den)

/-- `detail::ratio_add_type<R1, R2>`: `sum = ratio_add_impl(R1::num, R1::den, R2::num, R2::den)`,
    `type = ratio<sum.num, sum.den>::type` -/
def ratioAdd (a b : Rat) : Except Err Rat := do
  let s ← ratioAddImpl a.num a.den b.num b.den
  let r ← mkRatio s.1 s.2
  r.type

/-- `ratio_subtract<R1, R2> = ratio_add_type<R1, ratio<-R2::num, R2::den>>::type` -/
def ratioSub (a b : Rat) : Except Err Rat := do
  let nb ← ck (-b.num)
  let r ← mkRatio nb b.den
  ratioAdd a r

/-- `ratio_equal`: `R1::num == R2::num && R1::den == R2::den` -/
def ratioEqual (a b : Rat) : Bool := a.num == b.num && a.den == b.den
/-- `ratio_not_equal`: `!ratio_equal_v` -/
def ratioNotEqual (a b : Rat) : Bool := !ratioEqual a b

/-- the loop of `detail::ratio_less_impl` (`fuel` bounds the number of iterations: the denominators decrease
    strictly, `ratioLess` starts with `d1 + 1`; running out of fuel is reported as an error) -/
def ratioLessLoop : Nat → Bool → Int → Int → Int → Int → Except Err Bool
  | 0, _, _, _, _, _ => .error (.pre "model: iteration bound exceeded")
  | fuel + 1, flip, n1, d1, n2, d2 => do
    let (q1, f1) ← floorParts n1 d1
    let (q2, f2) ← floorParts n2 d2
    if q1 ≠ q2 then .ok (if flip then decide (q2 < q1) else decide (q1 < q2))
    else if f1 = 0 ∨ f2 = 0 then
      .ok (if flip then decide (f2 = 0) && decide (f1 ≠ 0) else decide (f1 = 0) && decide (f2 ≠ 0))
    else ratioLessLoop fuel (!flip) d1 f1 d2 f2

/-- `ratio_less<R1, R2>`: `detail::ratio_less_impl(R1::num, R1::den, R2::num, R2::den)` -/
def ratioLess (a b : Rat) : Except Err Bool := ratioLessLoop (a.den.toNat + 1) false a.num a.den b.num b.den
/-- `ratio_less_equal<R1, R2>`: `!ratio_less<R2, R1>::value` -/
def ratioLessEqual (a b : Rat) : Except Err Bool := do let r ← ratioLess b a; .ok (!r)
/-- `ratio_greater<R1, R2>`: `ratio_less<R2, R1>::value` -/
def ratioGreater (a b : Rat) : Except Err Bool := ratioLess b a
/-- `ratio_greater_equal<R1, R2>`: `!ratio_less<R1, R2>::value` -/
def ratioGreaterEqual (a b : Rat) : Except Err Bool := do let r ← ratioLess a b; .ok (!r)

/-- the alias names the reduced specialisation itself (`is_same_v<R, ratio<R::num, R::den>>`) -/
def Rat.canonical (r : Rat) : Bool := r.tn == r.num && r.td == r.den

/-! ## (b) numeric_limits of the integer types -/

/-- how the header writes the specialisation -/
inductive IntKind where
  | bool        -- `numeric_limits<bool>`: literal members
  | char        -- `is_signed = CHAR_MIN < 0`, `is_modulo = !is_signed`
  | char8       -- `char8_t`: literal `digits10`
  | plain       -- signed/unsigned char, short, int, long, long long, wchar_t, char16_t, char32_t
  deriving Repr, DecidableEq, Inhabited

structure IntLimits where
  isSigned : Bool
  digits : Nat
  digits10 : Nat
  min : Int
  max : Int
  lowest : Int
  isModulo : Bool
  traps : Bool
  deriving Repr, DecidableEq, Inhabited

/-- the members of `numeric_limits<T>` for an integer type of `bits` value+sign bits -/
def intLimits (k : IntKind) (bits : Nat) (sg : Bool) : IntLimits :=
  match k with
  | .bool => ⟨false, 1, 0, 0, 1, 0, false, false⟩
  | .char8 =>
    -- digits = CHAR_BIT * sizeof(char8_t) - is_signed, digits10 = 2 (literal), max = UCHAR_MAX
    let digits := bits - (if sg then 1 else 0)
    ⟨sg, digits, 2, 0, 2 ^ bits - 1, 0, true, true⟩
  | .char =>
    let digits := bits - (if sg then 1 else 0)
    let mn : Int := if sg then -(2 ^ (bits - 1)) else 0          -- CHAR_MIN
    let mx : Int := if sg then 2 ^ (bits - 1) - 1 else 2 ^ bits - 1   -- CHAR_MAX
    ⟨sg, digits, digits * 3 / 10, mn, mx, mn, !sg, true⟩
  | .plain =>
    let digits := bits - (if sg then 1 else 0)
    let mn : Int := if sg then -(2 ^ (bits - 1)) else 0
    let mx : Int := if sg then 2 ^ (bits - 1) - 1 else 2 ^ bits - 1
    ⟨sg, digits, digits * 3 / 10, mn, mx, mn, !sg, true⟩

/-! ## (c) structural traits -/

namespace M
open CType

/-- `remove_const<T const> { using type = T; }` -/
def removeConst (t : CType) : CType := if (cvOf t).c then withCV t ⟨false, (cvOf t).v⟩ else t
/-- `remove_volatile<T volatile> { using type = T; }` -/
def removeVolatile (t : CType) : CType := if (cvOf t).v then withCV t ⟨(cvOf t).c, false⟩ else t
/-- `remove_cv_t = remove_const_t<remove_volatile_t<T>>` -/
def removeCv (t : CType) : CType := removeConst (removeVolatile t)
/-- `using type = T const;` (no effect on references and function types: language rule) -/
def addConst (t : CType) : CType := withCV t ⟨true, (cvOf t).v⟩
def addVolatile (t : CType) : CType := withCV t ⟨(cvOf t).c, true⟩
/-- `using type = T const volatile;` -/
def addCv (t : CType) : CType := withCV t ⟨true, true⟩

def removeReference : CType → CType
  | lref t => t
  | rref t => t
  | t => t

def isReference : CType → Bool
  | lref _ | rref _ => true
  | _ => false
def isLvalueReference : CType → Bool
  | lref _ => true
  | _ => false
def isRvalueReference : CType → Bool
  | rref _ => true
  | _ => false

/-- `is_const<T const> : true_type` -/
def isConst (t : CType) : Bool := (cvOf t).c
def isVolatile (t : CType) : Bool := (cvOf t).v

/-- `is_same_v<T, T> = true` -/
def isSame (a b : CType) : Bool := a == b
/-- `same_as = same_helper<T,U> and same_helper<U,T>` -/
def sameAs (a b : CType) : Bool := isSame a b && isSame b a

/-- `is_void : is_same<void, remove_cv_t<T>>` -/
def isVoid (t : CType) : Bool := isSame (base .void CV.none) (removeCv t)
def isNullPointer (t : CType) : Bool := isSame (base .nullptr CV.none) (removeCv t)

/-- `meta::contains_v<T, meta::list<Ts...>>` -/
def contains (t : CType) (l : List Base) : Bool := (l.map fun b => base b CV.none).contains t

def integralList : List Base :=
  [.bool, .char, .schar, .uchar, .wchar, .char8, .char16, .char32, .short, .ushort, .int, .uint, .long, .ulong,
   .llong, .ullong]

/-- portable branch of `is_integral_v` -/
def isIntegral (t : CType) : Bool := contains (removeCv t) integralList
def isFloatingPoint (t : CType) : Bool := contains (removeCv t) [.float, .double, .ldouble]
def isArithmetic (t : CType) : Bool := isIntegral t || isFloatingPoint t

def isArray : CType → Bool
  | uarr _ => true
  | arr _ _ => true
  | _ => false
def isBoundedArray : CType → Bool
  | arr _ _ => true
  | _ => false
def isUnboundedArray : CType → Bool
  | uarr _ => true
  | _ => false

/-- `__is_enum(T)` -/
def isEnum : CType → Bool
  | base b _ => b == .enumU || b == .enumUF || b == .enumS || b == .enumSC || b == .enumSS || b == .enumUS || b == .enumL
      || b == .enumULL
  | _ => false
/-- `__is_class(T)` -/
def isClass : CType → Bool
  | base b _ => b == .cls
  | _ => false
/-- `__is_union(T)` -/
def isUnion : CType → Bool
  | base b _ => b == .uni
  | _ => false

/-- `is_function : not is_const_v<T const> and not is_reference_v<T>` -/
def isFunction (t : CType) : Bool := !isConst (addConst t) && !isReference t

/-- `detail::is_pointer<T*>` applied to `remove_cv_t<T>` -/
def isPointer (t : CType) : Bool :=
  match removeCv t with
  | ptr _ ⟨false, false⟩ => true
  | _ => false

def isMemberPointer (t : CType) : Bool :=
  match removeCv t with
  | mptr _ ⟨false, false⟩ => true
  | _ => false

/-- `is_member_function_pointer_helper<T U::*> : is_function<T>` -/
def isMemberFunctionPointer (t : CType) : Bool :=
  match removeCv t with
  | mptr u ⟨false, false⟩ => isFunction u
  | _ => false

def isMemberObjectPointer (t : CType) : Bool := isMemberPointer t && !isMemberFunctionPointer t

def isFundamental (t : CType) : Bool := isArithmetic t || isVoid t || isNullPointer t
def isCompound (t : CType) : Bool := !isFundamental t
/-- portable branch -/
def isScalar (t : CType) : Bool :=
  isArithmetic t || isEnum t || isPointer t || isMemberPointer t || isNullPointer t
/-- portable branch -/
def isObject (t : CType) : Bool := isScalar t || isArray t || isUnion t || isClass t

/-- `T(-1) < T(0)` for the arithmetic types (x86-64 Linux: `char` and `wchar_t` are signed) -/
def minusOneLtZero : Base → Bool
  | .char | .schar | .wchar | .short | .int | .long | .llong | .float | .double | .ldouble => true
  | _ => false
/-- `T(0) < T(-1)` -/
def zeroLtMinusOne : Base → Bool
  | .bool | .uchar | .char8 | .char16 | .char32 | .ushort | .uint | .ulong | .ullong => true
  | _ => false

/-- `detail::is_signed<remove_cv_t<T>>`: `requires is_arithmetic_v<T>` → `T(-1) < T(0)` -/
def isSigned (t : CType) : Bool :=
  let u := removeCv t
  if isArithmetic u then (match u with | base b _ => minusOneLtZero b | _ => false) else false
def isUnsigned (t : CType) : Bool :=
  let u := removeCv t
  if isArithmetic u then (match u with | base b _ => zeroLtMinusOne b | _ => false) else false

/-- `is_convertible_v<T, underlying_type_t<T>>` for an enumeration: only unscoped ones convert implicitly -/
def enumConvertsToUnderlying : CType → Bool
  | base b _ => b == .enumU || b == .enumUF || b == .enumSS || b == .enumULL
  | _ => false
/-- `requires is_enum_v<T>` → `not is_convertible_v<T, underlying_type_t<T>>` -/
def isScopedEnum (t : CType) : Bool := if isEnum t then !enumConvertsToUnderlying t else false

def integral (t : CType) : Bool := isIntegral t
def signedIntegral (t : CType) : Bool := integral t && isSigned t
def unsignedIntegral (t : CType) : Bool := integral t && isUnsigned t
def floatingPoint (t : CType) : Bool := isFloatingPoint t

/-- `rank<T[]>`, `rank<T[N]>` : `rank<T>::value + 1` -/
def rank : CType → Nat
  | uarr t => rank t + 1
  | arr t _ => rank t + 1
  | _ => 0

/-- `extent<T, N>` -/
def extent : CType → Nat → Nat
  | uarr _, 0 => 0
  | uarr t, n + 1 => extent t n
  | arr _ i, 0 => i
  | arr t _, n + 1 => extent t n
  | _, _ => 0

/-- `remove_pointer<T*>`, `<T* const>`, `<T* volatile>`, `<T* const volatile>` -/
def removePointer : CType → CType
  | ptr t _ => t
  | t => t

/-- `try_add_pointer<T>(int) -> type_identity<remove_reference_t<T>*>`, fallback `type_identity<T>` -/
def addPointer (t : CType) : CType :=
  match mkPtr (removeReference t) with
  | some p => p
  | none => t

/-- `try_add_lvalue_reference<T>(int) -> type_identity<T&>`, fallback `type_identity<T>` -/
def addLvalueReference (t : CType) : CType :=
  match mkLref t with
  | some r => r
  | none => t

def addRvalueReference (t : CType) : CType :=
  match mkRref t with
  | some r => r
  | none => t

def removeExtent : CType → CType
  | uarr t => t
  | arr t _ => t
  | t => t

def removeAllExtents : CType → CType
  | uarr t => removeAllExtents t
  | arr t _ => removeAllExtents t
  | t => t

/-- `decay`: `U = remove_reference_t<T>`;
    `conditional_t<is_array_v<U>, add_pointer_t<remove_extent_t<U>>,
       conditional_t<is_function_v<U>, add_pointer_t<U>, remove_cv_t<U>>>` -/
def decay (t : CType) : CType :=
  let u := removeReference t
  if isArray u then addPointer (removeExtent u)
  else if isFunction u then addPointer u
  else removeCv u

/-- `remove_cvref_t = remove_cv_t<remove_reference_t<T>>` -/
def removeCvref (t : CType) : CType := removeCv (removeReference t)
def typeIdentity (t : CType) : CType := t

/-- `sizeof` of the types that `make_signed_by_size` inspects (x86-64 Linux) -/
def sizeOfBase : Base → Nat
  | .wchar => 4 | .char8 => 1 | .char16 => 2 | .char32 => 4
  | .enumU => 4 | .enumUF => 2 | .enumS => 4 | .enumSC => 1
  | .enumSS => 1 | .enumUS => 2 | .enumL => 8 | .enumULL => 8
  | .bool | .char | .schar | .uchar => 1
  | .short | .ushort => 2
  | .int | .uint | .float => 4
  | .long | .ulong | .llong | .ullong | .double => 8
  | .ldouble => 16
  | _ => 0

/-- `make_signed_by_size<T>`: first of signed char, short, int, long with the size of `T`, else long long -/
def signedBySize (n : Nat) : Base :=
  if n == 1 then .schar else if n == 2 then .short else if n == 4 then .int else if n == 8 then .long else .llong
def unsignedBySize (n : Nat) : Base :=
  if n == 1 then .uchar else if n == 2 then .ushort else if n == 4 then .uint else if n == 8 then .ulong else .ullong

/-- explicit specialisations of `detail::make_signed` -/
def signedTable : Base → Option Base
  | .schar | .uchar | .char => some .schar
  | .short | .ushort => some .short
  | .int | .uint => some .int
  | .long | .ulong => some .long
  | .llong | .ullong => some .llong
  | _ => none
def unsignedTable : Base → Option Base
  | .schar | .uchar | .char => some .uchar
  | .short | .ushort => some .ushort
  | .int | .uint => some .uint
  | .long | .ulong => some .ulong
  | .llong | .ullong => some .ullong
  | _ => none

/-- `make_signed_uses_size<T>` -/
def usesSize (t : CType) : Bool :=
  isEnum t || isSame t (base .wchar CV.none) || isSame t (base .char8 CV.none) || isSame t (base .char16 CV.none)
    || isSame t (base .char32 CV.none)

/-- `make_signed_copy_cv<From, To>` -/
def copyCv (frm to : CType) : CType :=
  let c := if isConst frm then addConst to else to
  if isVolatile frm then addVolatile c else c

def makeSignLike (bySize : Nat → Base) (table : Base → Option Base) (t : CType) : Except Err CType :=
  let u := removeCv t
  if usesSize u then
    match u with
    | base b _ => .ok (copyCv t (base (bySize (sizeOfBase b)) CV.none))
    | _ => .error (.pre "make_signed: incomplete type")
  else
    match u with
    | base b ⟨false, false⟩ =>
      match table b with
      | some r => .ok (copyCv t (base r CV.none))
      | none => .error (.pre "make_signed: incomplete type")
    | _ => .error (.pre "make_signed: incomplete type")

def makeSigned : CType → Except Err CType := makeSignLike signedBySize signedTable
def makeUnsigned : CType → Except Err CType := makeSignLike unsignedBySize unsignedTable

/-- `__underlying_type(T)` (GCC, x86-64) -/
def underlyingBase : Base → Option Base
  | .enumU => some .uint
  | .enumUF => some .short
  | .enumS => some .int
  | .enumSC => some .uchar
  | .enumSS => some .schar
  | .enumUS => some .ushort
  | .enumL => some .long
  | .enumULL => some .ullong
  | _ => none

/-- `detail::underlying_type<T>`: `requires is_enum_v<T>` → `__underlying_type(T)`, otherwise no member `type` -/
def underlyingType (t : CType) : Option CType :=
  if isEnum t then
    match t with
    | base b _ => (underlyingBase b).map fun u => base u CV.none
    | _ => none
  else none

end M
end Tetl.C15
