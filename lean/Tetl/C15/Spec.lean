/-
C15 — specification: what the standard prescribes, independent of how tetl computes it.

* (a) [ratio.ratio], [ratio.arithmetic], [ratio.comparison]: a ratio is the rational number `num/den`;
  `ratio<N,D>::num = sgn(D)·N / gcd(N,D)`, `den = |D| / gcd(N,D)`; `ratio_add<R1,R2>` *is* the specialisation
  `ratio<U,V>` with `U/V = R1 + R2` in lowest terms (ill-formed when `U` or `V` is not representable);
  the comparisons compare the rational numbers.  No intermediate has a type: everything is over `Int`.
* (b) [numeric.limits.members] for an integer type with `bits` bits: `digits` = number of value bits,
  `digits10` = the largest `k` with `10^k ≤ 2^digits`, `max = 2^digits − 1`, `min` = `−2^digits` or `0`,
  `is_modulo` for the unsigned types (libstdc++: `traps` is true for every integer type).
* (c) [meta.unary.cat]: a type is in exactly one primary category, read off the outermost constructor
  (`cat`); [meta.unary.comp] composite categories and [meta.unary.prop] properties in the standard's own
  terms; [meta.trans] transformations, with "referenceable type" ([defns.referenceable]) deciding
  `add_lvalue_reference`, `add_rvalue_reference`, `add_pointer`.
-/
import Tetl.Common
import Tetl.C15.Types
namespace Tetl.C15.Spec
open Tetl Tetl.C15

/-! ## (a) ratio -/

def intmaxMin : Int := -(2 ^ 63)
def intmaxMax : Int := 2 ^ 63 - 1
/-- template arguments of `ratio` must lie in `[-INTMAX_MAX, INTMAX_MAX]` ([ratio.ratio]) -/
def argOk (x : Int) : Bool := decide (-intmaxMax ≤ x) && decide (x ≤ intmaxMax)

/-- a rational number as a pair; `(num, den)` -/
abbrev Q := Int × Int

/-- lowest terms with a positive denominator -/
def reduce (n d : Int) : Q :=
  let g : Int := Int.gcd n d
  ((if d < 0 then -n else n) / g, (if d < 0 then -d else d) / g)

/-- the specialisation `ratio<U,V>` that an operation names: its members and template arguments coincide -/
def named (q : Q) : Except Err Q :=
  if argOk q.1 && argOk q.2 then .ok q else .error (.pre "ill-formed: not representable")

def add (a b : Q) : Except Err Q := named (reduce (a.1 * b.2 + b.1 * a.2) (a.2 * b.2))
def sub (a b : Q) : Except Err Q := named (reduce (a.1 * b.2 - b.1 * a.2) (a.2 * b.2))
def mul (a b : Q) : Except Err Q := named (reduce (a.1 * b.1) (a.2 * b.2))
def div (a b : Q) : Except Err Q :=
  if b.1 = 0 then .error (.pre "ill-formed: division by zero") else named (reduce (a.1 * b.2) (a.2 * b.1))

/-- `a = b` as rational numbers (denominators positive) -/
def equal (a b : Q) : Bool := decide (a.1 * b.2 = b.1 * a.2)
def less (a b : Q) : Bool := decide (a.1 * b.2 < b.1 * a.2)

/-! ## (b) numeric_limits of an integer type -/

structure IntLimits where
  isSigned : Bool
  digits : Nat
  digits10 : Nat
  min : Int
  max : Int
  lowest : Int
  isModulo : Bool
  deriving Repr, DecidableEq, Inhabited

/-- greatest `k ≤ fuel` with `10^k ≤ n` (0 if there is none) -/
def log10Floor (n : Nat) : Nat → Nat
  | 0 => 0
  | k + 1 => if 10 ^ (k + 1) ≤ n then k + 1 else log10Floor n k

/-- `bool` has one value bit and is not modulo; an unsigned type of `bits` bits has `bits` value bits;
    a signed one `bits − 1` -/
def intLimits (isBool : Bool) (bits : Nat) (sg : Bool) : IntLimits :=
  let digits := if isBool then 1 else if sg then bits - 1 else bits
  { isSigned := sg, digits := digits, digits10 := log10Floor (2 ^ digits) digits,
    min := if sg then -(2 ^ digits) else 0, max := 2 ^ digits - 1,
    lowest := if sg then -(2 ^ digits) else 0, isModulo := !sg && !isBool }

/-- `traps` ([numeric.limits.members]: "true if, at the start of the program, there exists a value of the type that would
    cause an arithmetic operation using that value to trap") is the implementation's call.  libstdc++ 12 - the reference
    of this property - answers `true` for every integer type, `bool` included (`__glibcxx_integral_traps`: integer
    division by zero traps on x86-64); libc++ and MSVC answer `false` for `bool`. -/
def intTraps (_isBool : Bool) : Bool := true

/-! ## (c) type traits -/

open CType

/-- the fourteen primary type categories of [meta.unary.cat] -/
inductive Cat where
  | void | nullPointer | integral | floatingPoint | array | pointer | lvalueReference | rvalueReference
  | memberObjectPointer | memberFunctionPointer | enumeration | union | class | function
  deriving Repr, DecidableEq, Inhabited

def baseCat : Base → Cat
  | .void => .void
  | .nullptr => .nullPointer
  | .float | .double | .ldouble => .floatingPoint
  | .enumU | .enumUF | .enumS | .enumSC | .enumSS | .enumUS | .enumL | .enumULL => .enumeration
  | .cls => .class
  | .uni => .union
  | _ => .integral

/-- the primary category (cv-qualification is irrelevant) -/
def cat : CType → Cat
  | base b _ => baseCat b
  | ptr _ _ => .pointer
  | mptr (fn ..) _ => .memberFunctionPointer
  | mptr _ _ => .memberObjectPointer
  | lref _ => .lvalueReference
  | rref _ => .rvalueReference
  | arr _ _ | uarr _ => .array
  | fn .. => .function

def isVoid (t : CType) : Bool := cat t == .void
def isNullPointer (t : CType) : Bool := cat t == .nullPointer
def isIntegral (t : CType) : Bool := cat t == .integral
def isFloatingPoint (t : CType) : Bool := cat t == .floatingPoint
def isArray (t : CType) : Bool := cat t == .array
def isPointer (t : CType) : Bool := cat t == .pointer
def isLvalueReference (t : CType) : Bool := cat t == .lvalueReference
def isRvalueReference (t : CType) : Bool := cat t == .rvalueReference
def isMemberObjectPointer (t : CType) : Bool := cat t == .memberObjectPointer
def isMemberFunctionPointer (t : CType) : Bool := cat t == .memberFunctionPointer
def isEnum (t : CType) : Bool := cat t == .enumeration
def isUnion (t : CType) : Bool := cat t == .union
def isClass (t : CType) : Bool := cat t == .class
def isFunction (t : CType) : Bool := cat t == .function

/-- [meta.unary.comp] -/
def isReference (t : CType) : Bool := isLvalueReference t || isRvalueReference t
def isArithmetic (t : CType) : Bool := isIntegral t || isFloatingPoint t
def isFundamental (t : CType) : Bool := isArithmetic t || isVoid t || isNullPointer t
def isObject (t : CType) : Bool := !isFunction t && !isReference t && !isVoid t
def isMemberPointer (t : CType) : Bool := isMemberObjectPointer t || isMemberFunctionPointer t
def isScalar (t : CType) : Bool :=
  isArithmetic t || isEnum t || isPointer t || isMemberPointer t || isNullPointer t
def isCompound (t : CType) : Bool :=
  isArray t || isFunction t || isPointer t || isReference t || isClass t || isUnion t || isEnum t || isMemberPointer t

/-- [meta.unary.prop] -/
def isConst (t : CType) : Bool := (cvOf t).c
def isVolatile (t : CType) : Bool := (cvOf t).v

/-- signed arithmetic types: the signed integer types, the floating-point types, and on x86-64 Linux the
    implementation-defined `char` and `wchar_t` -/
def signedBase : Base → Bool
  | .schar | .short | .int | .long | .llong | .float | .double | .ldouble | .char | .wchar => true
  | _ => false

def isSigned : CType → Bool
  | base b _ => (baseCat b == .integral || baseCat b == .floatingPoint) && signedBase b
  | _ => false
def isUnsigned : CType → Bool
  | base b _ => (baseCat b == .integral || baseCat b == .floatingPoint) && !signedBase b
  | _ => false

def isBoundedArray : CType → Bool
  | arr _ _ => true
  | _ => false
def isUnboundedArray : CType → Bool
  | uarr _ => true
  | _ => false
def isScopedEnum : CType → Bool
  | base .enumS _ | base .enumSC _ | base .enumUS _ | base .enumL _ => true
  | _ => false

def isSame (a b : CType) : Bool := decide (a = b)

def integral (t : CType) : Bool := isIntegral t
def signedIntegral (t : CType) : Bool := isIntegral t && isSigned t
def unsignedIntegral (t : CType) : Bool := isIntegral t && !signedIntegral t
def floatingPoint (t : CType) : Bool := isFloatingPoint t

/-- the array bounds from the outside in; `none` = unknown bound -/
def dims : CType → List (Option Nat)
  | arr t n => some n :: dims t
  | uarr t => none :: dims t
  | _ => []

/-- number of array dimensions -/
def rank (t : CType) : Nat := (dims t).length
/-- bound of the `i`-th dimension; 0 if it is unknown, or `t` has fewer dimensions -/
def extent (t : CType) (i : Nat) : Nat :=
  match (dims t)[i]? with
  | some (some n) => n
  | _ => 0

/-! [meta.trans.cv] -/
def removeConst (t : CType) : CType := withCV t ⟨false, (cvOf t).v⟩
def removeVolatile (t : CType) : CType := withCV t ⟨(cvOf t).c, false⟩
def removeCv (t : CType) : CType := withCV t CV.none
/-- "if T is a reference, function, or top-level const-qualified type, then T, otherwise T const" -/
def addConst (t : CType) : CType := if isReference t || isFunction t || isConst t then t else withCV t ⟨true, (cvOf t).v⟩
def addVolatile (t : CType) : CType := if isReference t || isFunction t || isVolatile t then t else withCV t ⟨(cvOf t).c, true⟩
def addCv (t : CType) : CType := addConst (addVolatile t)

/-! [meta.trans.ref] -/
def removeReference : CType → CType
  | lref t | rref t => t
  | t => t

/-- [defns.referenceable]: an object type, a function type without cv-qualifier-seq or ref-qualifier, or a
    reference type -/
def referenceable (t : CType) : Bool := isObject t || (isFunction t && !isQualFn t) || isReference t

/-- "if T is a referenceable type then T&" (which collapses for a reference) "otherwise T" -/
def addLvalueReference (t : CType) : CType :=
  if referenceable t then (match t with | lref u | rref u => lref u | _ => lref t) else t
def addRvalueReference (t : CType) : CType :=
  if referenceable t then (match t with | lref u => lref u | rref u => rref u | _ => rref t) else t

/-! [meta.trans.ptr] -/
/-- "if T is (possibly cv-qualified) pointer to T1 then T1, otherwise T" -/
def removePointer : CType → CType
  | ptr t _ => t
  | t => t
/-- "if T is a referenceable type or cv void then remove_reference_t<T>*, otherwise T" -/
def addPointer (t : CType) : CType :=
  if referenceable t || isVoid t then ptr (removeReference t) CV.none else t

/-! [meta.trans.arr] -/
def removeExtent : CType → CType
  | arr t _ | uarr t => t
  | t => t
def removeAllExtents : CType → CType
  | arr t _ | uarr t => removeAllExtents t
  | t => t

/-! [meta.trans.other] -/
/-- "U = remove_reference_t<T>.  If is_array_v<U>: remove_extent_t<U>*.  If is_function_v<U>:
    add_pointer_t<U>.  Otherwise remove_cv_t<U>." -/
def decay (t : CType) : CType :=
  let u := removeReference t
  if isArray u then ptr (removeExtent u) CV.none
  else if isFunction u then addPointer u
  else removeCv u
def removeCvref (t : CType) : CType := removeCv (removeReference t)
def typeIdentity (t : CType) : CType := t

/-! [meta.trans.sign] -/
/-- rank order of the standard signed integer types with their sizes on x86-64 Linux -/
def signedTypes : List (Base × Nat) := [(.schar, 1), (.short, 2), (.int, 4), (.long, 8), (.llong, 8)]
def unsignedTypes : List (Base × Nat) := [(.uchar, 1), (.ushort, 2), (.uint, 4), (.ulong, 8), (.ullong, 8)]

def sizeOfBase : Base → Nat
  | .bool | .char | .schar | .uchar | .char8 | .enumSC | .enumSS => 1
  | .short | .ushort | .char16 | .enumUF | .enumUS => 2
  | .int | .uint | .wchar | .char32 | .float | .enumU | .enumS => 4
  | .long | .ulong | .llong | .ullong | .double | .enumL | .enumULL => 8
  | .ldouble => 16
  | _ => 0

/-- index of a standard integer type in its rank order -/
def idxIn (l : List (Base × Nat)) (b : Base) : Option Nat := l.findIdx? (·.1 == b)

/-- the target of make_signed / make_unsigned for the unqualified type `b`:
    `want` is the list the result comes from, `other` the list of the corresponding types -/
def signTarget (want other : List (Base × Nat)) (b : Base) : Except Err Base :=
  if b == .bool || !(baseCat b == .integral || baseCat b == .enumeration) then
    .error (.pre "ill-formed: Mandates integral (not bool) or enumeration type")
  else
    match idxIn want b with
    | some _ => .ok b                                        -- already of the wanted signedness
    | none =>
      match idxIn other b with
      | some i =>                                            -- the corresponding type
        match want[i]? with
        | some (r, _) => .ok r
        | none => .error .oob
      | none =>                                              -- smallest rank with the same size
        match want.find? (·.2 == sizeOfBase b) with
        | some (r, _) => .ok r
        | none => .error (.pre "no integer type of that size")

def makeSignLike (want other : List (Base × Nat)) : CType → Except Err CType
  | base b q => (signTarget want other b).map fun r => base r q
  | _ => .error (.pre "ill-formed: Mandates integral (not bool) or enumeration type")

def makeSigned : CType → Except Err CType := makeSignLike signedTypes unsignedTypes
def makeUnsigned : CType → Except Err CType := makeSignLike unsignedTypes signedTypes

/-- the underlying type of an enumeration; `none` inside = implementation-defined (no fixed underlying type) -/
def underlyingType : CType → Option (Option CType)
  | base .enumU _ => some none
  | base .enumUF _ => some (some (base .short CV.none))
  | base .enumS _ => some (some (base .int CV.none))
  | base .enumSC _ => some (some (base .uchar CV.none))
  | base .enumSS _ => some (some (base .schar CV.none))
  | base .enumUS _ => some (some (base .ushort CV.none))
  | base .enumL _ => some (some (base .long CV.none))
  | base .enumULL _ => some (some (base .ullong CV.none))
  | _ => none

end Tetl.C15.Spec
