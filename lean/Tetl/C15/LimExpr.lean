/-
C15 — numeric_limits<integer type> "as the header spells it".

include/etl/_limits/numeric_limits.hpp does not compute `min()/max()/digits/…` by one closed form: the members are
spelled with the <climits> macros (`SHRT_MIN` = `(-0x7fff - 1)` after preprocessing), with literals
(`numeric_limits<bool>`, `char8_t`), with `static_cast<unsigned long long>(-1)`, and for `wchar_t`, `char16_t`,
`char32_t` through the template `detail::integer_numeric_limits<T, Signed>` whose `max()` is
`static_cast<T>((((static_cast<T>(1) << (digits - 1)) - 1) << 1) + 1)`.  gen/c15_limits.py extracts the defining
expression of every member from the preprocessed header into the small expression language `CE` below
(lean/Tetl/C15/GenLimits.lean); `eval` gives the expressions their C++ meaning on x86-64 Linux (LP64), and
TetlProofs/C15/Limits.lean checks, over the finite generated table, that every spelled member evaluates without
undefined behaviour to the value [numeric.limits.members] prescribes (`Spec.intLimits`).

Semantics of `eval` (a value is the mathematical integer together with its C++ type `C14.ITy` = (width, signedness);
`bool` is the type `⟨1, false⟩` with the values 0 and 1, distinguished because a conversion *to* bool is `≠ 0`, not
a reduction modulo 2):

* a literal has the type [lex.icon] gives it (decided by the generator from its spelling; `eval` re-checks that
  the value fits);
* unary `-`, binary `+ - * /`: the operands undergo the integral promotions (everything narrower than `int` —
  `bool`, the `char`s, `short`, `char16_t` — becomes `int`) and the usual arithmetic conversions (`C14.ITy.usual`);
  the exact result of a signed operation outside its type is undefined behaviour = `.error (.pre "ub: …")`,
  unsigned results wrap; division by zero is undefined behaviour; `/` truncates towards zero;
* `a << b`: the result type is the promoted type `P` of `a`; a count that is negative or not smaller than the width
  of `P` is undefined behaviour; the value is `a · 2^b` reduced modulo `2^N` into `P` (C++20 [expr.shift]/2: "the
  unique value congruent to E1 × 2^E2 modulo 2^N" — for a signed `P` as well; so a signed `<<` with a valid count
  never is an error here.  Before C++20 an unrepresentable or negative signed operand was undefined.  The
  header is C++20, and none of the spelled expressions relies on the wrap: theorem `shiftsRepresentable` of
  TetlProofs/C15/Limits.lean shows that every shift has a non-negative left operand and an exactly
  representable result, so the theorems hold under the stricter reading too);
* `a < b`: usual arithmetic conversions, result `bool`;
* `!a`: `bool`;
* `c ? a : b`: `c` is contextually converted to bool, only the selected operand is evaluated, the result is
  converted to the common type of both operands (`typeOf` computes the type of the operand not evaluated);
* `static_cast<X>(e)` and the functional cast `X(e)`: conversion modulo `2^w` (C++20 [conv.integral]), to `bool`: `≠ 0`;
  `castT`/`sizeofT` are the same for the template parameter `T` of `detail::integer_numeric_limits<T, Signed>`;
* `sizeof(X)`: `std::size_t` = `⟨64, false⟩`, the size in bytes from `typeInfo`;
* `member m`: a reference to another member of the same specialisation (`is_signed`, `digits`, `max()`, …): the
  member's expression is evaluated (every step of `eval` costs one unit of fuel, so that the recursion is
  structural and a cyclic reference between members ends in `.error .fuel`) and converted to the member's
  *declared* type: `int` for `digits`/`digits10`, `bool` for
  `is_signed`/`is_modulo`/`traps`, the specialised type `T` for `min()/max()/lowest()`;
* `opaque s`: text the extractor did not understand: always an error.
-/
import Tetl.C14.Model
namespace Tetl.C15.LimExpr
open Tetl

abbrev ITy := C14.ITy

def boolTy : ITy := ⟨1, false⟩
def intTy : ITy := ⟨32, true⟩
def sizeTy : ITy := ⟨64, false⟩

/-- a C++ integer constant expression, as far as numeric_limits.hpp needs it -/
inductive CE where
  | lit (v : Int) (ty : ITy)          -- integer literal with the type [lex.icon] gives it
  | blit (b : Bool)                   -- `true` / `false`
  | neg (e : CE)                      -- `-e`
  | lnot (e : CE)                     -- `!e`, `not e`
  | add (a b : CE)
  | sub (a b : CE)
  | mul (a b : CE)
  | div (a b : CE)
  | shl (a b : CE)
  | lt (a b : CE)
  | cond (c a b : CE)                 -- `c ? a : b`
  | cast (ty : String) (e : CE)       -- `static_cast<ty>(e)`, `ty(e)`; `ty` in its canonical C++ spelling
  | castBool (e : CE)                 -- `static_cast<bool>(e)`
  | castT (e : CE)                    -- `static_cast<T>(e)` inside `integer_numeric_limits<T, Signed>`
  | sizeofTy (ty : String)            -- `sizeof(ty)`
  | sizeofBytes (n : Nat)             -- `sizeof` of something whose size the extractor resolved itself (unused today)
  | sizeofT                           -- `sizeof(T)` inside the template
  | member (name : String)            -- another member of the same specialisation
  | opaque (s : String)               -- not understood by the extractor
  deriving Repr, BEq, DecidableEq, Inhabited

/-- one specialisation `numeric_limits<ty>`: how the header spells the eight members -/
structure LimSpec where
  ty : String
  isSigned : CE
  digits : CE
  digits10 : CE
  min : CE
  max : CE
  lowest : CE
  isModulo : CE
  traps : CE
  deriving Repr, BEq, DecidableEq, Inhabited

/-- (is bool, bits, signed) of the sixteen integer types on x86-64 Linux (LP64; `char` and `wchar_t` are signed) -/
def typeInfo : String → Option (Bool × Nat × Bool)
  | "bool" => some (true, 8, false)
  | "char" => some (false, 8, true)
  | "signed char" => some (false, 8, true)
  | "unsigned char" => some (false, 8, false)
  | "wchar_t" => some (false, 32, true)
  | "char8_t" => some (false, 8, false)
  | "char16_t" => some (false, 16, false)
  | "char32_t" => some (false, 32, false)
  | "short" => some (false, 16, true)
  | "unsigned short" => some (false, 16, false)
  | "int" => some (false, 32, true)
  | "unsigned int" => some (false, 32, false)
  | "long" => some (false, 64, true)
  | "unsigned long" => some (false, 64, false)
  | "long long" => some (false, 64, true)
  | "unsigned long long" => some (false, 64, false)
  | _ => none

/-- the `ITy` of a named type -/
def ityOf (name : String) : Option ITy :=
  match typeInfo name with
  | some (true, _, _) => some boolTy
  | some (false, bits, sg) => some ⟨bits, sg⟩
  | none => none

/-- `sizeof` of a named type, in bytes -/
def sizeofBytesOf (name : String) : Option Nat :=
  match typeInfo name with
  | some (_, bits, _) => some (bits / 8)
  | none => none

/-- `sizeof(T)` for the type parameter: `bool` occupies one byte -/
def sizeOfT (T : ITy) : Nat := if T == boolTy then 1 else T.w / 8

/-- conversion to the type `t` ([conv.integral], [conv.bool]) -/
def convTo (t : ITy) (x : Int) : Int :=
  if t == boolTy then (if x == 0 then 0 else 1) else t.conv x

def unknownType {α : Type} (name : String) : Except Err α := .error (.pre ("unknown type: " ++ name))

/-- the expression of a member, by its C++ name -/
def LimSpec.lookup (s : LimSpec) : String → Option CE
  | "is_signed" => some s.isSigned
  | "digits" => some s.digits
  | "digits10" => some s.digits10
  | "min" => some s.min
  | "max" => some s.max
  | "lowest" => some s.lowest
  | "is_modulo" => some s.isModulo
  | "traps" => some s.traps
  | _ => none

/-- the declared type of a member of `numeric_limits<T>` -/
def declTy (T : ITy) : String → Option ITy
  | "is_signed" | "is_modulo" | "traps" => some boolTy
  | "digits" | "digits10" => some intTy
  | "min" | "max" | "lowest" => some T
  | _ => none

/-- the static type of an expression (no evaluation; needed for the operand of `?:` that is not evaluated) -/
def typeOf (T : ITy) : CE → Except Err ITy
  | .lit _ ty => .ok ty
  | .blit _ => .ok boolTy
  | .neg e => do let t ← typeOf T e; .ok t.promote
  | .lnot _ => .ok boolTy
  | .add a b | .sub a b | .mul a b | .div a b => do
    let ta ← typeOf T a
    let tb ← typeOf T b
    .ok (C14.ITy.usual ta tb)
  | .shl a _ => do let t ← typeOf T a; .ok t.promote
  | .lt _ _ => .ok boolTy
  | .cond _ a b => do
    let ta ← typeOf T a
    let tb ← typeOf T b
    .ok (C14.ITy.common ta tb)
  | .cast ty _ => match ityOf ty with
    | some t => .ok t
    | none => unknownType ty
  | .castBool _ => .ok boolTy
  | .castT _ => .ok T
  | .sizeofTy _ | .sizeofBytes _ | .sizeofT => .ok sizeTy
  | .member m => match declTy T m with
    | some t => .ok t
    | none => .error (.pre ("unknown member: " ++ m))
  | .opaque s => .error (.pre ("opaque: " ++ s))

/-- `a op b` for `+ - * /` in the common type -/
def arith2 (op : Int → Int → Except Err Int) (x y : Int × ITy) : Except Err (Int × ITy) := do
  let u := C14.ITy.usual x.2 y.2
  let r ← op (convTo u x.1) (convTo u y.1)
  let r ← C14.arith u r
  .ok (r, u)

/-- evaluation of a member expression of `numeric_limits<T>`; `s` gives the other members -/
def eval (T : ITy) (s : LimSpec) : Nat → CE → Except Err (Int × ITy)
  | 0, _ => .error .fuel
  | f + 1, e =>
    match e with
    | .lit v ty => if ty.inR v then .ok (v, ty) else .error (.pre "literal does not fit its type")
    | .blit b => .ok (if b then 1 else 0, boolTy)
    | .neg e => do
      let (v, t) ← eval T s f e
      let p := t.promote
      let r ← C14.arith p (-v)
      .ok (r, p)
    | .lnot e => do
      let (v, _) ← eval T s f e
      .ok (if v == 0 then 1 else 0, boolTy)
    | .add a b => do arith2 (fun x y => .ok (x + y)) (← eval T s f a) (← eval T s f b)
    | .sub a b => do arith2 (fun x y => .ok (x - y)) (← eval T s f a) (← eval T s f b)
    | .mul a b => do arith2 (fun x y => .ok (x * y)) (← eval T s f a) (← eval T s f b)
    | .div a b => do
      arith2 (fun x y => if y == 0 then C14.ub "division by zero" else .ok (Int.tdiv x y))
        (← eval T s f a) (← eval T s f b)
    | .shl a b => do
      let (x, ta) ← eval T s f a
      let (n, _) ← eval T s f b
      let p := ta.promote
      if n < 0 || n ≥ p.w then C14.ub "shift count"
      else .ok (p.conv (x * 2 ^ n.toNat), p)
    | .lt a b => do
      let (x, ta) ← eval T s f a
      let (y, tb) ← eval T s f b
      let u := C14.ITy.usual ta tb
      .ok (if convTo u x < convTo u y then 1 else 0, boolTy)
    | .cond c a b => do
      let (cv, _) ← eval T s f c
      let ta ← typeOf T a
      let tb ← typeOf T b
      let u := C14.ITy.common ta tb
      let (v, _) ← if cv != 0 then eval T s f a else eval T s f b
      .ok (convTo u v, u)
    | .cast ty e => do
      let (v, _) ← eval T s f e
      match ityOf ty with
      | some t => .ok (convTo t v, t)
      | none => unknownType ty
    | .castBool e => do
      let (v, _) ← eval T s f e
      .ok (convTo boolTy v, boolTy)
    | .castT e => do
      let (v, _) ← eval T s f e
      .ok (convTo T v, T)
    | .sizeofTy ty => match sizeofBytesOf ty with
      | some n => .ok (n, sizeTy)
      | none => unknownType ty
    | .sizeofBytes n => .ok (n, sizeTy)
    | .sizeofT => .ok (sizeOfT T, sizeTy)
    | .member m =>
      match s.lookup m, declTy T m with
      | some e, some t => do
        let (v, _) ← eval T s f e
        .ok (convTo t v, t)
      | _, _ => .error (.pre ("unknown member: " ++ m))
    | .opaque t => .error (.pre ("opaque: " ++ t))

/-- the fuel bounds the depth of the evaluation (expression depth, summed along the chain of member references
    `min → max → digits → is_signed`); 64 is far more than the header needs, see `fuel_suffices` -/
def defaultFuel : Nat := 64

/-- the value of the member `m` of `numeric_limits<T>` as the header spells it -/
def memberVal (T : ITy) (s : LimSpec) (m : String) : Except Err Int := do
  let (v, _) ← eval T s defaultFuel (.member m)
  .ok v

/-- the member evaluates without error to `expected` -/
def memberIs (T : ITy) (s : LimSpec) (m : String) (expected : Int) : Bool :=
  match memberVal T s m with
  | .ok v => v == expected
  | .error _ => false

/-- does an expression contain text the extractor did not understand? -/
def CE.hasOpaque : CE → Bool
  | .opaque _ => true
  | .neg e | .lnot e | .cast _ e | .castBool e | .castT e => e.hasOpaque
  | .add a b | .sub a b | .mul a b | .div a b | .shl a b | .lt a b => a.hasOpaque || b.hasOpaque
  | .cond c a b => c.hasOpaque || a.hasOpaque || b.hasOpaque
  | _ => false

def LimSpec.members (s : LimSpec) : List CE :=
  [s.isSigned, s.digits, s.digits10, s.min, s.max, s.lowest, s.isModulo, s.traps]

def LimSpec.hasOpaque (s : LimSpec) : Bool := s.members.any CE.hasOpaque

/-- every `<<` of the expression, evaluated: is the exact value `a · 2^b` representable in the result type?
    (the pre-C++20 condition for a signed left operand; `true` when the expression has no shift).  Evaluation
    errors of sub-expressions count as `false`. -/
def shiftsOk (T : ITy) (s : LimSpec) (f : Nat) : CE → Bool
  | .shl a b =>
    shiftsOk T s f a && shiftsOk T s f b &&
      (match eval T s f a, eval T s f b with
       | .ok (x, ta), .ok (n, _) => decide (0 ≤ x) && ta.promote.inR (x * 2 ^ n.toNat)
       | _, _ => false)
  | .neg e | .lnot e | .cast _ e | .castBool e | .castT e => shiftsOk T s f e
  | .add a b | .sub a b | .mul a b | .div a b | .lt a b => shiftsOk T s f a && shiftsOk T s f b
  | .cond c a b => shiftsOk T s f c && shiftsOk T s f a && shiftsOk T s f b
  | _ => true

end Tetl.C15.LimExpr
