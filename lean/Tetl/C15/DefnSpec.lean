/-
C15 — what the *definition* of an intrinsic-backed trait has to be: the compiler builtin that implements the
standard's trait of that name ([meta.unary.cat], [meta.unary.prop], [meta.rel]; GCC manual "Type Traits", clang
"Type Trait Primitives") applied to all template arguments of the trait.  Two traits need an argument adaptor because
the builtin is stricter than the trait: `is_aggregate` ignores cv-qualification ([meta.unary.prop]: "T is an aggregate
type", libstdc++ calls `__is_aggregate(remove_cv_t<T>)` as well) and `has_unique_object_representations` is asked for
the element type of an array ([meta.unary.prop]/9, libstdc++: `remove_cv_t<remove_all_extents_t<T>>`).

The table is hand-written from the standard (it is the specification); GenBuiltins.lean is extracted from the headers.
-/
import Tetl.C15.Defn
namespace Tetl.C15.Spec
open Tetl.C15.Defn

private def T : Ty := .par 0
private def U : Ty := .par 1

/-- the argument adaptors the standard requires -/
def argAdaptor : String → Option (List Ty)
  | "is_aggregate" => some [.app "remove_cv_t" T]
  | "has_unique_object_representations" => some [.app "remove_cv_t" (.app "remove_all_extents_t" T)]
  | _ => none

/-- trait ↦ its defining expression, for the traits the compiler decides (g++ 12: no `__is_trivially_destructible`,
    hence `is_destructible_v<T> and __has_trivial_destructor(T)` — libstdc++ 12 is written the same way) -/
def intrinsicTraits : List (String × Ex) := [
  ("is_enum", .builtin "__is_enum" [T]), ("is_class", .builtin "__is_class" [T]), ("is_union", .builtin "__is_union" [T]),
  ("is_trivial", .builtin "__is_trivial" [T]), ("is_trivially_copyable", .builtin "__is_trivially_copyable" [T]),
  ("is_standard_layout", .builtin "__is_standard_layout" [T]), ("is_empty", .builtin "__is_empty" [T]),
  ("is_polymorphic", .builtin "__is_polymorphic" [T]), ("is_abstract", .builtin "__is_abstract" [T]),
  ("is_final", .builtin "__is_final" [T]), ("has_virtual_destructor", .builtin "__has_virtual_destructor" [T]),
  ("is_aggregate", .builtin "__is_aggregate" [.app "remove_cv_t" T]),
  ("has_unique_object_representations",
    .builtin "__has_unique_object_representations" [.app "remove_cv_t" (.app "remove_all_extents_t" T)]),
  ("is_assignable", .builtin "__is_assignable" [T, U]),
  ("is_trivially_assignable", .builtin "__is_trivially_assignable" [T, U]),
  ("is_constructible", .builtin "__is_constructible" [T, .pack 1]),
  ("is_nothrow_constructible", .builtin "__is_nothrow_constructible" [T, .pack 1]),
  ("is_trivially_constructible", .builtin "__is_trivially_constructible" [T, .pack 1]),
  ("is_trivially_destructible",
    .and (.ref "is_destructible" .var [T]) (.builtin "__has_trivial_destructor" [T]))]

/-- the same traits where clang++ takes another `#if` branch, and the traits only clang++ has a builtin for -/
def intrinsicTraitsClang : List (String × Ex) := [
  ("is_trivially_destructible", .builtin "__is_trivially_destructible" [T]),
  ("is_integral", .builtin "__is_integral" [T]), ("is_member_pointer", .builtin "__is_member_pointer" [T]),
  ("is_member_function_pointer", .builtin "__is_member_function_pointer" [T]),
  ("is_member_object_pointer", .builtin "__is_member_object_pointer" [T]),
  ("is_scalar", .builtin "__is_scalar" [T]), ("is_object", .builtin "__is_object" [T])]

/-! ### decidable statements about a table of extracted definitions -/

/-- both forms of the trait `p.1` are defined, the class template without specialisations, and the definition that
    decides each of them (`X_v = X<...>::value` forwards to the class template) is the expression `p.2` -/
def forwardsTo (tbl : List Entry) (p : String × Ex) : Bool :=
  (match find tbl p.1 .struct with
   | some s => s.specs == 0 && resolve tbl s == p.2
   | none => false) &&
  (match find tbl p.1 .var with
   | some v => v.specs == 0 && resolve tbl v == p.2
   | none => false)

/-- a definition that is a single builtin call names the builtin of the trait (`__` ++ name) and passes all template
    arguments in order, or the adaptor the standard requires -/
def sameNameBuiltin (tbl : List Entry) (e : Entry) : Bool :=
  match resolve tbl e with
  | .builtin b args => b == "__" ++ e.name && (args == identityArgs e.params || argAdaptor e.name == some args)
  | _ => true

/-- forget whether an operand is named as `X<T>::value`, `X_v<T>` or a concept -/
def eraseForm : Ex → Ex
  | .ref n _ a => .ref n .struct a
  | .and a b => .and (eraseForm a) (eraseForm b)
  | .or a b => .or (eraseForm a) (eraseForm b)
  | .not a => .not (eraseForm a)
  | e => e

/-- the variable template `X_v` and the class template `X` have one definition: one forwards to the other with the
    template's own arguments, or both are the same expression -/
def formsAgree (tbl : List Entry) (v : Entry) : Bool :=
  match find tbl v.name .struct with
  | none => false
  | some s =>
    resolve tbl v == s.body || eraseForm v.body == eraseForm s.body ||
    s.body == .ref v.name .var (identityArgs s.params) || v.body == .ref v.name .struct (identityArgs v.params)

end Tetl.C15.Spec
