/-
C15 — INVOKE ([func.require]/1) as tetl's `invoke_result` / `is_invocable` / `is_invocable_r` and the concepts
`invocable`, `regular_invocable`, `predicate` decide it, and as the standard defines it.

Grammar.  A *callable* `F` is a function (type, pointer or reference), a function object whose call operators are a
list of (cv-qualifier-seq, ref-qualifier, return type), a pointer to a member function of the class `S` with any
cv-qualifier-seq / ref-qualifier / noexcept, a pointer to a data member of `S` (`int` or `int const`), or something
that is not callable.  The *first argument* `A1` is `S`, a class derived from `S`, `reference_wrapper` of either
(wrapped type const or not), a pointer to either (pointee const or not), a pointer-like class whose `operator*` has
any cv- / ref-qualifier and returns `S&` or `S const&`, or an unrelated type; `F` and `A1` come in the six forms
`X`, `X&`, `X&&`, `X const`, `X const&`, `X const&&` (`TyQ`); the remaining arguments are `n` values of type `int`.

Three layers:

* the LANGUAGE rules both sides rely on (`Lang`): value category of `declval<T>()`, which implicit object arguments
  a cv- and ref-qualified member function accepts ([over.match.funcs]/5 for a call of `operator()` / `operator*`,
  [expr.mptr.oper]/6 in its C++20 wording for `.*`: the two coincide), overload resolution among call operators
  that differ only in their qualifiers ([over.ics.rank]/3.2.3, 3.2.6), implicit convertibility of the few result
  types of the zoo;
* `Model`: tetl's formulation, by TYPES - deduction of the forwarding reference `T&&`, `etl::forward<T>(t)`
  (`static_cast<T&&>`), the three constrained `invoke_impl<MT B::*>::get` overloads (`T&&` by reference collapsing,
  `decltype(t.get())`, `decltype(*etl::forward<T>(t))`), the two `call` overloads, `invoke_impl<F>::call` for
  everything else, `detail::is_invocable_impl` (void / convertible), the concepts;
* `Spec`: [func.require]/1.1-1.7 by EXPRESSIONS - the object expression `t1`, `t1.get()` or `*t1` of
  `declval<A1>()`, its value category and constness.

Core Lean only (linked into the driver).
-/
import Tetl.C15.Types
namespace Tetl.C15.Inv

/-- reference declarator of a template argument -/
inductive Ref where
  | none | lref | rref
  deriving Repr, DecidableEq, Inhabited

/-- `X`, `X&`, `X&&`, `X const`, `X const&`, `X const&&` -/
structure TyQ where
  c : Bool
  r : Ref
  deriving Repr, DecidableEq, Inhabited

inductive Cat where
  | lvalue | xvalue | prvalue
  deriving Repr, DecidableEq, Inhabited

/-- qualifiers of a non-static member function -/
structure MemQ where
  c : Bool
  v : Bool
  r : RefQ
  deriving Repr, DecidableEq, Inhabited

/-- return types of the zoo's functions -/
inductive Ret where
  | void | bool | char | short | int | long | llong | uint | ulong | float | double
  deriving Repr, DecidableEq, Inhabited

/-- type of an INVOKE expression: a prvalue of a `Ret`, or `int [const] &` / `int [const] &&` (data member) -/
inductive ResTy where
  | pr (r : Ret)
  | ref (c : Bool) (rv : Bool)
  deriving Repr, DecidableEq, Inhabited

/-- the `R` of `is_invocable_r<R, ...>` that the matrix instantiates -/
inductive RTy where
  | void | int | lint | rint | clint
  deriving Repr, DecidableEq, Inhabited

inductive FnKind where
  | type | ptr | ref            -- `int(int)`, `int(*)(int)`, `int(&)(int)`
  deriving Repr, DecidableEq, Inhabited

inductive Callable where
  | fn (k : FnKind) (ne : Bool)                                   -- arity 1, returns int
  | fobj (ops : List (MemQ × Ret))                                -- class with `Ret operator()(int) q` for each entry
  | pmf (q : MemQ) (ne : Bool) (ret : Ret) (arity : Nat)          -- `Ret (S::*)(int x arity) q noexcept(ne)`
  | pmd (c : Bool)                                                -- `int S::*` / `int const S::*`
  | notCallable                                                   -- `int`, a class without call operator
  deriving Repr, DecidableEq, Inhabited

/-- the first argument after `remove_cvref` -/
inductive ABase where
  | cls (derived : Bool)                        -- `S`, `D : S`
  | rw (derived : Bool) (c : Bool)              -- `reference_wrapper<S [const]>`
  | ptr (derived : Bool) (c : Bool)             -- `S [const]*`
  | smart (q : MemQ) (c : Bool)                 -- class with `S [const]& operator*() q`
  | unrelated                                   -- a class that has nothing to do with `S`
  | int                                         -- `int`
  deriving Repr, DecidableEq, Inhabited

structure Arg where
  b : ABase
  q : TyQ
  deriving Repr, DecidableEq, Inhabited

def Arg.isInt (a : Arg) : Bool := a.b == .int

/-! ### language rules -/
namespace Lang

/-- `declval<T>()` returns `T&&`: an lvalue for `X&`, an xvalue otherwise -/
def declvalCat (q : TyQ) : Cat :=
  match q.r with
  | .lref => .lvalue
  | _ => .xvalue

/-- a member function with qualifiers `m` accepts an implicit object argument of category `cat` and constness `c`
    (never volatile): the cv-qualifiers of the object are a subset of the function's; `&` needs an lvalue unless the
    cv-qualifier-seq is exactly `const`; `&&` needs an rvalue -/
def bindOk (m : MemQ) (cat : Cat) (c : Bool) : Bool :=
  (!c || m.c) &&
  (match m.r with
   | .none => true
   | .lref => cat == .lvalue || (m.c && !m.v)
   | .rref => cat != .lvalue)

/-- rank of a viable call operator: rvalue-reference binding to an rvalue first, then the fewer added qualifiers -/
def rank (m : MemQ) (c : Bool) : Nat :=
  (if m.r == .rref then 0 else 4) + (if m.c && !c then 1 else 0) + (if m.v then 2 else 0)

/-- overload resolution among call operators that differ in their qualifiers only -/
def resolve (ops : List (MemQ × Ret)) (cat : Cat) (c : Bool) : Option Ret :=
  let viable := ops.filter fun o => bindOk o.1 cat c
  match viable with
  | [] => none
  | o :: rest => some (rest.foldl (fun best x => if rank x.1 c < rank best.1 c then x else best) o).2

/-- `R x = <expression of type res>;` is well-formed (void: `is_invocable_r<void>` discards the result) -/
def converts (res : ResTy) (r : RTy) : Bool :=
  match r, res with
  | .void, _ => true
  | _, .pr .void => false
  | .int, _ => true
  | .clint, _ => true                                   -- binds directly, or to a temporary
  | .lint, .ref c rv => !c && !rv                       -- only a non-const lvalue
  | .lint, .pr _ => false
  | .rint, .ref c rv => !c && rv                        -- an xvalue `int&&`; not an lvalue, not a const one
  | .rint, .pr _ => true                                -- a temporary

/-- the arguments `A1?, int x n` fit the parameter list `(int)` of the zoo's functions and call operators: one argument
    of type `int` (any cv/ref form converts) -/
def unaryIntArgs (a1IsInt : Option Bool) (n : Nat) : Bool :=
  match a1IsInt with
  | none => n == 1
  | some isInt => isInt && n == 0

/-- `boolean-testable` for the result types of the zoo: everything but void converts to bool and has `!` -/
def boolTestable : ResTy → Bool
  | .pr .void => false
  | _ => true

end Lang

/-- result of the model / spec: `none` = the INVOKE expression is ill-formed (substitution failure) -/
abbrev Res := Option ResTy

/-! ### the model: tetl's `detail::invoke_impl`, by types -/
namespace Model
open Lang

/-- deduction of `T` in a parameter `T&& t` from the argument `declval<X q>()`: `X [const]&` for an lvalue,
    `X [const]` otherwise ([temp.deduct.call]/3) -/
def deduce (q : TyQ) : TyQ :=
  match q.r with
  | .lref => ⟨q.c, .lref⟩
  | _ => ⟨q.c, .none⟩

/-- `T&&` after reference collapsing -/
def collapseRref (t : TyQ) : TyQ :=
  match t.r with
  | .lref => ⟨t.c, .lref⟩
  | _ => ⟨t.c, .rref⟩

/-- category of a call whose return type is the reference type `t` (or of `static_cast<t>`) -/
def catOfRefTy (t : TyQ) : Cat :=
  match t.r with
  | .lref => .lvalue
  | .rref => .xvalue
  | .none => .prvalue

/-- `etl::forward<T>(t)` is `static_cast<T&&>(t)` -/
def forwardCat (t : TyQ) : Cat := catOfRefTy (collapseRref t)

/-- how the object argument of the `get` overloads is written in `call`: `etl::forward<T>(t)` (the library), or the
    bare parameter name `t` (always an lvalue) - the second is the defect of seeded/C15-r2-invoke-result-value-category,
    kept as a parameter so that `Props.invoke_named_parameter_differs` can state what the theorem is sensitive to -/
inductive ArgExpr where
  | forwarded | named
  deriving Repr, DecidableEq

/-- the type `T` that `get(T&& t)` deduces from the argument expression of `call` -/
def getT (e : ArgExpr) (t : TyQ) : TyQ :=
  match e with
  | .forwarded => deduce ⟨t.c, (collapseRref t).r⟩      -- argument `static_cast<T&&>(t)`
  | .named => ⟨t.c, .lref⟩                              -- argument `t`: an lvalue of type `remove_reference_t<T>`

def isBaseOf : ABase → Bool
  | .cls _ => true
  | _ => false

def isRefWrapper : ABase → Bool
  | .rw _ _ => true
  | _ => false

/-- `*e` for `e` of category `cat`, constness `c`: built-in for a pointer, `operator*` for the pointer-like class -/
def deref (b : ABase) (cat : Cat) (c : Bool) : Option (Cat × Bool) :=
  match b with
  | .ptr _ pc => some (.lvalue, pc)
  | .smart m rc => if bindOk m cat c then some (.lvalue, rc) else none
  | _ => none

/-- the three `invoke_impl<MT B::*>::get` overloads; exactly one constraint holds.  Value: category and constness
    of `invoke_impl::get(<arg>)` -/
def get (e : ArgExpr) (b : ABase) (tCall : TyQ) : Option (Cat × Bool) :=
  let t := getT e tCall
  if isBaseOf b then
    some (catOfRefTy (collapseRref t), t.c)                         -- `-> T&&`
  else if isRefWrapper b then
    (match b with
     | .rw _ wc => some (.lvalue, wc)                               -- `-> decltype(t.get())`: `U&`
     | _ => none)
  else
    deref b (forwardCat t) t.c                                      -- `-> decltype(*etl::forward<T>(t))`

/-- `(obj.*pmf)(args...)` / `obj.*pmd` -/
def memCall (f : Callable) (obj : Cat × Bool) (n : Nat) : Res :=
  match f with
  | .pmf m _ ret arity => if bindOk m obj.1 obj.2 && n == arity then some (.pr ret) else none
  | .pmd mc => if n == 0 then some (.ref (obj.2 || mc) (obj.1 != .lvalue)) else none
  | _ => none

/-- `detail::INVOKE(declval<F>(), declval<Args>()...)` with `Args = A1?, int x n` -/
def invokeWith (e : ArgExpr) (f : Callable) (fq : TyQ) (a1 : Option Arg) (n : Nat) : Res :=
  match f with
  | .pmf .. | .pmd _ =>                                              -- `invoke_impl<MT B::*>` (`Fd = decay_t<F>`)
    (match a1 with
     | none => none                                                 -- both `call` overloads need `T&& t`
     | some a => (get e a.b (deduce a.q)).bind fun obj => memCall f obj n)
  | .fn _ _ =>                                                       -- `invoke_impl<Fd>::call`: `forward<F>(f)(args...)`
    if unaryIntArgs (a1.map Arg.isInt) n then some (.pr .int) else none
  | .fobj ops =>
    let t := deduce fq
    if unaryIntArgs (a1.map Arg.isInt) n then (resolve ops (forwardCat t) t.c).map .pr else none
  | .notCallable => none

def invoke := invokeWith .forwarded

/-- `invoke_result<F, Args...>::type` (absent when INVOKE is ill-formed) -/
def invokeResult (f : Callable) (fq : TyQ) (a1 : Option Arg) (n : Nat) : Res := invoke f fq a1 n

/-- `detail::is_invocable_impl<invoke_result<...>, R>`: no `::type` -> false; `R` void -> true; else `use_t<R>(get_t())` -/
def isInvocableR (r : RTy) (f : Callable) (fq : TyQ) (a1 : Option Arg) (n : Nat) : Bool :=
  match invokeResult f fq a1 n with
  | none => false
  | some res => if r == .void then true else converts res r

def isInvocable := isInvocableR .void

/-- concept `invocable`: `etl::invoke(forward<F>(f), forward<Args>(args)...)` is well-formed, and its return type is
    `invoke_result_t` -/
def invocable (f : Callable) (fq : TyQ) (a1 : Option Arg) (n : Nat) : Bool := (invokeResult f fq a1 n).isSome

def regularInvocable := invocable

def predicate (f : Callable) (fq : TyQ) (a1 : Option Arg) (n : Nat) : Bool :=
  regularInvocable f fq a1 n &&
  (match invokeResult f fq a1 n with
   | some res => boolTestable res
   | none => false)

end Model

/-! ### the specification: [func.require]/1 by expressions -/
namespace Spec
open Lang

/-- the class of `remove_cvref_t<decltype(t1)>` is `S` or derived from `S` (1.1, 1.4) -/
def related : ABase → Bool
  | .cls _ => true
  | _ => false

/-- the object expression of 1.1-1.6 for `t1 = declval<A1>()`: category and constness, `none` when it is ill-formed -/
def objExpr (a : Arg) : Option (Cat × Bool) :=
  match a.b with
  | .cls _ => some (declvalCat a.q, a.q.c)                            -- 1.1 / 1.4: `t1`
  | .rw _ wc => some (.lvalue, wc)                                   -- 1.2 / 1.5: `t1.get()`
  | .ptr _ pc => some (.lvalue, pc)                                  -- 1.3 / 1.6: `*t1`, built-in
  | .smart m rc => if bindOk m (declvalCat a.q) a.q.c then some (.lvalue, rc) else none     -- 1.3 / 1.6: `operator*`
  | .unrelated | .int => none

/-- INVOKE(f, t1, ..., tN) ([func.require]/1) -/
def invoke (f : Callable) (fq : TyQ) (a1 : Option Arg) (n : Nat) : Res :=
  match f, a1 with
  | .pmf m _ ret arity, some a =>                                    -- 1.1-1.3: `(E.*f)(t2, ..., tN)`
    (match objExpr a with
     | some (cat, c) => if bindOk m cat c && n == arity then some (.pr ret) else none
     | none => none)
  | .pmd mc, some a =>                                               -- 1.4-1.6: `E.*f`, N == 1
    (match objExpr a with
     | some (cat, c) => if n == 0 then some (.ref (c || mc) (cat != .lvalue)) else none
     | none => none)
  | .fn _ _, _ => if unaryIntArgs (a1.map Arg.isInt) n then some (.pr .int) else none        -- 1.7: `f(t1, ..., tN)`
  | .fobj ops, _ =>
    if unaryIntArgs (a1.map Arg.isInt) n then (resolve ops (declvalCat fq) fq.c).map .pr else none
  | _, _ => none

def isInvocable (f : Callable) (fq : TyQ) (a1 : Option Arg) (n : Nat) : Bool := (invoke f fq a1 n).isSome

/-- INVOKE<R>: well-formed and implicitly convertible to `R` (cv void: any result) -/
def isInvocableR (r : RTy) (f : Callable) (fq : TyQ) (a1 : Option Arg) (n : Nat) : Bool :=
  match invoke f fq a1 n with
  | none => false
  | some res => converts res r

def predicate (f : Callable) (fq : TyQ) (a1 : Option Arg) (n : Nat) : Bool :=
  match invoke f fq a1 n with
  | none => false
  | some res => boolTestable res

end Spec

/-! ### the overload set as written in the header (tie: `Tetl.C15.GenInvoke.overloads` is extracted by gen/c15_invoke.py) -/

/-- expression of a trailing return type -/
inductive IEx where
  | name (x : String)                              -- a parameter by its name: an lvalue
  | fwd (ty x : String)                            -- `etl::forward<ty>(x)`
  | packFwd (ty x : String)                        -- `etl::forward<ty>(x)...`
  | get (e : IEx)                                  -- `invoke_impl::get(e)`
  | deref (e : IEx)                                -- `*e`
  | dotGet (e : IEx)                               -- `e.get()`
  | memCall (obj : IEx) (pm : String) (args : IEx) -- `(obj.*pm)(args)`
  | memAcc (obj : IEx) (pm : String)               -- `obj.*pm`
  | call (f : IEx) (args : IEx)                    -- `f(args)`
  | implCall (ty : String) (f : IEx) (args : IEx)  -- `invoke_impl<ty>::call(f, args)`
  | tyRref (ty : String)                           -- the type `ty&&` (no decltype)
  | opaque (s : String)                            -- not understood by the extractor
  deriving Repr, DecidableEq, Inhabited

structure Overload where
  owner : String
  name : String
  req : String                                     -- requires-clause (tokens separated by blanks)
  params : List String
  ret : IEx
  deriving Repr, DecidableEq, Inhabited

/-- the overload set that `Model` transcribes: what the header must say.  `get`: `T&&` for a class derived from `B`,
    `t.get()` for a reference_wrapper, `*etl::forward<T>(t)` otherwise; `call`: the object expression is
    `get(etl::forward<T>(t))` in both member overloads, everything else is forwarded to `f(args...)`. -/
def expectedOverloads : List Overload := [
  ⟨"invoke_impl<T>", "call", "", ["F && f", "Args && ... args"], .call (.fwd "F" "f") (.packFwd "Args" "args")⟩,
  ⟨"invoke_impl<MT B :: *>", "get", "is_base_of_v < B , Td >", ["T && t"], .tyRref "T"⟩,
  ⟨"invoke_impl<MT B :: *>", "get", "is_reference_wrapper < Td > :: value", ["T && t"], .dotGet (.name "t")⟩,
  ⟨"invoke_impl<MT B :: *>", "get", "( ! is_base_of_v < B , Td > and ! is_reference_wrapper < Td > :: value )", ["T && t"],
    .deref (.fwd "T" "t")⟩,
  ⟨"invoke_impl<MT B :: *>", "call", "is_function_v < MT1 >", ["MT1 B :: * pmf", "T && t", "Args && ... args"],
    .memCall (.get (.fwd "T" "t")) "pmf" (.packFwd "Args" "args")⟩,
  ⟨"invoke_impl<MT B :: *>", "call", "", ["MT B :: * pmd", "T && t"], .memAcc (.get (.fwd "T" "t")) "pmd"⟩,
  ⟨"detail", "INVOKE", "", ["F && f", "Args && ... args"], .implCall "Fd" (.fwd "F" "f") (.packFwd "Args" "args")⟩]

/-- how an overload set writes the argument of `get` in the member-function `call` (the parameter `e` of
    `Model.invokeWith`): `none` when it is written in a way the model has no reading for -/
def argExprOf (ovs : List Overload) : Option Model.ArgExpr :=
  match ovs.find? (fun o => o.name == "call" && o.params.length == 3) with
  | some ⟨_, _, _, [_, p, _], .memCall (.get (.fwd ty x)) _ _⟩ =>
    if p == ty ++ " && " ++ x then some .forwarded else none
  | some ⟨_, _, _, [_, p, _], .memCall (.get (.name x)) _ _⟩ =>
    if p.endsWith (" && " ++ x) then some .named else none
  | _ => none

/-! ### the named zoo of harness/c15.cpp (`namespace inv`) -/

def q0 : MemQ := ⟨false, false, .none⟩

/-- callables by the name of their alias in the harness -/
def callableOf : String → Option Callable
  | "pm_f0" => some (.pmf q0 false .short 0)                          -- `short f0();`
  | "pm_fl" => some (.pmf ⟨false, false, .lref⟩ false .int 0)         -- `int fl() &;`
  | "pm_fr" => some (.pmf ⟨false, false, .rref⟩ false .long 0)        -- `long fr() &&;`
  | "pm_fc" => some (.pmf ⟨true, false, .none⟩ false .char 0)         -- `char fc() const;`
  | "pm_fcl" => some (.pmf ⟨true, false, .lref⟩ false .uint 0)        -- `unsigned fcl() const&;`
  | "pm_fcr" => some (.pmf ⟨true, false, .rref⟩ false .ulong 0)       -- `unsigned long fcr() const&&;`
  | "pm_fn" => some (.pmf q0 true .float 0)                           -- `float fn() noexcept;`
  | "pm_fcn" => some (.pmf ⟨true, false, .none⟩ true .bool 0)         -- `bool fcn() const noexcept;`
  | "pm_fa" => some (.pmf q0 false .double 1)                         -- `double fa(int);`
  | "pm_fv" => some (.pmf q0 false .void 0)                           -- `void fv();`
  | "pm_fvl" => some (.pmf ⟨true, true, .lref⟩ false .llong 0)        -- `long long fvl() const volatile&;`
  | "pm_frn" => some (.pmf ⟨false, false, .rref⟩ true .llong 0)       -- `long long frn() && noexcept;`
  | "pd_x" => some (.pmd false)                                       -- `int S::*`
  | "pd_cx" => some (.pmd true)                                       -- `int const S::*`
  | "FoP" => some (.fobj [(q0, .short)])
  | "FoC" => some (.fobj [(⟨true, false, .none⟩, .int)])
  | "FoL" => some (.fobj [(⟨false, false, .lref⟩, .long)])
  | "FoR" => some (.fobj [(⟨false, false, .rref⟩, .char)])
  | "FoCL" => some (.fobj [(⟨true, false, .lref⟩, .uint)])
  | "FoCR" => some (.fobj [(⟨true, false, .rref⟩, .ulong)])
  | "FoOv" => some (.fobj [(⟨false, false, .lref⟩, .float), (⟨false, false, .rref⟩, .double), (⟨true, false, .lref⟩, .int)])
  | "FoOv2" => some (.fobj [(q0, .short), (⟨true, false, .none⟩, .bool)])
  | "FoN" => some (.fobj [(⟨true, false, .none⟩, .bool)])            -- noexcept
  | "FoV" => some (.fobj [(⟨true, false, .none⟩, .void)])
  | "FoCVL" => some (.fobj [(⟨true, true, .lref⟩, .llong)])
  | "fn_t" => some (.fn .type false)
  | "fn_p" => some (.fn .ptr false)
  | "fn_r" => some (.fn .ref false)
  | "fn_pn" => some (.fn .ptr true)
  | "nc_int" => some .notCallable
  | "nc_U" => some .notCallable
  | _ => none

def abaseOf : String → Option ABase
  | "S" => some (.cls false)
  | "D" => some (.cls true)
  | "rwS" => some (.rw false false)
  | "rwCS" => some (.rw false true)
  | "rwD" => some (.rw true false)
  | "pS" => some (.ptr false false)
  | "pCS" => some (.ptr false true)
  | "pD" => some (.ptr true false)
  | "smC" => some (.smart ⟨true, false, .none⟩ false)                 -- `S& operator*() const;`
  | "smK" => some (.smart ⟨true, false, .none⟩ true)                  -- `S const& operator*() const;`
  | "smN" => some (.smart q0 false)                                   -- `S& operator*();`
  | "smL" => some (.smart ⟨false, false, .lref⟩ false)                -- `S& operator*() &;`
  | "smR" => some (.smart ⟨false, false, .rref⟩ false)                -- `S& operator*() &&;`
  | "U" => some .unrelated
  | "int" => some .int
  | _ => none

def tyqOf (n : Nat) : Option TyQ :=
  if n < 6 then some ⟨n / 3 == 1, match n % 3 with | 0 => .none | 1 => .lref | _ => .rref⟩ else none

def Ret.enc : Ret → String
  | .void => "bvoid;" | .bool => "bbool;" | .char => "bchar;" | .short => "bshort;" | .int => "bint;"
  | .long => "blong;" | .llong => "bllong;" | .uint => "buint;" | .ulong => "bulong;" | .float => "bfloat;"
  | .double => "bdouble;"

/-- in the prefix encoding of `CType.enc` -/
def ResTy.enc : ResTy → String
  | .pr r => r.enc
  | .ref c rv => (if rv then "R" else "L") ++ (if c then "K1" else "") ++ "bint;"

def Res.enc : Res → String
  | some r => ResTy.enc r
  | none => "none"

end Tetl.C15.Inv
