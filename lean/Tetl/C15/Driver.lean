/-
C15 driver.

  drv-c15 zoo <level>      enumerate the type zoo of that level: `<enc> <TAB> <C++ spelling>` per type
  drv-c15                  line protocol on stdin, `model <TAB> spec` per line:

    ut t=<enc>                      structural unary traits of the type
    bt a=<enc> b=<enc>              is_same / same_as
    spell t=<enc>                   `<C++ spelling>` (both columns) or `illformed`
    lim t=<base name>               numeric_limits of an integer type (modelled members only)
    rn n=<int> d=<int>              ratio<n,d>::num/den and ::type
    ra n1= d1= n2= d2=              ratio_add/subtract/multiply/divide and the six comparisons
    inv f=<callable> fq=<0..5> a=<first argument|none> aq=<0..5> n=<trailing int arguments>
                                    INVOKE: is_invocable, is_invocable_r<R>, invoke_result, invocable, regular_invocable,
                                    predicate over the named zoo of Tetl/C15/Invoke.lean (fq, aq: const*3 + none/&/&&)

A result is a blank-separated list of `name=value`; type values are printed with `CType.enc`.
-/
import Tetl.Proto
import Tetl.C15.Model
import Tetl.C15.Spec
import Tetl.C15.Invoke
namespace Tetl.C15.Driver
open Tetl Tetl.Proto Tetl.C15 CType

def b2s (b : Bool) : String := if b then "1" else "0"
def items (l : List (String × String)) : String := " ".intercalate (l.map fun (k, v) => k ++ "=" ++ v)

def exT : Except Err CType → String
  | .ok t => t.enc
  | .error _ => "ill-formed"

def modelUnary (t : CType) : String :=
  items [
    ("is_void", b2s (M.isVoid t)), ("is_null_pointer", b2s (M.isNullPointer t)), ("is_integral", b2s (M.isIntegral t)),
    ("is_floating_point", b2s (M.isFloatingPoint t)), ("is_array", b2s (M.isArray t)), ("is_enum", b2s (M.isEnum t)),
    ("is_union", b2s (M.isUnion t)), ("is_class", b2s (M.isClass t)), ("is_function", b2s (M.isFunction t)),
    ("is_pointer", b2s (M.isPointer t)), ("is_lvalue_reference", b2s (M.isLvalueReference t)),
    ("is_rvalue_reference", b2s (M.isRvalueReference t)), ("is_member_object_pointer", b2s (M.isMemberObjectPointer t)),
    ("is_member_function_pointer", b2s (M.isMemberFunctionPointer t)), ("is_fundamental", b2s (M.isFundamental t)),
    ("is_arithmetic", b2s (M.isArithmetic t)), ("is_scalar", b2s (M.isScalar t)), ("is_object", b2s (M.isObject t)),
    ("is_compound", b2s (M.isCompound t)), ("is_reference", b2s (M.isReference t)),
    ("is_member_pointer", b2s (M.isMemberPointer t)), ("is_const", b2s (M.isConst t)), ("is_volatile", b2s (M.isVolatile t)),
    ("is_signed", b2s (M.isSigned t)), ("is_unsigned", b2s (M.isUnsigned t)), ("is_bounded_array", b2s (M.isBoundedArray t)),
    ("is_unbounded_array", b2s (M.isUnboundedArray t)), ("is_scoped_enum", b2s (M.isScopedEnum t)),
    ("integral", b2s (M.integral t)), ("signed_integral", b2s (M.signedIntegral t)),
    ("unsigned_integral", b2s (M.unsignedIntegral t)), ("floating_point", b2s (M.floatingPoint t)),
    ("rank", toString (M.rank t)), ("extent0", toString (M.extent t 0)), ("extent1", toString (M.extent t 1)),
    ("remove_const", (M.removeConst t).enc), ("remove_volatile", (M.removeVolatile t).enc), ("remove_cv", (M.removeCv t).enc),
    ("add_const", (M.addConst t).enc), ("add_volatile", (M.addVolatile t).enc), ("add_cv", (M.addCv t).enc),
    ("remove_reference", (M.removeReference t).enc), ("add_lvalue_reference", (M.addLvalueReference t).enc),
    ("add_rvalue_reference", (M.addRvalueReference t).enc), ("remove_pointer", (M.removePointer t).enc),
    ("add_pointer", (M.addPointer t).enc), ("remove_extent", (M.removeExtent t).enc),
    ("remove_all_extents", (M.removeAllExtents t).enc), ("decay", (M.decay t).enc), ("remove_cvref", (M.removeCvref t).enc),
    ("type_identity", (M.typeIdentity t).enc), ("make_signed", exT (M.makeSigned t)), ("make_unsigned", exT (M.makeUnsigned t)),
    ("underlying_type", match M.underlyingType t with | some u => u.enc | none => "none")]

def specUnary (t : CType) : String :=
  items [
    ("is_void", b2s (Spec.isVoid t)), ("is_null_pointer", b2s (Spec.isNullPointer t)), ("is_integral", b2s (Spec.isIntegral t)),
    ("is_floating_point", b2s (Spec.isFloatingPoint t)), ("is_array", b2s (Spec.isArray t)), ("is_enum", b2s (Spec.isEnum t)),
    ("is_union", b2s (Spec.isUnion t)), ("is_class", b2s (Spec.isClass t)), ("is_function", b2s (Spec.isFunction t)),
    ("is_pointer", b2s (Spec.isPointer t)), ("is_lvalue_reference", b2s (Spec.isLvalueReference t)),
    ("is_rvalue_reference", b2s (Spec.isRvalueReference t)), ("is_member_object_pointer", b2s (Spec.isMemberObjectPointer t)),
    ("is_member_function_pointer", b2s (Spec.isMemberFunctionPointer t)), ("is_fundamental", b2s (Spec.isFundamental t)),
    ("is_arithmetic", b2s (Spec.isArithmetic t)), ("is_scalar", b2s (Spec.isScalar t)), ("is_object", b2s (Spec.isObject t)),
    ("is_compound", b2s (Spec.isCompound t)), ("is_reference", b2s (Spec.isReference t)),
    ("is_member_pointer", b2s (Spec.isMemberPointer t)), ("is_const", b2s (Spec.isConst t)), ("is_volatile", b2s (Spec.isVolatile t)),
    ("is_signed", b2s (Spec.isSigned t)), ("is_unsigned", b2s (Spec.isUnsigned t)), ("is_bounded_array", b2s (Spec.isBoundedArray t)),
    ("is_unbounded_array", b2s (Spec.isUnboundedArray t)), ("is_scoped_enum", b2s (Spec.isScopedEnum t)),
    ("integral", b2s (Spec.integral t)), ("signed_integral", b2s (Spec.signedIntegral t)),
    ("unsigned_integral", b2s (Spec.unsignedIntegral t)), ("floating_point", b2s (Spec.floatingPoint t)),
    ("rank", toString (Spec.rank t)), ("extent0", toString (Spec.extent t 0)), ("extent1", toString (Spec.extent t 1)),
    ("remove_const", (Spec.removeConst t).enc), ("remove_volatile", (Spec.removeVolatile t).enc), ("remove_cv", (Spec.removeCv t).enc),
    ("add_const", (Spec.addConst t).enc), ("add_volatile", (Spec.addVolatile t).enc), ("add_cv", (Spec.addCv t).enc),
    ("remove_reference", (Spec.removeReference t).enc), ("add_lvalue_reference", (Spec.addLvalueReference t).enc),
    ("add_rvalue_reference", (Spec.addRvalueReference t).enc), ("remove_pointer", (Spec.removePointer t).enc),
    ("add_pointer", (Spec.addPointer t).enc), ("remove_extent", (Spec.removeExtent t).enc),
    ("remove_all_extents", (Spec.removeAllExtents t).enc), ("decay", (Spec.decay t).enc), ("remove_cvref", (Spec.removeCvref t).enc),
    ("type_identity", (Spec.typeIdentity t).enc), ("make_signed", exT (Spec.makeSigned t)), ("make_unsigned", exT (Spec.makeUnsigned t)),
    ("underlying_type", match Spec.underlyingType t with
      | some (some u) => u.enc
      | some none => "*"            -- implementation-defined
      | none => "none")]

/-! ### the zoo -/

def allCV : List CV := [⟨false, false⟩, ⟨true, false⟩, ⟨false, true⟩, ⟨true, true⟩]

/-- level 0: every base type with every cv-qualification -/
def leaves : List CType := Base.all.flatMap fun b => allCV.map fun q => base b q

def fnAll : List (Args × CV × RefQ × Bool) :=
  [Args.a0, .a1, .a2].flatMap fun a => allCV.flatMap fun q => [RefQ.none, .lref, .rref].flatMap fun r =>
    [false, true].map fun ne => (a, q, r, ne)

def fnFew : List (Args × CV × RefQ × Bool) :=
  [(.a0, CV.none, .none, false), (.a1, CV.none, .none, true), (.a2, CV.none, .none, false), (.a0, ⟨true, false⟩, .none, false),
   (.a1, ⟨false, true⟩, .lref, true), (.a0, CV.none, .rref, false), (.a1, ⟨true, true⟩, .rref, true), (.a2, CV.none, .lref, true)]

/-- return types that get every function-type variant -/
def fullFnRet (t : CType) : Bool :=
  t == base .void CV.none || t == base .int CV.none || t == lref (base .cls ⟨true, false⟩)

/-- every way to wrap `t` once (well-formed results only) -/
def grow1 (t : CType) : List CType :=
  let fns := (if fullFnRet t then fnAll else fnFew).map fun (a, q, r, ne) => fn t a q r ne
  ((allCV.map fun q => ptr t q) ++ (allCV.map fun q => mptr t q) ++ [lref t, rref t, arr t 3, arr t 1, uarr t] ++ fns).filter wf

def grow (ts : List CType) : List CType := ts.flatMap grow1

def smallLeaves : List CType :=
  [base .int CV.none, base .int ⟨true, false⟩, base .char ⟨false, true⟩, base .void CV.none, base .void ⟨true, false⟩,
   base .cls CV.none, base .cls ⟨true, true⟩, base .enumS CV.none, base .enumU ⟨true, false⟩, base .double CV.none,
   base .nullptr CV.none, base .ullong ⟨false, true⟩, base .bool CV.none, base .uni ⟨true, false⟩]

def tinyLeaves : List CType := [base .int CV.none, base .cls ⟨true, false⟩, base .void CV.none, base .char ⟨false, true⟩]

def zoo : Nat → List CType
  | 0 => leaves
  | 1 => grow (leaves ++ [lref (base .cls ⟨true, false⟩)]) |>.filter (· != lref (lref (base .cls ⟨true, false⟩)))
  | 2 => grow (grow smallLeaves)
  | 3 => grow (grow (grow tinyLeaves))
  | _ => []

/-! ### numeric_limits -/

/-- (kind, is bool, bits, signed) of the integer types on x86-64 Linux -/
def limitsOf : String → Option (IntKind × Bool × Nat × Bool)
  | "bool" => some (.bool, true, 8, false)
  | "char" => some (.char, false, 8, true)
  | "schar" => some (.plain, false, 8, true)
  | "uchar" => some (.plain, false, 8, false)
  | "wchar" => some (.plain, false, 32, true)
  | "char8" => some (.char8, false, 8, false)
  | "char16" => some (.plain, false, 16, false)
  | "char32" => some (.plain, false, 32, false)
  | "short" => some (.plain, false, 16, true)
  | "ushort" => some (.plain, false, 16, false)
  | "int" => some (.plain, false, 32, true)
  | "uint" => some (.plain, false, 32, false)
  | "long" => some (.plain, false, 64, true)
  | "ulong" => some (.plain, false, 64, false)
  | "llong" => some (.plain, false, 64, true)
  | "ullong" => some (.plain, false, 64, false)
  | _ => none

def fmtLimM (bits : Nat) (l : C15.IntLimits) : String :=
  items [("sizeof", toString (bits / 8)), ("is_specialized", "1"), ("is_integer", "1"), ("is_exact", "1"), ("radix", "2"),
         ("is_bounded", "1"), ("is_signed", b2s l.isSigned), ("digits", toString l.digits), ("digits10", toString l.digits10),
         ("min", toString l.min), ("max", toString l.max), ("lowest", toString l.lowest), ("is_modulo", b2s l.isModulo),
         ("traps", b2s l.traps)]

def fmtLimS (bits : Nat) (isBool : Bool) (l : Spec.IntLimits) : String :=
  items [("sizeof", toString (bits / 8)), ("is_specialized", "1"), ("is_integer", "1"), ("is_exact", "1"), ("radix", "2"),
         ("is_bounded", "1"), ("is_signed", b2s l.isSigned), ("digits", toString l.digits), ("digits10", toString l.digits10),
         ("min", toString l.min), ("max", toString l.max), ("lowest", toString l.lowest), ("is_modulo", b2s l.isModulo),
         ("traps", b2s (Spec.intTraps isBool))]

/-! ### ratio -/

def fmtRat (n d : Int) : String := s!"{n}/{d}"
def exB : Except Err Bool → String
  | .ok b => b2s b
  | .error _ => "ill-formed"

def ratItem (name : String) (r : Except Err Rat) : List (String × String) :=
  match r with
  | .ok r => [(name, fmtRat r.num r.den), (name ++ "_canon", b2s r.canonical)]
  | .error _ => [(name, "ill-formed"), (name ++ "_canon", "ill-formed")]

def ratItemS (name : String) (r : Except Err Spec.Q) : List (String × String) :=
  match r with
  | .ok q => [(name, fmtRat q.1 q.2), (name ++ "_canon", "1")]
  | .error _ => [(name, "ill-formed"), (name ++ "_canon", "ill-formed")]

def modelRa (n1 d1 n2 d2 : Int) : String :=
  match mkRatio n1 d1, mkRatio n2 d2 with
  | .ok a, .ok b =>
    items (ratItem "add" (ratioAdd a b) ++ ratItem "subtract" (ratioSub a b) ++ ratItem "multiply" (ratioMul a b)
      ++ ratItem "divide" (ratioDiv a b)
      ++ [("equal", b2s (ratioEqual a b)), ("not_equal", b2s (ratioNotEqual a b))]
      ++ (match ratioLess a b, ratioLessEqual a b, ratioGreater a b, ratioGreaterEqual a b with
          | .ok l, .ok le, .ok g, .ok ge =>
            [("less", b2s l), ("less_equal", b2s le), ("greater", b2s g), ("greater_equal", b2s ge)]
          | _, _, _, _ =>
            -- the four ordering traits are built on `ratio_less`: ill-formed together (never, for valid operands)
            [("less", "ill-formed"), ("less_equal", "ill-formed"), ("greater", "ill-formed"), ("greater_equal", "ill-formed")]))
  | _, _ => "bad-operand"

def specRa (n1 d1 n2 d2 : Int) : String :=
  if d1 = 0 || d2 = 0 || !Spec.argOk n1 || !Spec.argOk d1 || !Spec.argOk n2 || !Spec.argOk d2 then "bad-operand" else
  let a := Spec.reduce n1 d1
  let b := Spec.reduce n2 d2
  items (ratItemS "add" (Spec.add a b) ++ ratItemS "subtract" (Spec.sub a b) ++ ratItemS "multiply" (Spec.mul a b)
    ++ ratItemS "divide" (Spec.div a b)
    ++ [("equal", b2s (Spec.equal a b)), ("not_equal", b2s (!Spec.equal a b)), ("less", b2s (Spec.less a b)),
        ("less_equal", b2s (!Spec.less b a)), ("greater", b2s (Spec.less b a)), ("greater_equal", b2s (!Spec.less a b))])

/-! ### INVOKE -/

def rtys : List (String × Inv.RTy) :=
  [("void", .void), ("int", .int), ("int&", .lint), ("int&&", .rint), ("int_const&", .clint)]

def modelInv (f : Inv.Callable) (fq : Inv.TyQ) (a1 : Option Inv.Arg) (n : Nat) : String :=
  items ([("is_invocable", b2s (Inv.Model.isInvocable f fq a1 n))]
    ++ rtys.map (fun (s, r) => ("is_invocable_r<" ++ s ++ ">", b2s (Inv.Model.isInvocableR r f fq a1 n)))
    ++ [("invoke_result", Inv.Res.enc (Inv.Model.invokeResult f fq a1 n)),
        ("invocable", b2s (Inv.Model.invocable f fq a1 n)), ("regular_invocable", b2s (Inv.Model.regularInvocable f fq a1 n)),
        ("predicate", b2s (Inv.Model.predicate f fq a1 n))])

def specInv (f : Inv.Callable) (fq : Inv.TyQ) (a1 : Option Inv.Arg) (n : Nat) : String :=
  items ([("is_invocable", b2s (Inv.Spec.isInvocable f fq a1 n))]
    ++ rtys.map (fun (s, r) => ("is_invocable_r<" ++ s ++ ">", b2s (Inv.Spec.isInvocableR r f fq a1 n)))
    ++ [("invoke_result", Inv.Res.enc (Inv.Spec.invoke f fq a1 n)),
        ("invocable", b2s (Inv.Spec.isInvocable f fq a1 n)), ("regular_invocable", b2s (Inv.Spec.isInvocable f fq a1 n)),
        ("predicate", b2s (Inv.Spec.predicate f fq a1 n))])

def invLine (l : Line) : Option String := do
  let f ← (l.str? "f").bind Inv.callableOf
  let fq ← (l.nat? "fq").bind Inv.tyqOf
  let n ← l.nat? "n"
  let an ← l.str? "a"
  let a1 ← (if an == "none" then some none else do
    let b ← Inv.abaseOf an
    let q ← (l.nat? "aq").bind Inv.tyqOf
    some (some (Inv.Arg.mk b q)))
  some (modelInv f fq a1 n ++ "\t" ++ specInv f fq a1 n)

def step (_ : Unit) (l : Line) : Unit × String :=
  let out : String :=
    match l.op with
    | "ut" =>
      match (l.str? "t").bind CType.decode with
      | some t => if t.wf then modelUnary t ++ "\t" ++ specUnary t else "illformed\tillformed"
      | none => "bad-op\tbad-op"
    | "bt" =>
      match (l.str? "a").bind CType.decode, (l.str? "b").bind CType.decode with
      | some a, some b =>
        items [("is_same", b2s (M.isSame a b)), ("same_as", b2s (M.sameAs a b))] ++ "\t" ++
        items [("is_same", b2s (Spec.isSame a b)), ("same_as", b2s (Spec.isSame a b))]
      | _, _ => "bad-op\tbad-op"
    | "spell" =>
      match (l.str? "t").bind CType.decode with
      | some t => if t.wf then t.cpp ++ "\t" ++ t.cpp else "illformed\tillformed"
      | none => "bad-op\tbad-op"
    | "lim" =>
      match (l.str? "t").bind limitsOf with
      | some (k, isBool, bits, sg) =>
        fmtLimM bits (intLimits k bits sg) ++ "\t" ++ fmtLimS bits isBool (Spec.intLimits isBool bits sg)
      | none => "\t"          -- floating-point type: no model, etl is compared with std only
    | "rn" =>
      match l.int? "n", l.int? "d" with
      | some n, some d =>
        (match mkRatio n d with
         | .ok r =>
           -- `ratio<n,d>::type` is `ratio<num,den>`, whose members are computed by the same expressions
           (match mkRatio r.num r.den with
            | .ok r2 => items [("ratio", fmtRat r.num r.den), ("type", fmtRat r2.num r2.den)]
            | .error _ => items [("ratio", fmtRat r.num r.den), ("type", "ill-formed")])
         | .error _ => "ill-formed") ++ "\t" ++
        (if d = 0 || !Spec.argOk n || !Spec.argOk d then "ill-formed" else
          let q := Spec.reduce n d
          items [("ratio", fmtRat q.1 q.2), ("type", fmtRat q.1 q.2)])
      | _, _ => "bad-op\tbad-op"
    | "ra" =>
      match l.int? "n1", l.int? "d1", l.int? "n2", l.int? "d2" with
      | some n1, some d1, some n2, some d2 => modelRa n1 d1 n2 d2 ++ "\t" ++ specRa n1 d1 n2 d2
      | _, _, _, _ => "bad-op\tbad-op"
    | "inv" => (invLine l).getD "bad-op\tbad-op"
    | "misc" | "d" | "db" => "\t"        -- part (d): no model, etl is compared with std only
    | _ => "bad-op\tbad-op"
  ((), out)

end Tetl.C15.Driver

open Tetl.C15 Tetl.C15.Driver in
def main (args : List String) : IO Unit := do
  match args with
  | ["zoo", k] =>
    let out ← IO.getStdout
    for t in zoo k.toNat! do
      out.putStrLn (t.enc ++ "\t" ++ t.cpp)
    out.flush
  | _ => Tetl.Proto.runDriver () step
