/- placeholder: the C15 driver is not built yet -/
def main : IO Unit := IO.println "C15: driver not built yet"
