/-
C15 — abstract syntax of the *definitions* of tetl's type traits and concepts, as extracted from the preprocessed
headers by gen/c15_defs.py (GenBuiltins.lean is the generated table), and their evaluation over the type grammar
`CType` with the model functions of Model.lean for the operands.

A trait such as `is_final` adds no logic of its own to the compiler builtin: what can be wrong is only WHICH builtin
is called with WHICH arguments.  A composite trait (`is_arithmetic`, `is_scalar`, `is_object`, ...) is a formula over
other traits; a member of the copy/move families is another trait applied to an argument pattern.  `Ex` represents
exactly that; everything the extractor does not understand is `Ex.opaque`.

Core Lean only.
-/
import Tetl.C15.Model
namespace Tetl.C15.Defn
open Tetl.C15 CType

/-- a type expression inside a definition -/
inductive Ty where
  | par (i : Nat)                  -- the i-th template parameter (a type parameter)
  | pack (i : Nat)                 -- `Args...`: the expansion of the i-th template parameter (a pack)
  | named (s : String)             -- `void`, `long long`, `nullptr_t`, ...
  | c (t : Ty)                     -- `T const`
  | v (t : Ty)                     -- `T volatile`
  | lref (t : Ty)                  -- `T&`
  | rref (t : Ty)                  -- `T&&`
  | ptr (t : Ty)                   -- `T*`
  | app (n : String) (a : Ty)      -- `n<a>`   (the `_t` aliases)
  | app2 (n : String) (a b : Ty)   -- `n<a, b>`
  deriving DecidableEq, Repr, Inhabited

/-- which entity: the class template (`X<T>` as a base class, `X<T>::value`), the variable template `X_v<T>`, a concept -/
inductive Form where
  | struct | var | concept
  deriving DecidableEq, Repr, Inhabited

/-- the defining expression of a trait -/
inductive Ex where
  | builtin (n : String) (args : List Ty)           -- `__is_final(T)`
  | ref (n : String) (f : Form) (args : List Ty)    -- another trait / concept applied to type expressions
  | contains (x : Ty) (l : List Ty)                 -- `meta::contains_v<x, meta::list<l...>>`
  | and (a b : Ex)
  | or (a b : Ex)
  | not (a : Ex)
  | lit (b : Bool)                                  -- `true_type`, `false_type`, `true`, `false`
  | opaque (s : String)                             -- not understood by the extractor (decltype, noexcept, requires { }, ...)
  deriving DecidableEq, Repr, Inhabited

/-- kind of a template parameter -/
inductive PKind where
  | type | pack | value
  deriving DecidableEq, Repr, Inhabited

/-- one primary template -/
structure Entry where
  name : String
  form : Form
  params : List PKind
  /-- number of partial / explicit / constrained specialisations next to the primary template -/
  specs : Nat
  body : Ex
  deriving DecidableEq, Repr, Inhabited

/-- the template's own parameters, in order: `T, Args...` -/
def identityArgs (ps : List PKind) : List Ty :=
  (ps.zipIdx).filterMap fun (k, i) =>
    match k with
    | .type => some (.par i)
    | .pack => some (.pack i)
    | .value => none

def find (tbl : List Entry) (n : String) (f : Form) : Option Entry := tbl.find? fun e => e.form == f && e.name == n

/-- `X_v<T, Args...> = X<T, Args...>::value` forwards to the class template: the definition that decides is the
    struct's.  Every other body is its own definition. -/
def resolve (tbl : List Entry) (e : Entry) : Ex :=
  match e.body with
  | .ref n .struct args =>
    if e.form == .var && args == identityArgs e.params && n == e.name then
      match find tbl n .struct with
      | some s => if s.specs == 0 then s.body else e.body
      | none => e.body
    else e.body
  | b => b

def Ex.usesBuiltin : Ex → Bool
  | .builtin .. => true
  | .and a b | .or a b => a.usesBuiltin || b.usesBuiltin
  | .not a => a.usesBuiltin
  | _ => false

/-! ### evaluation over the type grammar -/

/-- the builtin types by their C++ spelling -/
def baseOfName : String → Option Base
  | "void" => some .void | "nullptr_t" => some .nullptr | "bool" => some .bool | "char" => some .char
  | "signed char" => some .schar | "unsigned char" => some .uchar | "wchar_t" => some .wchar | "char8_t" => some .char8
  | "char16_t" => some .char16 | "char32_t" => some .char32 | "short" => some .short | "unsigned short" => some .ushort
  | "int" => some .int | "unsigned int" => some .uint | "long" => some .long | "unsigned long" => some .ulong
  | "long long" => some .llong | "unsigned long long" => some .ullong | "float" => some .float | "double" => some .double
  | "long double" => some .ldouble
  | _ => none

/-- the unary type transformations by name, as Model.lean models them -/
def tyFn : String → Option (CType → CType)
  | "remove_cv_t" => some M.removeCv | "remove_const_t" => some M.removeConst | "remove_volatile_t" => some M.removeVolatile
  | "add_const_t" => some M.addConst | "add_volatile_t" => some M.addVolatile | "add_cv_t" => some M.addCv
  | "remove_reference_t" => some M.removeReference | "add_lvalue_reference_t" => some M.addLvalueReference
  | "add_rvalue_reference_t" => some M.addRvalueReference | "remove_pointer_t" => some M.removePointer
  | "add_pointer_t" => some M.addPointer | "remove_extent_t" => some M.removeExtent
  | "remove_all_extents_t" => some M.removeAllExtents | "decay_t" => some M.decay | "remove_cvref_t" => some M.removeCvref
  | "type_identity_t" => some M.typeIdentity
  | _ => none

/-- the type a type expression denotes when the template parameters are bound to `env`; `none`: not a type of the
    grammar / the expression cannot be formed (substitution failure) / not understood -/
def evalTy (env : List CType) : Ty → Option CType
  | .par i => env[i]?
  | .pack _ => none
  | .named s => (baseOfName s).map fun b => base b CV.none
  | .c t => (evalTy env t).map M.addConst             -- `T const`: the language rule `add_const` also uses
  | .v t => (evalTy env t).map M.addVolatile
  | .lref t => (evalTy env t).bind mkLref
  | .rref t => (evalTy env t).bind mkRref
  | .ptr t => (evalTy env t).bind mkPtr
  | .app n a => do let f ← tyFn n; let x ← evalTy env a; pure (f x)
  | .app2 _ _ _ => none

/-- the unary boolean traits and concepts by name, as Model.lean models them (g++ branch) -/
def traitFn : String → Option (CType → Bool)
  | "is_void" => some M.isVoid | "is_null_pointer" => some M.isNullPointer | "is_integral" => some M.isIntegral
  | "is_floating_point" => some M.isFloatingPoint | "is_array" => some M.isArray | "is_enum" => some M.isEnum
  | "is_union" => some M.isUnion | "is_class" => some M.isClass | "is_function" => some M.isFunction
  | "is_pointer" => some M.isPointer | "is_lvalue_reference" => some M.isLvalueReference
  | "is_rvalue_reference" => some M.isRvalueReference | "is_member_object_pointer" => some M.isMemberObjectPointer
  | "is_member_function_pointer" => some M.isMemberFunctionPointer | "is_fundamental" => some M.isFundamental
  | "is_arithmetic" => some M.isArithmetic | "is_scalar" => some M.isScalar | "is_object" => some M.isObject
  | "is_compound" => some M.isCompound | "is_reference" => some M.isReference | "is_member_pointer" => some M.isMemberPointer
  | "is_const" => some M.isConst | "is_volatile" => some M.isVolatile | "is_signed" => some M.isSigned
  | "is_unsigned" => some M.isUnsigned | "is_bounded_array" => some M.isBoundedArray
  | "is_unbounded_array" => some M.isUnboundedArray | "is_scoped_enum" => some M.isScopedEnum
  | "integral" => some M.integral | "signed_integral" => some M.signedIntegral
  | "unsigned_integral" => some M.unsignedIntegral | "floating_point" => some M.floatingPoint
  | _ => none

/-- the builtins whose meaning on the grammar is a fact about `Base` (Model.lean: `__is_enum`, `__is_class`, `__is_union`) -/
def builtinFn : String → Option (CType → Bool)
  | "__is_enum" => some M.isEnum | "__is_class" => some M.isClass | "__is_union" => some M.isUnion
  | _ => none

def namedBases (l : List Ty) : Option (List Base) :=
  l.mapM fun t => match t with
    | .named s => baseOfName s
    | _ => none

/-- the value of a defining expression when the operands are what Model.lean says they are -/
def evalEx (env : List CType) : Ex → Option Bool
  | .lit b => some b
  | .not a => (evalEx env a).map (!·)
  | .and a b => do let x ← evalEx env a; let y ← evalEx env b; pure (x && y)
  | .or a b => do let x ← evalEx env a; let y ← evalEx env b; pure (x || y)
  | .contains x l => do let t ← evalTy env x; let bs ← namedBases l; pure (M.contains t bs)
  | .builtin n [a] => do let f ← builtinFn n; let t ← evalTy env a; pure (f t)
  | .ref "is_same" _ [a, b] => do let x ← evalTy env a; let y ← evalTy env b; pure (M.isSame x y)
  | .ref n _ [a] => do let f ← traitFn n; let t ← evalTy env a; pure (f t)
  | _ => none

/-- a definition of the form "another trait applied to type expressions": that trait and the argument types -/
def evalCall (env : List CType) : Ex → Option (String × List CType)
  | .ref n _ args => (args.mapM (evalTy env)).map fun ts => (n, ts)
  | _ => none

end Tetl.C15.Defn
