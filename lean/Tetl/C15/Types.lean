/-
C15 — the C++ type grammar over which the structural type traits are modelled (DESIGN §4 C15 (c)).

`CType` is the abstract syntax of C++ types built from the builtin types, eight enumerations (underlying types of 1, 2, 4 and 8 bytes, signed and
unsigned, scoped and unscoped), a class
and a union by cv-qualification, pointers, pointers to members of `Cls`, references, arrays of known
and unknown bound, and function types with cv-, ref- and noexcept-qualifiers.  The *language* facts
that both the model of tetl (Model.lean) and the specification (Spec.lean) rely on are here:

* canonical form of cv-qualification: references and function types have no cv-qualifiers of their
  own; an array has exactly the cv-qualification of its elements ([basic.type.qualifier]/3), so a
  qualifier "applied to an array" is stored in the element type (`withCV`), and `cvOf` of an array
  is the `cvOf` of its element type;
* which compound types can be formed at all (`wf`, [dcl.ptr], [dcl.ref], [dcl.array], [dcl.fct],
  [dcl.mptr]): no pointer/reference to a reference, no pointer or reference to a function type with
  cv- or ref-qualifiers, no reference to `void`, no array of references, `void`, functions or arrays
  of unknown bound, no function returning an array or a function (the zoo also excludes cv-qualified
  return types, whose qualifiers are dropped for non-class types).  A template argument substitution
  that would form such a type is a deduction failure (SFINAE); the model of the `try_add_*` helpers
  uses exactly this predicate.

Core Lean only (linked into the driver).
-/
namespace Tetl.C15

/-- the non-compound types of the zoo -/
inductive Base where
  | void | nullptr
  | bool | char | schar | uchar | wchar | char8 | char16 | char32
  | short | ushort | int | uint | long | ulong | llong | ullong
  | float | double | ldouble
  | enumU     -- `enum EU { eu0, eu1 }`              (unscoped, no fixed underlying type)
  | enumUF    -- `enum EUF : short { euf0 }`         (unscoped, fixed underlying type)
  | enumS     -- `enum class ES { a, b }`            (scoped, underlying type int)
  | enumSC    -- `enum class ESC : unsigned char`    (scoped, fixed underlying type)
  | enumSS    -- `enum ESS : signed char { ess0 }`   (unscoped, 1 byte, signed)
  | enumUS    -- `enum class EUS : unsigned short`   (scoped, 2 bytes, unsigned)
  | enumL     -- `enum class EL : long`              (scoped, 8 bytes, signed)
  | enumULL   -- `enum EULL : unsigned long long { eull0 }` (unscoped, 8 bytes, unsigned)
  | cls       -- `struct Cls { int m; void f(); }`
  | uni       -- `union Uni { int i; float f; }`
  deriving Repr, DecidableEq, Inhabited

structure CV where
  c : Bool
  v : Bool
  deriving Repr, DecidableEq, Inhabited

def CV.none : CV := ⟨false, false⟩
def CV.union (a b : CV) : CV := ⟨a.c || b.c, a.v || b.v⟩
def CV.code (q : CV) : Nat := (if q.c then 1 else 0) + (if q.v then 2 else 0)
def CV.ofCode (n : Nat) : CV := ⟨n % 2 == 1, n / 2 % 2 == 1⟩

/-- ref-qualifier of a function type -/
inductive RefQ where
  | none | lref | rref
  deriving Repr, DecidableEq, Inhabited

/-- the parameter lists of the zoo's function types: `()`, `(int)`, `(Cls&, ...)` -/
inductive Args where
  | a0 | a1 | a2
  deriving Repr, DecidableEq, Inhabited

inductive CType where
  | base (b : Base) (q : CV)
  | ptr (t : CType) (q : CV)                     -- `T* q`
  | mptr (t : CType) (q : CV)                    -- `T Cls::* q`
  | lref (t : CType)                             -- `T&`
  | rref (t : CType)                             -- `T&&`
  | arr (t : CType) (n : Nat)                    -- `T[n]`
  | uarr (t : CType)                             -- `T[]`
  | fn (ret : CType) (a : Args) (q : CV) (r : RefQ) (ne : Bool)   -- `Ret(args) q r noexcept(ne)`
  deriving Repr, DecidableEq, Inhabited

namespace CType

def isRef : CType → Bool
  | lref _ | rref _ => true
  | _ => false

def isFn : CType → Bool
  | fn .. => true
  | _ => false

def isArr : CType → Bool
  | arr .. | uarr _ => true
  | _ => false

def isUarr : CType → Bool
  | uarr _ => true
  | _ => false

/-- (possibly cv-qualified) `void` -/
def isVoid : CType → Bool
  | base .void _ => true
  | _ => false

/-- a function type with a cv-qualifier-seq or a ref-qualifier ("abominable"): no pointer or
    reference to it can be formed ([dcl.fct]/6) -/
def isQualFn : CType → Bool
  | fn _ _ q r _ => q.c || q.v || r != .none
  | _ => false

/-- top-level cv-qualification; for an array that of its elements -/
def cvOf : CType → CV
  | base _ q | ptr _ q | mptr _ q => q
  | arr t _ | uarr t => cvOf t
  | _ => CV.none

/-- the same type with top-level cv-qualification `q` (no effect on references and functions) -/
def withCV : CType → CV → CType
  | base b _, q => base b q
  | ptr t _, q => ptr t q
  | mptr t _, q => mptr t q
  | arr t n, q => arr (withCV t q) n
  | uarr t, q => uarr (withCV t q)
  | t, _ => t

/-- the type can be formed ([dcl.ptr], [dcl.ref], [dcl.array], [dcl.fct], [dcl.mptr]) -/
def wf : CType → Bool
  | base _ _ => true
  | ptr t _ => wf t && !isRef t && !isQualFn t
  | mptr t _ => wf t && !isRef t && !isVoid t
  | lref t | rref t => wf t && !isRef t && !isVoid t && !isQualFn t
  | arr t n => wf t && n != 0 && !isRef t && !isVoid t && !isFn t && !isUarr t
  | uarr t => wf t && !isRef t && !isVoid t && !isFn t && !isUarr t
  | fn r _ _ _ _ => wf r && !isArr r && !isFn r && cvOf r == CV.none

/-- `T&` formed inside a template: reference collapsing ([dcl.ref]/6); `none` = substitution failure -/
def mkLref : CType → Option CType
  | lref u => some (lref u)
  | rref u => some (lref u)
  | t => if wf (lref t) then some (lref t) else none

/-- `T&&` formed inside a template -/
def mkRref : CType → Option CType
  | lref u => some (lref u)
  | rref u => some (rref u)
  | t => if wf (rref t) then some (rref t) else none

/-- `T*` formed inside a template -/
def mkPtr (t : CType) : Option CType := if wf (ptr t CV.none) then some (ptr t CV.none) else none

/-- nesting depth -/
def depth : CType → Nat
  | base _ _ => 0
  | ptr t _ | mptr t _ | lref t | rref t | arr t _ | uarr t | fn t _ _ _ _ => depth t + 1

end CType

/-! ### spelling and encoding -/

def Base.name : Base → String
  | .void => "void" | .nullptr => "nullptr" | .bool => "bool" | .char => "char" | .schar => "schar"
  | .uchar => "uchar" | .wchar => "wchar" | .char8 => "char8" | .char16 => "char16" | .char32 => "char32"
  | .short => "short" | .ushort => "ushort" | .int => "int" | .uint => "uint" | .long => "long"
  | .ulong => "ulong" | .llong => "llong" | .ullong => "ullong" | .float => "float" | .double => "double"
  | .ldouble => "ldouble" | .enumU => "EU" | .enumUF => "EUF" | .enumS => "ES" | .enumSC => "ESC"
  | .enumSS => "ESS" | .enumUS => "EUS" | .enumL => "EL" | .enumULL => "EULL"
  | .cls => "Cls" | .uni => "Uni"

def Base.all : List Base :=
  [.void, .nullptr, .bool, .char, .schar, .uchar, .wchar, .char8, .char16, .char32, .short, .ushort, .int, .uint,
   .long, .ulong, .llong, .ullong, .float, .double, .ldouble, .enumU, .enumUF, .enumS, .enumSC, .enumSS, .enumUS, .enumL, .enumULL,
   .cls, .uni]

/-- the C++ spelling of a base type in the harness translation unit (blank-free aliases) -/
def Base.cpp : Base → String
  | .nullptr => "nullptr_t"
  | .wchar => "wchar_t" | .char8 => "char8_t" | .char16 => "char16_t" | .char32 => "char32_t"
  | b => b.name

def Base.ofName (s : String) : Option Base := Base.all.find? (·.name == s)

def RefQ.code : RefQ → Nat
  | .none => 0 | .lref => 1 | .rref => 2
def Args.code : Args → Nat
  | .a0 => 0 | .a1 => 1 | .a2 => 2

def cvPrefix (q : CV) : String := if q.code == 0 then "" else s!"K{q.code}"

namespace CType

/-- prefix encoding; the harness prints the same encoding from C++ partial specialisations -/
def enc : CType → String
  | base b q => cvPrefix q ++ "b" ++ b.name ++ ";"
  | ptr t q => cvPrefix q ++ "P" ++ enc t
  | mptr t q => cvPrefix q ++ "M" ++ enc t
  | lref t => "L" ++ enc t
  | rref t => "R" ++ enc t
  | arr t n => s!"A{n};" ++ enc t
  | uarr t => "U" ++ enc t
  | fn r a q rq ne => s!"F{a.code}{q.code}{rq.code}{if ne then 1 else 0}" ++ enc r

def cvWrap (q : CV) (s : String) : String := if q.code == 0 then s else s!"C{q.code}<{s}>"

/-- compositional C++ spelling through the alias templates of harness/c15.cpp (no declarator syntax) -/
def cpp : CType → String
  | base b q => cvWrap q b.cpp
  | ptr t q => cvWrap q s!"P<{cpp t}>"
  | mptr t q => cvWrap q s!"M<{cpp t}>"
  | lref t => s!"L<{cpp t}>"
  | rref t => s!"R<{cpp t}>"
  | arr t n => s!"A<{cpp t},{n}>"
  | uarr t => s!"UA<{cpp t}>"
  | fn r a q rq ne => s!"F{a.code}{q.code}{rq.code}{if ne then 1 else 0}<{cpp r}>"

end CType

/-! ### decoding (driver input) -/

private def digit? (c : Char) : Option Nat := if c.isDigit then some (c.toNat - '0'.toNat) else none

private def takeUntilSemi : List Char → List Char → Option (List Char × List Char)
  | [], _ => none
  | ';' :: rest, acc => some (acc.reverse, rest)
  | c :: rest, acc => takeUntilSemi rest (c :: acc)

/-- parser for `CType.enc`; `q` is a pending `K` prefix -/
def decodeAux : Nat → List Char → Option CV → Option (CType × List Char)
  | 0, _, _ => none
  | fuel + 1, cs, pend =>
    let q := pend.getD CV.none
    match cs with
    | 'K' :: d :: rest =>
      match pend, digit? d with
      | none, some k => if 1 ≤ k && k ≤ 3 then decodeAux fuel rest (some (CV.ofCode k)) else none
      | _, _ => none
    | 'b' :: rest =>
      match takeUntilSemi rest [] with
      | some (nm, rest') => (Base.ofName (String.ofList nm)).map fun b => (CType.base b q, rest')
      | none => none
    | 'P' :: rest => (decodeAux fuel rest none).map fun (t, r) => (CType.ptr t q, r)
    | 'M' :: rest => (decodeAux fuel rest none).map fun (t, r) => (CType.mptr t q, r)
    | 'L' :: rest => if pend.isSome then none else (decodeAux fuel rest none).map fun (t, r) => (CType.lref t, r)
    | 'R' :: rest => if pend.isSome then none else (decodeAux fuel rest none).map fun (t, r) => (CType.rref t, r)
    | 'U' :: rest => if pend.isSome then none else (decodeAux fuel rest none).map fun (t, r) => (CType.uarr t, r)
    | 'A' :: rest =>
      if pend.isSome then none else
      match takeUntilSemi rest [] with
      | some (ds, rest') =>
        match (String.ofList ds).toNat? with
        | some n => (decodeAux fuel rest' none).map fun (t, r) => (CType.arr t n, r)
        | none => none
      | none => none
    | 'F' :: a :: c :: r :: n :: rest =>
      if pend.isSome then none else
      match digit? a, digit? c, digit? r, digit? n with
      | some a, some c, some r, some n =>
        let a? : Option Args := match a with | 0 => some .a0 | 1 => some .a1 | 2 => some .a2 | _ => none
        let r? : Option RefQ := match r with | 0 => some .none | 1 => some .lref | 2 => some .rref | _ => none
        match a?, r? with
        | some a, some r =>
          if c ≤ 3 && n ≤ 1 then
            (decodeAux fuel rest none).map fun (t, rest') => (CType.fn t a (CV.ofCode c) r (n == 1), rest')
          else none
        | _, _ => none
      | _, _, _, _ => none
    | _ => none

def CType.decode (s : String) : Option CType :=
  match decodeAux (s.length + 1) s.toList none with
  | some (t, []) => some t
  | _ => none

end Tetl.C15
