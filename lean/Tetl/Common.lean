/-
Definitions shared by all models: checked reads.  A model that mirrors C++ index
arithmetic reads memory only through `rd`; "never returns `.error (.oob _)`" is then the
memory-safety statement (property C02) for that operation.
-/
namespace Tetl

inductive Err where
  | oob                    -- read/write outside the range the caller passed
  | pre (site : String)    -- a documented precondition is violated (TETL_PRECONDITION)
  | fuel                   -- a loop ran longer than its proved bound (never happens; see theorems)
  deriving Repr, BEq, DecidableEq, Inhabited

/-- checked read of a code unit / element -/
def rd {α : Type} (h : List α) (i : Nat) : Except Err α :=
  match h[i]? with
  | some x => .ok x
  | none => .error .oob

def Err.fmt : Err → String
  | .oob => "oob"
  | .pre s => s!"pre({s})"
  | .fuel => "fuel"

end Tetl
