/-
C20 — model of `etl::pair` (include/etl/_utility/pair.hpp), `etl::tuple` and its free functions
(`_tuple/tuple.hpp`, `apply.hpp`, `tuple_cat.hpp`, `make_from_tuple.hpp`, `make_tuple.hpp`,
`forward_as_tuple.hpp`, `tie.hpp`), `etl::invoke` (`_functional/invoke.hpp`) and the call wrappers
`function_ref`, `reference_wrapper`, `bind_front`, `not_fn`, `inplace_function`.

Values.  An element is a pair (kind, value).  The kind says how the C++ element type reacts to
copy and move (`int`, an instrumented copyable+movable class, a move-only class, a copy-only class,
`int&`, `int const`, and - for pair - a reference / const reference to the instrumented class);
what a *move* leaves behind (`residue`) and how many *copy* operations an
operation performs are observables of the harness, so "an rvalue is forwarded as an rvalue" is a
statement about values here: a moved-from instrumented element reads -1, a copied one is counted.

Reference kinds.  CONSTRUCTING an element of reference kind binds the reference: nothing is copied,
nothing is moved from (`copyCost` = `moveCost` = 0, `residue` keeps the value).  ASSIGNING to one
assigns through it to the referent, and an element of reference kind that is handed on with
`forward<T&>(p.first)` is an lvalue: the referent is copy-assigned (counted for the instrumented
class) and keeps its value.  Hence the cost of an assignment (`assignCost`, `moveAssignCost`) is a
different function of the kind than the cost of a construction (`copyCost`, `moveCost`); the two agree on
every kind that is not a reference to the instrumented class.

Calls.  A call of an instrumented target appends one `Call` to a log: the target, the value
category through which the target object itself was called, and per argument the value category
seen by a forwarding parameter together with the value.

`inplace_function` is modelled at the level of its vtable thunks: every object has a `_vtable`
cell (`none` = `empty_vtable`) and a `_storage` cell that either holds a live callable or nothing;
`copy_ptr` / `relocate_ptr` / `destructor_ptr` construct and destroy in those cells and *fail*
(`.error`) when they would read a destroyed object or construct over a live one.  Each member is the
sequence of thunk calls written in the header *after the `fix:` commits of branch fix-c20*.
-/
import Tetl.Common
namespace Tetl.C20

/-! ## element kinds -/

inductive EK where
  | int   -- `int`
  | trk   -- instrumented class: copyable (counted) and movable (source reads -1 afterwards)
  | mo    -- move-only class (source reads -1 afterwards)
  | co    -- copy-only class: no move operations declared, an rvalue is copied (counted)
  | ref   -- `int&`
  | cst   -- `int const`
  | tref  -- `Trk&`: reference to an object of the instrumented class (pair lines only)
  | tcref -- `Trk const&`: const reference to an object of the instrumented class (pair lines only)
  deriving Repr, DecidableEq, Inhabited

/-- value left in the object an element designates after the element has been handed on as
    `forward<T>(element)` / `move(member)` to a constructor or an assignment: an rvalue of the instrumented
    or the move-only class is moved from; for a reference kind `forward<T&>` is an lvalue and the referent
    keeps its value -/
def EK.residue : EK → Int → Int
  | .trk, _ => -1
  | .mo, _ => -1
  | _, v => v

/-- counted copy operations performed by one copy CONSTRUCTION of an element (a reference element is bound:
    no copy) -/
def EK.copyCost : EK → Nat
  | .trk => 1
  | .co => 1
  | _ => 0

/-- counted copy operations performed by one move CONSTRUCTION of an element (`first(forward<U1>(p.first))`;
    a reference element is bound: no copy) -/
def EK.moveCost : EK → Nat
  | .co => 1
  | _ => 0

/-- counted copy operations performed by one copy ASSIGNMENT `first = p.first` from an element of this kind
    (a reference element is assigned through: the referent is copy-assigned) -/
def EK.assignCost : EK → Nat
  | .trk => 1
  | .co => 1
  | .tref => 1
  | .tcref => 1
  | _ => 0

/-- counted copy operations performed by one move ASSIGNMENT `first = forward<T>(p.first)` from an element of
    this kind: the copy-only class copies, and for a reference kind `forward<T&>(p.first)` is an lvalue, so the
    referent is copy-assigned -/
def EK.moveAssignCost : EK → Nat
  | .co => 1
  | .tref => 1
  | .tcref => 1
  | _ => 0

def EK.copyable : EK → Bool
  | .mo => false
  | _ => true

/-- `is_assignable_v<T&, ...>` can hold at all: not for a const object or a reference to const -/
def EK.assignable : EK → Bool
  | .cst => false
  | .tcref => false
  | _ => true

/-- the class of the object an element of this kind is or refers to -/
inductive Base where
  | int | trk | mo | co
  deriving Repr, DecidableEq, Inhabited

def EK.base : EK → Base
  | .int | .ref | .cst => .int
  | .trk | .tref | .tcref => .trk
  | .mo => .mo
  | .co => .co

/-- `forward<U>(p.first)` for an element of kind `U` is an rvalue unless `U` is a reference -/
def EK.forwardsRvalue : EK → Bool
  | .ref | .tref | .tcref => false
  | _ => true

/-- `x = e` where `x` is an object of class `b` (a member, or the referent of a reference member) and `e`
    designates an object of the same class holding `y`, as an rvalue (`rv`) or as an lvalue: what the
    assignment operator of the class leaves in the source, and the copies it counts.
    (`Trk::operator=(Trk&&)` moves, `Trk::operator=(Trk const&)` copies and counts; the copy-only class has
    only the counted copy assignment; the move-only class has only the move assignment - an lvalue of it is
    not assignable, the drivers never ask.) -/
def Base.assignFrom (b : Base) (rv : Bool) (y : Int) : Int × Nat :=
  match b, rv with
  | .int, _ => (y, 0)
  | .trk, true => (-1, 0)
  | .trk, false => (y, 1)
  | .mo, true => (-1, 0)
  | .mo, false => (y, 0)
  | .co, _ => (y, 1)

/-- `T x = static_cast<T const&&>(y)`: a const rvalue can only be copied -/
abbrev El := EK × Int

/-! ## pair / tuple: construction, assignment, swap, element access

The same definitions serve `pair` (two members `first`, `second`) and `tuple` (one `tuple_leaf`
per index): every member function is the member-wise / leaf-wise expansion of one element
operation, written here as the recursion over the element list. -/

/-- copy construction of every element: `first(p.first), second(p.second)` /
    `tuple_leaf<Idx,Ts>(args)...`; returns the new object and the copies made -/
def copyAll : List El → List Int × Nat
  | [] => ([], 0)
  | (k, v) :: t => let r := copyAll t; (v :: r.1, k.copyCost + r.2)

/-- `pair()` / `tuple()`: `first(), second()` / every `tuple_leaf` value-initialises its element
    (only for element types that can be value-initialised: `int`, `int const`) -/
def defaultAll : List EK → List Int
  | [] => []
  | _ :: t => 0 :: defaultAll t

/-- move construction of every element: `first(forward<U1>(p.first)), …`; returns the new object,
    what is left in the source, and the copies made (copy-only elements copy) -/
def moveAll : List El → List Int × List Int × Nat
  | [] => ([], [], 0)
  | (k, v) :: t => let r := moveAll t; (v :: r.1, k.residue v :: r.2.1, k.moveCost + r.2.2)

/-- an element of `a` together with the element of `b` at the same index -/
abbrev El2 := EK × Int × Int

/-- `first = p.first; second = p.second;` — new value of `a`, copies -/
def assignAll : List El2 → List Int × Nat
  | [] => ([], 0)
  | (k, _, y) :: t => let r := assignAll t; (y :: r.1, k.assignCost + r.2)

/-- `first = forward<first_type>(p.first); second = forward<second_type>(p.second);` (pair, after the `fix:`
    commits of round C20s) / `get<I>(*this) = get<I>(move(other))` (tuple) — new `a`, new `b`, copies -/
def moveAssignAll : List El2 → List Int × List Int × Nat
  | [] => ([], [], 0)
  | (k, _, y) :: t => let r := moveAssignAll t; (y :: r.1, k.residue y :: r.2.1, k.moveAssignCost + r.2.2)

/-- an element of `a` of kind `kd` (destination) together with the element of `b` of kind `ks` (source) at the
    same index: (kd, ks, x, y).  The destination kind selects nothing observable - whether `first` is a member or
    a reference to an object, the assignment operator of the class runs on it - it is carried for the
    applicability predicate of the driver (`is_assignable_v<T1&, U1 const&>` / `is_assignable_v<T1&, U1>`). -/
abbrev ElX := EK × EK × Int × Int

/-- converting copy assignment `pair<T1,T2>::operator=(pair<U1,U2> const& p)`: `first = p.first; second = p.second;`
    — `p.first` is an lvalue whatever `U1` is; new value of `a`, copies -/
def convAssignAll : List ElX → List Int × Nat
  | [] => ([], 0)
  | (_, ks, _, y) :: t =>
    let e := ks.base.assignFrom false y
    let r := convAssignAll t
    (y :: r.1, e.2 + r.2)

/-- converting move assignment `pair<T1,T2>::operator=(pair<U1,U2>&& p)`:
    `first = forward<U1>(p.first); second = forward<U2>(p.second);` (after the `fix:` commits of round C20s;
    before them `move(p.first)`, which moved from the referent of a reference element) — new `a`, new `b`, copies -/
def convMoveAssignAll : List ElX → List Int × List Int × Nat
  | [] => ([], [], 0)
  | (_, ks, _, y) :: t =>
    let e := ks.base.assignFrom ks.forwardsRvalue y
    let r := convMoveAssignAll t
    (y :: r.1, e.1 :: r.2.1, e.2 + r.2.2)

/-- `etl::swap(x, y)`: `T temp(move(x)); x = move(y); y = move(temp);` on one element:
    new x, new y, copies.  (For a reference element `x`, `y` are the referents and `T` is their class: three moves
    of the instrumented class, no copy - `moveCost` is 0 for the reference kinds.) -/
def swapElem (k : EK) (x y : Int) : Int × Int × Nat :=
  let temp := x                 -- T temp(move(x));  x now holds k.residue x
  let x1 := y                   -- x = move(y);      y now holds k.residue y
  let y1 := temp                -- y = move(temp);
  (x1, y1, 3 * k.moveCost)

/-- `swap(first, other.first); swap(second, other.second);` /
    `(tuple_leaf<Idx,Ts>::swap_impl(index_v<Idx>, other.get_impl(index_v<Idx>)), ...)` -/
def swapAll : List El2 → List Int × List Int × Nat
  | [] => ([], [], 0)
  | (k, x, y) :: t =>
    let e := swapElem k x y
    let r := swapAll t
    (e.1 :: r.1, e.2.1 :: r.2.1, e.2.2 + r.2.2)

/-- `get<I>(t)`; the `static_assert(I < sizeof...(Ts))` is the bound -/
def getAt (t : List Int) (i : Nat) : Except Err Int := rd t i

/-- the pack expansion `get<Is>(t)...` over `index_sequence<0,…,n-1>` starting at index `i` -/
def getFrom (t : List Int) : Nat → Nat → Except Err (List Int)
  | 0, _ => .ok []
  | n + 1, i => do
    let x ← getAt t i
    let xs ← getFrom t n (i + 1)
    .ok (x :: xs)

/-- `get<Is>(t)...` for `make_index_sequence<tuple_size_v<T>>` -/
def getAll (t : List Int) : Except Err (List Int) := getFrom t t.length 0

/-! ## pair relations (pair.hpp: `operator==`, `operator<` and the three derived from `<`) -/

section rel
variable {α β : Type}

def pairEq (eq1 : α → α → Bool) (eq2 : β → β → Bool) (a b : α × β) : Bool :=
  (eq1 a.1 b.1) && (eq2 a.2 b.2)

/-- `if (lhs.first < rhs.first) return true; if (rhs.first < lhs.first) return false;
     if (lhs.second < rhs.second) return true; return false;` -/
def pairLt (lt1 : α → α → Bool) (lt2 : β → β → Bool) (a b : α × β) : Bool :=
  if lt1 a.1 b.1 then true
  else if lt1 b.1 a.1 then false
  else if lt2 a.2 b.2 then true
  else false

/-- `!(rhs < lhs)` -/
def pairLe (lt1 : α → α → Bool) (lt2 : β → β → Bool) (a b : α × β) : Bool := !pairLt lt1 lt2 b a
/-- `rhs < lhs` -/
def pairGt (lt1 : α → α → Bool) (lt2 : β → β → Bool) (a b : α × β) : Bool := pairLt lt1 lt2 b a
/-- `!(lhs < rhs)` -/
def pairGe (lt1 : α → α → Bool) (lt2 : β → β → Bool) (a b : α × β) : Bool := !pairLt lt1 lt2 a b
/-- `!=` is the rewritten `!(lhs == rhs)` -/
def pairNe (eq1 : α → α → Bool) (eq2 : β → β → Bool) (a b : α × β) : Bool := !pairEq eq1 eq2 a b

/-- the fold `((get<Is>(lhs) == get<Is>(rhs)) and ...)` over the common index sequence
    `index_sequence_for<Ts...>`; the `requires(sizeof...(Ts) == sizeof...(Us))` clause is the bound -/
def eqFold (eq : α → α → Bool) : List α → List α → Except Err Bool
  | [], [] => .ok true
  | x :: xs, y :: ys => do
    let r ← eqFold eq xs ys
    .ok (eq x y && r)
  | _, _ => .error (.pre "tuple ==: requires equal arity")

/-- tuple `operator==`: `requires(sizeof...(Ts) == sizeof...(Us))`;
    `if constexpr (sizeof...(Ts) == 0) return true;` else the fold -/
def tupleEq (eq : α → α → Bool) (a b : List α) : Except Err Bool :=
  if a.length ≠ b.length then .error (.pre "tuple ==: requires equal arity")
  else if a.length = 0 then .ok true
  else eqFold eq a b

end rel

/-! ## tuple_cat / apply / make_from_tuple -/

/-- `concat(t1, t2, idx1, idx2)` = `forward_as_tuple(get<I1>(t1)..., get<I2>(t2)...)` -/
def concat (t1 t2 : List Int) : Except Err (List Int) := do
  let a ← getAll t1
  let b ← getAll t2
  .ok (a ++ b)

/-- `detail::tuple_cat::run<R>(result, head, tail...)` = `run<R>(concat(result, head), tail...)`;
    `run<R>(result)` = `R(get<Is>(forward<Result>(result))...)` -/
def catGo (result : List Int) : List (List Int) → Except Err (List Int)
  | [] => getAll result
  | head :: tail => do
    let r ← concat result head
    catGo r tail

/-- `etl::tuple_cat(ts...)`: `if constexpr (sizeof...(Tuples) == 0) return tuple<>{};` else
    `detail::tuple_cat.run<result_t>(ts...)` (the result TYPE `result_t` is computed from the declared element types of the
    arguments — outside this value-level model; checked by the `typeq q=tuple_cat_*` lines and the static_assert matrix) -/
def tupleCat : List (List Int) → Except Err (List Int)
  | [] => .ok []
  | t :: ts => catGo t ts

/-! ## calls -/

/-- value category of an expression, as a forwarding parameter sees it -/
inductive Cat where
  | l   -- non-const lvalue
  | c   -- const lvalue
  | r   -- non-const rvalue
  | k   -- const rvalue
  deriving Repr, DecidableEq, Inhabited

/-- how one argument reaches the target -/
inductive Via where
  | val              -- by-value parameter: the category of the argument expression is not observable
  | fwd (q : Cat)    -- forwarding parameter bound to an expression of category `q`
  | wrap (q : Cat)   -- forwarding parameter bound to a `reference_wrapper<T>` expression of category `q`
                     --   (the value logged is the referent's)
  deriving Repr, DecidableEq, Inhabited

/-- one argument: how it arrives, and its value -/
abbrev Arg := Via × Int

structure Call where
  tid : Nat                        -- which target
  self : Option Cat                -- category of the target object expression (none: a function)
  args : List Arg                  -- per argument: how it arrives and its value
  deriving Repr, DecidableEq, Inhabited

abbrev Log := List Call

/-- what every instrumented target returns: its id followed by the decimal digits of its arguments -/
def resultOf (tid : Nat) (vals : List Int) : Int := vals.foldl (fun acc v => acc * 10 + v) (tid : Int)

/-- one call of target `tid` through an object expression of category `self` -/
def callTarget (tid : Nat) (self : Option Cat) (args : List Arg) : Int × Log :=
  (resultOf tid (args.map (·.2)), [{ tid := tid, self := self, args := args }])

/-- const-ness is kept, rvalue-ness is dropped (`*ptr`, `ref.get()`, a named object) -/
def Cat.asLvalue : Cat → Cat
  | .l => .l
  | .c => .c
  | .r => .l
  | .k => .c

/-- `etl::move(x)` / `forward<T>(x)` for a non-reference `T` -/
def Cat.asRvalue : Cat → Cat
  | .l => .r
  | .c => .k
  | .r => .r
  | .k => .k

/-- how the first argument of a member pointer is handed over (invoke.hpp `invoke_memptr`) -/
inductive ObjK where
  | obj (c : Cat)      -- an object of the class (or of a derived class) with this category
  | refw (c : Cat)     -- `reference_wrapper<S>` (l) / `reference_wrapper<S const>` (c)
  | ptr (c : Cat)      -- `S*` (l) / `S const*` (c), also a pointer to a derived object
  deriving Repr, DecidableEq, Inhabited

/-- the object expression `invoke_memptr` builds from `t1`:
    `is_base_of` → `forward<T1>(t1)`; `is_reference_wrapper` → `t1.get()`; else `*forward<T1>(t1)` -/
def ObjK.expr : ObjK → Cat
  | .obj c => c
  | .refw c => c.asLvalue
  | .ptr c => c.asLvalue

/-- kinds of callable handed to `etl::invoke` -/
inductive Callee where
  | fn (tid : Nat)                 -- function, function pointer, lambda without overloads
  | fob (tid : Nat) (c : Cat)      -- function object expression of category `c` (4 ref-qualified overloads)
  | memfn (tid : Nat) (o : ObjK)   -- pointer to member function + object
  | memdata (o : ObjK) (v : Int)   -- pointer to member data + object whose member holds `v`
  deriving Repr, DecidableEq, Inhabited

/-- `etl::invoke(f, args...)`: `if constexpr (is_member_pointer_v<decay_t<F>>) invoke_memptr(f, args...)`
    else `forward<F>(f)(forward<Args>(args)...)`.  A member function logs the category of `*this`. -/
def invoke (f : Callee) (args : List Arg) : Except Err (Int × Log) :=
  match f with
  | .fn tid => .ok (callTarget tid none args)
  | .fob tid c => .ok (callTarget tid (some c) args)
  | .memfn tid o => .ok (callTarget tid (some o.expr) args)
  | .memdata _ v =>
    -- `static_assert(is_object_v<Pointed> && sizeof...(args) == 0)`
    if args.length = 0 then .ok (v, []) else .error (.pre "invoke: member data pointer takes no arguments")

/-- `reference_wrapper<T>::operator()(args...)` = `invoke(get(), forward<Args>(args)...)`;
    `cst` = the wrapper is `reference_wrapper<T const>` -/
def refWrapCall (tid : Nat) (cst : Bool) (args : List Arg) : Except Err (Int × Log) :=
  invoke (.fob tid (if cst then .c else .l)) args

/-- `function_ref<R(Args...)>::operator()(args...)` = `_callable(_obj, forward<Args>(args)...)` →
    `invoke_r<R>(*func, forward<Args>(args)...)`: the referenced object is called as an lvalue of the
    const-ness it was bound with; by-value parameters arrive as rvalues, reference parameters unchanged.
    `ptypes` = per parameter of the signature: `none` by value, `some c` a reference of that category. -/
def paramArrives : Arg → Arg
  | (.val, v) => (.fwd .r, v)        -- `forward<T>(param)` of a by-value parameter is an rvalue
  | a => a

def functionRefCall (callee : Callee) (args : List Arg) : Except Err (Int × Log) :=
  let callee' := match callee with
    | .fob tid c => .fob tid c.asLvalue     -- `*func`
    | other => other
  invoke callee' (args.map paramArrives)

/-- how a call wrapper object is called: the four ref-qualified `operator()` overloads -/
def boundArg (q : Cat) (v : Int) : Arg := (.fwd q, v)

/-- an argument handed to `bind_front`: `_boundArgs` is `tuple<decay_t<BoundArgs>...>`, so a plain argument
    is stored as a copy and a `reference_wrapper<T>` argument is stored as that wrapper (it is *not*
    unwrapped into `T&`: [func.bind.partial]); the value is the (referent's) value at the time of the call -/
inductive Bound where
  | val (v : Int)
  | refw (v : Int)
  deriving Repr, DecidableEq, Inhabited

def Bound.value : Bound → Int
  | .val v => v
  | .refw v => v

/-- `forward<BoundArgs>(bound)` of the element of the `q`-qualified tuple -/
def Bound.arrives (q : Cat) : Bound → Int → Arg
  | .val _, v => (.fwd q, v)
  | .refw _, v => (.wrap q, v)

/-- `bind_front_t::operator()(callArgs...)` with qualifier `q`:
    `&`/`const&`: `bind_front_caller(_func, _boundArgs, forward<CallArgs>(callArgs)...)`,
    `&&`/`const&&`: `bind_front_caller(move(_func), move(_boundArgs), …)`; the caller is
    `apply([&](auto&&... bound) { return invoke(forward<Func>(func), forward<BoundArgs>(bound)..., forward<CallArgs>(callArgs)...); }, forward<Tuple>(tuple))` -/
def bindFrontCall (mk : Cat → Callee) (q : Cat) (bound : List Bound) (args : List Arg) :
    Except Err (Int × Log) := do
  let bs ← getAll (bound.map (·.value))    -- `apply` expands `get<I>(forward<Tuple>(t))...`
  invoke (mk q) ((bound.zip bs).map (fun p => p.1.arrives q p.2) ++ args)

/-- `not_fn_t::operator()(args...)` with qualifier `q`: `not invoke(f | move(f), forward<Args>(args)...)`;
    the target returns `pred`, the log is the target's -/
def notFnCall (tid : Nat) (q : Cat) (pred : Bool) (args : List Arg) : Except Err (Bool × Log) := do
  let r ← invoke (.fob tid q) args
  .ok (!pred, r.2)

/-- `etl::apply(f, t)` = `invoke(forward<F>(f), get<I>(forward<Tuple>(t))...)`; `tc` = category of the tuple -/
def apply (f : Callee) (tc : Cat) (t : List Int) : Except Err (Int × Log) := do
  let xs ← getAll t
  invoke f (xs.map (boundArg tc))

/-- `etl::apply(pm, t)` with a pointer to member `pm` and a tuple whose first element is the object:
    `invoke(pm, get<0>(forward<Tuple>(t)), get<Is>(forward<Tuple>(t))...)` — the object expression is an element
    of the tuple and so has the tuple's category; `rest` = the remaining elements -/
def applyMember (mk : ObjK → Callee) (tc : Cat) (rest : List Int) : Except Err (Int × Log) := do
  let xs ← getAll rest
  invoke (mk (.obj tc)) (xs.map (boundArg tc))

/-- `not_fn_t<F>::operator()` for any callable `F` (function object, pointer to member: the object is then the first call
    argument, folded into the callee), and the stateless `not_fn<ConstFn>()`: `not invoke(f, forward<Args>(args)...)`;
    `pred` = what the target returns (for a data member: whether it is non-zero) -/
def notFnOf (f : Callee) (pred : Bool) (args : List Arg) : Except Err (Bool × Log) := do
  let r ← invoke f args
  .ok (!pred, r.2)

/-- the object bound to a pointer to member by `bind_front(pm, obj)`: stored as `decay_t` — the object itself, a pointer
    to it (`c`: const-ness of the pointee), or a `reference_wrapper` (`c`: const-ness of the referent) -/
inductive BoundObj where
  | obj
  | ptr (c : Cat)
  | refw (c : Cat)
  deriving Repr, DecidableEq, Inhabited

/-- what `forward<BoundArgs>(bound)` of the `q`-qualified wrapper hands to `INVOKE` as the object argument: the stored
    object with the wrapper's qualification; a stored pointer / reference_wrapper designates its pointee whatever `q` is -/
def BoundObj.expr (q : Cat) : BoundObj → ObjK
  | .obj => .obj q
  | .ptr pc => .ptr pc
  | .refw pc => .refw pc

/-- `bind_front(pm, obj)(args...)` called through a `q`-qualified wrapper -/
def bindFrontMember (mk : ObjK → Callee) (q : Cat) (o : BoundObj) (args : List Arg) : Except Err (Int × Log) :=
  bindFrontCall (fun q' => mk (o.expr q')) q [] args

/-! ## reference_wrapper / function_ref as objects: copy and rebinding

Both hold one pointer to their target (`_ptr` / `_obj` + thunk); the copy constructor and the copy assignment are
defaulted, i.e. they copy that pointer.  A history is a list of operations on named wrappers, oldest first. -/

inductive RefOp where
  | bind (w tid : Nat)      -- `W w{target}` / `w = ref(target)`: `_ptr = addressof(target)`
  | copy (w v : Nat)        -- `W w{v}`: `_ptr{v._ptr}`
  | assign (w v : Nat)      -- `w = v`: `_ptr = v._ptr`
  deriving Repr, DecidableEq, Inhabited

/-- one operation on the `_ptr` members of the wrappers (`none`: no such wrapper yet) -/
def refStep (s : Nat → Option Nat) : RefOp → Nat → Option Nat
  | .bind w tid => fun x => if x = w then some tid else s x
  | .copy w v => fun x => if x = w then s v else s x
  | .assign w v => fun x => if x = w then s v else s x

/-- the `_ptr` members after the history, executed in order -/
def refPtrs (ops : List RefOp) : Nat → Option Nat := ops.foldl refStep (fun _ => none)

/-- a call through wrapper `w` after the history: `call tid` is what the wrapper does with the target its pointer
    designates (`refWrapCall` for `reference_wrapper`, `functionRefCall` for `function_ref`) -/
def refCallAfter {ρ : Type} (ops : List RefOp) (w : Nat) (call : Nat → Except Err ρ) : Except Err ρ :=
  match refPtrs ops w with
  | some tid => call tid
  | none => .error (.pre "call through a wrapper that was never bound")

/-- `etl::make_from_tuple<T>(t)` = `T(get<I>(forward<Tuple>(t))...)`: the constructor arguments in order -/
def makeFromTuple (t : List Int) : Except Err (List Int) := getAll t

/-! ### make_from_tuple: which constructor of the target type receives the elements

`T(x...)` (parentheses: direct-non-list-initialisation) and `T{x...}` (braces: direct-list-initialisation) are different
initialisations for some target types.  The header writes PARENTHESES.  Target kinds of the harness (all elements are `int`
unless said otherwise, arity 0..3): -/
inductive Target where
  | plain       -- constructors `T()`, `T(int)`, `T(int,int)`, `T(int,int,int)`
  | il          -- those and `T(initializer_list<int>)`
  | ilWide      -- those and `T(initializer_list<long>)` (`int` → `long` is not a narrowing conversion)
  | ilOther     -- those and `T(initializer_list<Tag>)`, `Tag` not constructible from `int`
  | agg         -- an aggregate `struct { int a, b, c; }`
  | expl        -- the constructors of `plain`, all `explicit`
  | aggNarrow   -- the aggregate, the tuple elements are `long` (`long` → `int` narrows)
  | ctorNarrow  -- constructors taking `short`s, the tuple elements are `int` (`int` → `short` narrows)
  deriving Repr, DecidableEq, Inhabited

/-- how the target object was initialised -/
inductive Built where
  | ctor (args : List Int)      -- a constructor with one parameter per argument received them (aggregate: the members, in order)
  | list (elems : List Int)     -- the `initializer_list` constructor received them as one list
  | illFormed                   -- the initialisation does not compile
  deriving Repr, DecidableEq, Inhabited

/-- the members of the three-`int` aggregate initialised from `args`; members without an initialiser are value-initialised -/
def aggMembers (args : List Int) : Except Err Built :=
  if args.length ≤ 3 then .ok (.ctor (args ++ List.replicate (3 - args.length) 0))
  else .error (.pre "aggregate: more initialisers than members")

/-- `T(args...)`: the constructors are enumerated and overload resolution picks by the argument list ([dcl.init.general] 16.6.2);
    an `initializer_list` constructor has ONE parameter and no `int` converts to it, so it never takes two or three arguments and
    loses to `T(int)` for one; narrowing conversions are allowed; an aggregate is initialised member by member (C++20, 16.6.2.2) -/
def parenInit (tg : Target) (args : List Int) : Except Err Built :=
  match tg with
  | .agg | .aggNarrow => aggMembers args
  | _ => if args.length ≤ 3 then .ok (.ctor args) else .error (.pre "no constructor takes that many arguments")

/-- `etl::make_from_tuple<T>(t)` for a target kind: `T(get<I>(forward<Tuple>(t))...)` — parentheses -/
def makeFromTupleT (tg : Target) (t : List Int) : Except Err Built := do
  let xs ← getAll t
  parenInit tg xs

/-! ## inplace_function -/

/-- a stored callable: closure type, captured id, number of calls made through this copy -/
structure Fn where
  ty : Nat
  id : Nat
  n : Nat
  deriving Repr, DecidableEq, Inhabited

/-- addresses of `_storage` buffers: of the named object `k`, of the by-value parameter `other`
    of `operator=` and of the local `tmp` of `swap` -/
inductive Addr where
  | obj (k : Nat)
  | tmp
  deriving Repr, DecidableEq, Inhabited

structure St where
  vt : Addr → Option Nat     -- `_vtable`: none = `empty_vtable`, some ty = the vtable of closure type ty
  mem : Addr → Option Fn     -- the callable alive in `_storage`, if any

def St.init : St := { vt := fun _ => none, mem := fun _ => none }

def upd {β : Type} (f : Addr → β) (a : Addr) (v : β) : Addr → β := fun x => if x = a then v else f x

/-- placement-new of a callable into a buffer -/
def construct (m : Addr → Option Fn) (a : Addr) (f : Fn) : Except Err (Addr → Option Fn) :=
  match m a with
  | some _ => .error (.pre "lifetime: construction over a live object")
  | none => .ok (upd m a (some f))

/-- read of the object in a buffer -/
def load (m : Addr → Option Fn) (a : Addr) : Except Err Fn :=
  match m a with
  | some f => .ok f
  | none => .error (.pre "lifetime: use of a destroyed object")

/-- `static_cast<C*>(p)->~C()` -/
def destroy (m : Addr → Option Fn) (a : Addr) : Except Err (Addr → Option Fn) := do
  let _ ← load m a
  .ok (upd m a none)

/-- `vtable->copy_ptr(dst, src)`: empty vtable: nothing; else `::new (dst) C{*src}` -/
def vCopy (vt : Option Nat) (m : Addr → Option Fn) (dst src : Addr) : Except Err (Addr → Option Fn) :=
  match vt with
  | none => .ok m
  | some ty => do
    let f ← load m src
    if f.ty ≠ ty then .error (.pre "vtable does not match the stored type") else construct m dst f

/-- `vtable->relocate_ptr(dst, src)`: empty: nothing; else `::new (dst) C{move(*src)}; src->~C();` -/
def vRelocate (vt : Option Nat) (m : Addr → Option Fn) (dst src : Addr) : Except Err (Addr → Option Fn) :=
  match vt with
  | none => .ok m
  | some ty => do
    let f ← load m src
    if f.ty ≠ ty then .error (.pre "vtable does not match the stored type")
    else
      let m1 ← construct m dst f
      destroy m1 src

/-- `vtable->destructor_ptr(p)` -/
def vDestroy (vt : Option Nat) (m : Addr → Option Fn) (a : Addr) : Except Err (Addr → Option Fn) :=
  match vt with
  | none => .ok m
  | some _ => destroy m a

/-- `~inplace_function()` -/
def dtor (s : St) (a : Addr) : Except Err St := do
  let m ← vDestroy (s.vt a) s.mem a
  .ok { vt := upd s.vt a none, mem := m }     -- the object is gone; its name may be reused

/-- `inplace_function()` / `inplace_function(nullptr)` in a fresh buffer -/
def ctorEmpty (s : St) (a : Addr) : Except Err St := .ok { s with vt := upd s.vt a none }

/-- `inplace_function(T&& closure)`: `_vtable = &vt<C>; ::new (&_storage) C{forward<T>(closure)}` -/
def ctorFn (s : St) (a : Addr) (f : Fn) : Except Err St := do
  let m ← construct s.mem a f
  .ok { vt := upd s.vt a (some f.ty), mem := m }

/-- copy constructor: `_vtable{other._vtable}`, `_vtable->copy_ptr(&_storage, &other._storage)` -/
def ctorCopy (s : St) (a o : Addr) : Except Err St := do
  let v := s.vt o
  let m ← vCopy v s.mem a o
  .ok { vt := upd s.vt a v, mem := m }

/-- move constructor: `_vtable{exchange(other._vtable, &empty)}`, `_vtable->relocate_ptr(&_storage, &other._storage)` -/
def ctorMove (s : St) (a o : Addr) : Except Err St := do
  let v := s.vt o
  let vt1 := upd (upd s.vt o none) a v
  let m ← vRelocate v s.mem a o
  .ok { vt := vt1, mem := m }

/-- converting copy constructor (smaller capacity): the private constructor
    `inplace_function{other._vtable, other._vtable->copy_ptr, &other._storage}` -/
def ctorConvCopy (s : St) (a o : Addr) : Except Err St := do
  let v := s.vt o
  let m ← vCopy v s.mem a o
  .ok { vt := upd s.vt a v, mem := m }

/-- converting move constructor: private constructor with `relocate_ptr`, then `other._vtable = &empty` -/
def ctorConvMove (s : St) (a o : Addr) : Except Err St := do
  let v := s.vt o
  let m ← vRelocate v s.mem a o
  .ok { vt := upd (upd s.vt a v) o none, mem := m }

/-- `operator=(nullptr_t)`: `_vtable->destructor_ptr(&_storage); _vtable = &empty;` -/
def assignNull (s : St) (a : Addr) : Except Err St := do
  let m ← vDestroy (s.vt a) s.mem a
  .ok { vt := upd s.vt a none, mem := m }

/-- body of `operator=(inplace_function other)` once the parameter lives at `.tmp`:
    `_vtable->destructor_ptr(&_storage); _vtable = exchange(other._vtable, &empty);
     _vtable->relocate_ptr(&_storage, &other._storage);` then `other.~inplace_function()` -/
def assignBody (s : St) (a : Addr) : Except Err St := do
  let m1 ← vDestroy (s.vt a) s.mem a
  let v := s.vt .tmp
  let vt1 := upd (upd s.vt .tmp none) a v
  let m2 ← vRelocate v m1 a .tmp
  dtor { vt := vt1, mem := m2 } .tmp

/-- `x = y` (lvalue): the parameter is copy-constructed (`conv`: through the converting constructor) -/
def assignCopy (s : St) (a o : Addr) (conv : Bool) : Except Err St := do
  let s1 ← if conv then ctorConvCopy s .tmp o else ctorCopy s .tmp o
  assignBody s1 a

/-- `x = move(y)`: the parameter is move-constructed -/
def assignMove (s : St) (a o : Addr) (conv : Bool) : Except Err St := do
  let s1 ← if conv then ctorConvMove s .tmp o else ctorMove s .tmp o
  assignBody s1 a

/-- `x = closure`: the parameter is constructed from the closure -/
def assignFn (s : St) (a : Addr) (f : Fn) : Except Err St := do
  let s1 ← ctorFn s .tmp f
  assignBody s1 a

/-! ### construction / assignment from another inplace_function: which constructor is selected

The source is an `inplace_function` expression — of the same specialisation, or (`conv`) of another one with a capacity and an
alignment the destination accepts (`is_valid_inplace_destination`; any other combination is a `static_assert` failure, i.e. not
a program).  Three constructors compete:

* the closure constructor `template <typename T, typename C = decay_t<T>> inplace_function(T&& closure)` — it is constrained by
  `requires(!detail::is_inplace_function<C>::value && …)`, false for EVERY specialisation of `inplace_function` (not only for the
  destination's own type), so it is never viable for such a source, whatever its category;
* `inplace_function(inplace_function&&)` / `inplace_function(inplace_function<R(Args...), Cap, Align>&&)` — a non-const rvalue
  reference: binds an rvalue of non-const type only;
* `inplace_function(inplace_function const&)` / `inplace_function(inplace_function<R(Args...), Cap, Align> const&)` — binds every
  category; for a non-const rvalue the `&&` overload is the better match.

`operator=(inplace_function other)` takes its parameter by value: the parameter is initialised by the same selection (for another
specialisation through the implicit conversion the converting constructors provide), then relocated into `*this`. -/

/-- the constructor that initialises an `inplace_function` from an `inplace_function` expression -/
inductive Sel where
  | copy      -- `(… const&)`: `copy_ptr`
  | move      -- `(…&&)`: `relocate_ptr`, the source's vtable becomes the empty one
  deriving Repr, DecidableEq, Inhabited

/-- overload resolution by the category of the source expression -/
def selectCtor : Cat → Sel
  | .r => .move          -- non-const rvalue: `&&` beats `const&`
  | .l => .copy          -- non-const lvalue: only `const&` is viable (the closure constructor is constrained away)
  | .c => .copy          -- const lvalue
  | .k => .copy          -- const rvalue: `&&` of non-const type does not bind

/-- `inplace_function dst(src)` with `src` of category `q` -/
def ctorFrom (s : St) (a o : Addr) (conv : Bool) (q : Cat) : Except Err St :=
  match selectCtor q with
  | .copy => if conv then ctorConvCopy s a o else ctorCopy s a o
  | .move => if conv then ctorConvMove s a o else ctorMove s a o

/-- `dst = src` with `src` of category `q` -/
def assignFrom (s : St) (a o : Addr) (conv : Bool) (q : Cat) : Except Err St :=
  match selectCtor q with
  | .copy => assignCopy s a o conv
  | .move => assignMove s a o conv

/-- `swap(other)`: `if (this == &other) return;` (fix-c20), `tmp` buffer,
    `_vtable->relocate_ptr(&tmp, &_storage); other._vtable->relocate_ptr(&_storage, &other._storage);
     _vtable->relocate_ptr(&other._storage, &tmp); swap(_vtable, other._vtable);` -/
def swap (s : St) (a o : Addr) : Except Err St :=
  if a = o then .ok s
  else do
    let m1 ← vRelocate (s.vt a) s.mem .tmp a
    let m2 ← vRelocate (s.vt o) m1 a o
    let m3 ← vRelocate (s.vt a) m2 o .tmp
    .ok { vt := upd (upd s.vt a (s.vt o)) o (s.vt a), mem := m3 }

/-- result of `operator()` -/
inductive CallRes where
  | bad                    -- `raise<bad_function_call>` (empty vtable thunk): nothing was called
  | ret (r : Int)
  deriving Repr, DecidableEq, Inhabited

/-- what the closure `[id, n](int x) mutable` returns and logs; it increments its own counter -/
def fnResult (f : Fn) (x : Int) : Int := resultOf f.id [(f.n : Int), x]
def fnLog (f : Fn) (x : Int) : Call := { tid := f.id, self := some .l, args := [(.val, (f.n : Int)), (.fwd .r, x)] }

/-- `operator()(args...) const` = `_vtable->invoke_ptr(&_storage, forward<Args>(args)...)`:
    the empty thunk raises; a typed thunk calls `(*static_cast<C*>(p))(static_cast<Args&&>(args)...)` -/
def call (s : St) (a : Addr) (x : Int) : Except Err (St × CallRes × Log) :=
  match s.vt a with
  | none => .ok (s, .bad, [])
  | some ty => do
    let f ← load s.mem a
    if f.ty ≠ ty then .error (.pre "vtable does not match the stored type")
    else .ok ({ s with mem := upd s.mem a (some { f with n := f.n + 1 }) }, .ret (fnResult f x), [fnLog f x])

/-- `explicit operator bool` = `_vtable != &empty_vtable` -/
def toBool (s : St) (a : Addr) : Bool := (s.vt a).isSome

/-- Operations of a history over named objects.  A constructor line first ends the lifetime of the
    object that had the name (`~inplace_function()`), then constructs the new one in its place. -/
inductive Op where
  | ctorEmpty (i : Nat)
  | ctorFn (i : Nat) (f : Fn)
  | ctorFrom (i j : Nat) (conv : Bool) (q : Cat)    -- `F i(<j as an expression of category q>)`; conv: another specialisation
  | assignFrom (i j : Nat) (conv : Bool) (q : Cat)  -- `i = <j as an expression of category q>`
  | assignFn (i : Nat) (f : Fn)
  | assignNull (i : Nat)
  | swap (i j : Nat)
  | call (i : Nat) (x : Int)
  | bool (i : Nat)
  | fswap (i j : Nat)          -- the free `swap(lhs, rhs)`
  | eqNull (i : Nat)           -- `f == nullptr` and `nullptr == f`
  | neNull (i : Nat)           -- `f != nullptr` and `nullptr != f`
  deriving Repr, DecidableEq, Inhabited

inductive Out where
  | unit
  | res (r : CallRes)
  | flag (b : Bool)
  deriving Repr, DecidableEq, Inhabited

def step (s : St) : Op → Except Err (St × Out × Log)
  | .ctorEmpty i => do
    let s1 ← dtor s (.obj i)
    let s2 ← ctorEmpty s1 (.obj i)
    .ok (s2, .unit, [])
  | .ctorFn i f => do
    let s1 ← dtor s (.obj i)
    let s2 ← ctorFn s1 (.obj i) f
    .ok (s2, .unit, [])
  | .ctorFrom i j conv q => do
    let s1 ← dtor s (.obj i)
    let s2 ← ctorFrom s1 (.obj i) (.obj j) conv q
    .ok (s2, .unit, [])
  | .assignFrom i j conv q => do .ok (← assignFrom s (.obj i) (.obj j) conv q, .unit, [])
  | .assignFn i f => do .ok (← assignFn s (.obj i) f, .unit, [])
  | .assignNull i => do .ok (← assignNull s (.obj i), .unit, [])
  | .swap i j => do .ok (← swap s (.obj i) (.obj j), .unit, [])
  | .call i x => do
    let (s1, r, lg) ← call s (.obj i) x
    .ok (s1, .res r, lg)
  | .bool i => .ok (s, .flag (toBool s (.obj i)), [])
  | .fswap i j => do .ok (← swap s (.obj i) (.obj j), .unit, [])       -- `lhs.swap(rhs)`
  | .eqNull i => .ok (s, .flag (!toBool s (.obj i)), [])               -- `!static_cast<bool>(f)`
  | .neNull i => .ok (s, .flag (toBool s (.obj i)), [])                -- `static_cast<bool>(f)`

/-- a whole history: final state, outputs in order, the complete call log -/
def run : St → List Op → Except Err (St × List Out × Log)
  | s, [] => .ok (s, [], [])
  | s, op :: ops => do
    let (s1, o, l1) ← step s op
    let (s2, os, l2) ← run s1 ops
    .ok (s2, o :: os, l1 ++ l2)

end Tetl.C20
