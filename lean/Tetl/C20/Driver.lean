/- C20 line-protocol driver: prints `model <TAB> spec` for each case line.

   element kinds  t=[k,..]: 0 int, 1 instrumented (copy counted, move leaves -1), 2 move-only, 3 copy-only, 4 int&, 5 int const,
                  (pair lines only) 6 instrumented& , 7 instrumented const&   (construction binds, assignment assigns through)
   categories     0 l (lvalue), 1 c (const lvalue), 2 r (rvalue), 3 k (const rvalue)

   pair  op=cmp e=int|dbl|kp|kpi|ikp a=[x,y] b=[u,v]            -> six bits  == != < <= > >=   (dbl: 9 is NaN; kp: key v/2, payload v%2)
   pair  op=<O> t=[k1,k2] a=[x,y] b=[u,v]                       -> r=[..] a=[..] b=[..] cp=N | n/a
   tuple op=<O> t=[k,..] a=[..] b=[..]                          -> same;  op=eq -> bit
         O: dflt ctor ctorr copy move assign massign swap fswap selfswap make maker get getc getr getcr sb mft mftr fwd tie
            conv convr cassign cmassign (pair of int only)
   pair  op=xassign|xmassign t=[kd1,kd2] u=[ks1,ks2] a=[x,y] b=[u,v]   -> r=- a=[..] b=[..] cp=N | n/a
         converting assignment between pairs of DIFFERENT element kinds: `pair<kd1,kd2> a; pair<ks1,ks2> b;`
         xassign: `a = as_const(b)`, xmassign: `a = move(b)`; n/a unless is_assignable_v<T&, U const&> resp. <T&, U> per element
   tuple op=apply q=Q c=C a=[..]   (q: tuple category, c: callee category, default 0)   -> r=N log=L
   tuple op=apply f=memfn q=Q a=[x] | f=memdata q=Q v=N   (pointer to member; the object is the first tuple element)
         further O: tieassign tiemassign gett gettr convp convpr (tuple from pair); conv.. for tuple: int elements widen/narrow
   tcat  k=[kinds of the flattened elements] q=Q ts=[n1,..] v=[flattened values]   -> r=[..] a=[..] cp=N | n/a
   invoke f=fn|fptr|lam|fob|memfn|memdata c=Q o=obj|refw|ptr|der|dptr x=[..] xc=[..] v=N   -> r=N log=L
   fref   f=fn|fptr|lam|fob c=0|1 act=call|copy x=[..] xc=[..]   -> r=N log=L cp=N
   ifn2   x=[a,b,c] xc=[q]                                       -> r=N log=L cp=N
   ifn2   f=memfn x=[a] | f=memdata x=[] v=N   (inplace_function around a pointer to member)   -> r=N log=L cp=0
   rw     cst=0|1 act=call|copy|rebind x=[..] xc=[..]            -> r=N log=L
   bf     f=fob|fn q=Q bl=0|1 b=[..] [br=[0|1,..]] [act=call|copy|move] x=[..] xc=[..]   -> r=N log=L bcp=N
          br[i]=1: bound argument i is handed over as ref(object); act: the wrapper called is the original,
          a copy of it, or one move-constructed from it
   nf     q=Q p=0|1 [act=call|copy|move] x=[..] xc=[..]          -> r=B log=L
   nf     f=memfn c=C q=Q p=P x=[v] | f=memdata c=C q=Q v=N      (not_fn around a pointer to member, object category c)
   nfc    f=fn p=P x=[a,b] | f=memfn c=C p=P x=[v] | f=memdata c=C v=N   (the stateless not_fn<ConstFn>())
   bf     f=memfn|memdata q=Q bl=0 b=[] o=obj|ptr|cptr|refw x=[..] [v=N]   (bind_front(pointer to member, object))
   rw/fref act=reref (ref(reference_wrapper)) | rebind (assignment); fref ne=1: function_ref<R(Args...) noexcept>
   log entry: tid/self/args; per argument a letter and the value: v by-value parameter, l c r k category seen by a
          forwarding parameter, L C R K the same for an argument that arrives as a reference_wrapper
   new                                                           -> six empty inplace_function objects: 0..2 capacity 32,
                                                                    3..4 capacity 16, 5 capacity 24 / alignment 8
   ifn op=ctor_empty|ctor_null|ctor_fn|ctor_copy|ctor_move|assign|massign|assign_fn|assign_null|swap|fswap|call|bool|eqnull|nenull
       i=I [j=J] [ty=T id=N] [x=X]                               -> <res> e=[..] live=N log=L
   ifn op=ctor_from|assign_from i=I j=J q=Q     object I is constructed / assigned from object J handed over as an expression of
       category Q (0 non-const lvalue, 1 const lvalue, 2 rvalue, 3 const rvalue); ctor_copy/assign = q=1, ctor_move/massign = q=2;
       J may be of a smaller capacity than I (converting constructors)
   mft tg=T q=Q a=[..]    make_from_tuple<T>(tuple of category Q): which constructor of the target type initialises, and
       with what (see `Target`)                                   -> r=<c|l|->[..]                                 -/
import Tetl.Proto
import Tetl.C20.Model
import Tetl.C20.Spec
namespace Tetl.C20.Driver
open Tetl Tetl.Proto Tetl.C20

def ekOf : Nat → Option EK
  | 0 => some .int | 1 => some .trk | 2 => some .mo | 3 => some .co | 4 => some .ref | 5 => some .cst
  | 6 => some .tref | 7 => some .tcref | _ => none

def catOf : Nat → Option Cat
  | 0 => some .l | 1 => some .c | 2 => some .r | 3 => some .k | _ => none

def Cat.letter : Cat → String
  | .l => "l" | .c => "c" | .r => "r" | .k => "k"

def Via.letter : Via → String
  | .val => "v"
  | .fwd q => Cat.letter q
  | .wrap q => (Cat.letter q).toUpper

def fmtCall (c : Call) : String :=
  let self := match c.self with | some q => Cat.letter q | none => "-"
  let args := c.args.map fun (q, v) => Via.letter q ++ toString v
  s!"{c.tid}/{self}/{",".intercalate args}"

def fmtLog (l : Log) : String := if l.isEmpty then "-" else ";".intercalate (l.map fmtCall)

def fmtE {α : Type} (f : α → String) : Except Err α → String
  | .ok a => f a
  | .error e => e.fmt

/-- result record of a pair/tuple value operation -/
structure Res where
  r : Option (List Int)
  a : List Int
  b : List Int
  cp : Nat

def Res.fmt (x : Res) : String :=
  let r := match x.r with | some l => fmtList l | none => "-"
  s!"r={r} a={fmtList x.a} b={fmtList x.b} cp={x.cp}"

def zip3 (ks : List EK) (a b : List Int) : List El2 := (ks.zip (a.zip b))

def valueKind : EK → Bool
  | .int | .trk | .co => true
  | _ => false

/-- applicability of a value operation to the element kinds (the harness derives the same answer from the
    std type's traits and checks at compile time that the etl type agrees) -/
def distinctKinds : List EK → Bool
  | [] => true
  | k :: t => !t.contains k && distinctKinds t

def applicable (isPair : Bool) (op : String) (ks : List EK) : Bool :=
  let hasInt := ks.any (fun k => k == .int || k == .cst)      -- an element a converting constructor widens
  let hasPlain := ks.any (· == .int)                          -- an element a converting assignment narrows
  match op with
  | "ctor" | "copy" | "getcr" | "mft" => ks.all (·.copyable)
  | "assign" => ks.all (fun k => k.copyable && k.assignable)
  | "massign" | "swap" | "fswap" | "selfswap" => ks.all (·.assignable)
  | "make" | "tieassign" => ks.all valueKind
  | "maker" | "tiemassign" => ks.all (fun k => valueKind k || k == .mo)
  | "fwd" | "tie" => ks.all (fun k => valueKind k || k == .mo)
  -- pair: the harness converts pair<int,int> only; tuple: int elements widen / narrow, the other kinds keep their type
  | "conv" => if isPair then ks.all (· == .int) else hasInt && ks.all (·.copyable)
  | "convr" => if isPair then ks.all (· == .int) else hasInt
  | "cassign" => if isPair then ks.all (· == .int) else hasPlain && ks.all (fun k => k.copyable && k.assignable)
  | "cmassign" => if isPair then ks.all (· == .int) else hasPlain && ks.all (·.assignable)
  | "convp" => !isPair && ks.length == 2 && ks.all (·.copyable)
  | "convpr" => !isPair && ks.length == 2
  -- get<T>: every element type once (kinds name distinct types); through an rvalue: no reference element (libstdc++ 12 cannot
  -- compile get<T&>(pair&&), so the harness leaves reference kinds out)
  | "gett" => distinctKinds ks
  | "gettr" => distinctKinds ks && ks.all (fun k => k != .ref && k != .tref && k != .tcref)
  | "dflt" => ks.all (fun k => k == .int || k == .cst)
  | _ => true

/-- the element kinds 6 / 7 exist for pair lines only -/
def pairOnly : EK → Bool
  | .tref | .tcref => true
  | _ => false

/-- applicability of a converting assignment, per element (destination kind, source kind):
    copy form `is_assignable_v<T&, U const&>`: the destination can be assigned to, both are (references to) objects of the same
    class, and the class has a copy assignment;
    move form `is_assignable_v<T&, U>`: `U` is handed on as `forward<U>`: an rvalue of the class, or - reference kinds - an
    lvalue, which again needs the copy assignment (no reference kind of the move-only class exists) -/
def convApplicable (move : Bool) (ks : List (EK × EK)) : Bool :=
  ks.all fun (kd, s) => kd.assignable && kd.base == s.base && (move || s.base != .mo)

/-- (model, spec) of a converting assignment between pairs of different kinds -/
def convOp (op : String) (kd ks : List EK) (a b : List Int) : Option (Except Err Res × Res) :=
  let e : List ElX := (kd.zip (ks.zip (a.zip b)))
  match op with
  | "xassign" =>
    some (let m := convAssignAll e; .ok ⟨none, m.1, b, m.2⟩, let s := Spec.convAssign e; ⟨none, s.1, b, s.2⟩)
  | "xmassign" =>
    some (let m := convMoveAssignAll e; .ok ⟨none, m.1, m.2.1, m.2.2⟩, let s := Spec.convMoveAssign e; ⟨none, s.1, s.2.1, s.2.2⟩)
  | _ => none

/-- (model, spec) of a value operation -/
def valueOp (op : String) (ks : List EK) (a b : List Int) : Option (Except Err Res × Res) :=
  let e1 : List El := ks.zip a
  let e2 : List El2 := zip3 ks a b
  let copyR : Except Err Res × Res :=
    (let m := copyAll e1; .ok ⟨some m.1, a, b, m.2⟩, let s := Spec.copy e1; ⟨some s.1, a, b, s.2⟩)
  let moveR : Except Err Res × Res :=
    (let m := moveAll e1; .ok ⟨some m.1, m.2.1, b, m.2.2⟩, let s := Spec.move e1; ⟨some s.1, s.2.1, b, s.2.2⟩)
  match op with
  | "dflt" => some (.ok ⟨some (defaultAll ks), a, b, 0⟩, ⟨some (Spec.dflt ks), a, b, 0⟩)
  | "ctor" | "copy" | "make" | "getcr" | "mft" | "conv" | "convp" => some copyR
  | "ctorr" | "move" | "maker" | "getr" | "mftr" | "convr" | "convpr" | "gettr" => some moveR
  | "assign" | "cassign" | "tieassign" =>
    some (let m := assignAll e2; .ok ⟨none, m.1, b, m.2⟩, let s := Spec.assign e2; ⟨none, s.1, b, s.2⟩)
  | "massign" | "cmassign" | "tiemassign" =>
    some (let m := moveAssignAll e2; .ok ⟨none, m.1, m.2.1, m.2.2⟩, let s := Spec.moveAssign e2; ⟨none, s.1, s.2.1, s.2.2⟩)
  | "swap" | "fswap" =>
    some (let m := swapAll e2; .ok ⟨none, m.1, m.2.1, m.2.2⟩, let s := Spec.swap e2; ⟨none, s.1, s.2.1, s.2.2⟩)
  | "selfswap" =>
    -- `a.swap(a)`: both operands are the same object
    let e := zip3 ks a a
    some (let m := swapAll e; .ok ⟨none, m.1, b, m.2.2⟩, let s := Spec.swap e; ⟨none, s.1, b, s.2.2⟩)
  | "get" | "getc" | "sb" | "fwd" | "tie" | "gett" =>
    some ((do let r ← getAll a; pure ⟨some r, a, b, 0⟩), ⟨some a, a, b, 0⟩)
  | _ => none

def bits (l : List Bool) : String := String.join (l.map fmtBool)

def iLt (a b : Int) : Bool := decide (a < b)
def iEq (a b : Int) : Bool := a == b

def cats? (l : Line) (k : String) : Option (List Cat) := (l.natList? k).bind fun v => v.mapM catOf
def kinds? (l : Line) (k : String) : Option (List EK) := (l.natList? k).bind fun v => v.mapM ekOf

/-- forwarding arguments: value with category -/
def fwdArgs (x : List Int) (xc : List Cat) : Option (List Arg) :=
  if x.length = xc.length then some ((xc.zip x).map fun (q, v) => (.fwd q, v)) else none

def valArgs (x : List Int) : List Arg := x.map fun v => (.val, v)

def fmtRL (p : Int × Log) : String := s!"r={p.1} log={fmtLog p.2}"

/-- a plain function taking ints by value cannot observe the category of its arguments -/
def strip (p : Int × Log) : Int × Log := (p.1, p.2.map fun c => { c with args := c.args.map fun a => (Via.val, a.2) })

/-- split a flat value list into tuples of the given arities -/
def splitBy : List Nat → List Int → List (List Int)
  | [], _ => []
  | n :: ns, v => v.take n :: splitBy ns (v.drop n)

def objOf (o : String) (c : Cat) : Option ObjK :=
  match o with
  | "obj" | "der" => some (.obj c)
  | "refw" => some (.refw c)
  | "ptr" | "dptr" => some (.ptr c)
  | _ => none

/-- the history of wrapper objects behind a `rw` / `fref` line and the wrapper that is called:
    call: `W w0{target}`; copy: `W w1{w0}`; rebind (reference_wrapper): `w0 = ref(other)` i.e. a temporary bound to the other
    object is assigned; rebind (function_ref): `w0` first refers to the other object, then `w0 = w1`;
    reref: `ref(w0)` / `cref(w0)` = `ref(w0.get())`, a wrapper with the same pointer -/
def refHistory (act : String) (tid : Nat) : Option (List RefOp × Nat) :=
  match act with
  | "call" => some ([.bind 0 tid], 0)
  | "copy" => some ([.bind 0 tid, .copy 1 0], 1)
  | "reref" => some ([.bind 0 tid, .copy 1 0], 1)
  | "rebind" => some ([.bind 0 9, .bind 1 tid, .assign 0 1], 0)      -- function_ref: w0 referred to 9, `w0 = w1`
  | "rebind9" => some ([.bind 0 tid, .bind 1 9, .assign 0 1], 0)     -- reference_wrapper: `w0 = ref(other)`
  | _ => none

def stripB (p : Bool × Log) : Bool × Log := (p.1, p.2.map fun c => { c with args := c.args.map fun a => (Via.val, a.2) })

def boundObjOf (o : String) : Option BoundObj :=
  match o with
  | "obj" => some .obj
  | "ptr" => some (.ptr .l)
  | "cptr" => some (.ptr .c)
  | "refw" => some (.refw .l)
  | _ => none

def targetOf : Nat → Option Target
  | 0 => some .plain | 1 => some .il | 2 => some .ilWide | 3 => some .ilOther | 4 => some .agg | 5 => some .expl
  | 6 => some .aggNarrow | 7 => some .ctorNarrow | _ => none

def fmtBuilt : Built → String
  | .ctor l => s!"r=c{fmtList l}"
  | .list l => s!"r=l{fmtList l}"
  | .illFormed => "r=-"

structure DState where
  m : Except Err St
  s : Spec.ASt

def nObj : Nat := 6

/-- the harness can only count closures with a user-provided copy constructor / destructor (odd `ty`) -/
def counted : Option Fn → Bool
  | some f => f.ty % 2 == 1
  | none => false

def liveOf (st : St) : Nat :=
  ((List.range nObj).filter fun k => counted (st.mem (.obj k))).length + (if counted (st.mem .tmp) then 1 else 0)

/-- type-level facts the harness reports at run time (`typeq q=<name>`): whether the fact holds for the
    headers as they are (after the fix-c20 commits), and whether the standard prescribes it.  This is a table,
    not a model: value categories and element types are outside the value-level model (DESIGN §6). -/
def typeFact : String → Option (Bool × Bool)
  | "make_pair_unwraps_refwrap" => some (true, true)
  | "make_tuple_unwraps_refwrap" => some (true, true)
  | "tuple_cat_value_types" => some (true, true)
  | "tuple_cat_keeps_ref" => some (true, true)
  | "tuple_cat_keeps_nested" => some (true, true)
  | "tuple_cat_no_args" => some (true, true)
  | "tuple_cat_pair_elements" => some (true, true)
  | "tuple_copy_assignable" => some (true, true)
  | "tuple_move_assignable" => some (true, true)
  | "tuple_get_by_type" => some (true, true)
  | "tuple_structured_binding" => some (true, true)
  | "pair_ref_copy_assignable" => some (true, true)
  | "pair_get_by_type" => some (true, true)
  | "tuple_converting_ctor" => some (true, true)
  | _ => none

def fmtM (st : St) : String :=
  let e := (List.range nObj).map fun k => if (st.vt (.obj k)).isSome then (1 : Int) else 0
  s!"e={fmtList e} live={liveOf st}"

def fmtS (s : Spec.ASt) : String :=
  let e := (List.range nObj).map fun k => if (s k).isSome then (1 : Int) else 0
  s!"e={fmtList e} live={((List.range nObj).filter fun k => counted (s k)).length}"

def fmtOut : Out → String
  | .unit => "ok"
  | .res .bad => "bad_function_call"
  | .res (.ret r) => s!"r={r}"
  | .flag b => s!"b={fmtBool b}"

/-- specialisation of the named objects of a history: 0..2 `inplace_function<Sig, 32>`, 3..4 `inplace_function<Sig, 16>`,
    5 `inplace_function<Sig, 24, 8>` -/
def clsOf (i : Nat) : Nat := if i < 3 then 0 else if i < 5 then 1 else 2

/-- construction / assignment of object `i` from object `j` compiles: same specialisation, or the capacity-32 destination from
    one of the smaller ones (`is_valid_inplace_destination`: capacity and alignment of the source fit) -/
def fromOk (i j : Nat) : Bool := i < nObj && j < nObj && (clsOf i == clsOf j || clsOf i == 0)

def parseIfn (l : Line) : Option Op :=
  let i := l.nat? "i"
  let j := l.nat? "j"
  let conv (i j : Nat) : Bool := clsOf i != clsOf j
  let q := (l.nat? "q").bind catOf
  let fn? : Option Fn := match l.nat? "ty", l.nat? "id" with
    | some ty, some id => some { ty := ty, id := id, n := 0 }
    | _, _ => none
  let from? (mk : Nat → Nat → Bool → Cat → Op) (i : Nat) (q : Option Cat) : Option Op :=
    match j, q with
    | some j, some q => if fromOk i j then some (mk i j (conv i j) q) else none
    | _, _ => none
  match l.str? "op", i with
  | some "ctor_empty", some i | some "ctor_null", some i => some (.ctorEmpty i)
  | some "ctor_fn", some i => fn?.map (.ctorFn i)
  -- `ctor_copy` / `assign`: the source is a const lvalue (`as_const`); `ctor_move` / `massign`: `move(source)`;
  -- `ctor_from` / `assign_from q=Q`: the source expression has category Q
  | some "ctor_copy", some i => from? .ctorFrom i (some .c)
  | some "ctor_move", some i => from? .ctorFrom i (some .r)
  | some "ctor_from", some i => from? .ctorFrom i q
  | some "assign", some i => from? .assignFrom i (some .c)
  | some "massign", some i => from? .assignFrom i (some .r)
  | some "assign_from", some i => from? .assignFrom i q
  | some "assign_fn", some i => fn?.map (.assignFn i)
  | some "assign_null", some i => some (.assignNull i)
  | some "swap", some i => j.bind fun j => if clsOf i == clsOf j then some (.swap i j) else none
  | some "fswap", some i => j.bind fun j => if clsOf i == clsOf j then some (.fswap i j) else none
  | some "call", some i => (l.int? "x").map (.call i)
  | some "bool", some i => some (.bool i)
  | some "eqnull", some i => some (.eqNull i)
  | some "nenull", some i => some (.neNull i)
  | _, _ => none

def step (st : DState) (l : Line) : DState × String :=
  let bad := (st, "bad-op\tbad-op")
  let out (m s : String) := (st, m ++ "\t" ++ s)
  match l.op with
  | "pair" | "tuple" =>
    if l.op == "tuple" && l.str? "op" == some "apply" && (l.str? "f").isSome then
      -- apply(pointer to member, tuple whose first element is the object)
      match l.str? "f", (l.nat? "q").bind catOf with
      | some "memfn", some q =>
        match l.list? "a" with
        | some rest =>
          out (fmtE (fun p => fmtRL (strip p)) (applyMember (fun o => .memfn 5 o) q rest))
              (fmtRL (strip (Spec.applyMember (fun o => .memfn 5 o) q rest)))
        | none => bad
      | some "memdata", some q =>
        match l.int? "v" with
        | some v => out (fmtE fmtRL (applyMember (fun o => .memdata o v) q [])) (fmtRL (Spec.applyMember (fun o => .memdata o v) q []))
        | none => bad
      | _, _ => bad
    else
    match l.str? "op", l.list? "a", l.list? "b" with
    | some "cmp", some [x, y], some [u, v] =>
      if l.op != "pair" then bad else
      match l.str? "e" with
      | some "int" =>
        out (bits (Spec.modelRels iEq iEq iLt iLt (x, y) (u, v)))
            (bits (Spec.pairRels iEq iEq (Spec.synth3 iLt) (Spec.synth3 iLt) (x, y) (u, v)))
      | some "dbl" =>
        out (bits (Spec.modelRels Spec.dEq Spec.dEq Spec.dLt Spec.dLt (x, y) (u, v)))
            (bits (Spec.pairRels Spec.dEq Spec.dEq Spec.dCmp Spec.dCmp (x, y) (u, v)))
      | some "kp" =>     -- pair<KP, KP>: `<` on the key, `==` on key and payload; the spec is the synthesised three-way comparison
        out (bits (Spec.modelRels Spec.kpEq Spec.kpEq Spec.kpLt Spec.kpLt (x, y) (u, v)))
            (bits (Spec.pairRels Spec.kpEq Spec.kpEq (Spec.synth3 Spec.kpLt) (Spec.synth3 Spec.kpLt) (x, y) (u, v)))
      | some "kpi" =>    -- pair<KP, int>
        out (bits (Spec.modelRels Spec.kpEq iEq Spec.kpLt iLt (x, y) (u, v)))
            (bits (Spec.pairRels Spec.kpEq iEq (Spec.synth3 Spec.kpLt) (Spec.synth3 iLt) (x, y) (u, v)))
      | some "ikp" =>    -- pair<int, KP>
        out (bits (Spec.modelRels iEq Spec.kpEq iLt Spec.kpLt (x, y) (u, v)))
            (bits (Spec.pairRels iEq Spec.kpEq (Spec.synth3 iLt) (Spec.synth3 Spec.kpLt) (x, y) (u, v)))
      | _ => bad
    | some "eq", some a, some b =>
      -- (tuples of different arity do not compare: `requires(sizeof...(Ts) == sizeof...(Us))`; no such line exists)
      if l.op != "tuple" || a.length != b.length then bad
      else if l.str? "e" == some "kp" then      -- tuple<KP, ...>: `==` on key and payload
        out (fmtE fmtBool (C20.tupleEq Spec.kpEq a b)) (fmtBool (Spec.tupleEqBy Spec.kpEq a b))
      else out (fmtE fmtBool (C20.tupleEq iEq a b)) (fmtBool (Spec.tupleEq a b))
    | some "apply", some a, _ =>
      match (l.nat? "q").bind catOf, catOf ((l.nat? "c").getD 0) with
      | some q, some c => out (fmtE fmtRL (C20.apply (.fob 7 c) q a)) (fmtRL (Spec.apply (.fob 7 c) q a))
      | _, _ => bad
    | some op, some a, some b =>
      match kinds? l "t" with
      | some ks =>
        if ks.length != a.length || a.length != b.length then bad
        else if (l.op == "pair" && a.length != 2) then bad
        else if l.op != "pair" && ks.any pairOnly then bad
        else if op == "xassign" || op == "xmassign" then
          match kinds? l "u" with
          | some us =>
            if l.op != "pair" || us.length != 2 then bad
            else if !convApplicable (op == "xmassign") (ks.zip us) then out "n/a" "n/a"
            else match convOp op ks us a b with
              | some (m, s) => out (fmtE Res.fmt m) s.fmt
              | none => bad
          | none => bad
        else if !applicable (l.op == "pair") op ks then out "n/a" "n/a"
        else match valueOp op ks a b with
          | some (m, s) => out (fmtE Res.fmt m) s.fmt
          | none => bad
      | none => bad
    | _, _, _ => bad
  | "tcat" =>
    match kinds? l "k", (l.nat? "q").bind catOf, l.natList? "ts", l.list? "v" with
    | some ks, some q, some ts, some v =>
      if ts.sum != v.length || ks.length != v.length || ks.any pairOnly then bad
      -- lvalue / const tuples are copied from: a move-only element does not compile
      else if q != .r && !ks.all (·.copyable) then out "n/a" "n/a" else
      let parts := splitBy ts v
      let els : List El := ks.zip v
      let rval := q == .r
      let after := if rval then (moveAll els).2.1 else v
      let cp := if rval then (moveAll els).2.2 else (copyAll els).2
      let safter := if rval then (Spec.move els).2.1 else v
      let scp := if rval then (Spec.move els).2.2 else (Spec.copy els).2
      out (fmtE (fun r => s!"r={fmtList r} a={fmtList after} cp={cp}") (tupleCat parts))
          s!"r={fmtList (Spec.tupleCat parts)} a={fmtList safter} cp={scp}"
    | _, _, _, _ => bad
  | "invoke" =>
    match l.str? "f", (l.nat? "c").bind catOf, l.list? "x" with
    | some f, some c, some x =>
      let callee : Option (Callee × List Arg) :=
        match f with
        | "fn" => some (.fn 1, valArgs x)
        | "fptr" => some (.fn 2, valArgs x)
        | "lam" => some (.fn 3, valArgs x)
        | "fob" => (cats? l "xc").bind fun xc => (fwdArgs x xc).map fun a => (.fob 4 c, a)
        | "memfn" => ((l.str? "o").bind fun o => objOf o c).map fun o => (.memfn 5 o, valArgs x)
        | "memdata" => ((l.str? "o").bind fun o => objOf o c).bind fun o => (l.int? "v").map fun v => (.memdata o v, valArgs x)
        | _ => none
      match callee with
      | some (cl, args) => out (fmtE fmtRL (invoke cl args)) (fmtRL (Spec.invoke cl args))
      | none => bad
    | _, _, _ => bad
  | "fref" | "ifn2" =>
    if l.op == "ifn2" && (l.str? "f").isSome then
      -- an owning wrapper around a pointer to member (the object is the first parameter of the signature, an lvalue)
      match l.str? "f", l.list? "x", l.int? "v" with
      | some "memfn", some x, _ =>
        let f (p : Int × Log) : String := fmtRL (strip p) ++ " cp=0"
        out (fmtE f (functionRefCall (.memfn 5 (.obj .l)) (valArgs x))) (f (Spec.functionRefCall (.memfn 5 (.obj .l)) (valArgs x)))
      | some "memdata", some x, some v =>
        let f (p : Int × Log) : String := fmtRL p ++ " cp=0"
        out (fmtE f (functionRefCall (.memdata (.obj .l) v) (valArgs x))) (f (Spec.functionRefCall (.memdata (.obj .l) v) (valArgs x)))
      | _, _, _ => bad
    else
    match l.list? "x", cats? l "xc" with
    | some x, some xc =>
      let f := if l.op == "ifn2" then "fob" else (l.str? "f").getD "?"
      let c := if l.op == "ifn2" then some Cat.l else (l.nat? "c").bind catOf
      match f, c, x, xc with
      | "fob", some c, [a, b, d], [qa] =>
        -- signature int(Trk, Trk&, Trk const&): the first argument is passed by value
        let args : List Arg := [(.val, a), (.fwd .l, b), (.fwd .c, d)]
        -- the by-value parameter is copy-constructed from an lvalue or a const rvalue, move-constructed from an rvalue
        let cp := if qa == .r then 0 else 1
        let tid := if l.op == "ifn2" then 8 else 4
        -- the wrapper that is called: the original, a copy of it, or one that referred to another object (9) and was assigned to
        -- (`ne=1`, function_ref<R(Args...) noexcept>, is the same class template: no separate model)
        match refHistory ((l.str? "act").getD "call") tid with
        | some (ops, w) =>
          out (fmtE fmtRL (refCallAfter ops w fun t => functionRefCall (.fob t c) args) ++ s!" cp={cp}")
              (fmtRL (match Spec.designates ops w with
                      | some t => Spec.functionRefCall (.fob t c) args
                      | none => (0, [])) ++ s!" cp={cp}")
        | none => bad
      | "fn", some _, _, _ => out (fmtE (fun p => fmtRL (strip p)) (functionRefCall (.fn 1) (valArgs x)) ++ " cp=0") (fmtRL (strip (Spec.functionRefCall (.fn 1) (valArgs x))) ++ " cp=0")
      | "fptr", some _, _, _ => out (fmtE (fun p => fmtRL (strip p)) (functionRefCall (.fn 2) (valArgs x)) ++ " cp=0") (fmtRL (strip (Spec.functionRefCall (.fn 2) (valArgs x))) ++ " cp=0")
      | "lam", some _, _, _ => out (fmtE (fun p => fmtRL (strip p)) (functionRefCall (.fn 3) (valArgs x)) ++ " cp=0") (fmtRL (strip (Spec.functionRefCall (.fn 3) (valArgs x))) ++ " cp=0")
      | _, _, _, _ => bad
    | _, _ => bad
  | "rw" =>
    match l.nat? "cst", l.str? "act", l.list? "x", cats? l "xc" with
    | some cst, some act, some x, some xc =>
      match fwdArgs x xc, refHistory (if act == "rebind" then "rebind9" else act) 4 with
      | some args, some (ops, w) =>
        out (fmtE fmtRL (refCallAfter ops w fun t => refWrapCall t (cst == 1) args))
            (fmtRL (match Spec.designates ops w with
                    | some t => Spec.refWrapCall t (cst == 1) args
                    | none => (0, [])))
      | _, _ => bad
    | _, _, _, _ => bad
  | "bf" =>
    match l.str? "f", (l.nat? "q").bind catOf, l.nat? "bl", l.list? "b", l.list? "x" with
    | some f, some q, some bl, some b, some x =>
      let br := (l.natList? "br").getD (b.map fun _ => 0)
      let act := (l.str? "act").getD "call"
      if br.length != b.length || !(act == "call" || act == "copy" || act == "move") then bad else
      let bound : List Bound := (b.zip br).map fun (v, r) => if r == 1 then .refw v else .val v
      -- copies of bound instrumented objects made before the call: one per plain argument bound from an lvalue,
      -- one more per plain argument when the wrapper is copied; a bound reference_wrapper copies nothing
      let plain := (br.filter (· != 1)).length
      let bcp := if f == "fob" then (if bl == 1 then plain else 0) + (if act == "copy" then plain else 0) else 0
      match f with
      | "fob" =>
        match (cats? l "xc").bind (fwdArgs x) with
        | some args =>
          out (fmtE fmtRL (bindFrontCall (fun q => .fob 6 q) q bound args) ++ s!" bcp={bcp}")
              (fmtRL (Spec.bindFrontCall (fun q => .fob 6 q) q bound args) ++ s!" bcp={bcp}")
        | none => bad
      | "memfn" | "memdata" =>
        -- bind_front(pointer to member, object | pointer | reference_wrapper)
        match (l.str? "o").bind boundObjOf with
        | some o =>
          if f == "memfn" then
            out (fmtE (fun p => fmtRL (strip p)) (bindFrontMember (fun k => .memfn 5 k) q o (valArgs x)) ++ " bcp=0")
                (fmtRL (strip (Spec.bindFrontMember (fun k => .memfn 5 k) q o (valArgs x))) ++ " bcp=0")
          else match l.int? "v" with
            | some v => out (fmtE fmtRL (bindFrontMember (fun k => .memdata k v) q o (valArgs x)) ++ " bcp=0")
                            (fmtRL (Spec.bindFrontMember (fun k => .memdata k v) q o (valArgs x)) ++ " bcp=0")
            | none => bad
        | none => bad
      | "fn" =>
        -- a function pointer taking ints by value: the categories of the bound arguments are not observable
        out (fmtE (fun p => fmtRL (strip p)) (bindFrontCall (fun _ => .fn 2) q bound (valArgs x)) ++ s!" bcp={bcp}")
            (fmtRL (strip (Spec.bindFrontCall (fun _ => .fn 2) q bound (valArgs x))) ++ s!" bcp={bcp}")
      | _ => bad
    | _, _, _, _, _ => bad
  | "nfc" | "nf" =>
    let fB (r : Bool × Log) : String := s!"r={fmtBool r.1} log={fmtLog r.2}"
    if l.op == "nfc" || (l.str? "f").isSome then
      -- not_fn around a pointer to member (the object is the first call argument, category c), and the stateless not_fn<ConstFn>()
      let c := (l.nat? "c").bind catOf
      match l.str? "f", c with
      | some "fn", _ =>
        if l.op != "nfc" then bad else
        match l.nat? "p", l.list? "x" with
        | some p, some x => out (fmtE fB (notFnOf (.fn 12) (p == 1) (valArgs x))) (fB (Spec.notFnOf (.fn 12) (p == 1) (valArgs x)))
        | _, _ => bad
      | some "memfn", some c =>
        match l.nat? "p", l.list? "x" with
        | some p, some x =>
          out (fmtE (fun r => fB (stripB r)) (notFnOf (.memfn 11 (.obj c)) (p == 1) (valArgs x)))
              (fB (stripB (Spec.notFnOf (.memfn 11 (.obj c)) (p == 1) (valArgs x))))
        | _, _ => bad
      | some "memdata", some c =>
        match l.int? "v" with
        | some v => out (fmtE fB (notFnOf (.memdata (.obj c) v) (v != 0) [])) (fB (Spec.notFnOf (.memdata (.obj c) v) (v != 0) []))
        | none => bad
      | _, _ => bad
    else
    match (l.nat? "q").bind catOf, l.nat? "p", l.list? "x", cats? l "xc" with
    | some q, some p, some x, some xc =>
      match fwdArgs x xc with
      | some args =>
        let f (r : Bool × Log) : String := s!"r={fmtBool r.1} log={fmtLog r.2}"
        out (fmtE f (notFnCall 4 q (p == 1) args)) (f (Spec.notFnCall 4 q (p == 1) args))
      | none => bad
    | _, _, _, _ => bad
  | "mft" =>
    -- make_from_tuple<T>(t): which constructor of the target kind initialises; `form=brace`: the direct-list-initialisation
    -- `T{..}` compiled directly (no library code: validates `Spec.listInit` against the compiler)
    match (l.nat? "tg").bind targetOf, (l.nat? "q").bind catOf, l.list? "a" with
    | some tg, some _, some a =>
      if a.length > 3 || (l.str? "src" == some "pair" && a.length != 2) then bad
      else if l.str? "form" == some "brace" then out (fmtBuilt (Spec.listInit tg a)) (fmtBuilt (Spec.listInit tg a))
      else out (fmtE fmtBuilt (makeFromTupleT tg a)) (fmtBuilt (Spec.directInit tg a))
    | _, _, _ => bad
  | "typeq" =>
    match (l.str? "q").bind typeFact with
    | some (m, s) => out (fmtBool m) (fmtBool s)
    | none => bad
  | "new" => ({ m := .ok St.init, s := Spec.ASt.init }, s!"ok {fmtM St.init} log=-\tok {fmtS Spec.ASt.init} log=-")
  | "ifn" =>
    match parseIfn l with
    | some op =>
      let (m', ms) : Except Err St × String :=
        match st.m with
        | .error e => (.error e, e.fmt)
        | .ok x =>
          match C20.step x op with
          | .ok (x', o, lg) => (.ok x', s!"{fmtOut o} {fmtM x'} log={fmtLog lg}")
          | .error e => (.error e, e.fmt)
      let (s', o, lg) := Spec.step st.s op
      ({ m := m', s := s' }, ms ++ "\t" ++ s!"{fmtOut o} {fmtS s'} log={fmtLog lg}")
    | none => bad
  | _ => bad

end Tetl.C20.Driver

def main : IO Unit :=
  Tetl.Proto.runDriver ({ m := .ok Tetl.C20.St.init, s := Tetl.C20.Spec.ASt.init } : Tetl.C20.Driver.DState)
    Tetl.C20.Driver.step
