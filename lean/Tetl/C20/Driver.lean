/- placeholder: the C20 driver is not built yet -/
def main : IO Unit := IO.println "C20: driver not built yet"
