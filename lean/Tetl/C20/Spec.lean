/-
C20 — reference semantics: what the standard prescribes for `std::pair` ([pairs.pair], [pairs.spec]),
`std::tuple` ([tuple.cnstr], [tuple.swap], [tuple.rel], [tuple.creation], [tuple.apply]), `INVOKE`
([func.require]) and the call wrappers ([refwrap.invoke], [func.bind.partial], [func.not.fn],
[func.wrap.func] for the owning wrapper, P0792 for `function_ref`), stated over whole lists and
whole objects: no indices, no buffers, no vtables.
-/
import Tetl.C20.Model
namespace Tetl.C20.Spec
open Tetl.C20

/-! ## pair / tuple values -/

def copy (t : List El) : List Int × Nat := (t.map (·.2), (t.map (·.1.copyCost)).sum)

def move (t : List El) : List Int × List Int × Nat :=
  (t.map (·.2), t.map (fun e => e.1.residue e.2), (t.map (·.1.moveCost)).sum)

/-- `a = b`: `a` holds `b`'s values -/
def assign (t : List El2) : List Int × Nat := (t.map (·.2.2), (t.map (·.1.copyCost)).sum)

/-- `a = move(b)` -/
def moveAssign (t : List El2) : List Int × List Int × Nat :=
  (t.map (·.2.2), t.map (fun e => e.1.residue e.2.2), (t.map (·.1.moveCost)).sum)

/-- `a.swap(b)`: the values are exchanged; every element is moved three times -/
def swap (t : List El2) : List Int × List Int × Nat :=
  (t.map (·.2.2), t.map (·.2.1), 3 * (t.map (·.1.moveCost)).sum)

/-! ## relations -/

/-- outcome of a three-way comparison (`partial_ordering`) -/
inductive Ord3 where
  | less | equiv | greater | unordered
  deriving Repr, DecidableEq, Inhabited

/-- *synth-three-way* for a type that only has `<` ([expos.only.entity]) -/
def synth3 {α : Type} (lt : α → α → Bool) (a b : α) : Ord3 :=
  if lt a b then .less else if lt b a then .greater else .equiv

/-- `x <=> y` of [pairs.spec]: the first elements decide unless they are equivalent -/
def pairCmp3 {α β : Type} (c1 : α → α → Ord3) (c2 : β → β → Ord3) (a b : α × β) : Ord3 :=
  match c1 a.1 b.1 with
  | .equiv => c2 a.2 b.2
  | o => o

def Ord3.isLt : Ord3 → Bool
  | .less => true
  | _ => false
def Ord3.isGt : Ord3 → Bool
  | .greater => true
  | _ => false
def Ord3.isLe : Ord3 → Bool
  | .less => true
  | .equiv => true
  | _ => false
def Ord3.isGe : Ord3 → Bool
  | .greater => true
  | .equiv => true
  | _ => false

/-- the six relations of a pair: `==`, `!=`, `<`, `<=`, `>`, `>=` -/
def pairRels {α β : Type} (eq1 : α → α → Bool) (eq2 : β → β → Bool) (c1 : α → α → Ord3) (c2 : β → β → Ord3)
    (a b : α × β) : List Bool :=
  let e := eq1 a.1 b.1 && eq2 a.2 b.2
  let o := pairCmp3 c1 c2 a b
  [e, !e, o.isLt, o.isLe, o.isGt, o.isGe]

/-- the same six relations as the header computes them -/
def modelRels {α β : Type} (eq1 : α → α → Bool) (eq2 : β → β → Bool) (lt1 : α → α → Bool) (lt2 : β → β → Bool)
    (a b : α × β) : List Bool :=
  [pairEq eq1 eq2 a b, pairNe eq1 eq2 a b, pairLt lt1 lt2 a b, pairLe lt1 lt2 a b, pairGt lt1 lt2 a b,
   pairGe lt1 lt2 a b]

/-! ### double elements: 9 stands for NaN, which is unordered with everything -/
def NaN : Int := 9
def dLt (a b : Int) : Bool := a != NaN && b != NaN && decide (a < b)
def dEq (a b : Int) : Bool := a != NaN && b != NaN && a == b
def dCmp (a b : Int) : Ord3 :=
  if a == NaN || b == NaN then .unordered else if a < b then .less else if b < a then .greater else .equiv

/-- tuples of the same arity are equal iff all elements are -/
def tupleEq (a b : List Int) : Bool := decide (a = b)

/-! ## tuple_cat / apply / make_from_tuple -/

/-- all elements of all tuples, in order -/
def tupleCat (ts : List (List Int)) : List Int := ts.flatten

/-! ## calls: the target is called exactly once, with the arguments as given -/

/-- the object expression `INVOKE` uses for a pointer to member ([func.require] 1.1-1.6) -/
def objExpr : ObjK → Cat
  | .obj c => c                 -- `t1.*f`
  | .refw c => c.asLvalue       -- `t1.get().*f`
  | .ptr c => c.asLvalue        -- `(*t1).*f`

def invoke (f : Callee) (args : List (Option Cat × Int)) : Int × Log :=
  match f with
  | .fn tid => callTarget tid none args
  | .fob tid c => callTarget tid (some c) args
  | .memfn tid o => callTarget tid (some (objExpr o)) args
  | .memdata _ v => (v, [])

/-- `reference_wrapper<T>::operator()`: `INVOKE(get(), args...)`, `get()` is an lvalue `T&` -/
def refWrapCall (tid : Nat) (cst : Bool) (args : List (Option Cat × Int)) : Int × Log :=
  callTarget tid (some (if cst then .c else .l)) args

/-- `function_ref`: the referenced entity is invoked as an lvalue (of the const-ness bound);
    the arguments reach it as `forward<Args>(args)...` -/
def functionRefCall (callee : Callee) (args : List (Option Cat × Int)) : Int × Log :=
  -- `paramArrives`: a by-value parameter reaches the target as an rvalue, a reference parameter unchanged
  match callee with
  | .fob tid c => callTarget tid (some c.asLvalue) (args.map paramArrives)
  | other => invoke other (args.map paramArrives)

/-- `bind_front(f, bound...)(args...)` called through a `q`-qualified wrapper:
    `invoke(q-qualified fd, q-qualified bound..., args...)` -/
def bindFrontCall (mk : Cat → Callee) (q : Cat) (bound : List Int) (args : List (Option Cat × Int)) : Int × Log :=
  invoke (mk q) (bound.map (fun v => (some q, v)) ++ args)

/-- `not_fn(f)(args...)` = `!invoke(q-qualified fd, args...)` -/
def notFnCall (tid : Nat) (q : Cat) (pred : Bool) (args : List (Option Cat × Int)) : Bool × Log :=
  (!pred, (callTarget tid (some q) args).2)

/-- `apply(f, t)` = `invoke(f, get<0>(t), …, get<n-1>(t))`, the elements with the tuple's category -/
def apply (f : Callee) (tc : Cat) (t : List Int) : Int × Log := invoke f (t.map (fun v => (some tc, v)))

/-! ## the owning wrapper: an object either holds a target or is empty -/

abbrev ASt := Nat → Option Fn

def set (s : ASt) (i : Nat) (v : Option Fn) : ASt := fun k => if k = i then v else s k

def ASt.init : ASt := fun _ => none

/-- copy = an equivalent target in both; move = the target changes owner, the source is empty;
    swap = exchange; a call of an empty object reports `bad_function_call` and calls nothing;
    a call of a non-empty object calls its target exactly once -/
def step (s : ASt) : Op → ASt × Out × Log
  | .ctorEmpty i => (set s i none, .unit, [])
  | .ctorFn i f => (set s i (some f), .unit, [])
  | .ctorCopy i j _ => (set s i (s j), .unit, [])
  | .ctorMove i j _ => (set (set s j none) i (s j), .unit, [])
  | .assignCopy i j _ => (set s i (s j), .unit, [])
  | .assignMove i j _ => (set (set s j none) i (s j), .unit, [])
  | .assignFn i f => (set s i (some f), .unit, [])
  | .assignNull i => (set s i none, .unit, [])
  | .swap i j => (set (set s i (s j)) j (s i), .unit, [])
  | .call i x =>
    match s i with
    | none => (s, .res .bad, [])
    | some f => (set s i (some { f with n := f.n + 1 }), .res (.ret (fnResult f x)), [fnLog f x])
  | .bool i => (s, .flag (s i).isSome, [])

def run : ASt → List Op → ASt × List Out × Log
  | s, [] => (s, [], [])
  | s, op :: ops =>
    let r := step s op
    let r2 := run r.1 ops
    (r2.1, r.2.1 :: r2.2.1, r.2.2 ++ r2.2.2)

/-- documented precondition of a history line: an object is not copy/move-constructed from itself -/
def valid : Op → Bool
  | .ctorCopy i j _ => i != j
  | .ctorMove i j _ => i != j
  | _ => true

end Tetl.C20.Spec
