/-
C20 — reference semantics: what the standard prescribes for `std::pair` ([pairs.pair], [pairs.spec]),
`std::tuple` ([tuple.cnstr], [tuple.swap], [tuple.rel], [tuple.creation], [tuple.apply]), `INVOKE`
([func.require]) and the call wrappers ([refwrap.invoke], [func.bind.partial], [func.not.fn],
[func.wrap.func] for the owning wrapper, P0792 for `function_ref`), stated over whole lists and
whole objects: no indices, no buffers, no vtables.
-/
import Tetl.C20.Model
namespace Tetl.C20.Spec
open Tetl.C20

/-! ## pair / tuple values -/

/-- a value-initialised pair / tuple holds zeros -/
def dflt (ks : List EK) : List Int := List.replicate ks.length 0

def copy (t : List El) : List Int × Nat := (t.map (·.2), (t.map (·.1.copyCost)).sum)

def move (t : List El) : List Int × List Int × Nat :=
  (t.map (·.2), t.map (fun e => e.1.residue e.2), (t.map (·.1.moveCost)).sum)

/-- `a = b`: `a` holds `b`'s values -/
def assign (t : List El2) : List Int × Nat := (t.map (·.2.2), (t.map (·.1.assignCost)).sum)

/-- `a = move(b)`: [pairs.pair] "assigns `std::forward<first_type>(p.first)` to `first`" -/
def moveAssign (t : List El2) : List Int × List Int × Nat :=
  (t.map (·.2.2), t.map (fun e => e.1.residue e.2.2), (t.map (·.1.moveAssignCost)).sum)

/-- `a = b` for pairs of different element types ([pairs.pair] `operator=(const pair<U1, U2>& p)`: "assigns `p.first`
    to `first` and `p.second` to `second`"): `a` holds `b`'s values, `b` is unchanged; every element costs what a copy
    assignment from an element of the SOURCE kind costs -/
def convAssign (t : List ElX) : List Int × Nat := (t.map (·.2.2.2), (t.map (·.2.1.assignCost)).sum)

/-- `a = move(b)` for pairs of different element types ([pairs.pair] `operator=(pair<U1, U2>&& p)`: "assigns
    `std::forward<U1>(p.first)` to `first` and `std::forward<U2>(p.second)` to `second`"): what is left in `b` and what
    is copied is decided by the SOURCE kind `U` - `forward<U>` of a reference kind is an lvalue: nothing is moved from -/
def convMoveAssign (t : List ElX) : List Int × List Int × Nat :=
  (t.map (·.2.2.2), t.map (fun e => e.2.1.residue e.2.2.2), (t.map (·.2.1.moveAssignCost)).sum)

/-- `a.swap(b)`: the values are exchanged; every element is moved three times -/
def swap (t : List El2) : List Int × List Int × Nat :=
  (t.map (·.2.2), t.map (·.2.1), 3 * (t.map (·.1.moveCost)).sum)

/-! ## relations -/

/-- outcome of a three-way comparison (`partial_ordering`) -/
inductive Ord3 where
  | less | equiv | greater | unordered
  deriving Repr, DecidableEq, Inhabited

/-- *synth-three-way* for a type that only has `<` ([expos.only.entity]) -/
def synth3 {α : Type} (lt : α → α → Bool) (a b : α) : Ord3 :=
  if lt a b then .less else if lt b a then .greater else .equiv

/-- `x <=> y` of [pairs.spec]: the first elements decide unless they are equivalent -/
def pairCmp3 {α β : Type} (c1 : α → α → Ord3) (c2 : β → β → Ord3) (a b : α × β) : Ord3 :=
  match c1 a.1 b.1 with
  | .equiv => c2 a.2 b.2
  | o => o

def Ord3.isLt : Ord3 → Bool
  | .less => true
  | _ => false
def Ord3.isGt : Ord3 → Bool
  | .greater => true
  | _ => false
def Ord3.isLe : Ord3 → Bool
  | .less => true
  | .equiv => true
  | _ => false
def Ord3.isGe : Ord3 → Bool
  | .greater => true
  | .equiv => true
  | _ => false

/-- the six relations of a pair: `==`, `!=`, `<`, `<=`, `>`, `>=` -/
def pairRels {α β : Type} (eq1 : α → α → Bool) (eq2 : β → β → Bool) (c1 : α → α → Ord3) (c2 : β → β → Ord3)
    (a b : α × β) : List Bool :=
  let e := eq1 a.1 b.1 && eq2 a.2 b.2
  let o := pairCmp3 c1 c2 a b
  [e, !e, o.isLt, o.isLe, o.isGt, o.isGe]

/-- the same six relations as the header computes them -/
def modelRels {α β : Type} (eq1 : α → α → Bool) (eq2 : β → β → Bool) (lt1 : α → α → Bool) (lt2 : β → β → Bool)
    (a b : α × β) : List Bool :=
  [pairEq eq1 eq2 a b, pairNe eq1 eq2 a b, pairLt lt1 lt2 a b, pairLe lt1 lt2 a b, pairGt lt1 lt2 a b,
   pairGe lt1 lt2 a b]

/-! ### double elements: 9 stands for NaN, which is unordered with everything -/
def NaN : Int := 9
def dLt (a b : Int) : Bool := a != NaN && b != NaN && decide (a < b)
def dEq (a b : Int) : Bool := a != NaN && b != NaN && a == b
def dCmp (a b : Int) : Ord3 :=
  if a == NaN || b == NaN then .unordered else if a < b then .less else if b < a then .greater else .equiv

/-- the input class of the known finding F-C20-pair-rel-unordered: the three-way comparison of the two pairs of
    doubles is unordered (the same predicate as `classify` in checks/props/c20.py) -/
def unorderedPair (a b : Int × Int) : Bool :=
  a.1 == NaN || b.1 == NaN || (a.1 == b.1 && (a.2 == NaN || b.2 == NaN))

/-! ### key + payload elements (`KP` of harness/c20.cpp): a value `v` stands for the key `v / 2` and the payload `v % 2`;
`<` looks at the key alone, `==` at key and payload (no `<=>`: the three-way comparison is the synthesised one).  The
equivalence `<` induces is coarser than `==`: 2 and 3 are equivalent and not equal. -/
def kpLt (a b : Int) : Bool := decide (a / 2 < b / 2)
def kpEq (a b : Int) : Bool := a == b

/-- the textbook one-liner `x.first < y.first || (x.first == y.first && x.second < y.second)`: NOT [pairs.spec] - the tie on
    the first elements is decided by `==` instead of "neither is less" (`Props.pair_lt_via_eq_differs`,
    `Props.pair_lt_via_eq_same_of_total`) -/
def pairLtViaEq {α β : Type} (eq1 : α → α → Bool) (lt1 : α → α → Bool) (lt2 : β → β → Bool) (a b : α × β) : Bool :=
  lt1 a.1 b.1 || (eq1 a.1 b.1 && lt2 a.2 b.2)

/-- tuples of the same arity are equal iff all elements are -/
def tupleEq (a b : List Int) : Bool := decide (a = b)

/-- [tuple.rel] `t == u` for an arbitrary element `==` (no lawfulness assumed): true iff `get<i>(t) == get<i>(u)` for
    every `i` (no element: true) -/
def tupleEqBy {α : Type} (eq : α → α → Bool) (a b : List α) : Bool := (a.zip b).all (fun p => eq p.1 p.2)

/-! ## tuple_cat / apply / make_from_tuple -/

/-- all elements of all tuples, in order -/
def tupleCat (ts : List (List Int)) : List Int := ts.flatten

/-! ### make_from_tuple ([tuple.apply]): `return T(get<I>(std::forward<Tuple>(t))...);` — direct-NON-list-initialisation

Stated per target kind from [dcl.init.general] / [dcl.init.list] / [over.match.list], over the whole argument list. -/

/-- the members of the aggregate `{a, b, c}` given `n ≤ 3` initialisers: the initialisers, then zeros -/
def aggFrom (args : List Int) : Built := .ctor (args ++ List.replicate (3 - args.length) 0)

/-- direct-non-list-initialisation `T(args...)`, at most three arguments: a class target is initialised by the constructor
    whose parameter list matches the arguments — `initializer_list` constructors get no preference and are not viable for `int`
    arguments —, narrowing is permitted; an aggregate target has its members initialised in order ([dcl.init.general] 16.6.2.2) -/
def directInit : Target → List Int → Built
  | .agg, args => aggFrom args
  | .aggNarrow, args => aggFrom args
  | _, args => .ctor args

/-- direct-LIST-initialisation `T{args...}` — what [tuple.apply] does NOT prescribe; given here to state that the two forms
    differ (`Props.listInit_differs`), and validated against the compiler by the `mft form=brace` lines.
    [dcl.init.list] 3.5: empty braces and a default constructor: value-initialisation; 3.7 / [over.match.list]: first the
    `initializer_list` constructors alone, with the whole list as one argument (viable when every element converts to the list's
    element type without narrowing), only then all constructors; a narrowing conversion of a non-constant is ill-formed. -/
def listInit : Target → List Int → Built
  | .il, [] => .ctor []
  | .il, args => .list args
  | .ilWide, [] => .ctor []
  | .ilWide, args => .list args
  | .agg, args => aggFrom args
  | .aggNarrow, [] => aggFrom []
  | .aggNarrow, _ => .illFormed
  | .ctorNarrow, [] => .ctor []
  | .ctorNarrow, _ => .illFormed
  | _, args => .ctor args

/-! ## calls

What the property demands of one call through a wrapper is a predicate on the outcome of that call
(`CalledOnce`): the call log has exactly one entry, the entry is for the wrapped target, called through an object
expression of the prescribed category with exactly the given arguments (how each arrives, and its value, in order),
and the result handed back is the target's.

For the run-time validation against libstdc++ (R2) the prescribed outcome is also given as executable
functions; they are written from the wording of [func.require], [refwrap.invoke], [func.bind.partial],
[func.not.fn], [tuple.apply] and P0792 and use none of the model's call functions.  (For these forwarding
wrappers the standard's definition and the header's code are the same few lines, so model and executable spec
coincide almost literally; see `TetlProofs/C20/Lemmas.lean`, "calls".) -/

structure CalledOnce {ρ : Type} (tid : Nat) (self : Option Cat) (args : List Arg) (res : ρ) (out : ρ × Log) : Prop where
  /-- exactly one call was made -/
  once : out.2.length = 1
  /-- it was a call of the wrapped target, through that object expression, with those arguments -/
  entry : ∀ c ∈ out.2, c.tid = tid ∧ c.self = self ∧ c.args = args
  /-- the result is handed back unchanged -/
  result : out.1 = res

/-- the single call of target `tid` -/
def theCall (tid : Nat) (self : Option Cat) (args : List Arg) : Int × Log :=
  (resultOf tid (args.map (·.2)), [{ tid := tid, self := self, args := args }])

/-- the object expression `INVOKE` uses for a pointer to member ([func.require] 1.1-1.6) -/
def objExpr : ObjK → Cat
  | .obj c => c                                                   -- `t1.*f`
  | .refw c => (match c with | .l | .r => .l | .c | .k => .c)     -- `t1.get().*f`: `get()` is an lvalue
  | .ptr c => (match c with | .l | .r => .l | .c | .k => .c)      -- `(*t1).*f`: `*t1` is an lvalue

/-- the target `INVOKE(f, ...)` calls and the category of the object expression it is called through;
    `none`: a pointer to data member, which calls nothing -/
def target? : Callee → Option (Nat × Option Cat)
  | .fn tid => some (tid, none)
  | .fob tid c => some (tid, some c)
  | .memfn tid o => some (tid, some (objExpr o))
  | .memdata _ _ => none

def invoke (f : Callee) (args : List Arg) : Int × Log :=
  match f with
  | .memdata _ v => (v, [])                -- `t1.*f`: the member itself, nothing is called
  | .fn tid => theCall tid none args
  | .fob tid c => theCall tid (some c) args
  | .memfn tid o => theCall tid (some (objExpr o)) args

/-- `reference_wrapper<T>::operator()`: `INVOKE(get(), args...)`, `get()` is an lvalue `T&` -/
def refWrapCall (tid : Nat) (cst : Bool) (args : List Arg) : Int × Log :=
  theCall tid (some (if cst then .c else .l)) args

/-- a parameter of the signature `R(Args...)` reaches the target as `forward<Args>(args)`: a by-value parameter
    as an rvalue, a reference parameter as it is -/
def arrives : Arg → Arg
  | (.val, v) => (.fwd .r, v)
  | (.fwd q, v) => (.fwd q, v)
  | (.wrap q, v) => (.wrap q, v)

/-- the entity a `function_ref` refers to and how it is reached: a function object is an lvalue of the
    const-ness it was bound with; a function or a member pointer as `INVOKE` prescribes -/
def frefTarget? : Callee → Option (Nat × Option Cat)
  | .fob tid c => some (tid, some (match c with | .l | .r => .l | .c | .k => .c))
  | other => target? other

/-- `function_ref<R(Args...)>::operator()(args...)` -/
def functionRefCall (callee : Callee) (args : List Arg) : Int × Log :=
  match callee with
  | .memdata _ v => (v, [])
  | other =>
    match frefTarget? other with
    | some (tid, self) => theCall tid self (args.map arrives)
    | none => (0, [])

/-- how a bound argument is handed on by a `q`-qualified `bind_front` wrapper: as a `q`-qualified
    `decay_t<Arg>`; a `reference_wrapper` stays a `reference_wrapper` ([func.bind.partial]) -/
def boundArrives (q : Cat) : Bound → Arg
  | .val v => (.fwd q, v)
  | .refw v => (.wrap q, v)

/-- `bind_front(f, bound...)(args...)` called through a `q`-qualified wrapper:
    `invoke(q-qualified fd, q-qualified bound..., args...)` -/
def bindFrontCall (mk : Cat → Callee) (q : Cat) (bound : List Bound) (args : List Arg) : Int × Log :=
  invoke (mk q) (bound.map (boundArrives q) ++ args)

/-- `not_fn(f)(args...)` = `!invoke(q-qualified fd, args...)` -/
def notFnCall (tid : Nat) (q : Cat) (pred : Bool) (args : List Arg) : Bool × Log :=
  (!pred, [{ tid := tid, self := some q, args := args }])

/-- `apply(f, t)` = `invoke(f, get<0>(t), …, get<n-1>(t))`, the elements with the tuple's category -/
def apply (f : Callee) (tc : Cat) (t : List Int) : Int × Log := invoke f (t.map (fun v => (.fwd tc, v)))

/-- `apply(pm, t)`, `pm` a pointer to member, the first element of `t` the object: `INVOKE(pm, obj, rest...)` with the
    object and the other elements in the tuple's category -/
def applyMember (mk : ObjK → Callee) (tc : Cat) (rest : List Int) : Int × Log :=
  invoke (mk (.obj tc)) (rest.map (fun v => (.fwd tc, v)))

/-- `not_fn(f)(args...)` / `not_fn<f>()(args...)` for any callable: `!INVOKE(f, args...)` -/
def notFnOf (f : Callee) (pred : Bool) (args : List Arg) : Bool × Log := (!pred, (invoke f args).2)

/-- `bind_front(pm, obj)(args...)` through a `q`-qualified wrapper: `INVOKE(pm, q-qualified stored obj, args...)`; a stored
    pointer or reference_wrapper designates the same object whatever the wrapper's qualification -/
def bindFrontMember (mk : ObjK → Callee) (q : Cat) (o : BoundObj) (args : List Arg) : Int × Log :=
  match o with
  | .obj => invoke (mk (.obj q)) args
  | .ptr pc => invoke (mk (.ptr pc)) args
  | .refw pc => invoke (mk (.refw pc)) args

/-! ### reference_wrapper / function_ref as objects

Which target does wrapper `w` designate after a history?  Resolved *backwards* over the history read from its most
recent operation: find the last operation that wrote `w`; a binding names the target, a copy / assignment from `v` defers
to what `v` designated before that operation.  (The model executes the operations forwards on the pointer members;
`Props.refPtrs_designates` relates the two.) -/
def designatesRev : List RefOp → Nat → Option Nat
  | [], _ => none
  | .bind w' tid :: h, w => if w = w' then some tid else designatesRev h w
  | .copy w' v :: h, w => if w = w' then designatesRev h v else designatesRev h w
  | .assign w' v :: h, w => if w = w' then designatesRev h v else designatesRev h w

/-- the target wrapper `w` designates after the history `ops` (oldest first) -/
def designates (ops : List RefOp) (w : Nat) : Option Nat := designatesRev ops.reverse w

/-! ## the owning wrapper: an object either holds a target or is empty -/

abbrev ASt := Nat → Option Fn

def set (s : ASt) (i : Nat) (v : Option Fn) : ASt := fun k => if k = i then v else s k

def ASt.init : ASt := fun _ => none

/-- Does construction / assignment from a source expression of this category take the target away from the source?
    Only an rvalue of non-const type may be pilfered ([func.wrap.func.con]: `function(function&& f)`; every other source —
    a non-const lvalue, a const lvalue, a const rvalue — is copied from through `function(const function&)`: "`!*this` if `!f`,
    otherwise `*this` targets a copy of `f.target()`", and `f` is unchanged).  That the moved-from source is then EMPTY is what
    libstdc++ does and what the property demands of `inplace_function` ("moving ... yields wrappers that call an equivalent
    target", the source "reports empty"). -/
def gives (q : Cat) : Bool := q == .r

/-- copy = an equivalent target in both; move = the target changes owner, the source is empty;
    swap = exchange; a call of an empty object reports `bad_function_call` and calls nothing;
    a call of a non-empty object calls its target exactly once -/
def step (s : ASt) : Op → ASt × Out × Log
  | .ctorEmpty i => (set s i none, .unit, [])
  | .ctorFn i f => (set s i (some f), .unit, [])
  | .ctorFrom i j _ q => (set (if gives q then set s j none else s) i (s j), .unit, [])
  | .assignFrom i j _ q => (set (if gives q then set s j none else s) i (s j), .unit, [])
  | .assignFn i f => (set s i (some f), .unit, [])
  | .assignNull i => (set s i none, .unit, [])
  | .swap i j => (set (set s i (s j)) j (s i), .unit, [])
  | .call i x =>
    match s i with
    | none => (s, .res .bad, [])
    | some f => (set s i (some { f with n := f.n + 1 }), .res (.ret (fnResult f x)), [fnLog f x])
  | .bool i => (s, .flag (s i).isSome, [])
  | .fswap i j => (set (set s i (s j)) j (s i), .unit, [])     -- free swap: exchange
  | .eqNull i => (s, .flag (s i).isNone, [])                   -- equal to nullptr iff empty
  | .neNull i => (s, .flag (s i).isSome, [])

def run : ASt → List Op → ASt × List Out × Log
  | s, [] => (s, [], [])
  | s, op :: ops =>
    let r := step s op
    let r2 := run r.1 ops
    (r2.1, r.2.1 :: r2.2.1, r.2.2 ++ r2.2.2)

/-- documented precondition of a history line: an object is not copy/move-constructed from itself -/
def valid : Op → Bool
  | .ctorFrom i j _ _ => i != j
  | _ => true

end Tetl.C20.Spec
