/- C19 line-protocol driver: prints `model <TAB> spec` for each case line.
   ops (see checks/props/c19.py for the grammar):
     ext   it= pat=[..] ext=[..] ctor=dyn|all            (extents only: extent, rank, fwd/rev products)
     map   lay=left|right|stride|tleft|tright it=<i8..u64> pat=[..] ext=[..] ctor=dyn|all [str=[..] perm=[..]]
     conv  it= sit= pat=[..] spat=[..] ext=[..]
     stride_members it= pat=[..] ext=[..] str=[..]
     map   lay=tstride it= pat=[..] ext=[..] ctor= str=[..] perm=[..]   (layout_transpose<layout_stride>; str = strides of the view)
     sub   it= pat=[..] ext=[..] sl=F,I,P,T,A,M<lo>,C<lo>_<hi> lo=[..] hi=[..]   (submdspan_extents; `keep=[0|1 ..]` = F/I only)
     mda   lay=left|right|stride it= pat=[..] ext=[..] val= [str=[..] perm=[..]] [ext2=[..] [str2=[..] perm2=[..]]]
           (mdarray constructors; with ext2: copy / move / assignment / swap between two objects with different mappings)
     dflt  it= pat=[..] ext=[..]                            (default-constructed mappings; ext = static extent or 0)
     seq   it= pat=[..] oit= opat=[..] olay=stride|left|right ext=[..] oext=[..] str=[..] [ostr=[..]]
           (layout_stride::mapping::operator== across index types, both operand orders)
     msz   lay=left|right it= pat=[..] ext=[..]            (size / empty when only the SIZE is representable)
     span  n= se= op=first|last|subspan ct=0|1 off= cnt=
-/
import Tetl.Proto
import Tetl.C19.Model
import Tetl.C19.Spec
namespace Tetl.C19.Driver
open Tetl Tetl.Proto Tetl.C19

def parseIt (s : String) : Option IdxT :=
  match s with
  | "i8" => some ⟨8, true⟩ | "u8" => some ⟨8, false⟩
  | "i16" => some ⟨16, true⟩ | "u16" => some ⟨16, false⟩
  | "i32" => some ⟨32, true⟩ | "u32" => some ⟨32, false⟩
  | "i64" => some ⟨64, true⟩ | "u64" => some ⟨64, false⟩
  | _ => none

def parsePat (l : List Int) : Pat := l.map (fun x => if x < 0 then none else some x.toNat)

def fmtE (r : Except Err String) : String :=
  match r with
  | .ok s => s
  | .error e => e.fmt

/-- the values handed to the extents constructor: all of them, or those of the dynamic positions -/
def ctorVals (pat : Pat) (vals : List Int) (all : Bool) : List Int :=
  if all then vals else ((pat.zip vals).filter (fun pv => isDyn pv.1)).map (·.2)

def natsOf (l : List Int) : List Nat := l.map Int.toNat
def intsOf (l : List Nat) : List Int := l.map Int.ofNat

def okIf (b : Bool) : String := if b then "ok" else "bad"

def fmtFields (ext : List Int) (r d : Nat) (req : String) (str offs : List Int) (size : String) (md mda : String) : String :=
  s!"ext={fmtList ext} rk={r}/{d} req={req} str={fmtList str} off={fmtList offs} size={size} md={md} mda={mda}"

def fmtB (b : Bool) : String := if b then "1" else "0"

def fmtObs (o : Obs) (fw : Bool) : String :=
  fmtB o.alwaysUnique ++ fmtB o.alwaysExhaustive ++ fmtB o.alwaysStrided ++ fmtB o.unique ++ fmtB o.exhaustive
    ++ fmtB o.strided ++ fmtB fw

/-- layout_left / layout_right on the model -/
def modelMap (l : Lay) (t : IdxT) (pat : Pat) (vals : List Int) (all : Bool) : Except Err String := do
  let e ← Ext.ofVals t pat (ctorVals pat vals all)
  let rank := pat.length
  let exts ← (List.range rank).mapM (e.extent t)
  let req ← reqSpan l t e
  let strs ← (List.range rank).mapM (stride l t e)
  let idxs := Spec.indices (natsOf exts)
  let offs ← idxs.mapM (fun i => mapIdx l t e (intsOf i))
  let buf := List.range req.toNat
  let md ← idxs.mapM (fun i => mdspanAt l t e buf (intsOf i))
  let mdS ← idxs.mapM (fun i => mdspanAtSpan l t e buf (intsOf i))      -- operator[](array) / operator[](span)
  let mda ← idxs.mapM (fun i => mdarrayAt l t e (intsOf i))
  let mdaV ← idxs.mapM (fun i => mdarrayToMdspanAt l t e (intsOf i))     -- to_mdspan()
  let csz ← mdarrayContainerSize l t e
  let size ← mdspanSize t e
  let emp ← mdspanEmpty t e
  let self ← Ext.eq t t e e                                             -- `ms.extents() == e`
  let mext ← (List.range rank).mapM ((mdspanExtents e).extent t)          -- `ms.extents()`
  let masz ← mdarraySize t e
  let maemp ← mdarrayEmpty t e
  pure (fmtFields exts rank (rankDynamic pat) (toString req) strs offs (toString size)
    (okIf (intsOf md == offs && mdS == md && emp == (req == 0) && self))
    (okIf (mda.all (fun p => p.1 == sz req) && intsOf (mda.map (·.2)) == offs && intsOf mdaV == offs && csz == sz req))
    ++ s!" mext={fmtList mext} masz={masz} emp={fmtB emp}{fmtB maemp} obs={fmtObs (contigObs l) true}")

def specMap (l : Lay) (pat : Pat) (vals : List Nat) : String :=
  let rank := vals.length
  let strs := (List.range rank).map (fun k => match l with | .left => Spec.strideLeft vals k | .right => Spec.strideRight vals k)
  let offs := (Spec.indices vals).map (fun i => match l with | .left => Spec.offLeft vals i | .right => Spec.offRight vals i)
  let z := fmtB (vals.contains 0)
  fmtFields (intsOf vals) rank (rankDynamic pat) (toString (Spec.prod vals)) (intsOf strs) (intsOf offs)
    (toString (Spec.prod vals)) "ok" "ok"
    ++ s!" mext={fmtNatList vals} masz={Spec.prod vals} emp={z}{z} obs=1111111"

/-- layout_stride on the model: offsets, strides, required_span_size, is_exhaustive, mdspan / mdarray access,
    operator== (against layout_left / layout_right mappings of the same extents, a strided mapping over
    `dextents<int64_t>` with the same strides and one with a different last stride) and the converting constructors -/
def modelStride (t : IdxT) (pat : Pat) (vals str : List Int) (all : Bool) : Except Err String := do
  let e ← Ext.ofVals t pat (ctorVals pat vals all)
  let rank := pat.length
  let exts ← (List.range rank).mapM (e.extent t)
  let m ← StrideMap.mk' t e str
  let strs ← (List.range rank).mapM m.stride
  let idxs := Spec.indices (natsOf exts)
  let offs ← idxs.mapM (fun i => m.mapIdx t (intsOf i))
  let req ← m.reqSpan t
  let buf := List.range req.toNat
  let md ← idxs.mapM (fun i => mdspanAtStride t m buf (intsOf i))
  let mda ← idxs.mapM (fun i => mdarrayAtStride t m (intsOf i))
  let size ← mdspanSize t e
  let exh ← m.isExhaustive t
  -- operator==
  let t2 : IdxT := ⟨64, true⟩
  let pat2 : Pat := List.replicate rank none
  let e2 ← Ext.ofVals t2 pat2 vals
  let m2 ← StrideMap.mk' t2 e2 str
  let str3 := (List.range rank).zipWith (fun k x => if k + 1 == rank then x + 1 else x) str
  let m3 ← StrideMap.mk' t2 e2 str3
  let eql ← m.eqMapping t t e (stride .left t e) (mapIdx .left t e)
  let eqr ← m.eqMapping t t e (stride .right t e) (mapIdx .right t e)
  let eq2 ← m.eqMapping t t2 e2 m2.stride (m2.mapIdx t2)
  let eq2' ← m2.eqMapping t2 t m.ext m.stride (m.mapIdx t)
  let eq3 ← m.eqMapping t t2 e2 m3.stride (m3.mapIdx t2)
  let eqs := fmtB eql ++ fmtB eqr ++ fmtB (eq2 && eq2') ++ (if rank == 0 then "-" else fmtB eq3)
  -- converting constructors
  let cl ← StrideMap.ofMapping t t pat e (stride .left t e)
  let cr ← StrideMap.ofMapping t t pat e (stride .right t e)
  let cs ← StrideMap.ofMapping t t2 pat e2 m2.stride
  let cls ← (List.range rank).mapM cl.stride
  let crs ← (List.range rank).mapM cr.stride
  let css ← (List.range rank).mapM cs.stride
  let ce ← (List.range rank).mapM (cs.ext.extent t)
  let cle ← Ext.eq t t cl.ext e
  let cre ← Ext.eq t t cr.ext e
  let bl ← if eql then do let b ← contigOfStride t t pat m; let q ← Ext.eq t t b e; pure (fmtB q) else pure "-"
  let br ← if eqr then do let b ← contigOfStride t t pat m; let q ← Ext.eq t t b e; pure (fmtB q) else pure "-"
  pure (fmtFields exts rank (rankDynamic pat) (toString req) strs offs (toString size) (okIf (intsOf md == offs))
      (okIf (mda.all (fun p => p.1 == sz req) && intsOf (mda.map (·.2)) == offs))
    ++ s!" exh={fmtB exh} eq={eqs} cl={fmtList cls} cr={fmtList crs} cs={fmtList css} ce={fmtList ce}"
    ++ (if cle && cre then "" else " conv-ext!") ++ s!" back={bl}{br}"
    ++ s!" mext={fmtList (← (List.range rank).mapM ((mdspanExtents m.ext).extent t))} emp={fmtB (← mdspanEmpty t e)}"
    ++ s!" obs={fmtObs (← m.obs t) true}")

def specStride (pat : Pat) (vals str : List Nat) : String :=
  let rank := vals.length
  let offs := (Spec.indices vals).map (fun i => Spec.offStride str i)
  let sl := (List.range rank).map (Spec.strideLeft vals)
  let sr := (List.range rank).map (Spec.strideRight vals)
  fmtFields (intsOf vals) rank (rankDynamic pat) (toString (Spec.reqSpanStride vals str)) (intsOf str) (intsOf offs)
      (toString (Spec.prod vals)) "ok" "ok"
    ++ s!" exh={fmtB (Spec.isExhaustiveStride vals str)} eq={fmtB (str == sl)}{fmtB (str == sr)}1{if rank == 0 then "-" else "0"}"
    ++ s!" cl={fmtNatList sl} cr={fmtNatList sr} cs={fmtNatList str} ce={fmtNatList vals}"
    ++ s!" back={if str == sl then "1" else "-"}{if str == sr then "1" else "-"}"
    ++ s!" mext={fmtNatList vals} emp={fmtB (vals.contains 0)} obs=1011{fmtB (Spec.isExhaustiveStride vals str)}11"

/-- layout_transpose: `pat`/`vals` describe the extents of the transposed view -/
def modelT (l : Lay) (t : IdxT) (pat : Pat) (vals : List Int) (all : Bool) : Except Err String := do
  let tp ← transposePat pat
  let tvals := vals.reverse
  let ne ← Ext.ofVals t tp (ctorVals tp tvals all)
  let m ← TMap.make t l ne
  let e := m.extents
  let exts ← (List.range 2).mapM (e.extent t)
  let req ← m.reqSpan t
  let strs ← (List.range 2).mapM (m.stride t)
  let idxs := Spec.indices (natsOf exts)
  let offs ← idxs.mapM (fun i => match i with
    | [a, b] => m.mapIdx t a b
    | _ => .error (.pre "arity"))
  let buf := List.range req.toNat
  let md ← idxs.mapM (fun i => match i with
    | [a, b] => mdspanAtT t m buf a b
    | _ => .error (.pre "arity"))
  let size ← mdspanSize t e
  let emp ← mdspanEmpty t e
  -- is_always_exhaustive() / is_exhaustive() forward to the nested layout_left / layout_right mapping: constant true
  let mext ← (List.range 2).mapM ((mdspanExtents e).extent t)
  pure (fmtFields exts 2 (rankDynamic pat) (toString req) strs offs (toString size)
    (okIf (intsOf md == offs && emp == (req == 0))) "-" ++ s!" exh={fmtB (m.obs.alwaysExhaustive && m.obs.exhaustive)}"
    ++ s!" mext={fmtList mext} obs={fmtObs m.obs true}")

/-- layout_transpose<layout_stride>: `pat`/`vals`/`str` describe the transposed VIEW; the nested mapping has the
    transposed extents and the two strides swapped -/
def modelTS (t : IdxT) (pat : Pat) (vals str : List Int) (all : Bool) : Except Err String := do
  let tp ← transposePat pat
  let ne ← Ext.ofVals t tp (ctorVals tp vals.reverse all)
  let nm ← StrideMap.mk' t ne str.reverse
  let m ← TSMap.make t nm
  let e := m.extents
  let exts ← (List.range 2).mapM (e.extent t)
  let req ← m.reqSpan t
  let strs ← (List.range 2).mapM (m.stride t)
  let idxs := Spec.indices (natsOf exts)
  let offs ← idxs.mapM (fun i => match i with
    | [a, b] => m.mapIdx t a b
    | _ => .error (.pre "arity"))
  let buf := List.range req.toNat
  let md ← idxs.mapM (fun i => match i with
    | [a, b] => mdspanAtTS t m buf a b
    | _ => .error (.pre "arity"))
  let size ← mdspanSize t e
  let emp ← mdspanEmpty t e
  let mext ← (List.range 2).mapM ((mdspanExtents e).extent t)
  let o ← m.obs t
  pure (fmtFields exts 2 (rankDynamic pat) (toString req) strs offs (toString size)
    (okIf (intsOf md == offs && emp == (size == 0))) "-" ++ s!" mext={fmtList mext} obs={fmtObs o true}")

def specTS (pat : Pat) (vals str : List Nat) : String :=
  let offs := (Spec.indices vals).map (fun i => Spec.offStride str i)
  fmtFields (intsOf vals) 2 (rankDynamic pat) (toString (Spec.reqSpanStride vals str)) (intsOf str) (intsOf offs)
      (toString (Spec.prod vals)) "ok" "-"
    ++ s!" mext={fmtNatList vals} obs=1011{fmtB (Spec.isExhaustiveStride vals str)}11"

def specT (l : Lay) (pat : Pat) (vals : List Nat) : String :=
  -- the transposed view of a row-major matrix is the column-major view of the same extents, and vice versa
  let vl : Lay := match l with | .left => .right | .right => .left
  let strs := (List.range 2).map (fun k => match vl with | .left => Spec.strideLeft vals k | .right => Spec.strideRight vals k)
  let offs := (Spec.indices vals).map (fun i => match vl with | .left => Spec.offLeft vals i | .right => Spec.offRight vals i)
  fmtFields (intsOf vals) 2 (rankDynamic pat) (toString (Spec.prod vals)) (intsOf strs) (intsOf offs) (toString (Spec.prod vals)) "ok" "-"
    ++ " exh=1" ++ s!" mext={fmtNatList vals} obs=1111111"

/-! ### mdarray constructors (`mda` lines): each constructed object is reported as len/sum/chk -/

def listSum (l : List Int) : Int := l.foldl (· + ·) 0

def chkOf (reads : List Int) : Int :=
  listSum ((List.range reads.length).zipWith (fun k x => ((k : Nat) + 1 : Int) * x) reads)

def rep (c : List Int) (reads : List Int) : String := s!"{c.length}/{listSum c}/{chkOf reads}"

def ARRN : Nat := 260

/-- the constructors on the model: `read c i` is `mdarray::operator()` on the container `c` -/
def modelMdaFields (ofMap : Ctr → Except Err (List Int)) (ofVal : Ctr → Int → Except Err (List Int))
    (read : List Int → List Int → Except Err Int) (idxs : List (List Int)) (want : Nat) (val : Int) (withExt : Bool) (rank : Nat) :
    Except Err String := do
  let one (name : String) (c : List Int) : Except Err String := do
    let reads ← idxs.mapM (read c)
    pure s!" {name}={rep c reads}"
  let cs : List Int := (List.range want).map (fun k => ((100 + k : Nat) : Int))
  let ca : List Int := (List.range ARRN).map (fun k => ((100 + k : Nat) : Int))
  let cm ← ofMap (.sized 256)
  let cmv ← ofVal (.sized 256) val
  let am ← ofMap (.arr ARRN)
  let amv ← ofVal (.arr ARRN) val
  let mut out := ""
  out := out ++ (← one "cm" cm) ++ (← one "cmv" cmv) ++ (← one "cmc" (mdarrayOfContainer cs)) ++ (← one "cmr" (mdarrayOfContainer cs))
  out := out ++ (← one "am" am) ++ (← one "amv" amv) ++ (← one "amc" (mdarrayOfContainer ca)) ++ (← one "amr" (mdarrayOfContainer ca))
  if withExt then
    -- `mdarray(extents ..)` forwards to `mdarray(mapping_type(ext) ..)`, `mdarray(exts...)` to `mdarray(extents)`
    out := out ++ (← one "ce" cm) ++ (← one "cev" cmv) ++ (← one "cec" (mdarrayOfContainer cs)) ++ (← one "cer" (mdarrayOfContainer cs))
    out := out ++ (← one "ae" am) ++ (← one "aev" amv) ++ (← one "aec" (mdarrayOfContainer ca))
    if rank > 0 then out := out ++ (← one "cp" cm)
  pure out

def specMdaFields (offs : List Nat) (want : Nat) (val : Int) (withExt : Bool) (rank : Nat) : String :=
  let one (name : String) (c : List Int) : String :=
    s!" {name}={rep c (offs.map (fun o => match c[o]? with | some x => x | none => -1))}"
  let cs : List Int := (List.range want).map (fun k => ((100 + k : Nat) : Int))
  let ca : List Int := (List.range ARRN).map (fun k => ((100 + k : Nat) : Int))
  let z (n : Nat) : List Int := List.replicate n 0
  let v (n : Nat) : List Int := List.replicate n val
  one "cm" (z want) ++ one "cmv" (v want) ++ one "cmc" cs ++ one "cmr" cs
    ++ one "am" (z ARRN) ++ one "amv" (v ARRN) ++ one "amc" ca ++ one "amr" ca
    ++ (if withExt then
          one "ce" (z want) ++ one "cev" (v want) ++ one "cec" cs ++ one "cer" cs
            ++ one "ae" (z ARRN) ++ one "aev" (v ARRN) ++ one "aec" ca ++ (if rank > 0 then one "cp" (z want) else "")
        else "")

/-! ### mdarray objects with different mappings (`ext2=` / `str2=` of an `mda` line): copy / move / assignment / swap -/

/-- what an mdarray object reports: extents, strides, and len/sum/chk of its elements over the in-range multi-indices -/
def descOf (exts strs : Except Err (List Int)) (ctr : List Int) (read : List Int → Except Err Int) : Except Err String := do
  let e ← exts
  let s ← strs
  let idxs := (Spec.indices (natsOf e)).map intsOf
  let reads ← idxs.mapM read
  pure s!"e={fmtList e}/s={fmtList s}/r={rep ctr reads}"

def descContig (l : Lay) (t : IdxT) (a : MdArr Ext) : Except Err String :=
  let rank := a.map.pat.length
  descOf ((List.range rank).mapM (a.map.extent t)) ((List.range rank).mapM (stride l t a.map)) a.ctr (a.read l t)

def descStride (t : IdxT) (a : MdArr StrideMap) : Except Err String :=
  let rank := a.map.ext.pat.length
  descOf ((List.range rank).mapM (a.map.ext.extent t)) ((List.range rank).mapM a.map.stride) a.ctr (a.readStride t)

/-- the containers of the two objects: element `k` is `500 + 3 k` resp. `100 + k` -/
def ctrA (n : Nat) : List Int := (List.range n).map (fun k => ((500 + 3 * k : Nat) : Int))
def ctrB (n : Nat) : List Int := (List.range n).map (fun k => ((100 + k : Nat) : Int))

/-- the object fields of an `mda` line on the model: `x = mdarray(m1, c1)`, `y = mdarray(m2, c2)`; swap(x, y); z(x); w(move(y));
    z = w; w = move(u) with u = mdarray(m2, c2); and swap of two objects with an `etl::array` container -/
def modelObjFields {M : Type} (desc : MdArr M → Except Err String) (m1 m2 : M) (want1 want2 : Nat) : Except Err String := do
  let c1 : List Int := ctrA want1
  let c2 : List Int := ctrB want2
  let x : MdArr M := { map := m1, ctr := c1 }
  let y : MdArr M := { map := m2, ctr := c2 }
  let (x, y) := MdArr.swap x y
  let sw := s!"{← desc x}|{← desc y}"
  let z := MdArr.copy x
  let cc ← desc z
  let w := MdArr.move y
  let mc ← desc w
  let z := MdArr.assign z w
  let ca ← desc z
  let u : MdArr M := { map := m2, ctr := c2 }
  let w := MdArr.assign w (MdArr.move u)
  let ma ← desc w
  let ax : MdArr M := { map := m1, ctr := ctrA ARRN }
  let ay : MdArr M := { map := m2, ctr := ctrB ARRN }
  let (ax, ay) := MdArr.swap ax ay
  pure s!" sw={sw} cc={cc} mc={mc} ca={ca} ma={ma} asw={← desc ax}|{← desc ay}"

/-- spec: object A has extents `v1`, strides `s1`, elements 500 + 3 k; object B extents `v2`, strides `s2`, elements 100 + k -/
def specObjFields (v1 s1 v2 s2 : List Nat) (off1 off2 : List Nat) (want1 want2 : Nat) : String :=
  let d (v st : List Nat) (c : List Int) (offs : List Nat) : String :=
    s!"e={fmtNatList v}/s={fmtNatList st}/r={rep c (offs.map (fun o => match c[o]? with | some x => x | none => -1))}"
  let A := d v1 s1 (ctrA want1) off1
  let B := d v2 s2 (ctrB want2) off2
  s!" sw={B}|{A} cc={B} mc={A} ca={A} ma={B} asw={d v2 s2 (ctrB ARRN) off2}|{d v1 s1 (ctrA ARRN) off1}"

/-- slice kinds of a `sub` line: F, I, P / T / A (run-time pairs), M<lo> (one static bound), C<lo>_<hi> (static pair) -/
def parseSlices (names : List String) (lo hi : List Int) : Option (List Slice) :=
  (List.range names.length).mapM (fun k =>
    match names[k]?, lo[k]?, hi[k]? with
    | some n, some a, some b =>
      if n == "F" then some Slice.full
      else if n == "I" then some Slice.idx
      else if n == "P" || n == "T" || n == "A" then some (Slice.pair a b false)
      else if n.startsWith "M" then some (Slice.pair a b false)
      else if n.startsWith "C" then some (Slice.pair a b true)
      else none
    | _, _, _ => none)

def fmtSpan (base : List Int) (s : Span) : Except Err String := do
  let el ← s.elems base
  let e : Int := match s.ext with | some n => n | none => -1
  pure s!"off={s.off} size={s.size} ext={e} el={fmtList el}"

def step (_ : Unit) (l : Line) : Unit × String :=
  let bad := ((), "bad-op\tbad-op")
  let out (m s : String) := ((), m ++ "\t" ++ s)
  match l.op with
  | "map" =>
    match l.str? "lay", (l.str? "it").bind parseIt, l.list? "pat", l.natList? "ext", l.str? "ctor" with
    | some lay, some t, some p, some vals, some ctor =>
      let pat := parsePat p
      let all := ctor == "all"
      if pat.length ≠ vals.length then bad else
      match lay with
      | "left" => out (fmtE (modelMap .left t pat (intsOf vals) all)) (specMap .left pat vals)
      | "right" => out (fmtE (modelMap .right t pat (intsOf vals) all)) (specMap .right pat vals)
      | "tleft" => if vals.length ≠ 2 then bad else out (fmtE (modelT .left t pat (intsOf vals) all)) (specT .left pat vals)
      | "tright" => if vals.length ≠ 2 then bad else out (fmtE (modelT .right t pat (intsOf vals) all)) (specT .right pat vals)
      | "stride" =>
        match l.natList? "str", l.natList? "perm" with
        | some str, some perm =>
          if !Spec.StrideOK vals str perm then out "pre(strides)" "pre(strides)" else
          out (fmtE (modelStride t pat (intsOf vals) (intsOf str) all)) (specStride pat vals str)
        | _, _ => bad
      | "tstride" =>
        match l.natList? "str", l.natList? "perm" with
        | some str, some perm =>
          if vals.length ≠ 2 then bad else
          if !Spec.StrideOK vals str perm then out "pre(strides)" "pre(strides)" else
          out (fmtE (modelTS t pat (intsOf vals) (intsOf str) all)) (specTS pat vals str)
        | _, _ => bad
      | _ => bad
    | _, _, _, _, _ => bad
  | "ext" =>
    match (l.str? "it").bind parseIt, l.list? "pat", l.natList? "ext", l.str? "ctor" with
    | some t, some p, some vals, some ctor =>
      let pat := parsePat p
      if pat.length ≠ vals.length then bad else
      let rank := pat.length
      let m : Except Err String := do
        let e ← Ext.ofVals t pat (ctorVals pat (intsOf vals) (ctor == "all"))
        let exts ← (List.range rank).mapM (e.extent t)
        let fwd ← (List.range (rank + 1)).mapM (e.fwdProd t)
        let rev ← (List.range rank).mapM (e.revProd t)
        let self ← Ext.eq t t e e
        let u64 : IdxT := ⟨64, false⟩
        let dyn : Pat := List.replicate rank none
        let s1 ← Ext.ofVals u64 dyn (intsOf vals)
        let s2 ← Ext.ofVals u64 dyn ((List.range rank).zipWith (fun k x => if k + 1 == rank then x + 1 else x) (intsOf vals))
        let s3 := Ext.default (List.replicate (rank + 1) none)
        let c1 ← Ext.eq t u64 e s1
        let c1' ← Ext.eq u64 t s1 e
        let c2 ← Ext.eq t u64 e s2
        let c2' ← Ext.eq u64 t s2 e
        let c3 ← Ext.eq t ⟨16, true⟩ e s3
        pure (s!"ext={fmtList exts} rk={rank}/{rankDynamic pat} se={fmtList p} fwd={fmtList fwd} rev={fmtList rev}"
          ++ s!" cmp={fmtB (c1 && c1')}{if rank == 0 then "-" else fmtB (c2 || c2')}{fmtB c3}"
          ++ (if self then "" else " copy!=self"))
      let sfwd := (List.range (rank + 1)).map (Spec.strideLeft vals)
      let srev := (List.range rank).map (Spec.strideRight vals)
      out (fmtE m) (s!"ext={fmtNatList vals} rk={rank}/{rankDynamic pat} se={fmtList p} fwd={fmtNatList sfwd} rev={fmtNatList srev}"
        ++ s!" cmp=1{if rank == 0 then "-" else "0"}0")
    | _, _, _, _ => bad
  | "sub" =>
    match (l.str? "it").bind parseIt, l.list? "pat", l.natList? "ext" with
    | some t, some p, some vals =>
      let pat := parsePat p
      -- slice kinds: `sl=F,I,P,..` with `lo=` / `hi=`, or the former `keep=[0|1 ..]` (1 = full_extent, 0 = index)
      let names : Option (List String) :=
        match l.str? "sl", l.natList? "keep" with
        | some sl, _ => some (if sl == "-" then [] else sl.splitOn ",")
        | none, some keepN => some (keepN.map (fun k => if k != 0 then "F" else "I"))
        | none, none => none
      match names with
      | none => bad
      | some names =>
      let zeros : List Int := List.replicate vals.length 0
      let lo := (l.list? "lo").getD zeros
      let hi := (l.list? "hi").getD zeros
      match parseSlices names lo hi with
      | none => bad
      | some sl =>
      if pat.length ≠ vals.length || sl.length ≠ vals.length then bad else
      -- precondition of [mdspan.sub.extents]: 0 <= lo <= hi <= extent for every pair slice
      let okPre := (List.range vals.length).all (fun k =>
        match sl[k]?, vals[k]? with
        | some (Slice.pair a b _), some x => decide (0 ≤ a) && decide (a ≤ b) && decide (b ≤ Int.ofNat x)
        | _, _ => true)
      if !okPre then out "pre(slices)" "pre(slices)" else
      let m : Except Err String := do
        let e ← Ext.ofVals t pat (intsOf vals)
        let r ← submdspanExtentsS t e sl
        let exts ← (List.range r.pat.length).mapM (r.extent t)
        let se : List Int := r.pat.map (fun o => match o with | some n => (n : Int) | none => -1)
        pure s!"ext={fmtList exts} rk={r.pat.length}/{rankDynamic r.pat} se={fmtList se}"
      -- spec: the kept dimensions, in order: extent and static extent of a full_extent dimension; hi - lo for a pair,
      -- static only for a pair of integral constants
      let rows : List (Option (Int × Int)) := (List.range vals.length).map (fun k =>
        match names[k]?, vals[k]?, p[k]?, lo[k]?, hi[k]? with
        | some n, some x, some q, some a, some b =>
          if n == "F" then some (Int.ofNat x, q)
          else if n == "I" then none
          else if n.startsWith "C" then some (b - a, b - a)
          else some (b - a, -1)
        | _, _, _, _, _ => none)
      let kept := rows.filterMap id
      let kv := kept.map (·.1)
      let kp := kept.map (·.2)
      out (fmtE m) s!"ext={fmtList kv} rk={kv.length}/{(kp.filter (· < 0)).length} se={fmtList kp}"
    | _, _, _ => bad
  | "conv" =>
    match (l.str? "it").bind parseIt, (l.str? "sit").bind parseIt, l.list? "pat", l.list? "spat", l.natList? "ext" with
    | some t, some ts, some p, some sp, some vals =>
      let pat := parsePat p
      let spat := parsePat sp
      let m : Except Err String := do
        let src ← Ext.ofVals ts spat (intsOf vals)
        let dst ← Ext.conv t ts pat src
        let exts ← (List.range pat.length).mapM (dst.extent t)
        let eq ← Ext.eq t ts dst src
        pure s!"ext={fmtList exts} rk={pat.length}/{rankDynamic pat} eq={fmtBool eq}"
      out (fmtE m) s!"ext={fmtNatList vals} rk={pat.length}/{rankDynamic pat} eq=1"
    | _, _, _, _, _ => bad
  | "stride_members" =>
    match (l.str? "it").bind parseIt, l.list? "pat", l.natList? "ext", l.natList? "str" with
    | some t, some p, some vals, some str =>
      let pat := parsePat p
      let m : Except Err String := do
        let e ← Ext.ofVals t pat (intsOf vals)
        let sm ← StrideMap.mk' t e (intsOf str)
        let req ← sm.reqSpan t
        let exh ← sm.isExhaustive t
        pure s!"req={req} exh={fmtBool exh}"
      out (fmtE m) s!"req={Spec.reqSpanStride vals str} exh={fmtBool (Spec.isExhaustiveStride vals str)}"
    | _, _, _, _ => bad
  | "mda" =>
    match l.str? "lay", (l.str? "it").bind parseIt, l.list? "pat", l.natList? "ext", l.int? "val" with
    | some lay, some t, some p, some vals, some val =>
      let pat := parsePat p
      if pat.length ≠ vals.length then bad else
      let rank := vals.length
      let idxs := (Spec.indices vals).map intsOf
      match lay with
      | "left" | "right" =>
        let ly : Lay := if lay == "left" then .left else .right
        let m : Except Err String := do
          let e ← Ext.ofVals t pat (intsOf vals)
          let req ← reqSpan ly t e
          let f ← modelMdaFields (mdarrayOfMapping ly t e) (mdarrayOfValue ly t e) (mdarrayRead ly t e) idxs req.toNat val true rank
          let g ← match l.natList? "ext2" with
            | none => pure ""
            | some vals2 => do
              let e2 ← Ext.ofVals t pat (intsOf vals2)
              let req2 ← reqSpan ly t e2
              modelObjFields (descContig ly t) e e2 req.toNat req2.toNat
          pure s!"req={req}{f} misc=ok{g}"
        let offOf (v : List Nat) := (Spec.indices v).map (fun i => match ly with | .left => Spec.offLeft v i | .right => Spec.offRight v i)
        let strOf (v : List Nat) := (List.range v.length).map (fun k => match ly with | .left => Spec.strideLeft v k | .right => Spec.strideRight v k)
        let offs := offOf vals
        let g := match l.natList? "ext2" with
          | none => ""
          | some vals2 => specObjFields vals (strOf vals) vals2 (strOf vals2) offs (offOf vals2) (Spec.prod vals) (Spec.prod vals2)
        out (fmtE m) s!"req={Spec.prod vals}{specMdaFields offs (Spec.prod vals) val true rank} misc=ok{g}"
      | "stride" =>
        match l.natList? "str", l.natList? "perm" with
        | some str, some perm =>
          if !Spec.StrideOK vals str perm then out "pre(strides)" "pre(strides)" else
          let second := match l.natList? "ext2", l.natList? "str2", l.natList? "perm2" with
            | some v2, some s2, some p2 => some (v2, s2, p2)
            | _, _, _ => none
          if (match second with | some (v2, s2, p2) => !Spec.StrideOK v2 s2 p2 || v2.length != rank | none => false) then
            out "pre(strides)" "pre(strides)" else
          let m : Except Err String := do
            let e ← Ext.ofVals t pat (intsOf vals)
            let sm ← StrideMap.mk' t e (intsOf str)
            let req ← sm.reqSpan t
            let f ← modelMdaFields (mdarrayOfMappingStride t sm) (mdarrayOfValueStride t sm) (mdarrayReadStride t sm) idxs req.toNat val false rank
            let g ← match second with
              | none => pure ""
              | some (v2, s2, _) => do
                let e2 ← Ext.ofVals t pat (intsOf v2)
                let sm2 ← StrideMap.mk' t e2 (intsOf s2)
                let req2 ← sm2.reqSpan t
                modelObjFields (descStride t) sm sm2 req.toNat req2.toNat
            pure s!"req={req}{f} misc=ok{g}"
          let offs := (Spec.indices vals).map (fun i => Spec.offStride str i)
          let g := match second with
            | none => ""
            | some (v2, s2, _) =>
              specObjFields vals str v2 s2 offs ((Spec.indices v2).map (fun i => Spec.offStride s2 i)) (Spec.reqSpanStride vals str)
                (Spec.reqSpanStride v2 s2)
          out (fmtE m) s!"req={Spec.reqSpanStride vals str}{specMdaFields offs (Spec.reqSpanStride vals str) val false rank} misc=ok{g}"
        | _, _ => bad
      | _ => bad
    | _, _, _, _, _ => bad
  | "dflt" =>
    match (l.str? "it").bind parseIt, l.list? "pat", l.natList? "ext" with
    | some t, some p, some vals =>
      let pat := parsePat p
      if pat.length ≠ vals.length then bad else
      let rank := pat.length
      let idxs := (Spec.indices vals).map intsOf
      let one (exts strs : Except Err (List Int)) (req : Except Err Int) (at' : List Int → Except Err Int) : Except Err String := do
        pure s!"e={fmtList (← exts)}/s={fmtList (← strs)}/req={← req}/off={fmtList (← idxs.mapM at')}"
      let m : Except Err String := do
        let e := contigDefault pat
        let cl ← one ((List.range rank).mapM (e.extent t)) ((List.range rank).mapM (stride .left t e)) (reqSpan .left t e) (mapIdx .left t e)
        let cr ← one ((List.range rank).mapM (e.extent t)) ((List.range rank).mapM (stride .right t e)) (reqSpan .right t e) (mapIdx .right t e)
        let sm ← StrideMap.default t pat
        let cs ← one ((List.range rank).mapM (sm.ext.extent t)) ((List.range rank).mapM sm.stride) (sm.reqSpan t) (sm.mapIdx t)
        let exh ← sm.isExhaustive t
        let eqr ← sm.eqMapping t t e (stride .right t e) (mapIdx .right t e)
        let eql ← sm.eqMapping t t e (stride .left t e) (mapIdx .left t e)
        pure s!"left:{cl} right:{cr} stride:{cs} exh={fmtB exh} eq={fmtB eqr}{fmtB eql} obj=ok"
      let sl := (List.range rank).map (Spec.strideLeft vals)
      let sr := (List.range rank).map (Spec.strideRight vals)
      let sp (left : Bool) : String :=
        let offs := (Spec.indices vals).map (fun i => if left then Spec.offLeft vals i else Spec.offRight vals i)
        s!"e={fmtNatList vals}/s={fmtNatList (if left then sl else sr)}/req={Spec.prod vals}/off={fmtNatList offs}"
      out (fmtE m) s!"left:{sp true} right:{sp false} stride:{sp false} exh=1 eq=1{fmtB (sl == sr)} obj=ok"
    | _, _, _ => bad
  | "seq" =>
    match (l.str? "it").bind parseIt, l.list? "pat", (l.str? "oit").bind parseIt, l.list? "opat", l.str? "olay" with
    | some t, some p, some ts, some op, some olay =>
      match l.natList? "ext", l.natList? "oext", l.natList? "str" with
      | some vals, some ovals, some str =>
        let pat := parsePat p
        let opat := parsePat op
        let rank := pat.length
        if opat.length ≠ rank || vals.length ≠ rank || ovals.length ≠ rank || str.length ≠ rank then bad else
        let ostr? : Option (List Nat) :=
          match olay with
          | "stride" => l.natList? "ostr"
          | "left" => some ((List.range rank).map (Spec.strideLeft ovals))
          | "right" => some ((List.range rank).map (Spec.strideRight ovals))
          | _ => none
        match ostr? with
        | none => bad
        | some ostr =>
        if ostr.length ≠ rank then bad else
        let m : Except Err String := do
          let e ← Ext.ofVals t pat (intsOf vals)
          let sm ← StrideMap.mk' t e (intsOf str)
          let oe ← Ext.ofVals ts opat (intsOf ovals)
          match olay with
          | "stride" => do
            let o ← StrideMap.mk' ts oe (intsOf ostr)
            let f ← sm.eqMapping t ts oe o.stride (o.mapIdx ts)
            let b ← o.eqMapping ts t e sm.stride (sm.mapIdx t)
            pure s!"eq={fmtB f}{fmtB b}{fmtB f}"
          | _ => do
            -- `o == m` with a layout_left / layout_right mapping `o` is the rewritten candidate `m == o` (C++20)
            let ly : Lay := if olay == "left" then .left else .right
            let f ← sm.eqMapping t ts oe (stride ly ts oe) (mapIdx ly ts oe)
            pure s!"eq={fmtB f}{fmtB f}{fmtB f}"
        -- [mdspan.layout.stride.obs]: extents equal and strides equal, as integers
        let w := fmtB (vals == ovals && str == ostr)
        out (fmtE m) s!"eq={w}{w}{w}"
      | _, _, _ => bad
    | _, _, _, _, _ => bad
  | "msz" =>
    match (l.str? "it").bind parseIt, l.list? "pat", l.natList? "ext" with
    | some t, some p, some vals =>
      let pat := parsePat p
      if pat.length ≠ vals.length then bad else
      let m : Except Err String := do
        let e ← Ext.ofVals t pat (intsOf vals)
        let exts ← (List.range vals.length).mapM ((mdspanExtents e).extent t)
        let size ← mdspanSize t e
        let emp ← mdspanEmpty t e
        pure s!"ext={fmtList exts} size={size} emp={fmtB emp}"
      out (fmtE m) s!"ext={fmtNatList vals} size={Spec.prod vals} emp={fmtB (vals.contains 0)}"
    | _, _, _ => bad
  | "span" =>
    match l.nat? "n", l.int? "se", l.str? "op", l.nat? "ct", l.nat? "off", l.int? "cnt" with
    | some n, some se, some op, some ct, some off, some cnt =>
      let base : List Int := (List.range n).map (fun k => (10 + k : Nat))
      let ext : Option Nat := if se < 0 then none else some se.toNat
      let s0 := Span.make 0 n ext
      let cntO : Option Nat := if cnt < 0 then none else some cnt.toNat
      let c := cnt.toNat
      let m : Except Err Span :=
        match op, ct with
        | "first", 1 => s0.firstT c
        | "first", _ => s0.first c
        | "last", 1 => s0.lastT c
        | "last", _ => s0.last c
        | "subspan", 1 => s0.subspanT off cntO
        | "subspan", _ => s0.subspan off cntO
        | _, _ => .error (.pre "op")
      -- spec: the elements are (base.drop o).take k, at offset o, with the standard's static extent
      let (o, k) : Nat × Nat :=
        match op with
        | "first" => (0, c)
        | "last" => (n - c, c)
        | _ => (off, match cntO with | some x => x | none => n - off)
      let sext : Int :=
        if ct == 0 then -1
        else match op with
          | "subspan" => (match cntO with
              | some x => (x : Int)
              | none => if se < 0 then -1 else se - off)
          | _ => c
      out (fmtE (m >>= fmtSpan base)) s!"off={o} size={k} ext={sext} el={fmtList (Spec.subspan base o k)}"
    | _, _, _, _, _, _ => bad
  | _ => bad

end Tetl.C19.Driver

def main : IO Unit := Tetl.Proto.runDriver () Tetl.C19.Driver.step
