/- placeholder: the C19 driver is not built yet -/
def main : IO Unit := IO.println "C19: driver not built yet"
