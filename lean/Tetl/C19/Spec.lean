/-
C19 spec: what the standard prescribes, as mixed-radix numerals (no strides, no loops over index
arithmetic).  [mdspan.layout.left], [mdspan.layout.right], [mdspan.layout.stride], [span.sub].
Core Lean only.
-/
namespace Tetl.C19.Spec

/-- size of the multidimensional index space -/
def prod : List Nat → Nat
  | [] => 1
  | e :: es => e * prod es

/-- a multi-index is in range -/
def InRange : List Nat → List Nat → Prop
  | [], [] => True
  | e :: es, i :: is => i < e ∧ InRange es is
  | _, _ => False

instance : (e i : List Nat) → Decidable (InRange e i)
  | [], [] => isTrue trivial
  | e :: es, i :: is =>
    have := instDecidableInRange es is
    if h : i < e ∧ InRange es is then isTrue h else isFalse h
  | [], _ :: _ => isFalse (fun h => h)
  | _ :: _, [] => isFalse (fun h => h)

/-- column-major (layout_left): the first index is the least significant digit -/
def offLeft : List Nat → List Nat → Nat
  | e :: es, i :: is => i + e * offLeft es is
  | _, _ => 0

/-- row-major (layout_right): Horner from the most significant digit -/
def offRightAux : Nat → List Nat → List Nat → Nat
  | acc, e :: es, i :: is => offRightAux (acc * e + i) es is
  | acc, _, _ => acc

def offRight (e i : List Nat) : Nat := offRightAux 0 e i

/-- strides of the two contiguous layouts -/
def strideLeft (e : List Nat) (k : Nat) : Nat := prod (e.take k)
def strideRight (e : List Nat) (k : Nat) : Nat := prod (e.drop (k + 1))

/-- strided layout: offset = Σ i_k * s_k -/
def offStride : List Nat → List Nat → Nat
  | s :: ss, i :: is => i * s + offStride ss is
  | _, _ => 0

/-- `required_span_size` of a strided mapping: 0 if the index space is empty, else 1 + the largest offset -/
def maxOffStride : List Nat → List Nat → Nat
  | e :: es, s :: ss => (e - 1) * s + maxOffStride es ss
  | _, _ => 0

def reqSpanStride (e s : List Nat) : Nat := if prod e = 0 then 0 else 1 + maxOffStride e s

/-- all in-range multi-indices, lexicographic order -/
def indices : List Nat → List (List Nat)
  | [] => [[]]
  | e :: es => (List.range e).flatMap (fun i => (indices es).map (i :: ·))

/-- the standard's uniqueness precondition for explicit strides, for a list of (extent, stride) pairs
    given in order of decreasing stride: every stride is at least the span of the dimensions below it -/
def topBound : List (Nat × Nat) → Nat
  | [] => 1
  | (e, s) :: _ => s * e

def Desc : List (Nat × Nat) → Prop
  | [] => True
  | (_, s) :: r => topBound r ≤ s ∧ Desc r

instance : (l : List (Nat × Nat)) → Decidable (Desc l)
  | [] => isTrue trivial
  | (_, s) :: r =>
    have := instDecidableDesc r
    if h : topBound r ≤ s ∧ Desc r then isTrue h else isFalse h

/-- the (extent, stride) pairs in the order given by `perm` (checked lookups) -/
def permPairs (e s perm : List Nat) : Option (List (Nat × Nat)) :=
  perm.mapM (fun k => match e[k]?, s[k]? with
    | some a, some b => some (a, b)
    | _, _ => none)

/-- `perm` lists the dimensions by decreasing stride and witnesses the precondition -/
def StrideOK (e s perm : List Nat) : Bool :=
  decide (s.length = e.length) && decide (perm.length = e.length)
    && (List.range e.length).all (fun k => perm.contains k)
    && (match permPairs e s perm with
        | some l => decide (Desc l)
        | none => false)

/-- exhaustive strided mapping: the offsets fill `[0, prod e)` -/
def isExhaustiveStride (e s : List Nat) : Bool := reqSpanStride e s == prod e

/-- elements of `subspan(off, cnt)` / `first` / `last` -/
def subspan {α : Type} (l : List α) (off cnt : Nat) : List α := (l.drop off).take cnt

end Tetl.C19.Spec
