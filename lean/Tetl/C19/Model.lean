/-
C19 model: `etl::extents`, `layout_left/right/stride::mapping`, `linalg::layout_transpose`,
`mdspan`/`mdarray` element access and `span::first/last/subspan`, mirrored clause by clause
from include/etl/_mdspan/*.hpp, _linalg/layout_transpose.hpp, _mdarray/mdarray.hpp, _span/span.hpp
(after the `fix:` commits of branches fix-c19, fix-c19b and fix-c19x).

Conventions
* a static-extents pattern is `List (Option Nat)` (`none` = `dynamic_extent`);
* every value of `index_type` is an `Int`; `IdxT.wrap` is `static_cast<index_type>` (modular);
  `sz` is `static_cast<size_t>` / `size_t` arithmetic (mod 2^64);
* arithmetic inside `operator()` is exact: for index types narrower than `int` the C++ operands are
  promoted, for unsigned 32/64-bit types the final cast makes the wrap of the exact sum equal to the
  wrapped computation, and signed overflow of `int`/`long` is undefined behaviour (UBSan reports it,
  the model does not describe it);
* every array access goes through `rd` / `wr`, so "never `.error .oob`" is the memory-safety statement.
Core Lean only (linked into the driver).
-/
import Tetl.Common
namespace Tetl.C19
open Tetl

/-- checked write into an array -/
def wr {α : Type} (l : List α) (i : Nat) (x : α) : Except Err (List α) :=
  if i < l.length then .ok (l.set i x) else .error .oob

/-! ## index types -/

structure IdxT where
  bits : Nat
  signed : Bool
  deriving Repr, DecidableEq

/-- `numeric_limits<index_type>::max()` -/
def IdxT.maxV (t : IdxT) : Nat := if t.signed then 2 ^ (t.bits - 1) - 1 else 2 ^ t.bits - 1

/-- `static_cast<index_type>(x)` -/
def IdxT.wrap (t : IdxT) (x : Int) : Int :=
  if t.signed then (x + 2 ^ (t.bits - 1)) % 2 ^ t.bits - 2 ^ (t.bits - 1) else x % 2 ^ t.bits

/-- `make_unsigned_t<index_type>` (`size_type`) -/
def IdxT.toUnsigned (t : IdxT) : IdxT := { bits := t.bits, signed := false }

/-- `static_cast<size_t>(x)` -/
def sz (x : Int) : Int := x % 2 ^ 64

/-! ## extents -/

abbrev Pat := List (Option Nat)

/-- `dynamic_extent` as a `size_t` value -/
def staticVal : Option Nat → Int
  | some n => n
  | none => 2 ^ 64 - 1

/-- an `extents<IndexType, Extents...>` object: the pattern is the type, `dyn` the `_extents` array -/
structure Ext where
  pat : Pat
  dyn : List Int
  deriving Repr, BEq, DecidableEq

def isDyn (o : Option Nat) : Bool := o.isNone

/-- `_rank_dynamic = ((Extents == dynamic_extent) + ... + 0)` -/
def rankDynamic (p : Pat) : Nat := (p.filter isDyn).length

/-- `_dynamic_index(i)`: number of dynamic extents among the positions `< i` -/
def dynamicIndex (p : Pat) (i : Nat) : Nat := ((p.take i).filter isDyn).length

/-- `extents::extent(i)` (three `if constexpr` branches) -/
def Ext.extent (t : IdxT) (e : Ext) (i : Nat) : Except Err Int :=
  if rankDynamic e.pat = 0 then do
    let se ← rd e.pat i                       -- `_static_extents[i]`
    pure (t.wrap (staticVal se))
  else if rankDynamic e.pat = e.pat.length then
    rd e.dyn i
  else do
    let se ← rd e.pat i
    match se with
    | some n => pure (t.wrap n)
    | none => rd e.dyn (dynamicIndex e.pat i)

/-- `extents()` : value-initialised `_extents` -/
def Ext.default (p : Pat) : Ext := { pat := p, dyn := List.replicate (rankDynamic p) 0 }

/-- the loop shared by the `N == rank()` constructor and the converting constructor:
    `for (i = 0; i < rank(); ++i) if (static_extent(i) == dynamic_extent) _extents[_dynamic_index(i)] = cast(get(i))` -/
def fillDynLoop (t : IdxT) (p : Pat) (get : Nat → Except Err Int) : List Nat → List Int → Except Err (List Int)
  | [], d => .ok d
  | i :: is, d => do
    let se ← rd p i                           -- `static_extent(i)` of the object under construction
    if isDyn se then
      let v ← get i
      let d' ← wr d (dynamicIndex p i) (t.wrap v)
      fillDynLoop t p get is d'
    else fillDynLoop t p get is d

/-- the loop of the `N == rank()` branch: keep the values `ext[i]` at the dynamic positions -/
def pickDynLoop (t : IdxT) (p : Pat) (vals : List Int) : List Nat → List Int → Except Err (List Int) :=
  fillDynLoop t p (fun i => rd vals i)

/-- `extents(span<Other,N>)`, reached also from `extents(array)` and `extents(Integrals...)`.
    `N` must be `rank_dynamic()` or `rank()` (a `requires` clause: other lengths do not compile). -/
def Ext.ofVals (t : IdxT) (p : Pat) (vals : List Int) : Except Err Ext :=
  if vals.length ≠ rankDynamic p ∧ vals.length ≠ p.length then .error (.pre "N")
  else if rankDynamic p = 0 then .ok (Ext.default p)
  else if vals.length = rankDynamic p then
    .ok { pat := p, dyn := vals.map t.wrap }  -- `transform(ext.begin(), ext.end(), _extents.begin(), cast)`
  else do
    let d ← pickDynLoop t p vals (List.range p.length) (List.replicate (rankDynamic p) 0)
    pure { pat := p, dyn := d }

/-- loop of the converting constructor: the value is `e.extent(i)` of the source -/
def convLoop (t ts : IdxT) (p : Pat) (src : Ext) : List Nat → List Int → Except Err (List Int) :=
  fillDynLoop t p (fun i => src.extent ts i)

/-- `extents(extents<OtherIndexType, OtherExtents...> const&)`; the `requires` clause demands equal rank
    and pairwise compatible static extents -/
def Ext.conv (t ts : IdxT) (p : Pat) (src : Ext) : Except Err Ext :=
  if p.length ≠ src.pat.length then .error (.pre "rank")
  else if rankDynamic p = 0 then .ok (Ext.default p)
  else do
    let d ← convLoop t ts p src (List.range p.length) (List.replicate (rankDynamic p) 0)
    pure { pat := p, dyn := d }

/-- loop of `extents::operator==`: `if (cmp_not_equal(lhs.extent(i), rhs.extent(i))) return false`
    (`cmp_not_equal` compares the mathematical values of the two index types) -/
def extEqLoop (t1 t2 : IdxT) (a b : Ext) : List Nat → Except Err Bool
  | [] => .ok true
  | i :: is => do
    let x ← a.extent t1 i
    let y ← b.extent t2 i
    if x ≠ y then pure false else extEqLoop t1 t2 a b is

/-- `operator==(extents const&, extents<OtherIndexType, OtherExtents...> const&)` -/
def Ext.eq (t1 t2 : IdxT) (a b : Ext) : Except Err Bool :=
  if a.pat.length ≠ b.pat.length then .ok false else extEqLoop t1 t2 a b (List.range a.pat.length)

/-! ## submdspan_extents -/

/-- a slice specifier of `submdspan_extents` -/
inductive Slice where
  /-- `full_extent`: the dimension is kept with its static extent -/
  | full
  /-- an index (anything convertible to `size_t`): the dimension is dropped -/
  | idx
  /-- an index pair `[lo, hi)` (`etl::pair`, `etl::tuple`, `etl::array<_, 2>`); `static`: both members are integral
      constants (`integral_constant_like`) -/
  | pair (lo hi : Int) (static : Bool)
  deriving Repr, DecidableEq

/-- `detail::submdspan_static_extent<K, Extents, Sk>()` for an index pair (after the fixes of branch fix-c19x: return type
    `size_t` in every branch, no dependence on the static extent of the sliced dimension): `last - first` when both are
    integral constants, else `dynamic_extent`.  For `full_extent` it is `Extents::static_extent(k)`.  `strided_slice` is a
    `static_assert` in `submdspan_extents_builder::next` (not provided by the library). -/
def pairStaticExtent (lo hi : Int) (static : Bool) : Option Nat :=
  if static then some (sz (hi - lo)).toNat else none        -- `static_cast<size_t>(de_ice(second) - de_ice(first))`

/-- `detail::submdspan_extents_builder::next`: `full_extent` appends `Extents::static_extent(k)` and the value
    `ext.extent(k)`; an index drops the dimension; an index pair appends `pairStaticExtent` and the value
    `static_cast<index_type>(static_cast<index_type>(get<1>(slice)) - static_cast<index_type>(get<0>(slice)))`
    (fix of branch fix-c19x: before it no value was appended).  Static extents are appended in order (fix of branch
    fix-c19b). -/
def subLoop (t : IdxT) (e : Ext) : List Nat → List Slice → Pat → List Int → Except Err (Pat × List Int)
  | k :: ks, .full :: rest, p, v => do
    let se ← rd e.pat k
    let x ← e.extent t k
    subLoop t e ks rest (p ++ [se]) (v ++ [x])
  | _ :: ks, .idx :: rest, p, v => subLoop t e ks rest p v
  | _ :: ks, .pair lo hi st :: rest, p, v =>
    subLoop t e ks rest (p ++ [pairStaticExtent lo hi st]) (v ++ [t.wrap (t.wrap hi - t.wrap lo)])
  | _, _, p, v => .ok (p, v)

/-- `submdspan_extents(ext, slices...)`: `extents<IndexType, NewStaticExtents...>(newExts...)` with one value per kept
    dimension (the `N == rank()` constructor); `sizeof...(slices) == rank()` is a `requires` clause -/
def submdspanExtentsS (t : IdxT) (e : Ext) (sl : List Slice) : Except Err Ext :=
  if sl.length ≠ e.pat.length then .error (.pre "arity")
  else do
    let (p, v) ← subLoop t e (List.range e.pat.length) sl [] []
    Ext.ofVals t p v

/-- `full_extent` (`true`) / index (`false`) slices only -/
def Slice.ofKeep (b : Bool) : Slice := if b then .full else .idx

/-- `submdspan_extents` with `full_extent` / index slices only (`keep`: `true` = `full_extent`) -/
def submdspanExtents (t : IdxT) (e : Ext) (keep : List Bool) : Except Err Ext :=
  submdspanExtentsS t e (keep.map Slice.ofKeep)

/-- the product loops: `result *= static_cast<size_t>(extent(e))` for `e` in the given list -/
def prodLoop (t : IdxT) (e : Ext) : List Nat → Int → Except Err Int
  | [], acc => .ok acc
  | k :: ks, acc => do
    let x ← e.extent t k
    prodLoop t e ks (sz (acc * sz x))

/-- `fwd_prod_of_extents(i)` -/
def Ext.fwdProd (t : IdxT) (e : Ext) (i : Nat) : Except Err Int :=
  if e.pat.length = 0 then .ok 1 else prodLoop t e (List.range i) 1

/-- `rev_prod_of_extents(i)`: `for (e = i + 1; e < rank(); ++e)` -/
def Ext.revProd (t : IdxT) (e : Ext) (i : Nat) : Except Err Int :=
  prodLoop t e (List.range' (i + 1) (e.pat.length - (i + 1))) 1

/-! ## layout mappings -/

inductive Lay where
  | left | right
  deriving Repr, DecidableEq

/-- `layout_left::mapping::stride(r)` / `layout_right::mapping::stride(r)`
    (`TETL_PRECONDITION(r < rank())`) -/
def stride (l : Lay) (t : IdxT) (e : Ext) (r : Nat) : Except Err Int :=
  if r < e.pat.length then
    match l with
    | .left => do let p ← e.fwdProd t r; pure (t.wrap p)
    | .right => do let p ← e.revProd t r; pure (t.wrap p)
  else .error (.pre "stride")

/-- `required_span_size()`: both layouts use `fwd_prod_of_extents(rank())` -/
def reqSpan (_ : Lay) (t : IdxT) (e : Ext) : Except Err Int := do
  let p ← e.fwdProd t e.pat.length
  pure (t.wrap p)

/-- the fold `((static_cast<index_type>(indices) * stride(Is)) + ... + 0)` -/
def sumLoop (str : Nat → Except Err Int) (t : IdxT) : Nat → List Int → Except Err Int
  | _, [] => .ok 0
  | k, i :: is => do
    let s ← str k
    let rest ← sumLoop str t (k + 1) is
    pure (t.wrap i * s + rest)

/-- `mapping::operator()(indices...)`; `sizeof...(Indices) == rank()` is a `requires` clause -/
def mapIdx (l : Lay) (t : IdxT) (e : Ext) (idx : List Int) : Except Err Int :=
  if idx.length ≠ e.pat.length then .error (.pre "arity")
  else do
    let s ← sumLoop (stride l t e) t 0 idx
    pure (t.wrap s)

/-- `layout_stride::mapping`: extents plus the `_strides` array -/
structure StrideMap where
  ext : Ext
  strides : List Int
  deriving Repr

/-- `mapping(extents, span<Other, rank>)`: every stride is cast to `index_type` -/
def StrideMap.mk' (t : IdxT) (e : Ext) (s : List Int) : Except Err StrideMap :=
  if s.length ≠ e.pat.length then .error (.pre "rank") else .ok { ext := e, strides := s.map t.wrap }

/-- `layout_stride::mapping::stride(i)` -/
def StrideMap.stride (m : StrideMap) (i : Nat) : Except Err Int :=
  if i < m.ext.pat.length then rd m.strides i else .error (.pre "stride")

/-- `layout_stride::mapping::operator()` -/
def StrideMap.mapIdx (t : IdxT) (m : StrideMap) (idx : List Int) : Except Err Int :=
  if idx.length ≠ m.ext.pat.length then .error (.pre "arity")
  else do
    let s ← sumLoop (fun k => rd m.strides k) t 0 idx
    pure (t.wrap s)

/-- first loop of `layout_stride::mapping::required_span_size()`: `if (extent(r) == 0) return 0` -/
def anyZeroLoop (t : IdxT) (e : Ext) : List Nat → Except Err Bool
  | [] => .ok false
  | r :: rs => do
    let x ← e.extent t r
    if x = 0 then pure true else anyZeroLoop t e rs

/-- second loop: `size = static_cast<index_type>(size + (extent(r) - 1) * _strides[r])` -/
def reqStrideLoop (t : IdxT) (m : StrideMap) : List Nat → Int → Except Err Int
  | [], size => .ok size
  | r :: rs, size => do
    let x ← m.ext.extent t r
    let s ← rd m.strides r
    reqStrideLoop t m rs (t.wrap (size + (x - 1) * s))

/-- `layout_stride::mapping::required_span_size()` -/
def StrideMap.reqSpan (t : IdxT) (m : StrideMap) : Except Err Int := do
  let z ← anyZeroLoop t m.ext (List.range m.ext.pat.length)
  if z then pure 0 else reqStrideLoop t m (List.range m.ext.pat.length) 1

/-- `layout_stride::mapping::is_exhaustive()`:
    `static_cast<size_t>(required_span_size()) == extents().fwd_prod_of_extents(rank)` -/
def StrideMap.isExhaustive (t : IdxT) (m : StrideMap) : Except Err Bool := do
  let r ← m.reqSpan t
  let p ← m.ext.fwdProd t m.ext.pat.length
  pure (sz r == p)

/-- `strides_of(other)`: `result[r] = static_cast<index_type>(other.stride(r))` into a value-initialised array -/
def stridesOfLoop (t : IdxT) (get : Nat → Except Err Int) : List Nat → List Int → Except Err (List Int)
  | [], acc => .ok acc
  | r :: rs, acc => do
    let s ← get r
    let acc' ← wr acc r (t.wrap s)
    stridesOfLoop t get rs acc'

/-- `layout_stride::mapping(StridedLayoutMapping const& other)`: extents converted by the converting constructor of
    `extents`, every `other.stride(r)` cast to `index_type`.  `ts` is the index type of the source. -/
def StrideMap.ofMapping (t ts : IdxT) (p : Pat) (srcExt : Ext) (srcStride : Nat → Except Err Int) : Except Err StrideMap := do
  let e ← Ext.conv t ts p srcExt
  let strs ← stridesOfLoop t srcStride (List.range p.length) (List.replicate p.length 0)
  pure { ext := e, strides := strs }

/-- `layout_left/right::mapping(layout_stride::mapping<OtherExtents> const& other)`: `_extents{other.extents()}` -/
def contigOfStride (t ts : IdxT) (p : Pat) (src : StrideMap) : Except Err Ext := Ext.conv t ts p src.ext

/-- `OFFSET(other)` of [mdspan.layout.stride.expo] as `offset_of` computes it -/
def offsetOf (ts : IdxT) (oExt : Ext) (oMap : List Int → Except Err Int) (rank : Nat) : Except Err Int :=
  if rank = 0 then do
    let o ← oMap []
    pure (sz o)
  else do
    let p ← oExt.fwdProd ts rank
    if p = 0 then pure 0
    else do
      let o ← oMap (List.replicate rank 0)
      pure (sz o)

/-- third part of `operator==`: `if (cmp_not_equal(lhs.stride(r), rhs.stride(r))) return false` -/
def strideEqLoop (m : StrideMap) (oStride : Nat → Except Err Int) : List Nat → Except Err Bool
  | [] => .ok true
  | r :: rs => do
    let a ← m.stride r
    let b ← oStride r
    if a ≠ b then pure false else strideEqLoop m oStride rs

/-- `operator==(layout_stride::mapping const& lhs, OtherMapping const& rhs)`; equal rank is a `requires` clause.
    The other mapping is given by its extents, `stride(r)` and `operator()`. -/
def StrideMap.eqMapping (t ts : IdxT) (m : StrideMap) (oExt : Ext) (oStride : Nat → Except Err Int)
    (oMap : List Int → Except Err Int) : Except Err Bool :=
  if oExt.pat.length ≠ m.ext.pat.length then .error (.pre "rank")
  else do
    let eq ← Ext.eq t ts m.ext oExt
    if !eq then pure false
    else do
      let off ← offsetOf ts oExt oMap m.ext.pat.length
      if off ≠ 0 then pure false
      else strideEqLoop m oStride (List.range m.ext.pat.length)

/-! ## layout_transpose (rank 2) -/

/-- `transpose_extents_t<Extents>` -/
def transposePat (p : Pat) : Except Err Pat := do
  let a ← rd p 0
  let b ← rd p 1
  pure [b, a]

/-- `detail::transpose_extents(e)` (four `if constexpr` branches) -/
def transposeExt (t : IdxT) (e : Ext) : Except Err Ext :=
  if e.pat.length ≠ 2 then .error (.pre "rank2")
  else do
    let a ← rd e.pat 0
    let b ← rd e.pat 1
    let tp := [b, a]
    if isDyn a then
      if isDyn b then do
        let x1 ← e.extent t 1
        let x0 ← e.extent t 0
        Ext.ofVals t tp [x1, x0]
      else do
        let x0 ← e.extent t 0
        Ext.ofVals t tp [x0]
    else
      if isDyn b then do
        let x1 ← e.extent t 1
        Ext.ofVals t tp [x1]
      else .ok (Ext.default tp)

/-- `layout_transpose<L>::mapping<Extents>`: the nested mapping over the transposed extents and the
    extents of the view, computed once by the constructor (`_extents{transpose_extents(map.extents())}`) -/
structure TMap where
  lay : Lay
  nested : Ext
  ext : Ext
  deriving Repr

/-- `explicit mapping(nested_mapping_t const& map)` -/
def TMap.make (t : IdxT) (l : Lay) (nested : Ext) : Except Err TMap := do
  let e ← transposeExt t nested
  pure { lay := l, nested := nested, ext := e }

def TMap.extents (m : TMap) : Ext := m.ext
def TMap.reqSpan (t : IdxT) (m : TMap) : Except Err Int := C19.reqSpan m.lay t m.nested

/-- `operator()(i, j) = _nestedMapping(j, i)` converted to `size_type` -/
def TMap.mapIdx (t : IdxT) (m : TMap) (i j : Int) : Except Err Int := do
  let o ← C19.mapIdx m.lay t m.nested [j, i]
  pure (t.toUnsigned.wrap o)

/-- `stride(r)`: the last two strides of the nested mapping swapped (rank is 2) -/
def TMap.stride (t : IdxT) (m : TMap) (r : Nat) : Except Err Int := do
  let s ←
    if r = 2 - 1 then C19.stride m.lay t m.nested (r - 1)
    else if r = 2 - 2 then C19.stride m.lay t m.nested (r + 1)
    else C19.stride m.lay t m.nested r
  pure (t.toUnsigned.wrap s)

/-! ## the observers `is_always_unique / is_always_exhaustive / is_always_strided / is_unique / is_exhaustive / is_strided` -/

structure Obs where
  alwaysUnique : Bool
  alwaysExhaustive : Bool
  alwaysStrided : Bool
  unique : Bool
  exhaustive : Bool
  strided : Bool
  deriving Repr, DecidableEq, BEq

/-- `layout_left::mapping` / `layout_right::mapping`: six `return true` -/
def contigObs (_ : Lay) : Obs := ⟨true, true, true, true, true, true⟩

/-- `layout_stride::mapping`: `is_always_exhaustive` is `false`, `is_exhaustive()` is computed, the rest `return true` -/
def StrideMap.obs (t : IdxT) (m : StrideMap) : Except Err Obs := do
  let x ← m.isExhaustive t
  pure ⟨true, false, true, true, x, true⟩

/-- `layout_transpose<L>::mapping`: every observer forwards to the nested mapping -/
def TMap.obs (m : TMap) : Obs := contigObs m.lay

/-- `layout_transpose<layout_stride>::mapping<Extents>`: the nested strided mapping over the transposed extents -/
structure TSMap where
  nested : StrideMap
  ext : Ext
  deriving Repr

def TSMap.make (t : IdxT) (nested : StrideMap) : Except Err TSMap := do
  let e ← transposeExt t nested.ext
  pure { nested := nested, ext := e }

def TSMap.extents (m : TSMap) : Ext := m.ext
def TSMap.reqSpan (t : IdxT) (m : TSMap) : Except Err Int := m.nested.reqSpan t

/-- `operator()(i, j) = _nestedMapping(j, i)` converted to `size_type` -/
def TSMap.mapIdx (t : IdxT) (m : TSMap) (i j : Int) : Except Err Int := do
  let o ← m.nested.mapIdx t [j, i]
  pure (t.toUnsigned.wrap o)

/-- `stride(r)`: the two strides of the nested mapping swapped -/
def TSMap.stride (t : IdxT) (m : TSMap) (r : Nat) : Except Err Int := do
  let s ←
    if r = 2 - 1 then m.nested.stride (r - 1)
    else if r = 2 - 2 then m.nested.stride (r + 1)
    else m.nested.stride r
  pure (t.toUnsigned.wrap s)

def TSMap.obs (t : IdxT) (m : TSMap) : Except Err Obs := m.nested.obs t

/-! ## mdspan / mdarray element access -/

/-- `mdspan::operator()(indices...)` with `default_accessor`: `p[static_cast<size_t>(map(index_cast(i)...))]`.
    `buf` is the underlying range `[p, p + buf.length)`. -/
def mdspanAt {α : Type} (l : Lay) (t : IdxT) (e : Ext) (buf : List α) (idx : List Int) : Except Err α := do
  let o ← mapIdx l t e (idx.map t.wrap)
  let k := sz o
  if k < 0 then .error .oob else rd buf k.toNat

def mdspanAtStride {α : Type} (t : IdxT) (m : StrideMap) (buf : List α) (idx : List Int) : Except Err α := do
  let o ← m.mapIdx t (idx.map t.wrap)
  let k := sz o
  if k < 0 then .error .oob else rd buf k.toNat

/-- `mdspan::operator()` over a `layout_transpose` mapping -/
def mdspanAtT {α : Type} (t : IdxT) (m : TMap) (buf : List α) (i j : Int) : Except Err α := do
  let o ← m.mapIdx t (t.wrap i) (t.wrap j)
  let k := sz o
  if k < 0 then .error .oob else rd buf k.toNat

/-- `mdspan::operator()` over a `layout_transpose<layout_stride>` mapping -/
def mdspanAtTS {α : Type} (t : IdxT) (m : TSMap) (buf : List α) (i j : Int) : Except Err α := do
  let o ← m.mapIdx t (t.wrap i) (t.wrap j)
  let k := sz o
  if k < 0 then .error .oob else rd buf k.toNat

/-- `mdspan::extents()` / `mdarray::extents()`: `_map.extents()`, the extents object stored in the mapping (a copy of the
    one the mapping was constructed from) -/
def mdspanExtents (e : Ext) : Ext := e

/-- `mdspan::size()`: `static_cast<size_type>(extents().fwd_prod_of_extents(rank()))` -/
def mdspanSize (t : IdxT) (e : Ext) : Except Err Int := do
  let p ← e.fwdProd t e.pat.length
  pure (t.toUnsigned.wrap p)

/-- `mdspan::empty()`: `size() == size_type{}` -/
def mdspanEmpty (t : IdxT) (e : Ext) : Except Err Bool := do
  let n ← mdspanSize t e
  pure (n == 0)

/-- `mdspan::operator[](span<OtherIndexType, rank()> indices)` = `(*this)(indices[Is]...)`; `operator[](array)` forwards
    to it through `span{indices}` -/
def mdspanAtSpan {α : Type} (l : Lay) (t : IdxT) (e : Ext) (buf : List α) (indices : List Int) : Except Err α := do
  let args ← (List.range e.pat.length).mapM (fun k => rd indices k)
  mdspanAt l t e buf args

/-- `mdarray(mapping)` with a size-constructible container: `container_type(required_span_size())`, then
    `operator()` = `_ctr[static_cast<size_t>(_map(...))]`.  Returns (container size, offset read). -/
def mdarrayAt (l : Lay) (t : IdxT) (e : Ext) (idx : List Int) : Except Err (Int × Nat) := do
  let n ← reqSpan l t e
  let ctr := List.range (sz n).toNat
  let x ← mdspanAt l t e ctr idx
  pure (sz n, x)

/-- `mdarray::container_size()` after `mdarray(mapping)` -/
def mdarrayContainerSize (l : Lay) (t : IdxT) (e : Ext) : Except Err Int := do
  let n ← reqSpan l t e
  pure (sz n)

/-- `mdarray::to_mdspan()(indices...)`: an mdspan over `container_data()` with the same mapping.
    Returns the offset read in the container. -/
def mdarrayToMdspanAt (l : Lay) (t : IdxT) (e : Ext) (idx : List Int) : Except Err Nat := do
  let n ← mdarrayContainerSize l t e
  mdspanAt l t e (List.range n.toNat) idx

/-- `mdarray` over a `layout_stride` mapping (possible since `required_span_size` is defined):
    (container size, offset read) -/
def mdarrayAtStride (t : IdxT) (m : StrideMap) (idx : List Int) : Except Err (Int × Nat) := do
  let n ← m.reqSpan t
  let x ← mdspanAtStride t m (List.range (sz n).toNat) idx
  pure (sz n, x)

/-- `mdarray::size()`: `size_type(extents().fwd_prod_of_extents(rank()))` (the same expression as `mdspan::size()`) -/
def mdarraySize (t : IdxT) (e : Ext) : Except Err Int := do
  let p ← e.fwdProd t e.pat.length
  pure (t.toUnsigned.wrap p)

/-- `mdarray::empty()`: `size() == 0` -/
def mdarrayEmpty (t : IdxT) (e : Ext) : Except Err Bool := do
  let n ← mdarraySize t e
  pure (n == 0)

/-! ### mdarray constructors: the contents of the container after construction -/

/-- the container type of an `mdarray` -/
inductive Ctr where
  /-- constructible from `size_t` and from `(size_t, value_type)`: `static_vector<int, cap>` -/
  | sized (cap : Nat)
  /-- `etl::array<int, n>` (`is_etl_array`): the `return {}` / `value_to_array` branches -/
  | arr (n : Nat)
  deriving Repr, DecidableEq

/-- the lambda of `mdarray(mapping)` (reached also from `mdarray(extents)` and `mdarray(exts...)`):
    `container_type(static_cast<size_t>(_map.required_span_size()))` (value-initialised elements;
    `TETL_PRECONDITION(n <= capacity())` in `static_vector`) or `return {}` -/
def ctrOfSize (k : Ctr) (req : Int) : Except Err (List Int) :=
  match k with
  | .sized cap => if (sz req).toNat ≤ cap then .ok (List.replicate (sz req).toNat 0) else .error (.pre "capacity")
  | .arr n => .ok (List.replicate n 0)

/-- the lambda of `mdarray(mapping, value)` (reached also from `mdarray(extents, value)`):
    `container_type(static_cast<size_t>(_map.required_span_size()), val)` or
    `value_to_array<element_type, container_type().size()>(val)` -/
def ctrOfValue (k : Ctr) (req : Int) (val : Int) : Except Err (List Int) :=
  match k with
  | .sized cap => if (sz req).toNat ≤ cap then .ok (List.replicate (sz req).toNat val) else .error (.pre "capacity")
  | .arr n => .ok (List.replicate n val)

/-- `mdarray(mapping)` over a layout_left / layout_right mapping -/
def mdarrayOfMapping (l : Lay) (t : IdxT) (e : Ext) (k : Ctr) : Except Err (List Int) := do
  let n ← reqSpan l t e
  ctrOfSize k n

/-- `mdarray(mapping, value)` / `mdarray(extents, value)` -/
def mdarrayOfValue (l : Lay) (t : IdxT) (e : Ext) (k : Ctr) (val : Int) : Except Err (List Int) := do
  let n ← reqSpan l t e
  ctrOfValue k n val

/-- `mdarray(extents | mapping, container const&)` (`_ctr(c)`) and `(…, container&&)` (`_ctr(etl::move(c))`): the container
    of the mdarray has the contents of the argument -/
def mdarrayOfContainer (c : List Int) : List Int := c

/-- `mdarray(mapping)` / `mdarray(mapping, value)` over a `layout_stride` mapping -/
def mdarrayOfMappingStride (t : IdxT) (m : StrideMap) (k : Ctr) : Except Err (List Int) := do
  let n ← m.reqSpan t
  ctrOfSize k n

def mdarrayOfValueStride (t : IdxT) (m : StrideMap) (k : Ctr) (val : Int) : Except Err (List Int) := do
  let n ← m.reqSpan t
  ctrOfValue k n val

/-- `mdarray::operator()(indices...)` on a given container:
    `_ctr[static_cast<size_t>(_map(static_cast<index_type>(indices)...))]` -/
def mdarrayRead {α : Type} (l : Lay) (t : IdxT) (e : Ext) (ctr : List α) (idx : List Int) : Except Err α := do
  let o ← mapIdx l t e (idx.map t.wrap)
  let k := sz o
  if k < 0 then .error .oob else rd ctr k.toNat

def mdarrayReadStride {α : Type} (t : IdxT) (m : StrideMap) (ctr : List α) (idx : List Int) : Except Err α := do
  let o ← m.mapIdx t (idx.map t.wrap)
  let k := sz o
  if k < 0 then .error .oob else rd ctr k.toNat

/-! ### default-constructed mappings -/

/-- `layout_left::mapping()` / `layout_right::mapping()` (`= default`): the member `_extents{}` is a value-initialised
    extents object -/
def contigDefault (p : Pat) : Ext := Ext.default p

/-- the loop of `layout_stride::mapping::default_strides()` (fix 36bdc9a):
    `for (r = rank; r > 0; --r) { result[r - 1] = product; product = static_cast<index_type>(product * ext.extent(r - 1)); }`
    — the list holds the values of `r - 1` (`rank-1 … 0`) -/
def defaultStridesLoop (t : IdxT) (e : Ext) : List Nat → Int → List Int → Except Err (List Int)
  | [], _, acc => .ok acc
  | k :: ks, product, acc => do
    let acc' ← wr acc k product
    let x ← e.extent t k
    defaultStridesLoop t e ks (t.wrap (product * x)) acc'

/-- `layout_stride::mapping()`: `_extents{}`, `_strides{default_strides()}` ([mdspan.layout.stride.cons]/1: the strides of
    `layout_right::mapping<extents_type>()`) -/
def StrideMap.default (t : IdxT) (p : Pat) : Except Err StrideMap := do
  let e := Ext.default p
  let s ← defaultStridesLoop t e (List.range p.length).reverse 1 (List.replicate p.length 0)
  pure { ext := e, strides := s }

/-! ### mdarray as an object: copy / move construction, assignment, swap

`mdarray` has two members, `_map` (the mapping: for layout_left / layout_right its extents object, whose `_extents` array of
the dynamic extents is run-time state; for layout_stride the extents object and the `_strides` array, which is run-time
state also over fully static extents) and `_ctr` (the container). -/

structure MdArr (M : Type) where
  map : M
  ctr : List Int
  deriving Repr

/-- `mdarray(mdarray const&) = default`: member-wise copy -/
def MdArr.copy {M : Type} (a : MdArr M) : MdArr M := { map := a.map, ctr := a.ctr }

/-- `mdarray(mdarray&&) = default`: the new object has the mapping and the container of the argument (the moved-from state
    of the argument is not described) -/
def MdArr.move {M : Type} (a : MdArr M) : MdArr M := { map := a.map, ctr := a.ctr }

/-- `operator=(mdarray const&) = default` / `operator=(mdarray&&) = default`: both members are assigned -/
def MdArr.assign {M : Type} (_dst src : MdArr M) : MdArr M := { map := src.map, ctr := src.ctr }

/-- `friend swap(mdarray& lhs, mdarray& rhs)`: `swap(lhs._map, rhs._map); swap(lhs._ctr, rhs._ctr);` — returns the new
    (lhs, rhs) -/
def MdArr.swap {M : Type} (lhs rhs : MdArr M) : MdArr M × MdArr M :=
  let (lm, rm) := (rhs.map, lhs.map)
  let (lc, rc) := (rhs.ctr, lhs.ctr)
  ({ map := lm, ctr := lc }, { map := rm, ctr := rc })

/-- `mdarray::operator()` of an mdarray object over a layout_left / layout_right mapping -/
def MdArr.read (l : Lay) (t : IdxT) (a : MdArr Ext) (idx : List Int) : Except Err Int := mdarrayRead l t a.map a.ctr idx

/-- `mdarray::operator()` of an mdarray object over a layout_stride mapping -/
def MdArr.readStride (t : IdxT) (a : MdArr StrideMap) (idx : List Int) : Except Err Int :=
  mdarrayReadStride t a.map a.ctr idx

/-! ## span -/

/-- a `span<T, Extent>` over the base range: offset of `data()` from the base, stored size, static extent.
    `static_storage::size()` returns `Extent` and ignores the size passed to the constructor. -/
structure Span where
  off : Nat
  size : Nat
  ext : Option Nat
  deriving Repr, BEq, DecidableEq

/-- the constructor `span<T, E>{ptr, sz}` -/
def Span.make (off sz : Nat) (ext : Option Nat) : Span :=
  { off := off, size := (match ext with | some n => n | none => sz), ext := ext }

def DYN : Nat := 2 ^ 64 - 1
def extVal : Option Nat → Nat
  | some n => n
  | none => DYN

/-- `detail::subspan_extent<Offset, Count, Extent>()` -/
def subspanExtent (offset : Nat) (count : Option Nat) (ext : Option Nat) : Option Nat :=
  match count with
  | some c => some c
  | none => match ext with
    | some e => some (e - offset)
    | none => none

/-- `Count != dynamic_extent and Count > room` -/
def cntExceeds (count : Option Nat) (room : Nat) : Bool :=
  match count with
  | some c => decide (c > room)
  | none => false

/-- `first<Count>()`: `static_assert(Count <= Extent)`; precondition `Count <= size()` -/
def Span.firstT (s : Span) (count : Nat) : Except Err Span :=
  if count > extVal s.ext then .error (.pre "static_assert")
  else if count > s.size then .error (.pre "first")
  else .ok (Span.make s.off count (some count))

/-- `first(count)` -/
def Span.first (s : Span) (count : Nat) : Except Err Span :=
  if count > s.size then .error (.pre "first") else .ok (Span.make s.off count none)

/-- `last<Count>()` : `data() + (size() - Count)` -/
def Span.lastT (s : Span) (count : Nat) : Except Err Span :=
  if count > extVal s.ext then .error (.pre "static_assert")
  else if count > s.size then .error (.pre "last")
  else .ok (Span.make (s.off + (s.size - count)) count (some count))

/-- `last(count)` -/
def Span.last (s : Span) (count : Nat) : Except Err Span :=
  if count > s.size then .error (.pre "last") else .ok (Span.make (s.off + (s.size - count)) count none)

/-- `subspan<Offset, Count>()` -/
def Span.subspanT (s : Span) (offset : Nat) (count : Option Nat) : Except Err Span :=
  if offset > extVal s.ext then .error (.pre "static_assert")
  else if cntExceeds count (extVal s.ext - offset) then .error (.pre "static_assert")
  else if offset > s.size then .error (.pre "subspan")
  else if cntExceeds count (s.size - offset) then .error (.pre "subspan")
  else
    let n := match count with | some c => c | none => s.size - offset
    .ok (Span.make (s.off + offset) n (subspanExtent offset count s.ext))

/-- `subspan(offset, count)` -/
def Span.subspan (s : Span) (offset : Nat) (count : Option Nat) : Except Err Span :=
  if offset > s.size then .error (.pre "subspan")
  else if cntExceeds count (s.size - offset) then .error (.pre "subspan")
  else
    let n := match count with | some c => c | none => s.size - offset
    .ok (Span.make (s.off + offset) n none)

/-- the elements a span refers to: `data()[k]` for `k < size()`, read from the base range -/
def Span.elems {α : Type} (base : List α) (s : Span) : Except Err (List α) :=
  (List.range s.size).mapM (fun k => rd base (s.off + k))

end Tetl.C19
