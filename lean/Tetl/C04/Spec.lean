/-
C04 — reference semantics: `std::basic_string` ([basic.string]) stated over the list of code units.
No buffer, no terminator, no capacity: a string *is* its list of characters.  Searches and comparisons are
the declarative definitions of `Tetl.C08.Spec`.
-/
import Tetl.C08.Spec
namespace Tetl.C04

/-- The mutating members, one constructor per code path of basic_inplace_string.hpp (the overloads of a
    family differ only in how the argument range `[arr+off, arr+off+len)` is obtained; the driver resolves
    them).  `arr` is the array the argument pointer points into. -/
inductive Op where
  | assignPtr (arr : List Nat) (off len : Nat)   -- `*this = basic_inplace_string{str, len}`
  | assignFill (count ch : Nat)                   -- `*this = basic_inplace_string{count, ch}`
  | clear
  | pushBack (ch : Nat)
  | popBack
  | appendFill (count ch : Nat)                   -- append(count, ch), operator+=(ch)
  | appendPtrN (arr : List Nat) (off len : Nat)   -- append(str, count) and everything routed to it
  | appendRange (arr : List Nat) (off len : Nat)  -- append(first, last): push_back loop
  | insertImpl (index : Nat) (arr : List Nat) (off len : Nat)
  | insertFill (index count ch : Nat)
  | eraseIdx (index count : Nat)
  | eraseIt (pos : Nat)
  | eraseRange (first last : Nat)
  | resize (count ch : Nat)
  | eraseValue (v : Nat)                          -- free function etl::erase(c, value)
  deriving Repr

namespace Spec

abbrev Str := List Nat

/-- the characters `[arr+off, arr+off+len)` -/
def seg (arr : List Nat) (off len : Nat) : Str := (arr.drop off).take len

/-- is the argument range inside its array? (a caller obligation for every pointer argument) -/
def segOk (arr : List Nat) (off len : Nat) : Bool := off + len ≤ arr.length

def insert (l : Str) (p : Nat) (xs : Str) : Str := l.take p ++ xs ++ l.drop p
def erase (l : Str) (p n : Nat) : Str := l.take p ++ l.drop (p + n)
def replace (l : Str) (p n : Nat) (xs : Str) : Str := l.take p ++ xs ++ l.drop (p + min n (l.length - p))
def resize (l : Str) (n ch : Nat) : Str := if n ≤ l.length then l.take n else l ++ List.replicate (n - l.length) ch
def substr (l : Str) (p n : Nat) : Str := (l.drop p).take n

/-- the call is defined by the standard (no out_of_range, no empty-string UB, argument range inside its array) -/
def valid (l : Str) : Op → Bool
  | .assignPtr arr off len => segOk arr off len
  | .assignFill _ _ => true
  | .clear => true
  | .pushBack _ => true
  | .popBack => l.length > 0
  | .appendFill _ _ => true
  | .appendPtrN arr off len => segOk arr off len
  | .appendRange arr off len => segOk arr off len
  | .insertImpl index arr off len => index ≤ l.length && segOk arr off len
  | .insertFill index _ _ => index ≤ l.length
  | .eraseIdx index _ => index ≤ l.length
  | .eraseIt pos => pos < l.length
  | .eraseRange first last => first ≤ last && last ≤ l.length
  | .resize _ _ => true
  | .eraseValue _ => true

/-- `(new contents, returned iterator offset / count if any)` -/
def step (l : Str) : Op → Str × Option Nat
  | .assignPtr arr off len => (seg arr off len, none)
  | .assignFill count ch => (List.replicate count ch, none)
  | .clear => ([], none)
  | .pushBack ch => (l ++ [ch], none)
  | .popBack => (l.take (l.length - 1), none)
  | .appendFill count ch => (l ++ List.replicate count ch, none)
  | .appendPtrN arr off len => (l ++ seg arr off len, none)
  | .appendRange arr off len => (l ++ seg arr off len, none)
  | .insertImpl index arr off len => (insert l index (seg arr off len), none)
  | .insertFill index count ch => (insert l index (List.replicate count ch), none)
  | .eraseIdx index count => (erase l index (min count (l.length - index)), none)
  | .eraseIt pos => (erase l pos 1, some pos)
  | .eraseRange first last => (erase l first (last - first), some first)
  | .resize count ch => (resize l count ch, none)
  | .eraseValue v => (l.filter (· ≠ v), some (l.length - (l.filter (· ≠ v)).length))

/-- the result fits in the capacity (the property's "within capacity" side condition) -/
def fits (cap : Nat) (l : Str) (op : Op) : Bool := (step l op).1.length ≤ cap

/-- operations whose overflow is a violated precondition (`\pre len <= Capacity`), not a clamp -/
def isAssign : Op → Bool
  | .assignPtr .. => true
  | .assignFill .. => true
  | _ => false

end Spec
end Tetl.C04
