/-
C04 — model of `etl::basic_inplace_string<Char, Capacity>` (include/etl/_string/basic_inplace_string.hpp),
of `detail::str_replace` (_string/str_replace.hpp), `strings::find/rfind` (_strings/find.hpp, rfind.hpp)
and of the algorithms the string is built from (`rotate`, `swap_ranges`, `fill`, `copy`, `remove_if`).

State: the `Capacity+1` code units of `_buffer` plus (normal layout only) the `_size` field.
  * tiny layout  (Capacity < 16): `size() = Capacity - size_type(_buffer[Capacity])` — the last unit stores
    `Capacity - size` and doubles as the terminator when the string is full;
  * normal layout: `_size : smallest_size_t<Capacity>` (stores wrap to its width).
Every buffer access goes through the checked `rd` / `wr`; `.error .oob` is an access outside the object.
Code units are unsigned values (`Nat`); the character type is a parameter of the harness only.
Positions/counts are `size_t`: `NPOS = 2^64-1`, and the two places where the code can wrap
(`pos + count` in `replace`, `haystack.size() - needle.size()` in `strings::find`) wrap here too.

The model mirrors the default build (`TETL_PRECONDITION` compiled out).  Where a violated precondition means
that the call has no defined result (index past the end, length above the capacity, empty string) the model
returns `.error (.pre site)`; the generator, the harness and the spec use the same validity predicate.
-/
import Tetl.Common
import Tetl.C08.Model
import Tetl.C04.Spec
namespace Tetl.C04
open Tetl

abbrev Units := List Nat
def NPOS : Nat := 18446744073709551615
def W64 : Nat := 18446744073709551616

/-- checked write -/
def wr {α : Type} (b : List α) (i : Nat) (x : α) : Except Err (List α) :=
  if i < b.length then .ok (b.set i x) else .error .oob

/-- bit width of `etl::smallest_size_t<Capacity>` (the threshold chain of _type_traits/smallest_size_t.hpp) -/
def sizeBits (cap : Nat) : Nat :=
  if cap < 255 then 8 else if cap < 65535 then 16 else if cap < 4294967295 then 32 else 64

structure Str where
  cap : Nat
  szf : Nat            -- normal_layout::_size (unused by the tiny layout)
  buf : Units          -- `_buffer`, Capacity+1 code units
  deriving Repr, BEq, DecidableEq, Inhabited

/-- `layout_type = conditional_t<(Capacity < 16), tiny_layout, normal_layout>` -/
def isTiny (cap : Nat) : Bool := cap < 16

/-- default constructor: `_buffer{}`; the tiny layout then executes `_buffer[Capacity] = Capacity` -/
def Str.mk0 (cap : Nat) : Str :=
  if isTiny cap then { cap := cap, szf := 0, buf := List.replicate cap 0 ++ [cap] }
  else { cap := cap, szf := 0, buf := List.replicate (cap + 1) 0 }

/-- `size()` = `_storage.get_size()` -/
def Str.size (s : Str) : Except Err Nat :=
  if isTiny s.cap then do
    let b ← rd s.buf s.cap
    .ok ((s.cap + W64 - b % W64) % W64)          -- Capacity - size_type(_buffer[Capacity]) in size_t arithmetic
  else .ok s.szf

/-- `_storage.set_size(n)` -/
def Str.setSizeField (s : Str) (n : Nat) : Except Err Str :=
  if isTiny s.cap then do
    let b ← wr s.buf s.cap (s.cap - n)             -- Char(Capacity - size); n <= Capacity is checked by the caller
    .ok { s with buf := b }
  else .ok { s with szf := n % 2 ^ sizeBits s.cap } -- internal_size_t(size)

/-- `unsafe_set_size`: precondition, `_storage.set_size(newSize)`, then `unsafe_at(newSize) = Char(0)` — in that order -/
def Str.unsafeSetSize (s : Str) (n : Nat) : Except Err Str :=
  if n > s.cap then .error (.pre "unsafe_set_size: newSize <= Capacity")
  else do
    let s1 ← s.setSizeField n
    let b ← wr s1.buf n 0
    .ok { s1 with buf := b }

/-! ### algorithms on the buffer -/

/-- `etl::fill(first, last, value)`: `n` iterations left, writing index `i` -/
def fillLoop (ch : Nat) : Nat → Nat → Units → Except Err Units
  | 0, _, b => .ok b
  | n + 1, i, b => do
    let b1 ← wr b i ch
    fillLoop ch n (i + 1) b1

/-- `etl::copy` / `traits_type::copy`: `n` iterations left, reading `src[si]`, writing `b[di]` -/
def copyLoop (src : Units) : Nat → Nat → Nat → Units → Except Err Units
  | 0, _, _, b => .ok b
  | n + 1, si, di, b => do
    let x ← rd src si
    let b1 ← wr b di x
    copyLoop src n (si + 1) (di + 1) b1

/-- `etl::copy` into a caller's destination (for `copy(dest,count,pos)`): the units written -/
def copyOut (src : Units) : Nat → Nat → Except Err Units
  | 0, _ => .ok []
  | n + 1, si => do
    let x ← rd src si
    let rest ← copyOut src n (si + 1)
    .ok (x :: rest)

/-- `etl::swap_ranges(first1, last1, first2)` over two buffers, both from index `i`, `n` iterations left -/
def swapRanges : Nat → Nat → Units → Units → Except Err (Units × Units)
  | 0, _, a, b => .ok (a, b)
  | n + 1, i, a, b => do
    let x ← rd a i
    let y ← rd b i
    let a1 ← wr a i y
    let b1 ← wr b i x
    swapRanges n (i + 1) a1 b1

/-- `etl::iter_swap` inside one buffer -/
def swapAt (l : Units) (i j : Nat) : Except Err Units := do
  let x ← rd l i
  let y ← rd l j
  let l1 ← wr l i y
  wr l1 j x

/-- the `while (read != last)` loop of `etl::rotate`; `n = last - read` iterations left -/
def rotLoop : Nat → Units → Nat → Nat → Nat → Except Err (Units × Nat × Nat)
  | 0, l, write, _, nextRead => .ok (l, write, nextRead)
  | n + 1, l, write, read, nextRead => do
    let nr := if write = nextRead then read else nextRead
    let l1 ← swapAt l write read
    rotLoop n l1 (write + 1) (read + 1) nr

/-- `etl::rotate(first, nFirst, last)` (recursive as in the source; `fuel` bounds the recursion depth) -/
def rotateF : Nat → Units → Nat → Nat → Nat → Except Err (Units × Nat)
  | 0, _, _, _, _ => .error .fuel
  | fuel + 1, l, first, nFirst, last =>
    if first = nFirst then .ok (l, last)
    else if nFirst = last then .ok (l, first)
    else do
      let r ← rotLoop (last - nFirst) l first nFirst first
      let r2 ← rotateF fuel r.1 r.2.1 r.2.2 last
      .ok (r2.1, r.2.1)

def rotate (l : Units) (first nFirst last : Nat) : Except Err (Units × Nat) :=
  rotateF (last - first + 1) l first nFirst last

/-- `detail::str_replace(f, l, sf, sl)`: `for (; (f != l) && (sf != sl); ++f, ++sf) *f = *sf;` with the four
    pointers as indices.  Neither condition need ever become true (`l < f` after a wrapped `pos + count`,
    `sl < sf` after a wrapped `pos2 + count2`): `fuel` = buffer length + 1 is enough because the checked write
    fails once `f` leaves the buffer. -/
def strReplaceLoop (src : Units) : Nat → Nat → Nat → Nat → Nat → Units → Except Err Units
  | 0, _, _, _, _, _ => .error .fuel
  | n + 1, f, l, sf, sl, b =>
    if f = l ∨ sf = sl then .ok b
    else do
      let x ← rd src sf
      let b1 ← wr b f x
      strReplaceLoop src n (f + 1) l (sf + 1) sl b1

/-- `traits_type::length(s)`: index of the first NUL of a NUL-terminated array -/
def cstrLenLoop (s : Units) : Nat → Nat → Except Err Nat
  | 0, _ => .error .oob
  | n + 1, i => do
    let x ← rd s i
    if x = 0 then .ok i else cstrLenLoop s n (i + 1)

def cstrLen (s : Units) : Except Err Nat := cstrLenLoop s (s.length + 1) 0

/-! ### an argument range `[p, p+len)` of some array -/

structure Src where
  arr : Units
  off : Nat
  len : Nat
  deriving Repr

/-! ### constructors / assign -/

/-- `basic_inplace_string(const_pointer str, size_type len)`: `unsafe_set_size(len)` then `traits_type::copy` -/
def ctorPtrLen (cap : Nat) (src : Units) (off len : Nat) : Except Err Str :=
  if len > cap then .error (.pre "ctor(str,len): len <= Capacity")
  else do
    let s ← (Str.mk0 cap).unsafeSetSize len
    let b ← copyLoop src len off 0 s.buf
    .ok { s with buf := b }

/-- `basic_inplace_string(size_type count, Char ch)`: `fill(begin(), begin()+count, ch)` then `unsafe_set_size(count)` -/
def ctorFill (cap count ch : Nat) : Except Err Str :=
  if count > cap then .error (.pre "ctor(count,ch): count <= Capacity")
  else do
    let s := Str.mk0 cap
    let b ← fillLoop ch count 0 s.buf
    ({ s with buf := b } : Str).unsafeSetSize count

/-- `substr(pos, count)`: `if (pos > size()) return {};` (std: out_of_range, so `pos > size()` is outside the
    compared domain and reported as `pre`) -/
def Str.substr (s : Str) (pos count : Nat) : Except Err Str := do
  let sz ← s.size
  if pos > sz then .error (.pre "substr: pos <= size()")
  else ctorPtrLen s.cap s.buf pos (min count (sz - pos))

/-- the view `basic_string_view(data(), size())` as a list -/
def Str.chars (s : Str) : Except Err Units := do
  let sz ← s.size
  if sz > s.buf.length then .error .oob else .ok (s.buf.take sz)

/-! ### element access -/

def Str.at (s : Str) (i : Nat) : Except Err Nat := do
  let sz ← s.size
  if i ≥ sz + 1 then .error (.pre "unsafe_at: index < size()+1") else rd s.buf i

def Str.front (s : Str) : Except Err Nat := do
  let sz ← s.size
  if sz = 0 then .error (.pre "front: not empty()") else rd s.buf 0

def Str.back (s : Str) : Except Err Nat := do
  let sz ← s.size
  if sz = 0 then .error (.pre "back: not empty()") else rd s.buf (sz - 1)

/-! ### modifiers -/

/-- `clear()`: `*begin() = Char(0); unsafe_set_size(0);` -/
def Str.clear (s : Str) : Except Err Str := do
  let b ← wr s.buf 0 0
  ({ s with buf := b } : Str).unsafeSetSize 0

/-- `erase(const_iterator first, const_iterator last)` with iterators as offsets; returns `begin()+start` -/
def Str.eraseRange (s : Str) (first last : Nat) : Except Err (Str × Nat) := do
  let sz ← s.size
  if first > last ∨ last > sz then .error (.pre "erase(first,last): first <= last <= end()")
  else
    let start := first
    let distance := last - first
    let r ← rotate s.buf start (start + distance) sz
    let s1 : Str := { s with buf := r.1 }
    let sz1 ← s1.size                              -- `unsafe_set_size(size() - distance)` re-reads the size
    let s2 ← s1.unsafeSetSize (sz1 - distance)
    .ok (s2, start)

/-- `erase(size_type index, size_type count)`: `safeCount = min(count, size() - index)` -/
def Str.eraseIdx (s : Str) (index count : Nat) : Except Err Str := do
  let sz ← s.size
  if index > sz then .error (.pre "erase(index,count): index <= size()")
  else
    let safeCount := min count (sz - index)
    let r ← s.eraseRange index (index + safeCount)
    .ok r.1

/-- `erase(const_iterator position)` = `erase(position, position + 1)` -/
def Str.eraseIt (s : Str) (pos : Nat) : Except Err (Str × Nat) := do
  let sz ← s.size
  if pos ≥ sz then .error (.pre "erase(position): position < end()")
  else s.eraseRange pos (pos + 1)

/-- `append(size_type count, Char s)` -/
def Str.appendFill (s : Str) (count ch : Nat) : Except Err Str := do
  let sz ← s.size
  let safeCount := min count (s.cap - sz)
  let newSize := sz + safeCount
  let b ← fillLoop ch (newSize - sz) sz s.buf
  ({ s with buf := b } : Str).unsafeSetSize newSize

/-- `append(const_pointer str, size_type count)` -/
def Str.appendPtrN (s : Str) (a : Src) : Except Err Str := do
  let sz ← s.size
  let safeCount := min a.len (s.cap - sz)
  let b ← copyLoop a.arr safeCount a.off sz s.buf
  ({ s with buf := b } : Str).unsafeSetSize (sz + safeCount)

/-- `push_back(ch)` = `append(1, ch)` (the precondition `size() < capacity()` is compiled out: a full string is left unchanged) -/
def Str.pushBack (s : Str) (ch : Nat) : Except Err Str := s.appendFill 1 ch

/-- `append(InputIt first, InputIt last)`: `for (; first != last; ++first) push_back(*first);` -/
def appendRange (arr : Units) : Nat → Nat → Str → Except Err Str
  | 0, _, s => .ok s
  | n + 1, i, s => do
    let x ← rd arr i
    let s1 ← s.pushBack x
    appendRange arr n (i + 1) s1

/-- `pop_back()` -/
def Str.popBack (s : Str) : Except Err Str := do
  let sz ← s.size
  if sz = 0 then .error (.pre "pop_back: not empty()") else s.unsafeSetSize (sz - 1)

/-- `insert_impl(pos, text, count)`: `currentEnd = end(); append(text, count); rotate(pos, currentEnd, end());` -/
def Str.insertImpl (s : Str) (index : Nat) (a : Src) : Except Err Str := do
  let currentEnd ← s.size
  if index > currentEnd then .error (.pre "insert: index <= size()")
  else
    let s1 ← s.appendPtrN a
    let e ← s1.size
    let r ← rotate s1.buf index currentEnd e
    .ok { s1 with buf := r.1 }

/-- `insert(index, count, ch)`: `for (i = 0; i < count; ++i) insert_impl(begin()+index, &ch, 1);` -/
def insertFill (index ch : Nat) : Nat → Str → Except Err Str
  | 0, s => do
    let sz ← s.size
    if index > sz then .error (.pre "insert: index <= size()") else .ok s
  | n + 1, s => do
    let s1 ← s.insertImpl index ⟨[ch], 0, 1⟩
    insertFill index ch n s1

/-- `resize(count, ch)`: shrink by `unsafe_set_size(count)`, grow by `append(count - size(), ch)` -/
def Str.resize (s : Str) (count ch : Nat) : Except Err Str := do
  let sz ← s.size
  let s1 ← if sz > count then s.unsafeSetSize count else .ok s
  let sz1 ← s1.size
  if sz1 < count then s1.appendFill (count - sz1) ch else .ok s1

/-- `swap(other)`: both sizes are read first, then `swap_ranges` over `max(size)+1` units (the terminator
    included), then the two `unsafe_set_size` -/
def Str.swap (a b : Str) : Except Err (Str × Str) := do
  let thisSize ← a.size
  let otherSize ← b.size
  let maxSize := max thisSize otherSize
  let r ← swapRanges (maxSize + 1) 0 a.buf b.buf
  let a1 ← ({ a with buf := r.1 } : Str).unsafeSetSize otherSize
  let b1 ← ({ b with buf := r.2 } : Str).unsafeSetSize thisSize
  .ok (a1, b1)

/-- `copy(dest, count, pos)`: `if (pos > size()) return 0;` (std: out_of_range → `pre`) -/
def Str.copyTo (s : Str) (count pos : Nat) : Except Err (Nat × Units) := do
  let sz ← s.size
  if pos > sz then .error (.pre "copy: pos <= size()")
  else
    let n := min count (sz - pos)
    let w ← copyOut s.buf n pos
    .ok (n, w)

/-! ### replace family (overwrites only: `detail::str_replace`) -/

/-- common core: `str_replace(data()+f, data()+l, arr+sf, arr+sl)`; the size is not changed -/
def Str.replaceCore (s : Str) (f l : Nat) (arr : Units) (sf sl : Nat) : Except Err Str := do
  let b ← strReplaceLoop arr (s.buf.length + 1) f l sf sl s.buf
  .ok { s with buf := b }

/-- `replace(pos, count, str)`: `f = data()+pos; l = data()+pos+count` (no clamp; `pos + count` wraps mod 2^64) -/
def Str.replaceA (s : Str) (pos count : Nat) (arr : Units) (sf sl : Nat) : Except Err Str := do
  let sz ← s.size
  if pos > sz then .error (.pre "replace: pos <= size()")
  else s.replaceCore pos ((pos + count) % W64) arr sf sl

/-- `replace(pos, count, s, count2)`, `replace(pos, count, s)`, `replace(pos, count, str, pos2, count2)`:
    `f = data()+min(pos,size()); l = data()+min(pos+count, size())` -/
def Str.replaceB (s : Str) (pos count : Nat) (arr : Units) (sf sl : Nat) : Except Err Str := do
  let sz ← s.size
  if pos > sz then .error (.pre "replace: pos <= size()")
  else s.replaceCore (min pos sz) (min ((pos + count) % W64) sz) arr sf sl

/-- `replace(first, last, …)` iterator forms -/
def Str.replaceIt (s : Str) (first last : Nat) (arr : Units) (sf sl : Nat) : Except Err Str := do
  let sz ← s.size
  if first > last ∨ last > sz then .error (.pre "replace(first,last): first <= last <= end()")
  else s.replaceCore first last arr sf sl

/-- `replace(first, last, count2, ch)`: `l = min(last, f + count2)`; `str_replace(f, l, ch)` -/
def Str.replaceItFill (s : Str) (first last count2 ch : Nat) : Except Err Str := do
  let sz ← s.size
  if first > last ∨ last > sz then .error (.pre "replace(first,last): first <= last <= end()")
  else
    let l := min last (first + count2)
    let b ← fillLoop ch (l - first) first s.buf
    .ok { s with buf := b }

/-! ### compare / search: delegation to the basic_string_view model (C08) -/

/-- `compare(pos, count, str)` and the `const_pointer` forms:
    `sz = count > size() - pos ? size() : count; sub = view(*this).substr(pos, sz); sub.compare(v)` -/
def compare3 (h : Units) (pos count : Nat) (v : Units) : Except Err Int :=
  if pos > h.length then .error (.pre "compare: pos <= size()")
  else
    let sz := if count > h.length - pos then h.length else count
    C08.compare3 h pos sz v

/-- `compare(pos1, count1, str, pos2, count2)` (basic_inplace_string overload) -/
def compare5 (h : Units) (pos1 count1 : Nat) (v : Units) (pos2 count2 : Nat) : Except Err Int :=
  if pos1 > h.length ∨ pos2 > v.length then .error (.pre "compare: pos <= size()")
  else
    let sz1 := if count1 > h.length - pos1 then h.length else count1
    let sz2 := if count2 > v.length - pos2 then v.length else count2
    C08.compare5 h pos1 sz1 v pos2 sz2

/-- `etl::strings::find(haystack, needle, pos)` -/
def stringsFind (h n : Units) (pos : Nat) : Except Err (Option Nat) :=
  if n.length = 0 ∧ pos ≤ h.length then .ok (some pos)
  else if pos ≤ (h.length + W64 - n.length) % W64 then C08.find h n pos
  else .ok none

/-- `find_first_of(s, pos, count)`: `if (pos < size()) return view.find_first_of(s, pos, count); return npos;` -/
def findFirstOf (h n : Units) (pos : Nat) : Except Err (Option Nat) :=
  if pos < h.length then C08.findFirstOf h n pos else .ok none

/-! ### free functions -/

/-- `etl::find_if(first, last, pred)` with `pred = (== value)`; returns the index -/
def findIfLoop (b : Units) (v : Nat) : Nat → Nat → Except Err Nat
  | 0, i => .ok i
  | n + 1, i => do
    let x ← rd b i
    if x = v then .ok i else findIfLoop b v n (i + 1)

/-- the `for (auto i = first; ++i != last;)` loop of `etl::remove_if` -/
def removeLoop (v : Nat) : Nat → Nat → Nat → Units → Except Err (Units × Nat)
  | 0, _, first, b => .ok (b, first)
  | n + 1, i, first, b => do
    let x ← rd b i
    if x ≠ v then
      let b1 ← wr b first x
      removeLoop v n (i + 1) (first + 1) b1
    else removeLoop v n (i + 1) first b

/-- `etl::erase(c, value)`: `it = remove(begin, end, value); r = distance(it, end); c.erase(it, end); return r;` -/
def Str.eraseValue (s : Str) (v : Nat) : Except Err (Str × Nat) := do
  let sz ← s.size
  let first ← findIfLoop s.buf v sz 0
  let r ← if first ≠ sz then removeLoop v (sz - first - 1) (first + 1) first s.buf else .ok (s.buf, first)
  let s1 : Str := { s with buf := r.1 }
  let e ← s1.eraseRange r.2 sz
  .ok (e.1, sz - r.2)

/-! ### one step of a history -/

/-- `assign(...)`: `*this = basic_inplace_string{...}` — the defaulted copy assignment replaces the whole object -/
def Str.step (s : Str) : Op → Except Err (Str × Option Nat)
  | .assignPtr arr off len => do .ok (← ctorPtrLen s.cap arr off len, none)
  | .assignFill count ch => do .ok (← ctorFill s.cap count ch, none)
  | .clear => do .ok (← s.clear, none)
  | .pushBack ch => do .ok (← s.pushBack ch, none)
  | .popBack => do .ok (← s.popBack, none)
  | .appendFill count ch => do .ok (← s.appendFill count ch, none)
  | .appendPtrN arr off len => do .ok (← s.appendPtrN ⟨arr, off, len⟩, none)
  | .appendRange arr off len => do .ok (← appendRange arr len off s, none)
  | .insertImpl index arr off len => do .ok (← s.insertImpl index ⟨arr, off, len⟩, none)
  | .insertFill index count ch => do .ok (← insertFill index ch count s, none)
  | .eraseIdx index count => do .ok (← s.eraseIdx index count, none)
  | .eraseIt pos => do let r ← s.eraseIt pos; .ok (r.1, some r.2)
  | .eraseRange first last => do let r ← s.eraseRange first last; .ok (r.1, some r.2)
  | .resize count ch => do .ok (← s.resize count ch, none)
  | .eraseValue v => do let r ← s.eraseValue v; .ok (r.1, some r.2)

/-! ### how the overloads obtain their argument range -/

inductive Arg where
  | ptrn (s : Units) (n : Nat)            -- (const_pointer, count)
  | cstr (s : Units)                      -- NUL-terminated array `s ++ [0]`
  | range (s : Units)                     -- iterator pair over an array
  | view (s : Units)                      -- basic_string_view(data, size)
  | viewsub (s : Units) (pos count : Nat) -- sv.substr(pos, count)
  | str                                   -- the other string object
  | strsub (pos count : Nat)              -- str.substr(pos, count): a temporary string
  | strsubv (pos count : Nat)             -- view_type(str).substr(pos, count)
  | ch (c : Nat)                          -- &ch, 1
  | ptr (off n : Nat)                     -- (str.data() + off, n): a pointer into the characters of the string object
  deriving Repr

def Arg.src (other : Str) : Arg → Except Err Src
  | .ptrn s n => if n > s.length then .error (.pre "argument range inside its array") else .ok ⟨s, 0, n⟩
  | .cstr s => do let n ← cstrLen (s ++ [0]); .ok ⟨s ++ [0], 0, n⟩
  | .range s => .ok ⟨s, 0, s.length⟩
  | .view s => .ok ⟨s, 0, s.length⟩
  | .viewsub s pos count =>
    if pos > s.length then .error (.pre "string_view::substr: pos <= size()") else .ok ⟨s, pos, min count (s.length - pos)⟩
  | .str => do let n ← other.size; .ok ⟨other.buf, 0, n⟩
  | .strsub pos count => do let t ← other.substr pos count; let n ← t.size; .ok ⟨t.buf, 0, n⟩
  | .strsubv pos count => do
    let n ← other.size
    if pos > n then .error (.pre "string_view::substr: pos <= size()") else .ok ⟨other.buf, pos, min count (n - pos)⟩
  | .ch c => .ok ⟨[c], 0, 1⟩
  | .ptr off n => do
    let sz ← other.size
    if off + n > sz then .error (.pre "argument range inside the characters of the string") else .ok ⟨other.buf, off, n⟩

/-- the characters the argument denotes according to the standard (`none`: the call is not defined) -/
def Arg.den (other : Spec.Str) : Arg → Option Spec.Str
  | .ptrn s n => if n > s.length then none else some (s.take n)
  | .cstr s => some (s.takeWhile (· ≠ 0))
  | .range s => some s
  | .view s => some s
  | .viewsub s pos count => if pos > s.length then none else some (Spec.substr s pos count)
  | .str => some other
  | .strsub pos count => if pos > other.length then none else some (Spec.substr other pos count)
  | .strsubv pos count => if pos > other.length then none else some (Spec.substr other pos count)
  | .ch c => some [c]
  | .ptr off n => if off + n > other.length then none else some (Spec.substr other off n)

/-- the characters of the view an overload builds from its argument -/
def Arg.units (other : Str) (a : Arg) : Except Err Units := do
  let s ← a.src other
  .ok (Spec.seg s.arr s.off s.len)

/-! ### search members: every overload builds a view of its argument and delegates to `basic_string_view`
    (C08 model); `pos = none` is the call without `pos`, resolved with the default *written in the header* -/

/-- `find(str|s|ch, pos = 0)`, `find(s, pos, count)`: `etl::strings::find(*this, view, pos)` -/
def Str.find (s o : Str) (a : Arg) (pos : Option Nat) : Except Err (Option Nat) := do
  let h ← s.chars
  let n ← a.units o
  stringsFind h n (pos.getD 0)

/-- `rfind(str|s|ch, pos = 0)`, `rfind(s, pos, count)`: the header's default is 0 (std: npos — known finding);
    the `Char` overload goes to `basic_string_view::rfind(Char, pos)` -/
def Str.rfind (s o : Str) (a : Arg) (pos : Option Nat) : Except Err (Option Nat) := do
  let h ← s.chars
  let n ← a.units o
  match a with
  | .ch c => C08.rfindChar h c (pos.getD 0)
  | _ => C08.rfind h n (pos.getD 0)

/-- `find_first_of(…, pos = 0)`: all overloads end in `find_first_of(s, pos, count)` with its `pos < size()` guard -/
def Str.findFirstOf (s o : Str) (a : Arg) (pos : Option Nat) : Except Err (Option Nat) := do
  let h ← s.chars
  let n ← a.units o
  C04.findFirstOf h n (pos.getD 0)

/-- `find_first_not_of(…, pos = 0)`; the `Char` overload has its own loop in `basic_string_view` -/
def Str.findFirstNotOf (s o : Str) (a : Arg) (pos : Option Nat) : Except Err (Option Nat) := do
  let h ← s.chars
  let n ← a.units o
  match a with
  | .ch c => C08.findFirstNotOfChar h c (pos.getD 0)
  | _ => C08.findFirstNotOf h n (pos.getD 0)

/-- `find_last_of(…, pos = npos)` -/
def Str.findLastOf (s o : Str) (a : Arg) (pos : Option Nat) : Except Err (Option Nat) := do
  let h ← s.chars
  let n ← a.units o
  C08.findLastOf h n (pos.getD NPOS)

/-- `find_last_not_of(…, pos = npos)` -/
def Str.findLastNotOf (s o : Str) (a : Arg) (pos : Option Nat) : Except Err (Option Nat) := do
  let h ← s.chars
  let n ← a.units o
  C08.findLastNotOf h n (pos.getD NPOS)

/-- `starts_with(sv|c|s)` -/
def Str.startsWith (s o : Str) (a : Arg) : Except Err Bool := do
  let h ← s.chars
  let n ← a.units o
  match a with
  | .ch c => C08.startsWithChar h c
  | _ => C08.startsWith h n

/-- `ends_with(sv|c|s)` -/
def Str.endsWith (s o : Str) (a : Arg) : Except Err Bool := do
  let h ← s.chars
  let n ← a.units o
  match a with
  | .ch c => C08.endsWithChar h c
  | _ => C08.endsWith h n

/-- `contains(sv|c|s)`: `find(…) != npos` on the view -/
def Str.contains (s o : Str) (a : Arg) : Except Err Bool := do
  let h ← s.chars
  let n ← a.units o
  C08.contains h n

/-! ### operator+ : a copy of the left operand (for a string: the defaulted copy constructor = the same object
    value), then `append(rhs)` -/

/-- `operator+(string, string)`: `str.append(rhs)` = the push_back loop over `[rhs.begin(), rhs.end())` -/
def plusStrStr (a b : Str) : Except Err Str := do
  let src ← Arg.src b .str
  appendRange src.arr src.len src.off a

/-- `operator+(string, Char const*)`: `str.append(rhs)` = `append(rhs, traits_type::length(rhs))` -/
def plusStrCstr (a : Str) (z : Units) : Except Err Str := do
  let src ← Arg.src a (.cstr z)
  a.appendPtrN src

/-- `operator+(string, Char)`: `str.append(1, rhs)` -/
def plusStrCh (a : Str) (c : Nat) : Except Err Str := a.appendFill 1 c

/-- `operator+(Char const*, string)`: `basic_inplace_string{lhs}` (needs `length(lhs) <= Capacity`), `append(rhs)` -/
def plusCstrStr (z : Units) (b : Str) : Except Err Str := do
  let src ← Arg.src b (.cstr z)
  let t ← ctorPtrLen b.cap src.arr src.off src.len
  let r ← Arg.src b .str
  appendRange r.arr r.len r.off t

/-- `operator+(Char, string)`: `basic_inplace_string{1, lhs}` (needs `1 <= Capacity`), `append(rhs)` -/
def plusChStr (c : Nat) (b : Str) : Except Err Str := do
  let t ← ctorFill b.cap 1 c
  let r ← Arg.src b .str
  appendRange r.arr r.len r.off t

/-! ### free `etl::erase_if(c, pred)` -/

/-- `etl::find_if(first, last, pred)`; returns the index -/
def findIfLoopP (b : Units) (p : Nat → Bool) : Nat → Nat → Except Err Nat
  | 0, i => .ok i
  | n + 1, i => do
    let x ← rd b i
    if p x then .ok i else findIfLoopP b p n (i + 1)

/-- the `for (auto i = first; ++i != last;)` loop of `etl::remove_if` -/
def removeLoopP (p : Nat → Bool) : Nat → Nat → Nat → Units → Except Err (Units × Nat)
  | 0, _, first, b => .ok (b, first)
  | n + 1, i, first, b => do
    let x ← rd b i
    if !p x then
      let b1 ← wr b first x
      removeLoopP p n (i + 1) (first + 1) b1
    else removeLoopP p n (i + 1) first b

/-- `etl::erase_if(c, pred)`: `it = remove_if(begin, end, pred); r = distance(it, end); c.erase(it, end); return r;` -/
def Str.eraseIf (s : Str) (p : Nat → Bool) : Except Err (Str × Nat) := do
  let sz ← s.size
  let first ← findIfLoopP s.buf p sz 0
  let r ← if first ≠ sz then removeLoopP p (sz - first - 1) (first + 1) first s.buf else .ok (s.buf, first)
  let s1 : Str := { s with buf := r.1 }
  let e ← s1.eraseRange r.2 sz
  .ok (e.1, sz - r.2)

/-! ### self-aliasing arguments: the argument is (a part of) the string that is being modified.
    The loops below read the buffer they write, exactly as the code does. -/

/-- `etl::copy(str, str + n, end())` with `str = data() + si` -/
def copyLoopSelf : Nat → Nat → Nat → Units → Except Err Units
  | 0, _, _, b => .ok b
  | n + 1, si, di, b => do
    let x ← rd b si
    let b1 ← wr b di x
    copyLoopSelf n (si + 1) (di + 1) b1

/-- `append(data() + off, len)` -/
def Str.appendPtrNSelf (s : Str) (off len : Nat) : Except Err Str := do
  let sz ← s.size
  let safeCount := min len (s.cap - sz)
  let b ← copyLoopSelf safeCount off sz s.buf
  ({ s with buf := b } : Str).unsafeSetSize (sz + safeCount)

/-- `append(begin() + i, begin() + i + n)` on the string itself: each `*first` reads the current buffer -/
def appendRangeSelf : Nat → Nat → Str → Except Err Str
  | 0, _, s => .ok s
  | n + 1, i, s => do
    let x ← rd s.buf i
    let s1 ← s.pushBack x
    appendRangeSelf n (i + 1) s1

/-- `insert_impl(begin() + index, data() + off, len)` -/
def Str.insertImplSelf (s : Str) (index off len : Nat) : Except Err Str := do
  let currentEnd ← s.size
  if index > currentEnd then .error (.pre "insert: index <= size()")
  else
    let s1 ← s.appendPtrNSelf off len
    let e ← s1.size
    let r ← rotate s1.buf index currentEnd e
    .ok { s1 with buf := r.1 }

/-- the members called with the string itself as argument -/
inductive SelfOp where
  | assign (a : Arg)              -- `s.assign(s)`, `s = s`, `s.assign(s, pos, count)`, `s.assign(s.data()+off, n)`
  | append (a : Arg)              -- `s.append(s)`, `s += s`, `s.append(s, pos, count)`, `s.append(s.data()+off, n)`
  | insert (index : Nat) (a : Arg) -- `s.insert(i, s)`, `s.insert(i, s, pos, count)`, `s.insert(i, s.data()+off, n)`
  deriving Repr

def SelfOp.arg : SelfOp → Arg
  | .assign a => a
  | .append a => a
  | .insert _ a => a

/-- the argument forms that can denote the string itself: `.str`, `.strsub` (through a temporary `substr`),
    `.strsubv` (through a view of the live buffer), `.ptr` (a pointer into the live buffer) -/
def Arg.isSelfForm : Arg → Bool
  | .str => true
  | .strsub .. => true
  | .strsubv .. => true
  | .ptr .. => true
  | _ => false

def Str.selfStep (s : Str) : SelfOp → Except Err Str
  -- `*this = str` on itself: the defaulted copy assignment; every other form builds a temporary string first
  | .assign .str => .ok s
  | .assign a => do
    let src ← a.src s
    ctorPtrLen s.cap src.arr src.off src.len
  -- `append(str)` = `append(str.begin(), str.end())`: both iterators are taken before the loop
  | .append .str => do
    let n ← s.size
    appendRangeSelf n 0 s
  -- `append(str, pos, count)` = `append(str.substr(pos, count))`: push_back loop over a temporary
  | .append (.strsub pos count) => do
    let src ← (Arg.strsub pos count).src s
    appendRange src.arr src.len src.off s
  | .append a => do
    let src ← a.src s
    s.appendPtrNSelf src.off src.len
  -- no header overload does this (insert takes the sub-string through a view); modelled as a temporary for totality
  | .insert index (.strsub pos count) => do
    let src ← (Arg.strsub pos count).src s
    s.insertImpl index src
  | .insert index a => do
    let src ← a.src s
    s.insertImplSelf index src.off src.len

/-- the same call with an independent copy `d` of the argument's characters -/
def SelfOp.plain (d : Units) : SelfOp → Op
  | .assign _ => .assignPtr d 0 d.length
  | .append _ => .appendPtrN d 0 d.length
  | .insert index _ => .insertImpl index d 0 d.length

end Tetl.C04
