/-
C04 line-protocol driver: prints `model <TAB> spec` for each case line.

  new cap=<n> [ct=..]                      two empty strings, obj 0 and obj 1, of that capacity
  <family> obj=<k> ov=<overload> args…      "the other object" is obj 1-k

Output of a line: `<ret> <state obj k> <state other>` with state = `size:[units]:nul`.
`pre`   : the call is outside the compared domain (std throws / UB / `\pre len <= Capacity`): nothing is executed.
`clamp inv=b`: the std result does not fit; only the invariant is compared, the reference is re-synchronised.
`ov=self|selfsub|selfsubv|selfptr`: the argument is (a part of) the string object itself (model: `Str.selfStep`, spec: the
same call with an independent copy of the denoted characters).
`erase_if pred=<eq|ne|lt|ge|odd|all|none> v=<n>`: free `etl::erase_if` with that predicate on the unsigned code unit.
Fill counts are cut to `cap+1` on the spec side only (the result does not fit either way; avoids `replicate npos`).
-/
import Tetl.Proto
import Tetl.C04.Model
import Tetl.C04.Spec
namespace Tetl.C04.Driver
open Tetl Tetl.Proto

structure St where
  cap : Nat
  m0 : Str
  m1 : Str
  s0 : Spec.Str
  s1 : Spec.Str
  /-- `ct=wchar`: `wchar_t` is a signed 32-bit type on this target, so `char_traits<wchar_t>::lt` orders a unit given as
      its 32-bit pattern u as the integer u - 2^32 when u ≥ 2^31.  Model, spec and theorems order code units as naturals
      (what `lt` does for char / char8_t / char16_t / char32_t); the `compare` and `rel` lines of a wide string are
      therefore evaluated on the images of both operands under the order isomorphism u ↦ (u + 2^31) mod 2^32
      (`ordKey`, the same device as in C08's driver): it is injective on 32-bit patterns, so equality of units is
      preserved, it commutes with `drop`/`take`/`substr`, and it turns the signed order into the natural one.  Nothing
      else in the string interface depends on the order of code units. -/
  wide : Bool := false

def ordKey (wide : Bool) (xs : List Nat) : List Nat :=
  if wide then xs.map C08.Spec.signedKey32 else xs

def fmtErr : Err → String
  | .pre _ => "pre"
  | e => e.fmt

/-- `size:[data]:nul` of a model object -/
def mState (s : Str) : String :=
  match s.size with
  | .error e => fmtErr e
  | .ok n =>
    match rd s.buf n with
    | .error e => s!"{n}:{fmtErr e}"
    | .ok t => s!"{n}:{fmtNatList (s.buf.take n)}:{fmtBool (t == 0)}"

def sState (l : Spec.Str) : String := s!"{l.length}:{fmtNatList l}:1"

def mInv (s : Str) : Bool :=
  match s.size with
  | .error _ => false
  | .ok n => n ≤ s.cap && (match rd s.buf n with | .ok t => t == 0 | .error _ => false)

def mAbs (s : Str) : Spec.Str :=
  match s.chars with
  | .ok l => l
  | .error _ => []

def posArg (l : Line) (k : String) (dflt : Option Nat := none) : Option Nat :=
  match l.pos? k with
  | some none => some NPOS
  | some (some n) => some n
  | none => if (l.get? k).isNone then dflt else none

def fmtRet : Option Nat → String
  | none => "-"
  | some n => toString n

def fmtP (r : Option Nat) : String := fmtPos r

/-- parse the sequence argument of an overload -/
def parseArg (l : Line) (ov : String) : Option Arg :=
  match ov with
  | "ptrn" => do some (.ptrn (← l.natList? "s") (← l.nat? "n"))
  | "cstr" => do some (.cstr (← l.natList? "s"))
  | "range" => do some (.range (← l.natList? "s"))
  | "view" => do some (.view (← l.natList? "s"))
  | "viewsub" => do some (.viewsub (← l.natList? "s") (← posArg l "pos2") (← posArg l "count2" (some NPOS)))
  | "str" => some .str
  | "strsub" => do some (.strsub (← posArg l "pos2") (← posArg l "count2" (some NPOS)))
  | "strsubv" => do some (.strsubv (← posArg l "pos2") (← posArg l "count2" (some NPOS)))
  | "ch" => do some (.ch (← l.nat? "ch"))
  | "self" => some .str
  | "selfsub" => do some (.strsub (← posArg l "pos2") (← posArg l "count2" (some NPOS)))
  | "selfsubv" => do some (.strsubv (← posArg l "pos2") (← posArg l "count2" (some NPOS)))
  | "selfptr" => do some (.ptr (← l.nat? "off") (← l.nat? "n"))
  | _ => none

/-- the predicates of the `erase_if` lines -/
def parsePred (l : Line) : Option (Nat → Bool) :=
  let v := (l.nat? "v").getD 0
  match l.str? "pred" with
  | some "eq" => some fun x => x == v
  | some "ne" => some fun x => x != v
  | some "lt" => some fun x => x < v
  | some "ge" => some fun x => x ≥ v
  | some "odd" => some fun x => x % 2 == 1
  | some "all" => some fun _ => true
  | some "none" => some fun _ => false
  | _ => none

structure Sel where
  k : Nat
  m : Str
  o : Str
  s : Spec.Str
  so : Spec.Str

def St.sel (st : St) (k : Nat) : Sel :=
  if k == 0 then ⟨0, st.m0, st.m1, st.s0, st.s1⟩ else ⟨1, st.m1, st.m0, st.s1, st.s0⟩

def St.put (st : St) (k : Nat) (m : Str) (s : Spec.Str) : St :=
  if k == 0 then { st with m0 := m, s0 := s } else { st with m1 := m, s1 := s }

def bad (st : Option St) : Option St × String := (st, "bad-op\tbad-op")

/-- a mutating step: model op / spec op (they differ only in how the argument array is represented) -/
def mutateR (st : St) (x : Sel) (modelRes : Except Err (Str × Option Nat)) (sop : Option Op) : Option St × String :=
  let specOut : String × Option (Spec.Str × Bool) :=      -- (text, new spec state / clamp flag)
    match sop with
    | none => ("pre", none)
    | some op =>
      if !Spec.valid x.s op then ("pre", none)
      else if !Spec.fits st.cap x.s op then
        (if Spec.isAssign op then ("pre", none) else ("clamp inv=1", some ([], true)))
      else
        let r := Spec.step x.s op
        (s!"{fmtRet r.2} {sState r.1} {sState x.so}", some (r.1, false))
  match modelRes, specOut with
  | .error e, (txt, _) => (some st, fmtErr e ++ "\t" ++ txt)
  | .ok (m', r), (txt, none) =>
    -- spec says pre, model executed: report the model state, keep the old state
    (some st, s!"{fmtRet r} {mState m'} {mState x.o}" ++ "\t" ++ txt)
  | .ok (m', _), (txt, some (_, true)) =>
    (some (st.put x.k m' (mAbs m')), s!"clamp inv={fmtBool (mInv m')}" ++ "\t" ++ txt)
  | .ok (m', r), (txt, some (s', false)) =>
    (some (st.put x.k m' s'), s!"{fmtRet r} {mState m'} {mState x.o}" ++ "\t" ++ txt)

def mutate (st : St) (x : Sel) (mop : Except Err Op) (sop : Option Op) : Option St × String :=
  mutateR st x (do let op ← mop; x.m.step op) sop

/-- a query: the model result and the spec result as text; states are appended -/
def query (st : St) (x : Sel) (m : Except Err String) (s : Option String) : Option St × String :=
  let mt := match m with
    | .ok t => s!"{t} {mState x.m} {mState x.o}"
    | .error e => fmtErr e
  let stx := match s with
    | some t => s!"{t} {sState x.s} {sState x.so}"
    | none => "pre"
  (some st, mt ++ "\t" ++ stx)

def rels6 (c : Int) : String :=
  String.join [fmtBool (c == 0), fmtBool (c != 0), fmtBool (c < 0), fmtBool (c ≤ 0), fmtBool (c > 0), fmtBool (c ≥ 0)]

def srcOp (f : Units → Nat → Nat → Op) (a : Except Err Src) : Except Err Op := do
  let s ← a
  .ok (f s.arr s.off s.len)
def denOp (f : Units → Nat → Nat → Op) (d : Option Spec.Str) : Option Op :=
  d.map fun l => f l 0 l.length

/-- result string of `substr` / `operator+` as text -/
def resultStr (cap : Nat) (m : Except Err Str) (s : Option Spec.Str) (assignLike : Bool) : Except Err String × Option String :=
  match s with
  | none => (m.map mState, none)
  | some l =>
    if l.length > cap then
      if assignLike then (m.map mState, none)
      else (m.map fun r => s!"clamp inv={fmtBool (mInv r)}", some "clamp inv=1")
    else (m.map mState, some (sState l))

def step (st? : Option St) (l : Line) : Option St × String :=
  if l.op == "new" then
    match l.nat? "cap" with
    | some cap => (some ⟨cap, Str.mk0 cap, Str.mk0 cap, [], [], (l.str? "ct").getD "char" == "wchar"⟩, s!"new {mState (Str.mk0 cap)}\tnew 0:[]:1")
    | none => bad st?
  else
  match st? with
  | none => bad st?
  | some st =>
  let k := (l.nat? "obj").getD 0
  let x := st.sel k
  let ov := (l.str? "ov").getD ""
  let arg := parseArg l ov
  let isSelf := ov.startsWith "self"
  -- a member called with (a part of) the string itself: model `selfStep`, spec = the call with an independent copy
  let selfCall (mk : Arg → SelfOp) : Option St × String :=
    match arg with
    | some a => mutateR st x (do let m' ← x.m.selfStep (mk a); .ok (m', none)) ((a.den x.s).map fun d => (mk a).plain d)
    | none => bad st?
  let h := x.m.chars
  -- needle of a compare overload: (model view, spec view)
  let needle : Option (Except Err Units × Option Spec.Str) :=
    arg.map fun a => (a.units x.o, a.den x.so)
  match l.op with
  | "state" => query st x (.ok "-") (some "-")
  | "raw" => (some st, s!"{fmtNatList x.m.buf}\t*")
  | "info" =>
    query st x (do let n ← x.m.size; .ok s!"{fmtBool (n == 0)}{fmtBool (n == st.cap)} {n} {st.cap}")
      (some s!"{fmtBool (x.s.length == 0)}{fmtBool (x.s.length == st.cap)} {x.s.length} {st.cap}")
  | "at" =>
    match l.nat? "pos" with
    | some p => query st x (do .ok (toString (← x.m.at p)))
        (if p > x.s.length then none else some (toString ((x.s ++ [0])[p]?.getD 0)))
    | none => bad st?
  | "front" => query st x (do .ok (toString (← x.m.front))) (x.s.head?.map toString)
  | "back" => query st x (do .ok (toString (← x.m.back))) (x.s.getLast?.map toString)
  | "assign" | "opassign" | "ctor" =>
    if isSelf then selfCall .assign
    else if ov == "fill" then
      match l.nat? "count", l.nat? "ch" with
      | some c, some ch => mutate st x (.ok (.assignFill c ch)) (some (.assignFill (min c (st.cap + 1)) ch))
      | _, _ => bad st?
    else if ov == "copy" || ov == "str" then
      -- `*this = str` / copy constructor: the defaulted copy of the whole object (both strings have one capacity)
      mutateR st x (.ok (x.o, none)) (denOp .assignPtr (Arg.den x.so .str))
    else if ov == "strpos" then       -- ctor(other, pos) = other.substr(pos, other.size())
      match posArg l "pos2" with
      | some p =>
        let a := Arg.strsub p x.so.length
        let am := (do let n ← x.o.size; Arg.src x.o (.strsub p n))
        mutate st x (srcOp .assignPtr am) (denOp .assignPtr (a.den x.so))
      | none => bad st?
    else match arg with
      | some a => mutate st x (srcOp .assignPtr (a.src x.o)) (denOp .assignPtr (a.den x.so))
      | none => bad st?
  | "clear" => mutate st x (.ok .clear) (some .clear)
  | "push_back" =>
    match l.nat? "ch" with
    | some c => mutate st x (.ok (.pushBack c)) (some (.pushBack c))
    | none => bad st?
  | "pop_back" => mutate st x (.ok .popBack) (some .popBack)
  | "append" | "pluseq" =>
    if isSelf then selfCall .append
    else if ov == "fill" then
      match posArg l "count", l.nat? "ch" with
      | some c, some ch => mutate st x (.ok (.appendFill c ch)) (some (.appendFill (min c (st.cap + 1)) ch))
      | _, _ => bad st?
    else if ov == "ch" then
      match l.nat? "ch" with
      | some ch => mutate st x (.ok (.appendFill 1 ch)) (some (.appendFill 1 ch))
      | none => bad st?
    else match arg with
      | some a =>
        -- append(first,last), append(str), append(str,pos,count) push_back one by one; the others copy
        let viaRange := ov == "range" || ov == "str" || ov == "strsub"
        let f := if viaRange then Op.appendRange else Op.appendPtrN
        mutate st x (srcOp f (a.src x.o)) (denOp f (a.den x.so))
      | none => bad st?
  | "insert" =>
    match l.nat? "idx" with
    | none => bad st?
    | some idx =>
      if isSelf then selfCall (.insert idx)
      else if ov == "fill" then
        match l.nat? "count", l.nat? "ch" with
        | some c, some ch => mutate st x (.ok (.insertFill idx c ch)) (some (.insertFill idx (min c (st.cap + 1)) ch))
        | _, _ => bad st?
      else match arg with
        | some a => mutate st x (srcOp (.insertImpl idx) (a.src x.o)) (denOp (.insertImpl idx) (a.den x.so))
        | none => bad st?
  | "erase" =>
    match ov with
    | "idx" =>
      match posArg l "idx" (some 0), posArg l "count" (some NPOS) with
      | some i, some c => mutate st x (.ok (.eraseIdx i c)) (some (.eraseIdx i c))
      | _, _ => bad st?
    | "it" =>
      match l.nat? "pos" with
      | some p => mutate st x (.ok (.eraseIt p)) (some (.eraseIt p))
      | none => bad st?
    | "range" =>
      match l.nat? "first", l.nat? "last" with
      | some f, some la => mutate st x (.ok (.eraseRange f la)) (some (.eraseRange f la))
      | _, _ => bad st?
    | _ => bad st?
  | "erase_value" =>
    match l.nat? "ch" with
    | some v => mutate st x (.ok (.eraseValue v)) (some (.eraseValue v))
    | none => bad st?
  | "erase_if" =>
    match parsePred l with
    | some p =>
      let keep := x.s.filter fun c => !p c
      match x.m.eraseIf p with
      | .error e => (some st, fmtErr e ++ "\t" ++ s!"{x.s.length - keep.length} {sState keep} {sState x.so}")
      | .ok (m', r) =>
        (some (st.put x.k m' keep), s!"{r} {mState m'} {mState x.o}" ++ "\t" ++ s!"{x.s.length - keep.length} {sState keep} {sState x.so}")
    | none => bad st?
  | "resize" =>
    match posArg l "count", l.nat? "ch" with
    | some c, ch => mutate st x (.ok (.resize c (ch.getD 0))) (some (.resize (min c (st.cap + 1)) (ch.getD 0)))
    | _, _ => bad st?
  | "swap" =>
    match x.m.swap x.o with
    | .error e => (some st, fmtErr e ++ "\t" ++ s!"- {sState x.so} {sState x.s}")
    | .ok (a, b) =>
      let st' := (st.put x.k a x.so).put (1 - x.k) b x.s
      (some st', s!"- {mState a} {mState b}" ++ "\t" ++ s!"- {sState x.so} {sState x.s}")
  | "substr" =>
    match posArg l "pos" (some 0), posArg l "count" (some NPOS) with
    | some p, some c =>
      let r := resultStr st.cap (x.m.substr p c) (if p > x.s.length then none else some (Spec.substr x.s p c)) true
      query st x r.1 r.2
    | _, _ => bad st?
  | "copy" =>
    match posArg l "count", posArg l "pos" (some 0) with
    | some c, some p =>
      query st x (do let r ← x.m.copyTo c p; .ok s!"{r.1}:{fmtNatList r.2}")
        (if p > x.s.length then none else let r := Spec.substr x.s p c; some s!"{r.length}:{fmtNatList r}")
    | _, _ => bad st?
  | "plus" =>
    match ov with
    | "strstr" =>
      let r := resultStr st.cap (plusStrStr x.m x.o) (some (x.s ++ x.so)) false
      query st x r.1 r.2
    | "strcstr" =>
      match l.natList? "s" with
      | some s =>
        let r := resultStr st.cap (plusStrCstr x.m s) (some (x.s ++ s.takeWhile (· ≠ 0))) false
        query st x r.1 r.2
      | none => bad st?
    | "strch" =>
      match l.nat? "ch" with
      | some c =>
        let r := resultStr st.cap (plusStrCh x.m c) (some (x.s ++ [c])) false
        query st x r.1 r.2
      | none => bad st?
    | "cstrstr" =>
      match l.natList? "s" with
      | some s =>
        let lhs := s.takeWhile (· ≠ 0)
        let m := plusCstrStr s x.m
        if lhs.length > st.cap then query st x (m.map mState) none
        else
          let r := resultStr st.cap m (some (lhs ++ x.s)) false
          query st x r.1 r.2
      | none => bad st?
    | "chstr" =>
      match l.nat? "ch" with
      | some c =>
        let m := plusChStr c x.m
        if 1 > st.cap then query st x (m.map mState) none
        else
          let r := resultStr st.cap m (some (c :: x.s)) false
          query st x r.1 r.2
      | none => bad st?
    | _ => bad st?
  | "compare" =>
    let p1 := posArg l "pos"
    let c1 := posArg l "count"
    let p2 := posArg l "pos2"
    let c2 := posArg l "count2" (some NPOS)
    let sgn (i : Int) : String := fmtSign i
    let ok := ordKey st.wide
    let okE (u : Except Err Units) : Except Err Units := u.map ok
    -- spec side: for wide strings the signed comparison of the raw units (`C08.Props.cmpSigned_eq_cmp_key`)
    let scmp (a b : Spec.Str) : Int := if st.wide then C08.Spec.cmpSigned a b else C08.Spec.cmp a b
    match ov with
    | "str" | "cstr" | "view" =>
      match needle with
      | some (nm, ns) => query st x (do .ok (sgn (← C08.compare (← okE h) (← okE nm)))) (ns.map fun n => sgn (scmp x.s n))
      | none => bad st?
    | "str3" | "cstr3" | "ptrn4" | "view3" =>
      let a : Option Arg := match ov with
        | "str3" => some .str
        | "cstr3" => (l.natList? "s").map .cstr
        | "ptrn4" => do some (.ptrn (← l.natList? "s") (← l.nat? "n"))
        | _ => (l.natList? "s").map .view
      match a, p1, c1 with
      | some a, some p1, some c1 =>
        let nm : Except Err Units := do let s ← a.src x.o; .ok ((s.arr.drop s.off).take s.len)
        let m := do
          let hh ← okE h
          let n ← okE nm
          if ov == "view3" then C08.compare3 hh p1 c1 n else compare3 hh p1 c1 n
        let s := do
          let n ← a.den x.so
          if p1 > x.s.length then none else some (sgn (scmp (Spec.substr x.s p1 c1) n))
        query st x (m.map sgn) s
      | _, _, _ => bad st?
    | "str5" | "view5" =>
      let a : Option Arg := if ov == "str5" then some .str else (l.natList? "s").map .view
      match a, p1, c1, p2, c2 with
      | some a, some p1, some c1, some p2, some c2 =>
        let nm : Except Err Units := do let s ← a.src x.o; .ok ((s.arr.drop s.off).take s.len)
        let m := do
          let hh ← okE h
          let n ← okE nm
          if ov == "view5" then C08.compare5 hh p1 c1 n p2 c2 else compare5 hh p1 c1 n p2 c2
        let s := do
          let n ← a.den x.so
          if p1 > x.s.length || p2 > n.length then none
          else some (sgn (scmp (Spec.substr x.s p1 c1) (Spec.substr n p2 c2)))
        query st x (m.map sgn) s
      | _, _, _, _, _ => bad st?
    | _ => bad st?
  | "rel" =>
    let ok := ordKey st.wide
    let okE (u : Except Err Units) : Except Err Units := u.map ok
    -- spec side: for wide strings the signed comparison of the raw units (`C08.Props.cmpSigned_eq_cmp_key`)
    let scmp (a b : Spec.Str) : Int := if st.wide then C08.Spec.cmpSigned a b else C08.Spec.cmp a b
    match ov with
    | "strstr" =>
      query st x (do .ok (rels6 (← C08.compare (← okE h) (← okE x.o.chars)))) (some (rels6 (scmp x.s x.so)))
    | "strcstr" | "cstrstr" =>
      match l.natList? "s" with
      | some s =>
        let n := s.takeWhile (· ≠ 0)
        let flip := ov == "cstrstr"
        let m := do
          let a ← Arg.src x.o (.cstr s)
          let c ← C08.compare (← okE h) (ok ((a.arr.drop a.off).take a.len))
          .ok (rels6 (if flip then -c else c))
        let c := scmp x.s n
        query st x m (some (rels6 (if flip then -c else c)))
      | none => bad st?
    | _ => bad st?
  | "starts_with" | "ends_with" | "contains" =>
    match arg with
    | none => bad st?
    | some a =>
      let m : Except Err Bool :=
        match l.op with
        | "starts_with" => x.m.startsWith x.o a
        | "ends_with" => x.m.endsWith x.o a
        | _ => x.m.contains x.o a
      let s := (a.den x.so).map fun n =>
        match l.op with
        | "starts_with" => C08.Spec.startsWith x.s n
        | "ends_with" => C08.Spec.endsWith x.s n
        | _ => C08.Spec.contains x.s n
      query st x (m.map fmtBool) (s.map fmtBool)
  | "find" | "rfind" | "find_first_of" | "find_first_not_of" | "find_last_of" | "find_last_not_of" =>
    match arg with
    | none => bad st?
    | some a =>
      -- `pos` absent: the model resolves the default written in the header, the spec uses the default of the standard
      let forward := l.op == "find" || l.op == "find_first_of" || l.op == "find_first_not_of"
      let dfltSpec : Nat := if forward then 0 else NPOS
      let posM : Option (Option Nat) := if (l.get? "pos").isNone then some none else (posArg l "pos").map some
      match posM with
      | some pm =>
        let ps := pm.getD dfltSpec
        let m : Except Err (Option Nat) :=
          match l.op with
          | "find" => x.m.find x.o a pm
          | "rfind" => x.m.rfind x.o a pm
          | "find_first_of" => x.m.findFirstOf x.o a pm
          | "find_first_not_of" => x.m.findFirstNotOf x.o a pm
          | "find_last_of" => x.m.findLastOf x.o a pm
          | _ => x.m.findLastNotOf x.o a pm
        let s := (a.den x.so).map fun n =>
          match l.op with
          | "find" => C08.Spec.find x.s n ps
          | "rfind" => C08.Spec.rfind x.s n ps
          | "find_first_of" => C08.Spec.findFirstOf x.s n ps
          | "find_first_not_of" => C08.Spec.findFirstNotOf x.s n ps
          | "find_last_of" => C08.Spec.findLastOf x.s n ps
          | _ => C08.Spec.findLastNotOf x.s n ps
        query st x (m.map fmtP) (s.map fmtP)
      | none => bad st?
  | "replace" =>
    -- overwrite-only family (known finding): the spec is std::replace, the model is str_replace
    let p1 := posArg l "pos"
    let c1 := posArg l "count"
    let fi := l.nat? "first"
    let la := l.nat? "last"
    let specRepl (p n : Nat) (xs : Option Spec.Str) : Option (Spec.Str) :=
      match xs with
      | none => none
      | some xs => if p > x.s.length then none else some (Spec.replace x.s p n xs)
    let finish (m : Except Err Str) (s : Option Spec.Str) : Option St × String :=
      let stx := match s with
        | none => "pre"
        | some r => if r.length > st.cap then "clamp inv=1" else s!"- {sState r} {sState x.so}"
      match m with
      | .error e => (some st, fmtErr e ++ "\t" ++ stx)
      | .ok m' =>
        match s with
        | none => (some st, s!"- {mState m'} {mState x.o}" ++ "\t" ++ stx)
        | some r =>
          if r.length > st.cap then (some (st.put x.k m' (mAbs m')), s!"clamp inv={fmtBool (mInv m')}" ++ "\t" ++ stx)
          else (some (st.put x.k m' r), s!"- {mState m'} {mState x.o}" ++ "\t" ++ stx)
    match ov with
    | "str" | "ptrn" | "cstr" | "str5" =>
      let a : Option Arg := match ov with
        | "str" | "str5" => some .str
        | "ptrn" => do some (.ptrn (← l.natList? "s") (← l.nat? "n"))
        | _ => (l.natList? "s").map .cstr
      match a, p1, c1 with
      | some a, some p, some c =>
        if ov == "str5" then
          match posArg l "pos2", posArg l "count2" (some NPOS) with
          | some p2, some c2 =>
            let m := do
              let n ← x.o.size
              x.m.replaceB p c x.o.buf (min p2 n) (min ((p2 + c2) % W64) n)
            let den := if p2 > x.so.length then none else some (Spec.substr x.so p2 c2)
            finish m (specRepl p c den)
          | _, _ => bad st?
        else
          let m := do
            let s ← a.src x.o
            if ov == "str" then x.m.replaceA p c s.arr s.off (s.off + s.len)
            else x.m.replaceB p c s.arr s.off (s.off + s.len)
          finish m (specRepl p c (a.den x.so))
      | _, _, _ => bad st?
    | "itstr" | "itptrn" | "itcstr" =>
      let a : Option Arg := match ov with
        | "itstr" => some .str
        | "itptrn" => do some (.ptrn (← l.natList? "s") (← l.nat? "n"))
        | _ => (l.natList? "s").map .cstr
      match a, fi, la with
      | some a, some f, some t =>
        let m := do
          let s ← a.src x.o
          x.m.replaceIt f t s.arr s.off (s.off + s.len)
        let s := if f > t || t > x.s.length then none else specRepl f (t - f) (a.den x.so)
        finish m s
      | _, _, _ => bad st?
    | "itfill" =>
      match fi, la, l.nat? "count2", l.nat? "ch" with
      | some f, some t, some c2, some ch =>
        let s := if f > t || t > x.s.length then none else specRepl f (t - f) (some (List.replicate c2 ch))
        finish (x.m.replaceItFill f t c2 ch) s
      | _, _, _, _ => bad st?
    | _ => bad st?
  | _ => bad st?

end Tetl.C04.Driver

def main : IO Unit := Tetl.Proto.runDriver (none : Option Tetl.C04.Driver.St) Tetl.C04.Driver.step
