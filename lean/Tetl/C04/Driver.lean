/- placeholder: the C04 driver is not built yet -/
def main : IO Unit := IO.println "C04: driver not built yet"
