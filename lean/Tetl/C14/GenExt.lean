/-
C14 — the two loop functions that the generated kernels (Tetl/C14/Gen.lean, gen/translate.py job set BITS_JOBS) call but
the translator does not carry: `countl_zero` (a `while` loop) and `popcount` (builtin / loop fallback).  They are the HAND
model's functions (Tetl/C14/Model.lean, proved against the arithmetic spec in TetlProofs/C14/Props.lean), re-typed to the
generated code's conventions: arguments and results are `Int`, "cannot fail" is a separate Bool (`…Ok`, used as the callee's
`_ub` obligation).  Tie of these two to the source: the correspondence run (tie H), as before.
-/
import Tetl.C14.Model
namespace Tetl.C14.GenExt
open Tetl Tetl.C14

def val (r : Except Err Nat) : Int := match r with | .ok v => (v : Int) | .error _ => 0
def isOk (r : Except Err Nat) : Bool := match r with | .ok _ => true | .error _ => false

def countlZero (w : Nat) (x : Int) : Int := val (Tetl.C14.countlZero w x.toNat)
def countlZeroOk (w : Nat) (x : Int) : Bool := isOk (Tetl.C14.countlZero w x.toNat)
def popcount (w : Nat) (x : Int) : Int := val (Tetl.C14.popcount w x.toNat)
def popcountOk (w : Nat) (x : Int) : Bool := isOk (Tetl.C14.popcount w x.toNat)

end Tetl.C14.GenExt
