/-
C14 — reference semantics: what [bit], [numeric.ops], [utility.intcmp] of the C++ standard (and exact
integer arithmetic for the tetl-only helpers) prescribe, written with `Nat`/`Int` arithmetic only:
no shifts, masks, loops over machine words or promoted types.
-/
namespace Tetl.C14.Spec

/-- number of 1 bits among the low `w` bits -/
def popcount (w x : Nat) : Nat := ((List.range w).filter (fun i => x.testBit i)).length

/-- [bit.pow.two] `bit_width`: 0 for 0, otherwise 1 + floor(log2 x) -/
def bitWidth (x : Nat) : Nat := if x = 0 then 0 else Nat.log2 x + 1

/-- number of consecutive 0 bits starting from the most significant of `w` bits -/
def countlZero (w x : Nat) : Nat := w - bitWidth x
/-- number of consecutive 1 bits from the most significant: leading zeros of the complement -/
def countlOne (w x : Nat) : Nat := w - bitWidth (2 ^ w - 1 - x)
/-- index of the lowest 1 bit, `w` if there is none -/
def countrZero (w x : Nat) : Nat := ((List.range w).find? (fun i => x.testBit i)).getD w
/-- index of the lowest 0 bit, `w` if there is none -/
def countrOne (w x : Nat) : Nat := ((List.range w).find? (fun i => !x.testBit i)).getD w

/-- `x` is an integral power of two -/
def hasSingleBit (x : Nat) : Bool := x != 0 && x == 2 ^ Nat.log2 x
/-- largest power of two not greater than `x` (0 for 0) -/
def bitFloor (x : Nat) : Nat := if x = 0 then 0 else 2 ^ Nat.log2 x
/-- smallest power of two not smaller than `x` -/
def bitCeil (x : Nat) : Nat := if x ≤ 1 then 1 else 2 ^ (Nat.log2 (x - 1) + 1)

/-- [bit.rotate] `rotl`: `r = s mod w` (mathematical, non-negative); the `r` high bits re-enter at the bottom -/
def rotl (w x : Nat) (s : Int) : Nat :=
  let r := (s % (w : Int)).toNat
  (x * 2 ^ r) % 2 ^ w + x / 2 ^ (w - r)
def rotr (w x : Nat) (s : Int) : Nat :=
  let r := (s % (w : Int)).toNat
  x / 2 ^ r + (x * 2 ^ (w - r)) % 2 ^ w

/-- value whose `n` bytes are those of `x` in reverse order -/
def bswap : Nat → Nat → Nat
  | 0, _ => 0
  | n + 1, x => (x % 256) * 256 ^ n + bswap n (x / 256)

def testBit (word pos : Nat) : Bool := word / 2 ^ pos % 2 == 1
def setBit (word pos : Nat) : Nat := if testBit word pos then word else word + 2 ^ pos
def resetBit (word pos : Nat) : Nat := if testBit word pos then word - 2 ^ pos else word
def flipBit (word pos : Nat) : Nat := if testBit word pos then word - 2 ^ pos else word + 2 ^ pos

/-- the value of the range `[lo, hi]` nearest to `v` -/
def clampTo (lo hi v : Int) : Int := if v < lo then lo else if v > hi then hi else v

/-- [numeric.ops.midpoint]: half the sum, rounded towards `a` -/
def midpoint (a b : Int) : Int := a + Int.tdiv (b - a) 2

def gcd (m n : Int) : Int := (Int.gcd m n : Nat)
def lcm (m n : Int) : Int := (Int.lcm m n : Nat)
def abs (x : Int) : Int := (x.natAbs : Nat)
def idiv (x y : Int) : Int × Int := (Int.tdiv x y, Int.tmod x y)
def ipow (b : Int) (e : Nat) : Int := b ^ e
def ilog2 (x : Nat) : Nat := Nat.log2 x

end Tetl.C14.Spec
