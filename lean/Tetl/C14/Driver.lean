/- placeholder: the C14 driver is not built yet -/
def main : IO Unit := IO.println "C14: driver not built yet"
