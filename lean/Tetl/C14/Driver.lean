/- C14 line-protocol driver: prints `model <TAB> spec` for each case line.

   `<op> t=<type> [u=<type>] a=<int>|as=[..] [b=<int>|bs=[..]]`
   types: u8 u16 u32 u64 ull i8 i16 i32 i64 ll, and the character types of the `integral` functions
   (byteswap, abs, ilog2, ipow, ipow<2>, idiv, midpoint, gcd, lcm) as the model type of the same width and
   signedness on x86-64 Linux: ch = char (signed 8), wch = wchar_t (signed 32), ch8 = char8_t (unsigned 8),
   ch16 = char16_t (unsigned 16), ch32 = char32_t (unsigned 32).
   `midpoint_ptr t=i64 n=<len> a=<index> bs=[index,..]`: the pointer overload of midpoint on an array of
   `n` elements, pointers and result as indices.
   With a list argument the op is evaluated for every element and the results are printed as `[r1,r2,...]`.
   Tie T: wherever gen/translate.py carries the kernel (Tetl/C14/Gen.lean, regenerated from the headers on every run) the
   GENERATED function is evaluated on the same arguments; when the hand model returns a value and the generated one
   differs (or its undefined-behaviour obligation is false: `ub`) the model column reads `<model>!gen=<generated>`, which
   no implementation result equals. -/
import Tetl.Proto
import Tetl.C14.Model
import Tetl.C14.Spec
import Tetl.C14.GenDispatch
namespace Tetl.C14.Driver
open Tetl Tetl.Proto Tetl.C14

def tyOf : String → Option ITy
  | "u8" => some ⟨8, false⟩ | "u16" => some ⟨16, false⟩ | "u32" => some ⟨32, false⟩ | "u64" => some ⟨64, false⟩
  | "ull" => some ⟨64, false⟩ | "ll" => some ⟨64, true⟩
  | "i8" => some ⟨8, true⟩ | "i16" => some ⟨16, true⟩ | "i32" => some ⟨32, true⟩ | "i64" => some ⟨64, true⟩
  | "ch" => some ⟨8, true⟩ | "wch" => some ⟨32, true⟩
  | "ch8" => some ⟨8, false⟩ | "ch16" => some ⟨16, false⟩ | "ch32" => some ⟨32, false⟩
  | _ => none

/-- the character types: accepted only by the functions constrained by `integral` / `is_integral_v`
    (the `builtin_integer` / `builtin_unsigned_integer` functions do not compile for them) -/
def isCharTy (n : String) : Bool := ["ch", "wch", "ch8", "ch16", "ch32"].contains n
def charOps : List String := ["byteswap", "abs", "ilog2", "ipow2", "midpoint", "idiv", "ipow", "gcd", "lcm"]

def fmtE {α : Type} (f : α → String) : Except Err α → String
  | .ok a => f a
  | .error e => e.fmt

def sN (n : Nat) : String := toString n
def sI (i : Int) : String := toString i
def sB (b : Bool) : String := fmtBool b
def sP (p : Int × Int) : String := s!"{p.1}/{p.2}"

/-- unsigned-only ops: the argument must be a value of the type -/
def natArg (t : ITy) (a : Int) : Option Nat :=
  if !t.sg && t.inR a then some a.toNat else none

def six (eq lt gt : Bool) : String :=
  String.join [sB eq, sB (!eq), sB lt, sB gt, sB (!gt), sB (!lt)]

/-- one evaluation: `(model, spec)`; `none` = bad-op -/
def eval (len : Option Int) (op : String) (t : ITy) (u : Option ITy) (a : Int) (b : Option Int) : Option (String × String) :=
  let w := t.w
  let unsArg : Option Nat := natArg t a
  match op, unsArg, b, u with
  -- <bit>, unary
  | "popcount", some x, none, _ => some (fmtE sN (popcount w x), sN (Spec.popcount w x))
  | "popcount_fb", some x, none, _ => some (fmtE sN (popcountFallback w x), sN (Spec.popcount w x))
  | "countl_zero", some x, none, _ => some (fmtE sN (countlZero w x), sN (Spec.countlZero w x))
  | "countl_one", some x, none, _ => some (fmtE sN (countlOne w x), sN (Spec.countlOne w x))
  | "countr_zero", some x, none, _ => some (fmtE sN (countrZero w x), sN (Spec.countrZero w x))
  | "countr_one", some x, none, _ => some (fmtE sN (countrOne w x), sN (Spec.countrOne w x))
  | "bit_width", some x, none, _ => some (fmtE sN (bitWidth w x), sN (Spec.bitWidth x))
  | "bit_ceil", some x, none, _ => some (fmtE sN (bitCeil w x), sN (Spec.bitCeil x))
  | "bit_floor", some x, none, _ => some (fmtE sN (bitFloor w x), sN (Spec.bitFloor x))
  | "has_single_bit", some x, none, _ => some (fmtE sB (hasSingleBit w x), sB (Spec.hasSingleBit x))
  | "byteswap_fb", some x, none, _ => some (fmtE sN (byteswapFallback w x), sN (Spec.bswap (w / 8) x))
  | "ntoh", some x, none, _ => some (fmtE sN (ntoh w x), sN (Spec.bswap (w / 8) x))
  | "hton", some x, none, _ => some (fmtE sN (hton w x), sN (Spec.bswap (w / 8) x))
  -- <bit>, binary
  | "rotl", some x, some s, _ => some (fmtE sN (rotl w x s), sN (Spec.rotl w x s))
  | "rotr", some x, some s, _ => some (fmtE sN (rotr w x s), sN (Spec.rotr w x s))
  | "test_bit", some x, some p, _ =>
    if p < 0 then none else some (fmtE sB (testBit w x p.toNat), sB (Spec.testBit x p.toNat))
  | "set_bit", some x, some p, _ =>
    if p < 0 then none else some (fmtE sN (setBit w x p.toNat), sN (Spec.setBit x p.toNat))
  | "reset_bit", some x, some p, _ =>
    if p < 0 then none else some (fmtE sN (resetBit w x p.toNat), sN (Spec.resetBit x p.toNat))
  | "flip_bit", some x, some p, _ =>
    if p < 0 then none else some (fmtE sN (flipBit w x p.toNat), sN (Spec.flipBit x p.toNat))
  | "set_bit_1", some x, some p, _ =>
    if p < 0 then none else some (fmtE sN (setBitTo w x p.toNat true), sN (Spec.setBit x p.toNat))
  | "set_bit_0", some x, some p, _ =>
    if p < 0 then none else some (fmtE sN (setBitTo w x p.toNat false), sN (Spec.resetBit x p.toNat))
  | "saturate_cast", _, none, some f =>
    -- t = To, u = From; `a` is a value of From
    if !f.inR a then none else some (fmtE sI (saturateCast t f a), sI (Spec.clampTo t.min t.max a))
  | "in_range", _, none, some f =>
    if !f.inR a then none else some (sB (inRange t f a), sB (decide (t.min ≤ a) && decide (a ≤ t.max)))
  | _, _, _, _ =>
  if !t.inR a then none else
  match op, b, u with
  | "byteswap", none, _ =>
    some (fmtE sI (byteswap t a), sI (t.conv (Spec.bswap (w / 8) (t.uns.conv a).toNat)))
  | "abs", none, _ => some (fmtE sI (absT t a), sI (Spec.abs a))
  | "mabs", none, _ => some (fmtE sI (absM t a), sI (Spec.abs a))
  | "ilog2", none, _ => some (fmtE sI (ilog2 t a), sI (Spec.ilog2 a.toNat))
  | "ipow2", none, _ => some (fmtE sI (ipow2 t a), sI (Spec.ipow 2 a.toNat))
  | "add_sat", some y, _ =>
    if !t.inR y then none else some (fmtE sI (addSat t a y), sI (Spec.clampTo t.min t.max (a + y)))
  | "add_sat_fb", some y, _ =>
    if !t.inR y then none else some (fmtE sI (addSatFallback t a y), sI (Spec.clampTo t.min t.max (a + y)))
  | "div_sat", some y, _ =>
    if !t.inR y then none else some (fmtE sI (divSat t a y), sI (Spec.clampTo t.min t.max (Int.tdiv a y)))
  | "midpoint", some y, _ =>
    if !t.inR y then none else some (fmtE sI (midpoint t a y), sI (Spec.midpoint a y))
  | "midpoint_ptr", some y, _ =>
    match len with
    | some n => if t != ptrdiffT then none else some (fmtE sI (midpointPtr n a y), sI (Spec.midpoint a y))
    | none => none
  | "idiv", some y, _ =>
    if !t.inR y then none else some (fmtE sP (idiv t a y), sP (Spec.idiv a y))
  | "ipow", some y, _ =>
    if !t.inR y then none else some (fmtE sI (ipow t a y), sI (Spec.ipow a y.toNat))
  | "gcd", some y, some n =>
    if !n.inR y then none else some (fmtE sI (gcd t n a y), sI (Spec.gcd a y))
  | "lcm", some y, some n =>
    if !n.inR y then none else some (fmtE sI (lcm t n a y), sI (Spec.lcm a y))
  | "cmp", some y, some n =>
    if !n.inR y then none else
      let m := String.join [sB (cmpEqual t n a y), sB (cmpNotEqual t n a y), sB (cmpLess t n a y),
                            sB (cmpGreater t n a y), sB (cmpLessEqual t n a y), sB (cmpGreaterEqual t n a y)]
      some (m, six (decide (a = y)) (decide (a < y)) (decide (a > y)))
  | _, _, _ => none

def joinRes (rs : List (String × String)) : String × String :=
  ("[" ++ ",".intercalate (rs.map (·.1)) ++ "]", "[" ++ ",".intercalate (rs.map (·.2)) ++ "]")

def step (_ : Unit) (l : Line) : Unit × String :=
  let bad := ((), "bad-op\tbad-op")
  let out (r : String × String) := ((), r.1 ++ "\t" ++ r.2)
  match (l.str? "t").bind tyOf with
  | none => bad
  | some t =>
    let u := (l.str? "u").bind tyOf
    if (l.get? "u").isSome && u.isNone then bad else
    let tn := (l.str? "t").getD ""
    if isCharTy tn && (!charOps.contains l.op || ((l.get? "u").isSome && l.str? "u" != some tn)) then bad else
    if (l.str? "u").any isCharTy && !isCharTy tn then bad else
    let un := l.str? "u"
    let isVal (m : String) : Bool := m.front.isDigit || m.front == '-'
    let eval (op : String) (t : ITy) (u : Option ITy) (a : Int) (b : Option Int) : Option (String × String) :=
      match eval (l.int? "n") op t u a b with
      | none => none
      | some (m, s) =>
        match GenDispatch.eval op tn un a b with
        | some gv => if isVal m && gv != m then some (s!"{m}!gen={gv}", s) else some (m, s)
        | none => some (m, s)
    match l.int? "a", l.list? "as", l.int? "b", l.list? "bs" with
    | some a, none, b, none =>
      match eval l.op t u a b with
      | some r => out r
      | none => bad
    | none, some as, b, none =>
      match as.mapM (fun a => eval l.op t u a b) with
      | some rs => out (joinRes rs)
      | none => bad
    | some a, none, none, some bs =>
      match bs.mapM (fun b => eval l.op t u a (some b)) with
      | some rs => out (joinRes rs)
      | none => bad
    | _, _, _, _ => bad

end Tetl.C14.Driver

def main : IO Unit := Tetl.Proto.runDriver () Tetl.C14.Driver.step
