/-
C14, tie T — access to the GENERATED kernels (Tetl/C14/Gen.lean) by operation and type name, for the `!gen=` cross-check of
the driver.  WRITTEN by gen/c14_genprops.py from the fixed job names of gen/translate.py (BITS_JOBS).  A result is the text
the hand model prints for the same value; "ub" when the generated undefined-behaviour obligation is false.
-/
import Tetl.C14.Gen
namespace Tetl.C14.GenDispatch
open Tetl.C14

/-- the value is evaluated only when the obligation holds (a shift by an unchecked count would be astronomically large) -/
@[noinline] def g (ok : Bool) (v : Unit → String) : String := if ok then v () else "ub"
def sb (x : Bool) : String := if x then "1" else "0"

def u_bit_width (ty : String) (a : Int) : Option String :=
  match ty with
  | "u8" => some (g (Gen.bit_width_u8_ub a) (fun _ => toString (Gen.bit_width_u8 a)))
  | "u16" => some (g (Gen.bit_width_u16_ub a) (fun _ => toString (Gen.bit_width_u16 a)))
  | "u32" => some (g (Gen.bit_width_u32_ub a) (fun _ => toString (Gen.bit_width_u32 a)))
  | "u64" => some (g (Gen.bit_width_u64_ub a) (fun _ => toString (Gen.bit_width_u64 a)))
  | _ => none

def u_bit_ceil (ty : String) (a : Int) : Option String :=
  match ty with
  | "u8" => some (g (Gen.bit_ceil_u8_ub a) (fun _ => toString (Gen.bit_ceil_u8 a)))
  | "u16" => some (g (Gen.bit_ceil_u16_ub a) (fun _ => toString (Gen.bit_ceil_u16 a)))
  | "u32" => some (g (Gen.bit_ceil_u32_ub a) (fun _ => toString (Gen.bit_ceil_u32 a)))
  | "u64" => some (g (Gen.bit_ceil_u64_ub a) (fun _ => toString (Gen.bit_ceil_u64 a)))
  | _ => none

def u_bit_floor (ty : String) (a : Int) : Option String :=
  match ty with
  | "u8" => some (g (Gen.bit_floor_u8_ub a) (fun _ => toString (Gen.bit_floor_u8 a)))
  | "u16" => some (g (Gen.bit_floor_u16_ub a) (fun _ => toString (Gen.bit_floor_u16 a)))
  | "u32" => some (g (Gen.bit_floor_u32_ub a) (fun _ => toString (Gen.bit_floor_u32 a)))
  | "u64" => some (g (Gen.bit_floor_u64_ub a) (fun _ => toString (Gen.bit_floor_u64 a)))
  | _ => none

def u_abs (ty : String) (a : Int) : Option String :=
  match ty with
  | "u8" => some (g (Gen.abs_u8_ub a) (fun _ => toString (Gen.abs_u8 a)))
  | "u16" => some (g (Gen.abs_u16_ub a) (fun _ => toString (Gen.abs_u16 a)))
  | "u32" => some (g (Gen.abs_u32_ub a) (fun _ => toString (Gen.abs_u32 a)))
  | "u64" => some (g (Gen.abs_u64_ub a) (fun _ => toString (Gen.abs_u64 a)))
  | "i8" => some (g (Gen.abs_i8_ub a) (fun _ => toString (Gen.abs_i8 a)))
  | "i16" => some (g (Gen.abs_i16_ub a) (fun _ => toString (Gen.abs_i16 a)))
  | "i32" => some (g (Gen.abs_i32_ub a) (fun _ => toString (Gen.abs_i32 a)))
  | "i64" => some (g (Gen.abs_i64_ub a) (fun _ => toString (Gen.abs_i64 a)))
  | _ => none

def u_byteswap_fb (ty : String) (a : Int) : Option String :=
  match ty with
  | "u16" => some (g (Gen.byteswap_fallback_u16_ub a) (fun _ => toString (Gen.byteswap_fallback_u16 a)))
  | "u32" => some (g (Gen.byteswap_fallback_u32_ub a) (fun _ => toString (Gen.byteswap_fallback_u32 a)))
  | "u64" => some (g (Gen.byteswap_fallback_u64_ub a) (fun _ => toString (Gen.byteswap_fallback_u64 a)))
  | _ => none

def u_has_single_bit (ty : String) (a : Int) : Option String :=
  match ty with
  | "u8" => some (g (Gen.has_single_bit_u8_ub a) (fun _ => sb (Gen.has_single_bit_u8 a)))
  | "u16" => some (g (Gen.has_single_bit_u16_ub a) (fun _ => sb (Gen.has_single_bit_u16 a)))
  | "u32" => some (g (Gen.has_single_bit_u32_ub a) (fun _ => sb (Gen.has_single_bit_u32 a)))
  | "u64" => some (g (Gen.has_single_bit_u64_ub a) (fun _ => sb (Gen.has_single_bit_u64 a)))
  | _ => none

def b_rotl (ty : String) (a y : Int) : Option String :=
  match ty with
  | "u8" => some (g (Gen.rotl_u8_ub a y) (fun _ => toString (Gen.rotl_u8 a y)))
  | "u16" => some (g (Gen.rotl_u16_ub a y) (fun _ => toString (Gen.rotl_u16 a y)))
  | "u32" => some (g (Gen.rotl_u32_ub a y) (fun _ => toString (Gen.rotl_u32 a y)))
  | "u64" => some (g (Gen.rotl_u64_ub a y) (fun _ => toString (Gen.rotl_u64 a y)))
  | _ => none

def b_rotr (ty : String) (a y : Int) : Option String :=
  match ty with
  | "u8" => some (g (Gen.rotr_u8_ub a y) (fun _ => toString (Gen.rotr_u8 a y)))
  | "u16" => some (g (Gen.rotr_u16_ub a y) (fun _ => toString (Gen.rotr_u16 a y)))
  | "u32" => some (g (Gen.rotr_u32_ub a y) (fun _ => toString (Gen.rotr_u32 a y)))
  | "u64" => some (g (Gen.rotr_u64_ub a y) (fun _ => toString (Gen.rotr_u64 a y)))
  | _ => none

def b_set_bit (ty : String) (a y : Int) : Option String :=
  match ty with
  | "u8" => some (g (Gen.set_bit_u8_ub a y) (fun _ => toString (Gen.set_bit_u8 a y)))
  | "u16" => some (g (Gen.set_bit_u16_ub a y) (fun _ => toString (Gen.set_bit_u16 a y)))
  | "u32" => some (g (Gen.set_bit_u32_ub a y) (fun _ => toString (Gen.set_bit_u32 a y)))
  | "u64" => some (g (Gen.set_bit_u64_ub a y) (fun _ => toString (Gen.set_bit_u64 a y)))
  | _ => none

def b_reset_bit (ty : String) (a y : Int) : Option String :=
  match ty with
  | "u8" => some (g (Gen.reset_bit_u8_ub a y) (fun _ => toString (Gen.reset_bit_u8 a y)))
  | "u16" => some (g (Gen.reset_bit_u16_ub a y) (fun _ => toString (Gen.reset_bit_u16 a y)))
  | "u32" => some (g (Gen.reset_bit_u32_ub a y) (fun _ => toString (Gen.reset_bit_u32 a y)))
  | "u64" => some (g (Gen.reset_bit_u64_ub a y) (fun _ => toString (Gen.reset_bit_u64 a y)))
  | _ => none

def b_flip_bit (ty : String) (a y : Int) : Option String :=
  match ty with
  | "u8" => some (g (Gen.flip_bit_u8_ub a y) (fun _ => toString (Gen.flip_bit_u8 a y)))
  | "u16" => some (g (Gen.flip_bit_u16_ub a y) (fun _ => toString (Gen.flip_bit_u16 a y)))
  | "u32" => some (g (Gen.flip_bit_u32_ub a y) (fun _ => toString (Gen.flip_bit_u32 a y)))
  | "u64" => some (g (Gen.flip_bit_u64_ub a y) (fun _ => toString (Gen.flip_bit_u64 a y)))
  | _ => none

def b_add_sat (ty : String) (a y : Int) : Option String :=
  match ty with
  | "u8" => some (g (Gen.add_sat_u8_ub a y) (fun _ => toString (Gen.add_sat_u8 a y)))
  | "u16" => some (g (Gen.add_sat_u16_ub a y) (fun _ => toString (Gen.add_sat_u16 a y)))
  | "u32" => some (g (Gen.add_sat_u32_ub a y) (fun _ => toString (Gen.add_sat_u32 a y)))
  | "u64" => some (g (Gen.add_sat_u64_ub a y) (fun _ => toString (Gen.add_sat_u64 a y)))
  | "i8" => some (g (Gen.add_sat_i8_ub a y) (fun _ => toString (Gen.add_sat_i8 a y)))
  | "i16" => some (g (Gen.add_sat_i16_ub a y) (fun _ => toString (Gen.add_sat_i16 a y)))
  | "i32" => some (g (Gen.add_sat_i32_ub a y) (fun _ => toString (Gen.add_sat_i32 a y)))
  | "i64" => some (g (Gen.add_sat_i64_ub a y) (fun _ => toString (Gen.add_sat_i64 a y)))
  | _ => none

def b_div_sat (ty : String) (a y : Int) : Option String :=
  match ty with
  | "u8" => some (g (Gen.div_sat_u8_ub a y) (fun _ => toString (Gen.div_sat_u8 a y)))
  | "u16" => some (g (Gen.div_sat_u16_ub a y) (fun _ => toString (Gen.div_sat_u16 a y)))
  | "u32" => some (g (Gen.div_sat_u32_ub a y) (fun _ => toString (Gen.div_sat_u32 a y)))
  | "u64" => some (g (Gen.div_sat_u64_ub a y) (fun _ => toString (Gen.div_sat_u64 a y)))
  | "i8" => some (g (Gen.div_sat_i8_ub a y) (fun _ => toString (Gen.div_sat_i8 a y)))
  | "i16" => some (g (Gen.div_sat_i16_ub a y) (fun _ => toString (Gen.div_sat_i16 a y)))
  | "i32" => some (g (Gen.div_sat_i32_ub a y) (fun _ => toString (Gen.div_sat_i32 a y)))
  | "i64" => some (g (Gen.div_sat_i64_ub a y) (fun _ => toString (Gen.div_sat_i64 a y)))
  | _ => none

def b_midpoint (ty : String) (a y : Int) : Option String :=
  match ty with
  | "u8" => some (g (Gen.midpoint_u8_ub a y) (fun _ => toString (Gen.midpoint_u8 a y)))
  | "u16" => some (g (Gen.midpoint_u16_ub a y) (fun _ => toString (Gen.midpoint_u16 a y)))
  | "u32" => some (g (Gen.midpoint_u32_ub a y) (fun _ => toString (Gen.midpoint_u32 a y)))
  | "u64" => some (g (Gen.midpoint_u64_ub a y) (fun _ => toString (Gen.midpoint_u64 a y)))
  | "i8" => some (g (Gen.midpoint_i8_ub a y) (fun _ => toString (Gen.midpoint_i8 a y)))
  | "i16" => some (g (Gen.midpoint_i16_ub a y) (fun _ => toString (Gen.midpoint_i16 a y)))
  | "i32" => some (g (Gen.midpoint_i32_ub a y) (fun _ => toString (Gen.midpoint_i32 a y)))
  | "i64" => some (g (Gen.midpoint_i64_ub a y) (fun _ => toString (Gen.midpoint_i64 a y)))
  | _ => none

def b_test_bit (ty : String) (a y : Int) : Option String :=
  match ty with
  | "u8" => some (g (Gen.test_bit_u8_ub a y) (fun _ => sb (Gen.test_bit_u8 a y)))
  | "u16" => some (g (Gen.test_bit_u16_ub a y) (fun _ => sb (Gen.test_bit_u16 a y)))
  | "u32" => some (g (Gen.test_bit_u32_ub a y) (fun _ => sb (Gen.test_bit_u32 a y)))
  | "u64" => some (g (Gen.test_bit_u64_ub a y) (fun _ => sb (Gen.test_bit_u64 a y)))
  | _ => none

def b_set_bit_1 (ty : String) (a y : Int) : Option String :=
  match ty with
  | "u8" => some (g (Gen.set_bit_to_u8_ub a y true) (fun _ => toString (Gen.set_bit_to_u8 a y true)))
  | "u16" => some (g (Gen.set_bit_to_u16_ub a y true) (fun _ => toString (Gen.set_bit_to_u16 a y true)))
  | "u32" => some (g (Gen.set_bit_to_u32_ub a y true) (fun _ => toString (Gen.set_bit_to_u32 a y true)))
  | "u64" => some (g (Gen.set_bit_to_u64_ub a y true) (fun _ => toString (Gen.set_bit_to_u64 a y true)))
  | _ => none

def b_set_bit_0 (ty : String) (a y : Int) : Option String :=
  match ty with
  | "u8" => some (g (Gen.set_bit_to_u8_ub a y false) (fun _ => toString (Gen.set_bit_to_u8 a y false)))
  | "u16" => some (g (Gen.set_bit_to_u16_ub a y false) (fun _ => toString (Gen.set_bit_to_u16 a y false)))
  | "u32" => some (g (Gen.set_bit_to_u32_ub a y false) (fun _ => toString (Gen.set_bit_to_u32 a y false)))
  | "u64" => some (g (Gen.set_bit_to_u64_ub a y false) (fun _ => toString (Gen.set_bit_to_u64 a y false)))
  | _ => none

def p_cmp_u8 (ty : String) (a y : Int) : Option String :=
  match ty with
  | "u8" => some (g (Gen.cmp_equal_u8_u8_ub a y && Gen.cmp_not_equal_u8_u8_ub a y && Gen.cmp_less_u8_u8_ub a y && Gen.cmp_greater_u8_u8_ub a y && Gen.cmp_less_equal_u8_u8_ub a y && Gen.cmp_greater_equal_u8_u8_ub a y) (fun _ => String.join [sb (Gen.cmp_equal_u8_u8 a y), sb (Gen.cmp_not_equal_u8_u8 a y), sb (Gen.cmp_less_u8_u8 a y), sb (Gen.cmp_greater_u8_u8 a y), sb (Gen.cmp_less_equal_u8_u8 a y), sb (Gen.cmp_greater_equal_u8_u8 a y)]))
  | "u16" => some (g (Gen.cmp_equal_u8_u16_ub a y && Gen.cmp_not_equal_u8_u16_ub a y && Gen.cmp_less_u8_u16_ub a y && Gen.cmp_greater_u8_u16_ub a y && Gen.cmp_less_equal_u8_u16_ub a y && Gen.cmp_greater_equal_u8_u16_ub a y) (fun _ => String.join [sb (Gen.cmp_equal_u8_u16 a y), sb (Gen.cmp_not_equal_u8_u16 a y), sb (Gen.cmp_less_u8_u16 a y), sb (Gen.cmp_greater_u8_u16 a y), sb (Gen.cmp_less_equal_u8_u16 a y), sb (Gen.cmp_greater_equal_u8_u16 a y)]))
  | "u32" => some (g (Gen.cmp_equal_u8_u32_ub a y && Gen.cmp_not_equal_u8_u32_ub a y && Gen.cmp_less_u8_u32_ub a y && Gen.cmp_greater_u8_u32_ub a y && Gen.cmp_less_equal_u8_u32_ub a y && Gen.cmp_greater_equal_u8_u32_ub a y) (fun _ => String.join [sb (Gen.cmp_equal_u8_u32 a y), sb (Gen.cmp_not_equal_u8_u32 a y), sb (Gen.cmp_less_u8_u32 a y), sb (Gen.cmp_greater_u8_u32 a y), sb (Gen.cmp_less_equal_u8_u32 a y), sb (Gen.cmp_greater_equal_u8_u32 a y)]))
  | "u64" => some (g (Gen.cmp_equal_u8_u64_ub a y && Gen.cmp_not_equal_u8_u64_ub a y && Gen.cmp_less_u8_u64_ub a y && Gen.cmp_greater_u8_u64_ub a y && Gen.cmp_less_equal_u8_u64_ub a y && Gen.cmp_greater_equal_u8_u64_ub a y) (fun _ => String.join [sb (Gen.cmp_equal_u8_u64 a y), sb (Gen.cmp_not_equal_u8_u64 a y), sb (Gen.cmp_less_u8_u64 a y), sb (Gen.cmp_greater_u8_u64 a y), sb (Gen.cmp_less_equal_u8_u64 a y), sb (Gen.cmp_greater_equal_u8_u64 a y)]))
  | "i8" => some (g (Gen.cmp_equal_u8_i8_ub a y && Gen.cmp_not_equal_u8_i8_ub a y && Gen.cmp_less_u8_i8_ub a y && Gen.cmp_greater_u8_i8_ub a y && Gen.cmp_less_equal_u8_i8_ub a y && Gen.cmp_greater_equal_u8_i8_ub a y) (fun _ => String.join [sb (Gen.cmp_equal_u8_i8 a y), sb (Gen.cmp_not_equal_u8_i8 a y), sb (Gen.cmp_less_u8_i8 a y), sb (Gen.cmp_greater_u8_i8 a y), sb (Gen.cmp_less_equal_u8_i8 a y), sb (Gen.cmp_greater_equal_u8_i8 a y)]))
  | "i16" => some (g (Gen.cmp_equal_u8_i16_ub a y && Gen.cmp_not_equal_u8_i16_ub a y && Gen.cmp_less_u8_i16_ub a y && Gen.cmp_greater_u8_i16_ub a y && Gen.cmp_less_equal_u8_i16_ub a y && Gen.cmp_greater_equal_u8_i16_ub a y) (fun _ => String.join [sb (Gen.cmp_equal_u8_i16 a y), sb (Gen.cmp_not_equal_u8_i16 a y), sb (Gen.cmp_less_u8_i16 a y), sb (Gen.cmp_greater_u8_i16 a y), sb (Gen.cmp_less_equal_u8_i16 a y), sb (Gen.cmp_greater_equal_u8_i16 a y)]))
  | "i32" => some (g (Gen.cmp_equal_u8_i32_ub a y && Gen.cmp_not_equal_u8_i32_ub a y && Gen.cmp_less_u8_i32_ub a y && Gen.cmp_greater_u8_i32_ub a y && Gen.cmp_less_equal_u8_i32_ub a y && Gen.cmp_greater_equal_u8_i32_ub a y) (fun _ => String.join [sb (Gen.cmp_equal_u8_i32 a y), sb (Gen.cmp_not_equal_u8_i32 a y), sb (Gen.cmp_less_u8_i32 a y), sb (Gen.cmp_greater_u8_i32 a y), sb (Gen.cmp_less_equal_u8_i32 a y), sb (Gen.cmp_greater_equal_u8_i32 a y)]))
  | "i64" => some (g (Gen.cmp_equal_u8_i64_ub a y && Gen.cmp_not_equal_u8_i64_ub a y && Gen.cmp_less_u8_i64_ub a y && Gen.cmp_greater_u8_i64_ub a y && Gen.cmp_less_equal_u8_i64_ub a y && Gen.cmp_greater_equal_u8_i64_ub a y) (fun _ => String.join [sb (Gen.cmp_equal_u8_i64 a y), sb (Gen.cmp_not_equal_u8_i64 a y), sb (Gen.cmp_less_u8_i64 a y), sb (Gen.cmp_greater_u8_i64 a y), sb (Gen.cmp_less_equal_u8_i64 a y), sb (Gen.cmp_greater_equal_u8_i64 a y)]))
  | _ => none

def p_saturate_cast_u8 (ty : String) (a : Int) : Option String :=
  match ty with
  | "u8" => some (g (Gen.saturate_cast_u8_u8_ub a) (fun _ => toString (Gen.saturate_cast_u8_u8 a)))
  | "u16" => some (g (Gen.saturate_cast_u8_u16_ub a) (fun _ => toString (Gen.saturate_cast_u8_u16 a)))
  | "u32" => some (g (Gen.saturate_cast_u8_u32_ub a) (fun _ => toString (Gen.saturate_cast_u8_u32 a)))
  | "u64" => some (g (Gen.saturate_cast_u8_u64_ub a) (fun _ => toString (Gen.saturate_cast_u8_u64 a)))
  | "i8" => some (g (Gen.saturate_cast_u8_i8_ub a) (fun _ => toString (Gen.saturate_cast_u8_i8 a)))
  | "i16" => some (g (Gen.saturate_cast_u8_i16_ub a) (fun _ => toString (Gen.saturate_cast_u8_i16 a)))
  | "i32" => some (g (Gen.saturate_cast_u8_i32_ub a) (fun _ => toString (Gen.saturate_cast_u8_i32 a)))
  | "i64" => some (g (Gen.saturate_cast_u8_i64_ub a) (fun _ => toString (Gen.saturate_cast_u8_i64 a)))
  | _ => none

def p_in_range_u8 (ty : String) (a : Int) : Option String :=
  match ty with
  | "u8" => some (g (Gen.in_range_u8_u8_ub a) (fun _ => sb (Gen.in_range_u8_u8 a)))
  | "u16" => some (g (Gen.in_range_u8_u16_ub a) (fun _ => sb (Gen.in_range_u8_u16 a)))
  | "u32" => some (g (Gen.in_range_u8_u32_ub a) (fun _ => sb (Gen.in_range_u8_u32 a)))
  | "u64" => some (g (Gen.in_range_u8_u64_ub a) (fun _ => sb (Gen.in_range_u8_u64 a)))
  | "i8" => some (g (Gen.in_range_u8_i8_ub a) (fun _ => sb (Gen.in_range_u8_i8 a)))
  | "i16" => some (g (Gen.in_range_u8_i16_ub a) (fun _ => sb (Gen.in_range_u8_i16 a)))
  | "i32" => some (g (Gen.in_range_u8_i32_ub a) (fun _ => sb (Gen.in_range_u8_i32 a)))
  | "i64" => some (g (Gen.in_range_u8_i64_ub a) (fun _ => sb (Gen.in_range_u8_i64 a)))
  | _ => none

def p_cmp_u16 (ty : String) (a y : Int) : Option String :=
  match ty with
  | "u8" => some (g (Gen.cmp_equal_u16_u8_ub a y && Gen.cmp_not_equal_u16_u8_ub a y && Gen.cmp_less_u16_u8_ub a y && Gen.cmp_greater_u16_u8_ub a y && Gen.cmp_less_equal_u16_u8_ub a y && Gen.cmp_greater_equal_u16_u8_ub a y) (fun _ => String.join [sb (Gen.cmp_equal_u16_u8 a y), sb (Gen.cmp_not_equal_u16_u8 a y), sb (Gen.cmp_less_u16_u8 a y), sb (Gen.cmp_greater_u16_u8 a y), sb (Gen.cmp_less_equal_u16_u8 a y), sb (Gen.cmp_greater_equal_u16_u8 a y)]))
  | "u16" => some (g (Gen.cmp_equal_u16_u16_ub a y && Gen.cmp_not_equal_u16_u16_ub a y && Gen.cmp_less_u16_u16_ub a y && Gen.cmp_greater_u16_u16_ub a y && Gen.cmp_less_equal_u16_u16_ub a y && Gen.cmp_greater_equal_u16_u16_ub a y) (fun _ => String.join [sb (Gen.cmp_equal_u16_u16 a y), sb (Gen.cmp_not_equal_u16_u16 a y), sb (Gen.cmp_less_u16_u16 a y), sb (Gen.cmp_greater_u16_u16 a y), sb (Gen.cmp_less_equal_u16_u16 a y), sb (Gen.cmp_greater_equal_u16_u16 a y)]))
  | "u32" => some (g (Gen.cmp_equal_u16_u32_ub a y && Gen.cmp_not_equal_u16_u32_ub a y && Gen.cmp_less_u16_u32_ub a y && Gen.cmp_greater_u16_u32_ub a y && Gen.cmp_less_equal_u16_u32_ub a y && Gen.cmp_greater_equal_u16_u32_ub a y) (fun _ => String.join [sb (Gen.cmp_equal_u16_u32 a y), sb (Gen.cmp_not_equal_u16_u32 a y), sb (Gen.cmp_less_u16_u32 a y), sb (Gen.cmp_greater_u16_u32 a y), sb (Gen.cmp_less_equal_u16_u32 a y), sb (Gen.cmp_greater_equal_u16_u32 a y)]))
  | "u64" => some (g (Gen.cmp_equal_u16_u64_ub a y && Gen.cmp_not_equal_u16_u64_ub a y && Gen.cmp_less_u16_u64_ub a y && Gen.cmp_greater_u16_u64_ub a y && Gen.cmp_less_equal_u16_u64_ub a y && Gen.cmp_greater_equal_u16_u64_ub a y) (fun _ => String.join [sb (Gen.cmp_equal_u16_u64 a y), sb (Gen.cmp_not_equal_u16_u64 a y), sb (Gen.cmp_less_u16_u64 a y), sb (Gen.cmp_greater_u16_u64 a y), sb (Gen.cmp_less_equal_u16_u64 a y), sb (Gen.cmp_greater_equal_u16_u64 a y)]))
  | "i8" => some (g (Gen.cmp_equal_u16_i8_ub a y && Gen.cmp_not_equal_u16_i8_ub a y && Gen.cmp_less_u16_i8_ub a y && Gen.cmp_greater_u16_i8_ub a y && Gen.cmp_less_equal_u16_i8_ub a y && Gen.cmp_greater_equal_u16_i8_ub a y) (fun _ => String.join [sb (Gen.cmp_equal_u16_i8 a y), sb (Gen.cmp_not_equal_u16_i8 a y), sb (Gen.cmp_less_u16_i8 a y), sb (Gen.cmp_greater_u16_i8 a y), sb (Gen.cmp_less_equal_u16_i8 a y), sb (Gen.cmp_greater_equal_u16_i8 a y)]))
  | "i16" => some (g (Gen.cmp_equal_u16_i16_ub a y && Gen.cmp_not_equal_u16_i16_ub a y && Gen.cmp_less_u16_i16_ub a y && Gen.cmp_greater_u16_i16_ub a y && Gen.cmp_less_equal_u16_i16_ub a y && Gen.cmp_greater_equal_u16_i16_ub a y) (fun _ => String.join [sb (Gen.cmp_equal_u16_i16 a y), sb (Gen.cmp_not_equal_u16_i16 a y), sb (Gen.cmp_less_u16_i16 a y), sb (Gen.cmp_greater_u16_i16 a y), sb (Gen.cmp_less_equal_u16_i16 a y), sb (Gen.cmp_greater_equal_u16_i16 a y)]))
  | "i32" => some (g (Gen.cmp_equal_u16_i32_ub a y && Gen.cmp_not_equal_u16_i32_ub a y && Gen.cmp_less_u16_i32_ub a y && Gen.cmp_greater_u16_i32_ub a y && Gen.cmp_less_equal_u16_i32_ub a y && Gen.cmp_greater_equal_u16_i32_ub a y) (fun _ => String.join [sb (Gen.cmp_equal_u16_i32 a y), sb (Gen.cmp_not_equal_u16_i32 a y), sb (Gen.cmp_less_u16_i32 a y), sb (Gen.cmp_greater_u16_i32 a y), sb (Gen.cmp_less_equal_u16_i32 a y), sb (Gen.cmp_greater_equal_u16_i32 a y)]))
  | "i64" => some (g (Gen.cmp_equal_u16_i64_ub a y && Gen.cmp_not_equal_u16_i64_ub a y && Gen.cmp_less_u16_i64_ub a y && Gen.cmp_greater_u16_i64_ub a y && Gen.cmp_less_equal_u16_i64_ub a y && Gen.cmp_greater_equal_u16_i64_ub a y) (fun _ => String.join [sb (Gen.cmp_equal_u16_i64 a y), sb (Gen.cmp_not_equal_u16_i64 a y), sb (Gen.cmp_less_u16_i64 a y), sb (Gen.cmp_greater_u16_i64 a y), sb (Gen.cmp_less_equal_u16_i64 a y), sb (Gen.cmp_greater_equal_u16_i64 a y)]))
  | _ => none

def p_saturate_cast_u16 (ty : String) (a : Int) : Option String :=
  match ty with
  | "u8" => some (g (Gen.saturate_cast_u16_u8_ub a) (fun _ => toString (Gen.saturate_cast_u16_u8 a)))
  | "u16" => some (g (Gen.saturate_cast_u16_u16_ub a) (fun _ => toString (Gen.saturate_cast_u16_u16 a)))
  | "u32" => some (g (Gen.saturate_cast_u16_u32_ub a) (fun _ => toString (Gen.saturate_cast_u16_u32 a)))
  | "u64" => some (g (Gen.saturate_cast_u16_u64_ub a) (fun _ => toString (Gen.saturate_cast_u16_u64 a)))
  | "i8" => some (g (Gen.saturate_cast_u16_i8_ub a) (fun _ => toString (Gen.saturate_cast_u16_i8 a)))
  | "i16" => some (g (Gen.saturate_cast_u16_i16_ub a) (fun _ => toString (Gen.saturate_cast_u16_i16 a)))
  | "i32" => some (g (Gen.saturate_cast_u16_i32_ub a) (fun _ => toString (Gen.saturate_cast_u16_i32 a)))
  | "i64" => some (g (Gen.saturate_cast_u16_i64_ub a) (fun _ => toString (Gen.saturate_cast_u16_i64 a)))
  | _ => none

def p_in_range_u16 (ty : String) (a : Int) : Option String :=
  match ty with
  | "u8" => some (g (Gen.in_range_u16_u8_ub a) (fun _ => sb (Gen.in_range_u16_u8 a)))
  | "u16" => some (g (Gen.in_range_u16_u16_ub a) (fun _ => sb (Gen.in_range_u16_u16 a)))
  | "u32" => some (g (Gen.in_range_u16_u32_ub a) (fun _ => sb (Gen.in_range_u16_u32 a)))
  | "u64" => some (g (Gen.in_range_u16_u64_ub a) (fun _ => sb (Gen.in_range_u16_u64 a)))
  | "i8" => some (g (Gen.in_range_u16_i8_ub a) (fun _ => sb (Gen.in_range_u16_i8 a)))
  | "i16" => some (g (Gen.in_range_u16_i16_ub a) (fun _ => sb (Gen.in_range_u16_i16 a)))
  | "i32" => some (g (Gen.in_range_u16_i32_ub a) (fun _ => sb (Gen.in_range_u16_i32 a)))
  | "i64" => some (g (Gen.in_range_u16_i64_ub a) (fun _ => sb (Gen.in_range_u16_i64 a)))
  | _ => none

def p_cmp_u32 (ty : String) (a y : Int) : Option String :=
  match ty with
  | "u8" => some (g (Gen.cmp_equal_u32_u8_ub a y && Gen.cmp_not_equal_u32_u8_ub a y && Gen.cmp_less_u32_u8_ub a y && Gen.cmp_greater_u32_u8_ub a y && Gen.cmp_less_equal_u32_u8_ub a y && Gen.cmp_greater_equal_u32_u8_ub a y) (fun _ => String.join [sb (Gen.cmp_equal_u32_u8 a y), sb (Gen.cmp_not_equal_u32_u8 a y), sb (Gen.cmp_less_u32_u8 a y), sb (Gen.cmp_greater_u32_u8 a y), sb (Gen.cmp_less_equal_u32_u8 a y), sb (Gen.cmp_greater_equal_u32_u8 a y)]))
  | "u16" => some (g (Gen.cmp_equal_u32_u16_ub a y && Gen.cmp_not_equal_u32_u16_ub a y && Gen.cmp_less_u32_u16_ub a y && Gen.cmp_greater_u32_u16_ub a y && Gen.cmp_less_equal_u32_u16_ub a y && Gen.cmp_greater_equal_u32_u16_ub a y) (fun _ => String.join [sb (Gen.cmp_equal_u32_u16 a y), sb (Gen.cmp_not_equal_u32_u16 a y), sb (Gen.cmp_less_u32_u16 a y), sb (Gen.cmp_greater_u32_u16 a y), sb (Gen.cmp_less_equal_u32_u16 a y), sb (Gen.cmp_greater_equal_u32_u16 a y)]))
  | "u32" => some (g (Gen.cmp_equal_u32_u32_ub a y && Gen.cmp_not_equal_u32_u32_ub a y && Gen.cmp_less_u32_u32_ub a y && Gen.cmp_greater_u32_u32_ub a y && Gen.cmp_less_equal_u32_u32_ub a y && Gen.cmp_greater_equal_u32_u32_ub a y) (fun _ => String.join [sb (Gen.cmp_equal_u32_u32 a y), sb (Gen.cmp_not_equal_u32_u32 a y), sb (Gen.cmp_less_u32_u32 a y), sb (Gen.cmp_greater_u32_u32 a y), sb (Gen.cmp_less_equal_u32_u32 a y), sb (Gen.cmp_greater_equal_u32_u32 a y)]))
  | "u64" => some (g (Gen.cmp_equal_u32_u64_ub a y && Gen.cmp_not_equal_u32_u64_ub a y && Gen.cmp_less_u32_u64_ub a y && Gen.cmp_greater_u32_u64_ub a y && Gen.cmp_less_equal_u32_u64_ub a y && Gen.cmp_greater_equal_u32_u64_ub a y) (fun _ => String.join [sb (Gen.cmp_equal_u32_u64 a y), sb (Gen.cmp_not_equal_u32_u64 a y), sb (Gen.cmp_less_u32_u64 a y), sb (Gen.cmp_greater_u32_u64 a y), sb (Gen.cmp_less_equal_u32_u64 a y), sb (Gen.cmp_greater_equal_u32_u64 a y)]))
  | "i8" => some (g (Gen.cmp_equal_u32_i8_ub a y && Gen.cmp_not_equal_u32_i8_ub a y && Gen.cmp_less_u32_i8_ub a y && Gen.cmp_greater_u32_i8_ub a y && Gen.cmp_less_equal_u32_i8_ub a y && Gen.cmp_greater_equal_u32_i8_ub a y) (fun _ => String.join [sb (Gen.cmp_equal_u32_i8 a y), sb (Gen.cmp_not_equal_u32_i8 a y), sb (Gen.cmp_less_u32_i8 a y), sb (Gen.cmp_greater_u32_i8 a y), sb (Gen.cmp_less_equal_u32_i8 a y), sb (Gen.cmp_greater_equal_u32_i8 a y)]))
  | "i16" => some (g (Gen.cmp_equal_u32_i16_ub a y && Gen.cmp_not_equal_u32_i16_ub a y && Gen.cmp_less_u32_i16_ub a y && Gen.cmp_greater_u32_i16_ub a y && Gen.cmp_less_equal_u32_i16_ub a y && Gen.cmp_greater_equal_u32_i16_ub a y) (fun _ => String.join [sb (Gen.cmp_equal_u32_i16 a y), sb (Gen.cmp_not_equal_u32_i16 a y), sb (Gen.cmp_less_u32_i16 a y), sb (Gen.cmp_greater_u32_i16 a y), sb (Gen.cmp_less_equal_u32_i16 a y), sb (Gen.cmp_greater_equal_u32_i16 a y)]))
  | "i32" => some (g (Gen.cmp_equal_u32_i32_ub a y && Gen.cmp_not_equal_u32_i32_ub a y && Gen.cmp_less_u32_i32_ub a y && Gen.cmp_greater_u32_i32_ub a y && Gen.cmp_less_equal_u32_i32_ub a y && Gen.cmp_greater_equal_u32_i32_ub a y) (fun _ => String.join [sb (Gen.cmp_equal_u32_i32 a y), sb (Gen.cmp_not_equal_u32_i32 a y), sb (Gen.cmp_less_u32_i32 a y), sb (Gen.cmp_greater_u32_i32 a y), sb (Gen.cmp_less_equal_u32_i32 a y), sb (Gen.cmp_greater_equal_u32_i32 a y)]))
  | "i64" => some (g (Gen.cmp_equal_u32_i64_ub a y && Gen.cmp_not_equal_u32_i64_ub a y && Gen.cmp_less_u32_i64_ub a y && Gen.cmp_greater_u32_i64_ub a y && Gen.cmp_less_equal_u32_i64_ub a y && Gen.cmp_greater_equal_u32_i64_ub a y) (fun _ => String.join [sb (Gen.cmp_equal_u32_i64 a y), sb (Gen.cmp_not_equal_u32_i64 a y), sb (Gen.cmp_less_u32_i64 a y), sb (Gen.cmp_greater_u32_i64 a y), sb (Gen.cmp_less_equal_u32_i64 a y), sb (Gen.cmp_greater_equal_u32_i64 a y)]))
  | _ => none

def p_saturate_cast_u32 (ty : String) (a : Int) : Option String :=
  match ty with
  | "u8" => some (g (Gen.saturate_cast_u32_u8_ub a) (fun _ => toString (Gen.saturate_cast_u32_u8 a)))
  | "u16" => some (g (Gen.saturate_cast_u32_u16_ub a) (fun _ => toString (Gen.saturate_cast_u32_u16 a)))
  | "u32" => some (g (Gen.saturate_cast_u32_u32_ub a) (fun _ => toString (Gen.saturate_cast_u32_u32 a)))
  | "u64" => some (g (Gen.saturate_cast_u32_u64_ub a) (fun _ => toString (Gen.saturate_cast_u32_u64 a)))
  | "i8" => some (g (Gen.saturate_cast_u32_i8_ub a) (fun _ => toString (Gen.saturate_cast_u32_i8 a)))
  | "i16" => some (g (Gen.saturate_cast_u32_i16_ub a) (fun _ => toString (Gen.saturate_cast_u32_i16 a)))
  | "i32" => some (g (Gen.saturate_cast_u32_i32_ub a) (fun _ => toString (Gen.saturate_cast_u32_i32 a)))
  | "i64" => some (g (Gen.saturate_cast_u32_i64_ub a) (fun _ => toString (Gen.saturate_cast_u32_i64 a)))
  | _ => none

def p_in_range_u32 (ty : String) (a : Int) : Option String :=
  match ty with
  | "u8" => some (g (Gen.in_range_u32_u8_ub a) (fun _ => sb (Gen.in_range_u32_u8 a)))
  | "u16" => some (g (Gen.in_range_u32_u16_ub a) (fun _ => sb (Gen.in_range_u32_u16 a)))
  | "u32" => some (g (Gen.in_range_u32_u32_ub a) (fun _ => sb (Gen.in_range_u32_u32 a)))
  | "u64" => some (g (Gen.in_range_u32_u64_ub a) (fun _ => sb (Gen.in_range_u32_u64 a)))
  | "i8" => some (g (Gen.in_range_u32_i8_ub a) (fun _ => sb (Gen.in_range_u32_i8 a)))
  | "i16" => some (g (Gen.in_range_u32_i16_ub a) (fun _ => sb (Gen.in_range_u32_i16 a)))
  | "i32" => some (g (Gen.in_range_u32_i32_ub a) (fun _ => sb (Gen.in_range_u32_i32 a)))
  | "i64" => some (g (Gen.in_range_u32_i64_ub a) (fun _ => sb (Gen.in_range_u32_i64 a)))
  | _ => none

def p_cmp_u64 (ty : String) (a y : Int) : Option String :=
  match ty with
  | "u8" => some (g (Gen.cmp_equal_u64_u8_ub a y && Gen.cmp_not_equal_u64_u8_ub a y && Gen.cmp_less_u64_u8_ub a y && Gen.cmp_greater_u64_u8_ub a y && Gen.cmp_less_equal_u64_u8_ub a y && Gen.cmp_greater_equal_u64_u8_ub a y) (fun _ => String.join [sb (Gen.cmp_equal_u64_u8 a y), sb (Gen.cmp_not_equal_u64_u8 a y), sb (Gen.cmp_less_u64_u8 a y), sb (Gen.cmp_greater_u64_u8 a y), sb (Gen.cmp_less_equal_u64_u8 a y), sb (Gen.cmp_greater_equal_u64_u8 a y)]))
  | "u16" => some (g (Gen.cmp_equal_u64_u16_ub a y && Gen.cmp_not_equal_u64_u16_ub a y && Gen.cmp_less_u64_u16_ub a y && Gen.cmp_greater_u64_u16_ub a y && Gen.cmp_less_equal_u64_u16_ub a y && Gen.cmp_greater_equal_u64_u16_ub a y) (fun _ => String.join [sb (Gen.cmp_equal_u64_u16 a y), sb (Gen.cmp_not_equal_u64_u16 a y), sb (Gen.cmp_less_u64_u16 a y), sb (Gen.cmp_greater_u64_u16 a y), sb (Gen.cmp_less_equal_u64_u16 a y), sb (Gen.cmp_greater_equal_u64_u16 a y)]))
  | "u32" => some (g (Gen.cmp_equal_u64_u32_ub a y && Gen.cmp_not_equal_u64_u32_ub a y && Gen.cmp_less_u64_u32_ub a y && Gen.cmp_greater_u64_u32_ub a y && Gen.cmp_less_equal_u64_u32_ub a y && Gen.cmp_greater_equal_u64_u32_ub a y) (fun _ => String.join [sb (Gen.cmp_equal_u64_u32 a y), sb (Gen.cmp_not_equal_u64_u32 a y), sb (Gen.cmp_less_u64_u32 a y), sb (Gen.cmp_greater_u64_u32 a y), sb (Gen.cmp_less_equal_u64_u32 a y), sb (Gen.cmp_greater_equal_u64_u32 a y)]))
  | "u64" => some (g (Gen.cmp_equal_u64_u64_ub a y && Gen.cmp_not_equal_u64_u64_ub a y && Gen.cmp_less_u64_u64_ub a y && Gen.cmp_greater_u64_u64_ub a y && Gen.cmp_less_equal_u64_u64_ub a y && Gen.cmp_greater_equal_u64_u64_ub a y) (fun _ => String.join [sb (Gen.cmp_equal_u64_u64 a y), sb (Gen.cmp_not_equal_u64_u64 a y), sb (Gen.cmp_less_u64_u64 a y), sb (Gen.cmp_greater_u64_u64 a y), sb (Gen.cmp_less_equal_u64_u64 a y), sb (Gen.cmp_greater_equal_u64_u64 a y)]))
  | "i8" => some (g (Gen.cmp_equal_u64_i8_ub a y && Gen.cmp_not_equal_u64_i8_ub a y && Gen.cmp_less_u64_i8_ub a y && Gen.cmp_greater_u64_i8_ub a y && Gen.cmp_less_equal_u64_i8_ub a y && Gen.cmp_greater_equal_u64_i8_ub a y) (fun _ => String.join [sb (Gen.cmp_equal_u64_i8 a y), sb (Gen.cmp_not_equal_u64_i8 a y), sb (Gen.cmp_less_u64_i8 a y), sb (Gen.cmp_greater_u64_i8 a y), sb (Gen.cmp_less_equal_u64_i8 a y), sb (Gen.cmp_greater_equal_u64_i8 a y)]))
  | "i16" => some (g (Gen.cmp_equal_u64_i16_ub a y && Gen.cmp_not_equal_u64_i16_ub a y && Gen.cmp_less_u64_i16_ub a y && Gen.cmp_greater_u64_i16_ub a y && Gen.cmp_less_equal_u64_i16_ub a y && Gen.cmp_greater_equal_u64_i16_ub a y) (fun _ => String.join [sb (Gen.cmp_equal_u64_i16 a y), sb (Gen.cmp_not_equal_u64_i16 a y), sb (Gen.cmp_less_u64_i16 a y), sb (Gen.cmp_greater_u64_i16 a y), sb (Gen.cmp_less_equal_u64_i16 a y), sb (Gen.cmp_greater_equal_u64_i16 a y)]))
  | "i32" => some (g (Gen.cmp_equal_u64_i32_ub a y && Gen.cmp_not_equal_u64_i32_ub a y && Gen.cmp_less_u64_i32_ub a y && Gen.cmp_greater_u64_i32_ub a y && Gen.cmp_less_equal_u64_i32_ub a y && Gen.cmp_greater_equal_u64_i32_ub a y) (fun _ => String.join [sb (Gen.cmp_equal_u64_i32 a y), sb (Gen.cmp_not_equal_u64_i32 a y), sb (Gen.cmp_less_u64_i32 a y), sb (Gen.cmp_greater_u64_i32 a y), sb (Gen.cmp_less_equal_u64_i32 a y), sb (Gen.cmp_greater_equal_u64_i32 a y)]))
  | "i64" => some (g (Gen.cmp_equal_u64_i64_ub a y && Gen.cmp_not_equal_u64_i64_ub a y && Gen.cmp_less_u64_i64_ub a y && Gen.cmp_greater_u64_i64_ub a y && Gen.cmp_less_equal_u64_i64_ub a y && Gen.cmp_greater_equal_u64_i64_ub a y) (fun _ => String.join [sb (Gen.cmp_equal_u64_i64 a y), sb (Gen.cmp_not_equal_u64_i64 a y), sb (Gen.cmp_less_u64_i64 a y), sb (Gen.cmp_greater_u64_i64 a y), sb (Gen.cmp_less_equal_u64_i64 a y), sb (Gen.cmp_greater_equal_u64_i64 a y)]))
  | _ => none

def p_saturate_cast_u64 (ty : String) (a : Int) : Option String :=
  match ty with
  | "u8" => some (g (Gen.saturate_cast_u64_u8_ub a) (fun _ => toString (Gen.saturate_cast_u64_u8 a)))
  | "u16" => some (g (Gen.saturate_cast_u64_u16_ub a) (fun _ => toString (Gen.saturate_cast_u64_u16 a)))
  | "u32" => some (g (Gen.saturate_cast_u64_u32_ub a) (fun _ => toString (Gen.saturate_cast_u64_u32 a)))
  | "u64" => some (g (Gen.saturate_cast_u64_u64_ub a) (fun _ => toString (Gen.saturate_cast_u64_u64 a)))
  | "i8" => some (g (Gen.saturate_cast_u64_i8_ub a) (fun _ => toString (Gen.saturate_cast_u64_i8 a)))
  | "i16" => some (g (Gen.saturate_cast_u64_i16_ub a) (fun _ => toString (Gen.saturate_cast_u64_i16 a)))
  | "i32" => some (g (Gen.saturate_cast_u64_i32_ub a) (fun _ => toString (Gen.saturate_cast_u64_i32 a)))
  | "i64" => some (g (Gen.saturate_cast_u64_i64_ub a) (fun _ => toString (Gen.saturate_cast_u64_i64 a)))
  | _ => none

def p_in_range_u64 (ty : String) (a : Int) : Option String :=
  match ty with
  | "u8" => some (g (Gen.in_range_u64_u8_ub a) (fun _ => sb (Gen.in_range_u64_u8 a)))
  | "u16" => some (g (Gen.in_range_u64_u16_ub a) (fun _ => sb (Gen.in_range_u64_u16 a)))
  | "u32" => some (g (Gen.in_range_u64_u32_ub a) (fun _ => sb (Gen.in_range_u64_u32 a)))
  | "u64" => some (g (Gen.in_range_u64_u64_ub a) (fun _ => sb (Gen.in_range_u64_u64 a)))
  | "i8" => some (g (Gen.in_range_u64_i8_ub a) (fun _ => sb (Gen.in_range_u64_i8 a)))
  | "i16" => some (g (Gen.in_range_u64_i16_ub a) (fun _ => sb (Gen.in_range_u64_i16 a)))
  | "i32" => some (g (Gen.in_range_u64_i32_ub a) (fun _ => sb (Gen.in_range_u64_i32 a)))
  | "i64" => some (g (Gen.in_range_u64_i64_ub a) (fun _ => sb (Gen.in_range_u64_i64 a)))
  | _ => none

def p_cmp_i8 (ty : String) (a y : Int) : Option String :=
  match ty with
  | "u8" => some (g (Gen.cmp_equal_i8_u8_ub a y && Gen.cmp_not_equal_i8_u8_ub a y && Gen.cmp_less_i8_u8_ub a y && Gen.cmp_greater_i8_u8_ub a y && Gen.cmp_less_equal_i8_u8_ub a y && Gen.cmp_greater_equal_i8_u8_ub a y) (fun _ => String.join [sb (Gen.cmp_equal_i8_u8 a y), sb (Gen.cmp_not_equal_i8_u8 a y), sb (Gen.cmp_less_i8_u8 a y), sb (Gen.cmp_greater_i8_u8 a y), sb (Gen.cmp_less_equal_i8_u8 a y), sb (Gen.cmp_greater_equal_i8_u8 a y)]))
  | "u16" => some (g (Gen.cmp_equal_i8_u16_ub a y && Gen.cmp_not_equal_i8_u16_ub a y && Gen.cmp_less_i8_u16_ub a y && Gen.cmp_greater_i8_u16_ub a y && Gen.cmp_less_equal_i8_u16_ub a y && Gen.cmp_greater_equal_i8_u16_ub a y) (fun _ => String.join [sb (Gen.cmp_equal_i8_u16 a y), sb (Gen.cmp_not_equal_i8_u16 a y), sb (Gen.cmp_less_i8_u16 a y), sb (Gen.cmp_greater_i8_u16 a y), sb (Gen.cmp_less_equal_i8_u16 a y), sb (Gen.cmp_greater_equal_i8_u16 a y)]))
  | "u32" => some (g (Gen.cmp_equal_i8_u32_ub a y && Gen.cmp_not_equal_i8_u32_ub a y && Gen.cmp_less_i8_u32_ub a y && Gen.cmp_greater_i8_u32_ub a y && Gen.cmp_less_equal_i8_u32_ub a y && Gen.cmp_greater_equal_i8_u32_ub a y) (fun _ => String.join [sb (Gen.cmp_equal_i8_u32 a y), sb (Gen.cmp_not_equal_i8_u32 a y), sb (Gen.cmp_less_i8_u32 a y), sb (Gen.cmp_greater_i8_u32 a y), sb (Gen.cmp_less_equal_i8_u32 a y), sb (Gen.cmp_greater_equal_i8_u32 a y)]))
  | "u64" => some (g (Gen.cmp_equal_i8_u64_ub a y && Gen.cmp_not_equal_i8_u64_ub a y && Gen.cmp_less_i8_u64_ub a y && Gen.cmp_greater_i8_u64_ub a y && Gen.cmp_less_equal_i8_u64_ub a y && Gen.cmp_greater_equal_i8_u64_ub a y) (fun _ => String.join [sb (Gen.cmp_equal_i8_u64 a y), sb (Gen.cmp_not_equal_i8_u64 a y), sb (Gen.cmp_less_i8_u64 a y), sb (Gen.cmp_greater_i8_u64 a y), sb (Gen.cmp_less_equal_i8_u64 a y), sb (Gen.cmp_greater_equal_i8_u64 a y)]))
  | "i8" => some (g (Gen.cmp_equal_i8_i8_ub a y && Gen.cmp_not_equal_i8_i8_ub a y && Gen.cmp_less_i8_i8_ub a y && Gen.cmp_greater_i8_i8_ub a y && Gen.cmp_less_equal_i8_i8_ub a y && Gen.cmp_greater_equal_i8_i8_ub a y) (fun _ => String.join [sb (Gen.cmp_equal_i8_i8 a y), sb (Gen.cmp_not_equal_i8_i8 a y), sb (Gen.cmp_less_i8_i8 a y), sb (Gen.cmp_greater_i8_i8 a y), sb (Gen.cmp_less_equal_i8_i8 a y), sb (Gen.cmp_greater_equal_i8_i8 a y)]))
  | "i16" => some (g (Gen.cmp_equal_i8_i16_ub a y && Gen.cmp_not_equal_i8_i16_ub a y && Gen.cmp_less_i8_i16_ub a y && Gen.cmp_greater_i8_i16_ub a y && Gen.cmp_less_equal_i8_i16_ub a y && Gen.cmp_greater_equal_i8_i16_ub a y) (fun _ => String.join [sb (Gen.cmp_equal_i8_i16 a y), sb (Gen.cmp_not_equal_i8_i16 a y), sb (Gen.cmp_less_i8_i16 a y), sb (Gen.cmp_greater_i8_i16 a y), sb (Gen.cmp_less_equal_i8_i16 a y), sb (Gen.cmp_greater_equal_i8_i16 a y)]))
  | "i32" => some (g (Gen.cmp_equal_i8_i32_ub a y && Gen.cmp_not_equal_i8_i32_ub a y && Gen.cmp_less_i8_i32_ub a y && Gen.cmp_greater_i8_i32_ub a y && Gen.cmp_less_equal_i8_i32_ub a y && Gen.cmp_greater_equal_i8_i32_ub a y) (fun _ => String.join [sb (Gen.cmp_equal_i8_i32 a y), sb (Gen.cmp_not_equal_i8_i32 a y), sb (Gen.cmp_less_i8_i32 a y), sb (Gen.cmp_greater_i8_i32 a y), sb (Gen.cmp_less_equal_i8_i32 a y), sb (Gen.cmp_greater_equal_i8_i32 a y)]))
  | "i64" => some (g (Gen.cmp_equal_i8_i64_ub a y && Gen.cmp_not_equal_i8_i64_ub a y && Gen.cmp_less_i8_i64_ub a y && Gen.cmp_greater_i8_i64_ub a y && Gen.cmp_less_equal_i8_i64_ub a y && Gen.cmp_greater_equal_i8_i64_ub a y) (fun _ => String.join [sb (Gen.cmp_equal_i8_i64 a y), sb (Gen.cmp_not_equal_i8_i64 a y), sb (Gen.cmp_less_i8_i64 a y), sb (Gen.cmp_greater_i8_i64 a y), sb (Gen.cmp_less_equal_i8_i64 a y), sb (Gen.cmp_greater_equal_i8_i64 a y)]))
  | _ => none

def p_saturate_cast_i8 (ty : String) (a : Int) : Option String :=
  match ty with
  | "u8" => some (g (Gen.saturate_cast_i8_u8_ub a) (fun _ => toString (Gen.saturate_cast_i8_u8 a)))
  | "u16" => some (g (Gen.saturate_cast_i8_u16_ub a) (fun _ => toString (Gen.saturate_cast_i8_u16 a)))
  | "u32" => some (g (Gen.saturate_cast_i8_u32_ub a) (fun _ => toString (Gen.saturate_cast_i8_u32 a)))
  | "u64" => some (g (Gen.saturate_cast_i8_u64_ub a) (fun _ => toString (Gen.saturate_cast_i8_u64 a)))
  | "i8" => some (g (Gen.saturate_cast_i8_i8_ub a) (fun _ => toString (Gen.saturate_cast_i8_i8 a)))
  | "i16" => some (g (Gen.saturate_cast_i8_i16_ub a) (fun _ => toString (Gen.saturate_cast_i8_i16 a)))
  | "i32" => some (g (Gen.saturate_cast_i8_i32_ub a) (fun _ => toString (Gen.saturate_cast_i8_i32 a)))
  | "i64" => some (g (Gen.saturate_cast_i8_i64_ub a) (fun _ => toString (Gen.saturate_cast_i8_i64 a)))
  | _ => none

def p_in_range_i8 (ty : String) (a : Int) : Option String :=
  match ty with
  | "u8" => some (g (Gen.in_range_i8_u8_ub a) (fun _ => sb (Gen.in_range_i8_u8 a)))
  | "u16" => some (g (Gen.in_range_i8_u16_ub a) (fun _ => sb (Gen.in_range_i8_u16 a)))
  | "u32" => some (g (Gen.in_range_i8_u32_ub a) (fun _ => sb (Gen.in_range_i8_u32 a)))
  | "u64" => some (g (Gen.in_range_i8_u64_ub a) (fun _ => sb (Gen.in_range_i8_u64 a)))
  | "i8" => some (g (Gen.in_range_i8_i8_ub a) (fun _ => sb (Gen.in_range_i8_i8 a)))
  | "i16" => some (g (Gen.in_range_i8_i16_ub a) (fun _ => sb (Gen.in_range_i8_i16 a)))
  | "i32" => some (g (Gen.in_range_i8_i32_ub a) (fun _ => sb (Gen.in_range_i8_i32 a)))
  | "i64" => some (g (Gen.in_range_i8_i64_ub a) (fun _ => sb (Gen.in_range_i8_i64 a)))
  | _ => none

def p_cmp_i16 (ty : String) (a y : Int) : Option String :=
  match ty with
  | "u8" => some (g (Gen.cmp_equal_i16_u8_ub a y && Gen.cmp_not_equal_i16_u8_ub a y && Gen.cmp_less_i16_u8_ub a y && Gen.cmp_greater_i16_u8_ub a y && Gen.cmp_less_equal_i16_u8_ub a y && Gen.cmp_greater_equal_i16_u8_ub a y) (fun _ => String.join [sb (Gen.cmp_equal_i16_u8 a y), sb (Gen.cmp_not_equal_i16_u8 a y), sb (Gen.cmp_less_i16_u8 a y), sb (Gen.cmp_greater_i16_u8 a y), sb (Gen.cmp_less_equal_i16_u8 a y), sb (Gen.cmp_greater_equal_i16_u8 a y)]))
  | "u16" => some (g (Gen.cmp_equal_i16_u16_ub a y && Gen.cmp_not_equal_i16_u16_ub a y && Gen.cmp_less_i16_u16_ub a y && Gen.cmp_greater_i16_u16_ub a y && Gen.cmp_less_equal_i16_u16_ub a y && Gen.cmp_greater_equal_i16_u16_ub a y) (fun _ => String.join [sb (Gen.cmp_equal_i16_u16 a y), sb (Gen.cmp_not_equal_i16_u16 a y), sb (Gen.cmp_less_i16_u16 a y), sb (Gen.cmp_greater_i16_u16 a y), sb (Gen.cmp_less_equal_i16_u16 a y), sb (Gen.cmp_greater_equal_i16_u16 a y)]))
  | "u32" => some (g (Gen.cmp_equal_i16_u32_ub a y && Gen.cmp_not_equal_i16_u32_ub a y && Gen.cmp_less_i16_u32_ub a y && Gen.cmp_greater_i16_u32_ub a y && Gen.cmp_less_equal_i16_u32_ub a y && Gen.cmp_greater_equal_i16_u32_ub a y) (fun _ => String.join [sb (Gen.cmp_equal_i16_u32 a y), sb (Gen.cmp_not_equal_i16_u32 a y), sb (Gen.cmp_less_i16_u32 a y), sb (Gen.cmp_greater_i16_u32 a y), sb (Gen.cmp_less_equal_i16_u32 a y), sb (Gen.cmp_greater_equal_i16_u32 a y)]))
  | "u64" => some (g (Gen.cmp_equal_i16_u64_ub a y && Gen.cmp_not_equal_i16_u64_ub a y && Gen.cmp_less_i16_u64_ub a y && Gen.cmp_greater_i16_u64_ub a y && Gen.cmp_less_equal_i16_u64_ub a y && Gen.cmp_greater_equal_i16_u64_ub a y) (fun _ => String.join [sb (Gen.cmp_equal_i16_u64 a y), sb (Gen.cmp_not_equal_i16_u64 a y), sb (Gen.cmp_less_i16_u64 a y), sb (Gen.cmp_greater_i16_u64 a y), sb (Gen.cmp_less_equal_i16_u64 a y), sb (Gen.cmp_greater_equal_i16_u64 a y)]))
  | "i8" => some (g (Gen.cmp_equal_i16_i8_ub a y && Gen.cmp_not_equal_i16_i8_ub a y && Gen.cmp_less_i16_i8_ub a y && Gen.cmp_greater_i16_i8_ub a y && Gen.cmp_less_equal_i16_i8_ub a y && Gen.cmp_greater_equal_i16_i8_ub a y) (fun _ => String.join [sb (Gen.cmp_equal_i16_i8 a y), sb (Gen.cmp_not_equal_i16_i8 a y), sb (Gen.cmp_less_i16_i8 a y), sb (Gen.cmp_greater_i16_i8 a y), sb (Gen.cmp_less_equal_i16_i8 a y), sb (Gen.cmp_greater_equal_i16_i8 a y)]))
  | "i16" => some (g (Gen.cmp_equal_i16_i16_ub a y && Gen.cmp_not_equal_i16_i16_ub a y && Gen.cmp_less_i16_i16_ub a y && Gen.cmp_greater_i16_i16_ub a y && Gen.cmp_less_equal_i16_i16_ub a y && Gen.cmp_greater_equal_i16_i16_ub a y) (fun _ => String.join [sb (Gen.cmp_equal_i16_i16 a y), sb (Gen.cmp_not_equal_i16_i16 a y), sb (Gen.cmp_less_i16_i16 a y), sb (Gen.cmp_greater_i16_i16 a y), sb (Gen.cmp_less_equal_i16_i16 a y), sb (Gen.cmp_greater_equal_i16_i16 a y)]))
  | "i32" => some (g (Gen.cmp_equal_i16_i32_ub a y && Gen.cmp_not_equal_i16_i32_ub a y && Gen.cmp_less_i16_i32_ub a y && Gen.cmp_greater_i16_i32_ub a y && Gen.cmp_less_equal_i16_i32_ub a y && Gen.cmp_greater_equal_i16_i32_ub a y) (fun _ => String.join [sb (Gen.cmp_equal_i16_i32 a y), sb (Gen.cmp_not_equal_i16_i32 a y), sb (Gen.cmp_less_i16_i32 a y), sb (Gen.cmp_greater_i16_i32 a y), sb (Gen.cmp_less_equal_i16_i32 a y), sb (Gen.cmp_greater_equal_i16_i32 a y)]))
  | "i64" => some (g (Gen.cmp_equal_i16_i64_ub a y && Gen.cmp_not_equal_i16_i64_ub a y && Gen.cmp_less_i16_i64_ub a y && Gen.cmp_greater_i16_i64_ub a y && Gen.cmp_less_equal_i16_i64_ub a y && Gen.cmp_greater_equal_i16_i64_ub a y) (fun _ => String.join [sb (Gen.cmp_equal_i16_i64 a y), sb (Gen.cmp_not_equal_i16_i64 a y), sb (Gen.cmp_less_i16_i64 a y), sb (Gen.cmp_greater_i16_i64 a y), sb (Gen.cmp_less_equal_i16_i64 a y), sb (Gen.cmp_greater_equal_i16_i64 a y)]))
  | _ => none

def p_saturate_cast_i16 (ty : String) (a : Int) : Option String :=
  match ty with
  | "u8" => some (g (Gen.saturate_cast_i16_u8_ub a) (fun _ => toString (Gen.saturate_cast_i16_u8 a)))
  | "u16" => some (g (Gen.saturate_cast_i16_u16_ub a) (fun _ => toString (Gen.saturate_cast_i16_u16 a)))
  | "u32" => some (g (Gen.saturate_cast_i16_u32_ub a) (fun _ => toString (Gen.saturate_cast_i16_u32 a)))
  | "u64" => some (g (Gen.saturate_cast_i16_u64_ub a) (fun _ => toString (Gen.saturate_cast_i16_u64 a)))
  | "i8" => some (g (Gen.saturate_cast_i16_i8_ub a) (fun _ => toString (Gen.saturate_cast_i16_i8 a)))
  | "i16" => some (g (Gen.saturate_cast_i16_i16_ub a) (fun _ => toString (Gen.saturate_cast_i16_i16 a)))
  | "i32" => some (g (Gen.saturate_cast_i16_i32_ub a) (fun _ => toString (Gen.saturate_cast_i16_i32 a)))
  | "i64" => some (g (Gen.saturate_cast_i16_i64_ub a) (fun _ => toString (Gen.saturate_cast_i16_i64 a)))
  | _ => none

def p_in_range_i16 (ty : String) (a : Int) : Option String :=
  match ty with
  | "u8" => some (g (Gen.in_range_i16_u8_ub a) (fun _ => sb (Gen.in_range_i16_u8 a)))
  | "u16" => some (g (Gen.in_range_i16_u16_ub a) (fun _ => sb (Gen.in_range_i16_u16 a)))
  | "u32" => some (g (Gen.in_range_i16_u32_ub a) (fun _ => sb (Gen.in_range_i16_u32 a)))
  | "u64" => some (g (Gen.in_range_i16_u64_ub a) (fun _ => sb (Gen.in_range_i16_u64 a)))
  | "i8" => some (g (Gen.in_range_i16_i8_ub a) (fun _ => sb (Gen.in_range_i16_i8 a)))
  | "i16" => some (g (Gen.in_range_i16_i16_ub a) (fun _ => sb (Gen.in_range_i16_i16 a)))
  | "i32" => some (g (Gen.in_range_i16_i32_ub a) (fun _ => sb (Gen.in_range_i16_i32 a)))
  | "i64" => some (g (Gen.in_range_i16_i64_ub a) (fun _ => sb (Gen.in_range_i16_i64 a)))
  | _ => none

def p_cmp_i32 (ty : String) (a y : Int) : Option String :=
  match ty with
  | "u8" => some (g (Gen.cmp_equal_i32_u8_ub a y && Gen.cmp_not_equal_i32_u8_ub a y && Gen.cmp_less_i32_u8_ub a y && Gen.cmp_greater_i32_u8_ub a y && Gen.cmp_less_equal_i32_u8_ub a y && Gen.cmp_greater_equal_i32_u8_ub a y) (fun _ => String.join [sb (Gen.cmp_equal_i32_u8 a y), sb (Gen.cmp_not_equal_i32_u8 a y), sb (Gen.cmp_less_i32_u8 a y), sb (Gen.cmp_greater_i32_u8 a y), sb (Gen.cmp_less_equal_i32_u8 a y), sb (Gen.cmp_greater_equal_i32_u8 a y)]))
  | "u16" => some (g (Gen.cmp_equal_i32_u16_ub a y && Gen.cmp_not_equal_i32_u16_ub a y && Gen.cmp_less_i32_u16_ub a y && Gen.cmp_greater_i32_u16_ub a y && Gen.cmp_less_equal_i32_u16_ub a y && Gen.cmp_greater_equal_i32_u16_ub a y) (fun _ => String.join [sb (Gen.cmp_equal_i32_u16 a y), sb (Gen.cmp_not_equal_i32_u16 a y), sb (Gen.cmp_less_i32_u16 a y), sb (Gen.cmp_greater_i32_u16 a y), sb (Gen.cmp_less_equal_i32_u16 a y), sb (Gen.cmp_greater_equal_i32_u16 a y)]))
  | "u32" => some (g (Gen.cmp_equal_i32_u32_ub a y && Gen.cmp_not_equal_i32_u32_ub a y && Gen.cmp_less_i32_u32_ub a y && Gen.cmp_greater_i32_u32_ub a y && Gen.cmp_less_equal_i32_u32_ub a y && Gen.cmp_greater_equal_i32_u32_ub a y) (fun _ => String.join [sb (Gen.cmp_equal_i32_u32 a y), sb (Gen.cmp_not_equal_i32_u32 a y), sb (Gen.cmp_less_i32_u32 a y), sb (Gen.cmp_greater_i32_u32 a y), sb (Gen.cmp_less_equal_i32_u32 a y), sb (Gen.cmp_greater_equal_i32_u32 a y)]))
  | "u64" => some (g (Gen.cmp_equal_i32_u64_ub a y && Gen.cmp_not_equal_i32_u64_ub a y && Gen.cmp_less_i32_u64_ub a y && Gen.cmp_greater_i32_u64_ub a y && Gen.cmp_less_equal_i32_u64_ub a y && Gen.cmp_greater_equal_i32_u64_ub a y) (fun _ => String.join [sb (Gen.cmp_equal_i32_u64 a y), sb (Gen.cmp_not_equal_i32_u64 a y), sb (Gen.cmp_less_i32_u64 a y), sb (Gen.cmp_greater_i32_u64 a y), sb (Gen.cmp_less_equal_i32_u64 a y), sb (Gen.cmp_greater_equal_i32_u64 a y)]))
  | "i8" => some (g (Gen.cmp_equal_i32_i8_ub a y && Gen.cmp_not_equal_i32_i8_ub a y && Gen.cmp_less_i32_i8_ub a y && Gen.cmp_greater_i32_i8_ub a y && Gen.cmp_less_equal_i32_i8_ub a y && Gen.cmp_greater_equal_i32_i8_ub a y) (fun _ => String.join [sb (Gen.cmp_equal_i32_i8 a y), sb (Gen.cmp_not_equal_i32_i8 a y), sb (Gen.cmp_less_i32_i8 a y), sb (Gen.cmp_greater_i32_i8 a y), sb (Gen.cmp_less_equal_i32_i8 a y), sb (Gen.cmp_greater_equal_i32_i8 a y)]))
  | "i16" => some (g (Gen.cmp_equal_i32_i16_ub a y && Gen.cmp_not_equal_i32_i16_ub a y && Gen.cmp_less_i32_i16_ub a y && Gen.cmp_greater_i32_i16_ub a y && Gen.cmp_less_equal_i32_i16_ub a y && Gen.cmp_greater_equal_i32_i16_ub a y) (fun _ => String.join [sb (Gen.cmp_equal_i32_i16 a y), sb (Gen.cmp_not_equal_i32_i16 a y), sb (Gen.cmp_less_i32_i16 a y), sb (Gen.cmp_greater_i32_i16 a y), sb (Gen.cmp_less_equal_i32_i16 a y), sb (Gen.cmp_greater_equal_i32_i16 a y)]))
  | "i32" => some (g (Gen.cmp_equal_i32_i32_ub a y && Gen.cmp_not_equal_i32_i32_ub a y && Gen.cmp_less_i32_i32_ub a y && Gen.cmp_greater_i32_i32_ub a y && Gen.cmp_less_equal_i32_i32_ub a y && Gen.cmp_greater_equal_i32_i32_ub a y) (fun _ => String.join [sb (Gen.cmp_equal_i32_i32 a y), sb (Gen.cmp_not_equal_i32_i32 a y), sb (Gen.cmp_less_i32_i32 a y), sb (Gen.cmp_greater_i32_i32 a y), sb (Gen.cmp_less_equal_i32_i32 a y), sb (Gen.cmp_greater_equal_i32_i32 a y)]))
  | "i64" => some (g (Gen.cmp_equal_i32_i64_ub a y && Gen.cmp_not_equal_i32_i64_ub a y && Gen.cmp_less_i32_i64_ub a y && Gen.cmp_greater_i32_i64_ub a y && Gen.cmp_less_equal_i32_i64_ub a y && Gen.cmp_greater_equal_i32_i64_ub a y) (fun _ => String.join [sb (Gen.cmp_equal_i32_i64 a y), sb (Gen.cmp_not_equal_i32_i64 a y), sb (Gen.cmp_less_i32_i64 a y), sb (Gen.cmp_greater_i32_i64 a y), sb (Gen.cmp_less_equal_i32_i64 a y), sb (Gen.cmp_greater_equal_i32_i64 a y)]))
  | _ => none

def p_saturate_cast_i32 (ty : String) (a : Int) : Option String :=
  match ty with
  | "u8" => some (g (Gen.saturate_cast_i32_u8_ub a) (fun _ => toString (Gen.saturate_cast_i32_u8 a)))
  | "u16" => some (g (Gen.saturate_cast_i32_u16_ub a) (fun _ => toString (Gen.saturate_cast_i32_u16 a)))
  | "u32" => some (g (Gen.saturate_cast_i32_u32_ub a) (fun _ => toString (Gen.saturate_cast_i32_u32 a)))
  | "u64" => some (g (Gen.saturate_cast_i32_u64_ub a) (fun _ => toString (Gen.saturate_cast_i32_u64 a)))
  | "i8" => some (g (Gen.saturate_cast_i32_i8_ub a) (fun _ => toString (Gen.saturate_cast_i32_i8 a)))
  | "i16" => some (g (Gen.saturate_cast_i32_i16_ub a) (fun _ => toString (Gen.saturate_cast_i32_i16 a)))
  | "i32" => some (g (Gen.saturate_cast_i32_i32_ub a) (fun _ => toString (Gen.saturate_cast_i32_i32 a)))
  | "i64" => some (g (Gen.saturate_cast_i32_i64_ub a) (fun _ => toString (Gen.saturate_cast_i32_i64 a)))
  | _ => none

def p_in_range_i32 (ty : String) (a : Int) : Option String :=
  match ty with
  | "u8" => some (g (Gen.in_range_i32_u8_ub a) (fun _ => sb (Gen.in_range_i32_u8 a)))
  | "u16" => some (g (Gen.in_range_i32_u16_ub a) (fun _ => sb (Gen.in_range_i32_u16 a)))
  | "u32" => some (g (Gen.in_range_i32_u32_ub a) (fun _ => sb (Gen.in_range_i32_u32 a)))
  | "u64" => some (g (Gen.in_range_i32_u64_ub a) (fun _ => sb (Gen.in_range_i32_u64 a)))
  | "i8" => some (g (Gen.in_range_i32_i8_ub a) (fun _ => sb (Gen.in_range_i32_i8 a)))
  | "i16" => some (g (Gen.in_range_i32_i16_ub a) (fun _ => sb (Gen.in_range_i32_i16 a)))
  | "i32" => some (g (Gen.in_range_i32_i32_ub a) (fun _ => sb (Gen.in_range_i32_i32 a)))
  | "i64" => some (g (Gen.in_range_i32_i64_ub a) (fun _ => sb (Gen.in_range_i32_i64 a)))
  | _ => none

def p_cmp_i64 (ty : String) (a y : Int) : Option String :=
  match ty with
  | "u8" => some (g (Gen.cmp_equal_i64_u8_ub a y && Gen.cmp_not_equal_i64_u8_ub a y && Gen.cmp_less_i64_u8_ub a y && Gen.cmp_greater_i64_u8_ub a y && Gen.cmp_less_equal_i64_u8_ub a y && Gen.cmp_greater_equal_i64_u8_ub a y) (fun _ => String.join [sb (Gen.cmp_equal_i64_u8 a y), sb (Gen.cmp_not_equal_i64_u8 a y), sb (Gen.cmp_less_i64_u8 a y), sb (Gen.cmp_greater_i64_u8 a y), sb (Gen.cmp_less_equal_i64_u8 a y), sb (Gen.cmp_greater_equal_i64_u8 a y)]))
  | "u16" => some (g (Gen.cmp_equal_i64_u16_ub a y && Gen.cmp_not_equal_i64_u16_ub a y && Gen.cmp_less_i64_u16_ub a y && Gen.cmp_greater_i64_u16_ub a y && Gen.cmp_less_equal_i64_u16_ub a y && Gen.cmp_greater_equal_i64_u16_ub a y) (fun _ => String.join [sb (Gen.cmp_equal_i64_u16 a y), sb (Gen.cmp_not_equal_i64_u16 a y), sb (Gen.cmp_less_i64_u16 a y), sb (Gen.cmp_greater_i64_u16 a y), sb (Gen.cmp_less_equal_i64_u16 a y), sb (Gen.cmp_greater_equal_i64_u16 a y)]))
  | "u32" => some (g (Gen.cmp_equal_i64_u32_ub a y && Gen.cmp_not_equal_i64_u32_ub a y && Gen.cmp_less_i64_u32_ub a y && Gen.cmp_greater_i64_u32_ub a y && Gen.cmp_less_equal_i64_u32_ub a y && Gen.cmp_greater_equal_i64_u32_ub a y) (fun _ => String.join [sb (Gen.cmp_equal_i64_u32 a y), sb (Gen.cmp_not_equal_i64_u32 a y), sb (Gen.cmp_less_i64_u32 a y), sb (Gen.cmp_greater_i64_u32 a y), sb (Gen.cmp_less_equal_i64_u32 a y), sb (Gen.cmp_greater_equal_i64_u32 a y)]))
  | "u64" => some (g (Gen.cmp_equal_i64_u64_ub a y && Gen.cmp_not_equal_i64_u64_ub a y && Gen.cmp_less_i64_u64_ub a y && Gen.cmp_greater_i64_u64_ub a y && Gen.cmp_less_equal_i64_u64_ub a y && Gen.cmp_greater_equal_i64_u64_ub a y) (fun _ => String.join [sb (Gen.cmp_equal_i64_u64 a y), sb (Gen.cmp_not_equal_i64_u64 a y), sb (Gen.cmp_less_i64_u64 a y), sb (Gen.cmp_greater_i64_u64 a y), sb (Gen.cmp_less_equal_i64_u64 a y), sb (Gen.cmp_greater_equal_i64_u64 a y)]))
  | "i8" => some (g (Gen.cmp_equal_i64_i8_ub a y && Gen.cmp_not_equal_i64_i8_ub a y && Gen.cmp_less_i64_i8_ub a y && Gen.cmp_greater_i64_i8_ub a y && Gen.cmp_less_equal_i64_i8_ub a y && Gen.cmp_greater_equal_i64_i8_ub a y) (fun _ => String.join [sb (Gen.cmp_equal_i64_i8 a y), sb (Gen.cmp_not_equal_i64_i8 a y), sb (Gen.cmp_less_i64_i8 a y), sb (Gen.cmp_greater_i64_i8 a y), sb (Gen.cmp_less_equal_i64_i8 a y), sb (Gen.cmp_greater_equal_i64_i8 a y)]))
  | "i16" => some (g (Gen.cmp_equal_i64_i16_ub a y && Gen.cmp_not_equal_i64_i16_ub a y && Gen.cmp_less_i64_i16_ub a y && Gen.cmp_greater_i64_i16_ub a y && Gen.cmp_less_equal_i64_i16_ub a y && Gen.cmp_greater_equal_i64_i16_ub a y) (fun _ => String.join [sb (Gen.cmp_equal_i64_i16 a y), sb (Gen.cmp_not_equal_i64_i16 a y), sb (Gen.cmp_less_i64_i16 a y), sb (Gen.cmp_greater_i64_i16 a y), sb (Gen.cmp_less_equal_i64_i16 a y), sb (Gen.cmp_greater_equal_i64_i16 a y)]))
  | "i32" => some (g (Gen.cmp_equal_i64_i32_ub a y && Gen.cmp_not_equal_i64_i32_ub a y && Gen.cmp_less_i64_i32_ub a y && Gen.cmp_greater_i64_i32_ub a y && Gen.cmp_less_equal_i64_i32_ub a y && Gen.cmp_greater_equal_i64_i32_ub a y) (fun _ => String.join [sb (Gen.cmp_equal_i64_i32 a y), sb (Gen.cmp_not_equal_i64_i32 a y), sb (Gen.cmp_less_i64_i32 a y), sb (Gen.cmp_greater_i64_i32 a y), sb (Gen.cmp_less_equal_i64_i32 a y), sb (Gen.cmp_greater_equal_i64_i32 a y)]))
  | "i64" => some (g (Gen.cmp_equal_i64_i64_ub a y && Gen.cmp_not_equal_i64_i64_ub a y && Gen.cmp_less_i64_i64_ub a y && Gen.cmp_greater_i64_i64_ub a y && Gen.cmp_less_equal_i64_i64_ub a y && Gen.cmp_greater_equal_i64_i64_ub a y) (fun _ => String.join [sb (Gen.cmp_equal_i64_i64 a y), sb (Gen.cmp_not_equal_i64_i64 a y), sb (Gen.cmp_less_i64_i64 a y), sb (Gen.cmp_greater_i64_i64 a y), sb (Gen.cmp_less_equal_i64_i64 a y), sb (Gen.cmp_greater_equal_i64_i64 a y)]))
  | _ => none

def p_saturate_cast_i64 (ty : String) (a : Int) : Option String :=
  match ty with
  | "u8" => some (g (Gen.saturate_cast_i64_u8_ub a) (fun _ => toString (Gen.saturate_cast_i64_u8 a)))
  | "u16" => some (g (Gen.saturate_cast_i64_u16_ub a) (fun _ => toString (Gen.saturate_cast_i64_u16 a)))
  | "u32" => some (g (Gen.saturate_cast_i64_u32_ub a) (fun _ => toString (Gen.saturate_cast_i64_u32 a)))
  | "u64" => some (g (Gen.saturate_cast_i64_u64_ub a) (fun _ => toString (Gen.saturate_cast_i64_u64 a)))
  | "i8" => some (g (Gen.saturate_cast_i64_i8_ub a) (fun _ => toString (Gen.saturate_cast_i64_i8 a)))
  | "i16" => some (g (Gen.saturate_cast_i64_i16_ub a) (fun _ => toString (Gen.saturate_cast_i64_i16 a)))
  | "i32" => some (g (Gen.saturate_cast_i64_i32_ub a) (fun _ => toString (Gen.saturate_cast_i64_i32 a)))
  | "i64" => some (g (Gen.saturate_cast_i64_i64_ub a) (fun _ => toString (Gen.saturate_cast_i64_i64 a)))
  | _ => none

def p_in_range_i64 (ty : String) (a : Int) : Option String :=
  match ty with
  | "u8" => some (g (Gen.in_range_i64_u8_ub a) (fun _ => sb (Gen.in_range_i64_u8 a)))
  | "u16" => some (g (Gen.in_range_i64_u16_ub a) (fun _ => sb (Gen.in_range_i64_u16 a)))
  | "u32" => some (g (Gen.in_range_i64_u32_ub a) (fun _ => sb (Gen.in_range_i64_u32 a)))
  | "u64" => some (g (Gen.in_range_i64_u64_ub a) (fun _ => sb (Gen.in_range_i64_u64 a)))
  | "i8" => some (g (Gen.in_range_i64_i8_ub a) (fun _ => sb (Gen.in_range_i64_i8 a)))
  | "i16" => some (g (Gen.in_range_i64_i16_ub a) (fun _ => sb (Gen.in_range_i64_i16 a)))
  | "i32" => some (g (Gen.in_range_i64_i32_ub a) (fun _ => sb (Gen.in_range_i64_i32 a)))
  | "i64" => some (g (Gen.in_range_i64_i64_ub a) (fun _ => sb (Gen.in_range_i64_i64 a)))
  | _ => none

def p_cmp (t u : String) (a y : Int) : Option String :=
  match t with
  | "u8" => p_cmp_u8 u a y
  | "u16" => p_cmp_u16 u a y
  | "u32" => p_cmp_u32 u a y
  | "u64" => p_cmp_u64 u a y
  | "i8" => p_cmp_i8 u a y
  | "i16" => p_cmp_i16 u a y
  | "i32" => p_cmp_i32 u a y
  | "i64" => p_cmp_i64 u a y
  | _ => none

def p_saturate_cast (t u : String) (a : Int) : Option String :=
  match t with
  | "u8" => p_saturate_cast_u8 u a
  | "u16" => p_saturate_cast_u16 u a
  | "u32" => p_saturate_cast_u32 u a
  | "u64" => p_saturate_cast_u64 u a
  | "i8" => p_saturate_cast_i8 u a
  | "i16" => p_saturate_cast_i16 u a
  | "i32" => p_saturate_cast_i32 u a
  | "i64" => p_saturate_cast_i64 u a
  | _ => none

def p_in_range (t u : String) (a : Int) : Option String :=
  match t with
  | "u8" => p_in_range_u8 u a
  | "u16" => p_in_range_u16 u a
  | "u32" => p_in_range_u32 u a
  | "u64" => p_in_range_u64 u a
  | "i8" => p_in_range_i8 u a
  | "i16" => p_in_range_i16 u a
  | "i32" => p_in_range_i32 u a
  | "i64" => p_in_range_i64 u a
  | _ => none

/-- the generated counterpart of one evaluation of the driver (`t`, `u`: the type names of the case line) -/
def eval (op t : String) (u : Option String) (a : Int) (b : Option Int) : Option String :=
  match op, b, u with
  | "bit_width", none, none => u_bit_width t a
  | "bit_ceil", none, none => u_bit_ceil t a
  | "bit_floor", none, none => u_bit_floor t a
  | "abs", none, none => u_abs t a
  | "byteswap_fb", none, none => u_byteswap_fb t a
  | "has_single_bit", none, none => u_has_single_bit t a
  | "rotl", some y, none => b_rotl t a y
  | "rotr", some y, none => b_rotr t a y
  | "set_bit", some y, none => b_set_bit t a y
  | "reset_bit", some y, none => b_reset_bit t a y
  | "flip_bit", some y, none => b_flip_bit t a y
  | "add_sat", some y, none => b_add_sat t a y
  | "div_sat", some y, none => b_div_sat t a y
  | "midpoint", some y, none => b_midpoint t a y
  | "test_bit", some y, none => b_test_bit t a y
  | "set_bit_1", some y, none => b_set_bit_1 t a y
  | "set_bit_0", some y, none => b_set_bit_0 t a y
  | "cmp", some y, some u => p_cmp t u a y
  | "saturate_cast", none, some u => p_saturate_cast t u a
  | "in_range", none, some u => p_in_range t u a
  | _, _, _ => none

end Tetl.C14.GenDispatch
