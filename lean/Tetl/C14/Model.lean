/-
C14 — model of the bit and integer utilities of tetl
(include/etl/_bit/*.hpp, _numeric/{add_sat,div_sat,saturate_cast,midpoint,gcd,lcm,abs}.hpp,
 _math/{idiv,ipow,ilog2,abs}.hpp, _utility/{cmp_*,in_range}.hpp, experimental/net/byte_order.hpp).

Conventions.  A builtin integer type is `ITy` = (width `w`, signedness `sg`); every definition is
generic in `w` wherever the C++ template is.  A value of the type is the mathematical integer
(`Int`; `Nat` for the unsigned-only bit functions).  Each definition follows the C++ body
statement by statement:

* `static_cast<T>(e)` and every implicit conversion to a type `T` is `T.conv e` (reduction modulo
  `2^w` into the range of `T`), written wherever the code converts, *including* the implicit
  conversion of a promoted `int` result back to a narrow return type;
* an arithmetic operator is evaluated in the promoted type (`ITy.promote`: types narrower than
  `int` compute in `int`); `arith P e` is "the exact value `e` as computed in type `P`": for an
  unsigned `P` it wraps, for a signed `P` a value outside the range is undefined behaviour and
  the model returns `.error (.pre "ub: …")`;
* a shift by a count that is not smaller than the width of the promoted left operand, and a
  division by zero, are undefined behaviour as well and also return `.error`;
* `TETL_PRECONDITION(c)` is `.error (.pre "<function>: c")` when `c` is false;
* loops are recursions with the loop state as arguments; where the C++ loop has no syntactic
  bound, the recursion carries a fuel that the theorems show is never exhausted (`.error .fuel`).

"The model never returns `.error` on the documented domain" is therefore the statement
"no result depends on overflow / UB" of the property.
-/
import Tetl.Common
namespace Tetl.C14
open Tetl

/-- a builtin integer type: width in bits and signedness -/
structure ITy where
  w : Nat
  sg : Bool
  deriving Repr, BEq, DecidableEq, Inhabited

namespace ITy
/-- `numeric_limits<T>::min()` -/
def min (t : ITy) : Int := if t.sg then -(2 ^ (t.w - 1) : Int) else 0
/-- `numeric_limits<T>::max()` -/
def max (t : ITy) : Int := if t.sg then 2 ^ (t.w - 1) - 1 else 2 ^ t.w - 1
/-- the value is representable in `t` -/
def inR (t : ITy) (x : Int) : Bool := decide (t.min ≤ x) && decide (x ≤ t.max)
/-- `static_cast<T>(x)`: modular conversion (C++20 [conv.integral]) -/
def conv (t : ITy) (x : Int) : Int :=
  let r := x % (2 ^ t.w : Int)
  if t.sg && decide (r ≥ 2 ^ (t.w - 1)) then r - 2 ^ t.w else r
/-- `make_unsigned_t<T>` -/
def uns (t : ITy) : ITy := ⟨t.w, false⟩
/-- integral promotion: everything narrower than `int` becomes `int` -/
def promote (t : ITy) : ITy := if t.w < 32 then ⟨32, true⟩ else t
/-- usual arithmetic conversions on two promoted types -/
def usual (a b : ITy) : ITy :=
  let a := a.promote
  let b := b.promote
  if a.sg == b.sg then (if a.w ≥ b.w then a else b)
  else
    let s := if a.sg then a else b
    let u := if a.sg then b else a
    if u.w ≥ s.w then u else s
/-- `common_type_t<A, B>` (`decltype(false ? a : b)`: the type itself when both agree) -/
def common (a b : ITy) : ITy := if a == b then a else usual a b
end ITy

def u32 : ITy := ⟨32, false⟩
def i32 : ITy := ⟨32, true⟩

def ub {α : Type} (what : String) : Except Err α := .error (.pre ("ub: " ++ what))

/-- the exact result `x` of an arithmetic operator evaluated in the (promoted) type `p` -/
def arith (p : ITy) (x : Int) : Except Err Int :=
  if p.sg then (if p.inR x then .ok x else ub "signed overflow") else .ok (p.conv x)

/-! ## <bit>: unsigned only; `w` = `numeric_limits<UInt>::digits`, values are `Nat < 2^w` -/

/-- width of the promoted left operand of a shift whose left operand has type `UInt` -/
def pw (w : Nat) : Nat := if w < 32 then 32 else w

/-- `detail::popcount_fallback`: `for (; val != 0; val &= val - UInt(1)) c++;`
    (`val - 1` cannot wrap because `val != 0`; `&=` cannot leave the type) -/
def popLoop (val c : Nat) : Nat :=
  if h : val = 0 then c else popLoop (val &&& (val - 1)) (c + 1)
termination_by val
decreasing_by
  have := @Nat.and_le_right val (val - 1)
  omega

def popcountFallback (_w val : Nat) : Except Err Nat := .ok (popLoop val 0)

/-- `popcount`: the run-time path calls `__builtin_popcount{,l,ll}` (trusted to implement its
    documentation, observed by the harness); the constant-evaluated path is the fallback.
    The model of both is the fallback. -/
def popcount (w val : Nat) : Except Err Nat := popcountFallback w val

/-- `UInt(1) << (UInt(totalBits) - UInt(1))` -/
def topMask (w : Nat) : Nat := 1 <<< (w - 1)

/-- `countl_zero` loop: `while (!(x & top)) { x = UInt(x << 1); ++res; }` -/
def clzLoop (w : Nat) : Nat → Nat → Nat → Except Err Nat
  | 0, _, _ => .error .fuel
  | f + 1, x, res =>
    if x &&& topMask w == 0 then clzLoop w f ((x <<< 1) % 2 ^ w) (res + 1) else .ok res

def countlZero (w x : Nat) : Except Err Nat :=
  if x == 0 then .ok w else clzLoop w w x 0

/-- `countl_one` loop: `while (x & top) { x = UInt(x << 1); ++res; }` -/
def cloLoop (w : Nat) : Nat → Nat → Nat → Except Err Nat
  | 0, _, _ => .error .fuel
  | f + 1, x, res =>
    if x &&& topMask w != 0 then cloLoop w f ((x <<< 1) % 2 ^ w) (res + 1) else .ok res

def countlOne (w x : Nat) : Except Err Nat :=
  if x == 2 ^ w - 1 then .ok w else cloLoop w w x 0

/-- the check of `TETL_PRECONDITION(pos < static_cast<UInt>(numeric_limits<UInt>::digits))` as written
    (test_bit.hpp, set_bit.hpp, reset_bit.hpp, flip_bit.hpp): `digits` (an `int`, the width `w`) is
    converted to `UInt`, i.e. reduced modulo `2^w` (it is `w` itself because `w < 2^w`:
    `TetlProofs.C14.Lemmas.digits_as_uint`); both operands then have type `UInt`, so the (promoted)
    comparison is the comparison of the two values.  In particular a position `pos ≥ 2^31` of a
    32/64-bit type fails the check (it does not wrap to a negative `int`). -/
def bitPosPre (w pos : Nat) : Bool := decide (pos < w % 2 ^ w)

/-- `UInt(UInt(1) << pos)` with its undefined-behaviour condition -/
def oneShl (w pos : Nat) : Except Err Nat :=
  if pos < pw w then .ok ((1 <<< pos) % 2 ^ w) else ub "shift count"

def testBit (w word pos : Nat) : Except Err Bool :=
  if !bitPosPre w pos then .error (.pre "test_bit: pos < digits")
  else do
    let m ← oneShl w pos
    .ok ((word &&& m) % 2 ^ w != 0)

def setBit (w word pos : Nat) : Except Err Nat :=
  if !bitPosPre w pos then .error (.pre "set_bit: pos < digits")
  else do
    let m ← oneShl w pos
    .ok ((word ||| m) % 2 ^ w)

/-- `~e` for an expression of type `UInt` (computed in the promoted type), converted to `UInt` -/
def notU (w e : Nat) : Nat := 2 ^ w - 1 - e % 2 ^ w

def resetBit (w word pos : Nat) : Except Err Nat :=
  if !bitPosPre w pos then .error (.pre "reset_bit: pos < digits")
  else do
    let m ← oneShl w pos
    .ok ((word &&& notU w m) % 2 ^ w)

def flipBit (w word pos : Nat) : Except Err Nat :=
  if !bitPosPre w pos then .error (.pre "flip_bit: pos < digits")
  else do
    let m ← oneShl w pos
    .ok ((word ^^^ m) % 2 ^ w)

/-- `set_bit(word, pos, value)`: `UInt((word & UInt(~(UInt(1) << pos))) | (UInt(value) << pos))` -/
def setBitTo (w word pos : Nat) (value : Bool) : Except Err Nat :=
  if !bitPosPre w pos then .error (.pre "set_bit: pos < digits")
  else do
    let m ← oneShl w pos
    if !(pos < pw w) then ub "shift count"
    else .ok (((word &&& notU w m) ||| ((if value then 1 else 0) <<< pos)) % 2 ^ w)

/-- `countr_zero` loop: `while (result != totalBits) { if (test_bit(x, UInt(result))) break; ++result; }` -/
def ctzLoop (w x : Nat) : Nat → Nat → Except Err Nat
  | 0, _ => .error .fuel
  | f + 1, r =>
    if r != w then do
      let b ← testBit w x (r % 2 ^ w)
      if b then .ok r else ctzLoop w x f (r + 1)
    else .ok r

def countrZero (w x : Nat) : Except Err Nat := ctzLoop w x (w + 1) 0

def ctoLoop (w x : Nat) : Nat → Nat → Except Err Nat
  | 0, _ => .error .fuel
  | f + 1, r =>
    if r != w then do
      let b ← testBit w x (r % 2 ^ w)
      if !b then .ok r else ctoLoop w x f (r + 1)
    else .ok r

def countrOne (w x : Nat) : Except Err Nat := ctoLoop w x (w + 1) 0

/-- `bit_width`: `digits - countl_zero(x)` (an `int`) -/
def bitWidth (w x : Nat) : Except Err Nat := do
  let z ← countlZero w x
  .ok (w - z)

/-- `bit_floor`: `x != 0 ? UInt(1) << UInt(UInt(bit_width(x)) - UInt(1)) : 0` -/
def bitFloor (w x : Nat) : Except Err Nat :=
  if x != 0 then do
    let bw ← bitWidth w x
    let sh := (ITy.conv ⟨w, false⟩ (((bw % 2 ^ w : Nat) : Int) - 1)).toNat      -- UInt(UInt(bw) - UInt(1))
    if sh < pw w then .ok ((1 <<< sh) % 2 ^ w) else ub "shift count"
  else .ok 0

/-- `bit_ceil`, both `if constexpr` branches -/
def bitCeil (w x : Nat) : Except Err Nat :=
  if x ≤ 1 then .ok 1
  else do
    let bw ← bitWidth w ((x - 1) % 2 ^ w)
    if w ≥ 32 then
      -- `UInt{1U} << bit_width(UInt{x - 1U})`
      if bw < w then .ok ((1 <<< bw) % 2 ^ w) else ub "shift count"
    else
      -- `UInt{1U << (bit_width(UInt{x - 1U}) + o) >> o}`, `o = 32 - digits`
      let o := 32 - w
      if bw + o < 32 then .ok ((((1 <<< (bw + o)) % 2 ^ 32) >>> o) % 2 ^ w) else ub "shift count"

def hasSingleBit (w x : Nat) : Except Err Bool := do
  let c ← popcount w x
  .ok (c == 1)

/-- `rotl(t, s)`: `c = unsigned(s)`, `d = digits`; `(c % d) == 0 ? t : UInt((t << (c % d)) | (t >> (d - (c % d))))`.
    The left shift of a 32/64-bit operand wraps modulo `2^w`, that of a narrow operand is exact in
    `int`; after the final conversion to `UInt` both are `(… ) % 2^w`. -/
def rotl (w t : Nat) (s : Int) : Except Err Nat :=
  let c := (u32.conv s).toNat
  let d := w
  if c % d == 0 then .ok t
  else .ok (((t <<< (c % d)) ||| (t >>> (d - c % d))) % 2 ^ w)

def rotr (w t : Nat) (s : Int) : Except Err Nat :=
  let cnt := (u32.conv s).toNat
  let digits := w
  if cnt % digits == 0 then .ok t
  else .ok (((t >>> (cnt % digits)) ||| (t <<< (digits - cnt % digits))) % 2 ^ w)

/-- `detail::byteswap_fallback(uint16_t)` -/
def bswap16 (v : Nat) : Nat := ((v <<< 8) ||| (v >>> 8)) % 2 ^ 16
/-- `detail::byteswap_fallback(uint32_t)` -/
def bswap32 (v : Nat) : Nat :=
  (((v <<< 24) % 2 ^ 32) ||| ((v <<< 8) % 2 ^ 32 &&& 0x00FF0000) ||| ((v >>> 8) &&& 0x0000FF00) ||| (v >>> 24)) % 2 ^ 32
/-- `detail::byteswap_fallback(uint64_t)` -/
def bswap64 (v : Nat) : Nat :=
  (((v <<< 56) % 2 ^ 64)
    ||| ((v <<< 40) % 2 ^ 64 &&& 0x00FF000000000000)
    ||| ((v <<< 24) % 2 ^ 64 &&& 0x0000FF0000000000)
    ||| ((v <<< 8) % 2 ^ 64 &&& 0x000000FF00000000)
    ||| ((v >>> 8) &&& 0x00000000FF000000)
    ||| ((v >>> 24) &&& 0x0000000000FF0000)
    ||| ((v >>> 40) &&& 0x000000000000FF00)
    ||| (v >>> 56)) % 2 ^ 64

def byteswapFallback (w v : Nat) : Except Err Nat :=
  if w == 16 then .ok (bswap16 v) else if w == 32 then .ok (bswap32 v) else if w == 64 then .ok (bswap64 v)
  else .error (.pre "byteswap_fallback: no overload")

/-- `byteswap(Int val)`: `sizeof == 1 → val`, otherwise through the unsigned type of the same size.
    (`detail::byteswap` calls `__builtin_bswapN`; the model is the fallback.) -/
def byteswap (t : ITy) (val : Int) : Except Err Int :=
  if t.w == 8 then .ok val
  else do
    let r ← byteswapFallback t.w (t.uns.conv val).toNat
    .ok (t.conv r)

/-! ## saturating arithmetic -/

/-- `etl::clamp(v, lo, hi)` -/
def clamp (v lo hi : Int) : Int := if v < lo then lo else if hi < v then hi else v

/-- `add_sat` (GCC/clang path): `__builtin_add_overflow` computes the exact sum and reports whether it
    fits `Int` (documented behaviour, trusted). -/
def addSat (t : ITy) (x y : Int) : Except Err Int :=
  let sum := x + y
  if t.inR sum then .ok sum
  else if !t.sg then .ok t.max
  else if x > 0 then .ok t.max
  else .ok t.min

/-- `detail::add_sat_fallback`: the `if constexpr` chain by size -/
def addSatFallback (t : ITy) (x y : Int) : Except Err Int :=
  if t.w < 32 then .ok (t.conv (clamp (x + y) t.min t.max))             -- in `int`, exact
  else if t.w == 32 then .ok (t.conv (clamp (x + y) t.min t.max))        -- in `int64_t`/`uint64_t`, exact
  else if x ≥ 0 then do
    let room ← arith t (t.max - x)
    if room < y then .ok t.max else arith t (x + y)
  else do
    let room ← arith t (t.min - x)
    if y < room then .ok t.min else arith t (x + y)

def divSat (t : ITy) (x y : Int) : Except Err Int :=
  if y == 0 then .error (.pre "div_sat: y != 0")
  else if t.sg && x == t.min && y == -1 then .ok t.max
  else do
    let q ← arith t.promote (Int.tdiv x y)
    .ok (t.conv q)

/-! ## safe comparisons -/

/-- builtin `a < b` on operands of types `A`, `B`: usual arithmetic conversions, then compare -/
def builtinLt (A B : ITy) (a b : Int) : Bool :=
  let C := ITy.usual A B
  decide (C.conv a < C.conv b)

def builtinEq (A B : ITy) (a b : Int) : Bool :=
  let C := ITy.usual A B
  decide (C.conv a = C.conv b)

def cmpLess (T U : ITy) (t u : Int) : Bool :=
  if T.sg == U.sg then builtinLt T U t u
  else if T.sg then (if t < 0 then true else builtinLt T.uns U (T.uns.conv t) u)
  else (if u < 0 then false else builtinLt T U.uns t (U.uns.conv u))

def cmpEqual (T U : ITy) (t u : Int) : Bool :=
  if T.sg == U.sg then builtinEq T U t u
  else if T.sg then (if t < 0 then false else builtinEq T.uns U (T.uns.conv t) u)
  else (if u < 0 then false else builtinEq T U.uns t (U.uns.conv u))

def cmpNotEqual (T U : ITy) (t u : Int) : Bool := !cmpEqual T U t u
def cmpGreater (T U : ITy) (t u : Int) : Bool := cmpLess U T u t
def cmpLessEqual (T U : ITy) (t u : Int) : Bool := !cmpGreater T U t u
def cmpGreaterEqual (T U : ITy) (t u : Int) : Bool := !cmpLess T U t u

/-- `in_range<R>(t)` -/
def inRange (R T : ITy) (t : Int) : Bool :=
  cmpGreaterEqual T R t R.min && cmpLessEqual T R t R.max

/-- `saturate_cast<To>(x)` -/
def saturateCast (To From : ITy) (x : Int) : Except Err Int :=
  if cmpLess From To x To.min then .ok To.min
  else if cmpGreater From To x To.max then .ok To.max
  else .ok (To.conv x)

/-! ## midpoint, gcd, lcm, abs -/

/-- `midpoint(Int a, Int b)` -/
def midpoint (t : ITy) (a b : Int) : Except Err Int :=
  let U := t.uns
  let shift := (U.conv ((t.w : Int) - 1)).toNat
  let diff := (U.conv (U.conv b - U.conv a)).toNat
  let sign : Nat := if b < a then 1 else 0
  if !(shift < pw t.w) then ub "shift count"
  else
    let half := U.conv ((diff / 2 + (sign <<< shift) + (sign &&& diff) : Nat) : Int)
    do
      let r ← arith t.promote (a + t.conv half)
      .ok (t.conv r)

/-- `ptrdiff_t` on the modelled platform (x86-64 / LP64) -/
def ptrdiffT : ITy := ⟨64, true⟩

/-- `midpoint(Ptr a, Ptr b)`: `a + etl::midpoint(etl::ptrdiff_t(0), b - a)`.  A pointer into an array
    of `len` elements is its index `0 … len` (one past the end included).  [expr.add]: `b - a` and
    `a + n` are defined only inside one array — pointers into different arrays are the documented
    precondition ([numeric.ops.midpoint]: "a and b point to elements of the same array"), a result
    outside `0 … len` is undefined behaviour; `b - a` is a `ptrdiff_t`. -/
def midpointPtr (len ia ib : Int) : Except Err Int :=
  if !(decide (0 ≤ ia) && decide (ia ≤ len) && decide (0 ≤ ib) && decide (ib ≤ len)) then
    .error (.pre "midpoint: pointers into the same array")
  else do
    let d ← arith ptrdiffT (ib - ia)          -- `b - a`
    let h ← midpoint ptrdiffT 0 d             -- `etl::midpoint(etl::ptrdiff_t(0), b - a)`
    let r := ia + h                           -- `a + …`
    if decide (0 ≤ r) && decide (r ≤ len) then .ok r else ub "pointer arithmetic"

/-- `detail::gcd_abs<U>(x)`: `|x|` as a value of the unsigned common type `U`, without overflow:
    `x < 0 ? U(U(0) - U(x)) : U(x)` -/
def absAs (U : ITy) (x : Int) : Nat :=
  if x < 0 then (U.conv (0 - U.conv x)).toNat else (U.conv x).toNat

/-- Euclid's loop `while (b != 0) { r = U(a % b); a = b; b = r; }` -/
def gcdLoop (a b : Nat) : Nat :=
  if _hb : b = 0 then a else gcdLoop b (a % b)
termination_by b
decreasing_by exact Nat.mod_lt _ (Nat.pos_of_ne_zero ‹_›)

/-- `gcd(M m, N n) -> common_type_t<M, N>` -/
def gcd (M N : ITy) (m n : Int) : Except Err Int :=
  let R := ITy.common M N
  let U := R.uns
  .ok (R.conv (gcdLoop (absAs U m) (absAs U n)))

/-- `lcm(M m, N n)`: `m == 0 || n == 0 ? 0 : R((|m| / gcd(|m|,|n|)) * |n|)` in the unsigned common type -/
def lcm (M N : ITy) (m n : Int) : Except Err Int :=
  let R := ITy.common M N
  let U := R.uns
  if m == 0 || n == 0 then .ok 0
  else
    let a := absAs U m
    let b := absAs U n
    let g := gcdLoop a b
    if g == 0 then ub "division by zero"
    else do
      let p ← arith U.promote ((a / g * b : Nat) : Int)
      .ok (R.conv (U.conv p))

/-- `etl::abs<Type>(input)` of `_numeric/abs.hpp`: `input < 0 ? Type(-input) : input` -/
def absT (t : ITy) (x : Int) : Except Err Int :=
  if t.sg then
    if x < 0 then do
      let n ← arith t.promote (-x)
      .ok (t.conv n)
    else .ok x
  else .ok x

/-- `etl::abs(int|long|long long)` of `_math/abs.hpp`: `n >= 0 ? n : n * T(-1)` -/
def absM (t : ITy) (n : Int) : Except Err Int :=
  if n ≥ 0 then .ok n else arith t.promote (n * -1)

/-! ## idiv, ipow, ilog2 -/

def idiv (t : ITy) (x y : Int) : Except Err (Int × Int) :=
  if y == 0 then ub "division by zero"
  else do
    let q ← arith t.promote (Int.tdiv x y)
    -- `x % y` is undefined exactly when `x / y` is
    .ok (t.conv q, t.conv (Int.tmod x y))

/-- `ipow(base, exponent)`: `for (i = 0; i < exponent; ++i) result *= base;` — `n` iterations left -/
def ipowLoop (t : ITy) (base : Int) : Nat → Int → Except Err Int
  | 0, r => .ok r
  | n + 1, r => do
    let p ← arith t.promote (r * base)
    ipowLoop t base n (t.conv p)

def ipow (t : ITy) (base exponent : Int) : Except Err Int :=
  ipowLoop t base exponent.toNat 1

/-- `ipow<2>(exponent)`: `Int(Int(1) << exponent)` -/
def ipow2 (t : ITy) (exponent : Int) : Except Err Int :=
  let P := t.promote
  if exponent < 0 || exponent ≥ P.w then ub "shift count"
  else .ok (t.conv (P.conv (2 ^ exponent.toNat)))

/-- `ilog2(x)`: `for (; x > Int(1); x >>= Int(1)) ++result;`.  The comparison is a signed one for a
    signed `Int` (after promotion: still the comparison of the values), so for every `x ≤ 1` — zero and
    all negative values included — the body never runs; for `x > 1` the right shift of a positive
    value is the division by 2 and the loop state stays positive: the loop is written on `Nat`. -/
def ilog2Loop (x r : Nat) : Nat :=
  if _h : x > 1 then ilog2Loop (x / 2) (r + 1) else r
termination_by x
decreasing_by omega

def ilog2 (_t : ITy) (x : Int) : Except Err Int :=
  -- `x <= 1` (all negative values included): the loop body never runs
  .ok (ilog2Loop x.toNat 0)

/-! ## experimental/net/byte_order.hpp -/

/-- `ntoh(uint16_t)`: `uint16_t(v << 8) | uint16_t(v >> 8)` converted to the return type -/
def ntoh16 (v : Nat) : Nat := (((v <<< 8) % 2 ^ 16) ||| ((v >>> 8) % 2 ^ 16)) % 2 ^ 16

/-- `ntoh(uint32_t)` -/
def ntoh32 (v : Nat) : Nat :=
  let a := (v <<< 24) % 2 ^ 32
  let b := ((v &&& 0x0000FF00) <<< 8) % 2 ^ 32
  let c := (v &&& 0x00FF0000) >>> 8
  let d := v >>> 24
  a ||| b ||| c ||| d

def ntoh (w v : Nat) : Except Err Nat :=
  if w == 8 then .ok v else if w == 16 then .ok (ntoh16 v) else if w == 32 then .ok (ntoh32 v)
  else .error (.pre "ntoh: deleted overload")

/-- `hton` forwards to `ntoh` -/
def hton (w v : Nat) : Except Err Nat := ntoh w v

end Tetl.C14
