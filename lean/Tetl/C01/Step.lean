/-
C01 — operation histories.  A system is one vector type (`static_vector`, `inplace_vector`, or
`stack<T, static_vector<T,N>>`), one compile-time capacity, one element kind and four live
objects of that type.  `step` executes one operation on object `k` (some operations name a second
object `j`), using only the member models of `Model.lean`; `valid` is the documented
precondition of the operation in the current state (the generator uses the same predicate).
-/
import Tetl.C01.Model
namespace Tetl.C01

/-- what an operation returns (iterators as offsets from `begin()`, references as the value) -/
inductive Out where
  | unit
  | it (off : Nat)
  | count (n : Nat)
  | ptr (p : Option Nat)      -- `T*` of `try_*`: null or the value pointed to
  | ref (x : Nat)             -- `T&` of `unchecked_*`
  | rels (bs : List Bool)     -- == != < <= > >=
  -- the same results for a call whose argument is an rvalue the caller still owns (`v.push_back(etl::move(t))`),
  -- together with what the caller sees of `t` afterwards: `moved` = an element has been constructed from it
  | unitArg (moved : Bool)
  | itArg (off : Nat) (moved : Bool)
  | ptrArg (p : Option Nat) (moved : Bool)
  | refArg (x : Nat) (moved : Bool)
  deriving Repr, DecidableEq, Inhabited

inductive Op where
  | push (ov x : Nat)               -- ov 0 `push_back(T const&)`, 1 `push_back(T&&)`, 2 `emplace_back(x)`
  | pop
  | insert1 (ov pos x : Nat)        -- ov 0 `insert(pos, T const&)`, 1 `insert(pos, T&&)`, 2 `emplace(pos, x)`
  | insertFill (pos n x : Nat)
  | insertRange (pos : Nat) (xs : List Nat)
  | moveInsert (pos : Nat) (xs : List Nat)
  | erase (pos : Nat)
  | eraseRange (f l : Nat)
  | resize (n : Nat)
  | resizeVal (n x : Nat)
  | assignFill (n x : Nat)
  | assignRange (xs : List Nat)
  | clear
  | ctorN (n : Nat)                 -- object k is destroyed and re-constructed as `T(n)`
  | ctorNVal (n x : Nat)
  | ctorRange (xs : List Nat)
  | copyCtor (j : Nat)              -- object k re-constructed as `T(obj j)`, `j ≠ k`
  | moveCtor (j : Nat)              -- `T(move(obj j))`, `j ≠ k`
  | copyAssign (j : Nat)            -- `obj k = obj j`, `j = k` allowed
  | moveAssign (j : Nat)
  | swap (j : Nat)
  | eraseVal (x : Nat)              -- `etl::erase(c, x)`
  | eraseIf (m r : Nat)             -- `etl::erase_if(c, [](v){ return v % m == r; })`
  | cmp (j : Nat)
  | tryPush (ov x : Nat)            -- inplace_vector: `try_push_back(const&)`, `(&&)`, `try_emplace_back`
  | unchecked (ov x : Nat)          -- inplace_vector: `unchecked_push_back(const&)`, `(&&)`, `unchecked_emplace_back`
  | dump
  -- the argument is an element of the vector itself (`Arg.elem i`, Model.lean): [sequence.reqmts] requires these to work
  | pushA (ov i : Nat)              -- ov 0 `push_back(v[i])`, 2 `emplace_back(v[i])`
  | pushTop (ov : Nat)              -- ov 0 `push_back(back())` / `stack::push(top())`, 2 `emplace_back(back())` / `stack::emplace(top())`
  | insertA (ov pos i : Nat)        -- ov 0 `insert(pos, v[i])` (the `T const&` overload), 2 `emplace(pos, v[i])`
  | insertFillA (pos n i : Nat)     -- `insert(pos, n, v[i])`
  | resizeValA (n i : Nat)          -- `resize(n, v[i])`
  | tryPushA (ov i : Nat)           -- inplace_vector: ov 0 `try_push_back(c[i])`, 2 `try_emplace_back(c[i])`
  | uncheckedA (ov i : Nat)         -- inplace_vector: ov 0 `unchecked_push_back(c[i])`, 2 `unchecked_emplace_back(c[i])`
  -- the argument is an rvalue `etl::move(t)` of an object `t` (value `x`) that the caller looks at after the call
  -- (Model.lean, "rvalue arguments the caller still owns"): the result says whether `t` has been moved from
  | pushMv (ov x : Nat)             -- ov 1 `push_back(move(t))` / `stack::push(move(t))`, 3 `emplace_back(move(t))` / `stack::emplace(move(t))`
  | insertMv (ov pos x : Nat)       -- ov 1 `insert(pos, move(t))`, 3 `emplace(pos, move(t))`
  | tryPushMv (ov x : Nat)          -- inplace_vector: ov 1 `try_push_back(move(t))`, 3 `try_emplace_back(move(t))`
  | uncheckedMv (ov x : Nat)        -- inplace_vector: ov 1 `unchecked_push_back(move(t))`, 3 `unchecked_emplace_back(move(t))`
  deriving Repr, Inhabited

/-- what the caller sees of an rvalue argument after the call: `some true` moved from, `some false` untouched;
    `none` for a call that has no such argument -/
def Out.moved? : Out → Option Bool
  | .unitArg m => some m
  | .itArg _ m => some m
  | .ptrArg _ m => some m
  | .refArg _ m => some m
  | _ => none

/-- the operations whose argument is an rvalue the caller looks at afterwards -/
def takesRvalue : Op → Bool
  | .pushMv .. => true
  | .insertMv .. => true
  | .tryPushMv .. => true
  | .uncheckedMv .. => true
  | _ => false

structure Sys where
  ty : Ty
  cap : Nat
  kind : Kind
  objs : List V
  deriving Repr, Inhabited

def Sys.init (ty : Ty) (cap : Nat) (kind : Kind) : Sys := ⟨ty, cap, kind, [[], [], [], []]⟩

def Sys.setObj (s : Sys) (k : Nat) (d : V) : Sys := { s with objs := s.objs.set k d }

/-- the predicate of `erase_if` used in histories -/
def modPred (m r : Nat) : Nat → Bool := fun v => v % m == r

/-- members each type provides (after the repairs on branch fix-c01) -/
def supports : Ty → Op → Bool
  | .sv, .tryPush .. => false
  | .sv, .unchecked .. => false
  | .sv, .tryPushA .. => false
  | .sv, .uncheckedA .. => false
  | .sv, .tryPushMv .. => false
  | .sv, .uncheckedMv .. => false
  | .sv, _ => true
  | .stk, .push .. => true
  | .stk, .pop => true
  | .stk, .copyCtor _ => true
  | .stk, .moveCtor _ => true
  | .stk, .copyAssign _ => true
  | .stk, .moveAssign _ => true
  | .stk, .swap _ => true
  | .stk, .cmp _ => true
  | .stk, .dump => true
  | .stk, .pushTop _ => true
  | .stk, .pushMv .. => true
  | .stk, _ => false
  | .ipv, .tryPush .. => true
  | .ipv, .unchecked .. => true
  | .ipv, .tryPushA .. => true
  | .ipv, .uncheckedA .. => true
  | .ipv, .tryPushMv .. => true
  | .ipv, .uncheckedMv .. => true
  | .ipv, .pop => true
  | .ipv, .clear => true
  | .ipv, .copyCtor _ => true
  | .ipv, .moveCtor _ => true
  | .ipv, .dump => true
  | .ipv, _ => false

/-- Members outside `supports` that exist only for the specialisation `inplace_vector<T, 0>`: it is an empty
    class without user-declared special members, hence implicitly copy- and move-assignable, and the generic
    `etl::swap` (which needs move assignment) applies to it.  The object is always empty, nothing is observable
    through them; histories do not use them.  Only the member inventory (`api_member`) reports them.
    Argument: the operation name of the line protocol. -/
def ipvZeroExtra (cap : Nat) (member : String) : Bool :=
  cap == 0 && (member == "copy_assign" || member == "move_assign" || member == "swap_free")

/-- operations on object `k` alone, for `static_vector` (and the stack built on it) -/
def step1 (cap : Nat) (kind : Kind) (op : Op) (d : V) : Except Err (V × Out) :=
  match op with
  | .push ov x =>
    if ov = 2 then do let d1 ← emplaceBack cap d x; .ok (d1, .unit)
    else do let d1 ← pushBack cap d x; .ok (d1, .unit)
  | .pop => do let d1 ← popBack cap d; .ok (d1, .unit)
  | .insert1 ov pos x =>
    if ov = 0 then do let r ← insertCref cap d pos x; .ok (r.1, .it r.2)
    else do let r ← insertRv cap d pos x; .ok (r.1, .it r.2)
  | .insertFill pos n x => do let r ← insertFill cap d pos n x; .ok (r.1, .it r.2)
  | .insertRange pos xs => do let r ← insertRange cap d pos xs; .ok (r.1, .it r.2)
  | .moveInsert pos xs => do let r ← moveInsert cap d pos xs; .ok (r.1, .it r.2)
  | .erase pos => do let r ← erase cap d pos; .ok (r.1, .it r.2)
  | .eraseRange f l => do let r ← eraseRange cap d f l; .ok (r.1, .it r.2)
  | .resize n => do let d1 ← resize cap d n; .ok (d1, .unit)
  | .resizeVal n x => do let d1 ← resizeVal cap d n x; .ok (d1, .unit)
  | .assignFill n x => do let d1 ← assignFill cap d n x; .ok (d1, .unit)
  | .assignRange xs => do let d1 ← assignRange cap d xs; .ok (d1, .unit)
  | .clear => do let d1 ← clear cap d; .ok (d1, .unit)
  | .ctorN n => do let d1 ← ctorN cap n; .ok (d1, .unit)
  | .ctorNVal n x => do let d1 ← ctorNVal cap n x; .ok (d1, .unit)
  | .ctorRange xs => do let d1 ← ctorRange cap xs; .ok (d1, .unit)
  | .eraseVal x => do let r ← eraseIf cap kind d (fun v => eqOf kind v x); .ok (r.1, .count r.2)
  | .eraseIf m r => do let e ← eraseIf cap kind d (modPred m r); .ok (e.1, .count e.2)
  | .dump => .ok (d, .unit)
  | .pushA ov i =>
    if ov = 2 then do let d1 ← emplaceBackA cap d (.elem i); .ok (d1, .unit)
    else do let d1 ← pushBackA cap d (.elem i); .ok (d1, .unit)
  | .pushTop ov => do let d1 ← pushTop cap d (ov == 2); .ok (d1, .unit)
  | .insertA ov pos i =>
    if ov = 0 then do let r ← insertCrefA cap d pos (.elem i); .ok (r.1, .it r.2)
    else do let r ← emplaceA cap d pos (.elem i); .ok (r.1, .it r.2)
  | .insertFillA pos n i => do let r ← insertFillA cap d pos n (.elem i); .ok (r.1, .it r.2)
  | .resizeValA n i => do let d1 ← resizeValA cap d n (.elem i); .ok (d1, .unit)
  | .pushMv ov x =>
    if ov = 3 then do let r ← emplaceBackRv cap d x; .ok (r.1, .unitArg r.2)
    else do let r ← pushBackRv cap d x; .ok (r.1, .unitArg r.2)
  | .insertMv ov pos x =>
    if ov = 3 then do let r ← emplaceRvArg cap d pos x; .ok (r.1.1, .itArg r.1.2 r.2)
    else do let r ← insertRvArg cap d pos x; .ok (r.1.1, .itArg r.1.2 r.2)
  | _ => .error (.pre "not a single-object member")

/-- operations on object `k` alone, for `inplace_vector` -/
def step1Ipv (cap : Nat) (op : Op) (d : V) : Except Err (V × Out) :=
  match op with
  | .tryPush _ x => do let r ← ipvTry cap d x; .ok (r.1, .ptr r.2)
  | .unchecked _ x => do let r ← ipvUnchecked cap d x; .ok (r.1, .ref r.2)
  | .tryPushA _ i => do let r ← ipvTryA cap d (.elem i); .ok (r.1, .ptr r.2)
  | .uncheckedA _ i => do let r ← ipvUncheckedA cap d (.elem i); .ok (r.1, .ref r.2)
  | .tryPushMv _ x => do let r ← ipvTryRv cap d x; .ok (r.1, .ptrArg r.2.1 r.2.2)
  | .uncheckedMv _ x => do let r ← ipvUncheckedRv cap d x; .ok (r.1, .refArg r.2.1 r.2.2)
  | .pop => do let d1 ← ipvPop cap d; .ok (d1, .unit)
  | .clear => do let d1 ← ipvClear cap d; .ok (d1, .unit)
  | .dump => .ok (d, .unit)
  | _ => .error (.pre "not a single-object member")

def step (s : Sys) (k : Nat) (op : Op) : Except Err (Sys × Out) :=
  if !supports s.ty op then .error (.pre "the type has no such member") else
  match op with
  | .copyCtor j =>
    if j = k then .error (.pre "copy construction from itself") else do
    let o ← rd s.objs j
    let _ ← rd s.objs k
    let d ← if s.ty = .ipv then ipvCopyCtor s.cap s.kind o else copyCtor s.cap o
    .ok (s.setObj k d, .unit)
  | .moveCtor j =>
    if j = k then .error (.pre "move construction from itself") else do
    let o ← rd s.objs j
    let _ ← rd s.objs k
    let r ← if s.ty = .ipv then ipvMoveCtor s.cap s.kind o else moveCtor s.cap s.kind o
    .ok ((s.setObj k r.1).setObj j r.2, .unit)
  | .copyAssign j => do
    let o ← rd s.objs j
    let d ← rd s.objs k
    if j = k then do
      let d1 ← copyAssignSelf s.cap d
      .ok (s.setObj k d1, .unit)
    else do
      let d1 ← copyAssign s.cap d o
      .ok (s.setObj k d1, .unit)
  | .moveAssign j => do
    let o ← rd s.objs j
    let d ← rd s.objs k
    if j = k then do
      let d1 ← moveAssignSelf s.cap d
      .ok (s.setObj k d1, .unit)
    else do
      let r ← moveAssign s.cap s.kind d o
      .ok ((s.setObj k r.1).setObj j r.2, .unit)
  | .swap j => do
    let o ← rd s.objs j
    let d ← rd s.objs k
    if j = k then do
      let d1 ← swapSelf s.cap s.kind d
      .ok (s.setObj k d1, .unit)
    else do
      let r ← swapVec s.cap s.kind d o
      .ok ((s.setObj k r.1).setObj j r.2, .unit)
  | .cmp j => do
    let o ← rd s.objs j
    let d ← rd s.objs k
    let bs ← relOps (ltOf s.kind) (eqOf s.kind) d o
    .ok (s, .rels bs)
  | op => do
    let d ← rd s.objs k
    let r ← if s.ty = .ipv then step1Ipv s.cap op d else step1 s.cap s.kind op d
    .ok (s.setObj k r.1, r.2)

/-! ### documented preconditions -/

/-- precondition of a single-object operation on a vector with live elements `d` -/
def valid1 (cap : Nat) (op : Op) (d : V) : Bool :=
  match op with
  | .push _ _ => d.length < cap
  | .pop => 0 < d.length
  | .insert1 _ pos _ => d.length < cap && pos ≤ d.length
  | .insertFill pos n _ => pos ≤ d.length && d.length + n ≤ cap
  | .insertRange pos xs => pos ≤ d.length && d.length + xs.length ≤ cap
  | .moveInsert pos xs => pos ≤ d.length && d.length + xs.length ≤ cap
  | .erase pos => pos < d.length
  | .eraseRange f l => f ≤ l && l ≤ d.length
  | .resize n => n ≤ cap
  | .resizeVal n _ => n ≤ cap
  | .assignFill n _ => n ≤ cap
  | .assignRange xs => xs.length ≤ cap
  | .clear => true
  | .ctorN n => n ≤ cap
  | .ctorNVal n _ => n ≤ cap
  | .ctorRange xs => xs.length ≤ cap
  | .eraseVal _ => true
  | .eraseIf m _ => 0 < m
  | .tryPush _ _ => true
  | .unchecked _ _ => d.length < cap
  | .dump => true
  | .pushA _ i => d.length < cap && i < d.length
  | .pushTop _ => d.length < cap && 0 < d.length
  | .insertA _ pos i => d.length < cap && pos ≤ d.length && i < d.length
  | .insertFillA pos n i => pos ≤ d.length && d.length + n ≤ cap && i < d.length
  | .resizeValA n i => n ≤ cap && i < d.length
  | .tryPushA _ i => i < d.length
  | .uncheckedA _ i => d.length < cap && i < d.length
  | .pushMv _ _ => d.length < cap
  | .insertMv _ pos _ => d.length < cap && pos ≤ d.length
  | .tryPushMv _ _ => true
  | .uncheckedMv _ _ => d.length < cap
  | _ => false

def isBinary : Op → Option Nat
  | .copyCtor j => some j
  | .moveCtor j => some j
  | .copyAssign j => some j
  | .moveAssign j => some j
  | .swap j => some j
  | .cmp j => some j
  | _ => none

/-- the documented precondition of an operation in the state `s` (positions valid, no more than the
    capacity asked for, the objects named exist): what the caller owes, for a type that has the member -/
def validPre (s : Sys) (k : Nat) (op : Op) : Bool :=
  k < s.objs.length &&
  match op with
  | .copyCtor j => j < s.objs.length && j != k
  | .moveCtor j => j < s.objs.length && j != k
  | .copyAssign j => j < s.objs.length
  | .moveAssign j => j < s.objs.length
  | .swap j => j < s.objs.length
  | .cmp j => j < s.objs.length
  | op => match s.objs[k]? with
    | some d => valid1 s.cap op d
    | none => false

/-- `validPre`, and the type has the member at all (`supports`) -/
def valid (s : Sys) (k : Nat) (op : Op) : Bool :=
  supports s.ty op && k < s.objs.length &&
  match op with
  | .copyCtor j => j < s.objs.length && j != k
  | .moveCtor j => j < s.objs.length && j != k
  | .copyAssign j => j < s.objs.length
  | .moveAssign j => j < s.objs.length
  | .swap j => j < s.objs.length
  | .cmp j => j < s.objs.length
  | op => match s.objs[k]? with
    | some d => valid1 s.cap op d
    | none => false

/-- run a history; returns the final system and the outputs -/
def run (s : Sys) : List (Nat × Op) → Except Err (Sys × List Out)
  | [] => .ok (s, [])
  | (k, op) :: rest => do
    let r ← step s k op
    let r2 ← run r.1 rest
    .ok (r2.1, r.2 :: r2.2)

/-- every operation of the history meets its precondition in the *model* state it is applied to.
    (Nothing is asked of the operations behind a failing step: that no step fails is a conclusion of
    `history_refines_modelstate`, not part of this hypothesis.)  This notion of validity looks at the
    model's objects and therefore also admits histories that go on using a moved-from object with the
    contents etl happens to leave in it; the property's own notion — validity judged on what the
    standard specifies — is `Spec.validHist` in Spec.lean. -/
def validRun (s : Sys) : List (Nat × Op) → Bool
  | [] => true
  | (k, op) :: rest =>
    valid s k op && match step s k op with
      | .ok r => validRun r.1 rest
      | .error _ => true

end Tetl.C01
