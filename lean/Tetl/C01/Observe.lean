/-
C01 — the observers of `etl::static_vector` (include/etl/_vector/static_vector.hpp),
`etl::inplace_vector` (include/etl/_inplace_vector/inplace_vector.hpp) and `etl::stack`
(include/etl/_stack/stack.hpp) as model functions that follow the C++.

A vector is the list `d : V` of its live elements (`Tetl.C01.Model`); an iterator is a pointer
into the storage and is modelled as its offset from `data()`.  Dereferencing an iterator is a
checked read `rd d off` (an offset `≥ size()` is `.error .oob`), a contract check
(`TETL_PRECONDITION`) that fails is `.error (.pre _)`.  Nothing here is totalised: every element
access returns `Except Err Nat`.
-/
import Tetl.C01.Model
namespace Tetl.C01

/-! ### size / capacity -/

/-- `size()`: `return _size;` (trivial and non-trivial storage; `static_cast<size_t>(_size)` in
    inplace_vector; `c.size()` in stack).  The model keeps `_size = data.length`. -/
def size (d : V) : Nat := d.length

/-- `capacity()`: `return Capacity;` -/
def capacity (cap : Nat) : Nat := cap

/-- `max_size()`: `return capacity();` (static_vector), `return Capacity;` (inplace_vector) -/
def maxSize (cap : Nat) : Nat := capacity cap

/-- `empty()`: `return size() == size_type{0};` (`size() == 0` in inplace_vector, `c.empty()` in stack) -/
def empty (d : V) : Bool := size d == 0

/-- `full()`: `return size() == Capacity;` -/
def full (cap : Nat) (d : V) : Bool := size d == capacity cap

/-- `static_vector_zero_storage::size()`: `return 0;` (also `inplace_vector<T, 0>::size()`) -/
def zeroSize : Nat := 0

/-- `static_vector_zero_storage::capacity()`: `return 0;` (also `inplace_vector<T, 0>::capacity()/max_size()`) -/
def zeroCapacity : Nat := 0

/-- `static_vector_zero_storage::empty()`: `return true;` -/
def zeroEmpty : Bool := true

/-- `static_vector_zero_storage::full()`: `return true;` -/
def zeroFull : Bool := true

/-! ### iterators as offsets from `data()` -/

/-- `begin()` / `cbegin()`: `return data();` — offset 0 -/
def beginOff (_d : V) : Nat := 0

/-- `end()` / `cend()`: `return data() + size();` (`etl::next(begin(), size())` in inplace_vector) -/
def endOff (d : V) : Nat := beginOff d + size d

/-- `rbegin()` / `crbegin()`: `return reverse_iterator(end());` — the stored `base()` -/
def rbeginBase (d : V) : Nat := endOff d

/-- `rend()` / `crend()`: `return reverse_iterator(begin());` — the stored `base()` -/
def rendBase (d : V) : Nat := beginOff d

/-- `data()[i]` -/
def dataAt (d : V) (i : Nat) : Except Err Nat := rd d i

/-- `*it` for an iterator at offset `off` -/
def deref (d : V) (off : Nat) : Except Err Nat := rd d off

/-- `reverse_iterator::operator*`: `auto tmp = _current; return *--tmp;` — decrementing `begin()`
    is outside the storage -/
def rderef (d : V) (base : Nat) : Except Err Nat :=
  match base with
  | 0 => .error .oob
  | b + 1 => deref d b

/-! ### element access -/

/-- `detail::index(rng, i)`:
    `TETL_PRECONDITION(size_t(i) < size_t(end(rng) - begin(rng))); return begin(rng)[i];` -/
def index (d : V) (i : Nat) : Except Err Nat :=
  if i < endOff d - beginOff d then deref d (beginOff d + i)
  else .error (.pre "index: i < end - begin")

/-- `static_vector::operator[](pos)`: `return detail::index(*this, pos);` -/
def svIndex (d : V) (pos : Nat) : Except Err Nat := index d pos

/-- `static_vector::front()`: `return detail::index(*this, 0);` -/
def svFront (d : V) : Except Err Nat := index d 0

/-- `static_vector::back()`:
    `TETL_PRECONDITION(!empty()); return detail::index(*this, size_type(size() - 1));` -/
def svBack (d : V) : Except Err Nat :=
  if empty d then .error (.pre "back: !empty()") else index d (size d - 1)

/-- `inplace_vector::operator[](n)`:
    `TETL_PRECONDITION(n < size()); return *etl::next(data(), ptrdiff_t(n));` -/
def ipvIndex (d : V) (n : Nat) : Except Err Nat :=
  if n < size d then deref d (beginOff d + n) else .error (.pre "operator[]: n < size()")

/-- `inplace_vector::front()`: `TETL_PRECONDITION(not empty()); return *begin();` -/
def ipvFront (d : V) : Except Err Nat :=
  if empty d then .error (.pre "front: not empty()") else deref d (beginOff d)

/-- `inplace_vector::back()`: `TETL_PRECONDITION(not empty()); return *etl::prev(end());` -/
def ipvBack (d : V) : Except Err Nat :=
  if empty d then .error (.pre "back: not empty()") else deref d (endOff d - 1)

/-- `stack::top()`: `return c.back();` over a `static_vector` -/
def stkTop (d : V) : Except Err Nat := svBack d

/-- `stack::empty()`: `return c.empty();` -/
def stkEmpty (d : V) : Bool := empty d

/-- `stack::size()`: `return c.size();` -/
def stkSize (d : V) : Nat := size d

/-! ### traversals -/

/-- `for (it = begin(); it != end(); ++it) out.push_back(*it);` from the iterator at offset `i`;
    the last argument is the number of iterations left (`end() - it`) -/
def walk (d : V) (i : Nat) : Nat → Except Err (List Nat)
  | 0 => .ok []
  | n + 1 => do
    let x ← deref d i
    let rest ← walk d (i + 1) n
    pure (x :: rest)

/-- the forward traversal `begin() .. end()` -/
def iterate (d : V) : Except Err (List Nat) := walk d (beginOff d) (endOff d - beginOff d)

/-- `for (rit = rbegin(); rit != rend(); ++rit) out.push_back(*rit);` from the reverse iterator
    whose `base()` is at offset `base`; `*rit = *(base - 1)`, `++rit` decrements the base; the last
    argument is the number of iterations left (`rit.base() - rend().base()`) -/
def rwalk (d : V) (base : Nat) : Nat → Except Err (List Nat)
  | 0 => .ok []
  | n + 1 => do
    let x ← rderef d base
    let rest ← rwalk d (base - 1) n
    pure (x :: rest)

/-- the reverse traversal `rbegin() .. rend()` -/
def riterate (d : V) : Except Err (List Nat) := rwalk d (rbeginBase d) (rbeginBase d - rendBase d)

end Tetl.C01
