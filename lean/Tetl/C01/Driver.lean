/- placeholder: the C01 driver is not built yet -/
def main : IO Unit := IO.println "C01: driver not built yet"
