/- C01 line-protocol driver: prints `model <TAB> spec` for each case line.

   new ty=sv|ipv|stk cap=<n> kind=int|nt|hd|kp   four empty objects of that type (kp: key/payload pair, `<` on the key only)
   api_bits / api_assign ty=… cap=… kind=…    static facts (size-type width; assignability)
   api_member ty=… cap=… kind=… member=<op> args…   does the type offer the member behind operation <op>?
                                              model: `supports`, spec: `Spec.offers` (what the std type has)
   <op> [obj=k] [other=j] args…               one operation on object k (default 0)
   <op>_alias … i=<index>                     the argument is element i of object k itself (`v.insert(pos, v[i])`);
                                              push_top / emplace_top: `push_back(back())` / `stack::push(top())`
   <op>_mv … x=<v>                            `T t(v); c.<op>(std::move(t));` — the result is followed by ` arg=<what t
                                              shows afterwards>` (push_mv, emplace_back_mv, insert_mv, emplace_mv,
                                              try_push_mv, try_emplace_mv, unchecked_push_mv, unchecked_emplace_mv)

   Output of an operation: `<result>;<obj0>;<obj1>;<obj2>;<obj3>` with
   `<obj> = n=<size> e=<empty> f=<full> d=[elements] fb=<front>/<back>`.  The spec column is `*`
   while any object is in a valid-but-unspecified (moved-from) state. -/
import Tetl.Proto
import Tetl.C01.Model
import Tetl.C01.Step
import Tetl.C01.Spec
import Tetl.C01.Observe
namespace Tetl.C01.Driver
open Tetl Tetl.Proto

/-- what the caller's object `t` (constructed with the value `x`, element kind `k`) shows after `f(etl::move(t))`:
    its moved-from state (`mvd`) if an element has been constructed from it, `x` otherwise -/
def fmtArg (k : Kind) (x : Nat) (moved : Bool) : String := s!" arg={if moved then mvd k x else x}"

/-- `k`, `x`: element kind and the value of the line's `x=` (only the `…Arg` results use them) -/
def fmtOut (k : Kind) (x : Nat) : Out → String
  | .unit => "ok"
  | .it n => s!"it={n}"
  | .count n => s!"cnt={n}"
  | .ptr none => "null"
  | .ptr (some x) => s!"ptr={x}"
  | .ref x => s!"ref={x}"
  | .rels bs => "rel=" ++ String.join (bs.map fmtBool)
  | .unitArg m => "ok" ++ fmtArg k x m
  | .itArg n m => s!"it={n}" ++ fmtArg k x m
  | .ptrArg none m => "null" ++ fmtArg k x m
  | .ptrArg (some y) m => s!"ptr={y}" ++ fmtArg k x m
  | .refArg y m => s!"ref={y}" ++ fmtArg k x m

/-- one object of the spec: the list itself -/
def fmtSpecObj (cap : Nat) (l : List Nat) : String :=
  let fb := match l.head?, l.getLast? with
    | some a, some b => s!"{a}/{b}"
    | _, _ => "-"
  s!"n={l.length} e={fmtBool l.isEmpty} f={fmtBool (l.length == cap)} d={fmtNatList l} fb={fb}"

/-- one object of the model, looked at only through the observer models of Observe.lean — the same calls the
    harness makes: `size()`, `empty()`, `full()`, a `begin()..end()` walk, `front()` / `back()` (`top()` for a stack),
    and, as cross-check flags, `operator[]` at every index, `data()[i]` and the `rbegin()..rend()` walk.
    The capacity-0 storages answer with their constants. -/
def fmtObj (ty : Ty) (cap : Nat) (d : V) : String :=
  let n := if cap = 0 then zeroSize else (if ty = .stk then stkSize d else size d)
  let e := if cap = 0 then zeroEmpty else (if ty = .stk then stkEmpty d else empty d)
  let f := if cap = 0 then zeroFull else full cap d
  let fr := match ty with | .ipv => ipvFront d | _ => svFront d
  let bk := match ty with | .ipv => ipvBack d | .sv => svBack d | .stk => stkTop d
  let fb := match fr, bk with
    | .ok a, .ok b => s!"{a}/{b}"
    | _, _ => "-"
  match iterate d with
  | .error _ => s!"n={n} e={fmtBool e} f={fmtBool f} d=? fb={fb}@walk"
  | .ok els =>
    let byIdx := (List.range els.length).map (fun i => (match ty with | .ipv => ipvIndex d i | _ => svIndex d i, dataAt d i))
    let idxOk := (byIdx.zip els).all (fun p => match p.1.1, p.1.2 with | .ok a, .ok b => a == p.2 && b == p.2 | _, _ => false)
    let revOk := match riterate d with | .ok r => r == els.reverse | .error _ => false
    let flags := (if els.length == n then "" else "@size") ++ (if idxOk then "" else "@idx") ++ (if revOk then "" else "@rev")
    s!"n={n} e={fmtBool e} f={fmtBool f} d={fmtNatList els} fb={fb}{flags}"

def fmtSys (ty : Ty) (cap : Nat) (objs : List V) : String := ";".intercalate (objs.map (fmtObj ty cap))

def fmtSpecSys (cap : Nat) (objs : List Spec.SObj) : Option String :=
  (objs.mapM id).map (fun l => ";".intercalate (l.map (fmtSpecObj cap)))

structure St where
  sys : Option (Sys × Spec.SSys) := none
  poisoned : Bool := false   -- objects with an indeterminate size: nothing may be executed

/-- the bytes the harness writes into the raw storage before a default-initialisation -/
def POISON : Nat := 0xAAAAAAAAAAAAAAAA

def parseInit (l : Line) : Option Init :=
  match l.str? "init" with
  | some "value" => some .value
  | some "default" => some (.dflt POISON)
  | none => some .value
  | _ => none

def parseTy (l : Line) : Option Ty :=
  match l.str? "ty" with
  | some "sv" => some .sv
  | some "ipv" => some .ipv
  | some "stk" => some .stk
  | _ => none

def parseKind (l : Line) : Option Kind :=
  match l.str? "kind" with
  | some "int" => some .triv
  | some "nt" => some .nt
  | some "hd" => some .hd
  | some "kp" => some .kp
  | _ => none

def parseOpNamed (name : String) (l : Line) : Option Op :=
  let x := l.nat? "x"
  let pos := l.nat? "pos"
  let n := l.nat? "n"
  let xs := l.natList? "xs"
  let j := l.nat? "other"
  let i := l.nat? "i"
  match name with
  | "push" => x.map (Op.push 0)
  | "push_rv" => x.map (Op.push 1)
  | "emplace_back" => x.map (Op.push 2)
  | "pop" => some .pop
  | "insert" => do some (.insert1 0 (← pos) (← x))
  | "insert_rv" => do some (.insert1 1 (← pos) (← x))
  | "emplace" => do some (.insert1 2 (← pos) (← x))
  | "insert_fill" => do some (.insertFill (← pos) (← n) (← x))
  | "insert_range" => do some (.insertRange (← pos) (← xs))
  | "move_insert" => do some (.moveInsert (← pos) (← xs))
  | "erase" => pos.map Op.erase
  | "erase_range" => do some (.eraseRange (← l.nat? "f") (← l.nat? "l"))
  | "resize" => n.map Op.resize
  | "resize_val" => do some (.resizeVal (← n) (← x))
  | "assign_fill" => do some (.assignFill (← n) (← x))
  | "assign_range" => xs.map Op.assignRange
  | "clear" => some .clear
  | "ctor_n" => n.map Op.ctorN
  | "ctor_n_val" => do some (.ctorNVal (← n) (← x))
  | "ctor_range" => xs.map Op.ctorRange
  | "copy_ctor" => j.map Op.copyCtor
  | "move_ctor" => j.map Op.moveCtor
  | "copy_assign" => j.map Op.copyAssign
  | "move_assign" => j.map Op.moveAssign
  | "swap" => j.map Op.swap
  | "swap_free" => j.map Op.swap
  | "erase_val" => x.map Op.eraseVal
  | "erase_if" => do some (.eraseIf (← l.nat? "m") (← l.nat? "r"))
  | "cmp" => j.map Op.cmp
  | "try_push" => x.map (Op.tryPush 0)
  | "try_push_rv" => x.map (Op.tryPush 1)
  | "try_emplace" => x.map (Op.tryPush 2)
  | "unchecked_push" => x.map (Op.unchecked 0)
  | "unchecked_push_rv" => x.map (Op.unchecked 1)
  | "unchecked_emplace" => x.map (Op.unchecked 2)
  | "dump" => some .dump
  -- api_member only: the overload exists as a function of its own (signature probe)
  | "try_push_cref_sig" => x.map (Op.tryPush 0)
  | "try_push_rv_sig" => x.map (Op.tryPush 1)
  | "unchecked_push_cref_sig" => x.map (Op.unchecked 0)
  | "unchecked_push_rv_sig" => x.map (Op.unchecked 1)
  -- the argument is element `i` of the object itself
  | "push_alias" => i.map (Op.pushA 0)
  | "emplace_back_alias" => i.map (Op.pushA 2)
  | "push_top" => some (.pushTop 0)
  | "emplace_top" => some (.pushTop 2)
  | "insert_alias" => do some (.insertA 0 (← pos) (← i))
  | "emplace_alias" => do some (.insertA 2 (← pos) (← i))
  | "insert_fill_alias" => do some (.insertFillA (← pos) (← n) (← i))
  | "resize_val_alias" => do some (.resizeValA (← n) (← i))
  | "try_push_alias" => i.map (Op.tryPushA 0)
  | "try_emplace_alias" => i.map (Op.tryPushA 2)
  | "unchecked_push_alias" => i.map (Op.uncheckedA 0)
  | "unchecked_emplace_alias" => i.map (Op.uncheckedA 2)
  -- the argument is `std::move(t)` of an object `t` (value x) that is printed after the call (`arg=`)
  | "push_mv" => x.map (Op.pushMv 1)
  | "emplace_back_mv" => x.map (Op.pushMv 3)
  | "insert_mv" => do some (.insertMv 1 (← pos) (← x))
  | "emplace_mv" => do some (.insertMv 3 (← pos) (← x))
  | "try_push_mv" => x.map (Op.tryPushMv 1)
  | "try_emplace_mv" => x.map (Op.tryPushMv 3)
  | "unchecked_push_mv" => x.map (Op.uncheckedMv 1)
  | "unchecked_emplace_mv" => x.map (Op.uncheckedMv 3)
  | _ => none

def parseOp (l : Line) : Option Op := parseOpNamed l.op l

/-- static facts of the type as the model sees them (after the repairs of branch fix-c01):
    width of the stored size, copy and move assignability -/
def apiModel (ty : Ty) (cap : Nat) : String :=
  let _ := ty
  s!"bits={smallestBits cap}"

def apiAssignModel (ty : Ty) : String :=
  let asg := match ty with | .ipv => "0" | _ => "1"
  s!"copy_assign={asg} move_assign={asg}"

/-- what the standard types offer; the width of the size field is an implementation detail -/
def apiSpec (_ty : Ty) (_cap : Nat) : String := "copy_assign=1 move_assign=1"

def step (st : St) (l : Line) : St × String :=
  let bad := (st, "bad-op\tbad-op")
  match l.op with
  | "new" =>
    match parseTy l, l.nat? "cap", parseKind l, parseInit l with
    | some ty, some cap, some kind, some ini =>
      let s := Sys.init ty cap kind
      let sp := Spec.SSys.init cap kind
      let specStr := "new;" ++ ((fmtSpecSys cap sp.objs).getD "*")
      let n0 := initSize ty cap ini
      if n0 = 0 then ({ sys := some (s, sp) }, "new;" ++ fmtSys ty cap s.objs ++ "\t" ++ specStr)
      else
        -- indeterminate size: the four objects report it; nothing else can be observed
        let o := s!"n={n0} e=0 f={fmtBool (n0 == cap)} d=? fb=?"
        ({ sys := some (s, sp), poisoned := true }, "new;" ++ ";".intercalate [o, o, o, o] ++ "\t" ++ specStr)
    | _, _, _, _ => bad
  | "api_bits" =>
    match parseTy l, l.nat? "cap", parseKind l with
    | some ty, some cap, some _ => (st, apiModel ty cap ++ s!"\tbits={Spec.minBits cap}")
    | _, _, _ => bad
  | "api_width" =>
    -- `smallest_size_t<N>` alone (no container): the generated chain against "the smallest type that fits"
    match l.nat? "cap" with
    | some cap => (st, s!"bits={smallestBits cap}\tbits={Spec.minBits cap}")
    | none => bad
  | "api_abi" =>
    -- the widths the model assumes for the types the chain names (CTy.bits), against the compiler's sizeof
    (st, s!"uchar={CTy.uchar.bits} ushort={CTy.ushort.bits} uint={CTy.uint.bits} ulong={CTy.ulong.bits} " ++
         s!"ulonglong={CTy.ulonglong.bits}\t*")
  | "api_assign" =>
    match parseTy l, l.nat? "cap", parseKind l with
    | some ty, some cap, some _ => (st, apiAssignModel ty ++ "\t" ++ apiSpec ty cap)
    | _, _, _ => bad
  | "api_member" =>
    match parseTy l, l.nat? "cap", parseKind l, (l.str? "member").bind (fun m => parseOpNamed m l) with
    | some ty, some cap, some _, some op =>
      let extra := ty == .ipv && ipvZeroExtra cap ((l.str? "member").getD "")
      (st, s!"has={fmtBool (supports ty op || extra)}\thas={fmtBool (Spec.offers ty op)}")
    | _, _, _, _ => bad
  | _ =>
    if st.poisoned then (st, "invalid\tinvalid") else
    match st.sys, parseOp l with
    | some (s, sp), some op =>
      let k := (l.nat? "obj").getD 0
      -- a line that violates a documented precondition executes nothing on any side.  Validity is judged on
      -- the spec state (`Spec.valid`, the hypothesis of `history_refines`); `valid_of_spec` proves that the
      -- model-state precondition follows, it is evaluated as well so that a disagreement would be visible
      if !Spec.valid s.ty sp k op then (st, "invalid\tinvalid") else
      if !valid s k op then (st, "err:spec-valid but not model-valid\t*") else
      let r := Spec.step sp k op
      let fmtOut := fmtOut s.kind ((l.nat? "x").getD 0)
      let specStr := match r.2, fmtSpecSys sp.cap r.1.objs with
        | some o, some str => fmtOut o ++ ";" ++ str
        | _, _ => "*"
      match C01.step s k op with
      | .ok (s', o) =>
        ({ sys := some (s', r.1) }, fmtOut o ++ ";" ++ fmtSys s.ty s.cap s'.objs ++ "\t" ++ specStr)
      | .error e => ({ sys := some (s, r.1) }, "err:" ++ e.fmt ++ "\t" ++ specStr)
    | _, _ => bad

end Tetl.C01.Driver

def main : IO Unit := Tetl.Proto.runDriver ({} : Tetl.C01.Driver.St) Tetl.C01.Driver.step
