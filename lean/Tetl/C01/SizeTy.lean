/-
C01 — vocabulary of the generated file GenSize.lean (tie T for the size type).

`gen/sizetype.py` reads `include/etl/_type_traits/smallest_size_t.hpp` on every run and writes the
`conditional_t` chain of `smallest_size_t<N>` as a list of `Link`s — comparison operator, threshold expression
and selected type exactly as the source spells them — into `Tetl/C01/GenSize.lean`.  This file gives those
terms a meaning: the width of the named types under the data model of the target, the value of a threshold
expression under the usual arithmetic conversions, and `pick`, the evaluation of the chain for a capacity.
-/
namespace Tetl.C01

/-- the unsigned integer types a size-type chain may name -/
inductive CTy where
  | uchar | ushort | uint | ulong | ulonglong
  deriving DecidableEq, Repr, Inhabited

/-- width in bits under the data model of the target (LP64: x86-64 / aarch64 Linux).  The harness compares
    this table with `sizeof(T) * CHAR_BIT` of the compiler on every run (`api_abi`). -/
def CTy.bits : CTy → Nat
  | .uchar => 8
  | .ushort => 16
  | .uint => 32
  | .ulong => 64
  | .ulonglong => 64

/-- the constant expressions that may occur as a threshold -/
inductive Bound where
  | maxOf (t : CTy)                 -- `static_cast<T>(-1)` / `numeric_limits<T>::max()`
  | lit (n : Nat) (bits : Nat)      -- integer literal; `bits` = 0 for a plain `int` literal, 32 for `U`, 64 for `UL`/`ULL`
  | add (a b : Bound)
  | sub (a b : Bound)
  | shl (a b : Bound)
  deriving Repr, Inhabited

/-- width of the type an expression is computed in after the integral promotions; 0 = `int`
    (`unsigned char` and `unsigned short` promote to `int`, whose arithmetic is exact for the values that occur) -/
def Bound.width : Bound → Nat
  | .maxOf t => if t.bits < 32 then 0 else t.bits
  | .lit _ b => b
  | .add a b => max a.width b.width
  | .sub a b => max a.width b.width
  | .shl a _ => a.width

def wrapTo (w n : Nat) : Nat := if w = 0 then n else n % 2 ^ w

/-- value of a threshold expression (unsigned arithmetic wraps at the width of the common type) -/
def Bound.eval : Bound → Nat
  | .maxOf t => 2 ^ t.bits - 1
  | .lit n _ => n
  | .add a b => wrapTo (max a.width b.width) (a.eval + b.eval)
  | .sub a b =>
    let w := max a.width b.width
    if w = 0 then a.eval - b.eval else (a.eval + 2 ^ w - b.eval % 2 ^ w) % 2 ^ w
  | .shl a b => wrapTo a.width (a.eval * 2 ^ b.eval)

inductive Cmp where
  | lt | le
  deriving DecidableEq, Repr, Inhabited

/-- one `conditional_t<(N cmp bound), res, …>` of the chain; `src` = the condition text of the header -/
structure Link where
  cmp : Cmp
  bound : Bound
  res : CTy
  src : String
  deriving Repr, Inhabited

/-- the condition `(N cmp bound)` for `N = n` (`N` is `unsigned long long`: the comparison is exact for `n < 2^64`) -/
def Link.holds (n : Nat) (l : Link) : Bool :=
  match l.cmp with
  | .lt => decide (n < l.bound.eval)
  | .le => decide (n ≤ l.bound.eval)

/-- the type the chain selects for `N = n`: the first link whose condition holds, else the fall-back type -/
def pick (n : Nat) : List Link → CTy → CTy
  | [], fb => fb
  | l :: ls, fb => if l.holds n then l.res else pick n ls fb

/-- a link can only select a type that holds every `N` satisfying its condition -/
def Link.sound (l : Link) : Bool :=
  match l.cmp with
  | .lt => decide (l.bound.eval ≤ 2 ^ l.res.bits)
  | .le => decide (l.bound.eval < 2 ^ l.res.bits)

end Tetl.C01
