/-
C01 — reference semantics: what [sequence.reqmts], [vector], [stack] and [inplace.vector]
prescribe, stated over plain lists.  No index loops.  An object whose value the standard leaves
"valid but unspecified" (the source of a move, the result of a self-move-assignment) is `none`;
everything computed from it is `none` (masked as `*` in the correspondence run) until the object is
given a specified value again (`clear`, `assign`, construction, assignment from a specified object).
-/
import Tetl.C01.Step
namespace Tetl.C01.Spec

def insertAt (l : List Nat) (p : Nat) (xs : List Nat) : List Nat := l.take p ++ xs ++ l.drop p
def eraseRange (l : List Nat) (f t : Nat) : List Nat := l.take f ++ l.drop t
def resize (l : List Nat) (n x : Nat) : List Nat := l.take n ++ List.replicate (n - l.length) x

/-- `operator==` of a sequence container ([container.reqmts]): equal sizes and `equal(a.begin(), a.end(), b.begin())`
    with the element's `operator==` (`eq`) -/
def eqList (eq : Nat → Nat → Bool) : List Nat → List Nat → Bool
  | [], [] => true
  | x :: xs, y :: ys => eq x y && eqList eq xs ys
  | _, _ => false

/-- `operator<=>` of `std::vector` ([vector.syn], [container.opt.reqmts]): `lexicographical_compare_three_way` with
    *synth-three-way* ([expos.only.entity]) — for an element type that only has `operator<` (`lt`):
    `x < y` → less, `y < x` → greater, otherwise equivalent and the comparison goes on; a proper prefix is less.
    The element's `operator==` plays no part. -/
def cmp3 (lt : Nat → Nat → Bool) : List Nat → List Nat → Ordering
  | [], [] => .eq
  | [], _ :: _ => .lt
  | _ :: _, [] => .gt
  | x :: xs, y :: ys => if lt x y then .lt else if lt y x then .gt else cmp3 lt xs ys

/-- `== != < <= > >=` of two sequences whose element type has `operator<` = `lt` and `operator==` = `eq`:
    `a == b`, its negation, and `(a <=> b) < 0`, `<= 0`, `> 0`, `>= 0`.  Nothing relates `lt` and `eq`. -/
def rels (lt eq : Nat → Nat → Bool) (a b : List Nat) : List Bool :=
  let c := cmp3 lt a b
  [eqList eq a b, !(eqList eq a b), c == .lt, c != .gt, c == .gt, c != .lt]

/-- lexicographic `<` for an element type whose `<` is the order of the values ([alg.lex.comparison]) -/
def ltb : List Nat → List Nat → Bool
  | [], [] => false
  | [], _ :: _ => true
  | _ :: _, [] => false
  | x :: xs, y :: ys => if x < y then true else if y < x then false else ltb xs ys

/-- the six results for an element type whose `==` is the equality of the values and whose `<` is their (total)
    order: there — and only there, see `rels_total` / `rels_kp_not_total` — `a <= b` is also `a < b || a == b` -/
def relsTotal (a b : List Nat) : List Bool :=
  [a == b, !(a == b), ltb a b, ltb a b || a == b, ltb b a, ltb b a || a == b]

/-- the value element `i` has before the call, handed to `f`; nothing happens for an index that is not an element
    (excluded by `valid1`) -/
def withElem (l : List Nat) (i : Nat) (f : Nat → List Nat × Out) : List Nat × Out :=
  match l[i]? with
  | some x => f x
  | none => (l, .unit)

/-- single-object operations of a sequence container: new value and result -/
def apply1 (cap : Nat) (op : Op) (l : List Nat) : List Nat × Out :=
  match op with
  | .push _ x => (l ++ [x], .unit)
  | .pop => (l.dropLast, .unit)
  | .insert1 _ pos x => (insertAt l pos [x], .it pos)
  | .insertFill pos n x => (insertAt l pos (List.replicate n x), .it pos)
  | .insertRange pos xs => (insertAt l pos xs, .it pos)
  | .moveInsert pos xs => (insertAt l pos xs, .it pos)
  | .erase pos => (eraseRange l pos (pos + 1), .it pos)
  | .eraseRange f t => (eraseRange l f t, .it f)
  | .resize n => (resize l n 0, .unit)
  | .resizeVal n x => (resize l n x, .unit)
  | .assignFill n x => (List.replicate n x, .unit)
  | .assignRange xs => (xs, .unit)
  | .clear => ([], .unit)
  | .ctorN n => (List.replicate n 0, .unit)
  | .ctorNVal n x => (List.replicate n x, .unit)
  | .ctorRange xs => (xs, .unit)
  | .eraseVal x => (l.filter (fun v => !(v == x)), .count (l.countP (fun v => v == x)))
  | .eraseIf m r => (l.filter (fun v => !(modPred m r v)), .count (l.countP (modPred m r)))
  | .tryPush _ x => if l.length = cap then (l, .ptr none) else (l ++ [x], .ptr (some x))
  | .unchecked _ x => (l ++ [x], .ref x)
  -- the argument refers to an element of the sequence itself: the standard requires the result of the same call with
  -- a copy of that element made before the call ([sequence.reqmts]: no "not a reference into a" for these members)
  | .pushA _ i => withElem l i fun x => (l ++ [x], .unit)
  | .pushTop _ => withElem l (l.length - 1) fun x => (l ++ [x], .unit)
  | .insertA _ pos i => withElem l i fun x => (insertAt l pos [x], .it pos)
  | .insertFillA pos n i => withElem l i fun x => (insertAt l pos (List.replicate n x), .it pos)
  | .resizeValA n i => withElem l i fun x => (resize l n x, .unit)
  | .tryPushA _ i => withElem l i fun x => if l.length = cap then (l, .ptr none) else (l ++ [x], .ptr (some x))
  | .uncheckedA _ i => withElem l i fun x => (l ++ [x], .ref x)
  -- the argument is an rvalue `std::move(t)`: the new element is constructed from it ([sequence.reqmts]: "appends /
  -- inserts a copy of rv", T Cpp17MoveInsertable; emplace: "constructed with std::forward<Args>(args)..."), so `t` has
  -- been moved from exactly when an element has been constructed; [inplace.vector.modifiers]: try_push_back /
  -- try_emplace_back with size() == capacity(): "there are no effects" — `t` is untouched
  | .pushMv _ x => (l ++ [x], .unitArg true)
  | .insertMv _ pos x => (insertAt l pos [x], .itArg pos true)
  | .tryPushMv _ x => if l.length = cap then (l, .ptrArg none false) else (l ++ [x], .ptrArg (some x) true)
  | .uncheckedMv _ x => (l ++ [x], .refArg x true)
  | _ => (l, .unit)

/-- operations whose result does not depend on the old value of the object -/
def respecifies : Op → Bool
  | .assignFill .. => true
  | .assignRange _ => true
  | .clear => true
  | .ctorN _ => true
  | .ctorNVal .. => true
  | .ctorRange _ => true
  | _ => false

abbrev SObj := Option (List Nat)

structure SSys where
  cap : Nat
  objs : List SObj
  kind : Kind := .triv     -- the element type: only its `operator<` / `operator==` matter to the spec (`cmp`)
  deriving Repr, Inhabited

def SSys.init (cap : Nat) (kind : Kind := .triv) : SSys := ⟨cap, [some [], some [], some [], some []], kind⟩

def SSys.setObj (s : SSys) (k : Nat) (d : SObj) : SSys := { s with objs := s.objs.set k d }

def getObj (s : SSys) (k : Nat) : SObj := (s.objs[k]?).join

def step (s : SSys) (k : Nat) (op : Op) : SSys × Option Out :=
  match op with
  | .copyCtor j => (s.setObj k (getObj s j), some .unit)
  | .copyAssign j => (s.setObj k (getObj s j), some .unit)
  | .moveCtor j => ((s.setObj k (getObj s j)).setObj j none, some .unit)
  | .moveAssign j => ((s.setObj k (getObj s j)).setObj j none, some .unit)
  | .swap j => ((s.setObj k (getObj s j)).setObj j (getObj s k), some .unit)
  | .cmp j =>
    match getObj s k, getObj s j with
    | some a, some b => (s, some (.rels (rels (ltOf s.kind) (eqOf s.kind) a b)))
    | _, _ => (s, none)
  | op =>
    match getObj s k with
    | some l => let r := apply1 s.cap op l; (s.setObj k (some r.1), some r.2)
    | none =>
      if respecifies op then let r := apply1 s.cap op []; (s.setObj k (some r.1), some r.2)
      else (s, none)

def run (s : SSys) : List (Nat × Op) → SSys × List (Option Out)
  | [] => (s, [])
  | (k, op) :: rest =>
    let r := step s k op
    let r2 := run r.1 rest
    (r2.1, r.2 :: r2.2)

/-! ### validity of a history, judged on the specified state only

The property quantifies over histories "in which no step asks for more elements than the capacity and
every index/position argument is valid".  Whether a step is valid is decided here from the *spec*
state — the sizes and contents the standard prescribes — never by running the model.  An object whose
value the standard leaves unspecified (moved-from) has no known size: only operations whose
precondition does not mention the current contents may be applied to it. -/

/-- operations whose documented precondition does not depend on the current value of the object -/
def stateFree : Op → Bool
  | .resize _ => true
  | .resizeVal .. => true
  | .assignFill .. => true
  | .assignRange _ => true
  | .clear => true
  | .ctorN _ => true
  | .ctorNVal .. => true
  | .ctorRange _ => true
  | .eraseVal _ => true
  | .eraseIf .. => true
  | .tryPush .. => true
  | .tryPushMv .. => true
  | .dump => true
  | _ => false

/-- the documented precondition of `op` on object `k`, read off the spec state -/
def validPre (s : SSys) (k : Nat) (op : Op) : Bool :=
  k < s.objs.length &&
  match op with
  | .copyCtor j => j < s.objs.length && j != k
  | .moveCtor j => j < s.objs.length && j != k
  | .copyAssign j => j < s.objs.length
  | .moveAssign j => j < s.objs.length
  | .swap j => j < s.objs.length
  | .cmp j => j < s.objs.length
  | op => match getObj s k with
    | some l => valid1 s.cap op l
    | none => stateFree op && valid1 s.cap op []

/-- … and the type `ty` has the member -/
def valid (ty : Ty) (s : SSys) (k : Nat) (op : Op) : Bool := supports ty op && validPre s k op

/-- every step of the history is valid in the spec state it is applied to -/
def validHist (ty : Ty) (s : SSys) : List (Nat × Op) → Bool
  | [] => true
  | (k, op) :: rest => valid ty s k op && validHist ty (step s k op).1 rest

/-- what the standard container corresponding to `ty` offers: `std::vector` / `std::stack` the members
    of `static_vector` / `stack`, `std::inplace_vector` ([inplace.vector]) every operation of the list -/
def offers : Ty → Op → Bool
  | .ipv, _ => true
  | ty, op => supports ty op

/-- "smallest unsigned integer type that can represent values in the range [0, N]" (the documented contract of
    `smallest_size_t`), as a width among 8/16/32/64 -/
def minBits (n : Nat) : Nat :=
  if n < 2 ^ 8 then 8 else if n < 2 ^ 16 then 16 else if n < 2 ^ 32 then 32 else 64

end Tetl.C01.Spec
