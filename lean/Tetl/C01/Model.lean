/-
C01 — model of `etl::static_vector` (include/etl/_vector/static_vector.hpp), of
`etl::inplace_vector` (include/etl/_inplace_vector/inplace_vector.hpp), of `etl::stack` over a
`static_vector` (include/etl/_stack/stack.hpp) and of the algorithms they are built from
(`_algorithm/rotate.hpp`, `move.hpp`, `remove_if.hpp`, `find_if.hpp`, `equal.hpp`,
`lexicographical_compare.hpp`) plus `smallest_size_t`.

A vector is the list of its live elements (`size() = data.length`); the capacity is a parameter
that never changes.  Element values are naturals; the element *kind* (`triv` = `int`, the
`array<T,N>` storage; `nt` = a class with user-provided special members, the raw-bytes storage)
only matters for what a moved-from *vector* still shows (`mvd`).  Every element read goes through
`rd`, every element assignment through `wr`; a read or write at an index `≥ size()` is
`.error .oob`; constructing one past the end is only possible through `emplaceBack`, which checks
`!full()`.  `_size` is stored in `smallest_size_t<Capacity>`: every size update goes through
`setSize`, which applies the truncation `% 2^bits` and reports a truncated size as an error (the
theorem `size_fits` shows it never happens for the size type the code selects).
Each definition follows the loop structure of the C++ function of the same name.
-/
import Tetl.Common
import Tetl.C01.GenSize
namespace Tetl.C01

abbrev V := List Nat

inductive Kind where
  | triv   -- trivial element type: `static_vector_trivial_storage`, defaulted copy/move of inplace_vector
  | nt     -- non-trivial element type: `static_vector_non_trivial_storage`, uninitialized_copy/move
  | hd     -- non-trivial "handle": move construction / assignment transfer the value and *empty the source*,
           -- the move assignment has no self test, so `x = move(x)` empties `x` (a type for which a needless
           -- self-move-assignment is visible; std::erase_if never performs one)
  | kp     -- trivially copyable key/payload pair (harness struct `KP`): the value `v` stands for key `v / 2` and
           -- payload `v % 2`; `operator<` compares the keys only, `operator==` key and payload — so `==` is finer
           -- than the equivalence induced by `<` (the values 2k and 2k+1 are equivalent and not equal)
  deriving DecidableEq, Repr, Inhabited

inductive Ty where
  | sv | ipv | stk
  deriving DecidableEq, Repr, Inhabited

/-- value shown by a moved-from element of the non-trivial harness class -/
def MOVED : Nat := 9999

/-- value shown by an emptied handle (harness class `HD`) -/
def EMPTIED : Nat := 9998

/-- the value left in `*src` by `T(etl::move(*src))` / `*dst = etl::move(*src)`, `dst ≠ src` -/
def mvd : Kind → Nat → Nat
  | .triv, x => x
  | .nt, _ => MOVED
  | .hd, _ => EMPTIED
  | .kp, x => x

/-- the value of `x` after `x = etl::move(x)`: `int` and the class `NT` (which tests `this != &o`) keep it,
    the handle `HD` transfers to itself and then empties "the source" -/
def selfMv : Kind → Nat → Nat
  | .triv, x => x
  | .nt, x => x
  | .hd, _ => EMPTIED
  | .kp, x => x

/-- `operator<` of the element type of kind `k` (the harness classes): the value order, except for the key/payload
    pair, which is ordered by its key alone -/
def ltOf : Kind → Nat → Nat → Bool
  | .kp, x, y => decide (x / 2 < y / 2)
  | _, x, y => decide (x < y)

/-- `operator==` of the element type of kind `k`: the key/payload pair compares key and payload -/
def eqOf : Kind → Nat → Nat → Bool
  | .kp, x, y => x / 2 == y / 2 && x % 2 == y % 2
  | _, x, y => x == y

/-! ### smallest_size_t -/

/-- `smallest_size_t<N>` as a bit width: the `conditional_t` chain of the header — `GenSize.chain`, regenerated from
    `_type_traits/smallest_size_t.hpp` on every run (gen/sizetype.py), thresholds as the source spells them — evaluated
    for `N = n` (`pick`), then the width of the selected type under the target's data model (`CTy.bits`).
    `smallestBits_closed` gives the closed form for the header as it is. -/
def smallestBits (n : Nat) : Nat := (pick n GenSize.chain GenSize.fallback).bits

/-- `_size = size_type(newSize)` -/
def wrap (cap n : Nat) : Nat := n % 2 ^ smallestBits cap

/-- `unsafe_set_size(newSize)`: precondition `newSize <= Capacity`, then the narrowing store.
    The model keeps `size() = data.length`, so a store that does not read back as `newSize`
    is reported instead of being carried along. -/
def setSize (cap newSize : Nat) : Except Err Unit :=
  if newSize > cap then .error (.pre "unsafe_set_size: newSize <= Capacity")
  else if wrap cap newSize ≠ newSize then .error (.pre "size_type truncates the size")
  else .ok ()

/-- how an object comes into existence: `T v{}` / `T()` (value-initialisation) or `T v;`
    (default-initialisation; `garbage` = the bytes that happen to be in the storage) -/
inductive Init where
  | value
  | dflt (garbage : Nat)
  deriving DecidableEq, Repr, Inhabited

/-- `size()` of a freshly created object.  The storages of static_vector (hence stack) give `_size`
    the initializer `= 0`, and `inplace_vector<T, 0>` has no size member.  `inplace_vector<T, N>`
    has a defaulted default constructor and *no* initializer for `_size`: default-initialisation leaves
    the narrow size field indeterminate (known finding F-C01-inplace-vector-default-init). -/
def initSize (ty : Ty) (cap : Nat) : Init → Nat
  | .value => 0
  | .dflt g => if ty = .ipv ∧ cap ≠ 0 then wrap cap g else 0

/-- checked element assignment `p[i] = x` for a live element -/
def wr {α : Type} (l : List α) (i : Nat) (x : α) : Except Err (List α) :=
  if i < l.length then .ok (l.set i x) else .error .oob

/-- element move assignment `p[dst] = etl::move(p[src])` on live elements of kind `k`: the destination takes
    the value, the source is left in its moved-from state; with `dst = src` the element is self-move-assigned -/
def mvAsg (k : Kind) (l : V) (dst src : Nat) : Except Err V := do
  let x ← rd l src
  if dst = src then wr l dst (selfMv k x)
  else do
    let l1 ← wr l dst x
    wr l1 src (mvd k x)

/-! ### algorithms -/

/-- `iter_swap(a, b)` on live elements -/
def swapIdx {α : Type} (l : List α) (i j : Nat) : Except Err (List α) := do
  let x ← rd l i
  let y ← rd l j
  let l1 ← wr l i y
  wr l1 j x

/-- the `while (read != last)` loop of `rotate`; `n` = iterations left (`last - read`) -/
def rotLoop {α : Type} (l : List α) (write read nextRead : Nat) : Nat → Except Err (List α × Nat × Nat)
  | 0 => .ok (l, write, nextRead)
  | n + 1 => do
    let nr := if write = nextRead then read else nextRead
    let l1 ← swapIdx l write read
    rotLoop l1 (write + 1) (read + 1) nr n

/-- `rotate(first, nFirst, last)`; the recursion of the C++ is bounded by `fuel` (see `rotate_eq`) -/
def rotate {α : Type} : Nat → List α → Nat → Nat → Nat → Except Err (List α × Nat)
  | 0, _, _, _, _ => .error .fuel
  | fuel + 1, l, first, nFirst, last =>
    if first = nFirst then .ok (l, last)
    else if nFirst = last then .ok (l, first)
    else do
      let r ← rotLoop l first nFirst first (last - nFirst)
      let r2 ← rotate fuel r.1 r.2.1 r.2.2 last
      .ok (r2.1, r.2.1)

/-- `etl::move(first, last, dest)` inside one vector: `n = last - first` iterations,
    `*dest = move(*first)`; returns the buffer and the end of the destination range -/
def moveLoop (l : V) (src dst : Nat) : Nat → Except Err (V × Nat)
  | 0 => .ok (l, dst)
  | n + 1 => do
    let x ← rd l src
    let l1 ← wr l dst x
    moveLoop l1 (src + 1) (dst + 1) n

/-- `find_if(first, last, pred)`; `n` iterations left -/
def findIf (p : Nat → Bool) (l : V) (i : Nat) : Nat → Except Err Nat
  | 0 => .ok i
  | n + 1 => do
    let x ← rd l i
    if p x then .ok i else findIf p l (i + 1) n

/-- the loop `for (auto i = first; ++i != last;)` of `remove_if`; `i` is already incremented;
    `*first++ = etl::move(*i)` is an element move assignment (`mvAsg`: the source `*i` is left moved-from) -/
def removeLoop (k : Kind) (p : Nat → Bool) (l : V) (first i : Nat) : Nat → Except Err (V × Nat)
  | 0 => .ok (l, first)
  | n + 1 => do
    let x ← rd l i
    if !p x then do
      let l1 ← mvAsg k l first i
      removeLoop k p l1 (first + 1) (i + 1) n
    else removeLoop k p l first (i + 1) n

/-- `remove_if(first, last, pred)`: `find_if` first — the elements in front of the first match are never
    touched (not even move-assigned to themselves) — then the compaction loop -/
def removeIf (k : Kind) (p : Nat → Bool) (l : V) : Except Err (V × Nat) := do
  let first ← findIf p l 0 l.length
  if first ≠ l.length then removeLoop k p l first (first + 1) (l.length - first - 1)
  else .ok (l, first)

/-- `equal(first1, last1, first2, p)` with `p = equal_to` (the element's `operator==`, here `eq`; `operator<` is
    never consulted): `n` iterations left -/
def equalLoop (eq : Nat → Nat → Bool) (a b : V) (i : Nat) : Nat → Except Err Bool
  | 0 => .ok true
  | n + 1 => do
    let x ← rd a i
    let y ← rd b i
    if !eq x y then .ok false else equalLoop eq a b (i + 1) n

/-- `lexicographical_compare` with `comp = less` (the element's `operator<`, here `lt`; `operator==` is never
    consulted): `n = min(|a|,|b|)` iterations of the `for`, then the final test -/
def lexLoop (lt : Nat → Nat → Bool) (a b : V) (i : Nat) : Nat → Except Err Bool
  | 0 => .ok (i == a.length && i != b.length)
  | n + 1 => do
    let x ← rd a i
    let y ← rd b i
    if lt x y then .ok true else if lt y x then .ok false else lexLoop lt a b (i + 1) n

/-! ### static_vector: storage members -/

/-- `emplace_back` of the three storages (`TETL_PRECONDITION(!full())`; the zero storage always fails) -/
def emplaceBack (cap : Nat) (d : V) (x : Nat) : Except Err V :=
  if d.length = cap then .error (.pre "emplace_back: !full()")
  else do
    setSize cap (d.length + 1)
    .ok (d ++ [x])

def pushBack (cap : Nat) (d : V) (x : Nat) : Except Err V :=
  if d.length = cap then .error (.pre "push_back: !full()") else emplaceBack cap d x

def popBack (cap : Nat) (d : V) : Except Err V :=
  if d.isEmpty then .error (.pre "pop_back: !empty()")
  else do
    setSize cap (d.length - 1)
    .ok d.dropLast

/-- `unsafe_destroy(first, last)` with its two range preconditions; destroys nothing the model can see -/
def unsafeDestroy (d : V) (first last : Nat) : Except Err Unit :=
  if first > d.length then .error (.pre "unsafe_destroy: first in [data, end]")
  else if last > d.length then .error (.pre "unsafe_destroy: last in [data, end]")
  else .ok ()

def clear (cap : Nat) (d : V) : Except Err V := do
  unsafeDestroy d 0 d.length
  setSize cap 0
  .ok []

/-! ### static_vector: insert family (append at the end, then rotate into place) -/

/-- `while (n != 0) { push_back(x); --n; }` -/
def pushN (cap : Nat) (d : V) (x : Nat) : Nat → Except Err V
  | 0 => .ok d
  | n + 1 => do
    let d1 ← pushBack cap d x
    pushN cap d1 x n

/-- `for (; first != last; ++first) emplace_back(*first);` -/
def appendAll (cap : Nat) (d : V) : List Nat → Except Err V
  | [] => .ok d
  | x :: xs => do
    let d1 ← emplaceBack cap d x
    appendAll cap d1 xs

/-- `insert(position, n, x)` -/
def insertFill (cap : Nat) (d : V) (pos n x : Nat) : Except Err (V × Nat) :=
  if pos > d.length then .error (.pre "assert_iterator_in_range")
  else if n > cap - d.length then .error (.pre "insert: n <= capacity() - size()")
  else do
    let b := d.length
    let d1 ← pushN cap d x n
    let r ← rotate (d1.length + 1) d1 pos b d1.length
    .ok (r.1, pos)

/-- `insert(position, first, last)` (random-access source of length `xs.length`) -/
def insertRange (cap : Nat) (d : V) (pos : Nat) (xs : List Nat) : Except Err (V × Nat) :=
  if pos > d.length then .error (.pre "assert_iterator_in_range")
  else if d.length + xs.length > cap then .error (.pre "insert: size() + (last - first) <= capacity()")
  else do
    let b := d.length
    let d1 ← appendAll cap d xs
    let r ← rotate (d1.length + 1) d1 pos b d1.length
    .ok (r.1, pos)

/-- `move_insert(position, first, last)`: the same shape with `emplace_back(move(*first))` -/
def moveInsert (cap : Nat) (d : V) (pos : Nat) (xs : List Nat) : Except Err (V × Nat) :=
  if pos > d.length then .error (.pre "assert_iterator_in_range")
  else if d.length + xs.length > cap then .error (.pre "move_insert: size() + (last - first) <= capacity()")
  else do
    let b := d.length
    let d1 ← appendAll cap d xs
    let r ← rotate (d1.length + 1) d1 pos b d1.length
    .ok (r.1, pos)

/-- `insert(position, const_reference x)` -/
def insertCref (cap : Nat) (d : V) (pos x : Nat) : Except Err (V × Nat) :=
  if d.length = cap then .error (.pre "insert: !full()")
  else if pos > d.length then .error (.pre "assert_iterator_in_range")
  else insertFill cap d pos 1 x

/-- `insert(position, value_type&& x)` and `emplace(position, args...)` -/
def insertRv (cap : Nat) (d : V) (pos x : Nat) : Except Err (V × Nat) :=
  if d.length = cap then .error (.pre "insert/emplace: !full()")
  else if pos > d.length then .error (.pre "assert_iterator_in_range")
  else moveInsert cap d pos [x]

/-! ### static_vector: arguments that refer to an element of the vector itself

`push_back`, `emplace_back`, `insert(pos, x)`, `insert(pos, n, x)`, `emplace(pos, x)`, `resize(sz, x)` and
`assign(n, x)` take their argument by reference.  The caller may pass an element of the very vector
(`v.insert(v.begin(), v[2])`); [sequence.reqmts] requires that to work for every one of them except
`assign(n, t)` ("t is not a reference into a").  The members above are the special case in which the argument lives
outside the vector; here the argument is an `Arg` and is *read from the buffer at the moment the code reads it*:
an implementation that moves elements first and reads the argument afterwards gets a different value. -/

/-- an argument passed as `T const&` / forwarding reference: a value that lives outside the vector, or element `i`
    of the vector itself -/
inductive Arg where
  | val (x : Nat)
  | elem (i : Nat)
  deriving DecidableEq, Repr, Inhabited

/-- reading through the reference, in the current state of the buffer -/
def rdArg (d : V) : Arg → Except Err Nat
  | .val x => .ok x
  | .elem i => rd d i

/-- storage `emplace_back(args...)`: `TETL_PRECONDITION(!full())`, then `new (end()) T(args...)` reads the argument -/
def emplaceBackA (cap : Nat) (d : V) (a : Arg) : Except Err V :=
  if d.length = cap then .error (.pre "emplace_back: !full()")
  else do
    let x ← rdArg d a
    setSize cap (d.length + 1)
    .ok (d ++ [x])

/-- `push_back(U&& value)`: precondition, then `emplace_back(forward<U>(value))` -/
def pushBackA (cap : Nat) (d : V) (a : Arg) : Except Err V :=
  if d.length = cap then .error (.pre "push_back: !full()") else emplaceBackA cap d a

/-- `while (n != 0) { push_back(x); --n; }`: `x` is read through the reference in every iteration -/
def pushNA (cap : Nat) (d : V) (a : Arg) : Nat → Except Err V
  | 0 => .ok d
  | n + 1 => do
    let d1 ← pushBackA cap d a
    pushNA cap d1 a n

/-- `insert(position, n, x)`: all reads of `x` happen while appending, before `rotate` moves anything -/
def insertFillA (cap : Nat) (d : V) (pos n : Nat) (a : Arg) : Except Err (V × Nat) :=
  if pos > d.length then .error (.pre "assert_iterator_in_range")
  else if n > cap - d.length then .error (.pre "insert: n <= capacity() - size()")
  else do
    let b := d.length
    let d1 ← pushNA cap d a n
    let r ← rotate (d1.length + 1) d1 pos b d1.length
    .ok (r.1, pos)

/-- `insert(position, const_reference x)` -/
def insertCrefA (cap : Nat) (d : V) (pos : Nat) (a : Arg) : Except Err (V × Nat) :=
  if d.length = cap then .error (.pre "insert: !full()")
  else if pos > d.length then .error (.pre "assert_iterator_in_range")
  else insertFillA cap d pos 1 a

/-- `emplace(position, args...)`: `value_type a(args...)` copies the argument into a local first, then
    `move_insert(position, &a, &a + 1)` -/
def emplaceA (cap : Nat) (d : V) (pos : Nat) (a : Arg) : Except Err (V × Nat) :=
  if d.length = cap then .error (.pre "insert/emplace: !full()")
  else if pos > d.length then .error (.pre "assert_iterator_in_range")
  else do
    let x ← rdArg d a
    moveInsert cap d pos [x]

/-- `stack::push(top())` / `push_back(back())` (`emplace`: `stack::emplace(top())` / `emplace_back(back())`):
    `back()` (contract `!empty()`, then `detail::index`) yields the reference to the last element, the callee
    reads through it -/
def pushTop (cap : Nat) (d : V) (emplace : Bool) : Except Err V :=
  if d.isEmpty then .error (.pre "back: !empty()")
  else if emplace then emplaceBackA cap d (.elem (d.length - 1))
  else pushBackA cap d (.elem (d.length - 1))

/-! ### rvalue arguments the caller still owns afterwards

`T t(x); v.push_back(etl::move(t));` — `t` is an object of the caller; after the call it is either untouched or
moved from, and for an element type with an observable moved-from state (`mvd`: kinds `nt`, `hd`) the caller sees
which.  The members taking `T&&` (or forwarding an rvalue) are modelled with the argument as a *slot*: the member
returns, next to its result, whether it has constructed an element from the slot (`true` = `t` is moved from, it shows
`mvd k x`; `false` = `t` still holds `x`).  [sequence.reqmts] `push_back(rv)` / `insert(p, rv)` / `emplace*(args)`:
the new element is constructed from `std::move(rv)` / `std::forward<Args>(args)...` — exactly one move construction;
[inplace.vector.modifiers] `try_push_back(T&&)` / `try_emplace_back`: "Otherwise [size() == capacity()], there are
no effects" — the argument is not touched. -/

/-- `push_back(U&& value)` with an rvalue: `TETL_PRECONDITION(!full())`, then `emplace_back(etl::forward<U>(value))`
    = `new (end()) T(etl::move(value))`: the slot is consumed -/
def pushBackRv (cap : Nat) (d : V) (x : Nat) : Except Err (V × Bool) :=
  if d.length = cap then .error (.pre "push_back: !full()")
  else do
    let d1 ← emplaceBack cap d x
    .ok (d1, true)

/-- `emplace_back(etl::move(t))` (the storage member; `stack::emplace` forwards to it) -/
def emplaceBackRv (cap : Nat) (d : V) (x : Nat) : Except Err (V × Bool) := do
  let d1 ← emplaceBack cap d x
  .ok (d1, true)

/-- `insert(position, value_type&& x)`: the two checks, then `move_insert(position, &x, &x + 1)` whose loop runs
    `emplace_back(etl::move(*first))` on the caller's object -/
def insertRvArg (cap : Nat) (d : V) (pos x : Nat) : Except Err ((V × Nat) × Bool) :=
  if d.length = cap then .error (.pre "insert/emplace: !full()")
  else if pos > d.length then .error (.pre "assert_iterator_in_range")
  else do
    let r ← moveInsert cap d pos [x]
    .ok (r, true)

/-- `emplace(position, etl::move(t))`: the two checks, then `value_type a(etl::forward<Args>(args)...)` moves the
    caller's object into the local `a`, which `move_insert` moves on into the vector -/
def emplaceRvArg (cap : Nat) (d : V) (pos x : Nat) : Except Err ((V × Nat) × Bool) :=
  if d.length = cap then .error (.pre "insert/emplace: !full()")
  else if pos > d.length then .error (.pre "assert_iterator_in_range")
  else do
    let r ← moveInsert cap d pos [x]      -- `value_type a(etl::move(t))` has consumed the slot before
    .ok (r, true)

/-! ### static_vector: erase, resize, assign -/

/-- `erase(first, last)` -/
def eraseRange (cap : Nat) (d : V) (f l : Nat) : Except Err (V × Nat) :=
  if f > d.length || l > d.length then .error (.pre "assert_iterator_in_range")
  else if f > l then .error (.pre "assert_valid_iterator_pair")
  else if f ≠ l then do
    let r ← moveLoop d (f + (l - f)) f (d.length - (f + (l - f)))
    unsafeDestroy d r.2 d.length
    let newSize := d.length - (l - f)
    setSize cap newSize
    .ok (r.1.take newSize, f)
  else .ok (d, f)

/-- `erase(position)` -/
def erase (cap : Nat) (d : V) (pos : Nat) : Except Err (V × Nat) :=
  if pos > d.length then .error (.pre "assert_iterator_in_range") else eraseRange cap d pos (pos + 1)

/-- `emplace_n(n)`: `while (n != size()) emplace_back(T{})`, bounded by `fuel` -/
def emplaceN (cap : Nat) : Nat → V → Nat → Except Err V
  | 0, d, n => if n = d.length then .ok d else .error .fuel
  | fuel + 1, d, n =>
    if n = d.length then .ok d
    else do
      let d1 ← emplaceBack cap d 0
      emplaceN cap fuel d1 n

def emplaceNChecked (cap : Nat) (d : V) (n : Nat) : Except Err V :=
  if n > cap then .error (.pre "emplace_n: n <= capacity()") else emplaceN cap (cap + 1) d n

/-- `resize(sz)` -/
def resize (cap : Nat) (d : V) (sz : Nat) : Except Err V :=
  if sz = d.length then .ok d
  else if sz > d.length then emplaceNChecked cap d sz
  else do
    let r ← eraseRange cap d (d.length - (d.length - sz)) d.length
    .ok r.1

/-- `resize(sz, value)` -/
def resizeVal (cap : Nat) (d : V) (sz x : Nat) : Except Err V :=
  if sz = d.length then .ok d
  else if sz > d.length then
    if sz > cap then .error (.pre "resize: sz <= capacity()")
    else do
      let r ← insertFill cap d d.length (sz - d.length) x
      .ok r.1
  else do
    let r ← eraseRange cap d (d.length - (d.length - sz)) d.length
    .ok r.1

/-- `assign(n, u)` -/
def assignFill (cap : Nat) (d : V) (n x : Nat) : Except Err V :=
  if n > cap then .error (.pre "assign: n <= capacity()")
  else do
    let d0 ← clear cap d
    let r ← insertFill cap d0 0 n x
    .ok r.1

/-- `assign(first, last)` -/
def assignRange (cap : Nat) (d : V) (xs : List Nat) : Except Err V :=
  if xs.length > cap then .error (.pre "assign: last - first <= capacity()")
  else do
    let d0 ← clear cap d
    let r ← insertRange cap d0 0 xs
    .ok r.1

/-- `resize(sz, value)` with `value` a reference (see `Arg`) -/
def resizeValA (cap : Nat) (d : V) (sz : Nat) (a : Arg) : Except Err V :=
  if sz = d.length then .ok d
  else if sz > d.length then
    if sz > cap then .error (.pre "resize: sz <= capacity()")
    else do
      let r ← insertFillA cap d d.length (sz - d.length) a
      .ok r.1
  else do
    let r ← eraseRange cap d (d.length - (d.length - sz)) d.length
    .ok r.1

/-- `assign(n, u)` with `u` a reference: `clear()` destroys every element, then `insert(begin(), n, u)` reads `u`.
    With `u` an element of the vector this reads a destroyed object (`assignFillA_elem_reads_destroyed`); the standard
    excludes the call ("t is not a reference into a", [sequence.reqmts]), histories do not contain it. -/
def assignFillA (cap : Nat) (d : V) (n : Nat) (a : Arg) : Except Err V :=
  if n > cap then .error (.pre "assign: n <= capacity()")
  else do
    let d0 ← clear cap d
    let r ← insertFillA cap d0 0 n a
    .ok r.1

/-! ### static_vector: constructors, assignment, swap -/

def ctorN (cap n : Nat) : Except Err V :=
  if n > cap then .error (.pre "static_vector(n): n <= capacity()") else emplaceNChecked cap [] n

def ctorNVal (cap n x : Nat) : Except Err V :=
  if n > cap then .error (.pre "static_vector(n, value): n <= capacity()")
  else do
    let r ← insertFill cap [] 0 n x
    .ok r.1

def ctorRange (cap : Nat) (xs : List Nat) : Except Err V :=
  if xs.length > cap then .error (.pre "static_vector(first, last): last - first <= capacity()")
  else do
    let r ← insertRange cap [] 0 xs
    .ok r.1

/-- copy constructor: `insert(begin(), other.begin(), other.end())` into the empty vector -/
def copyCtor (cap : Nat) (other : V) : Except Err V := do
  let r ← insertRange cap [] 0 other
  .ok r.1

/-- move constructor: `move_insert(begin(), other.begin(), other.end())`; returns (new, other after) -/
def moveCtor (cap : Nat) (k : Kind) (other : V) : Except Err (V × V) := do
  let r ← moveInsert cap [] 0 other
  .ok (r.1, other.map (mvd k))

/-- copy assignment from a different object: `clear(); insert(begin(), other…)` -/
def copyAssign (cap : Nat) (d other : V) : Except Err V := do
  let d0 ← clear cap d
  let r ← insertRange cap d0 0 other
  .ok r.1

/-- `v = v` (copy): the self-assignment guard returns at once (fix commit on branch fix-c01;
    the unrepaired code ran `clear()` first and then copied from the emptied object) -/
def copyAssignSelf (_cap : Nat) (d : V) : Except Err V := .ok d

/-- move assignment from a different object; returns (this, other after) -/
def moveAssign (cap : Nat) (k : Kind) (d other : V) : Except Err (V × V) := do
  let d0 ← clear cap d
  let r ← moveInsert cap d0 0 other
  .ok (r.1, other.map (mvd k))

/-- `v = move(v)`: `clear()` then `move_insert` from the now empty self -/
def moveAssignSelf (cap : Nat) (d : V) : Except Err V := do
  let d0 ← clear cap d
  let r ← moveInsert cap d0 0 d0
  .ok r.1

/-- `a.swap(b)`, `a` and `b` different objects: `tmp = move(b); b = move(a); a = move(tmp)` -/
def swapVec (cap : Nat) (k : Kind) (a b : V) : Except Err (V × V) := do
  let t ← moveCtor cap k b            -- (tmp, b after)
  let r1 ← moveAssign cap k t.2 a     -- (b, a after)
  let r2 ← moveAssign cap k r1.2 t.1  -- (a, tmp after)
  .ok (r2.1, r1.1)

/-- `a.swap(a)` -/
def swapSelf (cap : Nat) (k : Kind) (a : V) : Except Err V := do
  let t ← moveCtor cap k a            -- (tmp, a after)
  let a1 ← moveAssignSelf cap t.2
  let r2 ← moveAssign cap k a1 t.1
  .ok r2.1

/-! ### static_vector: non-member functions -/

/-- `erase_if(c, pred)`: `remove_if`, `distance(it, end)`, `erase(it, end)` -/
def eraseIf (cap : Nat) (k : Kind) (d : V) (p : Nat → Bool) : Except Err (V × Nat) := do
  let r ← removeIf k p d
  let cnt := r.1.length - r.2
  let e ← eraseRange cap r.1 r.2 r.1.length
  .ok (e.1, cnt)

/-- `operator==`: size test, then the four-iterator `equal` (which tests the distances again) -/
def opEq (eq : Nat → Nat → Bool) (a b : V) : Except Err Bool :=
  if a.length = b.length then
    if a.length ≠ b.length then .ok false else equalLoop eq a b 0 a.length
  else .ok false

/-- `operator<` -/
def opLt (lt : Nat → Nat → Bool) (a b : V) : Except Err Bool := lexLoop lt a b 0 (min a.length b.length)

/-- all six relational operators as the code derives them, for an element type with `operator<` = `lt` and
    `operator==` = `eq`: `==` (through `eq` alone), `!= := !(a == b)`, `<` (through `lt` alone),
    `a <= b := !(b < a)`, `a > b := b < a`, `a >= b := !(a < b)` — the ordering operators never consult `eq` -/
def relOps (lt eq : Nat → Nat → Bool) (a b : V) : Except Err (List Bool) := do
  let e ← opEq eq a b
  let l ← opLt lt a b       -- a < b
  let ne := !e              -- a != b  =  !(a == b)
  let g1 ← opLt lt b a      -- a <= b  =  !(b < a)
  let g ← opLt lt b a       -- a > b   =  b < a
  let l1 ← opLt lt a b      -- a >= b  =  !(a < b)
  .ok [e, ne, l, !g1, g, !l1]

/-! ### inplace_vector -/

/-- `back()` -/
def back (d : V) : Except Err Nat :=
  if d.isEmpty then .error (.pre "back: not empty()") else rd d (d.length - 1)

def front (d : V) : Except Err Nat :=
  if d.isEmpty then .error (.pre "front: not empty()") else rd d 0

/-- `unchecked_push_back` / `unchecked_emplace_back`: construct at `end()`, grow, return `back()` -/
def ipvUnchecked (cap : Nat) (d : V) (x : Nat) : Except Err (V × Nat) :=
  if d.length = cap then .error (.pre "unchecked_push_back: size() != max_size()")
  else do
    let d1 := d ++ [x]
    setSize cap (d.length + 1)
    let r ← back d1
    .ok (d1, r)

/-- `try_push_back` / `try_emplace_back`: null and no change when full -/
def ipvTry (cap : Nat) (d : V) (x : Nat) : Except Err (V × Option Nat) :=
  if d.length = cap then .ok (d, none)
  else do
    let r ← ipvUnchecked cap d x
    .ok (r.1, some r.2)

/-- `unchecked_push_back(c[i])` / `unchecked_emplace_back(c[i])`: `construct_at(end(), val)` reads the argument through
    the reference, then the size grows -/
def ipvUncheckedA (cap : Nat) (d : V) (a : Arg) : Except Err (V × Nat) :=
  if d.length = cap then .error (.pre "unchecked_push_back: size() != max_size()")
  else do
    let x ← rdArg d a
    let d1 := d ++ [x]
    setSize cap (d.length + 1)
    let r ← back d1
    .ok (d1, r)

/-- `try_push_back(c[i])` / `try_emplace_back(c[i])` -/
def ipvTryA (cap : Nat) (d : V) (a : Arg) : Except Err (V × Option Nat) :=
  if d.length = cap then .ok (d, none)
  else do
    let r ← ipvUncheckedA cap d a
    .ok (r.1, some r.2)

/-- `unchecked_push_back(T&& val)` / `unchecked_emplace_back(etl::move(t))`: precondition, then
    `construct_at(end(), etl::move(val))` consumes the caller's object (see `pushBackRv` for the slot) -/
def ipvUncheckedRv (cap : Nat) (d : V) (x : Nat) : Except Err (V × Nat × Bool) := do
  let r ← ipvUnchecked cap d x
  .ok (r.1, r.2, true)

/-- `try_push_back(T&& val)` / `try_emplace_back(etl::move(t))`: `if (size() == capacity()) return nullptr;` comes
    first — on a full vector (always, for `inplace_vector<T, 0>`) nothing has looked at `val`, the caller's object is
    untouched; otherwise `unchecked_push_back(etl::move(val))` consumes it -/
def ipvTryRv (cap : Nat) (d : V) (x : Nat) : Except Err (V × Option Nat × Bool) :=
  if d.length = cap then .ok (d, none, false)
  else do
    let r ← ipvUncheckedRv cap d x
    .ok (r.1, some r.2.1, r.2.2)

def ipvPop (cap : Nat) (d : V) : Except Err V :=
  if d.isEmpty then .error (.pre "pop_back: not empty()")
  else do
    let _ ← back d
    setSize cap (d.length - 1)
    .ok d.dropLast

def ipvClear (cap : Nat) (_d : V) : Except Err V := do
  setSize cap 0
  .ok []

/-- `uninitialized_copy` / `uninitialized_move` into the fresh storage: `n` iterations left -/
def uninitLoop (src : V) (dst : V) (i : Nat) : Nat → Except Err V
  | 0 => .ok dst
  | n + 1 => do
    let x ← rd src i
    uninitLoop src (dst ++ [x]) (i + 1) n

/-- copy constructor (defaulted member-wise copy for trivial `T`, `uninitialized_copy` otherwise) -/
def ipvCopyCtor (cap : Nat) (k : Kind) (other : V) : Except Err V :=
  match k with
  | .triv | .kp => .ok other
  | _ => do
    let d ← uninitLoop other [] 0 other.length
    if d.length > cap then .error .oob else .ok d

/-- move constructor: defaulted (source untouched) for trivial `T`; otherwise `uninitialized_move`
    and `other._size = 0`; returns (new, other after) -/
def ipvMoveCtor (cap : Nat) (k : Kind) (other : V) : Except Err (V × V) :=
  match k with
  | .triv | .kp => .ok (other, other)
  | _ => do
    let d ← uninitLoop other [] 0 other.length
    if d.length > cap then .error .oob else .ok (d, [])

end Tetl.C01
