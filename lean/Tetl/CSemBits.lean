/-
C shift / bit-operator semantics and compiler builtins used by the generated models of gen/translate.py v3
(job sets BITS_JOBS = C14, DURCAST_JOBS = C12).  Values are mathematical integers (`Int`), as in Tetl/CSem.lean.

* `a << n` / `a >> n` (C++20 [expr.shift]): defined iff `0 ≤ n < width of the promoted left operand` (`shiftOk`, an `_ub`
  obligation of every generated shift); `<<` is `a * 2^n` reduced into the result type by the generated `wrapU`/`wrapS`,
  `>>` is `⌊a / 2^n⌋` (arithmetic shift for negative values).
* `& | ^` on an unsigned type: the operation of `Nat` on the (non-negative) values; on a signed type: through the
  two's complement representation of width `w` (`bandS` …).  `~a` is `2^w - 1 - a` (unsigned) resp. `-a - 1` (signed).
* `__builtin_add_overflow(a, b, &r)` — TRUSTED to implement the GCC manual ("Built-in Functions to Perform Arithmetic with
  Overflow Checking"): the exact sum is stored into `r` converted to r's type; the result is true iff that changed the value.
-/
import Tetl.CSem
namespace Tetl.CSem

def shiftOk (w : Nat) (n : Int) : Bool := decide (0 ≤ n) && decide (n < (w : Int))
def shl (a n : Int) : Int := a * ((2 ^ n.toNat : Nat) : Int)
def shr (a n : Int) : Int := a / ((2 ^ n.toNat : Nat) : Int)

def band (a b : Int) : Int := ((a.toNat &&& b.toNat : Nat) : Int)
def bor (a b : Int) : Int := ((a.toNat ||| b.toNat : Nat) : Int)
def bxor (a b : Int) : Int := ((a.toNat ^^^ b.toNat : Nat) : Int)
def bnotU (w : Nat) (a : Int) : Int := ((2 ^ w : Nat) : Int) - 1 - a

def bandS (w : Nat) (a b : Int) : Int := wrapS w (band (wrapU w a) (wrapU w b))
def borS (w : Nat) (a b : Int) : Int := wrapS w (bor (wrapU w a) (wrapU w b))
def bxorS (w : Nat) (a b : Int) : Int := wrapS w (bxor (wrapU w a) (wrapU w b))
def bnotS (a : Int) : Int := -a - 1

/-- the value `__builtin_add_overflow(a, b, &r)` stores into `r` (type: width `w`, signed iff `sg`) -/
def addOverflowVal (w : Nat) (sg : Bool) (a b : Int) : Int := if sg then wrapS w (a + b) else wrapU w (a + b)
/-- its result: the stored value is not the exact sum -/
def addOverflowFlag (w : Nat) (sg : Bool) (a b : Int) : Bool := addOverflowVal w sg a b != a + b

end Tetl.CSem
