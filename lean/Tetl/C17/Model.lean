/-
C17 — model of `etl::basic_bitset<Bits, WordType>` (include/etl/_bitset/basic_bitset.hpp), of
`etl::bitset<Bits>` (include/etl/_bitset/bitset.hpp) and of the single-bit helpers
`set_bit / reset_bit / flip_bit / test_bit` (include/etl/_bit/*.hpp).

Parameters of the one model: `N` = `Bits`, `k` with `bits_per_word = 2^k` (uint8/16/32/64 = k 3..6;
`etl::bitset<N>` is `basic_bitset<N, size_t>`, k = 6).  A storage word is a `BitVec (2^k)`: exactly the
value set of the unsigned `WordType` (the integral promotions of the narrow types are undone by the
`static_cast<UInt>` that ends every helper, so the fixed-width operators are the C++ result).
`_words` is a `List` of words; every element access goes through `rd` / `wr` (checked), every
`TETL_PRECONDITION` is an explicit `.error (.pre _)`: "never `.error`" is the memory-safety face.
Each definition follows the C++ member of the same name, statement by statement.
-/
import Tetl.Common
import Tetl.C17.Ops
namespace Tetl.C17

abbrev Word (k : Nat) := BitVec (2 ^ k)
abbrev Words (k : Nat) := List (Word k)

/-- checked write `l[i] = x` -/
def wr {α : Type} (l : List α) (i : Nat) (x : α) : Except Err (List α) :=
  if i < l.length then .ok (l.set i x) else .error .oob

/-! ### _bit/set_bit.hpp, reset_bit.hpp, flip_bit.hpp, test_bit.hpp
`pos` is a `UInt` like `word`; `TETL_PRECONDITION(static_cast<int>(pos) < digits)` guards the shift
(a shift by `>= digits` is undefined behaviour). -/

/-- `set_bit(word, pos)`: `word | (UInt(1) << pos)` -/
def setBit {k : Nat} (word pos : Word k) : Except Err (Word k) :=
  if pos.toNat < 2 ^ k then .ok (word ||| (1#(2 ^ k) <<< pos.toNat))
  else .error (.pre "set_bit: pos < digits")

/-- `set_bit(word, pos, value)`: `(word & ~(UInt(1) << pos)) | (UInt(value) << pos)` -/
def setBitTo {k : Nat} (word pos : Word k) (value : Bool) : Except Err (Word k) :=
  if pos.toNat < 2 ^ k then
    .ok ((word &&& ~~~(1#(2 ^ k) <<< pos.toNat)) ||| ((if value then 1#(2 ^ k) else 0#(2 ^ k)) <<< pos.toNat))
  else .error (.pre "set_bit: pos < digits")

/-- `reset_bit(word, pos)`: `word & ~(UInt(1) << pos)` -/
def resetBit {k : Nat} (word pos : Word k) : Except Err (Word k) :=
  if pos.toNat < 2 ^ k then .ok (word &&& ~~~(1#(2 ^ k) <<< pos.toNat))
  else .error (.pre "reset_bit: pos < digits")

/-- `flip_bit(word, pos)`: `word ^ (UInt(1) << pos)` -/
def flipBit {k : Nat} (word pos : Word k) : Except Err (Word k) :=
  if pos.toNat < 2 ^ k then .ok (word ^^^ (1#(2 ^ k) <<< pos.toNat))
  else .error (.pre "flip_bit: pos < digits")

/-- `test_bit(word, pos)`: `(word & (UInt(1) << pos)) != 0` -/
def testBit {k : Nat} (word pos : Word k) : Except Err Bool :=
  if pos.toNat < 2 ^ k then .ok ((word &&& (1#(2 ^ k) <<< pos.toNat)) != 0#(2 ^ k))
  else .error (.pre "test_bit: pos < digits")

/-- `etl::popcount(word)`, written as what it returns: the number of one bits.  On the run-time path it
    is a compiler builtin (trusted, DESIGN §3); the portable loop of the constant-evaluated path is
    modelled as code by property C14 and proved to return this number (`C17.Props.popcount_code`). -/
def popcount {k : Nat} (word : Word k) : Nat := (List.range (2 ^ k)).countP (fun j => word.getLsbD j)

/-! ### the private constants of basic_bitset -/

/-- `ones = numeric_limits<WordType>::max()` -/
def ones (k : Nat) : Word k := BitVec.allOnes (2 ^ k)
/-- `num_words = (Bits + bits_per_word - 1) / bits_per_word` -/
def numWords (N k : Nat) : Nat := (N + 2 ^ k - 1) / 2 ^ k
/-- `padding = num_words * bits_per_word - Bits` -/
def padding (N k : Nat) : Nat := numWords N k * 2 ^ k - N
/-- `has_padding = padding != 0` -/
def hasPadding (N k : Nat) : Bool := padding N k != 0

/-- the loop of the `padding_mask` lambda: `for (i = bits_per_word - padding; i < bits_per_word; ++i)
    mask = set_bit(mask, WordType(i))`; first argument = iterations left. -/
def paddingMaskLoop {k : Nat} : Nat → Nat → Word k → Except Err (Word k)
  | 0, _, mask => .ok mask
  | n + 1, i, mask => do
    let mask' ← setBit mask (BitVec.ofNat (2 ^ k) i)
    paddingMaskLoop n (i + 1) mask'

def paddingMask (N k : Nat) : Except Err (Word k) :=
  paddingMaskLoop (padding N k) (2 ^ k - padding N k) (0#(2 ^ k))

/-- `padding_mask_inv = static_cast<WordType>(~padding_mask)` -/
def paddingMaskInv (N k : Nat) : Except Err (Word k) := do
  let m ← paddingMask N k
  .ok (~~~m)

/-- `word_index(pos) = pos / bits_per_word` -/
def wordIndex (k pos : Nat) : Nat := pos / 2 ^ k
/-- `offset_in_word(pos) = WordType(pos & (bits_per_word - 1))` -/
def offsetInWord (k pos : Nat) : Word k := BitVec.ofNat (2 ^ k) (pos &&& (2 ^ k - 1))

/-- `transform_bit(pos, op)`: `auto& word = _words[word_index(pos)]; word = op(word, offset_in_word(pos));` -/
def transformBit {k : Nat} (ws : Words k) (pos : Nat) (op : Word k → Word k → Except Err (Word k)) :
    Except Err (Words k) := do
  let word ← rd ws (wordIndex k pos)
  let word' ← op word (offsetInWord k pos)
  wr ws (wordIndex k pos) word'

/-! ### basic_bitset members -/

/-- default constructor: `_words{}` -/
def init (N k : Nat) : Words k := List.replicate (numWords N k) (0#(2 ^ k))

/-- `unchecked_test(pos)` -/
def uncheckedTest {k : Nat} (N : Nat) (ws : Words k) (pos : Nat) : Except Err Bool :=
  if pos < N then do
    let word ← rd ws (wordIndex k pos)
    testBit word (offsetInWord k pos)
  else .error (.pre "unchecked_test: pos < size()")

/-- `operator[](pos) const` -/
def getConst {k : Nat} (N : Nat) (ws : Words k) (pos : Nat) : Except Err Bool :=
  if pos < N then uncheckedTest N ws pos else .error (.pre "operator[] const: pos < size()")

/-- `unchecked_set(pos, value)` -/
def uncheckedSet {k : Nat} (N : Nat) (ws : Words k) (pos : Nat) (value : Bool) : Except Err (Words k) :=
  if pos < N then transformBit ws pos (fun word bit => setBitTo word bit value)
  else .error (.pre "unchecked_set: pos < size()")

/-- `unchecked_reset(pos)` -/
def uncheckedReset {k : Nat} (N : Nat) (ws : Words k) (pos : Nat) : Except Err (Words k) :=
  if pos < N then transformBit ws pos resetBit else .error (.pre "unchecked_reset: pos < size()")

/-- `unchecked_flip(pos)` -/
def uncheckedFlip {k : Nat} (N : Nat) (ws : Words k) (pos : Nat) : Except Err (Words k) :=
  if pos < N then transformBit ws pos flipBit else .error (.pre "unchecked_flip: pos < size()")

/-- `operator[](pos)` (non-const) followed by `reference::operator=(bool)`:
    `*_word = set_bit(*_word, _offset, x)` with `_word = &_words[word_index(pos)]` -/
def refAssign {k : Nat} (N : Nat) (ws : Words k) (pos : Nat) (x : Bool) : Except Err (Words k) :=
  if pos < N then do
    let word ← rd ws (wordIndex k pos)
    let word' ← setBitTo word (offsetInWord k pos) x
    wr ws (wordIndex k pos) word'
  else .error (.pre "operator[]: pos < size()")

/-- `operator[](pos)` followed by `reference::operator bool()` -/
def refGet {k : Nat} (N : Nat) (ws : Words k) (pos : Nat) : Except Err Bool :=
  if pos < N then do
    let word ← rd ws (wordIndex k pos)
    testBit word (offsetInWord k pos)
  else .error (.pre "operator[]: pos < size()")

/-- `reference::operator~()` -/
def refNot {k : Nat} (N : Nat) (ws : Words k) (pos : Nat) : Except Err Bool := do
  let b ← refGet N ws pos
  .ok (!b)

/-- `operator[](pos)` followed by `reference::flip()` -/
def refFlip {k : Nat} (N : Nat) (ws : Words k) (pos : Nat) : Except Err (Words k) :=
  if pos < N then do
    let word ← rd ws (wordIndex k pos)
    let word' ← flipBit word (offsetInWord k pos)
    wr ws (wordIndex k pos) word'
  else .error (.pre "operator[]: pos < size()")

/-- `all()` -/
def all {k : Nat} (N : Nat) (ws : Words k) : Except Err Bool :=
  if hasPadding N k then
    -- `etl::prev(_words.cend())` needs a non-empty array
    if ws.length = 0 then .error .oob
    else do
      let head := (ws.take (ws.length - 1)).all (fun word => word == ones k)
      let last ← rd ws (numWords N k - 1)
      let mask ← paddingMaskInv N k
      let tail := last == mask
      .ok (head && tail)
  else .ok (ws.all (fun word => word == ones k))

/-- `none()` -/
def none {k : Nat} (ws : Words k) : Bool := ws.all (fun word => word == 0#(2 ^ k))

/-- `any()` -/
def any {k : Nat} (ws : Words k) : Bool := !none ws

/-- `count()`: `transform_reduce(words, size_t(0), plus, popcount)`.  The partial sums are bounded by
    `Bits`, itself a `size_t`, so the `size_t` addition cannot wrap. -/
def count {k : Nat} (ws : Words k) : Nat := ws.foldl (fun acc word => acc + popcount word) 0

/-- `set()` -/
def setAll {k : Nat} (N : Nat) (ws : Words k) : Except Err (Words k) :=
  if hasPadding N k then
    if ws.length = 0 then .error .oob
    else do
      let filled := (ws.take (ws.length - 1)).map (fun _ => ones k) ++ ws.drop (ws.length - 1)
      let mask ← paddingMaskInv N k
      wr filled (numWords N k - 1) mask
  else .ok (ws.map (fun _ => ones k))

/-- `reset()` -/
def resetAll {k : Nat} (ws : Words k) : Words k := ws.map (fun _ => 0#(2 ^ k))

/-- `flip()` -/
def flipAll {k : Nat} (N : Nat) (ws : Words k) : Except Err (Words k) :=
  let flipped := ws.map (fun word => ~~~word)
  if hasPadding N k then do
    let last ← rd flipped (numWords N k - 1)
    let mask ← paddingMaskInv N k
    wr flipped (numWords N k - 1) (last &&& mask)
  else .ok flipped

/-- binary `etl::transform(first1, last1, first2, out, f)`: reads `first2[i]` for every `i` of the
    first range. -/
def transform2 {k : Nat} (f : Word k → Word k → Word k) (a b : Words k) : Except Err (Words k) :=
  if b.length < a.length then .error .oob else .ok (List.zipWith f a b)

def andAssign {k : Nat} (a b : Words k) : Except Err (Words k) := transform2 (fun l r => l &&& r) a b
def orAssign {k : Nat} (a b : Words k) : Except Err (Words k) := transform2 (fun l r => l ||| r) a b
def xorAssign {k : Nat} (a b : Words k) : Except Err (Words k) := transform2 (fun l r => l ^^^ r) a b

/-- defaulted `operator==`: member-wise comparison of the two arrays -/
def eq {k : Nat} (a b : Words k) : Bool := a == b

/-- the loop of `basic_bitset(unsigned long long val)`; first argument = iterations left -/
def fromUllLoop {k : Nat} (N : Nat) (val : Word 6) : Nat → Nat → Words k → Except Err (Words k)
  | 0, _, ws => .ok ws
  | n + 1, i, ws => do
    let b ← testBit val (BitVec.ofNat (2 ^ 6) i)
    let ws' ← uncheckedSet N ws i b
    fromUllLoop N val n (i + 1) ws'

/-- `basic_bitset(unsigned long long val)`: `m = min(digits, size())` -/
def fromUll (N k : Nat) (val : Nat) : Except Err (Words k) :=
  fromUllLoop N (BitVec.ofNat (2 ^ 6) val) (min 64 N) 0 (init N k)

/-! ### bitset<N> members (wrappers with their own precondition, then the basic_bitset member) -/

def set {k : Nat} (N : Nat) (ws : Words k) (pos : Nat) (value : Bool) : Except Err (Words k) :=
  if pos < N then uncheckedSet N ws pos value else .error (.pre "bitset::set: pos < size()")

def reset {k : Nat} (N : Nat) (ws : Words k) (pos : Nat) : Except Err (Words k) :=
  if pos < N then uncheckedReset N ws pos else .error (.pre "bitset::reset: pos < size()")

def flip {k : Nat} (N : Nat) (ws : Words k) (pos : Nat) : Except Err (Words k) :=
  if pos < N then uncheckedFlip N ws pos else .error (.pre "bitset::flip: pos < size()")

def test {k : Nat} (N : Nat) (ws : Words k) (pos : Nat) : Except Err Bool :=
  if pos < N then uncheckedTest N ws pos else .error (.pre "bitset::test: pos < size()")

/-- `operator~`: `bitset(*this).flip()` -/
def not {k : Nat} (N : Nat) (ws : Words k) : Except Err (Words k) := flipAll N ws

/-- the `for (i = size(); i != 0; --i) str.push_back(test(i - 1U) ? one : zero)` loop of `to_string`;
    first argument = `i`, `acc` = the string so far; `push_back` needs `size() < Capacity`. -/
def toStrLoop {k : Nat} (N : Nat) (ws : Words k) (zeroCh oneCh cap : Nat) : Nat → List Nat → Except Err (List Nat)
  | 0, acc => .ok acc
  | i + 1, acc => do
    let b ← test N ws i
    if acc.length < cap then toStrLoop N ws zeroCh oneCh cap i (acc ++ [if b then oneCh else zeroCh])
    else .error (.pre "push_back: size() < capacity()")

/-- `to_string<Capacity, CharT>(zero, one)` (`requires Capacity >= Bits`).  A character is its code
    unit value (a `Nat`), `Traits` is not used by this member, so the model is the same for every
    `CharT`. -/
def toStr {k : Nat} (N : Nat) (ws : Words k) (zeroCh oneCh cap : Nat) : Except Err (List Nat) :=
  toStrLoop N ws zeroCh oneCh cap N []

/-- `CharT('0')`, `CharT('1')`: the defaults of the `zero` / `one` parameters -/
def CH0 : Nat := 48
def CH1 : Nat := 49

/-- `to_string<Capacity, CharT>()`, `to_string<Capacity, CharT>(zero)`: `zero = CharT('0')`,
    `one = CharT('1')` when not passed -/
def toStrD {k : Nat} (N : Nat) (ws : Words k) (zeroCh oneCh : Option Nat) (cap : Nat) : Except Err (List Nat) :=
  toStr N ws (arg zeroCh CH0) (arg oneCh CH1) cap

/-- the loop of `to_unsigned_type<UInt>` (`UInt` = 64-bit `unsigned long` / `unsigned long long`) -/
def toUnsignedLoop {k : Nat} (N : Nat) (ws : Words k) : Nat → Nat → Word 6 → Except Err (Word 6)
  | 0, _, result => .ok result
  | n + 1, i, result => do
    let b ← test N ws i
    let result' ← if b then setBit result (BitVec.ofNat (2 ^ 6) i) else .ok result
    toUnsignedLoop N ws n (i + 1) result'

/-- the contract loop of `to_unsigned_type`: `for (i = idx; i < size(); ++i) TETL_PRECONDITION(not test(i))`
    (first argument = iterations left): the value must be representable in `UInt` -/
def fitsLoop {k : Nat} (N : Nat) (ws : Words k) : Nat → Nat → Except Err Unit
  | 0, _ => .ok ()
  | n + 1, i => do
    let b ← test N ws i
    if b then .error (.pre "to_ulong/to_ullong: no bit beyond the digits of the result type is set")
    else fitsLoop N ws n (i + 1)

/-- `to_ulong()` / `to_ullong()` (both 64 bits wide on LP64): `idx = min(size(), digits)`, the contract
    loop over `[idx, size())`, then the value loop over `[0, idx)` -/
def toUnsigned {k : Nat} (N : Nat) (ws : Words k) : Except Err Nat := do
  let idx := min N 64
  fitsLoop N ws (N - idx) idx
  let r ← toUnsignedLoop N ws idx 0 (0#(2 ^ 6))
  .ok r.toNat

/-- the body of the string-constructor loop for character `ch` and bit `i`:
    `if (Traits::eq(ch, one)) set(i, true); if (Traits::eq(ch, zero)) set(i, false);` -/
def fromStringBody {k : Nat} (N : Nat) (ws : Words k) (i ch zeroCh oneCh : Nat) : Except Err (Words k) := do
  let ws1 ← if ch == oneCh then set N ws i true else .ok ws
  if ch == zeroCh then set N ws1 i false else .ok ws1

/-! ### what the string constructors read

A character buffer is the list `mem` of the code units that are readable from the data pointer to the
END OF ITS ALLOCATION (terminator and whatever follows it included, when there is any).  A
`basic_string_view` is such a pointer plus its `size()`: the view `(mem, size)`.  Every read of a unit goes
through `rd mem _` (checked: a read behind the allocation is `.error .oob`), so the theorems say which units
a constructor looks at: `Props.fromString_footprint`, `Props.fromCstr_footprint`, `Props.fromCstr_npos_footprint`. -/

/-- `basic_string_view::operator[](pos)` on the view `(mem, size)`: `TETL_PRECONDITION(pos < size())`,
    then `_begin[pos]` -/
def svAt (mem : List Nat) (size i : Nat) : Except Err Nat :=
  if i < size then rd mem i else .error (.pre "basic_string_view::operator[]: pos < size()")

/-- the loop of `etl::detail::strlen(str)` (`char_traits::length`): `for (s = str; *s != CharT(0); ++s) {}`;
    first argument = iterations left (`|mem| + 1` suffice: the read one past the allocation is the error) -/
def strlenLoop (mem : List Nat) : Nat → Nat → Except Err Nat
  | 0, _ => .error .fuel
  | f + 1, i => do
    let c ← rd mem i
    if c != 0 then strlenLoop mem f (i + 1) else .ok i

/-- `basic_string_view(CharT const* str)`: `_size = Traits::length(str)` — the only place where a
    terminator is looked for -/
def strlen (mem : List Nat) : Except Err Nat := strlenLoop mem (mem.length + 1) 0

/-- the loop of `bitset(basic_string_view str, pos, n, zero, one)`: character `pos + len - 1 - i`
    decides bit `i`; first argument = iterations left -/
def fromStringLoop {k : Nat} (N : Nat) (mem : List Nat) (size pos len zeroCh oneCh : Nat) :
    Nat → Nat → Words k → Except Err (Words k)
  | 0, _, ws => .ok ws
  | f + 1, i, ws => do
    let ch ← svAt mem size (pos + len - 1 - i)
    let ws2 ← fromStringBody N ws i ch zeroCh oneCh
    fromStringLoop N mem size pos len zeroCh oneCh f (i + 1) ws2

def NPOS : Nat := 2 ^ 64 - 1

/-- `bitset(basic_string_view const& str, pos, n, zero, one) : bitset(0ULL)` on the view `(mem, size)`;
    `len = min(min(n, str.size() - pos), size())`.  Nothing but `str.size()` and `str[_]` is used. -/
def fromStringV (N k : Nat) (mem : List Nat) (size pos n zeroCh oneCh : Nat) : Except Err (Words k) :=
  if pos > size then .error (.pre "bitset(string_view): pos <= str.size()")
  else do
    let ws0 ← fromUll N k 0
    let len := min (min n (size - pos)) N
    fromStringLoop N mem size pos len zeroCh oneCh len 0 ws0

/-- the view constructor on a view that spans exactly its allocation (`str` = the characters of the view =
    everything that is readable): the form the harness calls (exact-size heap buffer, no terminator) -/
def fromString (N k : Nat) (str : List Nat) (pos n zeroCh oneCh : Nat) : Except Err (Words k) :=
  fromStringV N k str str.length pos n zeroCh oneCh

/-- `bitset(CharT const* str, n, zero, one)`: delegates to the view constructor with
    `n == npos ? string_view(str) : string_view(str, n)`, `pos = 0`, `n`.  `mem` = the units readable from
    `str` to the end of its allocation.  Only the `npos` form runs `strlen`; with an explicit `n` the view is
    `(str, n)` whatever the characters are (a `CharT(0)` among them is a character like any other) and no
    terminator is looked for. -/
def fromCstr (N k : Nat) (mem : List Nat) (n zeroCh oneCh : Nat) : Except Err (Words k) :=
  if n == NPOS then do
    let size ← strlen mem
    fromStringV N k mem size 0 n zeroCh oneCh
  else fromStringV N k mem n 0 n zeroCh oneCh

/-! ### calls that leave trailing arguments to their defaults -/

/-- `set(pos)` (`bool value = true`); `unchecked_set(pos)` of basic_bitset has the same default -/
def setD {k : Nat} (N : Nat) (ws : Words k) (pos : Nat) : Except Err (Words k) := set N ws pos true

/-- `bitset(str)`, `bitset(str, pos)`, `bitset(str, pos, n)`, `bitset(str, pos, n, zero)`:
    `pos = 0`, `n = npos`, `zero = CharT('0')`, `one = CharT('1')` -/
def fromStringD (N k : Nat) (str : List Nat) (pos n zeroCh oneCh : Option Nat) : Except Err (Words k) :=
  fromString N k str (arg pos 0) (arg n NPOS) (arg zeroCh CH0) (arg oneCh CH1)

/-- `bitset(cstr)`, `bitset(cstr, n)`, `bitset(cstr, n, zero)`: `n = npos`, `zero = CharT('0')`,
    `one = CharT('1')`; `buf` = the units readable from the pointer (see `fromCstr`) -/
def fromCstrD (N k : Nat) (buf : List Nat) (n zeroCh oneCh : Option Nat) : Except Err (Words k) :=
  fromCstr N k buf (arg n NPOS) (arg zeroCh CH0) (arg oneCh CH1)

/-! ### histories: up to four live objects `o`, each a `_words` array -/

abbrev Store (k : Nat) := Nat → Words k

def Store.put {k : Nat} (st : Store k) (o : Nat) (ws : Words k) : Store k :=
  fun j => if j = o then ws else st j

def step {k : Nat} (N : Nat) (st : Store k) : Op → Except Err (Store k)
  | .setAll o => do let r ← setAll N (st o); .ok (st.put o r)
  | .resetAll o => .ok (st.put o (resetAll (st o)))
  | .flipAll o => do let r ← flipAll N (st o); .ok (st.put o r)
  | .set o pos v => do let r ← set N (st o) pos v; .ok (st.put o r)
  | .reset o pos => do let r ← reset N (st o) pos; .ok (st.put o r)
  | .flip o pos => do let r ← flip N (st o) pos; .ok (st.put o r)
  | .refAssign o pos v => do let r ← refAssign N (st o) pos v; .ok (st.put o r)
  | .refFlip o pos => do let r ← refFlip N (st o) pos; .ok (st.put o r)
  | .refCopy o pos src spos => do
    let x ← refGet N (st src) spos
    let r ← refAssign N (st o) pos x
    .ok (st.put o r)
  | .andA o rhs => do let r ← andAssign (st o) (st rhs); .ok (st.put o r)
  | .orA o rhs => do let r ← orAssign (st o) (st rhs); .ok (st.put o r)
  | .xorA o rhs => do let r ← xorAssign (st o) (st rhs); .ok (st.put o r)
  | .band o a b => do let r ← andAssign (st a) (st b); .ok (st.put o r)
  | .bor o a b => do let r ← orAssign (st a) (st b); .ok (st.put o r)
  | .bxor o a b => do let r ← xorAssign (st a) (st b); .ok (st.put o r)
  | .assign o src => .ok (st.put o (st src))
  | .not o src => do let r ← not N (st src); .ok (st.put o r)
  | .fromUll o v => do let r ← fromUll N k v; .ok (st.put o r)
  | .fromStr o str pos n zeroCh oneCh => do let r ← fromString N k str pos n zeroCh oneCh; .ok (st.put o r)
  | .fromCstr o buf n zeroCh oneCh => do let r ← fromCstr N k buf n zeroCh oneCh; .ok (st.put o r)
  | .setD o pos => do let r ← setD N (st o) pos; .ok (st.put o r)
  | .fromStrD o str pos n zeroCh oneCh => do let r ← fromStringD N k str pos n zeroCh oneCh; .ok (st.put o r)
  | .fromCstrD o buf n zeroCh oneCh => do let r ← fromCstrD N k buf n zeroCh oneCh; .ok (st.put o r)

def run {k : Nat} (N : Nat) : Store k → List Op → Except Err (Store k)
  | st, [] => .ok st
  | st, op :: ops => do
    let st' ← step N st op
    run N st' ops

def Store.init (N k : Nat) : Store k := fun _ => C17.init N k

end Tetl.C17
