/-
C17 — the operations of a history, shared by the model and the spec.  Up to four live objects `o`
of the same width and word type.
-/
namespace Tetl.C17

inductive Op where
  | setAll (o : Nat) | resetAll (o : Nat) | flipAll (o : Nat)
  | set (o pos : Nat) (v : Bool) | reset (o pos : Nat) | flip (o pos : Nat)
  | refAssign (o pos : Nat) (v : Bool) | refFlip (o pos : Nat)
  | refCopy (o pos src spos : Nat)            -- `a[pos] = b[spos]` (reference = reference)
  | andA (o rhs : Nat) | orA (o rhs : Nat) | xorA (o rhs : Nat)
  | band (o a b : Nat) | bor (o a b : Nat) | bxor (o a b : Nat)   -- `o = a & b` (copy of a, then `&=`)
  | assign (o src : Nat)
  | not (o src : Nat)                          -- `o = ~src`
  | fromUll (o v : Nat)
  | fromStr (o : Nat) (str : List Nat) (pos n zeroCh oneCh : Nat)
  | fromCstr (o : Nat) (buf : List Nat) (n zeroCh oneCh : Nat)
  deriving Repr

end Tetl.C17
