/-
C17 — the operations of a history, shared by the model and the spec.  Up to four live objects `o`
of the same width and word type.
-/
namespace Tetl.C17

inductive Op where
  | setAll (o : Nat) | resetAll (o : Nat) | flipAll (o : Nat)
  | set (o pos : Nat) (v : Bool) | reset (o pos : Nat) | flip (o pos : Nat)
  | refAssign (o pos : Nat) (v : Bool) | refFlip (o pos : Nat)
  | refCopy (o pos src spos : Nat)            -- `a[pos] = b[spos]` (reference = reference)
  | andA (o rhs : Nat) | orA (o rhs : Nat) | xorA (o rhs : Nat)
  | band (o a b : Nat) | bor (o a b : Nat) | bxor (o a b : Nat)   -- `o = a & b` (copy of a, then `&=`)
  | assign (o src : Nat)
  | not (o src : Nat)                          -- `o = ~src`
  | fromUll (o v : Nat)
  | fromStr (o : Nat) (str : List Nat) (pos n zeroCh oneCh : Nat)
  | fromCstr (o : Nat) (buf : List Nat) (n zeroCh oneCh : Nat)   -- `buf`: the units readable from the pointer
  -- calls that leave trailing arguments to their defaults (`none` = argument not passed)
  | setD (o pos : Nat)                         -- `set(pos)`: `value` defaulted
  | fromStrD (o : Nat) (str : List Nat) (pos n zeroCh oneCh : Option Nat)
  | fromCstrD (o : Nat) (buf : List Nat) (n zeroCh oneCh : Option Nat)
  deriving Repr

/-- the value of a parameter with a default argument: the argument when one is passed, else the
    default written in the declaration -/
def arg (a : Option Nat) (dflt : Nat) : Nat :=
  match a with
  | some x => x
  | none => dflt

end Tetl.C17
