/- C17 line-protocol driver: prints `model <TAB> spec` for each case line.
   A case is a history: `new N=<bits> w=<bs|8|16|32|64>` followed by operations on the objects
   `o=0..3`.  Every mutating line prints the full observable state of its target object
   (`s=` bit `N-1` first through `operator[] const`/`test`, `c=` count, `f=` all/any/none). -/
import Tetl.Proto
import Tetl.C17.Model
import Tetl.C17.Spec
namespace Tetl.C17.Driver
open Tetl Tetl.Proto

structure St where
  N : Nat
  k : Nat
  bs : Bool
  m : Except Err (Array (Words k))     -- the four live objects of the model
  s : Array (Array Bool)               -- the four live objects of the spec, as tables of their bits [0, N)

def NOBJ : Nat := 4

def St.initial : St := { N := 1, k := 6, bs := true, m := .ok #[], s := #[] }

/-- the store functions handed to `step` are rebuilt from tables on every line, and the results are
    read back into tables (strictly), so that closures never pile up along a history -/
def mStore {k : Nat} (N : Nat) (a : Array (Words k)) : Store k :=
  fun j => if h : j < a.size then a[j] else C17.init N k

def mTable {k : Nat} (st : Store k) : Array (Words k) := (Array.range NOBJ).map st

/-- a spec object given by a table of its bits `[0, N)`.  The table is computed (strictly) by the
    caller, so closures do not pile up along a history. -/
def ofTable (a : Array Bool) : Spec.Bits := fun i => if h : i < a.size then a[i] else false

def sStore (t : Array (Array Bool)) : Spec.Store :=
  fun j => if h : j < t.size then ofTable t[j] else Spec.zero

def sTable (N : Nat) (st : Spec.Store) : Array (Array Bool) :=
  (Array.range NOBJ).map fun j => (Array.range N).map (st j)

def fmtE {α : Type} (f : α → String) : Except Err α → String
  | .ok a => f a
  | .error e => e.fmt

def bitsStr (l : List Bool) : String := String.ofList (l.map fun b => if b then '1' else '0')

/-- model dump of one object -/
def dumpM {k : Nat} (N : Nat) (bs : Bool) (ws : Words k) : Except Err String := do
  let bits ← (List.range N).reverse.mapM (fun i => if bs then test N ws i else getConst N ws i)
  let a ← all N ws
  .ok s!"s={bitsStr bits} c={count ws} f={fmtBool a}{fmtBool (any ws)}{fmtBool (none ws)}"

def dumpS (N : Nat) (b : Spec.Bits) : String :=
  let bits := (List.range N).reverse.map (Spec.test b)
  s!"s={bitsStr bits} c={Spec.count N b} f={fmtBool (Spec.all N b)}{fmtBool (Spec.any N b)}{fmtBool (Spec.none N b)}"

def boolArg (l : Line) (k : String) : Option Bool := (l.nat? k).map (· != 0)

/-- protocol line → operation of the history -/
def parseOp (l : Line) : Option Op :=
  match l.op with
  | "set_all" => (l.nat? "o").map .setAll
  | "reset_all" => (l.nat? "o").map .resetAll
  | "flip_all" => (l.nat? "o").map .flipAll
  | "set" =>
    -- `v` absent: `set(pos)` / `unchecked_set(pos)` with the value defaulted
    match boolArg l "v" with
    | some v => do pure (.set (← l.nat? "o") (← l.nat? "pos") v)
    | Option.none => do pure (.setD (← l.nat? "o") (← l.nat? "pos"))
  | "reset" => do pure (.reset (← l.nat? "o") (← l.nat? "pos"))
  | "flip" => do pure (.flip (← l.nat? "o") (← l.nat? "pos"))
  | "ref_assign" => do pure (.refAssign (← l.nat? "o") (← l.nat? "pos") (← boolArg l "v"))
  | "ref_flip" => do pure (.refFlip (← l.nat? "o") (← l.nat? "pos"))
  | "ref_copy" => do pure (.refCopy (← l.nat? "o") (← l.nat? "pos") (← l.nat? "src") (← l.nat? "spos"))
  | "and" => do pure (.andA (← l.nat? "o") (← l.nat? "rhs"))
  | "or" => do pure (.orA (← l.nat? "o") (← l.nat? "rhs"))
  | "xor" => do pure (.xorA (← l.nat? "o") (← l.nat? "rhs"))
  | "band" => do pure (.band (← l.nat? "o") (← l.nat? "a") (← l.nat? "b"))
  | "bor" => do pure (.bor (← l.nat? "o") (← l.nat? "a") (← l.nat? "b"))
  | "bxor" => do pure (.bxor (← l.nat? "o") (← l.nat? "a") (← l.nat? "b"))
  | "assign" => do pure (.assign (← l.nat? "o") (← l.nat? "src"))
  | "not" => do pure (.not (← l.nat? "o") (← l.nat? "src"))
  | "from_ull" => do pure (.fromUll (← l.nat? "o") ((← l.nat? "hi") * 2 ^ 32 + (← l.nat? "lo")))
  | "from_str" => do
    -- an absent key = an argument that is not passed (trailing arguments only); `ct` (the character
    -- type of the harness instantiation) does not enter the model: a character is its code unit value.
    -- `s` of a view call = the characters of the view (an exact-size buffer); `s` of a pointer call
    -- (`ov=cstr`) = the WHOLE allocation behind the pointer: the terminator is part of `s` when there is one
    let str ← l.natList? "s"
    let o ← l.nat? "o"
    let n? : Option Nat ← match l.pos? "n" with
      | some Option.none => some (some NPOS) | some (some n) => some (some n) | Option.none => some Option.none
    let pos? := l.nat? "pos"
    let zero? := l.nat? "zero"
    let one? := l.nat? "one"
    let prefixOk (as : List Bool) : Bool := (as.dropWhile id).all (fun b => !b)
    match (l.str? "ov").getD "sv" with
    | "sv" =>
      if !prefixOk [pos?.isSome, n?.isSome, zero?.isSome, one?.isSome] then Option.none else
      match pos?, n?, zero?, one? with
      | some pos, some n, some z, some c => pure (.fromStr o str pos n z c)
      | _, _, _, _ => pure (.fromStrD o str pos? n? zero? one?)
    | "cstr" =>
      if pos?.isSome || !prefixOk [n?.isSome, zero?.isSome, one?.isSome] then Option.none else
      match n?, zero?, one? with
      | some n, some z, some c => pure (.fromCstr o str n z c)
      | _, _, _ => pure (.fromCstrD o str n? zero? one?)
    | _ => Option.none
  | _ => Option.none

def opTarget : Op → Nat
  | .setAll o | .resetAll o | .flipAll o | .set o _ _ | .reset o _ | .flip o _ | .refAssign o _ _
  | .refFlip o _ | .refCopy o _ _ _ | .andA o _ | .orA o _ | .xorA o _ | .band o _ _ | .bor o _ _
  | .bxor o _ _ | .assign o _ | .not o _ | .fromUll o _ | .fromStr o _ _ _ _ _ | .fromCstr o _ _ _ _
  | .setD o _ | .fromStrD o _ _ _ _ _ | .fromCstrD o _ _ _ _ => o

/-- members that exist on `etl::bitset` only -/
def bsOnly : Op → Bool
  | .not _ _ | .fromStr _ _ _ _ _ _ | .fromCstr _ _ _ _ _ | .fromStrD _ _ _ _ _ _ | .fromCstrD _ _ _ _ _ => true
  | _ => false

def step (st : St) (l : Line) : St × String :=
  let bad := (st, "bad-op\tbad-op")
  let out (m s : String) := m ++ "\t" ++ s
  match l.op with
  | "new" =>
    match l.nat? "N", l.get? "w" with
    | some N, some wv =>
      let kk : Option (Nat × Bool) := match wv with
        | .str "bs" => some (6, true)
        | .int 8 => some (3, false) | .int 16 => some (4, false)
        | .int 32 => some (5, false) | .int 64 => some (6, false)
        | _ => Option.none
      match kk with
      | some (k, bs) =>
        let st' : St := { N := N, k := k, bs := bs, m := .ok (mTable (Store.init N k)), s := sTable N Spec.Store.init }
        (st', out (fmtE id (dumpM N bs (Store.init N k 0))) (dumpS N (Spec.Store.init 0)))
      | Option.none => bad
    | _, _ => bad
  | "probe" =>
    match l.nat? "o", l.nat? "pos" with
    | some o, some pos =>
      let m := do
        let ms ← st.m
        let ws := mStore st.N ms o
        let a ← if st.bs then test st.N ws pos else uncheckedTest st.N ws pos
        let b ← getConst st.N ws pos
        let c ← refGet st.N ws pos
        let d ← refNot st.N ws pos
        pure (bitsStr [a, b, c, d])
      let b := Spec.test (sStore st.s o) pos
      (st, out (fmtE id m) (bitsStr [b, b, b, !b]))
    | _, _ => bad
  | "eq" =>
    match l.nat? "o", l.nat? "rhs" with
    | some o, some rhs =>
      let m := do
        let ms ← st.m
        pure (fmtBool (eq (mStore st.N ms o) (mStore st.N ms rhs)))
      (st, out (fmtE id m) (fmtBool (Spec.eq st.N (sStore st.s o) (sStore st.s rhs))))
    | _, _ => bad
  | "to_ullong" | "to_ulong" =>
    if !st.bs then bad else
    match l.nat? "o" with
    | some o =>
      -- a failed "value fits" contract of the model is what std reports as `overflow_error`
      let m := match st.m with
        | .error e => e.fmt
        | .ok ms => match toUnsigned st.N (mStore st.N ms o) with
          | .ok r => toString r
          | .error (.pre _) => "overflow"
          | .error e => e.fmt
      let v := Spec.toNat st.N (sStore st.s o)
      -- [bitset.members]: throws overflow_error if the value does not fit
      let s := if v < 2 ^ 64 then toString v else "overflow"
      (st, out m s)
    | Option.none => bad
  | "to_string" =>
    if !st.bs then bad else
    match l.nat? "o", l.nat? "cap" with
    | some o, some cap =>
      let zero? := l.nat? "zero"
      let one? := l.nat? "one"
      if one?.isSome && zero?.isNone then bad else
      let m := do
        let ms ← st.m
        match zero?, one? with
        | some z, some c => C17.toStr st.N (mStore st.N ms o) z c cap
        | _, _ => C17.toStrD st.N (mStore st.N ms o) zero? one? cap
      let s := match zero?, one? with
        | some z, some c => Spec.toStr st.N (sStore st.s o) z c
        | _, _ => Spec.toStrD st.N (sStore st.s o) zero? one?
      (st, out (fmtE fmtNatList m) (fmtNatList s))
    | _, _ => bad
  | _ =>
    match parseOp l with
    | Option.none => bad
    | some op =>
      if bsOnly op && !st.bs then bad else
      let o := opTarget op
      let m' := do
        let ms ← st.m
        let r ← C17.step st.N (mStore st.N ms) op
        pure (mTable r)
      let s' := sTable st.N (Spec.step st.N (sStore st.s) op)
      let mo := do
        let ms ← m'
        dumpM st.N st.bs (mStore st.N ms o)
      ({ st with m := m', s := s' }, out (fmtE (fun d => "ok " ++ d) mo) ("ok " ++ dumpS st.N (sStore s' o)))

end Tetl.C17.Driver

def main : IO Unit := Tetl.Proto.runDriver Tetl.C17.Driver.St.initial Tetl.C17.Driver.step
