/- placeholder: the C17 driver is not built yet -/
def main : IO Unit := IO.println "C17: driver not built yet"
