/-
C17 — reference semantics of `std::bitset<N>` ([template.bitset]).  A bitset is a function from bit
positions to `Bool`; only the positions `< N` are ever consulted by an observer (there is nothing
like a storage word, padding or mask here).
-/
import Tetl.C17.Ops
namespace Tetl.C17.Spec

abbrev Bits := Nat → Bool

/-- default constructor: all bits zero -/
def zero : Bits := fun _ => false
/-- `set()` -/
def setAll (_ : Bits) : Bits := fun _ => true
/-- `reset()` -/
def resetAll (_ : Bits) : Bits := fun _ => false
/-- `flip()` / `operator~` -/
def flipAll (b : Bits) : Bits := fun i => !b i
/-- `set(pos, v)`, `reset(pos)`, `b[pos] = v` -/
def set1 (b : Bits) (pos : Nat) (v : Bool) : Bits := fun i => if i = pos then v else b i
/-- `flip(pos)`, `b[pos].flip()` -/
def flip1 (b : Bits) (pos : Nat) : Bits := fun i => if i = pos then !b i else b i
def and (a b : Bits) : Bits := fun i => a i && b i
def or (a b : Bits) : Bits := fun i => a i || b i
def xor (a b : Bits) : Bits := fun i => a i != b i
/-- `bitset(unsigned long long val)`: bit `i` is bit `i` of `val` (`val < 2^64`, so zero above) -/
def ofNat (val : Nat) : Bits := fun i => val.testBit i
/-- `bitset(str, pos, n, zero, one)`: with `rlen = min(n, |str| - pos)` and `M = min(N, rlen)` the
    character at `pos + M - 1 - p` gives bit `p` (`zero` ↦ 0, `one` ↦ 1, anything else throws
    `invalid_argument`: excluded by the precondition), the other bits are zero. -/
def ofString (N : Nat) (str : List Nat) (pos n zeroCh : Nat) : Bits :=
  let used := (((str.drop pos).take n).take N).reverse
  fun i => match used[i]? with
    | some c => c != zeroCh
    | none => false

/-- [bitset.cons]: `pos = 0`, `n = basic_string::npos`, `zero = charT('0')`, `one = charT('1')` -/
def npos : Nat := 2 ^ 64 - 1
def ch0 : Nat := 48
def ch1 : Nat := 49

/-- [bitset.cons] `bitset(const charT* str, n, zero, one)`: "`n == basic_string::npos ? basic_string(str) :
    basic_string(str, n)`" — the characters before the first `charT()` when `n` is `npos`, otherwise EXACTLY
    the first `n` characters, null characters included.  `mem` = what `str` points at. -/
def cstrChars (mem : List Nat) (n : Nat) : List Nat :=
  if n = npos then mem.takeWhile (fun c => c != 0) else mem.take n

/-- `bitset(const charT* str, n, zero, one)` = `bitset(<that string>, 0, n, zero, one)` -/
def ofCstr (N : Nat) (mem : List Nat) (n zeroCh : Nat) : Bits := ofString N (cstrChars mem n) 0 n zeroCh

/-! observers -/
def test (b : Bits) (pos : Nat) : Bool := b pos
def count (N : Nat) (b : Bits) : Nat := (List.range N).countP b
def all (N : Nat) (b : Bits) : Bool := (List.range N).all b
def any (N : Nat) (b : Bits) : Bool := (List.range N).any b
def none (N : Nat) (b : Bits) : Bool := !any N b
def eq (N : Nat) (a b : Bits) : Bool := (List.range N).all (fun i => a i == b i)
/-- `to_ulong` / `to_ullong`: Σ 2^i over the set bits -/
def toNat (N : Nat) (b : Bits) : Nat := ((List.range N).map (fun i => if b i then 2 ^ i else 0)).sum
/-- `to_string(zero, one)`: character 0 is bit `N-1`, the last character is bit 0 -/
def toStr (N : Nat) (b : Bits) (zeroCh oneCh : Nat) : List Nat :=
  (List.range N).reverse.map (fun i => if b i then oneCh else zeroCh)
/-- `to_string()`, `to_string(zero)`: `zero = charT('0')`, `one = charT('1')` -/
def toStrD (N : Nat) (b : Bits) (zeroCh oneCh : Option Nat) : List Nat :=
  toStr N b (arg zeroCh ch0) (arg oneCh ch1)

/-! histories -/
abbrev Store := Nat → Bits

def Store.put (st : Store) (o : Nat) (b : Bits) : Store := fun j => if j = o then b else st j

def step (N : Nat) (st : Store) : Op → Store
  | .setAll o => st.put o (setAll (st o))
  | .resetAll o => st.put o (resetAll (st o))
  | .flipAll o => st.put o (flipAll (st o))
  | .set o pos v => st.put o (set1 (st o) pos v)
  | .reset o pos => st.put o (set1 (st o) pos false)
  | .flip o pos => st.put o (flip1 (st o) pos)
  | .refAssign o pos v => st.put o (set1 (st o) pos v)
  | .refFlip o pos => st.put o (flip1 (st o) pos)
  | .refCopy o pos src spos => st.put o (set1 (st o) pos (st src spos))
  | .andA o rhs => st.put o (and (st o) (st rhs))
  | .orA o rhs => st.put o (or (st o) (st rhs))
  | .xorA o rhs => st.put o (xor (st o) (st rhs))
  | .band o a b => st.put o (and (st a) (st b))
  | .bor o a b => st.put o (or (st a) (st b))
  | .bxor o a b => st.put o (xor (st a) (st b))
  | .assign o src => st.put o (st src)
  | .not o src => st.put o (flipAll (st src))
  | .fromUll o v => st.put o (ofNat v)
  | .fromStr o str pos n zeroCh _ => st.put o (ofString N str pos n zeroCh)
  | .fromCstr o buf n zeroCh _ => st.put o (ofCstr N buf n zeroCh)
  | .setD o pos => st.put o (set1 (st o) pos true)
  | .fromStrD o str pos n zeroCh _ => st.put o (ofString N str (arg pos 0) (arg n npos) (arg zeroCh ch0))
  | .fromCstrD o buf n zeroCh _ => st.put o (ofCstr N buf (arg n npos) (arg zeroCh ch0))

def run (N : Nat) : Store → List Op → Store
  | st, [] => st
  | st, op :: ops => run N (step N st op) ops

def Store.init : Store := fun _ => zero

end Tetl.C17.Spec
