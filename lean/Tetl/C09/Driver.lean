/- placeholder: the C09 driver is not built yet -/
def main : IO Unit := IO.println "C09: driver not built yet"
